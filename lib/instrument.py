"""Yield-point instrumenter of the T2 sched-diff ties (table driven, text substitution on COPIES of gofmt'd sources).

    instrument(table_path, workdir, repo) -> dict(
        overlay   = {original path under the tree: instrumented copy / added file},   (for `go test -overlay`)
        replaces  = {"golang.org/x/sync": <writable instrumented copy>},               (for the harness go.mod)
        placed    = [entry ids], missing = [{id,label,file,why}], sentinels = [ids of sentinel entries that WERE placed],
        windows   = [ids of "window" entries placed (W labels: always placed, transparent in the comparison run)],
        multi     = {id of an "all" entry: number of occurrences instrumented},
        via       = {entry id: "Recv.Helper"}  entries whose anchor was found in a helper the entry's function calls,
        acq_sites = ["<Recv.Func>#<ordinal>:<text>"]  every mutex acquisition found by text in the files of the table's
                    "acquisitions" section (a line ending in one of its "suffixes"); each got `verifStep("A:<site>")` in front;
                    <text> is the statement with its leading identifier (a local or receiver NAME) replaced by `*`,
        log       = [str])

Never raises on an edited tree: an anchor that is not found is reported in `missing`, everything else is placed.
The table format is described in harness/sched/anchors.json. What the matcher tolerates (an edit of these kinds must not
make an anchor "missing"; anything else still does):

  * names of locals, parameters and receivers: `$x` in 'func', 'match', 'match_any', the sentinel's 'open'/'close' and in
    'insert' stands for ONE identifier. The first occurrence binds it (header first, then the match lines in order), later
    occurrences must be the same identifier, 'insert' uses the binding. Text without `$` is literal, as before.
  * trailing `// comments` on an anchor line, comment-only and blank lines between the lines of a multi-line match.
  * a function header wrapped over several lines ('func' is matched against the header joined into one line; "where":
    "body_start" puts the text after the line that opens the body).
  * a statement wrapped over several lines: "before" goes in front of the statement's first line, "after" behind its last.
  * "via_helpers": true — the anchor (a call) is not in the function itself but in ONE helper of the same file which the
    function calls, and every caller of that helper in the file has an entry with the same label and match: the yield point
    goes into the helper (once). A helper with other callers is not accepted: the label would be reached out of context.
  * sentinels ("placed only when the mutex is NOT held at the anchor"): an `if ... { ...; unlock; return }` block that ends
    in return / panic / continue / break / goto before the anchor does not count as releasing the mutex on the path that
    reaches the anchor.
"""
import json
import os
import re
import shutil
import stat
from pathlib import Path

VERIF = Path(__file__).resolve().parent.parent


def _modcache():
    return Path(os.environ.get("GOMODCACHE") or (Path(os.environ.get("GOPATH") or (Path.home() / "go")) / "pkg" / "mod"))


def resolve_module(repo, mod):
    """Directory holding the source of module `mod` as the tree under test sees it: a local `replace` of its go.mod,
    else the module cache at the required version. -> (Path | None, why)"""
    try:
        text = (Path(repo) / "go.mod").read_text()
    except OSError as ex:
        return None, "go.mod unreadable: %s" % ex
    m = re.search(r"^\s*(?:replace\s+)?%s(?:\s+v\S+)?\s*=>\s*(\S+)(?:\s+(v\S+))?\s*$" % re.escape(mod), text, re.M)
    if m:
        tgt, ver = m.group(1), m.group(2)
        if ver is None:
            p = Path(tgt)
            if not p.is_absolute():
                p = (Path(repo) / p).resolve()
            return (p, "replace") if p.is_dir() else (None, "replace target %s missing" % p)
        p = _modcache() / ("%s@%s" % (tgt, ver))
        return (p, "replace") if p.is_dir() else (None, "module cache has no %s@%s" % (tgt, ver))
    m = re.search(r"^\s*(?:require\s+)?%s\s+(v\S+)" % re.escape(mod), text, re.M)
    if not m:
        return None, "%s not required by go.mod" % mod
    p = _modcache() / ("%s@%s" % (mod, m.group(1)))
    return (p, "modcache") if p.is_dir() else (None, "module cache has no %s@%s" % (mod, m.group(1)))


def _copy_writable(src, dst):
    shutil.rmtree(dst, ignore_errors=True)
    shutil.copytree(src, dst)
    for root, dirs, files in os.walk(dst):
        for n in dirs + files:
            p = os.path.join(root, n)
            try:
                os.chmod(p, os.stat(p).st_mode | stat.S_IWUSR | stat.S_IRUSR)
            except OSError:
                pass


_IDENT = r"[A-Za-z_]\w*"
_PH = re.compile(r"\$(" + _IDENT + ")")
_TERMINATORS = ("return", "panic(", "continue", "break", "goto ", "os.Exit(", "log.Fatal")


def _cut(line):
    """index at which a trailing // comment of the line starts (outside string and rune literals), else len(line)"""
    i, q, n = 0, None, len(line)
    while i < n:
        c = line[i]
        if q:
            if c == "\\" and q != "`":
                i += 2
                continue
            if c == q:
                q = None
        elif c in "\"'`":
            q = c
        elif c == "/" and line[i + 1:i + 2] == "/":
            return i
        i += 1
    return n


def _code(line):
    """the line without its trailing // comment, stripped ('' for blank and comment-only lines)"""
    return line[:_cut(line)].strip()


def _nostr(code):
    """code with the contents of string / rune literals blanked (for counting brackets)"""
    out, i, q, n = [], 0, None, len(code)
    while i < n:
        c = code[i]
        if q:
            if c == "\\" and q != "`":
                i += 2
                continue
            if c == q:
                q = None
                out.append(c)
        elif c in "\"'`":
            q = c
            out.append(c)
        else:
            out.append(c)
        i += 1
    return "".join(out)


def _balance(code, opens="([{", closes=")]}"):
    s = _nostr(code)
    return sum(s.count(c) for c in opens) - sum(s.count(c) for c in closes)


def _rx(pat, env, mode):
    """regex of a table pattern: literal text with `$name` placeholders (one identifier each). mode exact|prefix|contains."""
    seen, parts, pos = set(), [], 0
    for m in _PH.finditer(pat):
        parts.append(re.escape(pat[pos:m.start()]))
        n = m.group(1)
        if n in env:
            parts.append(re.escape(env[n]))
        elif n in seen:
            parts.append("(?P=%s)" % n)
        else:
            seen.add(n)
            parts.append("(?P<%s>%s)" % (n, _IDENT))
        pos = m.end()
    parts.append(re.escape(pat[pos:]))
    body = "".join(parts)
    if pat[:1] == "$" and mode == "contains":
        body = r"(?<![\w.])" + body          # a placeholder at the start binds a whole identifier, not the tail of a selector
    if (pat[-1:].isalnum() or pat[-1:] == "_") and mode != "exact":
        body += r"(?!\w)"
    return re.compile(body)


def _match(pat, env, mode, code):
    """bindings (dict, possibly empty) when the code line matches the pattern, else None"""
    rx = _rx(pat, env, mode)
    m = rx.fullmatch(code) if mode == "exact" else (rx.match(code) if mode == "prefix" else rx.search(code))
    return None if m is None else {k: v for k, v in m.groupdict().items() if v is not None}


def _subst(text, env):
    """-> (text with `$name` replaced, [unbound names])"""
    unbound = []

    def f(m):
        if m.group(1) in env:
            return env[m.group(1)]
        unbound.append(m.group(1))
        return m.group(0)
    return _PH.sub(f, text), unbound


def _headers(lines):
    """[(first, last, end, text)] of the gofmt'd top-level functions: `first..last` = header lines (last opens the body),
    `end` = the line of the closing brace, text = the header joined into one line."""
    out, i, n = [], 0, len(lines)
    while i < n:
        if not lines[i].startswith("func "):
            i += 1
            continue
        text, bal, j = "", 0, i
        while j < n:
            c = _code(lines[j])
            if c:
                if not text or text.endswith("("):
                    text += c
                elif c.startswith(")"):
                    text = text.rstrip(",") + c
                else:
                    text += " " + c
            bal += _balance(c, "(", ")")
            if bal <= 0 and (c.endswith("{") or c.endswith("}")):
                break
            j += 1
        last = min(j, n - 1)
        if _code(lines[last]).endswith("}") and _balance(_code(lines[last]), "{", "}") == 0 and last == i:
            end = last                                   # one-line function
        else:
            end = last + 1
            while end < n and lines[end].rstrip() != "}":
                end += 1
            end = min(end, n - 1)
        out.append((i, last, end, text))
        i = end + 1
    return out


def _func_name(text):
    m = re.match(r"func\s+(?:\(\s*\w*\s*\*?\s*(\w+)[^)]*\)\s*)?(\w+)", text)
    if not m:
        return None
    return (m.group(1) + "." if m.group(1) else "") + m.group(2)


def _func_extent(lines, header, env=None):
    """(first, last, end, bindings) of the top-level function whose (joined) header starts with the pattern `header`."""
    for first, last, end, text in _headers(lines):
        b = _match(header, env or {}, "prefix", text)
        if b is not None:
            return first, last, end, b
    return None


def _mode(e):
    return "contains" if e.get("contains") else ("prefix" if e.get("prefix") else "exact")


def _find(lines, lo, hi, match, nth, mode, env):
    """nth occurrence (1-based; negative: counted from the last) in [lo, hi] of the table lines `match` on consecutive CODE
    lines (blank / comment-only lines in between are skipped). -> ([line index of every matched line], bindings) or None"""
    occ = []
    for i in range(lo, hi + 1):
        c = _code(lines[i])
        if not c:
            continue
        e2 = dict(env)
        b = _match(match[0], e2, mode, c)
        if b is None:
            continue
        e2.update(b)
        idx, j, ok = [i], i, True
        for pat in match[1:]:
            j += 1
            while j <= hi and not _code(lines[j]):
                j += 1
            if j > hi:
                ok = False
                break
            b = _match(pat, e2, mode, _code(lines[j]))
            if b is None:
                ok = False
                break
            e2.update(b)
            idx.append(j)
        if ok:
            occ.append((idx, {k: v for k, v in e2.items() if k not in env}))
            if nth > 0 and len(occ) == nth:
                return occ[-1]
    if nth < 0 and len(occ) >= -nth:
        return occ[nth]
    return None


def _find_all(lines, lo, hi, alts, env):
    """indexes of every code line in [lo, hi] that contains one of the patterns `alts` (text order)."""
    out = []
    for i in range(lo, hi + 1):
        c = _code(lines[i])
        if c and any(_match(a, env, "contains", c) is not None for a in alts):
            out.append(i)
    return out


def _funcs(lines):
    """[(name, start, end)] of the gofmt'd top-level functions; methods are named Recv.Func."""
    out = []
    for first, _last, end, text in _headers(lines):
        name = _func_name(text)
        if name:
            out.append((name, first, end))
    return out


def _site_text(code):
    """an acquisition statement with its leading identifier (the NAME of a local / receiver) replaced by `*`"""
    t = re.sub(r"^" + _IDENT + r"(?=\.)", "*", code)
    return t.replace(" ", "_").replace('"', "")


def _addr_arg(stmt, sfx, addr):
    """`, <addr>(&<operand>)` when the statement is `<operand><sfx>` with a plain selector chain as operand (addressable), else ''"""
    if not addr:
        return ""
    operand = stmt[:-len(sfx)]
    return ", %s(&%s)" % (addr, operand) if re.fullmatch(r"[A-Za-z_][\w.]*", operand) else ""


def _acq_pass(lines, suffixes, contains=(), releases=(), addr=None):
    """Inserts `verifStep("A:<func>#<n>:<text>")` before every mutex acquisition found by text. -> (new lines, [sites])
    Additive option (REST layer): `addr` - the name of a helper `func(any) string` of the instrumented package: acquisition and
    release notes then carry the IDENTITY of the mutex object as second argument (`verifStep("A:..", verifAddr(&s.mtx))`), so that a
    harness can tell the mutexes of different objects of one type apart (one mutex per REST session).
    Additive options (layer 2): `contains` - a line that CONTAINS one of these texts is a site too (calls of time.Timer methods:
    `if t.Stop() {`); `releases` - suffixes of mutex releases: `verifStep("R:<text>")` goes AFTER a release statement, and for a
    deferred release `defer verifStep("R:<text>")` goes BEFORE the defer (deferred calls run last-in first-out: the unlock, then the
    note), so that the harness knows which mutexes a goroutine parked at a site holds."""
    sites = []
    inserts = []
    for name, lo, hi in _funcs(lines):
        n = 0
        for i in range(lo + 1, hi + 1):
            t = _code(lines[i])
            if not t or "verifStep(" in t:
                continue
            if releases and any(t.endswith(sfx) for sfx in releases):
                rsfx = next(sfx for sfx in releases if t.endswith(sfx))
                if t.startswith("defer "):
                    d = t[len("defer "):].strip()
                    inserts.append((i, _indent(lines[i]) + 'defer verifStep("R:%s"%s)' % (_site_text(d), _addr_arg(d, rsfx, addr))))
                elif not t.startswith("go ") and not t.startswith("}"):
                    inserts.append((i + 1, _indent(lines[i]) + 'verifStep("R:%s"%s)' % (_site_text(t), _addr_arg(t, rsfx, addr))))
                continue
            if t.startswith("defer ") or t.startswith("go "):
                continue
            if any(t.endswith(sfx) for sfx in suffixes) or (contains and not t.startswith("}") and not t.startswith("case ") and any(c in t for c in contains)):
                n += 1
                site = "%s#%d:%s" % (name, n, _site_text(t))
                sites.append(site)
                asfx = next((sfx for sfx in suffixes if t.endswith(sfx)), None)
                inserts.append((i, _indent(lines[i]) + 'verifStep("A:%s"%s)' % (site, _addr_arg(t, asfx, addr) if asfx else "")))
    for i, text in sorted(inserts, reverse=True):
        lines[i:i] = [text]
    return lines, sites


def _blocks(lines, lo, hi):
    """{opening line: closing line} of the brace blocks inside [lo, hi] (gofmt: a block opens on a line ending in `{` and
    closes on a line starting with `}`; `} else {` does both)."""
    out, stack = {}, []
    for i in range(lo, hi + 1):
        c = _code(lines[i])
        if not c:
            continue
        if c.startswith("}") and stack:
            out[stack.pop()] = i
        if c.endswith("{"):
            stack.append(i)
    return out


def _terminates(lines, opn, close):
    """the block (opn, close) ends in a statement after which control does not reach the code behind the block"""
    for i in range(close - 1, opn, -1):
        c = _code(lines[i])
        if c:
            return c == "return" or c.startswith("return ") or any(c.startswith(t) for t in _TERMINATORS[1:])
    return False


def _held_at(lines, lo, anchor, opn, close, env):
    """Is the mutex (acquired by a line `opn`, released by a line `close`; exact patterns) held on the path that reaches
    the anchor line? Straight-line reading of the function's text, except that a block which ends before the anchor and
    cannot fall through (return / panic / continue / break at its end) is skipped: what it releases is not released on
    the path that goes on to the anchor."""
    blocks = _blocks(lines, lo, anchor)
    held, i = False, lo + 1
    while i < anchor:
        c = _code(lines[i])
        j = blocks.get(i)
        if c.endswith("{") and j is not None and j < anchor and _terminates(lines, i, j):
            # skip the block; its closing line may open an else block (`} else {`): that one is looked at next
            i = j if _code(lines[j]).endswith("{") else j + 1
            continue
        if c and _match(opn, env, "exact", c) is not None:
            held = True
        elif c and _match(close, env, "exact", c) is not None:
            held = False
        i += 1
    return held


def _indent(line):
    return line[:len(line) - len(line.lstrip("\t "))]


def _stmt_first(lines, lo, a):
    """first line of the statement that line `a` (inside the function body starting at `lo`) is part of: a call wrapped over
    several lines. The body of a func literal / composite literal inside a call's arguments starts afresh."""
    start, stack, d = {}, [], 0
    opener = {}
    for i in range(lo, a + 1):
        c = _code(lines[i])
        if c.startswith("}") and stack:
            o, d = stack.pop()
            opener[i] = o
        start[i] = d
        d += _balance(c, "([", ")]")
        if c.endswith("{"):
            stack.append((i, d))
            d = 0
    while a > lo and start.get(a, 0) > 0:
        a -= 1
        if a in opener:
            a = opener[a]
    return a


def _stmt_last(lines, a, hi):
    """last line of the statement that starts on line `a`"""
    d = _balance(_code(lines[a]), "([", ")]")
    while d > 0 and a < hi:
        a += 1
        d += _balance(_code(lines[a]), "([", ")]")
    return a


def _calls(lines, lo, hi, name):
    """does the text of [lo, hi] call the function / method `name`?"""
    rx = re.compile(r"(?<![\w])" + re.escape(name) + r"\(")
    return any(rx.search(_code(lines[i])) for i in range(lo + 1, hi + 1))


def _via_helper(lines, e, entries, lo, hi):
    """The anchor of entry e is not in its own function [lo, hi]: look for it in the helpers that function calls.
    -> (first, last, end, header bindings, helper name) or (None, why)"""
    cands = []
    for first, last, end, text in _headers(lines):
        nm = _func_name(text)
        if not nm or first == lo:
            continue
        short = nm.split(".")[-1]
        if not _calls(lines, lo, hi, short):
            continue
        if _find(lines, last + 1, end, e["match"], 1, _mode(e), {}) is not None:
            cands.append((first, last, end, nm, short))
    if not cands:
        return None, "anchor %r not found in %s nor in a helper it calls" % (e["match"], e["func"])
    if len(cands) > 1:
        return None, "anchor %r found in several helpers called by %s: %s" % (e["match"], e["func"], [c[3] for c in cands])
    first, last, end, nm, short = cands[0]
    # every caller of the helper in this file must want the same label at the same anchor
    accepting = [x["func"] for x in entries if x.get("label") == e.get("label") and x.get("match") == e.get("match") and x.get("via_helpers")]
    for f2, l2, e2, t2 in _headers(lines):
        if f2 == first or not _calls(lines, f2, e2, short):
            continue
        if not any(_match(h, {}, "prefix", t2) is not None for h in accepting):
            return None, "anchor %r is in helper %s, which is also called from %s (no %s entry there)" % (e["match"], nm, _func_name(t2), e.get("label"))
    return (first, last, end, nm), ""


def instrument(table_path, workdir, repo):
    workdir = Path(workdir)
    repo = Path(repo)
    tab = json.loads(Path(table_path).read_text())
    out = dict(overlay={}, replaces={}, placed=[], missing=[], sentinels=[], windows=[], multi={}, via={}, acq_sites=[], log=[])
    roots = {"repo": repo}
    inst_root = workdir / "instr"
    shutil.rmtree(inst_root, ignore_errors=True)
    inst_root.mkdir(parents=True, exist_ok=True)

    need_xsync = any(e.get("root") == "xsync" for e in tab.get("anchors", []) + tab.get("add_files", []))
    if need_xsync:
        src, why = resolve_module(repo, "golang.org/x/sync")
        if src is None:
            out["log"].append("golang.org/x/sync: " + why)
        else:
            dst = workdir / "xsync"
            try:
                _copy_writable(src, dst)
                roots["xsync"] = dst
                out["replaces"]["golang.org/x/sync"] = str(dst)
                out["log"].append("golang.org/x/sync copied from %s (%s)" % (src, why))
            except OSError as ex:
                out["log"].append("copy of %s failed: %s" % (src, ex))

    # group the anchors by file, apply bottom-up so that earlier indexes stay valid
    byfile = {}
    for e in tab.get("anchors", []):
        byfile.setdefault((e["root"], e["file"]), []).append(e)
    for (root, rel), entries in byfile.items():
        if root not in roots:
            for e in entries:
                if not e.get("sentinel"):
                    out["missing"].append(dict(id=e["id"], label=e["label"], file=rel, why="source root %s unavailable" % root))
            continue
        path = roots[root] / rel
        try:
            lines = path.read_text().split("\n")
        except OSError as ex:
            for e in entries:
                if not e.get("sentinel"):
                    out["missing"].append(dict(id=e["id"], label=e["label"], file=rel, why="unreadable: %s" % ex))
            continue
        edits = []  # (line index, kind, text lines, entry)

        def miss(e, why):
            if not e.get("sentinel"):
                out["missing"].append(dict(id=e["id"], label=e["label"], file=rel, why=why))
            else:
                out["log"].append("sentinel %s not placed: %s" % (e["id"], why))

        def text_of(e, ind, env, n_=None):
            raw = e["insert"] if n_ is None else e["insert"].replace("{n}", str(n_))
            raw, unbound = _subst(raw, env)
            if unbound:
                return None, "insert text uses %s, which the match did not bind" % ", ".join("$" + u for u in unbound)
            return [ind + t if t else t for t in raw.split("\n")], ""

        for e in entries:
            try:
                ext = _func_extent(lines, e["func"])
                if ext is None:
                    miss(e, "function %r not found" % e["func"])
                    continue
                first, last, hi, env = ext
                lo = first
                unbound_bind = None
                for bp in e.get("bind", []):
                    fb = _find(lines, last + 1, hi, [bp], 1, "exact", env)
                    if fb is None:
                        unbound_bind = bp
                        break
                    env = dict(env, **fb[1])
                if unbound_bind is not None:
                    miss(e, "statement %r (which names the anchor's variables) not found in %s" % (unbound_bind, e["func"]))
                    continue
                if e.get("all"):
                    # every occurrence of one of the texts inside the function is instrumented; {n} = ordinal in text order
                    hits = _find_all(lines, last + 1, hi, e["match_any"], env)
                    if not hits:
                        out["missing"].append(dict(id=e["id"], label=e["label"], file=rel, why="none of %r found in %s" % (e["match_any"], e["func"])))
                        continue
                    out["multi"][e["id"]] = len(hits)
                    for n_, a in enumerate(hits, 1):
                        a = _stmt_first(lines, last + 1, a)
                        text, why = text_of(e, _indent(lines[a]), env, n_)
                        if text is None:
                            miss(e, why)
                            break
                        edits.append((a, e.get("where", "before"), text, dict(e, id="%s#%d" % (e["id"], n_))))
                    continue
                if e.get("where") == "body_start":
                    text, why = text_of(e, "\t", env)
                    if text is None:
                        miss(e, why)
                        continue
                    edits.append((last, "after", text, e))
                    continue
                header_is_anchor = len(e["match"]) == 1 and e["match"][0] == e["func"] and e.get("where") == "after"
                if header_is_anchor:
                    text, why = text_of(e, "\t", env)
                    if text is None:
                        miss(e, why)
                        continue
                    edits.append((last, "after", text, e))
                    continue
                found = _find(lines, last + 1, hi, e["match"], int(e.get("nth", 1)), _mode(e), env)
                if found is None and e.get("via_helpers") and not e.get("sentinel"):
                    h, why = _via_helper(lines, e, entries, first, hi)
                    if h is None:
                        miss(e, why)
                        continue
                    first, last, hi, helper = h
                    lo, env = first, {}
                    found = _find(lines, last + 1, hi, e["match"], 1, _mode(e), env)
                    out["via"][e["id"]] = helper
                if found is None:
                    miss(e, "anchor %r not found in %s" % (e["match"], e["func"]))
                    continue
                idx, b = found
                env = dict(env, **b)
                a = idx[int(e.get("at", 0))]
                if e.get("sentinel"):
                    if _held_at(lines, lo, a, e["sentinel"]["open"], e["sentinel"]["close"], env):
                        continue
                    out["sentinels"].append(e["id"])
                    out.setdefault("sentinel_concerns", {})[e["id"]] = e["sentinel"].get("concerns") or []
                if e.get("window"):
                    out["windows"].append(e["id"])
                where = e["where"]
                if where == "before":
                    a = _stmt_first(lines, last + 1, a)
                elif where == "after":
                    a = _stmt_last(lines, a, hi)
                elif where == "replace" and _stmt_last(lines, a, hi) != a:
                    miss(e, "the statement to replace (%r) is wrapped over several lines" % (e["match"],))
                    continue
                ind = _indent(lines[a])
                ca = _code(lines[a])
                if where == "after" and (ca.endswith("{") or ca.endswith(":")):
                    ind += "\t"
                text, why = text_of(e, ind, env)
                if text is None:
                    miss(e, why)
                    continue
                edits.append((a, where, text, e))
            except Exception as ex:  # noqa  (a table entry the matcher cannot digest is a missing anchor, never a crash)
                miss(e, "matcher failed: %r" % (ex,))
        done = set()
        for a, where, text, e in sorted(edits, key=lambda x: (-x[0], 0 if x[1] == "after" else 1)):
            key = (a, where, tuple(text))
            if key in done:
                out["placed"].append(e["id"])      # two entries resolved to the same place (a shared helper): one insert
                continue
            done.add(key)
            if where == "before":
                lines[a:a] = text
            elif where == "after":
                lines[a + 1:a + 1] = text
            else:
                lines[a:a + 1] = text
            out["placed"].append(e["id"])
        if root == "repo":
            dst = inst_root / rel
            dst.parent.mkdir(parents=True, exist_ok=True)
            dst.write_text("\n".join(lines))
            out["overlay"][str(repo / rel)] = str(dst)
        else:
            path.write_text("\n".join(lines))

    # every mutex acquisition found by text, in whole files (after the anchors: the model's yield points stay in front of theirs)
    acq = tab.get("acquisitions") or {}
    for f in acq.get("files", []):
        root, rel = f["root"], f["file"]
        if root not in roots:
            continue
        src = roots[root] / rel
        cur = Path(out["overlay"].get(str(repo / rel), src)) if root == "repo" else src
        try:
            lines = cur.read_text().split("\n")
        except OSError as ex:
            out["log"].append("acquisitions: %s unreadable: %s" % (rel, ex))
            continue
        try:
            lines, sites = _acq_pass(lines, acq.get("suffixes", [".Lock()", ".RLock()"]), tuple(acq.get("contains", ())), tuple(acq.get("releases", ())),
                                     addr=acq.get("addr"))
            out.setdefault("acq_sites_by_file", {})[rel] = list(sites)
        except Exception as ex:  # noqa
            out["log"].append("acquisitions: %s: %r" % (rel, ex))
            continue
        out["acq_sites"] += sites
        if root == "repo":
            dst = inst_root / rel
            dst.parent.mkdir(parents=True, exist_ok=True)
            dst.write_text("\n".join(lines))
            out["overlay"][str(repo / rel)] = str(dst)
        else:
            src.write_text("\n".join(lines))

    for f in tab.get("add_files", []):
        root = f["root"]
        if root not in roots:
            continue
        if "from" in f:
            try:
                text = (VERIF / f["from"]).read_text()
            except OSError as ex:
                out["log"].append("add_file %s: %s" % (f["file"], ex))
                continue
        else:
            text = f["text"]
        if root == "repo":
            dst = inst_root / f["file"]
            dst.parent.mkdir(parents=True, exist_ok=True)
            dst.write_text(text)
            out["overlay"][str(repo / f["file"])] = str(dst)
        else:
            dst = roots[root] / f["file"]
            dst.parent.mkdir(parents=True, exist_ok=True)
            dst.write_text(text)
    out["placed"].sort()
    return out


if __name__ == "__main__":
    import sys
    r = instrument(sys.argv[1], sys.argv[2], sys.argv[3] if len(sys.argv) > 3 else "/repo")
    print(json.dumps({k: v for k, v in r.items()}, indent=1))
