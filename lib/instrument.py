"""Yield-point instrumenter of the T2 sched-diff ties (table driven, plain text substitution on COPIES).

    instrument(table_path, workdir, repo) -> dict(
        overlay   = {original path under the tree: instrumented copy / added file},   (for `go test -overlay`)
        replaces  = {"golang.org/x/sync": <writable instrumented copy>},               (for the harness go.mod)
        placed    = [entry ids], missing = [{id,label,file,why}], sentinels = [ids of sentinel entries that WERE placed],
        windows   = [ids of "window" entries placed (W labels: always placed, transparent in the comparison run)],
        multi     = {id of an "all" entry: number of occurrences instrumented},
        acq_sites = ["<Recv.Func>#<ordinal>:<text>"]  every mutex acquisition found by text in the files of the table's
                    "acquisitions" section (a line ending in one of its "suffixes"); each got `verifStep("A:<site>")` in front,
        log       = [str])

Never raises on an edited tree: an anchor that is not found is reported in `missing`, everything else is placed.
The table format is described in harness/sched/anchors.json.
"""
import json
import os
import re
import shutil
import stat
from pathlib import Path

VERIF = Path(__file__).resolve().parent.parent


def _modcache():
    return Path(os.environ.get("GOMODCACHE") or (Path(os.environ.get("GOPATH") or (Path.home() / "go")) / "pkg" / "mod"))


def resolve_module(repo, mod):
    """Directory holding the source of module `mod` as the tree under test sees it: a local `replace` of its go.mod,
    else the module cache at the required version. -> (Path | None, why)"""
    try:
        text = (Path(repo) / "go.mod").read_text()
    except OSError as ex:
        return None, "go.mod unreadable: %s" % ex
    m = re.search(r"^\s*(?:replace\s+)?%s(?:\s+v\S+)?\s*=>\s*(\S+)(?:\s+(v\S+))?\s*$" % re.escape(mod), text, re.M)
    if m:
        tgt, ver = m.group(1), m.group(2)
        if ver is None:
            p = Path(tgt)
            if not p.is_absolute():
                p = (Path(repo) / p).resolve()
            return (p, "replace") if p.is_dir() else (None, "replace target %s missing" % p)
        p = _modcache() / ("%s@%s" % (tgt, ver))
        return (p, "replace") if p.is_dir() else (None, "module cache has no %s@%s" % (tgt, ver))
    m = re.search(r"^\s*(?:require\s+)?%s\s+(v\S+)" % re.escape(mod), text, re.M)
    if not m:
        return None, "%s not required by go.mod" % mod
    p = _modcache() / ("%s@%s" % (mod, m.group(1)))
    return (p, "modcache") if p.is_dir() else (None, "module cache has no %s@%s" % (mod, m.group(1)))


def _copy_writable(src, dst):
    shutil.rmtree(dst, ignore_errors=True)
    shutil.copytree(src, dst)
    for root, dirs, files in os.walk(dst):
        for n in dirs + files:
            p = os.path.join(root, n)
            try:
                os.chmod(p, os.stat(p).st_mode | stat.S_IWUSR | stat.S_IRUSR)
            except OSError:
                pass


def _func_extent(lines, header):
    """(start, end) line indexes of the gofmt'd top-level function whose header line starts with `header`."""
    for i, l in enumerate(lines):
        if l.startswith(header):
            for j in range(i + 1, len(lines)):
                if lines[j].rstrip() == "}":
                    return i, j
            return i, len(lines) - 1
    return None


def _find(lines, lo, hi, match, nth, prefix, contains=False):
    """index (absolute) of the first line of the nth occurrence of the consecutive stripped lines `match` in [lo, hi]."""
    seen = 0
    k = len(match)
    for i in range(lo, hi - k + 2):
        ok = True
        for d in range(k):
            s = lines[i + d].strip()
            if (match[d] in s and not s.startswith("//")) if contains else (s.startswith(match[d]) if prefix else s == match[d]):
                continue
            ok = False
            break
        if ok:
            seen += 1
            if seen == nth:
                return i
    return None


def _find_all(lines, lo, hi, alts):
    """indexes of every non-comment line in [lo, hi] that contains one of the texts `alts` (text order)."""
    out = []
    for i in range(lo, hi + 1):
        t = lines[i].strip()
        if t.startswith("//"):
            continue
        if any(a in t for a in alts):
            out.append(i)
    return out


def _funcs(lines):
    """[(name, start, end)] of the gofmt'd top-level functions; methods are named Recv.Func."""
    out = []
    i = 0
    while i < len(lines):
        l = lines[i]
        if l.startswith("func "):
            m = re.match(r"func\s+(?:\(\s*\w*\s*\*?\s*(\w+)[^)]*\)\s*)?(\w+)", l)
            name = None
            if m:
                name = (m.group(1) + "." if m.group(1) else "") + m.group(2)
            j = i
            if not l.rstrip().endswith("}"):
                j = i + 1
                while j < len(lines) and lines[j].rstrip() != "}":
                    j += 1
            if name:
                out.append((name, i, min(j, len(lines) - 1)))
            i = j + 1
        else:
            i += 1
    return out


def _acq_pass(lines, suffixes):
    """Inserts `verifStep("A:<func>#<n>:<text>")` before every mutex acquisition found by text. -> (new lines, [sites])"""
    sites = []
    inserts = []
    for name, lo, hi in _funcs(lines):
        n = 0
        for i in range(lo + 1, hi + 1):
            t = lines[i].strip()
            if not t or t.startswith("//") or t.startswith("defer ") or t.startswith("go ") or "verifStep(" in t:
                continue
            if any(t.endswith(sfx) for sfx in suffixes):
                n += 1
                site = "%s#%d:%s" % (name, n, t.replace(" ", "_").replace('"', ""))
                sites.append(site)
                inserts.append((i, _indent(lines[i]) + 'verifStep("A:%s")' % site))
    for i, text in sorted(inserts, reverse=True):
        lines[i:i] = [text]
    return lines, sites


def _held_at(lines, lo, anchor, opn, close):
    held = False
    for i in range(lo, anchor):
        s = lines[i].strip()
        if s == opn:
            held = True
        elif s == close:
            held = False
    return held


def _indent(line):
    return line[:len(line) - len(line.lstrip("\t "))]


def instrument(table_path, workdir, repo):
    workdir = Path(workdir)
    repo = Path(repo)
    tab = json.loads(Path(table_path).read_text())
    out = dict(overlay={}, replaces={}, placed=[], missing=[], sentinels=[], windows=[], multi={}, acq_sites=[], log=[])
    roots = {"repo": repo}
    inst_root = workdir / "instr"
    shutil.rmtree(inst_root, ignore_errors=True)
    inst_root.mkdir(parents=True, exist_ok=True)

    need_xsync = any(e.get("root") == "xsync" for e in tab.get("anchors", []) + tab.get("add_files", []))
    if need_xsync:
        src, why = resolve_module(repo, "golang.org/x/sync")
        if src is None:
            out["log"].append("golang.org/x/sync: " + why)
        else:
            dst = workdir / "xsync"
            try:
                _copy_writable(src, dst)
                roots["xsync"] = dst
                out["replaces"]["golang.org/x/sync"] = str(dst)
                out["log"].append("golang.org/x/sync copied from %s (%s)" % (src, why))
            except OSError as ex:
                out["log"].append("copy of %s failed: %s" % (src, ex))

    # group the anchors by file, apply bottom-up so that earlier indexes stay valid
    byfile = {}
    for e in tab.get("anchors", []):
        byfile.setdefault((e["root"], e["file"]), []).append(e)
    for (root, rel), entries in byfile.items():
        if root not in roots:
            for e in entries:
                if not e.get("sentinel"):
                    out["missing"].append(dict(id=e["id"], label=e["label"], file=rel, why="source root %s unavailable" % root))
            continue
        path = roots[root] / rel
        try:
            lines = path.read_text().split("\n")
        except OSError as ex:
            for e in entries:
                if not e.get("sentinel"):
                    out["missing"].append(dict(id=e["id"], label=e["label"], file=rel, why="unreadable: %s" % ex))
            continue
        edits = []  # (line index, kind, text lines, entry)
        for e in entries:
            ext = _func_extent(lines, e["func"])
            if ext is None:
                if not e.get("sentinel"):
                    out["missing"].append(dict(id=e["id"], label=e["label"], file=rel, why="function %r not found" % e["func"]))
                continue
            lo, hi = ext
            if e.get("all"):
                # every occurrence of one of the texts inside the function is instrumented; {n} = ordinal in text order
                hits = _find_all(lines, lo, hi, e["match_any"])
                if not hits:
                    out["missing"].append(dict(id=e["id"], label=e["label"], file=rel, why="none of %r found in %s" % (e["match_any"], e["func"])))
                    continue
                out["multi"][e["id"]] = len(hits)
                for n_, a in enumerate(hits, 1):
                    ind = _indent(lines[a])
                    text = [ind + t if t else t for t in e["insert"].replace("{n}", str(n_)).split("\n")]
                    edits.append((a, e.get("where", "before"), text, dict(e, id="%s#%d" % (e["id"], n_))))
                continue
            i = _find(lines, lo, hi, e["match"], int(e.get("nth", 1)), bool(e.get("prefix")), bool(e.get("contains")))
            if i is None:
                if not e.get("sentinel"):
                    out["missing"].append(dict(id=e["id"], label=e["label"], file=rel, why="anchor %r not found in %s" % (e["match"], e["func"])))
                continue
            a = i + int(e.get("at", 0))
            if e.get("sentinel"):
                if _held_at(lines, lo, a, e["sentinel"]["open"], e["sentinel"]["close"]):
                    continue
                out["sentinels"].append(e["id"])
                out.setdefault("sentinel_concerns", {})[e["id"]] = e["sentinel"].get("concerns") or []
            if e.get("window"):
                out["windows"].append(e["id"])
            where = e["where"]
            ind = _indent(lines[a])
            if where == "after" and (lines[a].rstrip().endswith("{") or lines[a].rstrip().endswith(":")):
                ind += "\t"
            text = [ind + t if t else t for t in e["insert"].split("\n")]
            edits.append((a, where, text, e))
        for a, where, text, e in sorted(edits, key=lambda x: (-x[0], 0 if x[1] == "after" else 1)):
            if where == "before":
                lines[a:a] = text
            elif where == "after":
                lines[a + 1:a + 1] = text
            else:
                lines[a:a + 1] = text
            out["placed"].append(e["id"])
        if root == "repo":
            dst = inst_root / rel
            dst.parent.mkdir(parents=True, exist_ok=True)
            dst.write_text("\n".join(lines))
            out["overlay"][str(repo / rel)] = str(dst)
        else:
            path.write_text("\n".join(lines))

    # every mutex acquisition found by text, in whole files (after the anchors: the model's yield points stay in front of theirs)
    acq = tab.get("acquisitions") or {}
    for f in acq.get("files", []):
        root, rel = f["root"], f["file"]
        if root not in roots:
            continue
        src = roots[root] / rel
        cur = Path(out["overlay"].get(str(repo / rel), src)) if root == "repo" else src
        try:
            lines = cur.read_text().split("\n")
        except OSError as ex:
            out["log"].append("acquisitions: %s unreadable: %s" % (rel, ex))
            continue
        try:
            lines, sites = _acq_pass(lines, acq.get("suffixes", [".Lock()", ".RLock()"]))
        except Exception as ex:  # noqa
            out["log"].append("acquisitions: %s: %r" % (rel, ex))
            continue
        out["acq_sites"] += sites
        if root == "repo":
            dst = inst_root / rel
            dst.parent.mkdir(parents=True, exist_ok=True)
            dst.write_text("\n".join(lines))
            out["overlay"][str(repo / rel)] = str(dst)
        else:
            src.write_text("\n".join(lines))

    for f in tab.get("add_files", []):
        root = f["root"]
        if root not in roots:
            continue
        if "from" in f:
            try:
                text = (VERIF / f["from"]).read_text()
            except OSError as ex:
                out["log"].append("add_file %s: %s" % (f["file"], ex))
                continue
        else:
            text = f["text"]
        if root == "repo":
            dst = inst_root / f["file"]
            dst.parent.mkdir(parents=True, exist_ok=True)
            dst.write_text(text)
            out["overlay"][str(repo / f["file"])] = str(dst)
        else:
            dst = roots[root] / f["file"]
            dst.parent.mkdir(parents=True, exist_ok=True)
            dst.write_text(text)
    out["placed"].sort()
    return out


if __name__ == "__main__":
    import sys
    r = instrument(sys.argv[1], sys.argv[2], sys.argv[3] if len(sys.argv) > 3 else "/repo")
    print(json.dumps({k: v for k, v in r.items()}, indent=1))
