"""T4-cli — the process-level tie of property C18: the REAL admin tool against the REAL server.

No model covers the process level (net/rpc over a unix socket, kong's argument parsing, exit statuses). The binaries
`ldlm-server` and `ldlm-lock` are built here from the tree under test (go build ./cmd/server ./cmd/lock); harness/e2e/c18
starts the server as a child process with an IPC socket and a state file in the scenario's directory, drives it with 2-3 raw
gRPC clients (one connection = one session) through a seeded script, and runs the admin tool as a child process:

    ldlm-lock [-s SOCK | --socket=SOCK | LDLM_IPC_SOCKET_FILE=SOCK] list
    ldlm-lock [...] unlock <lock-name> [<key>]

The oracle below is the property itself, evaluated on what the real processes did. The clients' acknowledged calls say which
holds are live (a leased hold is live until grant invocation + lease, gone after grant acknowledgement + lease + 0.4 s, and may
be either in between; scripts avoid looking in between):
  list_runs              `list` exits 0 and every line is one hold `{Name: .., Key: .., Size: ..}` (or `No locks found` alone)
  list_nothing_missing   every live hold is listed (name, key, size), whichever session owns it, restored ones included
  list_nothing_stale     nothing else is listed: no released hold, no expired hold, no duplicate
  unlock_reports_ok      `unlock` of a live hold (by name+key / by name) exits 0 and does not say false
  unlock_releases        ... and the hold is gone from the next listing
  by_name_exactly_one    `unlock <name>` with several holds of that name releases exactly one of them
  file_drops_released    the state file, copied right after the command returned and decoded with the tree's own store, no
                         longer lists the released hold
  file_exact             ... and lists exactly the live holds
  capacity_freed         a TryLock refused before the unlock is granted after it / a Lock blocked on the lock is granted
  capacity_freed_once    ... and only one: the next TryLock is refused / the second blocked Lock stays blocked
  lease_gone             Renew with the released hold's key fails with LockDoesNotExistOrInvalidKey; the server logs no lease
                         timeout for it
  quiet_after_lease      after the released hold's old lease has elapsed, listing and state file are what the clients know
  old_key_dead           the holder's own Unlock with the old key answers unlocked=false
  others_untouched       leased holds of other sessions / names can still be renewed
  capacity_kept          full locks stay full after a failed unlock
  unlock_fails           `unlock` of an unknown name / a wrong key / an already released hold exits non-zero and claims nothing
  fail_changes_nothing   ... and listing and state file are unchanged
  restart_consistent     after a shutdown and a restart on the state file the listing is exactly the live holds
  cli_no_crash           the tool never times out, is never killed by a signal, prints no panic
  list_matches_ipc       `list` prints exactly the entries IPC.ListLocks of the same server returns (the driver asks the
                         IPC receiver itself, right before and right after the tool ran), one per line
  unlock_exact           the server's own listing right before and right after `unlock NAME [KEY]` differs by exactly the hold
                         the IPC semantics designate for the arguments AS GIVEN (name+key: that hold; name alone: one hold of
                         exactly that name; no such hold: nothing) — no hold of another name, e.g. of the name with its
                         surrounding whitespace removed, is released instead or in addition
Names: besides plain ones, names with leading / trailing space, tab, newline, CR, NBSP together with a sibling lock whose
name is the trimmed form (held by another session), names that are only whitespace, the empty name (nobody can hold it:
unlock must fail), keys padded with whitespace (a wrong key), names kong would read as flags or commands (`-x`, `--help`,
`--socket=..`, `--`, `unlock`) and names with quotes, `$`, backquotes, `, Key: ` or a whole listing line inside. The tool
supports `--`: flag-like names are passed as `unlock -- NAME [KEY]`; one bare attempt without `--` per such scenario
records what the tool does (kong: usage error, exit 80, or its help text) and is judged only on changing nothing. The
listing is read back entry by entry (an entry may contain newlines): the text of every hold the clients know is looked for
first, `{Name: (.*?), Key: (\S*), Size: (\d+)}` otherwise.
The same script steps and the same clauses are applied to releases by the holder's own Unlock and by another session's Unlock
(control: "the same effect as the holder's own Unlock").

    python3 -m lib.clitie [--tier quick|thorough] [--seed N] [--replay FILE [--runs N]] [-v]
    clitie.run_property(ctx, tier=None)       from checks/c18.py (coverage under ctx.coverage["ties"]["T4-cli"]); when
                                              ctx.replay names one of this tie's replay files it re-runs that scenario
    python3 -m lib.clitie --sensitivity [--only ids]   seeded defects in scratch worktrees under /tmp/c18bin (development tool)
VERIF_REPO selects the tree.
"""
import json
import os
import random
import re
import shutil
import signal
import subprocess
import sys
import time
from pathlib import Path

if __name__ == "__main__":
    sys.path.insert(0, str(Path(__file__).resolve().parent.parent))

from lib import vcheck

SLACK_US = 400000          # a lease that ran out this long ago must have been processed
PAST_MS = 700              # scripts look this long after a lease ran out
CLAUSES = ["list_runs", "list_nothing_missing", "list_nothing_stale", "unlock_reports_ok", "unlock_releases", "by_name_exactly_one",
           "file_drops_released", "file_exact", "capacity_freed", "capacity_freed_once", "lease_gone", "quiet_after_lease",
           "old_key_dead", "others_untouched", "capacity_kept", "unlock_fails", "fail_changes_nothing", "restart_consistent",
           "cli_no_crash", "list_matches_ipc", "unlock_exact"]
KINDS = ["key", "name1", "nameN", "leased", "restored", "blocked", "negative", "control", "wsname", "wsonly", "hostile"]
NEW_KINDS = ("wsname", "wsonly", "hostile")
HEADLINE = ["unlock_exact", "unlock_releases", "unlock_reports_ok", "unlock_fails", "by_name_exactly_one"]    # what a violation's text starts with
NAMES = ["jobs", "db/main", "cache.v2", "report 7", "q:high", "x", "Z_9", "a-b"]
LINE_RE = re.compile(r"^\{Name: (.*), Key: (\S*), Size: (-?\d+)\}$")
ENTRY_RE = re.compile(r"\{Name: (.*?), Key: (\S*), Size: (-?\d+)\}", re.S)
WS = [" ", "\t", "\n", "  ", "\r", " \t", "\u00a0", "\r\n"]
WS_BASES = ["jobs", "batch", "a", "db/main", "q:high", "Z_9"]
WS_ONLY = [" ", "  ", "\t", "\n", " \t ", "\r\n", "\u00a0", "\n\n"]
HOSTILE = ["-x", "--help", "--socket=/nonexistent", "-s", "--", "-", "-h", "it's", 'q"uote', "$HOME `id`", "a, Key: b",
           "{Name: x, Key: y, Size: 1}", "unlock", "list", "\u00fc\u2014\u540d", "*", "a\\b", "%s%d", "; rm -rf /", "a}\n{Name: b", "--key=1"]


def flaglike(name):
    return name.startswith("-")


def q(name):
    """A lock name in a message: as it is when plain, JSON-quoted when it has whitespace, quotes or control characters."""
    return name if re.fullmatch(r"[A-Za-z0-9_./:@%+-]+", name or "") else json.dumps(name, ensure_ascii=False)


def argv_text(args):
    """The tool's arguments, unambiguous for names with whitespace or quotes."""
    return " ".join(a if re.fullmatch(r"[A-Za-z0-9_./:=@%+,-]+", a) else json.dumps(a, ensure_ascii=False) for a in args)
NOCODE = "LockDoesNotExistOrInvalidKey"


# ------------------------------------------------------------------------------------------------------------ scenarios

class Script:
    """Builds one scenario. Keeps a rough view (which holds the script expects to be live) only to decide what to ask next;
    the oracle works from the observations, not from this view."""

    def __init__(self, rng, sid, kind, locks, clients, dlt=600, no_clear=False):
        self.rng, self.kind = rng, kind
        self.sc = {"id": sid, "kind": kind, "locks": locks, "clients": clients, "no_clear": no_clear, "default_lock_timeout": dlt, "steps": []}
        self.size = {l["name"]: l["size"] for l in locks}
        self.live = {}        # hold id -> {"name", "lease", "c", "step"}
        self.gone = {}        # released holds whose identity the script knows
        self.fuzzy = set()    # names on which an unlock by name released an unknown hold
        self.waiting = {}     # name -> number of blocked calls the script expects to be pending
        self.returned = {}    # name -> blocked calls expected to have returned
        self.n = 0

    def add(self, **st):
        self.sc["steps"].append({k: v for k, v in st.items() if v not in (None, "")})
        return len(self.sc["steps"]) - 1

    def newid(self, p="h"):
        self.n += 1
        return "%s%d" % (p, self.n)

    def via(self):
        return self.rng.choice(["short", "short", "long", "env"])

    def count(self, name):
        return sum(1 for h in self.live.values() if h["name"] == name)

    def room(self, name):
        return self.size[name] - self.count(name)

    def other(self, c):
        return self.rng.choice([x for x in range(self.sc["clients"]) if x != c] or [c])

    def sep(self, name):
        """`unlock -- NAME`: always for names kong would read as flags, now and then for the others (new kinds only, so that
        the scripts of the older kinds stay what they were)."""
        if flaglike(name):
            return True
        return self.kind in NEW_KINDS and self.rng.random() < 0.2

    def hold(self, c, name, lease=0, via=None, role="setup"):
        hid = self.newid()
        i = self.add(op="acquire", c=c, id=hid, name=name, lease=lease, via=via or self.rng.choice(["trylock", "trylock", "lock"]), role=role)
        self.live[hid] = {"name": name, "lease": lease, "c": c, "step": i}
        return hid

    def refused(self, c, name, role):
        self.add(op="acquire", c=c, id=self.newid("r"), name=name, via="trylock", role=role)

    def look(self, role):
        self.add(op="read_state", role=role)
        self.add(op="cli_list", via=self.via(), role=role)

    def park(self, c, name, lease=0):
        wid = self.newid("w")
        self.add(op="park", c=c, id=wid, name=name, lease=lease)
        self.waiting[name] = self.waiting.get(name, 0) + 1
        return wid

    def holds_on(self, name):
        return [k for k, h in self.live.items() if h["name"] == name and not k.startswith("g")]

    def release(self, how, hid=None, name=None, check_lease=True, probe=True):
        """One release and everything the property says about its effect. how: cli-key | cli-name | own | other"""
        if hid is not None:
            name = self.live[hid]["name"]
        was_full = self.room(name) <= 0
        waiters = self.waiting.get(name, 0)
        holder = self.live[hid]["c"] if hid else 0
        prober = self.other(holder)
        probed = False
        if was_full and not waiters and probe and self.rng.random() < 0.85:
            self.refused(prober, name, "pre_full")
            probed = True
        if how == "cli-key":
            self.add(op="cli_unlock", by="key", target=hid, via=self.via(), role="release", sep=self.sep(name))
        elif how == "cli-name":
            if hid is None:
                real = [k for k, h in self.live.items() if h["name"] == name and not k.startswith("g")]
                if self.count(name) == 1 and real:
                    hid = real[0]
                else:
                    self.fuzzy.add(name)
            if hid is not None:
                self.add(op="cli_unlock", by="name", target=hid, via=self.via(), role="release", sep=self.sep(name))
            else:
                self.add(op="cli_unlock", by="raw", name=name, via=self.via(), role="release", sep=self.sep(name))
        elif how == "own":
            self.add(op="unlock", c=holder, target=hid, role="release")
        else:
            self.add(op="unlock", c=self.other(holder), target=hid, role="release")
        if hid is not None:
            self.gone[hid] = self.live.pop(hid)
        else:   # one unknown hold of the name: the script forgets one (any) of them for its own counting
            k = next(k for k, h in self.live.items() if h["name"] == name)
            self.gone[k + "?"] = self.live.pop(k)
        if waiters and was_full:
            self.returned[name] = self.returned.get(name, 0) + 1
            self.add(op="await", name=name, count=self.returned[name], ms=2500, role="freed")
            self.waiting[name] = waiters - 1
            wid = self.newid("g")
            self.live[wid] = {"name": name, "lease": 0, "c": 0, "step": len(self.sc["steps"]) - 1}   # counting only
        self.look("after_unlock")
        if waiters and was_full:
            self.add(op="waiters", name=name, ms=120, role="freed_once")
        elif was_full and probe and (probed or self.rng.random() < 0.85):
            self.hold(prober, name, lease=0, via="trylock", role="freed")
            if self.room(name) <= 0:
                self.refused(self.other(prober), name, "freed_once")
        if check_lease:
            ids = [k.rstrip("?") for k, h in list(self.gone.items()) + list(self.live.items()) if h["name"] == name and not k.startswith("g")]
            if name in self.fuzzy:
                self.add(op="renew", c=prober, targets=sorted(set(ids)), lease=60, role="lease_gone")
            elif hid is not None:
                self.add(op="renew", c=prober, targets=[hid], lease=self.gone[hid]["lease"] or 60, role="lease_gone")
                if self.rng.random() < 0.6:
                    self.add(op="unlock", c=holder, target=hid, role="old_key_dead")
        return hid

    def past_lease(self, hid):
        """Real time moves past the old lease of a released hold; then listing and file again."""
        h = self.gone.get(hid) or self.live.get(hid)
        self.add(op="sleep_since", ref=h["step"], ms=h["lease"] * 1000 + PAST_MS)
        for k in [k for k, x in self.live.items() if 0 < x["lease"] <= h["lease"] and x["step"] <= h["step"]]:
            self.gone[k] = self.live.pop(k)          # short leases granted earlier ran out as well
        self.look("after_lease")

    def restart(self):
        i = self.add(op="restart")
        for h in self.live.values():
            h["lease"], h["step"] = self.sc["default_lock_timeout"], i
        self.waiting, self.returned = {}, {}
        self.add(op="cli_list", via=self.via(), role="after_restart")
        return i

    def bad_unlock(self, name, key=None, key_pre=None, key_post=None):
        self.add(op="cli_unlock", by="raw", name=name, key=key, key_pre=key_pre, key_post=key_post, via=self.via(), role="must_fail", sep=self.sep(name))
        self.look("after_failed_unlock")

    def bare_flag(self, hid, by):
        """The tool without `--` on a name that looks like a flag: whatever it does, it must not release anything else."""
        self.add(op="cli_unlock", by=by, target=hid, via=self.via(), role="flag_bare")
        self.look("after_bare")

    def untouched(self, names):
        """Holds the last command did not designate: full locks stay full, leases can still be renewed."""
        for nm in names:
            if self.count(nm) and self.room(nm) <= 0 and not self.waiting.get(nm):
                self.refused(self.rng.randrange(self.sc["clients"]), nm, "still_full")
        leased = [k for k, h in self.live.items() if h["lease"] and h["name"] in names and not k.startswith("g")]
        if leased:
            self.add(op="renew", c=0, targets=leased, lease=60, role="still_leased")


def pick_locks(rng, n, sizes):
    return [{"name": nm, "size": rng.choice(sizes)} for nm in rng.sample(NAMES, n)]


def fill(s, rng, name, k, leases=(0, 0, 60), clients=None):
    ids = []
    cs = list(range(s.sc["clients"]))
    for j in range(k):
        c = (clients[j % len(clients)] if clients else cs[(j + rng.randrange(len(cs))) % len(cs)])
        ids.append(s.hold(c, name, lease=rng.choice(leases)))
    return ids


def uuid4(rng):
    h = "%032x" % rng.getrandbits(128)
    return "%s-%s-4%s-a%s-%s" % (h[:8], h[8:12], h[13:16], h[17:20], h[20:32])


def make_scenario(rng, i, kind):
    sid = "s%02d-%s" % (i, kind)
    ncl = rng.choice([2, 3, 3])
    noclear = rng.random() < 0.25
    if kind == "key":
        s = Script(rng, sid, kind, pick_locks(rng, rng.randint(1, 3), [1, 1, 2, 3]), ncl, no_clear=noclear)
        ids = []
        for l in s.sc["locks"]:
            ids += fill(s, rng, l["name"], rng.randint(1, l["size"]))
        s.look("baseline")
        t = rng.choice(ids)
        s.release("cli-key", t)
        rest = [x for x in ids if x in s.live]
        if rest and rng.random() < 0.7:
            s.release("cli-key", rng.choice(rest))
    elif kind == "name1":
        s = Script(rng, sid, kind, pick_locks(rng, rng.randint(1, 3), [1, 2, 3]), ncl, no_clear=noclear)
        for l in s.sc["locks"]:
            fill(s, rng, l["name"], 1 if l is s.sc["locks"][0] else rng.randint(1, l["size"]))
        s.look("baseline")
        s.release("cli-name", name=s.sc["locks"][0]["name"])
        if s.count(s.sc["locks"][0]["name"]) == 0:
            s.bad_unlock(s.sc["locks"][0]["name"])        # the lock is known to the server but nobody holds it
    elif kind == "nameN":
        locks = pick_locks(rng, rng.randint(1, 2), [2, 3])
        s = Script(rng, sid, kind, locks, 3, no_clear=noclear)
        n0 = locks[0]["name"]
        fill(s, rng, n0, locks[0]["size"], leases=(0, 60, 60), clients=[0, 1, 2])
        for l in locks[1:]:
            fill(s, rng, l["name"], rng.randint(1, l["size"]))
        s.look("baseline")
        s.release("cli-name", name=n0)
        s.release("cli-name", name=n0)
    elif kind == "leased":
        locks = pick_locks(rng, 2, [1, 2])
        s = Script(rng, sid, kind, locks, ncl, no_clear=noclear)
        n0, n1 = locks[0]["name"], locks[1]["name"]
        short = s.hold(0, n1, lease=1, via="trylock")            # runs out by itself: must leave the listing
        t = s.hold(1 % ncl, n0, lease=2, via="trylock")
        if locks[0]["size"] == 2:
            s.hold(0, n0, lease=rng.choice([0, 60]))
        if locks[1]["size"] == 2:
            s.hold(ncl - 1, n1, lease=60)
        s.look("baseline")
        s.release(rng.choice(["cli-key", "cli-name"]) if s.count(n0) == 1 else "cli-key", t)
        s.past_lease(t)
    elif kind == "restored":
        dlt = rng.choice([600, 600, 2])
        locks = pick_locks(rng, rng.randint(1, 2), [1, 2, 2])
        s = Script(rng, sid, kind, locks, ncl, dlt=dlt, no_clear=noclear)
        ids = []
        for l in locks:
            ids += fill(s, rng, l["name"], l["size"] if l is locks[0] else rng.randint(1, l["size"]), leases=(0, 60))
        ri = s.restart()
        t = rng.choice(ids)
        nm = s.live[t]["name"]
        s.release("cli-name" if (s.count(nm) == 1 and rng.random() < 0.5) else "cli-key", t)
        rest = [x for x in ids if x in s.live]
        if dlt == 2:
            s.add(op="sleep_since", ref=ri, ms=2000 + PAST_MS)
            for k in rest:
                s.gone[k] = s.live.pop(k)
            s.look("after_lease")
        else:
            if rest:
                s.release(rng.choice(["own", "cli-key"]), rng.choice(rest))    # "own": a session of this run, with the key
            s.restart()
    elif kind == "blocked":
        locks = pick_locks(rng, rng.randint(1, 2), [1, 2])
        s = Script(rng, sid, kind, locks, 3, no_clear=noclear)
        n0 = locks[0]["name"]
        ids = fill(s, rng, n0, locks[0]["size"], leases=(0, 60), clients=[0, 1])
        for l in locks[1:]:
            fill(s, rng, l["name"], rng.randint(1, l["size"]))
        nw = rng.choice([1, 2])
        for _ in range(nw):
            s.park(2, n0, lease=rng.choice([0, 60]))
        s.look("baseline")
        how = "cli-name" if rng.random() < 0.5 else "cli-key"
        if how == "cli-name":
            s.release("cli-name", name=n0, check_lease=False)
        else:
            s.release("cli-key", rng.choice(ids))
        if nw == 2 and rng.random() < 0.6:
            s.release("cli-name", name=n0, check_lease=False)
    elif kind == "negative":
        locks = pick_locks(rng, rng.randint(2, 3), [1, 1, 2])
        s = Script(rng, sid, kind, locks, ncl, no_clear=noclear)
        ids = []
        for l in locks:
            ids += fill(s, rng, l["name"], l["size"], leases=(0, 60))
        gone = ids[-1]
        gname = s.live[gone]["name"]
        s.add(op="unlock", c=s.live[gone]["c"], target=gone, role="release")
        s.gone[gone] = s.live.pop(gone)
        s.look("baseline")
        a = s.live[ids[0]]["name"]
        cases = [("nosuch-lock", None), ("nosuch-lock", uuid4(rng)), (a, uuid4(rng)), (gname, "@key:" + gone), (a.upper() + "_", None)]
        foreign = [k for k, h in s.live.items() if h["name"] != a]
        if foreign:
            cases.append((a, "@key:" + foreign[0]))       # a live key, but of another lock
        if s.count(gname) == 0:
            cases.append((gname, None))
        rng.shuffle(cases)
        for nm, ky in cases[:rng.randint(3, 5)]:
            s.bad_unlock(nm, ky)
        for l in locks:
            if s.room(l["name"]) <= 0:
                s.refused(rng.randrange(ncl), l["name"], "still_full")
        leased = [k for k, h in s.live.items() if h["lease"]]
        if leased:
            s.add(op="renew", c=0, targets=leased, lease=60, role="still_leased")
        s.release("cli-key", ids[0])
    elif kind == "wsname":
        # a name with whitespace around it AND the lock whose name is the trimmed form, held by another session
        base = rng.choice(WS_BASES)
        form = rng.choice(["post", "post", "pre", "both"])
        ws = rng.choice(WS)
        W = {"post": base + ws, "pre": ws + base, "both": ws + base + rng.choice(WS)}[form]
        locks = [{"name": W, "size": rng.choice([1, 1, 2])}, {"name": base, "size": rng.choice([1, 1, 2])}]
        if rng.random() < 0.4:
            locks.append({"name": rng.choice([n for n in NAMES if n != base]), "size": 1})
        s = Script(rng, sid, kind, locks, 3, no_clear=noclear)
        w_ids = fill(s, rng, W, locks[0]["size"], leases=(0, 60), clients=[0, 2])
        t_ids = fill(s, rng, base, locks[1]["size"], leases=(0, 60, 60), clients=[1])
        for l in locks[2:]:
            fill(s, rng, l["name"], 1)
        s.look("baseline")
        if rng.random() < 0.5:       # a key with whitespace around it is a wrong key
            pad = rng.choice(WS)
            s.bad_unlock(base, "@key:" + t_ids[0], **({"key_post": pad} if rng.random() < 0.6 else {"key_pre": pad}))
        if s.count(W) > 1 and rng.random() < 0.5:
            s.release("cli-name", name=W)
        else:
            s.release(rng.choice(["cli-name", "cli-key"]) if s.count(W) == 1 else "cli-key", rng.choice(w_ids))
        s.untouched([base] + [l["name"] for l in locks[2:]])
        while s.count(W) and W not in s.fuzzy:
            s.release(rng.choice(["cli-name", "cli-key"]) if s.count(W) == 1 else "cli-key", s.holds_on(W)[0], probe=False)
        if s.count(W) == 0:
            s.bad_unlock(W)          # nobody holds W any more: the trimmed sibling must not be taken for it
            s.untouched([base])
        else:
            s.release("cli-name", name=W, probe=False)
        if rng.random() < 0.5:
            if s.count(base) == 1 and base not in s.fuzzy:
                s.release(rng.choice(["cli-name", "cli-key"]), s.holds_on(base)[0])
            else:
                s.release("cli-name", name=base)
            s.untouched([W])
    elif kind == "wsonly":
        # a name that is nothing but whitespace; the empty name, which nobody can hold
        W = rng.choice(WS_ONLY)
        locks = [{"name": W, "size": rng.choice([1, 1, 2])}] + pick_locks(rng, 1, [1, 2])
        s = Script(rng, sid, kind, locks, ncl, no_clear=noclear)
        w_ids = fill(s, rng, W, locks[0]["size"], leases=(0, 60))
        o_ids = fill(s, rng, locks[1]["name"], rng.randint(1, locks[1]["size"]), leases=(0, 60))
        s.look("baseline")
        if rng.random() < 0.6:
            s.bad_unlock("", rng.choice([None, "@key:" + w_ids[0]]))
        if s.count(W) > 1 and rng.random() < 0.5:
            s.release("cli-name", name=W)
        else:
            s.release(rng.choice(["cli-name", "cli-key"]) if s.count(W) == 1 else "cli-key", rng.choice(w_ids))
        s.untouched([locks[1]["name"]])
        while s.count(W) and W not in s.fuzzy:
            s.release(rng.choice(["cli-name", "cli-key"]) if s.count(W) == 1 else "cli-key", s.holds_on(W)[0], probe=False)
        if s.count(W) == 0:
            s.bad_unlock(W)
        else:
            s.release("cli-name", name=W, probe=False)
        if rng.random() < 0.4:
            s.release("cli-key", rng.choice([x for x in o_ids if x in s.live]))
    elif kind == "hostile":
        # names kong could read as flags / commands, names with quotes, `$`, listing syntax inside
        flags = [n for n in HOSTILE if flaglike(n)]
        names = [rng.choice(flags)] + rng.sample([n for n in HOSTILE if not flaglike(n)], rng.randint(1, 2))
        if rng.random() < 0.4:
            names.append(rng.choice([n for n in flags if n != names[0]]))
        locks = [{"name": n, "size": rng.choice([1, 1, 2])} for n in names]
        s = Script(rng, sid, kind, locks, ncl, no_clear=noclear)
        ids = {}
        for l in locks:
            ids[l["name"]] = fill(s, rng, l["name"], rng.randint(1, l["size"]), leases=(0, 60))
        s.look("baseline")
        s.bare_flag(ids[names[0]][0], rng.choice(["name", "key"]))
        order = list(names)
        rng.shuffle(order)
        for n in order[:rng.randint(2, len(order))]:
            if s.count(n) == 1:
                s.release(rng.choice(["cli-name", "cli-key"]), s.holds_on(n)[0])
            else:
                s.release("cli-name", name=n)
            s.untouched([m for m in names if m != n])
        s.bad_unlock(rng.choice(["-nosuch", "--nosuch=1", "no such"]))
    else:   # control: the same release through the tool, the holder, and another session
        locks = pick_locks(rng, rng.randint(1, 2), [2, 3])
        s = Script(rng, sid, kind, locks, 3, no_clear=noclear)
        ids = []
        for l in locks:
            ids += fill(s, rng, l["name"], l["size"], leases=(0, 60), clients=[0, 1, 2])
        s.look("baseline")
        hows = ["own", "cli-key", "other"]
        rng.shuffle(hows)
        for how, t in zip(hows, rng.sample(ids, min(3, len(ids)))):
            s.release(how, t)
    s.look("final")
    return s.sc


def scenarios(seed, tier):
    """The scenario list of a run; every parameter from one PRNG seeded with the run's seed."""
    rng = random.Random(int(seed) * 1000003 + 1818)
    n = len(KINDS) if tier == "quick" else 8 * len(KINDS)
    out = []
    while len(out) < n:
        cyc = list(KINDS)
        rng.shuffle(cyc)
        for kind in cyc:
            if len(out) < n:
                out.append(make_scenario(rng, len(out), kind))
    return out


def corpus_scenarios():
    out = []
    for f in sorted((vcheck.VERIF / "corpus" / "e2e").glob("c18cli_*.json")):
        try:
            c = json.loads(f.read_text())
        except Exception:  # noqa
            continue
        for i, sc in enumerate(c.get("scenarios") or []):
            sc = dict(sc)
            sc["id"] = "c-%s-%d" % (f.stem[7:][:14], i)
            out.append(sc)
    return out


# --------------------------------------------------------------------------------------------------------------- oracle

class Inconclusive(Exception):
    pass


class Judge:
    """Evaluates the property's clauses on one scenario's observations, step by step, keeping what the clients know."""

    def __init__(self, o):
        self.o = o
        self.sc = o["scenario"]
        self.size = {l["name"]: l["size"] for l in self.sc["locks"]}
        self.dlt = (self.sc.get("default_lock_timeout") or 600) * 1000000
        self.H = {}             # id -> hold
        self.W = {}             # id -> blocked call
        self.v = {}             # clause -> [pass count, [failure texts]]
        self.released_by = {}   # how -> count
        self.last_cli = None
        self.stats = {"lists": 0, "listed_holds": 0, "file_reads": 0, "leased_released": 0, "restored_released": 0,
                      "by_name_with_several": 0, "blocked_granted": 0, "failed_unlocks": 0, "roles": {},
                      "ipc_listings": 0, "ipc_listing_errors": 0, "odd_names_released": 0, "sep_invocations": 0, "bare_flag": {}, "exact_checked": 0}
        self.cut = None

    # -- bookkeeping
    def ev(self, clause, ok, text=""):
        c = self.v.setdefault(clause, [0, []])
        if ok:
            c[0] += 1
        else:
            c[1].append(text)

    def status(self, h, inv, ack):
        if h["released"]:
            return "dead"
        if h.get("unknown"):
            return "either"
        if h["lo"] is None or ack < h["lo"]:
            return "live"
        if inv > h["hi"]:
            return "dead"
        return "either"

    def holds_of(self, name, inv, ack):
        live = [h for h in self.H.values() if h["name"] == name and self.status(h, inv, ack) == "live"]
        either = [h for h in self.H.values() if h["name"] == name and self.status(h, inv, ack) == "either"]
        return live, either

    def add_hold(self, hid, name, key, c, lease, lo_from, hi_from, via):
        d = lease * 1000000
        self.H[hid] = {"id": hid, "name": name, "key": key, "size": self.size.get(name, 1), "c": c, "lease": lease, "via": via,
                       "lo": lo_from + d if d else None, "hi": hi_from + d + SLACK_US if d else None,
                       "released": False, "released_by": None, "released_at": None, "restored": False, "had_timer": bool(d)}

    def release(self, h, how, at):
        h["released"], h["released_by"], h["released_at"] = True, how, at
        self.released_by[how] = self.released_by.get(how, 0) + 1
        if how.startswith("cli"):
            if h["had_timer"]:
                self.stats["leased_released"] += 1
            if h["restored"]:
                self.stats["restored_released"] += 1

    def show(self, h):
        return "%s/%s (size %d, session of client %d%s%s)" % (q(h["name"]), h["key"], h["size"], h["c"], ", restored from the state file" if h["restored"] else "",
                                                              ", lease %ds" % h["lease"] if h["lease"] else "")

    # -- listings
    @staticmethod
    def text_of(h):
        return "{Name: %s, Key: %s, Size: %d}" % (h["name"], h["key"], h["size"])

    def entry_tuple(self, e):
        """One entry string -> (name, key, size), or None. The holds the clients know are recognised by their exact text."""
        for h in self.H.values():
            if self.text_of(h) == e:
                return (h["name"], h["key"], h["size"])
        m = ENTRY_RE.fullmatch(e)
        return (m.group(1), m.group(2), int(m.group(3))) if m else None

    def split_listing(self, text):
        """The tool's stdout -> ([entry strings], None) or (None, the text that is not an entry). An entry ends with a newline
        and may contain newlines (a name may)."""
        known = sorted(set(self.text_of(h) for h in self.H.values()), key=len, reverse=True)
        out, pos = [], 0
        while pos < len(text):
            hit = next((k for k in known if text.startswith(k + "\n", pos)), None)
            if hit is None:
                m = ENTRY_RE.match(text, pos)
                if m and text.startswith("\n", m.end()):
                    hit = m.group(0)
            if hit is not None:
                out.append(hit)
                pos += len(hit) + 1
            elif text[pos] == "\n":
                pos += 1
            else:
                return None, text[pos:pos + 200]
        return out, None

    def ipc_entries(self, x):
        """The driver's own IPC.ListLocks -> [entry strings] or None."""
        if not x:
            return None
        if x.get("err"):
            self.stats["ipc_listing_errors"] += 1
            return None
        self.stats["ipc_listings"] += 1
        return list(x.get("entries") or [])

    def pairs(self, entries):
        """[entry strings] -> {(name, key): count} (entries that cannot be read keep their text as the name)."""
        out = {}
        for e in entries:
            t = self.entry_tuple(e)
            k = (t[0], t[1]) if t else (e, None)
            out[k] = out.get(k, 0) + 1
        return out

    def cmd(self, c):
        return "`ldlm-lock %s`" % argv_text(c["args"])

    # -- steps
    def run(self):
        steps = self.sc["steps"]
        obs = self.o.get("obs") or []
        try:
            for k, ob in enumerate(obs):
                st = steps[ob["i"]] if ob["i"] < len(steps) else {"op": ob["op"]}
                if ob.get("skipped"):
                    raise Inconclusive("step %d (%s) was not carried out: %s" % (ob["i"], ob["op"], ob["skipped"]))
                role = st.get("role", "")
                if role:
                    self.stats["roles"][role] = self.stats["roles"].get(role, 0) + 1
                getattr(self, "s_" + ob["op"], self.s_other)(st, ob, obs[k + 1:])
            self.timers()
        except Inconclusive as ex:
            self.cut = str(ex)
        if self.o.get("bad_output"):
            pass    # a crashing server is other properties' business; its effects show in the clauses above
        return self.v

    def s_other(self, st, ob, rest):
        pass

    def s_acquire(self, st, ob, rest):
        c = ob["call"]
        role = st.get("role", "setup")
        if c.get("transport_err"):
            raise Inconclusive("%s(%r) got no answer: %s" % (st.get("via"), st["name"], c["transport_err"][:200]))
        name = st["name"]
        live, either = self.holds_of(name, ob["inv_us"], ob["ack_us"])
        size = self.size.get(name, 1)
        pending = [w for w in self.W.values() if w["name"] == name and not w["done"]]
        granted = bool(c.get("locked"))
        expect = None
        if len(live) + len(either) < size and not pending:
            expect = True
        elif len(live) >= size:
            expect = False
        if granted:
            self.add_hold(st["id"], name, c["key"], st.get("c", 0), st.get("lease", 0), ob["inv_us"], ob["ack_us"], st.get("via"))
        if role == "setup":
            if not granted:
                raise Inconclusive("the hold %s on %r could not be set up (locked=false %s %s)" % (st["id"], name, c.get("err_code", ""), c.get("err_msg", "")))
            return
        clause = {"pre_full": "capacity_kept", "still_full": "capacity_kept", "freed": "capacity_freed", "freed_once": "capacity_freed_once"}.get(role, "capacity_kept")
        ctx = self.last_cli or ""
        if expect is True:
            self.ev(clause, granted, "step %d: TryLock(%r) was refused (%s) although the clients know only %d live hold(s) of this size-%d lock%s" % (
                ob["i"], name, c.get("err_code") or "locked=false", len(live), size, ctx))
        elif expect is False:
            self.ev(clause, not granted, "step %d: TryLock(%r) was GRANTED (key %s) although the clients know %d live holds of this size-%d lock: %s%s" % (
                ob["i"], name, c.get("key"), len(live), size, "; ".join(self.show(h) for h in live[:4]), ctx))

    def settle_waiters(self, st, ob, clause_missing):
        name = st.get("name", "")
        news = []
        for w in ob.get("waiters") or []:
            m = self.W.get(w["id"])
            if m is None or m["done"] or not w.get("returned"):
                continue
            m["done"] = True
            if w.get("transport_err") or not w.get("locked"):
                if m.get("restart"):
                    continue
                raise Inconclusive("the blocked Lock %s on %r came back without the lock: %s %s" % (w["id"], w["name"], w.get("err_code", ""), w.get("transport_err", "")[:200]))
            news.append(w)
        if not name:
            return
        live, either = self.holds_of(name, ob["inv_us"], ob["ack_us"])
        if either:
            raise Inconclusive("a lease of %r is running out while blocked calls are looked at" % name)
        room = self.size.get(name, 1) - len(live)
        pending = len([w for w in self.W.values() if w["name"] == name and not w["done"]]) + len(news)
        want = max(0, min(room, pending))
        ctx = self.last_cli or ""
        for w in news:
            m = self.W[w["id"]]
            self.add_hold(w["id"], w["name"], w["key"], w["c"], w.get("lease", 0), m["since"], w["ack_us"], "lock-blocked")
            self.stats["blocked_granted"] += 1
        if clause_missing:
            self.ev("capacity_freed", len(news) >= want, "step %d: %d Lock call(s) blocked on %r, %d slot(s) free for %d ms, but %d were granted%s" % (
                ob["i"], pending, name, room, st.get("ms", 0), len(news), ctx))
        self.ev("capacity_freed_once", len(news) <= max(room, 0), "step %d: %d Lock call(s) blocked on %r were granted although only %d slot(s) were free (live: %s)%s" % (
            ob["i"], len(news), name, max(room, 0), "; ".join(self.show(h) for h in live[:4]), ctx))

    def s_park(self, st, ob, rest):
        self.W[st["id"]] = {"id": st["id"], "name": st["name"], "c": st.get("c", 0), "lease": st.get("lease", 0), "done": False, "since": ob["inv_us"]}
        for w in ob.get("waiters") or []:
            if w["id"] == st["id"] and w.get("returned"):
                raise Inconclusive("the Lock call %s on the full lock %r did not block" % (st["id"], st["name"]))

    def s_await(self, st, ob, rest):
        self.settle_waiters(st, ob, True)

    def s_waiters(self, st, ob, rest):
        self.settle_waiters(st, ob, False)

    def s_final_waiters(self, st, ob, rest):
        for name in sorted(set(w["name"] for w in ob.get("waiters") or [])):
            self.settle_waiters({"name": name, "ms": 0}, dict(ob, waiters=[w for w in ob["waiters"] if w["name"] == name]), False)

    def s_unlock(self, st, ob, rest):
        c = ob["call"]
        h = self.H.get(st["target"])
        if h is None:
            raise Inconclusive("unknown hold " + st["target"])
        if c.get("transport_err"):
            raise Inconclusive("Unlock got no answer: " + c["transport_err"][:200])
        s = self.status(h, ob["inv_us"], ob["ack_us"])
        ok = bool(c.get("unlocked"))
        if s == "live":
            if not ok:
                raise Inconclusive("a client's Unlock of the live hold %s failed (%s): not this property's business" % (self.show(h), c.get("err_code")))
            self.release(h, "own" if st.get("c", 0) == h["c"] and not h["restored"] else "other-session", ob["ack_us"])
            self.last_cli = "   [after step %d: Unlock(%s) by client %d]" % (ob["i"], self.show(h), st.get("c", 0))
        elif s == "dead":
            why = "the admin tool" if (h["released_by"] or "").startswith("cli") else "its lease / an Unlock"
            self.ev("old_key_dead", not ok, "step %d: Unlock with the key of %s, which %s had released, answered unlocked=true" % (ob["i"], self.show(h), why))
        else:
            if ok:
                self.release(h, "own", ob["ack_us"])
            else:
                h["released"] = True

    def s_renew(self, st, ob, rest):
        for c in ob.get("calls") or []:
            h = self.H.get(c["id"])
            if h is None or c.get("transport_err"):
                continue
            s = self.status(h, c["inv_us"], c["ack_us"])
            ok = bool(c.get("locked")) and not c.get("err_code")
            if s == "dead":
                by = h["released_by"] or "lease"
                self.ev("lease_gone", (not ok) and c.get("err_code") == NOCODE,
                        "step %d: Renew with the key of %s, released by %s, answered locked=%s error=%s (expected %s)" % (
                            ob["i"], self.show(h), by, c.get("locked"), c.get("err_code") or "none", NOCODE))
                if ok:   # the timer is back: the lock itself stays released
                    pass
            elif s == "live" and h["had_timer"]:
                self.ev("others_untouched", ok, "step %d: Renew of the live leased hold %s failed (%s)%s" % (ob["i"], self.show(h), c.get("err_code"), self.last_cli or ""))
                if ok:
                    d = st["lease"] * 1000000
                    h["lo"], h["hi"], h["lease"] = c["inv_us"] + d, c["ack_us"] + d + SLACK_US, st["lease"]
            elif s == "either":
                if ok:
                    d = st["lease"] * 1000000
                    h["lo"], h["hi"], h["lease"] = c["inv_us"] + d, c["ack_us"] + d + SLACK_US, st["lease"]
                else:
                    h["released"], h["released_by"] = True, "lease"

    def cli_sane(self, ob):
        c = ob["cli"]
        bad = None
        if c.get("exec_err"):
            raise Inconclusive("ldlm-lock could not be run: " + c["exec_err"])
        if c.get("timed_out"):
            bad = "did not return within 8 s"
        elif c.get("killed_by"):
            bad = "was killed by " + c["killed_by"]
        elif re.search(r"panic|goroutine \d+ \[|fatal error|runtime error", c.get("stderr", "") + c.get("stdout", "")):
            bad = "crashed: " + (c.get("stderr") or c.get("stdout"))[:300]
        self.ev("cli_no_crash", bad is None, "step %d: %s %s" % (ob["i"], self.cmd(c), bad))
        return bad is None

    def parse_list(self, ob):
        c = ob["cli"]
        cmd = self.cmd(c)
        if c["exit"] != 0:
            self.ev("list_runs", False, "step %d: %s exited with status %d: %s" % (ob["i"], cmd, c["exit"], (c.get("stderr") or c.get("stdout"))[:300]))
            return None
        if c["stdout"].strip("\n") == "No locks found":
            self.ev("list_runs", True)
            self.match_ipc(ob, cmd, [])
            return []
        entries, bad = self.split_listing(c["stdout"])
        if entries is None:
            self.ev("list_runs", False, "step %d: %s printed text that is not one hold: %r" % (ob["i"], cmd, bad))
            return None
        out = [self.entry_tuple(e) for e in entries]
        self.ev("list_runs", True)
        self.match_ipc(ob, cmd, entries)
        return out

    def match_ipc(self, ob, cmd, entries):
        """The tool's entries against what the server's IPC receiver told the driver right before / right after."""
        pre, post = self.ipc_entries(ob.get("ipc_before")), self.ipc_entries(ob.get("ipc_after"))
        if pre is None or post is None or sorted(pre) != sorted(post):
            return        # no direct listing, or the table changed meanwhile (a lease ran out, a blocked call was granted)
        ok = sorted(entries) == sorted(pre)
        extra = [e for e in entries if e not in pre]
        lacking = [e for e in pre if e not in entries]
        self.ev("list_matches_ipc", ok, "step %d: %s printed %d entries, IPC.ListLocks of the same server returned %d just before and just after; printed only: %r; returned only: %r" % (
            ob["i"], cmd, len(entries), len(pre), extra[:3], lacking[:3]))

    def compare(self, listed, inv, ack, what, ob, missing_clause, stale_clause, released_clause):
        """listed: [(name, key, size)] against what the clients know at [inv, ack]."""
        ctx = self.last_cli or ""
        want = {}
        for h in self.H.values():
            s = self.status(h, inv, ack)
            want[(h["name"], h["key"])] = (s, h)
        seen = {}
        for name, key, size in listed:
            seen[(name, key)] = seen.get((name, key), 0) + 1
            s, h = want.get((name, key), (None, None))
            if h is None:
                self.ev(stale_clause, False, "step %d: %s has {Name: %s, Key: %s, Size: %d}, which no client was ever granted%s" % (ob["i"], what, q(name), key, size, ctx))
            elif s == "dead":
                by = h["released_by"]
                cl = released_clause if by else stale_clause
                self.ev(cl, False, "step %d: %s still has %s, which %s%s" % (
                    ob["i"], what, self.show(h), ("was released by %s %d ms earlier" % (by, (inv - h["released_at"]) / 1000) if by else "ran out of its lease %d ms earlier" % ((inv - h["hi"] + SLACK_US) / 1000)), ctx))
            elif size != h["size"]:
                self.ev(stale_clause, False, "step %d: %s has %s/%s with size %d; the lock has size %d%s" % (ob["i"], what, q(name), key, size, h["size"], ctx))
            elif seen[(name, key)] > 1:
                self.ev(stale_clause, False, "step %d: %s has %s/%s %d times%s" % (ob["i"], what, q(name), key, seen[(name, key)], ctx))
            else:
                self.ev(stale_clause, True)
        for (name, key), (s, h) in want.items():
            if s == "live":
                self.ev(missing_clause, (name, key) in seen, "step %d: %s lacks the live hold %s%s" % (ob["i"], what, self.show(h), ctx))
        for (name, key), (s, h) in want.items():     # a released hold that is indeed gone: the release clause holds
            if s == "dead" and h["released_by"] and (name, key) not in seen and not h.get("gone_seen_" + released_clause):
                h["gone_seen_" + released_clause] = True
                self.ev(released_clause, True)

    def clauses_for(self, role, file=False):
        if role == "after_failed_unlock":
            return ("fail_changes_nothing",) * 2 + ("file_drops_released" if file else "unlock_releases",)
        if role == "after_lease":
            return ("quiet_after_lease",) * 2 + ("file_drops_released" if file else "unlock_releases",)
        if role == "after_restart":
            return ("restart_consistent",) * 3
        if file:
            return ("file_exact", "file_exact", "file_drops_released")
        return ("list_nothing_missing", "list_nothing_stale", "unlock_releases")

    def s_cli_list(self, st, ob, rest):
        if not self.cli_sane(ob):
            return
        listed = self.parse_list(ob)
        if listed is None:
            return
        self.stats["lists"] += 1
        self.stats["listed_holds"] += len(listed)
        a, b, c = self.clauses_for(st.get("role", ""))
        self.compare(listed, ob["inv_us"], ob["ack_us"], "the admin tool's listing", ob, a, b, c)

    def s_read_state(self, st, ob, rest):
        f = ob["file"]
        a, b, c = self.clauses_for(st.get("role", ""), file=True)
        if not f.get("decoded"):
            anything = any(self.status(h, ob["inv_us"], ob["ack_us"]) != "dead" for h in self.H.values()) or f.get("bytes")
            if anything or not f.get("exists"):
                self.ev(a, False, "step %d: the state file does not decode: %s" % (ob["i"], f.get("err")))
            return
        self.stats["file_reads"] += 1
        self.compare([(e["name"], e["key"], e["size"]) for e in f["entries"]], ob["inv_us"], ob["ack_us"], "the state file", ob, a, b, c)

    def exact(self, ob, cmd, name, key, live, expect_release, out):
        """unlock_exact: the server's own listing before / after the command."""
        pre, post = self.ipc_entries(ob.get("ipc_before")), self.ipc_entries(ob.get("ipc_after"))
        if pre is None or post is None:
            return None
        inv, ack = ob["inv_us"], ob["ack_us"]
        before, after = self.pairs(pre), self.pairs(post)
        removed = []        # live holds (as far as the clients know) that were in the table before and are not after
        for k, n in before.items():
            if after.get(k, 0) >= n:
                continue
            h = next((h for h in self.H.values() if (h["name"], h["key"]) == k), None)
            if h is None:
                removed.append({"name": k[0], "key": k[1], "unknown": True})
            elif self.status(h, inv, ack) == "live":
                removed.append(h)
        self.stats["exact_checked"] += 1
        what = "unlock %s%s" % (json.dumps(name, ensure_ascii=False), " with key " + json.dumps(key, ensure_ascii=False) if key else " (by name)")
        show = lambda h: ("{Name: %s, Key: %s} (no client was granted it)" % (json.dumps(h["name"]), h["key"])) if h.get("unknown") else self.show_q(h)  # noqa
        tail = "; server listing before: %s; after: %s; tool: %s" % (json.dumps(sorted(pre), ensure_ascii=False)[:700], json.dumps(sorted(post), ensure_ascii=False)[:700], out)
        if expect_release:
            ok = len(removed) == 1 and not removed[0].get("unknown") and removed[0] in live
            if not ok:
                got = "nothing" if not removed else "; ".join(show(h) for h in removed[:4])
                self.ev("unlock_exact", False, "step %d: %s: the IPC semantics of %s designate %s %s; released instead: %s%s" % (
                    ob["i"], cmd, what, "the hold" if key or len(live) == 1 else "one of the holds", "; ".join(self.show_q(h) for h in live[:3]), got, tail))
            else:
                self.ev("unlock_exact", True)
        else:
            ok = not removed
            self.ev("unlock_exact", ok, "step %d: %s: no live hold is designated by %s, nothing may change; released: %s%s" % (
                ob["i"], cmd, what, "; ".join(show(h) for h in removed[:4]), tail))
        return after

    def show_q(self, h):
        return "%s/%s (size %d, session of client %d%s)" % (json.dumps(h["name"], ensure_ascii=False), h["key"], h["size"], h["c"], ", lease %ds" % h["lease"] if h["lease"] else "")

    def s_cli_unlock(self, st, ob, rest):
        c = ob["cli"]
        if not self.cli_sane(ob):
            raise Inconclusive("the admin tool did not finish")
        name, key = c.get("name", ""), c.get("key", "")
        cmd = self.cmd(c)
        inv, ack = ob["inv_us"], ob["ack_us"]
        live, either = self.holds_of(name, inv, ack)
        if key:
            live = [h for h in live if h["key"] == key]
            either = [h for h in either if h["key"] == key]
        if either:
            raise Inconclusive("step %d: a lease of %r was running out when the tool was run" % (ob["i"], name))
        if c.get("sep"):
            self.stats["sep_invocations"] += 1
        claims_ok = re.search(r"unlocked:\s*true", c.get("stdout", ""), re.I) is not None
        out = ("exit %d, stdout %r, stderr %r" % (c["exit"], c.get("stdout", "")[:120], c.get("stderr", "")[:200]))
        self.last_cli = "   [after step %d: %s -> exit %d]" % (ob["i"], cmd, c["exit"])
        if st.get("role") == "flag_bare" and c["exit"] != 0 and not claims_ok:
            # the name went in without `--` and kong took it for a flag: a usage error of the caller. What the tool did is
            # recorded; it must not have released anything.
            k = "exit %d" % c["exit"]
            self.stats["bare_flag"][k] = self.stats["bare_flag"].get(k, 0) + 1
            self.exact(ob, cmd, name, key, live, False, out)
            return
        if st.get("role") == "flag_bare" and c["exit"] == 0 and not claims_ok:
            self.stats["bare_flag"]["exit 0, no claim (help text)"] = self.stats["bare_flag"].get("exit 0, no claim (help text)", 0) + 1
            self.exact(ob, cmd, name, key, live, False, out)
            return
        if not live:
            self.stats["failed_unlocks"] += 1
            what = "no hold of %s%s is live" % (json.dumps(name, ensure_ascii=False), " with key " + json.dumps(key, ensure_ascii=False) if key else "")
            self.ev("unlock_fails", c["exit"] != 0 and not claims_ok, "step %d: %s must fail (%s) but: %s" % (ob["i"], cmd, what, out))
            self.exact(ob, cmd, name, key, live, False, out)
            return
        says_ok = c["exit"] == 0 and "false" not in c.get("stdout", "").lower()
        self.ev("unlock_reports_ok", says_ok, "step %d: %s on the live hold %s: %s" % (ob["i"], cmd, self.show_q(live[0]), out))
        how = "cli-key" if key else "cli-name"
        after = self.exact(ob, cmd, name, key, live, True, out)
        # which hold is gone: the server's own listing right after the command; else the tool's next listing
        listed = set(after) if after is not None else None
        if listed is None:
            nxt = None
            for r in rest:
                if r["op"] == "cli_list" and not r.get("skipped") and r["cli"]["exit"] == 0:
                    nxt = r
                    break
                if r["op"] in ("cli_unlock", "unlock", "restart"):
                    break
            if nxt is not None:
                if nxt["cli"]["stdout"].strip("\n") == "No locks found":
                    listed = set()
                else:
                    es, _ = self.split_listing(nxt["cli"]["stdout"])
                    if es is not None:
                        listed = set(self.pairs(es))
        if listed is None:
            if key and says_ok:
                self.release(live[0], how, ack)
                return
            raise Inconclusive("step %d: no readable listing after %s" % (ob["i"], cmd))
        gone = [h for h in live if (h["name"], h["key"]) not in listed]
        if not key and len(live) > 1:
            self.stats["by_name_with_several"] += 1
            self.ev("by_name_exactly_one", len(gone) <= 1, "step %d: %s with %d live holds of %r released %d of them: %s" % (
                ob["i"], cmd, len(live), name, len(gone), "; ".join(self.show(h) for h in gone[:4])))
        if says_ok or gone:
            self.ev("unlock_releases", len(gone) >= 1, "step %d: %s reported success (%s) but every hold of %s%s is still in the %s" % (
                ob["i"], cmd, out, json.dumps(name, ensure_ascii=False), " with that key" if key else "",
                "server's listing right after it" if after is not None else "next listing"))
        for h in gone:
            self.release(h, how, ack)
            if h["name"] != h["name"].strip() or flaglike(h["name"]) or re.search(r"[\s\"'`${},]", h["name"]):
                self.stats["odd_names_released"] += 1

    def s_restart(self, st, ob, rest):
        stp, sta = ob.get("stop") or {}, ob.get("start") or {}
        if not sta.get("started"):
            if sta.get("bind_failure"):
                raise Inconclusive("the restart lost its port to another process on each of %s attempts (address already in use)" % sta.get("attempts", "?"))
            raise Inconclusive("the server did not come up again: " + (sta.get("start_err") or "")[-300:])
        if stp.get("hung") or stp.get("exit_code") != 0:
            raise Inconclusive("the server did not shut down cleanly (exit %s %s): C11's business" % (stp.get("exit_code"), stp.get("killed_by", "")))
        for w in self.W.values():
            if not w["done"]:
                w["restart"] = True
        for h in self.H.values():
            s = self.status(h, ob["inv_us"], ob["ack_us"])
            if s == "live":
                h["lo"], h["hi"], h["lease"] = ob["inv_us"] + self.dlt, ob["ack_us"] + self.dlt + SLACK_US, self.dlt // 1000000
                h["restored"], h["had_timer"] = True, True
            elif s == "either":
                h["unknown"] = True
        self.last_cli = "   [after step %d: shutdown and restart on the state file]" % ob["i"]

    def timers(self):
        if not self.o.get("log_parsed"):
            return
        fired = set((t["name"], t["key"]) for t in self.o.get("timers_fired") or [])
        for h in self.H.values():
            if h["released_by"] and h["had_timer"] and h["lo"] is not None and h["released_at"] < h["lo"] - 200000:
                self.ev("lease_gone", (h["name"], h["key"]) not in fired,
                        "the server logged a lease timeout for %s although it had been released by %s before its lease ran out" % (self.show(h), h["released_by"]))


def judge(o):
    """-> (status, {clause: 'pass'|'n/a'|'fail: ...'}, judge object or None).   status: judged | unjudged:<why>"""
    if o.get("harness_err"):
        return "unjudged:driver: " + o["harness_err"][:300], {}, None
    if not (o.get("start") or {}).get("started"):
        if (o.get("start") or {}).get("bind_failure"):
            return "unjudged:a port was taken by another process on each of %s attempts: address already in use" % (o.get("start") or {}).get("attempts", "?"), {}, None
        return "unjudged:the server did not start: " + ((o.get("start") or {}).get("start_err") or "")[-400:], {}, None
    j = Judge(o)
    raw = j.run()
    v = {}
    for k in CLAUSES:
        n, fails = raw.get(k, [0, []])
        v[k] = ("fail: " + "; ".join(fails[:3]) + (" (+%d more)" % (len(fails) - 3) if len(fails) > 3 else "")) if fails else ("pass" if n else "n/a")
    return "judged", v, j


# --------------------------------------------------------------------------------------------------------------- builds

def build_binaries(ctx):
    """The real binaries from the tree's CURRENT sources. -> (server or None, lockbin or None, log)"""
    bind = ctx.work / "clibin"
    bind.mkdir(parents=True, exist_ok=True)
    env = vcheck.go_env({"GOFLAGS": "-mod=readonly"})   # never writes go.mod / go.sum of the tree
    srv, lockbin = bind / "ldlm-server", bind / "ldlm-lock"
    for f in (srv, lockbin):
        try:
            f.unlink()
        except OSError:
            pass
    rc, out = vcheck.sh([vcheck.GO, "build", "-buildvcs=false", "-o", str(srv), "./cmd/server"], cwd=vcheck.REPO, env=env, timeout=600)
    if rc != 0 or not srv.exists():
        return None, None, "go build ./cmd/server (rc %s):\n%s" % (rc, out[-4000:])
    rc2, out2 = vcheck.sh([vcheck.GO, "build", "-buildvcs=false", "-o", str(lockbin), "./cmd/lock"], cwd=vcheck.REPO, env=env, timeout=600)
    if rc2 != 0 or not lockbin.exists():
        return srv, None, "go build ./cmd/lock (rc %s):\n%s" % (rc2, out2[-4000:])
    return srv, lockbin, ""


def build_driver(ctx):
    hdir = vcheck.harness_dir(ctx, name="harness-c18cli")
    exe = ctx.work / "c18-cli"
    rc, out = vcheck.go_build(ctx, hdir, "./e2e/c18", exe, tags="verif", timeout=900)
    if rc == 0 and exe.exists():
        return exe, ""
    return None, "go build ./e2e/c18 (rc %s):\n%s" % (rc, out[-4000:])


def cli_help(lockbin, work):
    """The tool's own description of its syntax (recorded in the coverage)."""
    rc, out = vcheck.sh([str(lockbin), "--help"], cwd=str(work), timeout=10, env={"PATH": os.environ.get("PATH", ""), "TMPDIR": str(work)})
    return [l.strip() for l in out.splitlines() if re.search(r"^\s*(Usage:|unlock |list |-s, )", l)][:6]


def run_driver(ctx, exe, srv, lockbin, scs, name, jobs):
    """Runs the driver in its own process group, which is killed as a whole afterwards. -> (results, log, workdir)"""
    work = ctx.work / "cli" / name
    shutil.rmtree(work, ignore_errors=True)
    work.mkdir(parents=True, exist_ok=True)
    (work / "scenarios.json").write_text(json.dumps(scs))
    cmd = [str(exe), "-server", str(srv), "-lockbin", str(lockbin), "-work", str(work), "-scenarios", str(work / "scenarios.json"), "-jobs", str(jobs)]
    budget = 60 + len(scs) * 10.0 / jobs
    log = ""
    outp, errp = work / "out.jsonl", work / "driver.err"
    p = None
    try:
        with open(outp, "w") as fo, open(errp, "w") as fe:
            p = subprocess.Popen(cmd, cwd=str(work), stdout=fo, stderr=fe, stdin=subprocess.DEVNULL, start_new_session=True,
                                 env=dict(os.environ, TMPDIR=str(work)))
            try:
                p.wait(timeout=budget)
            except subprocess.TimeoutExpired:
                log += "[driver exceeded %.0fs; killed]\n" % budget
    except Exception as ex:  # noqa
        log += "failed to run the driver: %r\n" % (ex,)
    finally:
        if p is not None:
            try:
                os.killpg(p.pid, signal.SIGKILL)     # the driver, every server and every ldlm-lock it started
            except (ProcessLookupError, PermissionError):
                pass
            try:
                p.wait(timeout=10)
            except Exception:  # noqa
                pass
    results, done = [], False
    try:
        for line in outp.read_text(errors="replace").splitlines():
            line = line.strip()
            if not line.startswith("{"):
                continue
            try:
                o = json.loads(line)
            except ValueError:
                continue
            if o.get("meta"):
                done = bool(o.get("done"))
            elif "scenario" in o:
                results.append(o)
    except OSError:
        pass
    try:
        log += errp.read_text(errors="replace")[-2000:]
    except OSError:
        pass
    if not done:
        log += "\n[driver did not finish: %d of %d scenarios reported; rc %s]" % (len(results), len(scs), getattr(p, "returncode", None))
    return results, log, work


# ---------------------------------------------------------------------------------------------------------------- stage

def short(o, v=None, j=None, brief=False):
    """A scenario's record without its bulk (brief: for the evidence file's samples)."""
    obs = []
    for ob in o.get("obs") or []:
        x = {"i": ob["i"], "op": ob["op"], "t_ms": [round(ob["inv_us"] / 1000.0, 1), round(ob["ack_us"] / 1000.0, 1)]}
        for k in ("skipped", "call", "calls", "cli", "waiters"):
            if ob.get(k):
                x[k] = ob[k]
        if ob["op"] == "cli_unlock" or (ob["op"] == "cli_list" and not brief):
            for k in ("ipc_before", "ipc_after"):
                if ob.get(k):
                    x["server_listing_" + k[4:]] = ob[k].get("entries") if not ob[k].get("err") else {"err": ob[k]["err"]}
        if brief:
            if ob["op"] not in ("cli_list", "cli_unlock", "restart", "await"):
                continue
            if x.get("cli"):
                x["cli"] = {"args": [a.replace(str(vcheck.WORKROOT), "$WORK") for a in ob["cli"]["args"]], "exit": ob["cli"]["exit"],
                            "stdout": ob["cli"]["stdout"][:400], "stderr": ob["cli"]["stderr"][:200]}
                for k in ("server_listing_before", "server_listing_after"):
                    if isinstance(x.get(k), list):
                        x[k] = x[k][:8]
            x.pop("waiters", None)
        elif ob.get("file"):
            x["file"] = {"decoded": ob["file"].get("decoded"), "err": ob["file"].get("err"), "entries": ob["file"].get("entries")}
        if ob.get("stop"):
            x["restart"] = {"exit_code": ob["stop"].get("exit_code"), "exit_ms": ob["stop"].get("exit_ms"), "started_again": (ob.get("start") or {}).get("started")}
        obs.append(x)
    s = {"scenario_id": o["scenario"]["id"], "observations": obs, "lease_timers_fired": o.get("timers_fired"), "wall_ms": o.get("wall_ms")}
    if j is not None:
        s["holds_known_to_the_clients"] = [{k: h[k] for k in ("id", "name", "key", "size", "c", "lease", "via", "restored", "released_by")} for h in j.H.values()]
        if j.cut:
            s["judged_up_to"] = j.cut
    if v is not None:
        s["verdicts"] = {k: t for k, t in v.items() if t != "n/a"}
    return s


def cli_records(o):
    """Every run of `ldlm-lock unlock`: argv, outcome, and the server's state around it (its own IPC listing right before and
    right after, the state file as first copied afterwards)."""
    out = []
    obs = o.get("obs") or []
    for k, ob in enumerate(obs):
        if ob.get("op") != "cli_unlock" or not ob.get("cli"):
            continue
        c = ob["cli"]
        rec = {"step": ob["i"], "argv": ["ldlm-lock"] + c["args"], "socket_from_environment": bool(c.get("env_sock")), "exit": c["exit"],
               "stdout": c.get("stdout", "")[:300], "stderr": c.get("stderr", "")[:300]}
        for key in ("ipc_before", "ipc_after"):
            x = ob.get(key) or {}
            rec["server_listing_" + key[4:]] = {"err": x["err"]} if x.get("err") else x.get("entries")
        for r in obs[k + 1:]:
            if r.get("op") == "read_state" and r.get("file"):
                rec["state_file_after"] = [{"name": e["name"], "key": e["key"], "size": e["size"]} for e in (r["file"].get("entries") or [])] if r["file"].get("decoded") else {"err": r["file"].get("err")}
                break
            if r.get("op") in ("cli_unlock", "unlock", "restart"):
                break
        out.append(rec)
    return out


def replay_obj(o, v, fails, j):
    return {
        "property": "C18", "kind": "t4-cli-scenario", "scenario": o["scenario"],
        "failed_clauses": {k: v[k] for k in fails},
        "cli_invocations": cli_records(o),
        "observed": short(o, v, j),
        "server_args": (o.get("start") or {}).get("args"), "server_output_excerpt": (o.get("output_tail") or "")[-1500:],
        "expected": "the admin tool lists exactly the live holds; unlock <name> [<key>] releases that one hold whichever session owns it (capacity, lease timer, "
                    "state file) exactly as the holder's own Unlock does; unlock of an unknown name / wrong key exits non-zero and changes nothing; name and key "
                    "mean what IPC.Unlock of the same server means by them, byte for byte (by name+key that hold, by name alone one hold of exactly that name), "
                    "and every other hold stays in the table, the listing and the state file",
        "tree": str(vcheck.REPO),
        "replay": "python3 -m lib.clitie --replay <this file>   or   bin/check C18 --replay <this file>   (re-runs the scenario on the current tree)",
    }


RULE = ("T4-cli: the real ldlm-server and ldlm-lock binaries built from the tree, one server process per scenario; scenario list = 11 (quick: each "
        "kind once) / 88 (thorough) scripts drawn from one PRNG seeded with VERIF_SEED over the kinds {unlock by name+key, unlock by name of a "
        "single hold, unlock by name with 2-3 holds of a counting lock, leased holds (1-2 s, real time), holds restored from the state file of a "
        "previous run of the same binary, Lock calls blocked on the lock, unknown name / wrong key / stale key, control: the holder's own and "
        "another session's Unlock, a name with whitespace around it next to the lock with the trimmed name held by another session (+ a key padded with whitespace), "
        "a name of whitespace only (+ the empty name), names kong could read as flags or commands and names with quotes / `$` / listing syntax (passed after `--`; one "
        "bare attempt without it)}; corpus/e2e/c18cli_*.json first; the driver asks IPC.ListLocks itself right before and right after every run of the tool; "
        "evaluations = clause evaluations (pass or fail) over all judged scenarios")

ASSUMPTIONS = [
    "T4-cli: net/rpc over the unix socket, kong's argument parsing, the tool's exit status and its output are exercised on the scenarios run (counts in coverage.ties['T4-cli']), not modelled",
    "T4-cli: a hold is live when its grant was acknowledged to a client, no release of it was acknowledged, and its lease (if any) cannot have run out yet; a lease counts from the invocation of the grant (earliest end) to its acknowledgement + 0.4 s (latest end); scripts never look at a hold in between, and the oracle gives no verdict on one if they do",
    "T4-cli: the listing format is `{Name: <name>, Key: <key>, Size: <n>}` per line, `No locks found` for none (what server/ipc and cmd/lock print); a failed unlock is recognised by a non-zero exit status and the absence of `Unlocked: true`, a successful one by exit status 0 and no `false`; message texts are not compared",
    "T4-cli: the state file is copied while the server runs (the server replaces it by rename, so the copy is one whole image) and decoded with the tree's own server/session/store",
    "T4-cli: 'the lease timer is gone' is observed through Renew with the old key (LockDoesNotExistOrInvalidKey), the server's own log (no 'Lock timer timeout' line for the released hold) and the listing / state file after the old lease has elapsed in real time",
    "T4-cli: lock names are drawn from fixed lists: plain ones (letters, digits, inner space, . / : _ -), the same with space / tab / newline / CR / NBSP in front or behind, whitespace only, and a list of names with a leading '-', quotes, `$`, backquotes, braces, `, Key: `, the tool's own command words; the empty name cannot be held (the server refuses it) and is used for must-fail commands only. NUL cannot be passed in argv and is not used",
    "T4-cli: names with a leading '-' are passed after `--` (kong's end-of-flags marker, which the unchanged tool honours); without it kong reads them as flags (usage error, exit 80, or the help text with exit 0): one such bare run per 'hostile' scenario is recorded (coverage bare_flag_attempts) and judged only on releasing nothing",
    "T4-cli: the server's table before / after a command is what IPC.ListLocks answers to the driver over the same socket (net/rpc, request struct{} / response []string spelled out in the driver); when that call fails the clauses list_matches_ipc / unlock_exact are not evaluated (coverage ipc_listing_errors) and the released hold is taken from the tool's next listing as before",
]


def run_property(ctx, tier=None, only=None, repeat=1, verbose=False, jobs=None):
    """Builds the binaries and the driver, runs corpus + scenario list (or `only`), judges, records violations and coverage
    on ctx. Never raises. When ctx.replay is set: re-runs that scenario if the file is one of this tie's, else does nothing."""
    try:
        if only is None and getattr(ctx, "replay", None):
            if is_cli_replay(ctx.replay):
                return replay(ctx, ctx.replay)
            return dict(ok_build=True, skipped="replay file of another stage")
        return _run(ctx, tier or ctx.tier, only, repeat, verbose, jobs)
    except Exception as ex:  # noqa   (a stage must end in a verdict, never in a traceback)
        import traceback
        ctx.note("T4-cli stage crashed: %r" % (ex,))
        ctx.violation({"broken": "machinery", "stage": "T4-cli", "error": repr(ex), "traceback": traceback.format_exc()[-3000:]},
                      "the T4-cli stage crashed; nothing is shown to hold", name="t4cli_crash.json", no_failing_input=True)
        return dict(ok_build=False)


def _run(ctx, tier, only, repeat, verbose, jobs):
    cov = ctx.coverage
    tie = cov.setdefault("ties", {}).setdefault("T4-cli", {})
    for a in ASSUMPTIONS:
        if a not in ctx.assumptions:
            ctx.assumptions.append(a)
    t0 = time.time()
    srv, lockbin, blog = build_binaries(ctx)
    if srv is None or lockbin is None:
        what = "cmd/server" if srv is None else "cmd/lock"
        ctx.note("T4-cli: %s does not build" % what)
        ctx.violation({"broken": "build", "what": "go build ./%s fails on the tree under test" % what, "tree": str(vcheck.REPO), "compiler_output": blog},
                      "the tree under test does not build %s: nothing is shown to hold" % ("its server binary" if srv is None else "the admin tool"),
                      name="t4cli_build_failed.json", no_failing_input=True)
        tie["build"] = "failed: " + what
        return dict(ok_build=False)
    exe, dlog = build_driver(ctx)
    if exe is None:
        ctx.note("T4-cli: the driver does not build against this tree")
        ctx.violation({"broken": "build", "what": "harness/e2e/c18 does not compile against the tree under test (protos / store / constants packages)", "tree": str(vcheck.REPO), "compiler_output": dlog},
                      "the admin-tool driver does not build against the tree: nothing is shown to hold", name="t4cli_driver_build_failed.json", no_failing_input=True)
        tie["build"] = "failed: harness/e2e/c18"
        return dict(ok_build=False)
    tie["build"] = "ok (%.1fs): cmd/server, cmd/lock, harness/e2e/c18 with %s from %s" % (time.time() - t0, vcheck.GO, vcheck.REPO)
    tie["cli_syntax"] = cli_help(lockbin, ctx.work)

    if only is not None:
        scs, corpus_n = [], 0
        for i in range(repeat):
            sc = dict(only)
            sc["id"] = "replay%02d" % i
            scs.append(sc)
    else:
        corpus = corpus_scenarios()
        corpus_n = len(corpus)
        scs = corpus + scenarios(ctx.seed, tier)
    if jobs is None:
        jobs = 12
    t1 = time.time()
    results, dlog, work = run_driver(ctx, exe, srv, lockbin, scs, "run", jobs)
    wall = time.time() - t1
    by_id = {o["scenario"]["id"]: o for o in results}

    judged, unjudged, failing, cut = [], [], [], []
    counts = {k: {"pass": 0, "fail": 0, "n/a": 0} for k in CLAUSES}
    evals = 0
    for sc in scs:
        o = by_id.get(sc["id"])
        if o is None:
            unjudged.append((sc, "no result from the driver"))
            continue
        try:
            status, v, j = judge(o)
        except Exception as ex:  # noqa
            import traceback
            status, v, j = "unjudged:the oracle could not read the driver's record: %r %s" % (ex, traceback.format_exc()[-400:]), {}, None
        if status != "judged":
            unjudged.append((sc, status[9:]))
            continue
        judged.append((o, v, j))
        for k in CLAUSES:
            counts[k]["fail" if v[k].startswith("fail") else v[k]] += 1
            n, fl = j.v.get(k, [0, []])
            evals += n + len(fl)
        fails = [k for k in CLAUSES if v[k].startswith("fail")]
        if fails:
            failing.append((o, v, fails, j))
        if j.cut:
            cut.append((sc, j.cut))
        if verbose:
            print("%-16s %5.0f ms  %s%s" % (sc["id"], o.get("wall_ms", 0), "ok" if not fails else "FAIL " + "; ".join("%s: %s" % (k, v[k][6:300]) for k in fails),
                                           ("   [judged up to: %s]" % j.cut[:160]) if j.cut else ""))
    if verbose:
        for sc, why in unjudged:
            print("%-16s unjudged: %s" % (sc["id"], why[:300]))

    # ---- verdict: one violation per distinct set of failed clauses (first = shortest script)
    groups = {}
    for item in failing:
        groups.setdefault(tuple(item[2]), []).append(item)
    order = sorted(groups, key=lambda g: (min(len(x[0]["scenario"]["steps"]) for x in groups[g]), g))
    for g in order[:6]:
        items = sorted(groups[g], key=lambda x: len(x[0]["scenario"]["steps"]))
        o, v, fails, j = items[0]
        sc = o["scenario"]
        text = "real binaries, scenario %s (%s; locks %s; %d sessions): %s" % (
            sc["id"], sc.get("kind"), ",".join("%s:%d" % (q(l["name"]), l["size"]) for l in sc["locks"]), sc["clients"],
            "; ".join("%s — %s" % (k, v[k][6:460 if n else 900]) for n, k in enumerate(sorted(fails, key=lambda k: (HEADLINE.index(k) if k in HEADLINE else 99, CLAUSES.index(k)))[:3])))
        obj = replay_obj(o, v, fails, j)
        obj["other_scenarios_failing_the_same_way"] = [x[0]["scenario"]["id"] for x in items[1:12]]
        ctx.violation(obj, text, name="t4cli_%s_%s.json" % (sc["id"], "+".join(fails)[:60]))
    if len(order) > 6:
        ctx.note("T4-cli: %d more groups of failing scenarios not written out" % (len(order) - 6))
    planned = len(scs)
    whole = [x for x in judged if not x[2].cut]
    if not failing and (not results or len(whole) < 0.7 * planned):
        first = (unjudged[0][1] if unjudged else (cut[0][1] if cut else dlog[-200:]))
        ctx.violation({"broken": "correspondence T4-cli", "planned": planned, "judged_completely": len(whole), "judged_in_part": len(cut),
                       "unjudged": [{"scenario": sc["id"], "why": why} for sc, why in unjudged[:8]],
                       "cut_short": [{"scenario": sc["id"], "why": why} for sc, why in cut[:8]], "driver_log": dlog[-3000:]},
                      "only %d of %d scenarios could be run to a complete verdict on this tree (first: %s): nothing is shown to hold" % (len(whole), planned, first[:300]),
                      name="t4cli_not_run.json", no_failing_input=True)

    # ---- clean up: only the directories of failing / unjudged scenarios are kept
    keep = set(o["scenario"]["id"] for o, _, _, _ in failing) | set(sc["id"] for sc, _ in unjudged)
    try:
        for d in work.iterdir():
            if d.is_dir() and d.name not in keep:
                shutil.rmtree(d, ignore_errors=True)
    except OSError:
        pass

    # ---- coverage
    def tot(key):
        return sum(j.stats[key] for _, _, j in judged)

    rel, roles, kinds, vias = {}, {}, {}, {}
    for o, _, j in judged:
        for k, n in j.released_by.items():
            rel[k] = rel.get(k, 0) + n
        for k, n in j.stats["roles"].items():
            roles[k] = roles.get(k, 0) + n
        kinds[o["scenario"].get("kind", "?")] = kinds.get(o["scenario"].get("kind", "?"), 0) + 1
        for ob in o.get("obs") or []:
            if ob.get("cli"):
                vk = "env" if ob["cli"].get("env_sock") else ("-s" if ob["cli"]["args"][:1] == ["-s"] else "--socket=")
                vias[vk] = vias.get(vk, 0) + 1
    tie.update({
        "scenarios_planned": planned, "corpus": corpus_n, "scenarios_judged": len(judged), "scenarios_failing": len(failing),
        "scenarios_judged_in_part": [{"id": sc["id"], "why": why[:200]} for sc, why in cut[:20]], "n_judged_in_part": len(cut),
        "n_unjudged": len(unjudged), "unjudged": [{"id": sc["id"], "why": why[:200]} for sc, why in unjudged[:20]],
        "clauses": counts, "clause_evaluations": evals, "per_kind": kinds,
        "cli_invocations": sum(vias.values()), "cli_socket_given_by": vias,
        "listings_compared": tot("lists"), "holds_in_listings": tot("listed_holds"), "state_file_images_compared": tot("file_reads"),
        "releases": rel, "leased_or_restored_holds_released_by_the_tool": tot("leased_released"), "restored_holds_released_by_the_tool": tot("restored_released"),
        "unlock_by_name_with_several_holds": tot("by_name_with_several"), "blocked_lock_calls_granted_after_unlock": tot("blocked_granted"),
        "unlocks_that_must_fail": tot("failed_unlocks"), "script_steps_by_role": roles,
        "ipc_listings_by_the_driver": tot("ipc_listings"), "ipc_listing_errors": tot("ipc_listing_errors"), "unlock_before_after_compared": tot("exact_checked"),
        "holds_with_odd_names_released_by_the_tool": tot("odd_names_released"), "invocations_with_double_dash": tot("sep_invocations"),
        "bare_flag_attempts": {k: sum(j.stats["bare_flag"].get(k, 0) for _, _, j in judged) for k in sorted(set(k for _, _, j in judged for k in j.stats["bare_flag"]))},
        "restarts": sum(1 for o, _, _ in judged for ob in (o.get("obs") or []) if ob["op"] == "restart"),
        "server_log_readable": sum(1 for o, _, _ in judged if o.get("log_parsed")),
        "scenario_wall_ms": {"max": round(max([o.get("wall_ms", 0) for o, _, _ in judged] or [0])), "sum": round(sum(o.get("wall_ms", 0) for o, _, _ in judged))},
        "jobs": jobs, "wall_s": round(wall, 1), "rule": RULE,
    })
    cov["evaluations"] = cov.get("evaluations", 0) + evals
    cov["distinct_nontrivial"] = cov.get("distinct_nontrivial", 0) + len(set(json.dumps(o["scenario"]["steps"], sort_keys=True) for o, _, _ in judged))
    cov["traces_validated_against_impl"] = cov.get("traces_validated_against_impl", 0) + len(judged)
    cov["t4cli_clause_evaluations"] = evals
    for want in ("nameN", "leased", "restored", "wsname", "hostile"):
        for o, v, j in judged:
            if o["scenario"].get("kind") == want:
                cov.setdefault("samples", []).append(dict(short(o, v, j, brief=True), script=[dict(st) for st in o["scenario"]["steps"]][:12]))
                break
    ctx.note("T4-cli: %d scenarios (%d corpus) in %.1fs: %d judged (%d in part), %d failing, %d unjudged; %d tool invocations, %d listings, %d releases" % (
        planned, corpus_n, wall, len(judged), len(cut), len(failing), len(unjudged), sum(vias.values()), tot("lists"), sum(rel.values())))
    return dict(ok_build=True, judged=len(judged), failing=len(failing), unjudged=len(unjudged), judged_list=judged)


def is_cli_replay(path):
    """True iff the file is a replay written by this tie (or a corpus file of its scenarios)."""
    try:
        r = json.loads(Path(path).read_text())
    except Exception:  # noqa
        return False
    if not isinstance(r, dict):
        return False
    sc = r.get("scenario") or ((r.get("scenarios") or [None])[0])
    return r.get("kind") == "t4-cli-scenario" or (isinstance(sc, dict) and isinstance(sc.get("steps"), list) and "locks" in sc)


def replay(ctx, path, runs=3):
    """Re-runs the scenario of a replay file on the current tree."""
    try:
        r = json.loads(Path(path).read_text())
    except Exception as ex:  # noqa
        print("cannot read replay file: %r" % (ex,))
        ctx.violation({"broken": "replay", "file": str(path)}, "replay file unreadable", name="replay_unreadable.json", no_failing_input=True)
        return
    sc = r.get("scenario") if isinstance(r, dict) else None
    if isinstance(r, dict) and r.get("scenarios"):
        sc = r["scenarios"][0]
    if not isinstance(sc, dict) or "steps" not in sc:
        print("the replay file holds no scenario (it names a build failure / a crash of the machinery):\n%s" % json.dumps(r, indent=1)[:3000])
        return
    print("replaying admin-tool scenario on %s (%d runs):\n%s" % (vcheck.REPO, runs, json.dumps(sc)))
    if r.get("failed_clauses"):
        print("recorded failure: " + json.dumps(r["failed_clauses"]))
    res = run_property(ctx, only=sc, repeat=runs, jobs=min(4, runs))
    for o, v, j in res.get("judged_list") or []:
        bad = {k: t for k, t in v.items() if t.startswith("fail")}
        print("--- run %s: %s" % (o["scenario"]["id"], "FAIL " + json.dumps(bad) if bad else "ok"))
        if bad:
            print("    observed: " + json.dumps(short(o, None, j))[:6000])
    return res


# ---------------------------------------------------------------------------------------------------------- sensitivity

SCRATCH = Path("/tmp/c18bin")


def _edit(wt, rel, old, new):
    p = wt / rel
    s = p.read_text()
    if old not in s:
        raise SystemExit("mutant does not apply: %r not in %s" % (old[:60], p))
    p.write_text(s.replace(old, new, 1))


def _m_patch(name):
    def f(wt):
        subprocess.run(["git", "-C", str(wt), "apply", str(vcheck.VERIF / "seeded" / name / "patch.diff")], check=True)
    return f


def _m_wrong_column(wt):      # what the tool prints per hold: name and key swapped
    _edit(wt, "server/ipc/ipc.go", 'lk.Name(), lk.Key(), lk.Size()))', 'lk.Key(), lk.Name(), lk.Size()))')


def _m_list_drops_one(wt):    # cmd/lock: the listing loop starts at the second hold
    _edit(wt, "cmd/lock/cmd_list.go", "for _, l := range *lockList {", "for _, l := range (*lockList)[1:] {")


def _m_exit_swallowed(wt):    # cmd/lock: the error is printed but the exit status stays 0
    _edit(wt, "cmd/lock/main.go", 'os.Stderr.Write([]byte(err.Error() + "\\n"))\n\t\tos.Exit(1)', 'os.Stderr.Write([]byte(err.Error() + "\\n"))')


def _m_key_dropped(wt):       # cmd/lock: unlock forgets to pass the key (every unlock is by name)
    _edit(wt, "cmd/lock/cmd_unlock.go", "\t\treq.Key = cmd.Key\n", "\t\t_ = cmd.Key\n")


def _m_refactor(wt):          # cmd/lock + ipc: same output, different code
    _edit(wt, "cmd/lock/cmd_list.go", "\tfor _, l := range *lockList {\n\t\tfmt.Println(l)\n\t}\n",
          "\tout := \"\"\n\tfor i := 0; i < len(*lockList); i++ {\n\t\tout += (*lockList)[i] + \"\\n\"\n\t}\n\tfmt.Print(out)\n")
    _edit(wt, "cmd/lock/cmd_unlock.go", 'fmt.Println("Unlocked:", *unlocked)', 'fmt.Printf("Unlocked: %t\\n", bool(*unlocked))')
    _edit(wt, "server/ipc/ipc.go", "\t\t\tif v.Name() == req.Name {\n\t\t\t\treq.Key = v.Key()\n\t\t\t}\n",
          "\t\t\tif v.Name() != req.Name {\n\t\t\t\tcontinue\n\t\t\t}\n\t\t\treq.Key = v.Key()\n")


def _m_timer_left(wt):        # server.Unlock from outside a session (the tool) leaves the lease timer running
    _edit(wt, "server/server.go", "if stopped := l.lockTimerMgr.Remove(timerKey(name, key)); stopped {",
          'if stopped := sessionId == "" || l.lockTimerMgr.Remove(timerKey(name, key)); stopped {')


def _m_list_server_trims(wt):  # ipc.ListLocks prints names without their surrounding whitespace
    _edit(wt, "server/ipc/ipc.go", 'lk.Name(), lk.Key(), lk.Size()))', 'strings.TrimSpace(lk.Name()), lk.Key(), lk.Size()))')
    _edit(wt, "server/ipc/ipc.go", '\t"fmt"\n', '\t"fmt"\n\t"strings"\n')


def _m_list_tool_tabs(wt):    # cmd/lock list prints tabs as spaces
    _edit(wt, "cmd/lock/cmd_list.go", "\t\tfmt.Println(l)\n", '\t\tfmt.Println(strings.ReplaceAll(l, "\\t", " "))\n')
    _edit(wt, "cmd/lock/cmd_list.go", '\t"fmt"\n', '\t"fmt"\n\t"strings"\n')


def _m_nobuild(wt):           # cmd/lock does not compile
    _edit(wt, "cmd/lock/cmd_list.go", "\treturn nil\n}\n", "\treturn nil\n}\nfunc (\n", )


MUTANTS = [
    ("nosave", "seeded/C18-fallback-nosave: RemoveLock from outside the owning session does not rewrite the state file", _m_patch("C18-fallback-nosave"), "violation"),
    ("allbyname", "seeded/C18b-ipc-unlock-all-by-name: unlock by name releases every hold of the name", _m_patch("C18b-ipc-unlock-all-by-name"), "violation"),
    ("offset", "seeded/C18c-locks-offset-per-session", _m_patch("C18c-locks-offset-per-session"), "violation"),
    ("trim", "seeded/C18d-cli-trims-name: cmd/lock unlock TrimSpace()s name and key", _m_patch("C18d-cli-trims-name"), "violation"),
    ("listtrim", "ipc.ListLocks prints names without their surrounding whitespace", _m_list_server_trims, "violation"),
    ("listtabs", "cmd/lock list prints tabs as spaces", _m_list_tool_tabs, "violation"),
    ("column", "listing prints key and name in each other's column", _m_wrong_column, "violation"),
    ("dropone", "cmd/lock list skips the first hold", _m_list_drops_one, "violation"),
    ("exit0", "cmd/lock prints the error but exits 0", _m_exit_swallowed, "violation"),
    ("nokey", "cmd/lock unlock drops the key argument", _m_key_dropped, "violation"),
    ("timer", "server.Unlock called by the tool leaves the hold's lease timer running", _m_timer_left, "violation"),
    ("nobuild", "cmd/lock does not compile", _m_nobuild, "violation"),
    ("refactor", "harmless refactor of cmd/lock and ipc.Unlock (output text unchanged)", _m_refactor, "quiet"),
]


def sensitivity(tier, seed, only):
    base = Path(os.environ.get("VERIF_REPO_BASE", "/repo"))
    shutil.rmtree(SCRATCH, ignore_errors=True)
    subprocess.run(["git", "-C", str(base), "worktree", "prune"], check=False)
    SCRATCH.mkdir(parents=True)
    rows = []
    try:
        for mid, what, fn, expect in MUTANTS:
            if only and mid not in only:
                continue
            wt = SCRATCH / ("wt-" + mid)
            subprocess.run(["git", "-C", str(base), "worktree", "add", "--detach", str(wt)], check=True, stdout=subprocess.DEVNULL, stderr=subprocess.DEVNULL)
            try:
                fn(wt)
                t = time.time()
                p = subprocess.run([sys.executable, "-m", "lib.clitie", "--tier", tier, "--seed", str(seed), "--name", "C18cli-sens"], cwd=str(vcheck.VERIF),
                                   env=dict(os.environ, VERIF_REPO=str(wt)), stdout=subprocess.PIPE, stderr=subprocess.STDOUT, text=True, timeout=900)
                lines = [l for l in p.stdout.splitlines() if l.startswith("VIOLATION") or l.startswith("  real binaries") or l.startswith("C18 (T4-cli")]
                got = "violation" if p.returncode == 1 else ("quiet" if p.returncode == 0 else "rc %d" % p.returncode)
                rows.append((mid, what, expect, got, time.time() - t, lines))
                print("== %s: %s\n   expected %s, got %s (%.1fs)" % (mid, what, expect, got, time.time() - t))
                for l in lines[:7]:
                    print("   " + l[:600])
            finally:
                subprocess.run(["git", "-C", str(base), "worktree", "remove", "--force", str(wt)], check=False, stdout=subprocess.DEVNULL, stderr=subprocess.DEVNULL)
    finally:
        shutil.rmtree(SCRATCH, ignore_errors=True)
        subprocess.run(["git", "-C", str(base), "worktree", "prune"], check=False)
        shutil.rmtree(vcheck.WORKROOT / "C18cli-sens", ignore_errors=True)
        shutil.rmtree(vcheck.VERIF / "replays" / "C18cli-sens", ignore_errors=True)
    print("\nsummary (tier %s, seed %s):" % (tier, seed))
    for mid, what, expect, got, dt, lines in rows:
        print("  %-10s expected %-9s got %-9s %s" % (mid, expect, got, "OK" if expect == got else "UNEXPECTED"))
    return 0 if all(e == g for _, _, e, g, _, _ in rows) else 1


# ----------------------------------------------------------------------------------------------------------------- main

def main(argv):
    import argparse
    ap = argparse.ArgumentParser(prog="python3 -m lib.clitie")
    ap.add_argument("--tier", default="quick", choices=["quick", "thorough"])
    ap.add_argument("--seed", type=int, default=int(os.environ.get("VERIF_SEED", "1")))
    ap.add_argument("--replay")
    ap.add_argument("--runs", type=int, default=3)
    ap.add_argument("--jobs", type=int)
    ap.add_argument("--name", default="C18cli", help="scratch / replay directory name")
    ap.add_argument("--sensitivity", action="store_true")
    ap.add_argument("--only", default="")
    ap.add_argument("-v", "--verbose", action="store_true")
    a = ap.parse_args(argv)
    if a.sensitivity:
        return sensitivity(a.tier, a.seed, set(x for x in a.only.split(",") if x))
    ctx = vcheck.Ctx(a.name, a.tier, a.seed, replay=a.replay)      # scratch /verif/.work/C18cli, replays/C18cli; no evidence file
    if a.replay:
        replay(ctx, a.replay, runs=a.runs)
    else:
        run_property(ctx, verbose=a.verbose, jobs=a.jobs)
        print(json.dumps(ctx.coverage["ties"].get("T4-cli", {}), indent=1))
    for path, text, nfi in ctx.violations:
        print("VIOLATION property=C18 replay=%s%s\n  %s" % (path, " no-failing-input-found" if nfi else "", text))
    print("C18 (T4-cli tie alone): %s  (%d violation(s), %.1fs, tier %s, seed %s, tree %s)" % (
        "FAIL" if ctx.violations else "ok", len(ctx.violations), time.time() - ctx.t0, a.tier, a.seed, vcheck.REPO))
    return 1 if ctx.violations else 0


if __name__ == "__main__":
    sys.exit(main(sys.argv[1:]))
