"""REST session end vs in-flight request, for C06 ("REST session deleted or idle-expired ... requests of that session still
in flight can neither leave a hold behind"): builds harness/restdiff against the tree under test and runs, on the REAL
rest handler + REAL LockServer, DELETE /session and the idle-expiry callback against a TryLock of the same session that is
held INSIDE the server call (or right after timerMgr.Reset), in both orders, exact ties on the virtual clock and on the wall
clock, while another session holds a lock that must stay untouched.

    from lib import restsess
    restsess.run_property(ctx)            # in checks/c06.py, after its own stages

Oracle (C06, on real observations): once every goroutine has returned, no hold acquired by a request of a session whose
ConnEnd was delivered is in LockServer.Locks(); holds of sessions that have not ended are all there; ConnEnd at most once per
session at any time and exactly once after settling; nothing is held after every session has ended; no panic, no deadlock.
A leak seen here is reported as a violation with the scenario as replay — it is NOT attributed to the known finding F-LEAK
(a gRPC-level race): the unchanged REST layer makes session end wait for the in-flight request (session mutex).
Coverage: ctx.coverage["ties"]["T2-rest-session-end"].   Replay: restsess.replay(ctx, path) -> True if handled."""
import copy
import json
import random
from pathlib import Path

from checks import c15 as _lib
from checks import c20 as _c20

TIE = "T2-rest-session-end"


class _Sub:
    """a view of ctx with its own scratch directory (the caller's ctx.work/harness is left alone)"""

    def __init__(self, ctx):
        self._ctx = ctx
        self.work = ctx.work / "restsess"
        self.work.mkdir(parents=True, exist_ok=True)
        self.prop, self.seed, self.tier = ctx.prop, ctx.seed, ctx.tier

    def note(self, m):
        self._ctx.note(m)


def _st(k, s, act, **kw):
    d = {"op": "start", "k": k, "s": s, "act": act}
    d.update(kw)
    return d


def fixed_scenarios(vtmo=2_000_000_000, rtmo=40_000_000):
    W, R, SPIN = (lambda k: {"op": "wait", "k": k}), (lambda k: {"op": "release", "k": k}), {"op": "spin"}
    out = []

    def v(name, steps, sessions=2):
        out.append({"id": "v-c06-" + name, "clock": "virtual", "tmo": vtmo, "sessions": sessions, "steps": steps})

    def r(name, steps, sessions=2):
        out.append({"id": "r-c06-" + name, "clock": "real", "tmo": rtmo, "sessions": sessions, "steps": steps})

    other = _st(9, 1, "req")   # session 1 takes a lock and keeps it: it must stay untouched
    DONE9 = {"op": "done", "k": 9}
    # DELETE while a TryLock of the same session is inside the server call; both orders of release / DELETE
    v("delete-vs-inflight", [other, _st(0, 0, "req", gate=True), W(0), _st(1, 0, "del"), SPIN, R(0)])
    v("delete-vs-inflight-release-first", [other, _st(0, 0, "req", gate=True), W(0), _st(1, 0, "del"), R(0)])
    v("delete-vs-two-inflight", [other, _st(0, 0, "req", gate=True), W(0), _st(2, 0, "req"), SPIN, _st(1, 0, "del"), SPIN, R(0)])
    # DELETE while the request sits between timerMgr.Reset and taking the session mutex
    v("delete-vs-request-after-reset", [other, DONE9, _st(0, 0, "req", hold=True), W(0), _st(1, 0, "del"), SPIN, R(0)])
    # idle expiry while a TryLock of the session is inside the server call (the other session is touched later and lives on)
    late_other = _st(9, 1, "req", pm=500)
    v("expiry-vs-inflight", [late_other, _st(0, 0, "req", gate=True), W(0), {"op": "sleep", "pm": 1000}, SPIN, R(0)])
    v("expiry-vs-inflight-and-delete", [late_other, _st(0, 0, "req", gate=True), W(0), {"op": "sleep", "pm": 1000}, SPIN, _st(1, 0, "del"), SPIN, R(0)])
    # (the held request owns the table mutex: nobody else may arrive while the virtual clock has to advance)
    v("expiry-vs-request-after-reset", [other, DONE9, _st(0, 0, "req", hold=True), W(0), {"op": "sleep", "pm": 1000}, SPIN, R(0)])
    # exact ties: request, DELETE and the timer's function at the same instant
    for ns, tag in ((-1, "minus1ns"), (0, "exact"), (1, "plus1ns")):
        v("tie-" + tag, [late_other, _st(0, 0, "req", pm=1000, ns=ns), _st(1, 0, "del", pm=1000, ns=ns), _st(2, 0, "req", pm=1000)])
    # wall clock: time passes while goroutines wait for mutexes
    for i in range(3):
        r("expiry-vs-inflight-%d" % i, [late_other, _st(0, 0, "req", gate=True), W(0), {"op": "sleep", "pm": 1200}, SPIN, R(0)])
        r("delete-vs-inflight-%d" % i, [other, _st(0, 0, "req", gate=True), W(0), _st(1, 0, "del"), SPIN, R(0)])
        r("expiry-and-delete-vs-inflight-%d" % i, [late_other, _st(0, 0, "req", gate=True), W(0), {"op": "sleep", "pm": 1100}, _st(1, 0, "del"), SPIN, R(0)])
    return out


def random_scenarios(seed, n_virtual, n_real, vtmo=2_000_000_000, rtmo=40_000_000):
    """in-flight requests (held inside the server call / after Reset) against session ends placed around them"""
    rnd = random.Random(seed * 1000003 + 6)
    out = []
    for i in range(n_virtual + n_real):
        virtual = i < n_virtual
        steps, k = [], 0
        if rnd.random() < 0.7:
            steps.append(_st(9, 1, "req", pm=rnd.choice([0, 500])))
        held = []
        for _ in range(rnd.randint(1, 2)):
            kind = rnd.choice(["gate", "gate", "hold"])
            steps += [_st(k, 0, "req", **{kind: True}), {"op": "wait", "k": k}]
            held.append(k)
            k += 1
            if kind == "hold" or virtual:
                break   # a second request would queue on a mutex: the virtual clock could not advance
        ender = rnd.choice(["del", "expire", "both", "del2"])
        if ender in ("expire", "both"):
            steps += [{"op": "sleep", "pm": 1000 if virtual else rnd.choice([1100, 1500])}, {"op": "spin"}]
        if ender in ("del", "both", "del2"):
            steps.append(_st(k, 0, "del"))
            k += 1
            if ender == "del2":
                steps.append(_st(k, 0, "del"))
                k += 1
        if rnd.random() < 0.5:
            steps.append({"op": "spin"})
        if rnd.random() < 0.4:
            steps.append(_st(k, 0, "req"))
            k += 1
        if any(st.get("hold") for st in steps) and steps and steps[0].get("k") == 9:
            # the held request owns the table mutex: a request arriving later would stop the virtual clock
            steps[0]["pm"] = 0
            steps.insert(1, {"op": "done", "k": 9})
        rnd.shuffle(held)
        for h in held:
            steps.append({"op": "release", "k": h})
        out.append({"id": "%s-c06-rand%d-%d" % ("v" if virtual else "r", seed, i), "clock": "virtual" if virtual else "real",
                    "tmo": vtmo if virtual else rtmo, "sessions": 2, "steps": steps})
    return out


def oracle(r):
    """C06 on one executed scenario -> [(rule, text)]"""
    bad = []
    if r.get("skipped"):
        return bad
    if r.get("setup_fail"):
        return [("setup", "the scenario could not be set up: %s" % r["setup_fail"])]
    if r.get("panic"):
        bad.append(("crash", "a handler panicked: %s" % r["panic"]))
    if r.get("deadlock"):
        return bad + [("deadlock", "handlers did not return within 10 s of wall clock")]
    created = r.get("created") or []
    e1, e2, fin = r.get("ends_early") or {}, r.get("ends_early2") or {}, r.get("ends") or {}
    for sid in set(e1) | set(fin):
        if max(e1.get(sid, 0), fin.get(sid, 0)) > 1:
            bad.append(("connend-twice", "ConnEnd delivered %d times for session %s" % (max(e1.get(sid, 0), fin.get(sid, 0)), sid)))
    for sid in created:
        if fin.get(sid, 0) != 1:
            bad.append(("connend-count", "after settling ConnEnd was delivered %d times for session %s" % (fin.get(sid, 0), sid)))
    locks = set(r.get("locks_join") or [])
    for k, a in (r.get("acts") or {}).items():
        kind, s = a.split()
        s = int(s)
        if kind != "req" or (r.get("statuses") or {}).get(k) != 200 or s >= len(created):
            continue
        sid, name = created[s], "race-%s" % k
        n1, n2 = e1.get(sid, 0), e2.get(sid, 0)
        # ended = the ConnEnd delivery has RETURNED (the timer's function may still be inside the lock server when every
        # handler has returned); live = no delivery has even started
        d1 = (r.get("done_join") or {}).get(sid, 0)
        if d1 >= 1 and name in locks:
            bad.append(("hold-left-behind-by-in-flight-request", "session %d (%s) has ended (ConnEnd delivered) and every request has returned, but the lock %r acquired by its request goroutine %s is still held"
                        % (s, sid, name, k)))
        if n1 == 0 and n2 == 0 and name not in locks:
            bad.append(("hold-of-live-session-lost", "session %d (%s) has not ended but the lock %r acquired by its request goroutine %s is no longer held" % (s, sid, name, k)))
    if r.get("locks_left"):
        bad.append(("holds-not-released", "%d lock(s) still held after every session has ended" % r["locks_left"]))
    return bad


def _judge(ctx, rr, tie, limit=3):
    n = nf = 0
    rules = {}
    for r in rr["results"]:
        if r.get("skipped"):
            rules["skipped"] = rules.get("skipped", 0) + 1
            continue
        n += 1
        bad = oracle(r)
        if bad:
            nf += 1
            for rule, _ in bad:
                rules[rule] = rules.get(rule, 0) + 1
            if limit > 0:
                limit -= 1
                ctx.violation({"kind": "rest-session-end", "property": ctx.prop, "failed_checks": ["%s: %s" % x for x in bad], "scenario": rr["scenarios"].get(r.get("id")), "result": r,
                               "seed": ctx.seed, "replay_cmd": "bin/check %s --replay <this file>   (re-runs the scenario 10 times on the real REST handler)" % ctx.prop},
                              "REST session end vs in-flight request on the real handler: %s (scenario %s)" % ("; ".join(x[0] for x in bad[:3]), r.get("id")),
                              name="restsess_%s.json" % r.get("id"))
    if rr["crash"]:
        c = rr["crash"]
        nf += 1
        rules[c["kind"]] = rules.get(c["kind"], 0) + 1
        ctx.violation({"kind": "rest-session-end", "property": ctx.prop, "failed_checks": [c["kind"]], "scenario": c.get("scenario"), "scenario_id": c["id"], "output": c["output"]},
                      "the REST gateway %s during session-end scenario %s" % ("deadlocked (no progress on the wall clock)" if c["kind"] == "hang" else "crashed", c["id"]),
                      name="restsess_%s_%s.json" % (c["kind"], str(c["id"]).replace("?", "x")))
    return n, nf, rules


def run_property(ctx):
    """Builds, runs, judges; records violations and coverage on ctx. -> dict(ok_build, executed, failing)"""
    tie = ctx.coverage.setdefault("ties", {}).setdefault(TIE, {})
    sub = _Sub(ctx)
    b = _lib.build(sub)
    if not b["ok"]:
        ctx.note("%s: the REST harness does not build against this tree (%s)" % (TIE, b["why"]))
        tie.update({"status": "unavailable: " + b["why"], "log": b["log"][-800:]})
        return dict(ok_build=False, executed=0, failing=0)
    quick = ctx.tier == "quick"
    scs = fixed_scenarios() + random_scenarios(ctx.seed, *((25, 25) if quick else (600, 400)))
    rr = _c20.run_races(sub, b, 0, 0, ctx.seed, scenarios=scs, tag="restsess-run", timeout=240)
    n, nf, rules = _judge(ctx, rr, tie)
    inflight_ended = sum(1 for r in rr["results"] for k, a in (r.get("acts") or {}).items()
                         if a.startswith("req") and (r.get("statuses") or {}).get(k) == 200 and int(a.split()[1]) < len(r.get("created") or [])
                         and (r.get("ends_early") or {}).get(r["created"][int(a.split()[1])], 0) >= 1)
    tie.update({"status": "ran", "scenarios_executed_on_real_rest_handler": n, "fixed": len(fixed_scenarios()), "failing": nf, "failing_rules": rules,
                "granted_requests_whose_session_had_ended_when_everything_returned": inflight_ended,
                "yield_point_after_reset_available": b["cookies_visible"],
                "oracle": "no hold of an ended session's request in LockServer.Locks(); holds of live sessions present; ConnEnd <= 1 always, == 1 after settling; nothing held at the end; no panic / deadlock",
                "what": "DELETE /session and idle expiry vs a TryLock of the same session held inside the server call or right after timerMgr.Reset, both orders, exact ties (virtual clock) and wall clock, another session holding a lock"})
    ctx.coverage["evaluations"] = ctx.coverage.get("evaluations", 0) + n
    for r in rr["results"]:
        if r.get("id") == "v-c06-expiry-vs-inflight" and isinstance(ctx.coverage.get("samples"), list) and len(ctx.coverage["samples"]) < 6:
            ctx.coverage["samples"].append({"rest_session_end_scenario": rr["scenarios"].get(r["id"]), "result": r})
    return dict(ok_build=True, executed=n, failing=nf)


def replay(ctx, path):
    """Handles a replay file written by run_property. -> True if the file was one of ours."""
    try:
        d = json.loads(Path(path).read_text())
    except Exception:  # noqa
        return False
    if d.get("kind") != "rest-session-end":
        return False
    sc = d.get("scenario")
    if not sc:
        print("the replay file names scenario %r but carries no step list" % d.get("scenario_id"))
        return True
    sub = _Sub(ctx)
    b = _lib.build(sub)
    if not b["ok"]:
        print("the REST harness does not build against this tree: " + b["why"])
        ctx.violation({"broken": "replay", "why": b["why"]}, "replay could not run", name="replay_failed.json", no_failing_input=True)
        return True
    scs = []
    for i in range(10):
        s = copy.deepcopy(sc)
        s["id"] = "%s-replay%d" % (sc.get("id", "scenario"), i)
        scs.append(s)
    print("replaying %s 10 times\n%s" % (sc.get("id"), json.dumps(sc)))
    rr = _c20.run_races(sub, b, 0, 0, ctx.seed, scenarios=scs, tag="restsess-replay")
    nbad = 0
    for r in rr["results"]:
        bad = oracle(r)
        print(json.dumps(r))
        print("  -> " + ("; ".join("%s: %s" % x for x in bad) if bad else "passes"))
        nbad += 1 if bad else 0
    if nbad or rr["crash"]:
        ctx.violation({"kind": "rest-session-end", "scenario": sc, "failing_runs": nbad, "crash": rr["crash"]},
                      "the replayed scenario still fails (%d of %d runs)" % (nbad, len(rr["results"])), name="replayed_restsess.json")
    else:
        print("verdict: all %d runs pass on this tree" % len(rr["results"]))
    return True
