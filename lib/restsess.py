"""REST session end vs in-flight request, for C06 ("REST session deleted or idle-expired ... requests of that session still
in flight can neither leave a hold behind"): builds harness/restdiff against the tree under test and runs, on the REAL
rest handler + REAL LockServer, DELETE /session and the idle-expiry callback against a TryLock of the same session that is
held INSIDE the server call (or right after timerMgr.Reset), in both orders, exact ties on the virtual clock and on the wall
clock, while another session holds a lock that must stay untouched.

    from lib import restsess
    restsess.run_property(ctx)            # in checks/c06.py, after its own stages

Oracle (C06, on real observations): once every goroutine has returned, no hold acquired by a request of a session whose
ConnEnd was delivered is in LockServer.Locks(); holds of sessions that have not ended are all there; ConnEnd at most once per
session at any time and exactly once after settling; nothing is held after every session has ended; no panic, no deadlock.
A leak seen here is reported as a violation with the scenario as replay — it is NOT attributed to the known finding F-LEAK
(a gRPC-level race): the unchanged REST layer makes session end wait for the in-flight request (session mutex).
Coverage: ctx.coverage["ties"]["T2-rest-session-end"].   Replay: restsess.replay(ctx, path) -> True if handled.

WINDOW RUNS (tie "T2-rest-window", shared by C20 and C06; harness/restdiff/window_on_test.go): the instrumented handler parks at
every INNER yield point (before every mutex acquisition and timer-manager call found by text in net/rest/rest.go, inside the
server call, at the entry of HandleConn(ConnEnd)) and the harness explores the interleavings of request / DELETE / idle-expiry
threads itself (preemption-bounded depth-first search, fresh handler per execution, lock aware). `window_oracle` below judges the
real observations, model independent:  window_stage(ctx, sb=None) runs and reports;  replay kind "window"."""
import copy
import json
import random
from pathlib import Path

from checks import c15 as _lib
from checks import c20 as _c20

TIE = "T2-rest-session-end"


class _Sub:
    """a view of ctx with its own scratch directory (the caller's ctx.work/harness is left alone)"""

    def __init__(self, ctx):
        self._ctx = ctx
        self.work = ctx.work / "restsess"
        self.work.mkdir(parents=True, exist_ok=True)
        self.prop, self.seed, self.tier = ctx.prop, ctx.seed, ctx.tier

    def note(self, m):
        self._ctx.note(m)


def _st(k, s, act, **kw):
    d = {"op": "start", "k": k, "s": s, "act": act}
    d.update(kw)
    return d


def fixed_scenarios(vtmo=2_000_000_000, rtmo=40_000_000):
    W, R, SPIN = (lambda k: {"op": "wait", "k": k}), (lambda k: {"op": "release", "k": k}), {"op": "spin"}
    out = []

    def v(name, steps, sessions=2):
        out.append({"id": "v-c06-" + name, "clock": "virtual", "tmo": vtmo, "sessions": sessions, "steps": steps})

    def r(name, steps, sessions=2):
        out.append({"id": "r-c06-" + name, "clock": "real", "tmo": rtmo, "sessions": sessions, "steps": steps})

    other = _st(9, 1, "req")   # session 1 takes a lock and keeps it: it must stay untouched
    DONE9 = {"op": "done", "k": 9}
    # DELETE while a TryLock of the same session is inside the server call; both orders of release / DELETE
    v("delete-vs-inflight", [other, _st(0, 0, "req", gate=True), W(0), _st(1, 0, "del"), SPIN, R(0)])
    v("delete-vs-inflight-release-first", [other, _st(0, 0, "req", gate=True), W(0), _st(1, 0, "del"), R(0)])
    v("delete-vs-two-inflight", [other, _st(0, 0, "req", gate=True), W(0), _st(2, 0, "req"), SPIN, _st(1, 0, "del"), SPIN, R(0)])
    # DELETE while the request sits between timerMgr.Reset and taking the session mutex
    v("delete-vs-request-after-reset", [other, DONE9, _st(0, 0, "req", hold=True), W(0), _st(1, 0, "del"), SPIN, R(0)])
    # idle expiry while a TryLock of the session is inside the server call (the other session is touched later and lives on)
    late_other = _st(9, 1, "req", pm=500)
    v("expiry-vs-inflight", [late_other, _st(0, 0, "req", gate=True), W(0), {"op": "sleep", "pm": 1000}, SPIN, R(0)])
    v("expiry-vs-inflight-and-delete", [late_other, _st(0, 0, "req", gate=True), W(0), {"op": "sleep", "pm": 1000}, SPIN, _st(1, 0, "del"), SPIN, R(0)])
    # (the held request owns the table mutex: nobody else may arrive while the virtual clock has to advance)
    v("expiry-vs-request-after-reset", [other, DONE9, _st(0, 0, "req", hold=True), W(0), {"op": "sleep", "pm": 1000}, SPIN, R(0)])
    # exact ties: request, DELETE and the timer's function at the same instant
    for ns, tag in ((-1, "minus1ns"), (0, "exact"), (1, "plus1ns")):
        v("tie-" + tag, [late_other, _st(0, 0, "req", pm=1000, ns=ns), _st(1, 0, "del", pm=1000, ns=ns), _st(2, 0, "req", pm=1000)])
    # wall clock: time passes while goroutines wait for mutexes
    for i in range(3):
        r("expiry-vs-inflight-%d" % i, [late_other, _st(0, 0, "req", gate=True), W(0), {"op": "sleep", "pm": 1200}, SPIN, R(0)])
        r("delete-vs-inflight-%d" % i, [other, _st(0, 0, "req", gate=True), W(0), _st(1, 0, "del"), SPIN, R(0)])
        r("expiry-and-delete-vs-inflight-%d" % i, [late_other, _st(0, 0, "req", gate=True), W(0), {"op": "sleep", "pm": 1100}, _st(1, 0, "del"), SPIN, R(0)])
    return out


def random_scenarios(seed, n_virtual, n_real, vtmo=2_000_000_000, rtmo=40_000_000):
    """in-flight requests (held inside the server call / after Reset) against session ends placed around them"""
    rnd = random.Random(seed * 1000003 + 6)
    out = []
    for i in range(n_virtual + n_real):
        virtual = i < n_virtual
        steps, k = [], 0
        if rnd.random() < 0.7:
            steps.append(_st(9, 1, "req", pm=rnd.choice([0, 500])))
        held = []
        for _ in range(rnd.randint(1, 2)):
            kind = rnd.choice(["gate", "gate", "hold"])
            steps += [_st(k, 0, "req", **{kind: True}), {"op": "wait", "k": k}]
            held.append(k)
            k += 1
            if kind == "hold" or virtual:
                break   # a second request would queue on a mutex: the virtual clock could not advance
        ender = rnd.choice(["del", "expire", "both", "del2"])
        if ender in ("expire", "both"):
            steps += [{"op": "sleep", "pm": 1000 if virtual else rnd.choice([1100, 1500])}, {"op": "spin"}]
        if ender in ("del", "both", "del2"):
            steps.append(_st(k, 0, "del"))
            k += 1
            if ender == "del2":
                steps.append(_st(k, 0, "del"))
                k += 1
        if rnd.random() < 0.5:
            steps.append({"op": "spin"})
        if rnd.random() < 0.4:
            steps.append(_st(k, 0, "req"))
            k += 1
        if any(st.get("hold") for st in steps) and steps and steps[0].get("k") == 9:
            # the held request owns the table mutex: a request arriving later would stop the virtual clock
            steps[0]["pm"] = 0
            steps.insert(1, {"op": "done", "k": 9})
        rnd.shuffle(held)
        for h in held:
            steps.append({"op": "release", "k": h})
        out.append({"id": "%s-c06-rand%d-%d" % ("v" if virtual else "r", seed, i), "clock": "virtual" if virtual else "real",
                    "tmo": vtmo if virtual else rtmo, "sessions": 2, "steps": steps})
    return out


def oracle(r):
    """C06 on one executed scenario -> [(rule, text)]"""
    bad = []
    if r.get("skipped"):
        return bad
    if r.get("setup_fail"):
        return [("setup", "the scenario could not be set up: %s" % r["setup_fail"])]
    if r.get("panic"):
        bad.append(("crash", "a handler panicked: %s" % r["panic"]))
    if r.get("deadlock"):
        return bad + [("deadlock", "handlers did not return within 10 s of wall clock")]
    created = r.get("created") or []
    e1, e2, fin = r.get("ends_early") or {}, r.get("ends_early2") or {}, r.get("ends") or {}
    for sid in set(e1) | set(fin):
        if max(e1.get(sid, 0), fin.get(sid, 0)) > 1:
            bad.append(("connend-twice", "ConnEnd delivered %d times for session %s" % (max(e1.get(sid, 0), fin.get(sid, 0)), sid)))
    for sid in created:
        if fin.get(sid, 0) != 1:
            bad.append(("connend-count", "after settling ConnEnd was delivered %d times for session %s" % (fin.get(sid, 0), sid)))
    locks = set(r.get("locks_join") or [])
    for k, a in (r.get("acts") or {}).items():
        kind, s = a.split()
        s = int(s)
        if kind != "req" or (r.get("statuses") or {}).get(k) != 200 or s >= len(created):
            continue
        sid, name = created[s], "race-%s" % k
        n1, n2 = e1.get(sid, 0), e2.get(sid, 0)
        # ended = the ConnEnd delivery has RETURNED (the timer's function may still be inside the lock server when every
        # handler has returned); live = no delivery has even started
        d1 = (r.get("done_join") or {}).get(sid, 0)
        if d1 >= 1 and name in locks:
            bad.append(("hold-left-behind-by-in-flight-request", "session %d (%s) has ended (ConnEnd delivered) and every request has returned, but the lock %r acquired by its request goroutine %s is still held"
                        % (s, sid, name, k)))
        if n1 == 0 and n2 == 0 and name not in locks:
            bad.append(("hold-of-live-session-lost", "session %d (%s) has not ended but the lock %r acquired by its request goroutine %s is no longer held" % (s, sid, name, k)))
    if r.get("locks_left"):
        bad.append(("holds-not-released", "%d lock(s) still held after every session has ended" % r["locks_left"]))
    return bad


def _judge(ctx, rr, tie, limit=3):
    n = nf = 0
    rules = {}
    for r in rr["results"]:
        if r.get("skipped"):
            rules["skipped"] = rules.get("skipped", 0) + 1
            continue
        n += 1
        bad = oracle(r)
        if bad:
            nf += 1
            for rule, _ in bad:
                rules[rule] = rules.get(rule, 0) + 1
            if limit > 0:
                limit -= 1
                ctx.violation({"kind": "rest-session-end", "property": ctx.prop, "failed_checks": ["%s: %s" % x for x in bad], "scenario": rr["scenarios"].get(r.get("id")), "result": r,
                               "seed": ctx.seed, "replay_cmd": "bin/check %s --replay <this file>   (re-runs the scenario 10 times on the real REST handler)" % ctx.prop},
                              "REST session end vs in-flight request on the real handler: %s (scenario %s)" % ("; ".join(x[0] for x in bad[:3]), r.get("id")),
                              name="restsess_%s.json" % r.get("id"))
    if rr["crash"]:
        c = rr["crash"]
        nf += 1
        rules[c["kind"]] = rules.get(c["kind"], 0) + 1
        ctx.violation({"kind": "rest-session-end", "property": ctx.prop, "failed_checks": [c["kind"]], "scenario": c.get("scenario"), "scenario_id": c["id"], "output": c["output"]},
                      "the REST gateway %s during session-end scenario %s" % ("deadlocked (no progress on the wall clock)" if c["kind"] == "hang" else "crashed", c["id"]),
                      name="restsess_%s_%s.json" % (c["kind"], str(c["id"]).replace("?", "x")))
    return n, nf, rules


def run_property(ctx):
    """Builds, runs, judges; records violations and coverage on ctx. -> dict(ok_build, executed, failing)"""
    tie = ctx.coverage.setdefault("ties", {}).setdefault(TIE, {})
    sub = _Sub(ctx)
    b = _lib.build(sub)
    if not b["ok"]:
        ctx.note("%s: the REST harness does not build against this tree (%s)" % (TIE, b["why"]))
        tie.update({"status": "unavailable: " + b["why"], "log": b["log"][-800:]})
        return dict(ok_build=False, executed=0, failing=0)
    quick = ctx.tier == "quick"
    scs = fixed_scenarios() + random_scenarios(ctx.seed, *((25, 25) if quick else (600, 400)))
    rr = _c20.run_races(sub, b, 0, 0, ctx.seed, scenarios=scs, tag="restsess-run", timeout=240)
    n, nf, rules = _judge(ctx, rr, tie)
    inflight_ended = sum(1 for r in rr["results"] for k, a in (r.get("acts") or {}).items()
                         if a.startswith("req") and (r.get("statuses") or {}).get(k) == 200 and int(a.split()[1]) < len(r.get("created") or [])
                         and (r.get("ends_early") or {}).get(r["created"][int(a.split()[1])], 0) >= 1)
    tie.update({"status": "ran", "scenarios_executed_on_real_rest_handler": n, "fixed": len(fixed_scenarios()), "failing": nf, "failing_rules": rules,
                "granted_requests_whose_session_had_ended_when_everything_returned": inflight_ended,
                "yield_point_after_reset_available": b["cookies_visible"],
                "oracle": "no hold of an ended session's request in LockServer.Locks(); holds of live sessions present; ConnEnd <= 1 always, == 1 after settling; nothing held at the end; no panic / deadlock",
                "what": "DELETE /session and idle expiry vs a TryLock of the same session held inside the server call or right after timerMgr.Reset, both orders, exact ties (virtual clock) and wall clock, another session holding a lock"})
    ctx.coverage["evaluations"] = ctx.coverage.get("evaluations", 0) + n
    for r in rr["results"]:
        if r.get("id") == "v-c06-expiry-vs-inflight" and isinstance(ctx.coverage.get("samples"), list) and len(ctx.coverage["samples"]) < 6:
            ctx.coverage["samples"].append({"rest_session_end_scenario": rr["scenarios"].get(r["id"]), "result": r})
    w = window_stage(ctx)
    return dict(ok_build=True, executed=n + w["executed"], failing=nf + w["failing"])


def replay(ctx, path):
    """Handles a replay file written by run_property. -> True if the file was one of ours."""
    try:
        d = json.loads(Path(path).read_text())
    except Exception:  # noqa
        return False
    if d.get("kind") == "window":
        return replay_window(ctx, d)
    if d.get("kind") != "rest-session-end":
        return False
    sc = d.get("scenario")
    if not sc:
        print("the replay file names scenario %r but carries no step list" % d.get("scenario_id"))
        return True
    sub = _Sub(ctx)
    b = _lib.build(sub)
    if not b["ok"]:
        print("the REST harness does not build against this tree: " + b["why"])
        ctx.violation({"broken": "replay", "why": b["why"]}, "replay could not run", name="replay_failed.json", no_failing_input=True)
        return True
    scs = []
    for i in range(10):
        s = copy.deepcopy(sc)
        s["id"] = "%s-replay%d" % (sc.get("id", "scenario"), i)
        scs.append(s)
    print("replaying %s 10 times\n%s" % (sc.get("id"), json.dumps(sc)))
    rr = _c20.run_races(sub, b, 0, 0, ctx.seed, scenarios=scs, tag="restsess-replay")
    nbad = 0
    for r in rr["results"]:
        bad = oracle(r)
        print(json.dumps(r))
        print("  -> " + ("; ".join("%s: %s" % x for x in bad) if bad else "passes"))
        nbad += 1 if bad else 0
    if nbad or rr["crash"]:
        ctx.violation({"kind": "rest-session-end", "scenario": sc, "failing_runs": nbad, "crash": rr["crash"]},
                      "the replayed scenario still fails (%d of %d runs)" % (nbad, len(rr["results"])), name="replayed_restsess.json")
    else:
        print("verdict: all %d runs pass on this tree" % len(rr["results"]))
    return True


# ------------------------------------------------------------------------------------------------------- window runs

WTIE = "T2-rest-window"


def window_scenarios(seed, quick=True):
    """request / DELETE / idle expiry on one session, alone and next to a session that is left alone; preemption bound 2"""
    def T(k, s, act):
        return {"k": k, "s": s, "act": act}
    out = []

    def sc(name, sessions, threads, fires=(), keep=False, noclear=False, cap=120, bound=2):
        out.append({"id": name, "sessions": sessions, "threads": threads, "fires": list(fires), "keep": keep, "noclear": noclear, "bound": bound,
                    "cap": cap if quick else cap * 8, "seed": seed})
    sc("req-del", 1, [T(1, 0, "req"), T(2, 0, "del")])
    sc("req-fire", 1, [T(1, 0, "req")], fires=[0])
    sc("req-del-fire", 1, [T(1, 0, "req"), T(2, 0, "del")], fires=[0], cap=260)
    sc("2req-del", 1, [T(1, 0, "req"), T(2, 0, "req"), T(3, 0, "del")], cap=160)
    sc("2req-fire", 1, [T(1, 0, "req"), T(2, 0, "req")], fires=[0], cap=260)
    sc("del-del", 1, [T(1, 0, "del"), T(2, 0, "del")])
    sc("del-fire", 1, [T(1, 0, "del")], fires=[0])
    sc("req-del-keep", 2, [T(1, 0, "req"), T(2, 0, "del")], keep=True)
    sc("req-fire-keep", 2, [T(1, 0, "req")], fires=[0], keep=True)
    # (two independent sessions commute: several thousand interleavings within the bound; a capped sample, order drawn from the seed)
    sc("two-sessions", 2, [T(1, 0, "req"), T(2, 0, "del"), T(3, 1, "req")], fires=[1], cap=160)
    sc("req-del-noclear", 1, [T(1, 0, "req"), T(2, 0, "del")], noclear=True, cap=60)
    sc("req-fire-noclear", 1, [T(1, 0, "req")], fires=[0], noclear=True, cap=60)
    return out


def window_oracle(r):
    """C20 / C06 on the real observations of ONE executed interleaving (model independent) -> [(rule, text)]"""
    bad = []
    if r.get("setup_fail"):
        return [("setup", "the scenario could not be set up: %s" % r["setup_fail"])]
    for k, p in (r.get("panics") or {}).items():
        bad.append(("crash", "thread %s panicked: %s" % (k, str(p)[:300])))
    if r.get("stuck"):
        bad.append(("stuck", "a thread was neither at a yield point nor finished: %s" % "; ".join(r["stuck"][:3])))
    if r.get("truncated"):
        bad.append(("no-termination", "300 steps did not finish the threads"))
    acts, sts, created = r.get("acts") or {}, r.get("statuses") or {}, r.get("created") or []
    noclear = bool(r.get("noclear"))
    dels200 = {}
    for k, a in acts.items():
        kind, slot = a.split()
        st = sts.get(k)
        if k in (r.get("panics") or {}):
            continue
        if kind == "req" and st not in (200, 401):
            bad.append(("status", "request thread %s ended with status %s" % (k, st)))
        if kind == "del" and st not in (200, 409):
            bad.append(("status", "DELETE thread %s ended with status %s" % (k, st)))
        if kind == "del" and st == 200:
            dels200[slot] = dels200.get(slot, 0) + 1
    for slot, n in dels200.items():
        if n > 1:
            bad.append(("delete-twice", "%d DELETEs of session %s answered 200" % (n, slot)))
    ej, dj, fin = r.get("ends_join") or {}, r.get("ended_join") or {}, r.get("ends_final") or {}
    for sid in set(ej) | set(fin):
        n = max(ej.get(sid, 0), fin.get(sid, 0))
        if n > 1:
            bad.append(("connend-twice", "ConnEnd delivered %d times for session %s" % (n, sid)))
        if sid not in created:
            bad.append(("connend-unknown", "ConnEnd for a session that was never created: %s" % sid))
    for slot, sid in enumerate(created):
        if fin.get(sid, 0) != 1:
            bad.append(("connend-count", "after 3 timeouts of idleness ConnEnd was delivered %d times for session %d (%s); must be exactly once" % (fin.get(sid, 0), slot, sid)))
    # the server calls in their real order: C20_serve_before_end and the exclusion of the session mutex, as executable checks
    end_enter, end_exit, open_serves = {}, {}, {}
    for e in r.get("events") or []:
        sid, what = e.get("sid"), e.get("what")
        if what == "end-enter":
            end_enter.setdefault(sid, e["seq"])
            inflight = [t for (t, s2) in open_serves if s2 == sid]
            if inflight:
                bad.append(("connend-while-request-in-server-call", "HandleConn(ConnEnd) of session %s was entered by %s while request thread(s) %s of that session were inside the server call (the session mutex excludes this); the ender owned %s"
                            % (sid, _tn(e.get("tid")), ",".join(_tn(t) for t in inflight), e.get("holds"))))
        elif what == "end-exit":
            end_exit.setdefault(sid, e["seq"])
        elif what == "serve-enter":
            open_serves[(e.get("tid"), sid)] = e["seq"]
            if sid in end_enter:
                bad.append(("C20_serve_before_end", "request thread %s ran its server call (TryLock %s) on session %s AFTER that session's ConnEnd had been delivered (event %d > %d)%s; the request owned %s"
                            % (_tn(e.get("tid")), e.get("name"), sid, e["seq"], end_enter[sid], " and after it had returned" if sid in end_exit else "", e.get("holds"))))
        elif what in ("serve-exit", "serve-exit-locked"):
            open_serves.pop((e.get("tid"), sid), None)
    # the join: every thread has returned
    locks = set(r.get("locks_join") or [])
    for k, a in acts.items():
        kind, slot = a.split()
        slot = int(slot)
        if kind != "req" or sts.get(k) != 200 or not (r.get("locked") or {}).get(k) or slot >= len(created):
            continue
        sid, name = created[slot], "w%s" % k
        if not noclear and dj.get(sid, 0) >= 1 and name in locks:
            bad.append(("hold-left-behind-by-in-flight-request", "session %d (%s) has ended (its ConnEnd has returned) and every request has returned, but the lock %r granted to its request thread %s is still held"
                        % (slot, sid, name, k)))
        if ej.get(sid, 0) == 0 and name not in locks:
            bad.append(("hold-of-live-session-lost", "session %d (%s) has not ended but the lock %r granted to its request thread %s is no longer held" % (slot, sid, name, k)))
    if r.get("keep") and created and ej.get(created[-1], 0) == 0 and "keep" not in locks:
        bad.append(("hold-of-untouched-session-lost", "the session that was left alone has not ended but its lock is gone"))
    if r.get("table_seen"):
        for slot in r.get("table_join") or []:
            if slot < len(created) and ej.get(created[slot], 0) > 0:
                bad.append(("connend-for-live-session", "session %d is still in the gateway's table but its ConnEnd was delivered" % slot))
    # after settling
    if any(p != 401 for p in r.get("post") or []):
        bad.append(("ended-cookie-accepted", "after 3 timeouts of idleness a request with a session's cookie was answered %s" % r.get("post")))
    if not noclear and r.get("locks_left"):
        bad.append(("holds-not-released", "every session has ended but the lock server still lists %s" % r["locks_left"]))
    return bad


def _tn(tid):
    try:
        tid = int(tid)
    except (TypeError, ValueError):
        return str(tid)
    return ("the idle timer's function of session %d" % (tid - 1000)) if tid >= 1000 else ("u%d" % tid if tid >= 0 else "an unknown goroutine")


def run_windows(ctx, sb, scenarios, tag="windows", timeout=300):
    """Executes the searches. -> dict(results=[WResult], summaries={scenario: summary}, crashes=[dict(kind, id, scenario, path, partial, output)])"""
    import os
    import shutil
    from lib.vcheck import sh
    results, summaries, crashes = [], {}, []
    todo, rnd = list(scenarios), 0
    while todo and rnd < 3:
        outdir = ctx.work / ("%s-%d" % (tag, rnd))
        rnd += 1
        shutil.rmtree(outdir, ignore_errors=True)
        outdir.mkdir(parents=True)
        f = outdir / "in.jsonl"
        f.write_text("\n".join(json.dumps(s) for s in todo) + "\n")
        env = dict(os.environ)
        env.update({"RD_OUT": str(outdir), "RD_WINDOW": str(f), "RD_WATCHDOG": "8"})
        rc, out = sh([str(sb["test_bin"]), "-test.run", "TestWindow$", "-test.timeout", "%ds" % timeout], cwd=outdir, env=env, timeout=timeout + 30)
        p = outdir / "windows.jsonl"
        if p.exists():
            for line in p.read_text().splitlines():
                try:
                    o = json.loads(line)
                except ValueError:
                    continue
                if o.get("summary"):
                    summaries[o["scenario"]] = o
                else:
                    results.append(o)
        if rc == 0:
            break
        # the process died inside one execution: name it, then go on with the scenarios behind it
        started, done_ids, partial, hang = {}, set(), {}, False
        try:
            for line in (outdir / "progress.txt").read_text().splitlines():
                ff = line.split(" ", 3)
                if ff[0] == "W" and len(ff) == 4:
                    started[ff[1]] = (ff[2], json.loads(ff[3]))
                elif ff[0] == "D" and len(ff) >= 2:
                    done_ids.add(ff[1])
                elif ff[0] == "L" and len(ff) >= 3:
                    partial[ff[1]] = json.loads(line.split(" ", 2)[2])
                elif ff[0] == "HANG":
                    hang = True
        except Exception:  # noqa
            pass
        stuck = [i for i in started if i not in done_ids]
        sid_ = stuck[-1] if stuck else None
        scen = started[sid_][0] if sid_ else (todo[0]["id"] if todo else "?")
        sc = next((x for x in todo if x["id"] == scen), None)
        crashes.append(dict(kind="hang" if (hang or rc in (3, 124)) else "crash", id=sid_ or "?", scenario=sc, path=(partial.get(sid_) or {}).get("path") or (started[sid_][1] if sid_ else None),
                            partial=partial.get(sid_), output=out[-2500:]))
        ids = [x["id"] for x in todo]
        todo = todo[ids.index(scen) + 1:] if scen in ids else []
    return dict(results=results, summaries=summaries, crashes=crashes)


def window_stage(ctx, sb=None, limit=3):
    """Builds (unless the caller has the instrumented binary), runs the window searches, judges, reports. -> dict(ok_build, executed, failing)"""
    tie = ctx.coverage.setdefault("ties", {}).setdefault(WTIE, {})
    if sb is None:
        sb = _c20.build_sched(_Sub(ctx))
    if not sb.get("ok_window"):
        why = sb.get("why") or "no inner yield point found in net/rest/rest.go"
        ctx.note("%s unavailable on this tree: %s" % (WTIE, why))
        tie.update({"status": "unavailable: " + why, "inner_yield_points_found_in_rest_go": len(sb.get("acq_sites") or [])})
        return dict(ok_build=False, executed=0, failing=0)
    quick = ctx.tier == "quick"
    scs = window_scenarios(ctx.seed, quick)
    # corpus first: recorded interleavings (kind "window": scenario + choice path), executed exactly once each
    corpus = []
    for c in _c20.load_kind_corpus("window"):
        if isinstance(c.get("scenario"), dict) and c["scenario"].get("id"):
            corpus.append(dict(c["scenario"], replay=True))
    scs = corpus + scs
    rr = run_windows(_Sub(ctx), sb, scs)
    by_sc = {s["id"]: s for s in scs}
    n = nf = 0
    rules, sites_parked, preempt_max, tracking_off, reported = {}, {}, 0, 0, set()
    for r in rr["results"]:
        n += 1
        preempt_max = max(preempt_max, r.get("preemptions", 0))
        tracking_off += 1 if r.get("tracking_off") else 0
        for sname, c in (r.get("sites") or {}).items():
            sites_parked[sname] = sites_parked.get(sname, 0) + c
        bad = window_oracle(r)
        if not bad:
            continue
        nf += 1
        for rule, _ in bad:
            rules[rule] = rules.get(rule, 0) + 1
        key = (r.get("scenario"), tuple(sorted(set(x[0] for x in bad))))
        if limit > 0 and key not in reported:
            reported.add(key)
            limit -= 1
            sc = dict(by_sc.get(r.get("scenario")) or {}, path=r.get("path"), replay=True)
            ctx.violation({"kind": "window", "property": ctx.prop, "failed_checks": ["%s: %s" % x for x in bad], "scenario": sc,
                           "schedule": ["%s: %s -> %s" % (st.get("t"), st.get("from", ""), st.get("to")) for st in r.get("steps") or []],
                           "server_call_events": r.get("events"), "result": {k: v for k, v in r.items() if k not in ("steps", "events", "sites")}, "seed": ctx.seed,
                           "replay_cmd": "bin/check %s --replay <this file>   (re-executes exactly this interleaving on the instrumented handler)" % ctx.prop},
                          "an interleaving of request / DELETE / idle expiry on the real REST handler violates %s: %s (window run %s, %d steps, %d preemptions)"
                          % (ctx.prop, "; ".join(sorted(set(x[0] for x in bad))[:4]), r.get("id"), len(r.get("steps") or []), r.get("preemptions", 0)),
                          name="window_%s.json" % str(r.get("id")).replace(":", "_").replace("~", "_"))
    for c in rr["crashes"]:
        nf += 1
        rule = "deadlock" if (c["kind"] == "hang" and c.get("partial")) else c["kind"]
        rules[rule] = rules.get(rule, 0) + 1
        sc = dict(c.get("scenario") or {}, path=c.get("path"), replay=True)
        ctx.violation({"kind": "window", "property": ctx.prop, "failed_checks": [rule], "scenario": sc, "suspected_deadlock": (c.get("partial") or {}).get("suspected"),
                       "schedule": ["%s: %s -> %s" % (st.get("t"), st.get("from", ""), st.get("to")) for st in (c.get("partial") or {}).get("steps") or []],
                       "output": c["output"], "replay_cmd": "bin/check %s --replay <this file>" % ctx.prop},
                      "the REST gateway %s in window run %s%s" % ("deadlocked (no thread can move; confirmed on the real mutexes: no progress on the wall clock)" if rule == "deadlock" else
                                                                  ("made no progress on the wall clock" if c["kind"] == "hang" else "crashed (panic outside a handler goroutine)"),
                                                                  c["id"], (": " + " ".join((c.get("partial") or {}).get("suspected") or [])) if c.get("partial") else ""),
                      name="window_%s_%s.json" % (rule, str(c["id"]).replace(":", "_").replace("~", "_").replace("?", "x")))
    inner = [x for x in sites_parked if x.startswith("A:")]
    tie.update({"status": "ran", "inner_yield_points_found_in_rest_go": len(sb.get("acq_sites") or []), "inner_yield_points": sb.get("acq_sites"),
                "inner_yield_points_at_which_a_thread_parked": len(inner), "harness_yield_points_inside_server_calls": sorted(x for x in sites_parked if x.startswith("H:")),
                "model_anchors_missing_on_this_tree": len(sb.get("missing") or []),
                "scenarios": len(scs), "corpus": len(corpus), "window_executions": n, "searches_exhausted_within_cap": sum(1 for k, s in rr["summaries"].items() if s.get("exhausted") and not k.startswith("corpus-")),
                "searches_capped": sorted(k for k, s in rr["summaries"].items() if not s.get("exhausted")),
                "executions_per_scenario": {k: s.get("executions") for k, s in sorted(rr["summaries"].items())},
                "preemption_bound": 2, "max_preemptions_in_an_execution": preempt_max, "failing": nf, "failing_rules": rules,
                "executions_in_which_the_lock_notes_lost_track_(suspected_deadlock_not_confirmed)": tracking_off,
                "server_call_events_judged": sum(len(r.get("events") or []) for r in rr["results"]),
                "oracle": "real order of the server calls: no request served after its session's ConnEnd (C20_serve_before_end), no ConnEnd entered while a request of the session is inside the server call; "
                          "at the join: legal statuses, no hold of an ended session's request in LockServer.Locks(), holds of live sessions present, table vs ConnEnd; after settling: ConnEnd exactly once per session, "
                          "nothing held, every cookie refused; no panic, no deadlock (confirmed on the real mutexes)"})
    ctx.coverage["evaluations"] = ctx.coverage.get("evaluations", 0) + n
    if isinstance(ctx.coverage.get("samples"), list) and len(ctx.coverage["samples"]) < 6:
        for r in rr["results"]:
            if r.get("scenario") == "req-del" and r.get("preemptions", 0) >= 1:
                ctx.coverage["samples"].append({"window_run": r.get("id"), "schedule": ["%s: %s -> %s" % (st.get("t"), st.get("from", ""), st.get("to")) for st in r.get("steps") or []][:14],
                                                "server_call_events": [(e.get("what"), e.get("tid"), e.get("holds")) for e in r.get("events") or []]})
                break
    return dict(ok_build=True, executed=n, failing=nf)


def replay_window(ctx, d, sb=None):
    """re-executes the interleaving of a replay file of kind "window" -> True"""
    sc = d.get("scenario")
    if not sc:
        print("the replay file carries no scenario")
        return True
    if sb is None:
        sb = _c20.build_sched(_Sub(ctx))
    if not sb.get("ok_window"):
        print("the instrumented handler cannot be built on this tree: %s" % sb.get("why"))
        ctx.violation({"broken": "replay", "why": sb.get("why")}, "replay could not run", name="replay_failed.json", no_failing_input=True)
        return True
    sc = dict(sc, replay=True)
    print("re-executing window scenario %s along the choice path %s on %s" % (sc.get("id"), sc.get("path"), sb.get("test_bin")))
    rr = run_windows(_Sub(ctx), sb, [sc], tag="window-replay")
    nbad = 0
    for r in rr["results"]:
        for st in r.get("steps") or []:
            print("  %-8s %s -> %s" % (st.get("t"), st.get("from", ""), st.get("to")))
        for e in r.get("events") or []:
            print("  event %d (step %d): %s by %s on session %s %s owning %s" % (e["seq"], e["step"], e["what"], _tn(e.get("tid")), e.get("sid"), e.get("name") or "", e.get("holds")))
        print(json.dumps({k: v for k, v in r.items() if k not in ("steps", "events", "sites")}))
        bad = window_oracle(r)
        print("  -> " + ("; ".join("%s: %s" % x for x in bad) if bad else "passes"))
        nbad += 1 if bad else 0
    for c in rr["crashes"]:
        print("HANG/CRASH in %s: %s %s\n%s" % (c["id"], c["kind"], (c.get("partial") or {}).get("suspected"), c["output"][-1200:]))
    if nbad or rr["crashes"]:
        ctx.violation({"kind": "window", "scenario": sc, "failing_runs": nbad, "crashes": rr["crashes"]}, "the replayed interleaving still fails", name="replayed_window.json")
    else:
        print("verdict: the replayed interleaving passes on this tree")
    ctx.coverage["samples"] = [{"replayed_window": sc.get("id"), "path": sc.get("path")}]
    ctx.coverage["evaluations"] = len(rr["results"])
    ctx.coverage["distinct_nontrivial"] = 1
    ctx.coverage["rule"] = "replay of one recorded interleaving (window run)"
    return True
