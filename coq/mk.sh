#!/bin/sh
# Regenerates _CoqProject (every .v under the listed dirs) and the Makefile.
cd "$(dirname "$0")"
{ echo "-Q . Ldlm"; echo "-arg -w -arg -notation-overridden,-redundant-canonical-projection,-deprecated-hint-without-locality,-deprecated-instance-without-locality"; ls Model/*.v Gen/*.v Proofs/*.v Properties/*.v 2>/dev/null; } > _CoqProject.new
if ! cmp -s _CoqProject.new _CoqProject; then mv _CoqProject.new _CoqProject; coq_makefile -f _CoqProject -o Makefile >/dev/null; else rm _CoqProject.new; [ -f Makefile ] || coq_makefile -f _CoqProject -o Makefile >/dev/null; fi
