(** * Msv — the lock server's request, expiry, session-end and shutdown paths as an interleaving model
    (layer 2 of Mconc).

    Each lock-manager call is ONE atomic step here: layer 1 (Model/Lk.v) proves that the lock package is a
    linearisable counting lock with keys (C02), so a caller may treat Manager.TryLock/Unlock as atomic and
    Manager.Lock as [enter (acquire or enqueue); woken; or give up]. Everything ABOVE the lock manager is
    fine-grained: one [VRun tid] executes one internally synchronised operation of server/server.go —

      VMgrTry / VMgrLock / VWait / VWoken      lockMgr.TryLock / lockMgr.Lock (enter; parked; handed a unit)
      VSessAdd                                  sessionMgr.AddLock        (sessionLocksMtx; rewrites the state file)
      VTmAdd                                    lockTimerMgr.Add          (timersMtx)
      VTmRemove / VMgrUnlock / VSessRemove      Unlock: lockTimerMgr.Remove; lockMgr.Unlock; sessionMgr.RemoveLock
      VTmReset                                  Renew: lockTimerMgr.Reset (Stop + re-arm under timersMtx)
      VCbUnlock / VCbSessRemove / VCbTmRemove   lease-timer callback: onTimeoutFunc's Unlock and RemoveLock, TimerMap's own Remove
      VDsFlag / VDsNoClear (atomic DestroySessionIfEmpty) / VDsDestroy / VDsTmRemove i / VDsUnlock i     DestroySession (timer removed before the unlock)
      VShFlag / VShNet / VShTimers / VShMgr     cmd/server closer: PrepareShutdown; netCloser; timer map shutdown; manager shutdown

    The state file is rewritten through a temporary file and an atomic rename (store.Write), so a rewrite is one step:
    a kill (crash) at any instant leaves [v_file] as it is. Requests are the VALIDATED ones (session present, timeouts
    not negative, name not empty): parameter validation touches no shared state and is covered by Mseq/C12.
    Lock objects are never collected here (GC is invisible: C13). Definitions only. *)
From Ldlm Require Import Model.Base Model.Err.
From Ldlm Require Export Model.Seq.   (* clock, tkey, second *)
From RecordUpdate Require Import RecordSet.
Import RecordSetNotations.
Local Open Scope Z_scope.

Inductive sop :=
| STry (sid name key : str) (size : Z) (lt : option Z)
| SLock (sid name key : str) (size : Z) (lt : option Z)
| SUnlock (name key : str)
| SRenew (name key : str) (lt : Z)
| SExpire (tmid : nat)                 (* the goroutine time.AfterFunc starts when a lease timer fires *)
| SConnEnd (sid : str)                 (* HandleConn(ConnEnd) -> LockServer.DestroySession *)
| SShutdown.                           (* signal handler: the closers of cmd/server/main.go *)

(** responses: (locked/unlocked bit, error) *)
Record sresp := SResp { sr_ok : bool; sr_err : option err }.
#[global] Instance sresp_eq_dec : EqDecision sresp.
Proof. solve_decision. Defined.

Inductive spc :=
| VMgrTry | VMgrLock | VWait | VWoken
| VSessAdd | VTmAdd
| VTmRemove | VMgrUnlock | VSessRemove
| VTmReset
| VCbUnlock | VCbSessRemove | VCbTmRemove
| VDsFlag | VDsNoClear | VDsDestroy | VDsTmRemove (todo : list clock) | VDsUnlock (c : clock) (todo : list clock)
| VShFlag | VShNet | VShTimers | VShMgr
| VFin (r : sresp)
| VEnd.
#[global] Instance clock_eq_dec' : EqDecision clock := clock_eq_dec.
#[global] Instance spc_eq_dec : EqDecision spc.
Proof. solve_decision. Defined.

Record sthread := SThread { st_op : sop; st_pc : spc; st_cancel : option err }.
#[global] Instance eta_sthread : Settable _ := settable! SThread <st_op; st_pc; st_cancel>.

Inductive tmstate := TArmed (deadline : Z) | TStopped | TFired.
Record stimer := STimer { tm_st : tmstate; tm_n : str; tm_k : str; tm_s : str }.
#[global] Instance eta_stimer : Settable _ := settable! STimer <tm_st; tm_n; tm_k; tm_s>.

(** the lock manager as the atomic counting lock: size, live keys, FIFO queue of parked calls *)
Record alock := ALock { al_size : Z; al_live : list str; al_q : list nat }.
#[global] Instance eta_alock : Settable _ := settable! ALock <al_size; al_live; al_q>.

Inductive sev :=
| SvInv (tid : nat) (op : sop)
| SvRes (tid : nat) (r : sresp)
| SvAcquired (tid : nat) (name key : str)       (* ghost: a unit of [name] now backs [key] (grant step or hand-off) *)
| SvReleased (tid : nat) (name key : str)       (* ghost: the unit backing [key] was released by thread tid *)
| SvSessAdd (tid : nat) (sid : str) (c : clock) (* ghost: bookkeeping steps, for the known-finding signatures *)
| SvSessDestroy (tid : nat) (sid : str)
| SvSessRemove (tid : nat) (name key : str)
| SvFired (tmid : nat)
| SvConnect (sid : str) | SvConnEnd (sid : str) | SvSignal
| SvPanic (tid : nat).

Record svcfg := SvCfg { sc_noclear : bool; sc_file : bool }.

Record svstate := SvState {
  v_locks : gmap str alock;
  v_timers : gmap str nat;            (* TimerMap.timers: key -> timer *)
  v_theap : gmap nat stimer;          (* every timer ever created (they outlive their map entry) *)
  v_tnext : nat;
  v_tmshut : bool;                    (* TimerMap.timers == nil *)
  v_sess : gmap str (list clock);     (* sessionManager.sessionLocks *)
  v_file : option (gmap str (list clock));   (* state-file image; None: never written *)
  v_shut : bool;                      (* LockServer.isShutdown *)
  v_mgrshut : bool;                   (* lock.Manager.isShutdown *)
  v_now : Z;
  v_thr : gmap nat sthread;
  v_next : nat;                       (* next id for goroutines the server starts itself *)
  v_crashed : bool;
  v_trace : list sev                  (* newest first *)
}.
#[global] Instance eta_svstate : Settable _ :=
  settable! SvState <v_locks; v_timers; v_theap; v_tnext; v_tmshut; v_sess; v_file; v_shut; v_mgrshut; v_now; v_thr; v_next; v_crashed; v_trace>.

(** thread ids below [sys_base] are the clients' calls; the server's own goroutines get ids from [v_next] *)
Definition sys_base : nat := 1000.
Definition sv_init : svstate := SvState ∅ ∅ ∅ 0%nat false ∅ None false false 0 ∅ sys_base false [].

Inductive sitem :=
| VCall (tid : nat) (op : sop)          (* a client issues a request (tid < sys_base; op one of STry/SLock/SUnlock/SRenew) *)
| VRun (tid : nat)
| VCancel (tid : nat) (cause : err)     (* the request's context ends: wait timeout (ESrvLockWaitTimeout) or caller gone (ECtxCanceled) *)
| VConnect (sid : str)                  (* TagConn -> CreateSession *)
| VConnEnd (sid : str)                  (* the connection closes: in-flight contexts of the session end, DestroySession starts *)
| VTick (dt : Z)                        (* time passes; due lease timers fire (each starts its callback goroutine) *)
| VSignal.                              (* SIGINT/SIGTERM: the closer goroutine starts *)

(** ** helpers *)
Definition vemit (e : sev) (s : svstate) : svstate := s <| v_trace := e :: v_trace s |>.
Definition vset_pc (tid : nat) (pc : spc) (s : svstate) : svstate :=
  match v_thr s !! tid with
  | Some t => s <| v_thr := <[tid := t <| st_pc := pc |>]> (v_thr s) |>
  | None => s
  end.
Definition vfinish (tid : nat) (r : sresp) (s : svstate) : svstate := vemit (SvRes tid r) (vset_pc tid (VFin r) s).
Definition spawn (op : sop) (pc : spc) (s : svstate) : svstate :=
  s <| v_thr := <[v_next s := SThread op pc None]> (v_thr s) |> <| v_next := S (v_next s) |>.
Definition vsave (cfg : svcfg) (s : svstate) : svstate := if sc_file cfg then s <| v_file := Some (v_sess s) |> else s.
Definition op_sid (o : sop) : option str := match o with STry sid _ _ _ _ | SLock sid _ _ _ _ => Some sid | _ => None end.
Definition is_fin (pc : spc) : bool := match pc with VFin _ | VEnd => true | _ => false end.
Definition lt_pos (lt : option Z) : bool := match lt with Some t => 0 <? t | None => false end.

(** *** the atomic counting lock (what layer 1 refines) *)
Definition al_free (a : alock) : bool := (Z.of_nat (length (al_live a)) <? al_size a) && bool_decide (al_q a = []).

(** release of [key]; the freed unit goes to the head of the queue, whose thread moves to VWoken *)
Definition key_of_thr (s : svstate) (tid : nat) : str :=
  match v_thr s !! tid with Some t => match st_op t with STry _ _ k _ _ | SLock _ _ k _ _ => k | _ => [] end | None => [] end.
Definition hand_over (name : str) (s : svstate) : svstate :=
  match v_locks s !! name with
  | Some a =>
      match al_q a with
      | w :: q' =>
          if Z.of_nat (length (al_live a)) <? al_size a then
            let k := key_of_thr s w in
            vemit (SvAcquired w name k)
              (vset_pc w VWoken (s <| v_locks := <[name := a <| al_live := al_live a ++ [k] |> <| al_q := q' |>]> (v_locks s) |>))
          else s
      | [] => s
      end
  | None => s
  end.
(** lockMgr.Unlock(name, key): (unlocked, err) *)
Definition mgr_unlock (tid : nat) (name key : str) (s : svstate) : svstate * sresp :=
  if v_mgrshut s then (s, SResp false (Some ELockManagerShutdown)) else
  match v_locks s !! name with
  | None => (s, SResp false (Some ELockDoesNotExist))
  | Some a =>
      if bool_decide (key ∈ al_live a) then
        let s1 := s <| v_locks := <[name := a <| al_live := remove_first key (al_live a) |>]> (v_locks s) |> in
        (hand_over name (vemit (SvReleased tid name key) s1), SResp true None)
      else (s, SResp false (Some ELockInvalidLockKey))
  end.

(** *** TimerMap *)
Definition tm_add (name key sid : str) (d : Z) (s : svstate) : svstate :=
  if v_tmshut s then s else
  let id := v_tnext s in
  s <| v_theap := <[id := STimer (TArmed (v_now s + d)) name key sid]> (v_theap s) |>
    <| v_timers := <[tkey name key := id]> (v_timers s) |> <| v_tnext := S id |>.
(** Remove: stopped = true iff there is no entry or its timer was still armed *)
Definition tm_remove (tk : str) (s : svstate) : svstate * bool :=
  match v_timers s !! tk with
  | Some id =>
      let s1 := s <| v_timers := delete tk (v_timers s) |> in
      match v_theap s !! id with
      | Some t => match tm_st t with
                  | TArmed _ => (s1 <| v_theap := <[id := t <| tm_st := TStopped |>]> (v_theap s1) |>, true)
                  | _ => (s1, false)
                  end
      | None => (s1, false)
      end
  | None => (s, true)
  end.
Definition tm_reset (tk : str) (d : Z) (s : svstate) : svstate * sresp :=
  match v_timers s !! tk with
  | Some id =>
      match v_theap s !! id with
      | Some t => match tm_st t with
                  | TArmed _ => (s <| v_theap := <[id := t <| tm_st := TArmed (v_now s + d) |>]> (v_theap s) |>, SResp true None)
                  | _ => (s, SResp false None)
                  end
      | None => (s, SResp false None)
      end
  | None => (s, SResp false (Some ESrvDoesNotExistOrInvalidKey))
  end.

(** *** sessionManager *)
Definition sess_add (cfg : svcfg) (tid : nat) (sid : str) (c : clock) (s : svstate) : svstate :=
  vemit (SvSessAdd tid sid c)
    (vsave cfg (s <| v_sess := <[sid := default [] (v_sess s !! sid) ++ [c]]> (v_sess s) |>)).
Definition sess_remove (cfg : svcfg) (tid : nat) (name key : str) (s : svstate) : svstate :=
  let s1 := s <| v_sess := (λ l, filter (λ c, is_hold name key c = false) l) <$> v_sess s |> in
  vemit (SvSessRemove tid name key)
    (if existsb (λ '(_, l), existsb (is_hold name key) l) (map_to_list (v_sess s)) then vsave cfg s1 else s1).
Definition sess_destroy (cfg : svcfg) (tid : nat) (sid : str) (s : svstate) : svstate * list clock :=
  match v_sess s !! sid with
  | Some l => (vemit (SvSessDestroy tid sid) (vsave cfg (s <| v_sess := delete sid (v_sess s) |>)), l)
  | None => (s, [])
  end.

(** after the session's entry has been taken: nothing left to release = DestroySession returns (no further synchronised step) *)
Definition ds_next (todo : list clock) : spc := match todo with [] => VEnd | _ => VDsTmRemove todo end.
(** connections that were opened and have not ended, oldest first (ghost trace, newest first) *)
Definition ended_in (tr : list sev) (sid : str) : bool :=
  existsb (λ e, match e with SvConnEnd sid' => bool_decide (sid' = sid) | _ => false end) tr.
Definition open_sids (tr : list sev) : list str :=
  omap (λ e, match e with SvConnect sid => if ended_in tr sid then None else Some sid | _ => None end) (rev tr).

(** ** one step of thread [tid] *)
Definition acq_params (o : sop) : option (str * str * str * Z * option Z) :=
  match o with STry sid n k z lt | SLock sid n k z lt => Some (sid, n, k, z, lt) | _ => None end.

Definition after_grant (t : sthread) : spc := VSessAdd.

Definition vrun_thread (cfg : svcfg) (tid : nat) (t : sthread) (s : svstate) : svstate :=
  match st_pc t, st_op t with
  (* ---- TryLock ---- *)
  | VMgrTry, STry sid n k z lt =>
      if v_mgrshut s then vfinish tid (SResp false (Some ELockManagerShutdown)) s else
      if z <=? 0 then vfinish tid (SResp false (Some ELockInvalidLockSize)) s else
      let a := default (ALock z [] []) (v_locks s !! n) in
      if negb (bool_decide (al_size a = z)) then vfinish tid (SResp false (Some ELockSizeMismatch)) s else
      if al_free a
      then vset_pc tid VSessAdd (vemit (SvAcquired tid n k) (s <| v_locks := <[n := a <| al_live := al_live a ++ [k] |>]> (v_locks s) |>))
      else vfinish tid (SResp false None) (s <| v_locks := <[n := a]> (v_locks s) |>)
  (* ---- Lock ---- *)
  | VMgrLock, SLock sid n k z lt =>
      if v_mgrshut s then vfinish tid (SResp false (Some ELockManagerShutdown)) s else
      if z <=? 0 then vfinish tid (SResp false (Some ELockInvalidLockSize)) s else
      let a := default (ALock z [] []) (v_locks s !! n) in
      if negb (bool_decide (al_size a = z)) then vfinish tid (SResp false (Some ELockSizeMismatch)) s else
      match st_cancel t with
      | Some e => vfinish tid (SResp false (Some e)) (s <| v_locks := <[n := a]> (v_locks s) |>)
      | None =>
          if al_free a
          then vset_pc tid VSessAdd (vemit (SvAcquired tid n k) (s <| v_locks := <[n := a <| al_live := al_live a ++ [k] |>]> (v_locks s) |>))
          else vset_pc tid VWait (s <| v_locks := <[n := a <| al_q := al_q a ++ [tid] |>]> (v_locks s) |>)
      end
  | VWait, SLock sid n k z lt =>
      (* parked: only the end of its context lets it move by itself (the hand-off moves it to VWoken) *)
      match st_cancel t, v_locks s !! n with
      | Some e, Some a => vfinish tid (SResp false (Some e)) (s <| v_locks := <[n := a <| al_q := filter (λ w, w ≠ tid) (al_q a) |>]> (v_locks s) |>)
      | _, _ => s
      end
  | VWoken, SLock sid n k z lt =>
      (* handed a unit; if the context has ended meanwhile the unit is given back (semaphore.Acquire's re-check) *)
      match st_cancel t, v_locks s !! n with
      | Some e, Some a =>
          let s1 := s <| v_locks := <[n := a <| al_live := remove_first k (al_live a) |>]> (v_locks s) |> in
          vfinish tid (SResp false (Some e)) (hand_over n (vemit (SvReleased tid n k) s1))
      | _, _ => vset_pc tid VSessAdd s
      end
  (* ---- bookkeeping of a grant ---- *)
  | VSessAdd, (STry sid n k z lt | SLock sid n k z lt) =>
      let s1 := sess_add cfg tid sid (Clock n k z) s in
      if lt_pos lt then vset_pc tid VTmAdd s1 else vfinish tid (SResp true None) s1
  | VTmAdd, (STry sid n k z lt | SLock sid n k z lt) =>
      vfinish tid (SResp true None) (tm_add n k sid (default 0 lt * second) s)
  (* ---- Unlock ---- *)
  | VTmRemove, SUnlock n k =>
      let '(s1, stopped) := tm_remove (tkey n k) s in
      if stopped then vset_pc tid VMgrUnlock s1 else vset_pc tid VSessRemove s1
  | VMgrUnlock, SUnlock n k =>
      let '(s1, r) := mgr_unlock tid n k s in
      if sr_ok r then vset_pc tid VSessRemove s1 else vfinish tid r s1
  | VSessRemove, SUnlock n k => vfinish tid (SResp true None) (sess_remove cfg tid n k s)
  (* ---- Renew ---- *)
  | VTmReset, SRenew n k lt => let '(s1, r) := tm_reset (tkey n k) (lt * second) s in vfinish tid r s1
  (* ---- lease-timer callback ---- *)
  | VCbUnlock, SExpire id =>
      match v_theap s !! id with
      | Some tm => vset_pc tid VCbSessRemove (fst (mgr_unlock tid (tm_n tm) (tm_k tm) s))
      | None => s
      end
  | VCbSessRemove, SExpire id =>
      match v_theap s !! id with
      | Some tm => vset_pc tid VCbTmRemove (sess_remove cfg tid (tm_n tm) (tm_k tm) s)
      | None => s
      end
  | VCbTmRemove, SExpire id =>
      match v_theap s !! id with
      | Some tm => vset_pc tid VEnd (fst (tm_remove (tkey (tm_n tm) (tm_k tm)) s))
      | None => s
      end
  (* ---- DestroySession ---- *)
  | VDsFlag, SConnEnd sid => if v_shut s then vset_pc tid VEnd s else vset_pc tid (if sc_noclear cfg then VDsNoClear else VDsDestroy) s
  | VDsNoClear, SConnEnd sid =>
      (* sessionMgr.DestroySessionIfEmpty: check for locks and delete the session in ONE critical section *)
      match v_sess s !! sid with
      | Some [] => vset_pc tid VEnd (fst (sess_destroy cfg tid sid s))
      | _ => vset_pc tid VEnd s
      end
  | VDsDestroy, SConnEnd sid =>
      let '(s1, locks) := sess_destroy cfg tid sid s in vset_pc tid (ds_next locks) s1
  | VDsTmRemove todo, SConnEnd sid =>
      (* the timer is removed BEFORE the unlock (as in Unlock); a timer that already fired unlocks the hold itself *)
      match todo with
      | [] => vset_pc tid VEnd s
      | c :: rest =>
          let '(s1, stopped) := tm_remove (tkey (cl_name c) (cl_key c)) s in
          if stopped then vset_pc tid (VDsUnlock c rest) s1 else vset_pc tid (ds_next rest) s1
      end
  | VDsUnlock c rest, SConnEnd sid =>
      vset_pc tid (ds_next rest) (fst (mgr_unlock tid (cl_name c) (cl_key c) s))
  (* ---- graceful shutdown ---- *)
  | VShFlag, SShutdown => vset_pc tid VShNet (s <| v_shut := true |>)
  | VShNet, SShutdown =>
      (* grpc Stop(): every OPEN connection ends (in-flight contexts end, ConnEnd is delivered once per open connection) *)
      let s1 := s <| v_thr := (λ t, match st_op t, st_cancel t with
                                    | (STry _ _ _ _ _ | SLock _ _ _ _ _ | SUnlock _ _ | SRenew _ _ _), None =>
                                        if is_fin (st_pc t) then t else t <| st_cancel := Some ECtxCanceled |>
                                    | _, _ => t end) <$> v_thr s |> in
      let s2 := fold_left (λ s sid, vemit (SvConnEnd sid) (spawn (SConnEnd sid) VDsFlag s)) (open_sids (v_trace s1)) s1 in
      vset_pc tid VShTimers s2
  | VShTimers, SShutdown =>
      vset_pc tid VShMgr
        (s <| v_theap := (λ tm, match tm_st tm with TArmed _ => tm <| tm_st := TStopped |> | _ => tm end) <$> v_theap s |>
           <| v_timers := ∅ |> <| v_tmshut := true |>)
  | VShMgr, SShutdown =>
      (* Manager.shutdown takes shutdownMtx exclusively: it waits for parked Lock calls (they hold it shared) *)
      if existsb (λ '(_, t), bool_decide (st_pc t = VWait) || bool_decide (st_pc t = VWoken)) (map_to_list (v_thr s)) then s
      else vset_pc tid VEnd (s <| v_mgrshut := true |>)
  | _, _ => s
  end.

Definition fire_due (s : svstate) : svstate :=
  fold_left (λ s '(id, tm),
               match tm_st tm with
               | TArmed d => if d <=? v_now s
                             then vemit (SvFired id) (spawn (SExpire id) VCbUnlock (s <| v_theap := <[id := tm <| tm_st := TFired |>]> (v_theap s) |>))
                             else s
               | _ => s
               end) (map_to_list (v_theap s)) s.

Definition first_pc (op : sop) : spc :=
  match op with
  | STry _ _ _ _ _ => VMgrTry | SLock _ _ _ _ _ => VMgrLock | SUnlock _ _ => VTmRemove | SRenew _ _ _ => VTmReset
  | SExpire _ => VCbUnlock | SConnEnd _ => VDsFlag | SShutdown => VShFlag
  end.
Definition client_op (op : sop) : bool :=
  match op with STry _ _ _ _ _ | SLock _ _ _ _ _ | SUnlock _ _ | SRenew _ _ _ => true | _ => false end.

Definition vstep (cfg : svcfg) (s : svstate) (it : sitem) : svstate :=
  if v_crashed s then s else
  match it with
  | VCall tid op =>
      if client_op op && (tid <? sys_base)%nat then
        match v_thr s !! tid with
        | Some _ => s
        | None => vemit (SvInv tid op) (s <| v_thr := <[tid := SThread op (first_pc op) None]> (v_thr s) |>)
        end
      else s
  | VRun tid => match v_thr s !! tid with Some t => vrun_thread cfg tid t s | None => s end
  | VCancel tid cause =>
      match v_thr s !! tid with
      | Some t => if client_op (st_op t) && bool_decide (st_cancel t = None) && negb (is_fin (st_pc t))
                  then s <| v_thr := <[tid := t <| st_cancel := Some cause |>]> (v_thr s) |> else s
      | None => s
      end
  | VConnect sid =>
      vemit (SvConnect sid) (match v_sess s !! sid with Some _ => s | None => s <| v_sess := <[sid := []]> (v_sess s) |> end)
  | VConnEnd sid =>
      let s1 := s <| v_thr := (λ t, if bool_decide (op_sid (st_op t) = Some sid) && bool_decide (st_cancel t = None) && negb (is_fin (st_pc t))
                                    then t <| st_cancel := Some ECtxCanceled |> else t) <$> v_thr s |> in
      vemit (SvConnEnd sid) (spawn (SConnEnd sid) VDsFlag s1)
  | VTick dt => fire_due (s <| v_now := v_now s + Z.max 0 dt |>)
  | VSignal => vemit SvSignal (spawn SShutdown VShFlag s)
  end.

Definition vrun (cfg : svcfg) (sch : list sitem) : svstate := fold_left (vstep cfg) sch sv_init.

(** ** what the harness compares: pc labels, responses, the three views *)
Definition spc_label (pc : spc) : nat :=
  match pc with
  | VMgrTry => 0 | VMgrLock => 1 | VWait => 2 | VWoken => 3 | VSessAdd => 4 | VTmAdd => 5 | VTmRemove => 6 | VMgrUnlock => 7
  | VSessRemove => 8 | VTmReset => 9 | VCbUnlock => 10 | VCbSessRemove => 11 | VCbTmRemove => 12 | VDsFlag => 13 | VDsNoClear => 14
  | VDsDestroy => 15 | VDsTmRemove _ => 16 | VDsUnlock _ _ => 17 | VShFlag => 18 | VShNet => 19 | VShTimers => 20 | VShMgr => 21
  | VFin _ => 22 | VEnd => 23
  end%nat.
Definition sv_blocked (s : svstate) (tid : nat) : bool :=
  match v_thr s !! tid with
  | Some t => match st_pc t with
              | VFin _ | VEnd => true
              | VWait => bool_decide (st_cancel t = None)
              | VShMgr => existsb (λ '(_, t), bool_decide (st_pc t = VWait) || bool_decide (st_pc t = VWoken)) (map_to_list (v_thr s))
              | _ => false
              end
  | None => true
  end.
Definition sv_listing (s : svstate) : list clock := concat (map snd (map_to_list (v_sess s))).
Definition sv_table (s : svstate) : list (str * (Z * list str)) := map (λ '(n, a), (n, (al_size a, al_live a))) (map_to_list (v_locks s)).
Definition sv_file (s : svstate) : option (list (str * list clock)) := map_to_list <$> v_file s.
Definition sv_armed (s : svstate) : list (str * Z) :=
  omap (λ '(tk, id), match v_theap s !! id with Some (STimer (TArmed d) _ _ _) => Some (tk, d) | _ => None end) (map_to_list (v_timers s)).
