(** * Mrest — the REST gateway's session layer (net/rest/rest.go) over Mseq.

    Two layers, definitions only (proofs: Proofs/Rest*.v, statements: Properties/C15.v, C20.v).

    (a) Sequential layer in virtual time. The gateway keeps a table cookie -> (server session id,
        idle deadline). One [revent] is one HTTP exchange (or a time advance / probe) executed to
        quiescence. An accepted request re-arms the idle deadline to now + timeout BEFORE it is
        served (rest.go ValidateSession: timerMgr.Reset under sessionsMtx, then mux.ServeHTTP);
        a request with a missing / unknown / expired cookie is answered 401 and NOTHING else
        happens. Serving a request is the SAME [sstep] call the gRPC transport makes. An idle
        expiry delivers ConnEnd, which is Mseq's [EDisconnect] of that session.
        Not modelled here: the password gate (C16), protojson decoding and the grpc-gateway
        runtime (exercised by harness/restdiff, not modelled).

    (b) Fine-grained layer for the races of C20: the table entry, the per-session mutex, the
        table mutex [sessionsMtx], the idle timer and a thread pool, one step per shared-memory
        operation of rest.go / timermap.go; mutex acquisition is a blocking step.

    Transcribed from /repo net/rest/rest.go (ServeHTTP, ValidateSession, DestroySession,
    CreateSession, onTimeoutFunc), timermap/timermap.go (Add, Remove, Reset) and
    net/grpc/grpc.go (TagConn = CreateSession, HandleConn(ConnEnd) = DestroySession). *)
From Coq Require Import String.
From Ldlm Require Import Model.Base Model.Err Model.Seq Model.Track.
From RecordUpdate Require Import RecordSet.
Import RecordSetNotations.
Local Open Scope Z_scope.

(** ** (a) Sequential layer *)

(** The three routes of .api_config.yaml, plus [QNoop]: an authenticated exchange that the gateway
    answers itself with [status] without calling the lock server (unknown path, wrong method,
    undecodable body). It still counts as activity of the session. *)
Inductive req :=
| QTry (name : str) (size lt : option Z) (key : str)      (* POST /v1/lock   = LDLM.TryLock; [key] = the uuid drawn *)
| QUnlock (name key : str)                                (* POST /v1/unlock = LDLM.Unlock *)
| QRenew (name key : str) (lt : Z)                        (* POST /v1/renew  = LDLM.Renew *)
| QNoop (status : Z).

(** the lock-server event a request is, on the connection / REST session whose server session id is [sid] *)
Definition req_event (sid : str) (q : req) : option event :=
  match q with
  | QTry n sz lt k => Some (ETryLock (Some sid) n sz lt k)
  | QUnlock n k => Some (EUnlock (Some sid) n k)
  | QRenew n k lt => Some (ERenew n k lt)
  | QNoop _ => None
  end.

Record rsess := RSess { rs_sid : str; rs_deadline : Z }.
#[global] Instance rsess_eq_dec : EqDecision rsess.
Proof. solve_decision. Defined.

Record rstate := RState {
  r_seq : sstate;                 (* the lock server behind the gateway *)
  r_table : gmap str rsess;       (* restHandler.sessions + the idle timers of its timer map *)
  r_now : Z                       (* virtual clock of the gateway (= st_now r_seq, Proofs/RestClock.v) *)
}.
#[global] Instance eta_rstate : Settable _ := settable! RState <r_seq; r_table; r_now>.

Definition rinit (cfg : config) : rstate := RState (init_state cfg) ∅ 0.

Inductive revent :=
| RCreate (cookie sid : str)              (* POST /session; cookie and server session id as drawn *)
| RDelete (cookie : option str)           (* DELETE /session *)
| RRequest (cookie : option str) (q : req)
| RAdvance (dt : Z)
| RProbe.

Inductive rout :=
| ROStatus (code : Z)                     (* HTTP status of the answer *)
| ROSeq (o : out)                         (* an output of the embedded lock-server step *)
| ROEnd (sid : str)                       (* HandleConn(ConnEnd) delivered for this server session *)
| ROCookies (cs : list str).              (* probe: the cookies in the table *)

(** run a lock-server event behind the gateway; [pre]/[post] are the gateway's own outputs *)
Definition lift_seq (st : rstate) (pre post : list rout) (l : list (sstate * list out)) : list (rstate * list rout) :=
  map (λ '(s', o), (st <| r_seq := s' |>, pre ++ map ROSeq o ++ post)) l.

(** *** Idle timers *)

Definition deadlines (st : rstate) : list Z := map (λ '(_, se), rs_deadline se) (map_to_list (r_table st)).

Definition list_min (l : list Z) : option Z :=
  match l with [] => None | d :: l' => Some (fold_left Z.min l' d) end.

(** the sessions whose idle deadline comes first and is at or before [target]; several = a tie *)
Definition idle_due (target : Z) (st : rstate) : list (str * rsess) :=
  match list_min (deadlines st) with
  | Some m => if m <=? target then filter (λ '(_, se), rs_deadline se =? m) (map_to_list (r_table st)) else []
  | None => []
  end.

(** Time passes until [target]. Idle deadlines are fired in deadline order; before each one the lock
    server's own timers up to that instant fire ([EAdvance] up to the deadline: at an exact tie between an
    idle deadline and a lease deadline the lease timer goes first — see [radvance_tie]); the callback
    removes the table entry and delivers ConnEnd. When no idle deadline is reached this is exactly the lock
    server's [EAdvance]. *)
Fixpoint radvance_loop (cfg : config) (fuel : nat) (target : Z) (st : rstate) (outs : list rout)
  : list (rstate * list rout) :=
  let final :=
    map (λ '(s', o), (st <| r_seq := s' |> <| r_now := Z.max (r_now st) target |>, outs ++ map ROSeq o))
        (sstep cfg (r_seq st) (EAdvance (target - r_now st))) in
  match fuel with
  | O => final
  | S fuel' =>
      match idle_due target st with
      | [] => final
      | due =>
          flat_map (λ '(c, se),
            flat_map (λ '(s1, o1),
              flat_map (λ '(s2, o2),
                radvance_loop cfg fuel' target
                  (RState s2 (delete c (r_table st)) (Z.max (r_now st) (rs_deadline se)))
                  (outs ++ map ROSeq o1 ++ [ROEnd (rs_sid se)] ++ map ROSeq o2))
                (sstep cfg s1 (EDisconnect (rs_sid se))))
              (sstep cfg (r_seq st) (EAdvance (rs_deadline se - r_now st)))) due
      end
  end.

Definition radvance (cfg : config) (dt : Z) (st : rstate) : list (rstate * list rout) :=
  radvance_loop cfg (S (size (r_table st))) (r_now st + Z.max 0 dt) st [].

(** an idle deadline reached by this advance coincides with a deadline of the lock server itself
    (lease timer or wait timeout): the real order of the two callbacks is the scheduler's; the
    correspondence harness does not judge such histories against the model *)
Definition radvance_tie (dt : Z) (st : rstate) : bool :=
  let target := r_now st + Z.max 0 dt in
  existsb (λ d, (d <=? target) && existsb (λ i, due_time i =? d) (all_items (r_seq st))) (deadlines st).

(** *** The step function. [tmo] = RestSessionTimeout in ns (> 0). *)
Definition rstep (cfg : config) (tmo : Z) (st : rstate) (ev : revent) : list (rstate * list rout) :=
  match ev with
  | RCreate cookie sid =>
      (* CreateSession: grpcSrv.TagConn (= LockServer.CreateSession), sessions[cookie] = .., timerMgr.Add *)
      lift_seq (st <| r_table := <[cookie := RSess sid (r_now st + tmo)]> (r_table st) |>) [] [ROStatus 201]
               (sstep cfg (r_seq st) (EConnect sid))
  | RDelete None => [(st, [ROStatus 500])]
  | RDelete (Some c) =>
      match r_table st !! c with
      | None => [(st, [ROStatus 409])]
      | Some se =>
          lift_seq (st <| r_table := delete c (r_table st) |>) [ROEnd (rs_sid se)] [ROStatus 200]
                   (sstep cfg (r_seq st) (EDisconnect (rs_sid se)))
      end
  | RRequest None _ => [(st, [ROStatus 401])]
  | RRequest (Some c) q =>
      match r_table st !! c with
      | None => [(st, [ROStatus 401])]
      | Some se =>
          if r_now st <? rs_deadline se then
            (* timerMgr.Reset succeeded: re-armed before the request is served *)
            let st1 := st <| r_table := <[c := RSess (rs_sid se) (r_now st + tmo)]> (r_table st) |> in
            match req_event (rs_sid se) q, q with
            | Some ev, _ => lift_seq st1 [ROStatus 200] [] (sstep cfg (r_seq st) ev)
            | None, QNoop code => [(st1, [ROStatus code])]
            | None, _ => [(st1, [])]
            end
          else [(st, [ROStatus 401])]
      end
  | RAdvance dt => radvance cfg dt st
  | RProbe =>
      lift_seq st [] [ROCookies (map fst (map_to_list (r_table st)))] (sstep cfg (r_seq st) EProbe)
  end.

Fixpoint rruns (cfg : config) (tmo : Z) (st : rstate) (h : list revent) : list (rstate * list (list rout)) :=
  match h with
  | [] => [(st, [])]
  | ev :: h' => flat_map (λ '(st1, o), map (λ '(st2, os), (st2, o :: os)) (rruns cfg tmo st1 h')) (rstep cfg tmo st ev)
  end.

(** *** The same abstract request list over both transports (C15) *)

(** [i] names a client: a gRPC connection on one side, a REST session on the other. The cookie, the
    server session id and the keys are the values drawn (supplied equal on both sides). *)
Inductive aitem :=
| AConnect (i : nat) (cookie sid : str)
| ADisconnect (i : nat)
| AReq (i : nat) (q : req)
| AAdvance (dt : Z)
| AProbe.

Definition skip {St Ou} (s : St) : list (St * list Ou) := [(s, [])].

(** gRPC: the Service methods are called with the connection's context (TagConn / HandleConn) *)
Definition grpc_item (cfg : config) (g : sstate * gmap nat str) (a : aitem) : list ((sstate * gmap nat str) * list out) :=
  let '(s, conns) := g in
  match a with
  | AConnect i _ sid =>
      match conns !! i with
      | None => map (λ '(s', o), ((s', <[i := sid]> conns), o)) (sstep cfg s (EConnect sid))
      | Some _ => skip g
      end
  | ADisconnect i =>
      match conns !! i with
      | Some sid => map (λ '(s', o), ((s', delete i conns), o)) (sstep cfg s (EDisconnect sid))
      | None => skip g
      end
  | AReq i q =>
      match conns !! i with
      | Some sid =>
          match req_event sid q with
          | Some ev => map (λ '(s', o), ((s', conns), o)) (sstep cfg s ev)
          | None => skip g
          end
      | None => skip g
      end
  | AAdvance dt => map (λ '(s', o), ((s', conns), o)) (sstep cfg s (EAdvance dt))
  | AProbe => map (λ '(s', o), ((s', conns), o)) (sstep cfg s EProbe)
  end.

(** REST: POST /session, DELETE /session, the three routes with the session's cookie *)
Definition rest_item (cfg : config) (tmo : Z) (r : rstate * gmap nat str) (a : aitem) : list ((rstate * gmap nat str) * list rout) :=
  let '(st, cookies) := r in
  match a with
  | AConnect i cookie sid =>
      match cookies !! i with
      | None => map (λ '(st', o), ((st', <[i := cookie]> cookies), o)) (rstep cfg tmo st (RCreate cookie sid))
      | Some _ => skip r
      end
  | ADisconnect i =>
      match cookies !! i with
      | Some c => map (λ '(st', o), ((st', delete i cookies), o)) (rstep cfg tmo st (RDelete (Some c)))
      | None => skip r
      end
  | AReq i q =>
      match cookies !! i with
      | Some c => map (λ '(st', o), ((st', cookies), o)) (rstep cfg tmo st (RRequest (Some c) q))
      | None => skip r
      end
  | AAdvance dt => map (λ '(st', o), ((st', cookies), o)) (rstep cfg tmo st (RAdvance dt))
  | AProbe => map (λ '(st', o), ((st', cookies), o)) (rstep cfg tmo st RProbe)
  end.

Fixpoint grpc_runs (cfg : config) (g : sstate * gmap nat str) (l : list aitem) : list ((sstate * gmap nat str) * list (list out)) :=
  match l with
  | [] => [(g, [])]
  | a :: l' => flat_map (λ '(g1, o), map (λ '(g2, os), (g2, o :: os)) (grpc_runs cfg g1 l')) (grpc_item cfg g a)
  end.

Fixpoint rest_runs (cfg : config) (tmo : Z) (r : rstate * gmap nat str) (l : list aitem) : list ((rstate * gmap nat str) * list (list rout)) :=
  match l with
  | [] => [(r, [])]
  | a :: l' => flat_map (λ '(r1, o), map (λ '(r2, os), (r2, o :: os)) (rest_runs cfg tmo r1 l')) (rest_item cfg tmo r a)
  end.

(** what the lock server answered, without the gateway's own outputs *)
Definition strip (o : list rout) : list out :=
  omap (λ x, match x with ROSeq y => Some y | _ => None end) o.

(** the answer was not a refusal by the gateway *)
Definition not_refused (o : list rout) : bool :=
  forallb (λ x, match x with ROStatus c => negb (bool_decide (c = 401)) | _ => true end) o.

(** "no REST session idles out", read off the request list alone: at every instant reached by an
    advance, every connected client's last activity (connect or request) is less than [tmo] ago *)
Fixpoint gaps_ok (tmo : Z) (now : Z) (last : gmap nat Z) (l : list aitem) : bool :=
  match l with
  | [] => true
  | AConnect i _ _ :: l' =>
      match last !! i with None => gaps_ok tmo now (<[i := now]> last) l' | Some _ => gaps_ok tmo now last l' end
  | ADisconnect i :: l' => gaps_ok tmo now (delete i last) l'
  | AReq i _ :: l' =>
      match last !! i with Some _ => gaps_ok tmo now (<[i := now]> last) l' | None => gaps_ok tmo now last l' end
  | AAdvance dt :: l' =>
      let now' := now + Z.max 0 dt in
      forallb (λ '(_, t), now' <? t + tmo) (map_to_list last) && gaps_ok tmo now' last l'
  | AProbe :: l' => gaps_ok tmo now last l'
  end.

(** the cookies drawn are pairwise different (uuid) *)
Definition cookies_of (l : list aitem) : list str :=
  omap (λ a, match a with AConnect _ c _ => Some c | _ => None end) l.

(** *** One server, both transports (C15_mixed): gRPC events act on the lock server directly *)
Inductive mevent := MRest (ev : revent) | MGrpc (ev : event).

Definition mstep (cfg : config) (tmo : Z) (st : rstate) (ev : mevent) : list (rstate * list rout) :=
  match ev with
  | MRest e => rstep cfg tmo st e
  | MGrpc e => lift_seq st [] [] (sstep cfg (r_seq st) e)
  end.

Fixpoint mruns (cfg : config) (tmo : Z) (st : rstate) (h : list mevent) : list (rstate * list (list rout)) :=
  match h with
  | [] => [(st, [])]
  | ev :: h' => flat_map (λ '(st1, o), map (λ '(st2, os), (st2, o :: os)) (mruns cfg tmo st1 h')) (mstep cfg tmo st ev)
  end.

(** *** The gap rule of C20, read off an event history alone (no table): the oracle.
    Per cookie: the server session id and the instant of creation / of the last accepted request while the
    session lives. [None] once it was deleted or a full timeout of idleness has passed. *)
Record gsess := GSess { gs_sid : str; gs_last : Z }.
Record gapst := GapSt { gp_now : Z; gp_live : gmap str gsess }.

(** a request with cookie [c] is due to be accepted iff c was created, not deleted, and every gap so far was < tmo *)
Definition gap_valid (g : gapst) (c : option str) : bool :=
  match c with Some c => bool_decide (is_Some (gp_live g !! c)) | None => false end.

Definition gap_step (tmo : Z) (g : gapst) (ev : revent) : gapst :=
  match ev with
  | RCreate c sid => GapSt (gp_now g) (<[c := GSess sid (gp_now g)]> (gp_live g))
  | RDelete (Some c) => GapSt (gp_now g) (delete c (gp_live g))
  | RDelete None => g
  | RRequest (Some c) _ =>
      match gp_live g !! c with
      | Some gs => GapSt (gp_now g) (<[c := GSess (gs_sid gs) (gp_now g)]> (gp_live g))
      | None => g
      end
  | RRequest None _ => g
  | RAdvance dt =>
      let now' := gp_now g + Z.max 0 dt in
      GapSt now' (filter (λ '(_, gs), (now' <? gs_last gs + tmo) = true) (gp_live g))
  | RProbe => g
  end.

Definition gap_init : gapst := GapSt 0 ∅.

(** *** Replay of an observed REST history against Mrest (as Track.replay does for Mseq) *)

Definition rout_eqb (p : proj) (a b : rout) : bool :=
  match a, b with
  | ROStatus x, ROStatus y => bool_decide (x = y)
  | ROSeq x, ROSeq y => out_eqb p x y
  | ROEnd x, ROEnd y => bool_decide (x = y)
  | ROCookies x, ROCookies y => perm_by eqb_dec x y
  | _, _ => false
  end.

(** a probe whose cookie list could not be read (harness built without its accessor) carries none *)
Definition drop_cookies (o : list rout) : list rout :=
  List.filter (λ x, match x with ROCookies _ => false | _ => true end) o.
Definition has_cookies (o : list rout) : bool :=
  existsb (λ x, match x with ROCookies _ => true | _ => false end) o.

(** [ck]: the session table (cookie list of probes) belongs to the projection (C20) or not (C15) *)
Definition routs_eqb (p : proj) (ck : bool) (model obs : list rout) : bool :=
  if ck && has_cookies obs then perm_by (rout_eqb p) model obs
  else perm_by (rout_eqb p) (drop_cookies model) (drop_cookies obs).

Fixpoint rreplay (p : proj) (ck : bool) (cfg : config) (tmo : Z) (cands : list rstate) (h : list (revent * list rout)) (i : nat)
  : option (nat * list (list rout)) :=
  match h with
  | [] => None
  | (ev, obs) :: h' =>
      let nexts := flat_map (λ st, rstep cfg tmo st ev) cands in
      match List.filter (λ '(_, o), routs_eqb p ck o obs) nexts with
      | [] => Some (i, map snd nexts)
      | ok => rreplay p ck cfg tmo (map fst ok) h' (S i)
      end
  end.

Definition rreplay_history (p : proj) (ck : bool) (cfg : config) (tmo : Z) (h : list (revent * list rout)) :=
  rreplay p ck cfg tmo [rinit cfg] h 0.

(** the same for a history on ONE server that mixes REST exchanges and gRPC calls (C15_mixed) *)
Fixpoint mreplay (p : proj) (ck : bool) (cfg : config) (tmo : Z) (cands : list rstate) (h : list (mevent * list rout)) (i : nat)
  : option (nat * list (list rout)) :=
  match h with
  | [] => None
  | (ev, obs) :: h' =>
      let nexts := flat_map (λ st, mstep cfg tmo st ev) cands in
      match List.filter (λ '(_, o), routs_eqb p ck o obs) nexts with
      | [] => Some (i, map snd nexts)
      | ok => mreplay p ck cfg tmo (map fst ok) h' (S i)
      end
  end.

Definition mreplay_history (p : proj) (ck : bool) (cfg : config) (tmo : Z) (h : list (mevent * list rout)) :=
  mreplay p ck cfg tmo [rinit cfg] h 0.

(** does this history contain an advance at which the model does not enumerate the tie orders? (evaluated along
    the model's own first run; the harness skips the model comparison of such histories) *)
Fixpoint rhas_tie (cfg : config) (tmo : Z) (st : rstate) (h : list revent) : bool :=
  match h with
  | [] => false
  | ev :: h' =>
      match ev with RAdvance dt => radvance_tie dt st | _ => false end
      || match rstep cfg tmo st ev with (st', _) :: _ => rhas_tie cfg tmo st' h' | [] => false end
  end.

(** *** The trace oracle of C20: checks an OBSERVED history against the property text only
    (gap rule, 401s, ConnEnd exactly once and promptly). It never consults the table model. *)

Definition statuses (o : list rout) : list Z := omap (λ x, match x with ROStatus c => Some c | _ => None end) o.
Definition ends (o : list rout) : list str := omap (λ x, match x with ROEnd s => Some s | _ => None end) o.

Record c20st := C20St {
  c_gap : gapst;
  c_ended : list str;                  (* server session ids whose ConnEnd was observed *)
  c_fail : list (nat * string)
}.

Definition cflag (i : nat) (tag : string) (ok : bool) (t : c20st) : c20st :=
  if ok then t else C20St (c_gap t) (c_ended t) ((i, tag) :: c_fail t).

Definition c20_step (tmo : Z) (i : nat) (ev : revent) (obs : list rout) (t : c20st) : c20st :=
  let g := c_gap t in
  let g' := gap_step tmo g ev in
  let t1 := C20St g' (ends obs ++ c_ended t) (c_fail t) in
  (* ConnEnd is never delivered twice for one session *)
  let t1 := cflag i "C20:connend-twice" (forallb (λ s, negb (bool_decide (s ∈ c_ended t))) (ends obs)
                                         && bool_decide (NoDup (ends obs))) t1 in
  match ev with
  | RCreate c sid =>
      let t1 := cflag i "C20:create-failed" (bool_decide (statuses obs = [201])) t1 in
      cflag i "C20:connend-unexpected" (bool_decide (ends obs = [])) t1
  | RDelete c =>
      match c with
      | Some c' =>
          match gp_live g !! c' with
          | Some gs =>
              let t1 := cflag i "C20:delete-of-valid-session-refused" (bool_decide (statuses obs = [200])) t1 in
              cflag i "C20:delete-without-connend" (bool_decide (ends obs = [gs_sid gs])) t1
          | None =>
              let t1 := cflag i "C20:delete-of-invalid-session-accepted" (negb (bool_decide (200 ∈ statuses obs))) t1 in
              cflag i "C20:connend-unexpected" (bool_decide (ends obs = [])) t1
          end
      | None =>
          let t1 := cflag i "C20:delete-of-invalid-session-accepted" (negb (bool_decide (200 ∈ statuses obs))) t1 in
          cflag i "C20:connend-unexpected" (bool_decide (ends obs = [])) t1
      end
  | RRequest c q =>
      let t1 := cflag i "C20:connend-unexpected" (bool_decide (ends obs = [])) t1 in
      if gap_valid g c then
        cflag i "C20:valid-session-refused" (negb (bool_decide (401 ∈ statuses obs)) && negb (bool_decide (statuses obs = []))) t1
      else
        let t1 := cflag i "C20:invalid-cookie-accepted" (bool_decide (statuses obs = [401])) t1 in
        cflag i "C20:refused-request-answered" (bool_decide (strip obs = [])) t1
  | RAdvance dt =>
      (* exactly the sessions whose idleness reaches a full timeout within this advance end, within it *)
      let expired := map (λ '(_, gs), gs_sid gs) (map_to_list (filter (λ '(_, gs), (gp_now g' <? gs_last gs + tmo) = false) (gp_live g))) in
      let t1 := cflag i "C20:expiry-not-prompt" (forallb (λ s, bool_decide (s ∈ ends obs)) expired) t1 in
      cflag i "C20:connend-unexpected" (forallb (λ s, bool_decide (s ∈ expired)) (ends obs)) t1
  | RProbe =>
      let t1 := cflag i "C20:connend-unexpected" (bool_decide (ends obs = [])) t1 in
      (* the table holds exactly the live sessions (when the probe can see it) *)
      match omap (λ x, match x with ROCookies cs => Some cs | _ => None end) obs with
      | cs :: _ => cflag i "C20:table-vs-live-sessions" (perm_by eqb_dec cs (map fst (map_to_list (gp_live g)))) t1
      | [] => t1
      end
  end.

Fixpoint c20_track (tmo : Z) (i : nat) (h : list (revent * list rout)) (t : c20st) : c20st :=
  match h with
  | [] => t
  | (ev, obs) :: h' => c20_track tmo (S i) h' (c20_step tmo i ev obs t)
  end.

Definition c20_failures (tmo : Z) (h : list (revent * list rout)) : list (nat * string) :=
  rev (c_fail (c20_track tmo 0 h (C20St gap_init [] []))).

(** refused requests are inert: the probes before and after a request answered 401 agree (lock table, listing,
    file, and the cookie list when visible); lastAccessed is not compared (as for C07) *)
Definition rout_inert_eqb (a b : rout) : bool :=
  rout_eqb (Proj true true true true true true true false true) a b.

Definition refused_obs (o : list rout) : bool := bool_decide (401 ∈ statuses o).

Fixpoint c20_inert_failures (i : nat) (h : list (revent * list rout)) : list (nat * string) :=
  match h with
  | (e1, o1) :: rest =>
      match e1, rest with
      | RProbe, (RRequest _ _, o) :: (RProbe, o2) :: _ =>
          if refused_obs o && negb (perm_by rout_inert_eqb o1 o2)
          then [(S i, "C20:refused-request-changed-state"%string)] else []
      | _, _ => []
      end ++ c20_inert_failures (S i) rest
  | [] => []
  end.

(** ** (b) Fine-grained layer: the races of C20

    Threads: HTTP handler goroutines (request / DELETE / POST /session) and, per session, the goroutine the
    idle timer starts when it fires. Time is abstracted: an armed timer may fire at any moment ([SFire]), which
    over-approximates every timeout value. One step per shared-memory operation; taking a mutex is disabled
    while another thread owns it. *)

Inductive thr := TUser (t : positive) | TCb (c : positive).
#[global] Instance thr_eq_dec : EqDecision thr.
Proof. solve_decision. Defined.
#[global] Instance thr_countable : Countable thr.
Proof.
  refine (inj_countable' (λ t, match t with TUser p => inl p | TCb c => inr c end)
                         (λ s, match s with inl p => TUser p | inr c => TCb c end) _).
  by intros [].
Defined.

(** the idle timer of a session inside timermap.TimerMap *)
Inductive tmst :=
| TmNone                       (* never added *)
| TmArmed                      (* in the map, running *)
| TmFired (inmap : bool)       (* its function was started; still in the map until somebody removes it *)
| TmStopped.                   (* stopped before firing and removed from the map (Remove) *)
#[global] Instance tmst_eq_dec : EqDecision tmst.
Proof. solve_decision. Defined.

Inductive result := R200 | R201 | R401 | R409.
#[global] Instance result_eq_dec : EqDecision result.
Proof. solve_decision. Defined.

Inductive pc :=
(* ServeHTTP for a routed request: ValidateSession ; mux.ServeHTTP ; deferred s.mtx.Unlock *)
| Q0     (* h.sessionsMtx.Lock() *)
| Q1     (* h.timerMgr.Reset(id, d): Stop + re-arm under the timer map's mutex *)
| Q1b    (* s := h.sessions[id] *)
| Q2     (* s.mtx.Lock()  -- while holding sessionsMtx *)
| Q3     (* deferred h.sessionsMtx.Unlock() *)
| Q4     (* h.mux.ServeHTTP: the lock-server call *)
| Q5     (* deferred s.mtx.Unlock() *)
| QF     (* Reset failed: deferred h.sessionsMtx.Unlock(), answer 401 *)
(* DestroySession *)
| D0     (* h.sessionsMtx.Lock() *)
| D1     (* s, ok := h.sessions[id] *)
| D2     (* h.timerMgr.Remove(id) *)
| D3     (* delete(h.sessions, id) *)
| D4     (* h.sessionsMtx.Unlock() *)
| D5     (* s.mtx.Lock() *)
| D6     (* h.grpcSrv.HandleConn(s.ctx, ConnEnd) *)
| D7     (* deferred s.mtx.Unlock(), answer 200 *)
| DF     (* not found: h.sessionsMtx.Unlock(), answer 409 *)
(* CreateSession *)
| K0     (* h.sessionsMtx.Lock() *)
| K1     (* h.sessions[id] = &session{} *)
| K2     (* h.timerMgr.Add(id, onTimeout, d) *)
| K3     (* h.sessionsMtx.Unlock(), answer 201 *)
(* the timer's function: onTimeoutFunc(id)() ; m.Remove(key) *)
| C0     (* h.sessionsMtx.Lock() *)
| C1     (* s, ok := h.sessions[id] *)
| C2     (* delete(h.sessions, id) *)
| C3     (* s.mtx.Lock()  -- while holding sessionsMtx *)
| C4     (* h.sessionsMtx.Unlock() *)
| C5     (* h.grpcSrv.HandleConn(s.ctx, ConnEnd) *)
| C6     (* deferred s.mtx.Unlock() *)
| C7     (* timermap: m.Remove(key) *)
| CA     (* not found: h.sessionsMtx.Unlock() *)
| Done (r : option result)
| Panic. (* nil session dereferenced / unlock of an unlocked mutex *)
#[global] Instance pc_eq_dec : EqDecision pc.
Proof. solve_decision. Defined.

Record fsess := FSess {
  fs_entry : bool;          (* h.sessions has the cookie *)
  fs_created : bool;        (* the session object exists (was created at some point) *)
  fs_mtx : option thr;      (* owner of session.mtx *)
  fs_timer : tmst;
  fs_connend : nat;         (* HandleConn(ConnEnd) deliveries *)
  fs_served : nat;          (* requests served *)
  fs_late : bool            (* ghost: some request was served after the session's ConnEnd *)
}.
#[global] Instance eta_fsess : Settable _ :=
  settable! FSess <fs_entry; fs_created; fs_mtx; fs_timer; fs_connend; fs_served; fs_late>.

Definition fs0 : fsess := FSess false false None TmNone 0 0 false.

Record fstate := FState {
  f_sess : gmap positive fsess;
  f_smtx : option thr;                    (* owner of restHandler.sessionsMtx *)
  f_pool : gmap thr (positive * pc)       (* thread -> (the cookie it works on, program counter) *)
}.
#[global] Instance eta_fstate : Settable _ := settable! FState <f_sess; f_smtx; f_pool>.

Definition sess (st : fstate) (c : positive) : fsess := default fs0 (f_sess st !! c).
Definition upd_sess (c : positive) (f : fsess → fsess) (st : fstate) : fstate :=
  st <| f_sess := <[c := f (sess st c)]> (f_sess st) |>.
Definition goto (t : thr) (c : positive) (p : pc) (st : fstate) : fstate :=
  st <| f_pool := <[t := (c, p)]> (f_pool st) |>.

Definition is_free {A} (o : option A) : bool := match o with None => true | Some _ => false end.

(** timermap.Remove on the timer's state *)
Definition tm_remove (t : tmst) : tmst :=
  match t with TmArmed => TmStopped | TmFired _ => TmFired false | x => x end.

(** release of sessionsMtx / a session mutex; unlocking an unlocked sync.Mutex is a fatal error *)
Definition release_s (t : thr) (c : positive) (next : pc) (st : fstate) : fstate :=
  if is_free (f_smtx st) then goto t c Panic st else goto t c next (st <| f_smtx := None |>).
Definition release_m (t : thr) (c : positive) (next : pc) (st : fstate) : fstate :=
  if is_free (fs_mtx (sess st c)) then goto t c Panic st
  else goto t c next (upd_sess c (λ se, se <| fs_mtx := None |>) st).

Definition take_s (t : thr) (c : positive) (next : pc) (st : fstate) : option fstate :=
  if is_free (f_smtx st) then Some (goto t c next (st <| f_smtx := Some t |>)) else None.
Definition take_m (t : thr) (c : positive) (next : pc) (st : fstate) : option fstate :=
  if is_free (fs_mtx (sess st c)) then Some (goto t c next (upd_sess c (λ se, se <| fs_mtx := Some t |>) st)) else None.

Definition conn_end (c : positive) (st : fstate) : fstate :=
  upd_sess c (λ se, se <| fs_connend := S (fs_connend se) |>) st.

(** one step of thread [t], which works on cookie [c] and is at [p]; [None] = not enabled *)
Definition step_thread (st : fstate) (t : thr) (c : positive) (p : pc) : option fstate :=
  let se := sess st c in
  match p with
  | Q0 => take_s t c Q1 st
  | Q1 => Some (goto t c (match fs_timer se with TmArmed => Q1b | _ => QF end) st)
  | Q1b => Some (goto t c (if fs_entry se then Q2 else Panic) st)
  | Q2 => take_m t c Q3 st
  | Q3 => Some (release_s t c Q4 st)
  | Q4 => Some (goto t c Q5 (upd_sess c (λ se, se <| fs_served := S (fs_served se) |>
                                                  <| fs_late := fs_late se || negb (Nat.eqb (fs_connend se) 0) |>) st))
  | Q5 => Some (release_m t c (Done (Some R200)) st)
  | QF => Some (release_s t c (Done (Some R401)) st)
  | D0 => take_s t c D1 st
  | D1 => Some (goto t c (if fs_entry se then D2 else DF) st)
  | D2 => Some (goto t c D3 (upd_sess c (λ se, se <| fs_timer := tm_remove (fs_timer se) |>) st))
  | D3 => Some (goto t c D4 (upd_sess c (λ se, se <| fs_entry := false |>) st))
  | D4 => Some (release_s t c D5 st)
  | D5 => take_m t c D6 st
  | D6 => Some (goto t c D7 (conn_end c st))
  | D7 => Some (release_m t c (Done (Some R200)) st)
  | DF => Some (release_s t c (Done (Some R409)) st)
  | K0 => take_s t c K1 st
  | K1 => Some (goto t c K2 (upd_sess c (λ se, se <| fs_entry := true |> <| fs_created := true |>) st))
  | K2 => Some (goto t c K3 (upd_sess c (λ se, se <| fs_timer := TmArmed |>) st))
  | K3 => Some (release_s t c (Done (Some R201)) st)
  | C0 => take_s t c C1 st
  | C1 => Some (goto t c (if fs_entry se then C2 else CA) st)
  | C2 => Some (goto t c C3 (upd_sess c (λ se, se <| fs_entry := false |>) st))
  | C3 => take_m t c C4 st
  | C4 => Some (release_s t c C5 st)
  | C5 => Some (goto t c C6 (conn_end c st))
  | C6 => Some (release_m t c C7 st)
  | C7 => Some (goto t c (Done None) (upd_sess c (λ se, se <| fs_timer := tm_remove (fs_timer se) |>) st))
  | CA => Some (release_s t c C7 st)
  | Done _ | Panic => None
  end.

(** a schedule item: a thread takes its next step, or the runtime fires the armed timer of a cookie
    (time.AfterFunc starts the timer's function in its own goroutine) *)
Inductive sitem := SRun (t : thr) | SFire (c : positive).

Definition fstep (st : fstate) (i : sitem) : option fstate :=
  match i with
  | SRun t => match f_pool st !! t with Some (c, p) => step_thread st t c p | None => None end
  | SFire c =>
      match fs_timer (sess st c) with
      | TmArmed => Some (goto (TCb c) c C0 (upd_sess c (λ se, se <| fs_timer := TmFired true |>) st))
      | _ => None
      end
  end.

(** a schedule; items that are not enabled are skipped *)
Fixpoint frun (st : fstate) (sch : list sitem) : fstate :=
  match sch with
  | [] => st
  | i :: sch' => frun (match fstep st i with Some st' => st' | None => st end) sch'
  end.

Definition final_pc (p : pc) : bool := match p with Done _ | Panic => true | _ => false end.
Definition start_pc (p : pc) : bool := match p with Q0 | D0 | K0 => true | _ => false end.

(** initial states: any finite set of handler goroutines about to start, on any cookies; no session exists;
    POST /session draws a fresh cookie (uuid): at most one creator per cookie *)
Definition finit (pool : gmap thr (positive * pc)) : fstate := FState ∅ None pool.

Definition pool_ok (pool : gmap thr (positive * pc)) : Prop :=
  (∀ t c p, pool !! t = Some (c, p) → start_pc p = true ∧ ∃ u, t = TUser u) ∧
  (∀ t1 t2 c, pool !! t1 = Some (c, K0) → pool !! t2 = Some (c, K0) → t1 = t2).

(** every thread has finished *)
Definition finished (st : fstate) : Prop := ∀ t c p, f_pool st !! t = Some (c, p) → final_pc p = true.
