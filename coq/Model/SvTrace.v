(** * Trace predicates for Msv (layer 2 of Mconc): C05 / C06 / C09 / C11 as EXECUTABLE predicates over what the T2 harness OBSERVES.

    After every schedule item the harness of harness/svsched records an observation of the real LockServer stack
    (lib/svtie.parse_observed): per goroutine its status (parked at a yield point / blocked in the lock manager / returned
    with a response / ended), for the goroutines the server starts itself what they are (lease callback of (name,key),
    DestroySession of sid, the closer); the lock table, the keys of the timer map, the session table, the listing and the
    decoded state file (= the crash image a kill at that instant leaves). [svobs] is that record, [sv_observe] computes it
    from a model state, [vrun_obs cfg sch] is the list of (item, observation after the item) of a model run.

    Forced moves. A Lock call that a release has handed a unit to (or whose context ended while it was queued) is not
    parked at a yield point: the real goroutine runs on by itself, inside the item that caused it, and the harness observes
    only the state after it. The model makes these moves by separate [VRun w] items. [vrun_obs_w cfg gs] is therefore the
    general form: a schedule of GROUPS (item, forced moves that follow it), one observation per group, taken after its last
    forced move; the predicates never see the forced moves. [vrun_obs cfg sch] is the special case without any.

    The predicates read the list oldest first as TRANSITIONS (observation before, item, observation after) and have the form
    "at every transition [x] with the transitions [past] before it, [q_at past x]" ([all_at]); [first_bad_at] returns the index
    of the first offending transition (what the driver prints). Thread ids are used as names only (an injective renaming
    changes no verdict). Proved of every model run in Proofs/SvTraceP.v, extracted (Extract/SvExtract.v), evaluated by
    [svdriver trace] on the REAL observations next to the Python oracles of lib/svtie.py. Definitions only. *)
From Ldlm Require Import Model.Base Model.Err Model.Sv.
Local Open Scope Z_scope.

#[global] Instance sop_eqdec : EqDecision sop.
Proof. solve_decision. Defined.

(** ** observations *)
(** status of a goroutine: parked at the yield point with that label ([spc_label]); blocked in lockMgr.Lock; returned
    with a response; ended *)
Inductive ostat := OsP (lab : nat) | OsB | OsF (r : sresp) | OsE.
(** what the goroutine is: a client's call; the lease callback of hold (n,k); DestroySession of sid; the closer *)
Inductive okind := OkCall (op : sop) | OkExp (n k : str) | OkDs (sid : str) | OkSh.
Record othr := OThr { ot_kind : okind; ot_st : ostat }.
Record svobs := SvObs {
  ob_thr : list (nat * othr);
  ob_table : list (str * (Z * list str));       (* lock table: name, size, live keys *)
  ob_tmkeys : list (str * str);                 (* timer map: (name, key) of every entry *)
  ob_sess : list (str * list clock);            (* session table *)
  ob_listing : list clock;                      (* LockServer.Locks() *)
  ob_file : option (list (str * list clock))    (* decoded state file; None: never written *)
}.
Definition ob_empty : svobs := SvObs [] [] [] [] [] None.

Definition ostat_of (pc : spc) : ostat :=
  match pc with VFin r => OsF r | VEnd => OsE | VWait => OsB | _ => OsP (spc_label pc) end.
Definition okind_of (s : svstate) (op : sop) : okind :=
  match op with
  | SExpire id => match v_theap s !! id with Some tm => OkExp (tm_n tm) (tm_k tm) | None => OkExp [] [] end
  | SConnEnd sid => OkDs sid
  | SShutdown => OkSh
  | _ => OkCall op
  end.
Definition othr_of (s : svstate) (t : sthread) : othr := OThr (okind_of s (st_op t)) (ostat_of (st_pc t)).
Definition sv_obs_tmkeys (s : svstate) : list (str * str) :=
  omap (λ x, match v_theap s !! x.2 with Some tm => Some (tm_n tm, tm_k tm) | None => None end) (map_to_list (v_timers s)).
Definition sv_observe (s : svstate) : svobs :=
  SvObs (map (λ x, (x.1, othr_of s x.2)) (map_to_list (v_thr s))) (sv_table s) (sv_obs_tmkeys s) (map_to_list (v_sess s))
        (sv_listing s) (sv_file s).

(** ** runs *)
Definition wakes_run (cfg : svcfg) (s : svstate) (ws : list nat) : svstate := fold_left (λ s w, vstep cfg s (VRun w)) ws s.
Definition gstep (cfg : svcfg) (s : svstate) (g : sitem * list nat) : svstate := wakes_run cfg (vstep cfg s g.1) g.2.
Fixpoint gobs_from (cfg : svcfg) (s : svstate) (gs : list (sitem * list nat)) : list (sitem * svobs) :=
  match gs with
  | [] => []
  | g :: r => let s' := gstep cfg s g in (g.1, sv_observe s') :: gobs_from cfg s' r
  end.
Definition vrun_obs_w (cfg : svcfg) (gs : list (sitem * list nat)) : list (sitem * svobs) := gobs_from cfg sv_init gs.
Definition ungrouped (sch : list sitem) : list (sitem * list nat) := map (λ it, (it, [])) sch.
Definition vrun_obs (cfg : svcfg) (sch : list sitem) : list (sitem * svobs) := vrun_obs_w cfg (ungrouped sch).

(** ** transitions and the quantification over them *)
Definition trans : Type := svobs * sitem * svobs.
Fixpoint trans_from (prev : svobs) (tr : list (sitem * svobs)) : list trans :=
  match tr with [] => [] | x :: r => (prev, x.1, x.2) :: trans_from x.2 r end.
Definition transitions (tr : list (sitem * svobs)) : list trans := trans_from ob_empty tr.

Fixpoint all_at_from {X} (Q : list X → X → bool) (past l : list X) : bool :=
  match l with [] => true | x :: r => Q past x && all_at_from Q (past ++ [x]) r end.
Definition all_at {X} (Q : list X → X → bool) (l : list X) : bool := all_at_from Q [] l.
Fixpoint first_bad_from {X} (Q : list X → X → bool) (past l : list X) (i : nat) : option nat :=
  match l with [] => None | x :: r => if Q past x then first_bad_from Q (past ++ [x]) r (S i) else Some i end.
Definition first_bad_at {X} (Q : list X → X → bool) (l : list X) : option nat := first_bad_from Q [] l 0.

(** ** reading an observation *)
Definition ob_find (o : svobs) (tid : nat) : option othr := (λ x, x.2) <$> find (λ x, Nat.eqb x.1 tid) (ob_thr o).
Definition is_lab (l : nat) (st : ostat) : bool := match st with OsP l' => Nat.eqb l' l | _ => false end.
Definition fin_true (st : ostat) : bool := match st with OsF (SResp true None) => true | _ => false end.
Definition is_end (st : ostat) : bool := match st with OsE => true | _ => false end.
Definition ob_any (o : svobs) (f : othr → bool) : bool := existsb (λ x, f x.2) (ob_thr o).
Definition ob_all (o : svobs) (f : othr → bool) : bool := forallb (λ x, f x.2) (ob_thr o).

(** (name,key) occupies a unit of its lock *)
Definition in_table (o : svobs) (n k : str) : bool :=
  existsb (λ x, bool_decide (x.1 = n) && bool_decide (k ∈ x.2.2)) (ob_table o).
(** the lease callback of (n,k) is parked at the yield point with label [l] *)
Definition exp_at (l : nat) (o : svobs) (n k : str) : bool :=
  ob_any o (λ t, match ot_kind t with OkExp n' k' => bool_decide (n' = n) && bool_decide (k' = k) && is_lab l (ot_st t) | _ => false end).
(** an Unlock call of (n,k) is parked at the yield point with label [l] *)
Definition unl_at (l : nat) (o : svobs) (n k : str) : bool :=
  ob_any o (λ t, match ot_kind t with OkCall (SUnlock n' k') => bool_decide (n' = n) && bool_decide (k' = k) && is_lab l (ot_st t) | _ => false end).
(** a lease callback of (n,k) exists (in whatever state) *)
Definition exp_exists (o : svobs) (n k : str) : bool :=
  ob_any o (λ t, match ot_kind t with OkExp n' k' => bool_decide (n' = n) && bool_decide (k' = k) | _ => false end).
(** a lease callback for key k exists *)
Definition exp_exists_key (o : svobs) (k : str) : bool :=
  ob_any o (λ t, match ot_kind t with OkExp _ k' => bool_decide (k' = k) | _ => false end).
(** an Unlock call of (n,k) has been invoked *)
Definition unl_exists (o : svobs) (n k : str) : bool :=
  ob_any o (λ t, match ot_kind t with OkCall (SUnlock n' k') => bool_decide (n' = n) && bool_decide (k' = k) | _ => false end).
(** the lock manager has not been shut down: the closer has not run to its end (its last step is lmCloser) *)
Definition mgr_up (o : svobs) : bool :=
  negb (ob_any o (λ t, match ot_kind t with OkSh => is_end (ot_st t) | _ => false end)).
(** the lease timer of (n,k) is armed: its key is in the timer map and its callback has not been started *)
Definition tm_armed (o : svobs) (n k : str) : bool := bool_decide ((n, k) ∈ ob_tmkeys o) && negb (exp_exists o n k).
(** the holds the image lists, with their session *)
Definition file_pairs (o : svobs) : list (str * clock) :=
  match ob_file o with Some l => flat_map (λ x, map (pair x.1) x.2) l | None => [] end.
Definition file_lists (o : svobs) (n k : str) : bool :=
  existsb (λ x, bool_decide (cl_name x.2 = n) && bool_decide (cl_key x.2 = k)) (file_pairs o).

(** the goroutine the item released, as the observation before the item shows it *)
Definition ran (x : trans) : option othr := match x.1.2 with VRun tid => ob_find x.1.1 tid | _ => None end.
Definition ran_is (x : trans) (f : othr → bool) : bool := match ran x with Some t => f t | None => false end.

(** ** C05 — Unlock / Renew / expiry racing on one hold answer truthfully *)
(** an Unlock call that has answered unlocked=true: at this and every later observation its (name,key) is not in the lock
    table, or the expiry of that hold is in progress — its callback goroutine is parked before its unlock step (while the lock
    manager is up) *)
Definition c05_unlock_at (past : list trans) (x : trans) : bool :=
  let o := x.2 in
  negb (mgr_up o) ||
  ob_all o (λ t, match ot_kind t with
                  | OkCall (SUnlock n k) => negb (fin_true (ot_st t)) || negb (in_table o n k) || exp_at (spc_label VCbUnlock) o n k
                  | _ => true end).
Definition q_c05_unlock (tr : list (sitem * svobs)) : bool := all_at c05_unlock_at (transitions tr).

(** the step of a Renew that answers locked=true: the hold is in the lock table before and after it, and after it its timer
    key is armed *)
Definition c05_renew_at (past : list trans) (x : trans) : bool :=
  match x.1.2 with
  | VRun tid =>
      match ob_find x.1.1 tid, ob_find x.2 tid with
      | Some (OThr (OkCall (SRenew n k _)) stp), Some (OThr _ sto) =>
          negb (is_lab (spc_label VTmReset) stp && fin_true sto) ||
          (in_table x.1.1 n k && in_table x.2 n k && tm_armed x.2 n k)
      | _, _ => true
      end
  | _ => true
  end.
Definition q_c05_renew (tr : list (sitem * svobs)) : bool := all_at c05_renew_at (transitions tr).

(** ** C06 — session end releases exactly that session's holds *)
(** the step log shows DestroySession of [sid] deleting the session: its goroutine was released from VDsDestroy while the
    session table had an entry for [sid] *)
Definition is_destroy_step (sid : str) (x : trans) : bool :=
  ran_is x (λ t, match ot_kind t with OkDs sid' => bool_decide (sid' = sid) && is_lab (spc_label VDsDestroy) (ot_st t) | _ => false end)
  && bool_decide (sid ∈ (ob_sess x.1.1).*1).
(** ... a call of session [sid] executing sessionMgr.AddLock *)
Definition is_add_step (sid : str) (x : trans) : bool :=
  ran_is x (λ t, match ot_kind t with OkCall op => bool_decide (op_sid op = Some sid) && is_lab (spc_label VSessAdd) (ot_st t) | _ => false end).
(** the signature of finding F-LEAK on the step log: an AddLock of a call of [sid] after the delete of [sid] *)
Fixpoint add_after (sid : str) (seen : bool) (l : list trans) : bool :=
  match l with
  | [] => false
  | x :: r => (seen && is_add_step sid x) || add_after sid (seen || is_destroy_step sid x) r
  end.
Definition sig_fleak_sid (sid : str) (l : list trans) : bool := add_after sid false l.
Definition ds_sids (l : list trans) : list str :=
  flat_map (λ x, omap (λ y, match ot_kind y.2 with OkDs sid => Some sid | _ => None end) (ob_thr x.2)) l.
Definition sig_fleak (tr : list (sitem * svobs)) : bool :=
  existsb (λ sid, sig_fleak_sid sid (transitions tr)) (ds_sids (transitions tr)).

(** the acknowledged holds of session [sid] are out of the lock table, or their expiry is pending *)
Definition held_ok (o : svobs) (sid : str) : bool :=
  ob_all o (λ t, match ot_kind t with
                  | OkCall op =>
                      match acq_params op with
                      | Some (sid', n, k, _, _) =>
                          negb (bool_decide (sid' = sid) && fin_true (ot_st t)) || negb (in_table o n k) || exp_at (spc_label VCbUnlock) o n k
                      | None => true
                      end
                  | _ => true end).
(** once the session-end goroutine of [sid] has finished (and had deleted the session): [held_ok]. [lenient]: except under
    the F-LEAK signature. (clearing configuration only; while the lock manager is up) *)
Definition c06_release_at (lenient noclear : bool) (past : list trans) (x : trans) : bool :=
  let o := x.2 in
  noclear || negb (mgr_up o) ||
  ob_all o (λ t, match ot_kind t with
                  | OkDs sid =>
                      negb (is_end (ot_st t)) || negb (existsb (is_destroy_step sid) (past ++ [x])) || held_ok o sid
                      || (lenient && sig_fleak_sid sid (past ++ [x]))
                  | _ => true end).
Definition q_c06_release (noclear : bool) (tr : list (sitem * svobs)) : bool := all_at (c06_release_at false noclear) (transitions tr).
Definition q_c06_release_or_fleak (noclear : bool) (tr : list (sitem * svobs)) : bool := all_at (c06_release_at true noclear) (transitions tr).

(** ** C09 — a kill at any instant: the image is [ob_file] of the observation *)
(** the connection of [sid] has ended: a VConnEnd item for it, or the closer's network stop *)
Definition is_connend (sid : str) (x : trans) : bool := match x.1.2 with VConnEnd sid' => bool_decide (sid' = sid) | _ => false end.
Definition is_netstop (x : trans) : bool :=
  ran_is x (λ t, match ot_kind t with OkSh => is_lab (spc_label VShNet) (ot_st t) | _ => false end).
Definition sess_ended (sid : str) (l : list trans) : bool := existsb (λ x, is_connend sid x || is_netstop x) l.
(** every hold whose grant has been answered, for which no Unlock was invoked, no lease callback exists and whose session has
    not ended, is in the image under its session *)
Definition c09_live_at (past : list trans) (x : trans) : bool :=
  let o := x.2 in
  ob_all o (λ t, match ot_kind t with
                  | OkCall op =>
                      match acq_params op with
                      | Some (sid, n, k, z, _) =>
                          negb (fin_true (ot_st t)) || unl_exists o n k || exp_exists_key o k || sess_ended sid (past ++ [x])
                          || bool_decide ((sid, Clock n k z) ∈ file_pairs o)
                      | None => true
                      end
                  | _ => true end).
(** no hold whose Unlock answered unlocked=true is in the image *)
Definition c09_ended_at (past : list trans) (x : trans) : bool :=
  let o := x.2 in
  ob_all o (λ t, match ot_kind t with
                  | OkCall (SUnlock n k) => negb (fin_true (ot_st t)) || negb (file_lists o n k)
                  | _ => true end).
(** the image lists at most size LIVE holds of a lock *)
Definition c09_bound_at (past : list trans) (x : trans) : bool :=
  let o := x.2 in
  forallb (λ r, Z.of_nat (length (filter (λ y, cl_name y.2 = r.1 ∧ cl_key y.2 ∈ r.2.2) (file_pairs o))) <=? r.2.1) (ob_table o).
Definition c09_image_at (past : list trans) (x : trans) : bool := c09_live_at past x && c09_ended_at past x && c09_bound_at past x.
Definition q_c09_image (tr : list (sitem * svobs)) : bool := all_at c09_image_at (transitions tr).
(** what is listed (session table / image) beyond the live holds is being removed by a call in flight: an Unlock parked at
    VSessRemove or a lease callback parked at VCbSessRemove (the window of finding F-OVER, exactly) *)
Definition c09_surplus_at (past : list trans) (x : trans) : bool :=
  let o := x.2 in
  forallb (λ c, in_table o (cl_name c) (cl_key c) || unl_at (spc_label VSessRemove) o (cl_name c) (cl_key c)
                || exp_at (spc_label VCbSessRemove) o (cl_name c) (cl_key c))
          (ob_listing o ++ map snd (file_pairs o)).
Definition q_c09_surplus_in_flight (tr : list (sitem * svobs)) : bool := all_at c09_surplus_at (transitions tr).
(** the F-OVER shape itself: the image lists more holds of a lock than its size (refutable: [C09_over_refuted]) *)
Definition c09_over_at (past : list trans) (x : trans) : bool :=
  let o := x.2 in
  forallb (λ r, Z.of_nat (length (filter (λ y, cl_name y.2 = r.1) (file_pairs o))) <=? r.2.1) (ob_table o).

(** ** C11 — graceful shutdown keeps the holds *)
(** the closer has executed PrepareShutdown: its goroutine exists and is not parked before its flag step *)
Definition flag_set (o : svobs) : bool :=
  ob_any o (λ t, match ot_kind t with OkSh => negb (is_lab (spc_label VShFlag) (ot_st t)) | _ => false end).
(** who may take (n,k) out of the lock table: the Unlock of that hold at its manager call, its lease callback at its unlock
    step, a DestroySession at one of its unlock steps, the Lock call of that key giving a handed-over unit back *)
Definition may_release (x : trans) (n k : str) : bool :=
  ran_is x (λ t, match ot_kind t with
                 | OkCall (SUnlock n' k') => bool_decide (n' = n) && bool_decide (k' = k) && is_lab (spc_label VMgrUnlock) (ot_st t)
                 | OkExp n' k' => bool_decide (n' = n) && bool_decide (k' = k) && is_lab (spc_label VCbUnlock) (ot_st t)
                 | OkDs _ => is_lab 17 (ot_st t)
                 | _ => false end)
  || ob_any x.1.1 (λ t, match ot_kind t with
                        | OkCall (SLock _ _ k' _ _) => bool_decide (k' = k) && is_lab (spc_label VWoken) (ot_st t)
                        | _ => false end).
(** who may take the entry of (n,k) out of the session table and the image: the Unlock of that hold at its RemoveLock, its
    lease callback at its RemoveLock, a DestroySession at its delete *)
Definition may_unlist (x : trans) (n k : str) : bool :=
  ran_is x (λ t, match ot_kind t with
                 | OkCall (SUnlock n' k') => bool_decide (n' = n) && bool_decide (k' = k) && is_lab (spc_label VSessRemove) (ot_st t)
                 | OkExp n' k' => bool_decide (n' = n) && bool_decide (k' = k) && is_lab (spc_label VCbSessRemove) (ot_st t)
                 | OkDs _ => is_lab (spc_label VDsDestroy) (ot_st t) || is_lab (spc_label VDsNoClear) (ot_st t)
                 | _ => false end).
(** once the flag is set: a DestroySession released from its flag check ends at once; and nothing leaves the lock table,
    the listing or the image except through the Unlock / the expiry of that very hold or a session end that had passed its
    flag check (or the give-back of a handed-over unit) *)
Definition c11_keeps_at (past : list trans) (x : trans) : bool :=
  let p := x.1.1 in let o := x.2 in
  negb (flag_set p) ||
  ((match x.1.2 with
    | VRun d => match ob_find p d, ob_find o d with
                | Some (OThr (OkDs _) stp), Some (OThr _ sto) => negb (is_lab (spc_label VDsFlag) stp) || is_end sto
                | _, _ => true
                end
    | _ => true
    end)
   && forallb (λ r, forallb (λ k, in_table o r.1 k || may_release x r.1 k) r.2.2) (ob_table p)
   && forallb (λ c, bool_decide (c ∈ ob_listing o) || may_unlist x (cl_name c) (cl_key c)) (ob_listing p)
   && forallb (λ y, bool_decide (y ∈ file_pairs o) || may_unlist x (cl_name y.2) (cl_key y.2)) (file_pairs p)).
Definition q_c11_keeps (tr : list (sitem * svobs)) : bool := all_at c11_keeps_at (transitions tr).

(** ** What the driver evaluates: index of the first offending transition per predicate (None = holds) *)
Definition sv_trace_verdict (noclear : bool) (tr : list (sitem * svobs)) : list (option nat) :=
  let l := transitions tr in
  [first_bad_at c05_unlock_at l; first_bad_at c05_renew_at l; first_bad_at (c06_release_at false noclear) l;
   first_bad_at (c06_release_at true noclear) l; first_bad_at c09_live_at l; first_bad_at c09_ended_at l;
   first_bad_at c09_bound_at l; first_bad_at c09_surplus_at l; first_bad_at c09_over_at l; first_bad_at c11_keeps_at l].
