(** * Trace-level oracle for the sequential properties, and the replay of observed
    histories against Mseq.

    [track] reads an observed history (events with the outputs the implementation —
    or the model — produced) and maintains nothing but the set of holds that the
    property texts say must be live: a hold starts at its grant response (or is kept
    by a restart with a state file), and ends at a successful Unlock of its key, at
    its lease deadline (grant or latest successful Renew + T), or at the end of its
    session unless no-clear-on-disconnect is set. It never predicts a response; it
    only checks what was observed against that set. Each failed check is reported with
    a tag naming the clause it belongs to. Definitions only. *)
From Coq Require Import String.
From Ldlm Require Import Model.Base Model.Err Model.Seq.
From RecordUpdate Require Import RecordSet.
Import RecordSetNotations.
Local Open Scope Z_scope.

(** ** Comparison of observations up to the orders Go leaves unspecified *)

Fixpoint remove_by {A} (eqb : A → A → bool) (x : A) (l : list A) : option (list A) :=
  match l with
  | [] => None
  | y :: l' => if eqb x y then Some l' else (λ r, y :: r) <$> remove_by eqb x l'
  end.

Fixpoint perm_by {A} (eqb : A → A → bool) (l1 l2 : list A) : bool :=
  match l1 with
  | [] => match l2 with [] => true | _ => false end
  | x :: l1' => match remove_by eqb x l2 with Some l2' => perm_by eqb l1' l2' | None => false end
  end.

Definition eqb_dec {A} `{EqDecision A} (x y : A) : bool := bool_decide (x = y).

#[global] Instance resp_eq_dec : EqDecision resp.
Proof. solve_decision. Defined.

(** what a comparison looks at (per-property projections, DESIGN 4.6) *)
Record proj := Proj {
  p_bits : bool;      (* locked / unlocked / blocked *)
  p_keys : bool;      (* keys echoed in responses *)
  p_errs : bool;      (* error values *)
  p_times : bool;     (* completion instants of parked calls *)
  p_listing : bool;
  p_file : bool;
  p_table : bool;     (* names, sizes, keys of the lock table *)
  p_last : bool;      (* lastAccessed *)
  p_ipc : bool
}.
Definition proj_all : proj := Proj true true true true true true true true true.

Definition resp_eqb (p : proj) (a b : resp) : bool :=
  match a, b with
  | RLock l1 k1 e1, RLock l2 k2 e2 =>
      (negb (p_bits p) || eqb_dec l1 l2) && (negb (p_keys p) || eqb_dec k1 k2) && (negb (p_errs p) || eqb_dec e1 e2)
  | RUnlock u1 e1, RUnlock u2 e2 => (negb (p_bits p) || eqb_dec u1 u2) && (negb (p_errs p) || eqb_dec e1 e2)
  | RBlocked, RBlocked => true
  | RBlocked, _ | _, RBlocked => negb (p_bits p)
  | _, _ => false
  end.

Definition file_pairs (f : list (str * list clock)) : list (str * clock) :=
  flat_map (λ '(sid, l), map (λ c, (sid, c)) l) f.

Definition table_holds (t : list (str * (Z * list str * Z))) : list clock :=
  flat_map (λ '(n, (sz, ks, _)), map (λ k, Clock n k sz) ks) t.

Definition out_eqb (p : proj) (a b : out) : bool :=
  match a, b with
  | OResp r1, OResp r2 => resp_eqb p r1 r2
  | OWaiter w1 t1 r1, OWaiter w2 t2 r2 =>
      eqb_dec w1 w2 && (negb (p_times p) || eqb_dec t1 t2) && resp_eqb p r1 r2
  | OListing l1, OListing l2 => negb (p_listing p) || perm_by eqb_dec l1 l2
  | OFile f1, OFile f2 =>
      negb (p_file p) ||
      match f1, f2 with
      | None, None => true
      | Some f1, Some f2 => perm_by eqb_dec (file_pairs f1) (file_pairs f2) && perm_by eqb_dec (map fst f1) (map fst f2)
      | _, _ => false
      end
  | OTable t1, OTable t2 =>
      (negb (p_table p) || (perm_by eqb_dec (table_holds t1) (table_holds t2)
                            && perm_by eqb_dec (map (λ '(n, (sz, _, _)), (n, sz)) t1) (map (λ '(n, (sz, _, _)), (n, sz)) t2)))
      && (negb (p_last p) || perm_by eqb_dec (map (λ '(n, (_, _, l)), (n, l)) t1) (map (λ '(n, (_, _, l)), (n, l)) t2))
  | OIpcList l1, OIpcList l2 => negb (p_ipc p) || perm_by eqb_dec l1 l2
  | OIpcUnlock r1 e1, OIpcUnlock r2 e2 => negb (p_ipc p) || (eqb_dec r1 r2 && (negb (p_errs p) || eqb_dec e1 e2))
  | _, _ => false
  end.

Definition outs_eqb (p : proj) (a b : list out) : bool := perm_by (out_eqb p) a b.

(** ** Replay: the observed history is accepted iff some run of Mseq produces it (under [p]) *)

Fixpoint replay (p : proj) (cfg : config) (cands : list sstate) (h : list (event * list out)) (i : nat)
  : option (nat * list (list out)) :=
  match h with
  | [] => None
  | (ev, obs) :: h' =>
      let nexts := flat_map (λ s, sstep cfg s ev) cands in
      match List.filter (λ '(_, o), outs_eqb p o obs) nexts with
      | [] => Some (i, map snd nexts)
      | ok => replay p cfg (map fst ok) h' (S i)
      end
  end.

Definition replay_history (p : proj) (cfg : config) (h : list (event * list out)) :=
  replay p cfg [init_state cfg] h 0.

(** ** The hold tracker *)

Record hold := Hold { h_name : str; h_key : str; h_size : Z; h_sid : str; h_deadline : option Z }.
#[global] Instance eta_hold : Settable _ := settable! Hold <h_name; h_key; h_size; h_sid; h_deadline>.

Record twaiter := TWaiter { tw_id : nat; tw_name : str; tw_sid : str; tw_size : Z; tw_lt : option Z;
                            tw_issued : Z; tw_wt : option Z }.

Record tstate := TState {
  t_holds : list hold;
  t_waiters : list twaiter;          (* arrival order *)
  t_now : Z;
  t_pending : list str;              (* names unlocked by name over IPC since the last probe *)
  t_mem : list (str * (Z * Z));      (* C13: per lock name, the size of the lock object and the instant of the last
                                        observed operation that reached it (one entry per name) *)
  t_sids : list str;                 (* FRESH: every session id a connection was given so far (restarts included) *)
  t_keys : list str;                 (* FRESH: every key a grant carried so far *)
  t_fail : list (nat * string)       (* (event index, tag) of failed checks, newest first *)
}.
#[global] Instance eta_tstate : Settable _ :=
  settable! TState <t_holds; t_waiters; t_now; t_pending; t_mem; t_sids; t_keys; t_fail>.

Definition t_init : tstate := TState [] [] 0 [] [] [] [] [].

(** C13: what the oracle remembers about lock objects. An operation that reaches the lock object of a name
    (a Lock/TryLock that is granted, parked or refused as busy; an Unlock of a key of that name that succeeds or
    fails with InvalidLockKey; a release at the end of a session or of a lease) refreshes its lastAccessed, and the
    collector removes an object only when it has been idle for MORE than LockGcMinIdle at a tick. *)
Definition mem_lookup (name : str) (m : list (str * (Z * Z))) : option (Z * Z) :=
  snd <$> head (List.filter (λ e, bool_decide (fst e = name)) m).
Definition mem_upd (name : str) (v : Z * Z) (m : list (str * (Z * Z))) : list (str * (Z * Z)) :=
  (name, v) :: List.filter (λ e, negb (bool_decide (fst e = name))) m.

Definition flag (i : nat) (tag : string) (ok : bool) (t : tstate) : tstate :=
  if ok then t else t <| t_fail := (i, tag) :: t_fail t |>.

Definition count_name (name : str) (t : tstate) : Z :=
  Z.of_nat (length (List.filter (λ h, bool_decide (h_name h = name)) (t_holds t))).
Definition live (name key : str) (t : tstate) : option hold :=
  head (List.filter (λ h, bool_decide (h_name h = name) && bool_decide (h_key h = key)) (t_holds t)).
Definition drop_hold (name key : str) (t : tstate) : tstate :=
  t <| t_holds := List.filter (λ h, negb (bool_decide (h_name h = name) && bool_decide (h_key h = key))) (t_holds t) |>.
Definition expire_until (now : Z) (t : tstate) : tstate :=
  t <| t_holds := List.filter (λ h, match h_deadline h with Some d => now <? d | None => true end) (t_holds t) |>.
Definition lease (now : Z) (lt : option Z) : option Z :=
  match lt with Some v => if 0 <? v then Some (now + v * second) else None | None => None end.
Definition waiters_on (name : str) (t : tstate) : list twaiter :=
  List.filter (λ w, bool_decide (tw_name w = name)) (t_waiters t).
(** the size a lock currently has according to its live holds and parked calls, if any *)
Definition known_size (name : str) (t : tstate) : option Z :=
  match List.filter (λ h, bool_decide (h_name h = name)) (t_holds t), waiters_on name t with
  | h :: _, _ => Some (h_size h)
  | [], w :: _ => Some (tw_size w)
  | [], [] => None
  end.

Definition err_of (r : resp) : option err := match r with RLock _ _ e => e | RUnlock _ e => e | RBlocked => None end.
Definition ok_bit (r : resp) : bool := match r with RLock l _ _ => l | RUnlock u _ => u | RBlocked => false end.

(** the refusal the property text (C12) prescribes for a Lock/TryLock request, if any *)
Definition expected_refusal (blocking : bool) (sid : option str) (name : str) (size lt wt : option Z) (t : tstate)
  : option err :=
  if bool_decide (sid = None) then Some ESrvSessionDoesNotExist else
  if opt_neg lt then Some ESrvInvalidLockTimeout else
  if blocking && opt_neg wt then Some ESrvInvalidWaitTimeout else
  if bool_decide (name = []) then Some ESrvEmptyName else
  if default 1 size <=? 0 then Some ELockInvalidLockSize else
  match known_size name t with
  | Some sz => if bool_decide (sz = default 1 size) then None else Some ELockSizeMismatch
  | None => None
  end.

(** one parked call completes (during any event) at instant [at_] *)
Definition t_waiter_done (cfg : config) (i : nat) (wid : nat) (at_ : Z) (r : resp) (cause : option err) (t : tstate) : tstate :=
  match List.filter (λ w, bool_decide (tw_id w = wid)) (t_waiters t) with
  | [] => flag i "C03:completion-of-unknown-call" false t
  | w :: _ =>
      let t0 := expire_until at_ t in
      let t1 := t0 <| t_waiters := List.filter (λ w', negb (bool_decide (tw_id w' = wid))) (t_waiters t0) |> in
      match r with
      | RLock true key e =>
          let t2 := flag i "C14:grant-with-error" (bool_decide (e = None)) t1 in
          let t3 := flag i "C03:not-fifo" (match waiters_on (tw_name w) t0 with w0 :: _ => bool_decide (tw_id w0 = wid) | [] => false end) t2 in
          (* a hold released by an admin unlock by name that is not attributed yet is still in the list *)
          let t4 := flag i "C01:grant-over-capacity"
                      (count_name (tw_name w) t0
                       - Z.of_nat (length (List.filter (λ n, bool_decide (n = tw_name w)) (t_pending t0))) <? tw_size w) t3 in
          (* FRESH: the keys the server draws are new (the properties assume uuid.NewString) *)
          let t5 := flag i "FRESH:key-reused" (negb (bool_decide (key ∈ t_keys t4))) t4 in
          t5 <| t_holds := t_holds t5 ++ [Hold (tw_name w) key (tw_size w) (tw_sid w) (lease at_ (tw_lt w))] |>
             <| t_keys := key :: t_keys t5 |>
      | RLock false _ e =>
          let dl := match tw_wt w with Some v => if 0 <? v then Some (tw_issued w + v * second) else None | None => None end in
          match e with
          | Some ESrvLockWaitTimeout =>
              flag i "C03:wait-timeout-not-at-deadline" (bool_decide (dl = Some at_)) t1
          | Some e' => flag i "C03:wrong-giveup-cause" (bool_decide (cause = Some e')) t1
          | None => flag i "C03:giveup-without-error" false t1
          end
      | _ => flag i "C03:bad-completion" false t1
      end
  end.

Fixpoint insert_by_time (o : nat * Z * resp) (l : list (nat * Z * resp)) : list (nat * Z * resp) :=
  match l with
  | [] => [o]
  | x :: l' => if (snd (fst o)) <? (snd (fst x)) then o :: l else x :: insert_by_time o l'
  end.
(** completions in time order; at one instant, give-ups before grants, each class in the order of emission *)
Definition sort_completions (outs : list out) : list (nat * Z * resp) :=
  let cs := omap (λ o, match o with OWaiter w a r => Some (w, a, r) | _ => None end) outs in
  let gaveup := List.filter (λ c, negb (ok_bit (snd c))) cs in
  let granted := List.filter (λ c, ok_bit (snd c)) cs in
  fold_left (λ acc c, insert_by_time c acc) (gaveup ++ granted) [].

Definition t_completions (cfg : config) (i : nat) (cause : option err) (outs : list out) (t : tstate) : tstate :=
  fold_left (λ t '(w, a, r), t_waiter_done cfg i w a r cause t) (sort_completions outs) t.

Definition first_resp (outs : list out) : option resp :=
  head (omap (λ o, match o with OResp r => Some r | _ => None end) outs).

Definition hold_clock (h : hold) : clock := Clock (h_name h) (h_key h) (h_size h).

(** resolve IPC unlocks by name against the table seen at a probe *)
Definition resolve_pending (tbl : list clock) (t : tstate) : tstate :=
  fold_left (λ t name,
    match List.filter (λ h, bool_decide (h_name h = name) && negb (bool_decide (hold_clock h ∈ tbl))) (t_holds t) with
    | [h] => drop_hold name (h_key h) t
    | _ => t
    end) (t_pending t) t <| t_pending := [] |>.

Definition t_acquire (cfg : config) (i : nat) (blocking : bool) (wid : nat) (sid : option str) (name : str)
           (size lt wt : option Z) (outs : list out) (t : tstate) : tstate :=
  match first_resp outs with
  | None => flag i "C14:no-response" false t
  | Some r =>
      let t := flag i "C14:error-with-locked" (match r with RLock true _ (Some _) => false | _ => true end) t in
      match expected_refusal blocking sid name size lt wt t with
      | Some e => flag i "C12:wrong-refusal" (negb (ok_bit r) && bool_decide (err_of r = Some e) && negb (bool_decide (r = RBlocked))) t
      | None =>
          let sz := default 1 size in
          let free := (count_name name t <? sz) && bool_decide (waiters_on name t = []) in
          (* C13: the lock object of this name was reached recently with another size: it cannot have been
             collected yet, so this request had to be refused with LockSizeMismatch *)
          let mem_ok := match mem_lookup name (t_mem t) with
                        | Some (msz, last) => bool_decide (msz = sz) || (c_gc_minidle cfg <? t_now t - last)
                        | None => true
                        end in
          match r with
          | RLock true key _ =>
              let t := flag i "C13:collected-before-min-idle" mem_ok t in
              let t := flag i "C01:grant-over-capacity" (count_name name t <? sz) t in
              let t := flag i "FRESH:key-reused" (negb (bool_decide (key ∈ t_keys t))) t in
              t <| t_holds := t_holds t ++ [Hold name key sz (default [] sid) (lease (t_now t) lt)] |>
                <| t_keys := key :: t_keys t |>
          | RLock false _ None =>
              let t := flag i "C13:collected-before-min-idle" mem_ok t in
              flag i "C02:free-lock-reported-busy" (negb free && negb blocking) t
          | RLock false _ (Some e) =>
              (* an object left over from earlier holds may refuse another size; nothing else may fail *)
              flag i "C13:valid-request-failed" (bool_decide (e = ELockSizeMismatch) && bool_decide (known_size name t = None)) t
          | RBlocked =>
              let t := flag i "C13:collected-before-min-idle" mem_ok t in
              let t := flag i "C02:free-lock-reported-busy" (negb free && blocking) t in
              t <| t_waiters := t_waiters t ++ [TWaiter wid name (default [] sid) sz lt (t_now t) wt] |>
          | _ => flag i "C14:bad-response" false t
          end
      end
  end.

Definition t_unlock (cfg : config) (i : nat) (name key : str) (u : bool) (e : option err) (outs : list out) (t : tstate) : tstate :=
  let t := flag i "C14:error-with-unlocked" (negb (u && negb (bool_decide (e = None)))) t in
  match live name key t with
  | Some _ =>
      let t := flag i "C04:live-key-refused" u t in
      t_completions cfg i None outs (if u then drop_hold name key t else t)
  | None =>
      let t := flag i "C04:dead-key-accepted" (negb u) t in
      let t := flag i "C14:failure-without-error" (u || negb (bool_decide (e = None))) t in
      let t := flag i "C14:wrong-unlock-error"
                 (u || match known_size name t with
                       | Some _ => bool_decide (e = Some ELockInvalidLockKey)
                       | None => bool_decide (e = Some ELockInvalidLockKey) || bool_decide (e = Some ELockDoesNotExist)
                       end) t in
      t_completions cfg i None outs t
  end.

Definition t_probe (cfg : config) (i : nat) (outs : list out) (t : tstate) : tstate :=
  let lst := head (omap (λ o, match o with OListing l => Some l | _ => None end) outs) in
  let fil := head (omap (λ o, match o with OFile f => Some f | _ => None end) outs) in
  let tbl := head (omap (λ o, match o with OTable x => Some x | _ => None end) outs) in
  match lst, fil, tbl with
  | Some l, Some f, Some tb =>
      let th := table_holds tb in
      let t := resolve_pending th t in
      let t := flag i "C08:listing-vs-table" (perm_by eqb_dec l th) t in
      let t := flag i "C08:file-vs-listing"
                 (negb (c_file cfg) || perm_by eqb_dec (map snd (file_pairs (default [] f))) l) t in
      let t := flag i "C01:table-over-capacity" (forallb (λ '(_, (sz, ks, _)), Z.of_nat (length ks) <=? sz) tb) t in
      let t := flag i "HOLDS:table-vs-expected-live-holds" (perm_by eqb_dec (map hold_clock (t_holds t)) th) t in
      let t := flag i "C03:capacity-idle-while-waiting"
                 (forallb (λ w, bool_decide (count_name (tw_name w) t = tw_size w)) (t_waiters t)) t in
      flag i "C03:wait-timeout-overdue"
           (forallb (λ w, match tw_wt w with Some v => if 0 <? v then t_now t <? tw_issued w + v * second else true | None => true end)
                    (t_waiters t)) t
  | _, _, _ => flag i "PROBE:missing" false t
  end.

Definition track_step0 (cfg : config) (i : nat) (ev : event) (outs : list out) (t : tstate) : tstate :=
  match ev with
  | EConnect sid =>
      (* FRESH: the id given to a new connection is new: not given before, not the id of a session whose holds the
         oracle knows (restored ones included), not the id under which a call is parked *)
      let seen := bool_decide (sid ∈ t_sids t) || bool_decide (sid ∈ map h_sid (t_holds t))
                  || bool_decide (sid ∈ map tw_sid (t_waiters t)) in
      flag i "FRESH:session-id-reused" (negb seen) t <| t_sids := sid :: t_sids t |>
  | EDisconnect sid =>
      (* the session's holds end first (unless no-clear); the capacity they free may be handed to parked calls *)
      let t1 := if c_noclear cfg then t else t <| t_holds := List.filter (λ h, negb (bool_decide (h_sid h = sid))) (t_holds t) |> in
      t_completions cfg i (Some ECtxCanceled) outs t1
  | ETryLock sid name size lt _ => t_acquire cfg i false 0%nat sid name size lt None outs t
  | ELock wid sid name size lt wt _ => t_acquire cfg i true wid sid name size lt wt outs t
  | EUnlock _ name key =>
      match first_resp outs with
      | Some (RUnlock u e) => t_unlock cfg i name key u e outs t
      | _ => flag i "C14:no-response" false t
      end
  | ERenew name key lt =>
      match first_resp outs with
      | Some (RLock l k e) =>
          let t := flag i "C14:error-with-locked" (negb (l && negb (bool_decide (e = None)))) t in
          if lt <=? 0 then flag i "C12:wrong-refusal" (negb l && bool_decide (e = Some ESrvInvalidLockTimeout)) t else
          match live name key t with
          | Some h =>
              match h_deadline h with
              | Some _ =>
                  let t := flag i "C04:live-lease-not-renewed" l t in
                  if l then (drop_hold name key t) <| t_holds ::= (λ hs, hs ++ [h <| h_deadline := Some (t_now t + lt * second) |>]) |> else t
              | None => flag i "C04:renew-of-unleased-hold" (negb l && bool_decide (e = Some ESrvDoesNotExistOrInvalidKey)) t
              end
          | None =>
              let t := flag i "C04:dead-key-renewed" (negb l) t in
              flag i "C14:wrong-renew-error" (l || bool_decide (e = Some ESrvDoesNotExistOrInvalidKey)) t
          end
      | _ => flag i "C14:no-response" false t
      end
  | ECancel _ => t_completions cfg i (Some ECtxCanceled) outs t
  | EAdvance dt =>
      let now' := t_now t + Z.max 0 dt in
      let t1 := t_completions cfg i None outs t in
      let t2 := flag i "C03:completion-after-now"
                  (forallb (λ o, match o with OWaiter _ a _ => (t_now t <=? a) && (a <=? now') | _ => true end) outs) t1 in
      expire_until now' (t2 <| t_now := now' |>)
  | ERestart _ =>
      let hs := if c_file cfg then map (λ h, h <| h_deadline := Some (t_now t + c_default_lt cfg) |>) (t_holds t) else [] in
      expire_until (t_now t) (t <| t_holds := hs |> <| t_waiters := [] |>)
  | EShutdown => t_completions cfg i (Some ECtxCanceled) outs t
  | EProbe => t_probe cfg i outs t
  | EIpcList =>
      match outs with
      | [OIpcList l] => flag i "C18:list-vs-live-holds" (perm_by eqb_dec l (map hold_clock (t_holds t)) || negb (bool_decide (t_pending t = []))) t
      | _ => flag i "C18:no-list" false t
      end
  | EIpcUnlock name key =>
      match head (omap (λ o, match o with OIpcUnlock r e => Some (r, e) | _ => None end) outs) with
      | Some (r, e) =>
          match key with
          | Some k =>
              match live name k t with
              | Some _ => let t := flag i "C18:unlock-of-live-hold-failed" (bool_decide (r = Some true)) t in
                          t_completions cfg i None outs (if bool_decide (r = Some true) then drop_hold name k t else t)
              | None => flag i "C18:unlock-of-dead-key-succeeded" (negb (bool_decide (r = Some true))) t
              end
          | None =>
              if bool_decide (count_name name t = 0) then
                flag i "C18:unlock-of-absent-name" (bool_decide (r = None) && bool_decide (e = Some ELockDoesNotExist)) t
              else
                let t := flag i "C18:unlock-by-name-failed" (bool_decide (r = Some true)) t in
                (* the released hold goes before the completions are read; if several holds have that name, which one
                   went is resolved at the next probe, and the capacity check discounts it meanwhile *)
                match List.filter (λ h, bool_decide (h_name h = name)) (t_holds t) with
                | [h] => t_completions cfg i None outs (drop_hold name (h_key h) t)
                | _ => t_completions cfg i None outs (t <| t_pending := name :: t_pending t |>)
                end
          end
      | None => flag i "C18:no-reply" false t
      end
  end.

(** C13: the lock objects reached by the event, read off the event, its outputs and the tracker state before it *)
Definition size_hint (name : str) (t : tstate) : option Z :=
  match known_size name t with Some k => Some k | None => fst <$> mem_lookup name (t_mem t) end.
Definition mem_touch (name : str) (t : tstate) : list (str * (Z * Z)) :=
  match size_hint name t with Some k => mem_upd name (k, t_now t) (t_mem t) | None => t_mem t end.

Definition mem_step (cfg : config) (ev : event) (outs : list out) (t : tstate) : list (str * (Z * Z)) :=
  match ev with
  | ETryLock _ name size _ _ | ELock _ _ name size _ _ _ =>
      match first_resp outs with
      | Some (RLock true _ _) | Some RBlocked | Some (RLock false _ None) => mem_upd name (default 1 size, t_now t) (t_mem t)
      | _ => t_mem t
      end
  | EUnlock _ name _ =>
      match first_resp outs with
      | Some (RUnlock true _) | Some (RUnlock false (Some ELockInvalidLockKey)) => mem_touch name t
      | _ => t_mem t
      end
  | EIpcUnlock name _ =>
      match head (omap (λ o, match o with OIpcUnlock r e => Some (r, e) | _ => None end) outs) with
      | Some (Some true, _) | Some (_, Some ELockInvalidLockKey) => mem_touch name t
      | _ => t_mem t
      end
  | EDisconnect sid =>
      if c_noclear cfg then t_mem t else
      fold_left (λ m h, mem_upd (h_name h) (h_size h, t_now t) m)
                (List.filter (λ h, bool_decide (h_sid h = sid)) (t_holds t)) (t_mem t)
  | EAdvance dt =>
      (* a lease that ends releases its hold at the deadline *)
      let now' := t_now t + Z.max 0 dt in
      fold_left (λ m h, match h_deadline h with
                        | Some d => if d <=? now' then mem_upd (h_name h) (h_size h, d) m else m
                        | None => m end) (t_holds t) (t_mem t)
  | ERestart _ => []
  | _ => t_mem t
  end.

Definition track_step (cfg : config) (i : nat) (ev : event) (outs : list out) (t : tstate) : tstate :=
  track_step0 cfg i ev outs t <| t_mem := mem_step cfg ev outs t |>.

Fixpoint track (cfg : config) (i : nat) (h : list (event * list out)) (t : tstate) : tstate :=
  match h with
  | [] => t
  | (ev, outs) :: h' => track cfg (S i) h' (track_step cfg i ev outs t)
  end.

(** the failed checks of an observed history, oldest first *)
Definition track_failures (cfg : config) (h : list (event * list out)) : list (nat * string) :=
  rev (t_fail (track cfg 0 h t_init)).

(** ** C07: after a request that failed, the observable state is what it was before.
    Evaluated on histories in which a probe precedes and follows the request. *)
Definition out_inert_eqb (a b : out) : bool :=
  out_eqb (Proj true true true true true true true false true) a b.

Definition failed_request (ev : event) (outs : list out) : bool :=
  match ev, first_resp outs with
  | (ETryLock _ _ _ _ _ | ELock _ _ _ _ _ _ _ | ERenew _ _ _), Some (RLock false _ (Some _)) => true
  | EUnlock _ _ _, Some (RUnlock false _) => true
  | _, _ => false
  end.

Fixpoint inert_failures (i : nat) (h : list (event * list out)) : list (nat * string) :=
  match h with
  | (e1, o1) :: rest =>
      match e1, rest with
      | EProbe, (ev, o) :: (EProbe, o2) :: _ =>
          if failed_request ev o && negb (perm_by out_inert_eqb o1 o2)
          then [(S i, "C07:failed-request-changed-state"%string)] else []
      | _, _ => []
      end ++ inert_failures (S i) rest
  | [] => []
  end.
