(** Mcodec — the state file bytes (property C17; used by C09/C10).

    Executable model of [/repo/server/session/store/store.go] and of the parts of
    [github.com/deneonet/benc v1.1.8] ([std/bstd.go], [benc.go]) it calls.
    Definitions only; the proofs are in [Proofs/CodecP*.v].

    Conventions.  A Go [[]byte] is a [list byte]; a Go offset [n int] is an [N];
    [len(b)] is [blen b].  Every function reads the buffer only through [blen b]
    and [tail_at b n] (= [b[n:]]).  The Go failure modes are explicit outcomes
    ([res]): an error value, a run-time panic, an allocation request that is large
    and not backed by input bytes.  Nothing is totalised away: the only artificial
    outcome is [Panic WhyFuel] (a loop ran out of model fuel), which
    [Proofs/CodecP3.v] proves unreachable.

    Platform constants are those of linux/amd64 with Go >= 1.24 (64-bit [int]/[uint],
    [maxAlloc] = 2^48, Swiss maps); they only influence [benc_decode] on inputs that
    the validator rejects. *)
From Ldlm Require Import Model.Base.

Local Open Scope N_scope.

(** * Outcomes *)

(** The three error variables of benc that can come out of the codec. *)
Inductive err_kind : Set :=
| EBufTooSmall       (* benc.ErrBufTooSmall *)
| EOverflow          (* benc.ErrOverflow *)
| EVerifyMarshal.    (* benc.ErrVerifyMarshal *)

Inductive panic_why : Set :=
| WhySliceBounds     (* runtime error: slice bounds out of range *)
| WhyMakeSliceLen    (* runtime error: makeslice: len out of range *)
| WhyFuel.           (* model artefact: loop fuel exhausted; proved unreachable *)

#[global] Instance err_kind_eq_dec : EqDecision err_kind.
Proof. solve_decision. Defined.
#[global] Instance panic_why_eq_dec : EqDecision panic_why.
Proof. solve_decision. Defined.

(** Result of one decoding step. [Alloc s]: the code asked [make] for [s] elements,
    [s] above [alloc_limit] and more than the rest of the input could describe. *)
Inductive res (A : Type) : Type :=
| Ok (a : A)
| Err (e : err_kind)
| Panic (w : panic_why)
| Alloc (s : N).
Arguments Ok {A} a.
Arguments Err {A} e.
Arguments Panic {A} w.
Arguments Alloc {A} s.

Definition rbind {A B} (m : res A) (f : A -> res B) : res B :=
  match m with
  | Ok a => f a
  | Err e => Err e
  | Panic w => Panic w
  | Alloc s => Alloc s
  end.

(** Failure of one type re-read at another type. *)
Definition rcast {A B} (m : res A) (dflt : res B) : res B :=
  match m with
  | Ok _ => dflt
  | Err e => Err e
  | Panic w => Panic w
  | Alloc s => Alloc s
  end.

Notation "'let*' x ':=' m 'in' f" := (rbind m (fun x => f))
  (at level 200, x pattern, m at level 100, f at level 200, right associativity).

(** * Values *)

(** [cl.Lock{name, key, size int32}] *)
Definition lock : Type := str * str * Z.
(** [map[string][]cl.Lock] *)
Definition smap : Type := gmap str (list lock).
(** A map written out in some iteration order. *)
Definition entries : Type := list (str * list lock).

Inductive dec_result : Type :=
| DecOk (m : smap)
| DecErr (e : err_kind)
| DecPanic (w : panic_why)
| DecAlloc (s : N).

(** * Buffers *)

Definition blen (b : list byte) : N := N.of_nat (length b).
(** [b[n:]] for [n <= len(b)] *)
Definition tail_at (b : list byte) (n : N) : list byte := drop (N.to_nat n) b.

Definition byte_of_N (v : N) : byte :=
  match Byte.of_N v with Some c => c | None => x00 end.

(** [uint] arithmetic is modulo 2^64. *)
Definition u64 (v : N) : N := v mod 2 ^ 64.

(** [int(us)] for a [uint] [us] *)
Definition to_int (us : N) : Z :=
  if us <? 2 ^ 63 then Z.of_N us else (Z.of_N us - 2 ^ 64)%Z.

(** [len(b) - n < k] on Go [int]s *)
Definition len_minus_lt (b : list byte) (n : N) (k : Z) : bool :=
  (Z.of_N (blen b) - Z.of_N n <? k)%Z.

(** * Varint — bstd.SizeUint / MarshalUint / UnmarshalUint *)

(** [maxVarintLen] for a 64-bit [int] *)
Definition max_varint_len : N := 10.

(**
<<
  i := n
  for v >= 0x80 { b[i] = byte(v) | 0x80; v >>= 7; i++ }
  b[i] = byte(v)
>>
   The fuel 10 is never exhausted for [v < 2^64]. *)
Fixpoint marshal_uint_loop (fuel : nat) (v : N) : list byte :=
  match fuel with
  | O => []
  | S f =>
    if v <? 128 then [byte_of_N v]
    else byte_of_N (N.lor (v mod 256) 128) :: marshal_uint_loop f (N.shiftr v 7)
  end.

Definition marshal_uint (v : N) : list byte := marshal_uint_loop 10 (u64 v).

(** [i := 0; for v >= 0x80 { v >>= 7; i++ }; return i + 1] *)
Fixpoint size_uint_loop (fuel : nat) (v : N) (i : N) : N :=
  match fuel with
  | O => i
  | S f => if v <? 128 then i + 1 else size_uint_loop f (N.shiftr v 7) (i + 1)
  end.

Definition size_uint (v : N) : N := size_uint_loop 10 (u64 v) 0.

(**
<<
  var x, s uint
  for i, b := range buf[n:] {
      if i == maxVarintLen { return 0, 0, ErrOverflow }
      if b < 0x80 {
          if i == maxVarintLen-1 && b > 1 { return 0, 0, ErrOverflow }
          return n + i + 1, x | uint(b)<<s, nil
      }
      x |= uint(b&0x7f) << s
      s += 7
  }
  return 0, 0, ErrBufTooSmall
>>
   Returns [(i + 1, value)]. *)
Fixpoint uvarint_loop (buf : list byte) (i x s : N) : res (N * N) :=
  match buf with
  | [] => Err EBufTooSmall
  | c :: buf' =>
    if i =? max_varint_len then Err EOverflow
    else
      let c := Byte.to_N c in
      if c <? 128 then
        if (i =? max_varint_len - 1) && (1 <? c) then Err EOverflow
        else Ok (i + 1, N.lor x (u64 (N.shiftl c s)))
      else uvarint_loop buf' (i + 1) (N.lor x (u64 (N.shiftl (N.land c 127) s))) (s + 7)
  end.

(** [buf[n:]] panics when [n > len(buf)]. Returns (new offset, value). *)
Definition unmarshal_uint (b : list byte) (n : N) : res (N * N) :=
  if blen b <? n then Panic WhySliceBounds
  else
    let* (i, v) := uvarint_loop (tail_at b n) 0 0 0 in
    Ok (n + i, v).

(** * String — bstd.SizeString / MarshalString / UnmarshalString *)

Definition marshal_string (s : str) : list byte := marshal_uint (blen s) ++ s.

Definition size_string (s : str) : N := blen s + size_uint (blen s).

(**
<<
  n, us, err := UnmarshalUint(n, b); if err != nil { return 0, "", err }
  s := int(us)
  if len(b)-n < s { return n, "", ErrBufTooSmall }
  return n + s, string(b[n : n+s]), nil
>>
   A length [>= 2^63] is a negative [s]: the test passes and [b[n:n+s]] has
   [n+s < n] — slice bounds out of range. *)
Definition unmarshal_string (b : list byte) (n : N) : res (N * str) :=
  let* (n, us) := unmarshal_uint b n in
  let s := to_int us in
  if len_minus_lt b n s then Err EBufTooSmall
  else if (s <? 0)%Z || (blen b <? n + us) then Panic WhySliceBounds
  else Ok (n + us, take (N.to_nat us) (tail_at b n)).

(** * Int32 — bstd.MarshalInt32 / UnmarshalInt32 / SkipInt32 *)

Definition byte_of_Z (z : Z) : byte := byte_of_N (Z.to_N z).

(** [u[0] = byte(v); u[1] = byte(v >> 8); u[2] = byte(v >> 16); u[3] = byte(v >> 24)]
    ([>>] on a signed integer is arithmetic, [byte()] keeps the low 8 bits). *)
Definition marshal_int32 (v : Z) : list byte :=
  [ byte_of_Z (v mod 256);
    byte_of_Z (Z.shiftr v 8 mod 256);
    byte_of_Z (Z.shiftr v 16 mod 256);
    byte_of_Z (Z.shiftr v 24 mod 256) ]%Z.

(** conversion of an integer to [int32] (wraps) *)
Definition wrap32 (z : Z) : Z :=
  let u := (z mod 2 ^ 32)%Z in
  if (u <? 2 ^ 31)%Z then u else (u - 2 ^ 32)%Z.

(**
<<
  if len(b)-n < 4 { return n, 0, ErrBufTooSmall }
  u := b[n : n+4]
  v := int32(u[0]) | int32(u[1])<<8 | int32(u[2])<<16 | int32(u[3])<<24
  return n + 4, v, nil
>> *)
Definition unmarshal_int32 (b : list byte) (n : N) : res (N * Z) :=
  if len_minus_lt b n 4 then Err EBufTooSmall
  else
    match tail_at b n with
    | u0 :: u1 :: u2 :: u3 :: _ =>
      let z (c : byte) := Z.of_N (Byte.to_N c) in
      Ok (n + 4,
          wrap32 (Z.lor (Z.lor (Z.lor (z u0) (Z.shiftl (z u1) 8)) (Z.shiftl (z u2) 16))
                        (Z.shiftl (z u3) 24)))
    | _ => Panic WhySliceBounds
    end.

(** [if len(b)-n < 4 { return n, ErrBufTooSmall }; return n + 4, nil] *)
Definition skip_int32 (b : list byte) (n : N) : res N :=
  if len_minus_lt b n 4 then Err EBufTooSmall else Ok (n + 4).

(** * cl.Lock — store.go marshalLock / unmarshalLock / lockSize *)

Definition marshal_lock (l : lock) : list byte :=
  let '(name, key, size) := l in
  marshal_string name ++ marshal_string key ++ marshal_int32 size.

Definition unmarshal_lock (b : list byte) (n : N) : res (N * lock) :=
  let* (n, name) := unmarshal_string b n in
  let* (n, key) := unmarshal_string b n in
  let* (n, size) := unmarshal_int32 b n in
  Ok (n, (name, key, size)).

(** * Slice and map — bstd.MarshalSlice / MarshalMap and store.go marshalLocks *)

Definition terminator : list byte := [x01; x01; x01; x01].

Definition marshal_slice (ls : list lock) : list byte :=
  marshal_uint (N.of_nat (length ls)) ++ concat (map marshal_lock ls) ++ terminator.

Definition marshal_entry (e : str * list lock) : list byte :=
  marshal_string e.1 ++ marshal_slice e.2.

(** [marshalLocks], the entries being visited in the order given
    (Go's map iteration order is unspecified). *)
Definition encode (es : entries) : list byte :=
  marshal_uint (N.of_nat (length es)) ++ concat (map marshal_entry es) ++ terminator.

(** The map a list of entries denotes when the entries are assigned one after the
    other ([ts[k] = v]: a later entry replaces an earlier one with the same key). *)
Definition to_map (es : entries) : smap :=
  foldl (fun m e => <[e.1 := e.2]> m) ∅ es.

(** * The validator — store.go checkEncoding / checkCount / checkString / checkTerminator *)

(** Loop fuel: every iteration of every loop below consumes at least one byte. *)
Definition fuel_for (b : list byte) : nat := S (length b).

(**
<<
  n, count, err := bstd.UnmarshalUint(n, b); if err != nil { return 0, 0, err }
  if count > uint(len(b)-n)/uint(minSize) { return 0, 0, ErrBufTooSmall }
  return n, count, nil
>> *)
Definition check_count (b : list byte) (n : N) (min_size : N) : res (N * N) :=
  let* (n, count) := unmarshal_uint b n in
  if (blen b - n) / min_size <? count then Err EBufTooSmall
  else Ok (n, count).

(**
<<
  n, length, err := bstd.UnmarshalUint(n, b); if err != nil { return 0, err }
  if length > uint(len(b)-n) { return 0, ErrBufTooSmall }
  return n + int(length), nil
>> *)
Definition check_string (b : list byte) (n : N) : res N :=
  let* (n, length) := unmarshal_uint b n in
  if blen b - n <? length then Err EBufTooSmall
  else Ok (n + length).

(**
<<
  if len(b)-n < len(terminator) { return 0, ErrBufTooSmall }
  if !bytes.Equal(b[n:n+len(terminator)], terminator) { return 0, ErrVerifyMarshal }
  return n + len(terminator), nil
>> *)
Definition check_terminator (b : list byte) (n : N) : res N :=
  if len_minus_lt b n 4 then Err EBufTooSmall
  else if bool_decide (take 4 (tail_at b n) = terminator) then Ok (n + 4)
  else Err EVerifyMarshal.

(** A client lock is at least 2 empty strings (1 byte each) and an int32;
    a map entry is at least an empty string and an empty slice (1 byte + terminator). *)
Definition min_lock_size : N := 6.
Definition min_entry_size : N := 6.

(** [for ; locks > 0; locks-- { checkString; checkString; SkipInt32 }] *)
Fixpoint check_locks_loop (fuel : nat) (b : list byte) (locks : N) (n : N) : res N :=
  if locks =? 0 then Ok n
  else
    match fuel with
    | O => Panic WhyFuel
    | S f =>
      let* n := check_string b n in
      let* n := check_string b n in
      let* n := skip_int32 b n in
      check_locks_loop f b (locks - 1) n
    end.

(** [for ; entries > 0; entries-- { checkString; checkCount; <locks loop>; checkTerminator }] *)
Fixpoint check_entries_loop (fuel : nat) (b : list byte) (ents : N) (n : N) : res N :=
  if ents =? 0 then Ok n
  else
    match fuel with
    | O => Panic WhyFuel
    | S f =>
      let* n := check_string b n in
      let* (n, locks) := check_count b n min_lock_size in
      let* n := check_locks_loop (fuel_for b) b locks n in
      let* n := check_terminator b n in
      check_entries_loop f b (ents - 1) n
    end.

(** [benc.VerifyMarshal(n, b)] *)
Definition verify_marshal (b : list byte) (n : N) : res unit :=
  if n =? blen b then Ok tt else Err EVerifyMarshal.

(** [checkEncoding] with every way it could end. *)
Definition check_encoding_r (b : list byte) : res unit :=
  let* (n, ents) := check_count b 0 min_entry_size in
  let* n := check_entries_loop (fuel_for b) b ents n in
  let* n := check_terminator b n in
  verify_marshal b n.

(** [checkEncoding] as an [error]: [None] is [nil].  ([Proofs/CodecP3.v]:
    [check_encoding_r] never panics, so nothing is lost here.) *)
Definition check_encoding (b : list byte) : option err_kind :=
  match check_encoding_r b with
  | Ok _ => None
  | Err e => Some e
  | Panic _ | Alloc _ => Some EBufTooSmall
  end.

(** * benc's decoder as called by unmarshalLocks — faithful to its failure modes *)

(** [unsafe.Sizeof(cl.Lock{})]: two string headers and an int32, padded. *)
Definition lock_mem : N := 40.
(** [runtime.maxAlloc] on linux/amd64. *)
Definition max_alloc : N := 2 ^ 48.
(** [make([]cl.Lock, s)] panics with "len out of range" above this length. *)
Definition max_slice_len : N := max_alloc / lock_mem.
(** [make(map[string][]cl.Lock, hint)]: [maps.NewMap] ignores a hint above this value
    (directory size * 1024 * group size (8*40+8) would exceed [maxAlloc]). *)
Definition max_map_hint : N := 7 * 2 ^ 36.
(** An allocation request above this many elements that the rest of the input can
    not back is reported as the outcome ([Alloc]): whether the process survives it
    (40 MiB and up) depends on the machine, and the property is that it is never made. *)
Definition alloc_limit : N := 2 ^ 20.

(** [s] elements requested with [rest] bytes of input left *)
Definition unbacked (s rest : N) : bool := (alloc_limit <? s) && (rest / 6 <? s).

(** [for i := 0; i < s; i++ { n, t, err = unmarshalLock(n, b); ...; ts[i] = t }] *)
Fixpoint unmarshal_locks_loop (fuel : nat) (b : list byte) (cnt : N) (n : N)
  : res (N * list lock) :=
  if cnt =? 0 then Ok (n, [])
  else
    match fuel with
    | O => Panic WhyFuel
    | S f =>
      let* (n, l) := unmarshal_lock b n in
      let* (n, ls) := unmarshal_locks_loop f b (cnt - 1) n in
      Ok (n, l :: ls)
    end.

(** bstd.UnmarshalSlice[cl.Lock](n, b, unmarshalLock):
<<
  n, us, err := UnmarshalUint(n, b); if err != nil { return 0, nil, err }
  s := int(us)
  ts := make([]T, s)          // before any element is looked at
  for i := 0; i < s; i++ { ... }
  return n + 4, ts, nil       // the terminator is neither looked for nor compared
>>
   The second component is the number of elements [make] was asked for. *)
Definition unmarshal_slice (b : list byte) (n : N) : res (N * list lock) * N :=
  match unmarshal_uint b n with
  | Ok (n, us) =>
    if (2 ^ 63 <=? us) || (max_slice_len <? us) then (Panic WhyMakeSliceLen, 0)
    else if unbacked us (blen b - n) then (Alloc us, 0)
    else
      match unmarshal_locks_loop (fuel_for b) b us n with
      | Ok (n, ls) => (Ok (n + 4, ls), us)
      | r => (rcast r (Panic WhyFuel), us)
      end
  | r => (rcast r (Panic WhyFuel), 0)
  end.

(** The loop of bstd.UnmarshalMap:
<<
  for range s { n, k, err = UnmarshalString(n, b); ...; n, v, err = <UnmarshalSlice>(n, b); ...; ts[k] = v }
>> *)
Fixpoint unmarshal_entries_loop (fuel : nat) (b : list byte) (cnt : N) (n : N) (m : smap)
  : res (N * smap) * N :=
  if cnt =? 0 then (Ok (n, m), 0)
  else
    match fuel with
    | O => (Panic WhyFuel, 0)
    | S f =>
      match unmarshal_string b n with
      | Ok (n, k) =>
        match unmarshal_slice b n with
        | (Ok (n, v), a) =>
          let '(r, a') := unmarshal_entries_loop f b (cnt - 1) n (<[k := v]> m) in
          (r, a + a')
        | (r, a) => (rcast r (Panic WhyFuel), a)
        end
      | r => (rcast r (Panic WhyFuel), 0)
      end
    end.

(** bstd.UnmarshalMap[string, []cl.Lock](0, b, ...):
<<
  n, us, err := UnmarshalUint(n, b); if err != nil { return 0, nil, err }
  s := int(us)
  ts := make(map[K]V, s)      // negative hint: treated as 0; huge hint: ignored
  for range s { ... }         // negative s: no iteration
  return n + 4, ts, nil
>> *)
Definition unmarshal_map (b : list byte) : res (N * smap) * N :=
  match unmarshal_uint b 0 with
  | Ok (n, us) =>
    if 2 ^ 63 <=? us then (Ok (n + 4, ∅), 0)
    else
      let hint := if max_map_hint <? us then 0 else us in
      if unbacked hint (blen b - n) then (Alloc hint, 0)
      else
        match unmarshal_entries_loop (fuel_for b) b us n ∅ with
        | (Ok (n, m), a) => (Ok (n + 4, m), hint + a)
        | (r, a) => (r, hint + a)
        end
  | r => (rcast r (Panic WhyFuel), 0)
  end.

(** The body of [unmarshalLocks] after the validator:
    [n, m, err := bstd.UnmarshalMap(...); if err != nil {...}; return m, benc.VerifyMarshal(n, b)],
    instrumented with the total number of slice elements and map entries [make]
    was asked for. *)
Definition benc_decode_i (b : list byte) : dec_result * N :=
  match unmarshal_map b with
  | (Ok (n, m), a) =>
    (match verify_marshal b n with
     | Ok _ => DecOk m
     | Err e => DecErr e
     | Panic w => DecPanic w
     | Alloc s => DecAlloc s
     end, a)
  | (Err e, a) => (DecErr e, a)
  | (Panic w, a) => (DecPanic w, a)
  | (Alloc s, a) => (DecAlloc s, a)
  end.

Definition benc_decode (b : list byte) : dec_result := (benc_decode_i b).1.

(** [unmarshalLocks] as it is now: validate, then let benc decode. *)
Definition decode_i (b : list byte) : dec_result * N :=
  match check_encoding_r b with
  | Ok _ => benc_decode_i b
  | Err e => (DecErr e, 0)
  | Panic w => (DecPanic w, 0)
  | Alloc s => (DecAlloc s, 0)
  end.

Definition decode (b : list byte) : dec_result := (decode_i b).1.

(** * The state file across rewrites — store.Write / store.Read

    [Write] writes the encoding to "<path>.tmp" (O_TRUNC), syncs, renames it over
    the state file and keeps the handle: the state file's content is replaced in
    one step. *)
Record fs : Type := Fs { state_file : list byte; tmp_file : option (list byte) }.

Inductive write_step : Type :=
| WOpenTrunc                   (* os.OpenFile(path+".tmp", O_RDWR|O_CREATE|O_TRUNC) *)
| WData (d : list byte)        (* tmp.Write(d); tmp.Sync() *)
| WRename.                     (* os.Rename(tmp, path) *)

Definition fs_step (f : fs) (s : write_step) : fs :=
  match s with
  | WOpenTrunc => Fs (state_file f) (Some [])
  | WData d => Fs (state_file f) (Some d)
  | WRename => match tmp_file f with
               | Some d => Fs d None
               | None => f
               end
  end.

Definition write_steps (es : entries) : list write_step :=
  [WOpenTrunc; WData (encode es); WRename].

(** [store.Write(m)], [m] iterated in the order [es] *)
Definition file_write (f : fs) (es : entries) : fs := foldl fs_step f (write_steps es).

(** a sequence of writes to one file *)
Definition file_writes (f : fs) (ws : list entries) : fs := foldl file_write f ws.

(** All the steps of a sequence of writes, one after the other: a process can be killed
    between any two of them (and inside [WData], see [Proofs/CodecP5.v]). *)
Definition all_steps (ws : list entries) : list write_step := concat (map write_steps ws).

(** [store.Read()]: an empty file reads as no locks ([nil, nil]); anything else goes
    through [unmarshalLocks]. *)
Definition file_read (f : fs) : dec_result :=
  match state_file f with
  | [] => DecOk ∅
  | b => decode b
  end.

(** A freshly created state file. *)
Definition fs_new : fs := Fs [] None.

(** * Well-formed inputs of [encode]: what every Go value satisfies *)

Definition wf_str (s : str) : Prop := blen s < 2 ^ 63.
Definition wf_lock (l : lock) : Prop :=
  wf_str l.1.1 ∧ wf_str l.1.2 ∧ (- 2 ^ 31 <= l.2 < 2 ^ 31)%Z.
(** a [[]cl.Lock] has at most [maxAlloc/40] elements *)
Definition wf_entry (e : str * list lock) : Prop :=
  wf_str e.1 ∧ N.of_nat (length e.2) <= max_slice_len ∧ Forall wf_lock e.2.
Definition wf (es : entries) : Prop :=
  NoDup es.*1 ∧ N.of_nat (length es) < 2 ^ 63 ∧ Forall wf_entry es.

(** A byte slice a Go process can hold such that the decoded locks fit too:
    [len(b)/6 <= maxAlloc/40] (42 TB; [maxAlloc] itself is 2^48). *)
Definition max_file_len : N := 6 * max_slice_len.
Definition go_bytes (b : list byte) : Prop := blen b <= max_file_len.
