(** * Shard — the sharded lock table of lock/manager.go next to the flat map of the models.

    The Go lock manager keeps its lock objects in [shards []*lockShard], each shard a
    [map[string]*ManagedLock]:

      NewManager   if shards == 0 { shards = 1 }; one empty map per shard              -> [nshards], [s_empty]
      getShard     m.shards[fnv32(name) % len(m.shards)]                               -> [shard_of]
      getLock      l, ok := shard.locks[name] ... shard.locks[name] = l                -> [s_lookup], [s_insert]
                   (an in-place update of a lock object, e.g. lastAccessed, is an
                    [s_insert] of the updated value under the same name)
      lockGc       for every shard: delete(shard.locks, v.Name) for collectable v      -> [s_filter] (keep = not collectable),
                                                                                          [s_delete] for one name
      Locks        for every shard (in index order): append the shard's entries        -> [s_to_list]

    Model/Seq.v ([st_locks : gmap str lockobj]) and Model/Lk.v ([l_map : gmap str nat])
    use ONE flat map instead. [flat] is the abstraction function from the sharded store
    to that flat map; Proofs/ShardP.v proves that it is a data refinement for EVERY hash
    function [h] and EVERY shard count [n0] (property C12: "... all other lock behaviour
    [is] identical for every number of shards").

    The hash is an arbitrary [h : str → nat] (fnv32 is one instance; nothing about it is
    used), the value type [V] is arbitrary (lockobj, nat, ...).

    Definitions only, all executable ([vm_compute]). *)
From Ldlm Require Import Model.Base.

(** ** The sharded store *)

(** One map per shard. (A notation, so that the list lemmas of std++ apply verbatim.) *)
Notation sstore V := (list (gmap str V)).

Section shard.
  Context {V : Type} (h : str → nat) (n0 : nat).

  (** NewManager: [if shards == 0 { shards = 1 }]. *)
  Definition nshards : nat := match n0 with 0 => 1 | _ => n0 end.

  (** getShard: [h.Sum32() % uint32(len(m.shards))]. *)
  Definition shard_of (k : str) : nat := h k mod nshards.

  Definition s_empty : sstore V := replicate nshards ∅.

  (** [shard.locks[name]]. The index is always in range on a well-formed store; out of
      range (impossible, see [wf]) reads as absent rather than as a Go panic — the
      refinement theorem is only stated for [wf] stores, which [s_empty] and every
      operation establish, so this totalisation is never exercised. *)
  Definition s_lookup (st : sstore V) (k : str) : option V :=
    st !! shard_of k ≫= (.!! k).

  (** [shard.locks[name] = l]. *)
  Definition s_insert (k : str) (v : V) (st : sstore V) : sstore V :=
    alter (<[k := v]>) (shard_of k) st.

  (** [delete(shard.locks, name)] in the name's shard. *)
  Definition s_delete (k : str) (st : sstore V) : sstore V :=
    alter (delete k) (shard_of k) st.

  (** The predicate on entries induced by a boolean test on name and value. *)
  Definition entry_pred (P : str → V → bool) : str * V → Prop := λ kv, P kv.1 kv.2.
  #[global] Instance entry_pred_dec P kv : Decision (entry_pred P kv).
  Proof. unfold entry_pred. apply _. Defined.

  (** lockGc: walk every shard, keep the entries satisfying [P]. *)
  Definition s_filter (P : str → V → bool) (st : sstore V) : sstore V :=
    filter (entry_pred P) <$> st.

  (** Locks(): the shards' entries, shard after shard. *)
  Definition s_to_list (st : sstore V) : list (str * V) :=
    mjoin (map_to_list <$> st).

  (** The abstraction function: the flat map the models use. *)
  Definition flat (st : sstore V) : gmap str V := ⋃ st.

  (** A name is stored only in its own shard, and there are exactly [nshards] shards. *)
  Definition wf (st : sstore V) : Prop :=
    length st = nshards ∧
    ∀ i m k v, st !! i = Some m → m !! k = Some v → shard_of k = i.
End shard.

(** ** Store programs: everything the lock manager does with its table *)

Inductive sop (V : Type) : Type :=
  | SLookup (k : str)
  | SInsert (k : str) (v : V)
  | SDelete (k : str)
  | SFilter (P : str → V → bool)
  | SList.
Arguments SLookup {V} k.
Arguments SInsert {V} k v.
Arguments SDelete {V} k.
Arguments SFilter {V} P.
Arguments SList {V}.

(** What a program lets the rest of the server see. *)
Inductive obs (V : Type) : Type :=
  | OFound (r : option V)              (* result of a lookup *)
  | OListing (l : list (str * V))      (* a listing, in the store's iteration order *)
  | ODone.                             (* a mutation: nothing returned *)
Arguments OFound {V} r.
Arguments OListing {V} l.
Arguments ODone {V}.

(** Observations agree up to the order of listings (Go map iteration order is
    unspecified anyway; the models and the harness compare listings as multisets). *)
Definition obs_equiv {V} (a b : obs V) : Prop :=
  match a, b with
  | OFound r, OFound r' => r = r'
  | OListing l, OListing l' => l ≡ₚ l'
  | ODone, ODone => True
  | _, _ => False
  end.

Definition obss_equiv {V} : relation (list (obs V)) := Forall2 obs_equiv.
Infix "≈" := obss_equiv (at level 70, no associativity) : stdpp_scope.

#[global] Instance obs_equiv_dec {V} `{!EqDecision V} : RelDecision (@obs_equiv V).
Proof. intros [?|?|] [?|?|]; simpl; apply _. Defined.
#[global] Instance obss_equiv_dec {V} `{!EqDecision V} : RelDecision (@obss_equiv V).
Proof. unfold obss_equiv. apply _. Defined.

(** A canonical form of observations that needs no order on [V]: a listing with
    distinct names is re-read through a [gmap], whose [map_to_list] depends on the
    contents only. With it the refinement is a plain equality. *)
Definition obs_canon {V} (a : obs V) : obs V :=
  match a with
  | OListing l => OListing (map_to_list (list_to_map (M := gmap str V) l))
  | _ => a
  end.

Section run.
  Context {V : Type}.

  Section sharded.
    Context (h : str → nat) (n0 : nat).

    Definition step_sharded (st : sstore V) (o : sop V) : sstore V * obs V :=
      match o with
      | SLookup k => (st, OFound (s_lookup h n0 st k))
      | SInsert k v => (s_insert h n0 k v st, ODone)
      | SDelete k => (s_delete h n0 k st, ODone)
      | SFilter P => (s_filter P st, ODone)
      | SList => (st, OListing (s_to_list st))
      end.

    Fixpoint exec_sharded (st : sstore V) (prog : list (sop V)) : list (obs V) * sstore V :=
      match prog with
      | [] => ([], st)
      | o :: prog =>
          let '(st', a) := step_sharded st o in
          let '(os, st'') := exec_sharded st' prog in
          (a :: os, st'')
      end.

    (** A program run on a freshly made manager with hash [h] and [n0] shards. *)
    Definition run_sharded (prog : list (sop V)) : list (obs V) :=
      (exec_sharded (s_empty n0) prog).1.
  End sharded.

  Definition step_flat (m : gmap str V) (o : sop V) : gmap str V * obs V :=
    match o with
    | SLookup k => (m, OFound (m !! k))
    | SInsert k v => (<[k := v]> m, ODone)
    | SDelete k => (delete k m, ODone)
    | SFilter P => (filter (entry_pred P) m, ODone)
    | SList => (m, OListing (map_to_list m))
    end.

  Fixpoint exec_flat (m : gmap str V) (prog : list (sop V)) : list (obs V) * gmap str V :=
    match prog with
    | [] => ([], m)
    | o :: prog =>
        let '(m', a) := step_flat m o in
        let '(os, m'') := exec_flat m' prog in
        (a :: os, m'')
    end.

  (** The same program on the flat map of Model/Seq.v and Model/Lk.v. *)
  Definition run_flat (prog : list (sop V)) : list (obs V) :=
    (exec_flat ∅ prog).1.
End run.
