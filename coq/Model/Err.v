(** Error values of the Go program: one constructor per Go error *variable* that can
    reach a caller of the lock server. Identity of the variable matters for the
    error-code tables (C14), so e.g. [ESrvDoesNotExistOrInvalidKey] (server package)
    and [ETimerDoesNotExist] (timermap package) are different constructors. *)
From Coq Require Import String.
From Ldlm Require Import Model.Base.

Inductive err : Set :=
| ESrvEmptyName                  (* server.ErrEmptyName *)
| ESrvLockWaitTimeout            (* server.ErrLockWaitTimeout *)
| ESrvDoesNotExistOrInvalidKey   (* server.ErrLockDoesNotExistOrInvalidKey *)
| ESrvSessionDoesNotExist        (* server.ErrSessionDoesNotExist *)
| ESrvInvalidLockTimeout         (* server.ErrInvalidLockTimeout *)
| ESrvInvalidWaitTimeout         (* server.ErrInvalidWaitTimeout *)
| ELockInvalidLockKey            (* lock.ErrInvalidLockKey *)
| ELockNotLocked                 (* lock.ErrLockNotLocked *)
| ELockDoesNotExist              (* lock.ErrLockDoesNotExist *)
| ELockManagerShutdown           (* lock.ErrManagerShutdown *)
| ELockSizeMismatch              (* lock.ErrLockSizeMismatch *)
| ELockInvalidLockSize           (* lock.ErrInvalidLockSize *)
| ETimerDoesNotExist             (* timermap.ErrTimerDoesNotExist *)
| ECtxCanceled                   (* context.Canceled *)
| ECtxDeadlineExceeded           (* context.DeadlineExceeded *)
| EOther.                        (* any other error value (errors.New(...)) *)

#[global] Instance err_eq_dec : EqDecision err.
Proof. solve_decision. Defined.

Definition all_errs : list err :=
  [ESrvEmptyName; ESrvLockWaitTimeout; ESrvDoesNotExistOrInvalidKey; ESrvSessionDoesNotExist;
   ESrvInvalidLockTimeout; ESrvInvalidWaitTimeout; ELockInvalidLockKey; ELockNotLocked;
   ELockDoesNotExist; ELockManagerShutdown; ELockSizeMismatch; ELockInvalidLockSize;
   ETimerDoesNotExist; ECtxCanceled; ECtxDeadlineExceeded; EOther].

(** The Go identifier of each error variable, as "<package>.<Var>", used by the
    translator (T3) and the harness to name error values. *)
Definition err_go_name (e : err) : string :=
  match e with
  | ESrvEmptyName => "server.ErrEmptyName"
  | ESrvLockWaitTimeout => "server.ErrLockWaitTimeout"
  | ESrvDoesNotExistOrInvalidKey => "server.ErrLockDoesNotExistOrInvalidKey"
  | ESrvSessionDoesNotExist => "server.ErrSessionDoesNotExist"
  | ESrvInvalidLockTimeout => "server.ErrInvalidLockTimeout"
  | ESrvInvalidWaitTimeout => "server.ErrInvalidWaitTimeout"
  | ELockInvalidLockKey => "lock.ErrInvalidLockKey"
  | ELockNotLocked => "lock.ErrLockNotLocked"
  | ELockDoesNotExist => "lock.ErrLockDoesNotExist"
  | ELockManagerShutdown => "lock.ErrManagerShutdown"
  | ELockSizeMismatch => "lock.ErrLockSizeMismatch"
  | ELockInvalidLockSize => "lock.ErrInvalidLockSize"
  | ETimerDoesNotExist => "timermap.ErrTimerDoesNotExist"
  | ECtxCanceled => "context.Canceled"
  | ECtxDeadlineExceeded => "context.DeadlineExceeded"
  | EOther => "other"
  end%string.
