(** * Booting on an arbitrary state file (definitions only; proofs in Proofs/SeqFileP.v)

    T1 as first built only ever restarted the server on files the server itself had just written at quiescence, so the
    branches of [Seq.restore_one] that REFUSE an entry (invalid size, size mismatch with an earlier entry of the same name,
    lock already full) were never compared with the real [server.New]. Such files are not exotic: a kill between the release
    of a hold and the bookkeeping of the release leaves one (recorded finding F-OVER: more entries of a lock than its size),
    and an operator can put back an older copy. Seeds C01d / C07c (an in-place filter in [RemoveLock] that shifts the slice
    [server.New] is ranging over) live exactly there.

    [file_state cfg m] is the state of a machine about to start a server process on a state file that decodes to [m];
    the boot itself is the model's [ERestart] from that state. The T1 harness writes [m] with the REAL store before the first
    boot (history field [init_file], trace line [F ...]) and the driver replays from [file_state].

    The trace oracle of Track.v follows holds from their grants and cannot judge holds that come out of a given file, so such
    histories are judged by (1) replay on Mseq ([replay_history_from]) and (2) the model-independent predicate
    [views_ok_b] on every probe: listing, state file and lock table show the same holds, and no lock shows more keys than its
    size (the C08 and C01 clauses that need no history). *)
From Ldlm Require Import Model.Base Model.Err Model.Seq Model.Track.
From RecordUpdate Require Import RecordSet.
Import RecordSetNotations.
Local Open Scope Z_scope.

Definition file_of_list (l : list (str * list clock)) : gmap str (list clock) := list_to_map l.

Definition file_state (cfg : config) (m : gmap str (list clock)) : sstate :=
  init_state cfg <| st_file := Some m |>.

(** the boot of a server on that file, session entries visited in [order] (Go's map order: any permutation) *)
Definition boot_on (cfg : config) (order : list str) (m : gmap str (list clock)) : list (sstate * list out) :=
  restart cfg order (file_state cfg m).

Definition replay_history_from (p : proj) (cfg : config) (f : list (str * list clock)) (h : list (event * list out)) :=
  replay p cfg [file_state cfg (file_of_list f)] h 0.

(** the (name, key) pairs a file lists, and well-formedness of a file the server could have left behind: every key occurs
    once (keys are uuids) *)
Definition file_keys (m : gmap str (list clock)) : list (str * str) :=
  flat_map (λ '(_, l), map (λ c, (cl_name c, cl_key c)) l) (map_to_list m).
Definition file_wf (m : gmap str (list clock)) : Prop := NoDup (file_keys m).

(** ** what one probe shows, judged without any history *)
Definition views_ok_b (file_on : bool) (outs : list out) : bool :=
  match outs with
  | [OListing l; OFile f; OTable t] =>
      perm_by eqb_dec l (table_holds t)
      && (negb file_on || match f with
                          | Some f => perm_by eqb_dec (map snd (file_pairs f)) l
                          | None => match l with [] => true | _ => false end
                          end)
      && forallb (λ '(_, (sz, ks, _)), (0 <? sz) && (Z.of_nat (length ks) <=? sz)) t
  | _ => false
  end.

(** first probe of an observed history that fails [views_ok_b] *)
Fixpoint views_failures (file_on : bool) (i : nat) (h : list (event * list out)) : list nat :=
  match h with
  | [] => []
  | (EProbe, outs) :: h' => (if views_ok_b file_on outs then [] else [i]) ++ views_failures file_on (S i) h'
  | _ :: h' => views_failures file_on (S i) h'
  end.
