(** * Mclient — the Go client's auto-renew machinery (client/client.go) over Mseq.

    Transcribed from /repo/client/client.go:
      Lock / TryLock              RPC, then maybeCreateRenewer(resp, T) when resp.Locked
      maybeCreateRenewer          [!Locked || noAutoRenew || T == 0 -> return]; newRenewer STARTS the goroutine,
                                  then renewMap.LoadOrStore(NAME, r); loaded -> panic "client out of sync"
      Unlock(name, key)           maybeRemoveRenewer(NAME) (LoadAndDelete + Stop), then the Unlock RPC
      Close                       Range over renewMap: Stop() each (entries stay in the map); conn.Close()
      renewer.Start               interval T (regenerated constants); loop { timer; select { stop | timer -> Renew; err -> panic } }
      renewer.Stop                select { case r.stop <- struct{}{}: <-r.stop; default: }   NON-blocking send on an
                                  unbuffered channel: received only if the goroutine is parked in the select;
                                  on a channel the goroutine has already closed it panics (send on closed channel)
      rpcWithRetry                retry only codes.Unavailable, at most maxRetries times, RetryDelaySeconds apart

    The server side is Mseq ([Seq.sstep]) in virtual time (ns). One client, session [csid]; a second session [xsid]
    only issues competing TryLocks (probes). The renew loop is split into its atomic steps: timer fired
    ([PInRenew _ None]: the goroutine has left the select and is about to send), Renew took effect on the server
    ([PInRenew _ (Some answer)]), answer received (loops: [PSleep], or panics). RPCs of the main goroutine and renew
    iterations nobody holds back take zero virtual time; latency is put in by [IHold] (the interposer of the
    harness keeps the next Renew of that hold in flight before / after the server) and ended by [IStep].

    Outside the model (run is marked, nothing is claimed): a client.Lock that has to wait ([cs_parked]); cancellation
    of the client's context; transport faults inside a schedule (the retry rule is the separate function
    [rpc_with_retry]). Panics are explicit outcomes ([cs_crashed]); a crashed process does nothing any more.

    Definitions only. Proofs: Proofs/Client*.v. *)
From Ldlm Require Import Model.Base Model.Err Model.Seq Gen.Consts.
From RecordUpdate Require Import RecordSet.
Import RecordSetNotations.
Local Open Scope Z_scope.

(** ** The renew interval (renewer.Start), over the constants regenerated from the source *)

Definition interval (T : Z) : Z :=
  if T <=? renew_threshold then client_MinRenewSeconds
  else Z.max (T - renew_subtract) client_MinRenewSeconds.

(** ** rpcWithRetry as a function of the transport outcomes of the successive calls of f *)

Inductive toutcome (A : Type) :=
| TOk (v : A)
| TUnavailable                (* status code Unavailable *)
| TOtherErr (code : Z).       (* any other error (any other status code, or not a status error) *)
Arguments TOk {A} v.
Arguments TUnavailable {A}.
Arguments TOtherErr {A} code.

(** [retries] is the loop variable of the Go function. Result: the outcome returned to the caller ([None]: the
    script of outcomes ran out before the loop ended), the number of calls of f, the sleeps (seconds) in order. *)
Fixpoint retry_loop {A} (maxr retries : Z) (outs : list (toutcome A)) : option (toutcome A) * nat * list Z :=
  match outs with
  | [] => (None, 0%nat, [])
  | o :: rest =>
      match o with
      | TUnavailable =>
          if maxr <=? retries then (Some o, 1%nat, [])
          else let '(r, c, s) := retry_loop maxr (retries + 1) rest in (r, S c, client_RetryDelaySeconds :: s)
      | _ => (Some o, 1%nat, [])
      end
  end.

Definition rpc_with_retry {A} (n : Z) (outs : list (toutcome A)) : option (toutcome A) * nat * list Z :=
  retry_loop n 0 outs.

(** ** Client state *)

Inductive stage := StPre | StPost | StBoth.    (* where the interposer keeps the next Renew RPC of a hold *)
#[global] Instance stage_eq_dec : EqDecision stage.
Proof. solve_decision. Defined.

(** what client.Renew returns to the renewer: nil, or an error (response error or transport error) *)
Inductive answer := AOk | AErr (e : option err).   (* [AErr None]: transport error (connection closed) *)

Inductive pc :=
| PSleep (until : Z)                       (* parked in the select; the timer fires at [until] *)
| PInRenew (fired : Z) (ans : option answer)   (* left the select at [fired]; [None]: Renew not yet at the server *)
| PExited.                                 (* received from stop, closed the channel, returned *)

Record renewer := Renewer {
  r_pc : pc;
  r_arm : option stage;        (* interposer: keep the next Renew RPC of this hold in flight *)
  r_eff : Z;                   (* ghost: instant of the grant / of the last Renew that succeeded at the server *)
  r_stopreq : bool             (* ghost: Stop() has been called on it *)
}.
#[global] Instance eta_renewer : Settable _ := settable! Renewer <r_pc; r_arm; r_eff; r_stopreq>.

(** one entry per Lock/TryLock call of the client, in call order; the index is the hold's identity *)
Record hold := Hold {
  h_name : str;
  h_key : str;
  h_T : Z;                     (* LockTimeoutSeconds as given (0: none) *)
  h_locked : bool;             (* Lock.Locked *)
  h_unl : bool;                (* ghost: Unlock has been called on it (set when the call returns, or when it begins if it is run in steps) *)
  h_ren : option renewer       (* the goroutine started for it by newRenewer *)
}.
#[global] Instance eta_hold : Settable _ := settable! Hold <h_name; h_key; h_T; h_locked; h_unl; h_ren>.

Inductive crash :=
| CrOutOfSync (j : nat)        (* maybeCreateRenewer: "client out of sync - lock already exists in renew map" *)
| CrRenewFailed (j : nat)      (* renewer goroutine: "error renewing lock ..." *)
| CrSendClosed (j : nat).      (* Stop() on a renewer whose goroutine has closed its channel *)
#[global] Instance crash_eq_dec : EqDecision crash.
Proof. solve_decision. Defined.

Inductive rpckind := KLock | KTryLock | KUnlock | KRenew.
#[global] Instance rpckind_eq_dec : EqDecision rpckind.
Proof. solve_decision. Defined.

(** the observable trace, in chronological order *)
Inductive tev :=
| TRpc (k : rpckind) (j : nat) (name key : str) (T : Z) (at_ : Z) (ok : bool) (e : option err)
                               (* the RPC of hold j took effect on the server at [at_]; ok = locked / unlocked *)
| TRpcFail (k : rpckind) (j : nat) (at_ : Z)    (* transport error: connection closed *)
| TUnlockCall (j : nat) (at_ : Z)               (* client.Unlock of hold j has begun (only recorded for an Unlock run in steps) *)
| TUnlockRet (j : nat) (at_ : Z)                (* client.Unlock of hold j has returned *)
| TCloseRet (at_ : Z)
| TCrash (c : crash) (at_ : Z)
| TParked (j : nat) (at_ : Z)
| TCompete (name : str) (granted : bool) (at_ : Z)
| TProbe (l : list (str * str)) (at_ : Z).      (* server listing: (name, key) *)

Record cstate := CState {
  cs_srv : sstate;
  cs_map : gmap str nat;       (* renewMap: lock NAME -> renewer (= index of the hold it was started for) *)
  cs_holds : list hold;
  cs_crashed : option crash;
  cs_closed : bool;
  cs_parked : bool;            (* the main goroutine is parked in a Lock call: out of the model's scope *)
  cs_ncomp : nat;              (* competitor calls so far (key supply) *)
  cs_trace : list tev
}.
#[global] Instance eta_cstate : Settable _ :=
  settable! CState <cs_srv; cs_map; cs_holds; cs_crashed; cs_closed; cs_parked; cs_ncomp; cs_trace>.

Record ccfg := CCfg { cc_noauto : bool; cc_maxretries : Z }.

(** ** The server under the client *)

Definition srv_cfg : config :=
  Config cfg_NoClearOnDisconnect false cfg_LockGcInterval_ns cfg_LockGcMinIdle_ns cfg_DefaultLockTimeout_ns.

Definition csid : str := [x63].    (* "c": the client's connection *)
Definition xsid : str := [x78].    (* "x": the competitor's connection *)

(** keys are drawn by the server (uuid); the model numbers them: hold j gets "k<j>", the competitor "x<n>" *)
Definition key_of (j : nat) : str := x6b :: itoa j.
Definition xkey_of (n : nat) : str := x78 :: itoa n.

(** one Mseq event; the first admissible outcome (several only differ in the order of same-instant expiries) *)
Definition srv_event (ev : event) (s : sstate) : sstate * list out :=
  match sstep srv_cfg s ev with x :: _ => x | [] => (s, []) end.

Definition srv_init : sstate :=
  fst (srv_event (EConnect xsid) (fst (srv_event (EConnect csid) (init_state srv_cfg)))).

Definition cinit : cstate := CState srv_init ∅ [] None false false 0%nat [].

Definition now (st : cstate) : Z := st_now (cs_srv st).
Definition emit (e : tev) (st : cstate) : cstate := st <| cs_trace := cs_trace st ++ [e] |>.
Definition do_crash (c : crash) (st : cstate) : cstate :=
  emit (TCrash c (now st)) (st <| cs_crashed := Some c |>).
Definition optpos (z : Z) : option Z := if 0 <? z then Some z else None.

Definition set_ren (j : nat) (f : renewer → renewer) (st : cstate) : cstate :=
  match cs_holds st !! j with
  | Some h => st <| cs_holds := <[j := h <| h_ren := f <$> h_ren h |>]> (cs_holds st) |>
  | None => st
  end.
Definition ren_of (st : cstate) (j : nat) : option renewer := cs_holds st !! j ≫= h_ren.

(** ** renewer.Stop() *)
Definition stop_renewer (j : nat) (st : cstate) : cstate :=
  match ren_of st j with
  | None => st
  | Some r =>
      match r_pc r with
      | PSleep _ => set_ren j (λ r, r <| r_pc := PExited |> <| r_stopreq := true |>) st   (* received; goroutine closes and returns *)
      | PInRenew _ _ => set_ren j (λ r, r <| r_stopreq := true |>) st                      (* default branch: dropped *)
      | PExited => do_crash (CrSendClosed j) st                                             (* send on closed channel *)
      end
  end.

(** ** Lock / TryLock *)
Definition acquire_event (blocking : bool) (j : nat) (name : str) (T size : Z) : event :=
  if blocking then ELock j (Some csid) name (optpos size) (optpos T) None (key_of j)
  else ETryLock (Some csid) name (optpos size) (optpos T) (key_of j).

Definition do_acquire (cc : ccfg) (blocking : bool) (name : str) (T size : Z) (st : cstate) : cstate :=
  let j := length (cs_holds st) in
  let k := if blocking then KLock else KTryLock in
  if cs_closed st then
    emit (TRpcFail k j (now st)) (st <| cs_holds := cs_holds st ++ [Hold name [] T false false None] |>)
  else
  let '(srv', outs) := srv_event (acquire_event blocking j name T size) (cs_srv st) in
  match outs with
  | OResp (RLock locked key e) :: _ =>
      let st1 := emit (TRpc k j name key T (now st) locked e) (st <| cs_srv := srv' |>) in
      if locked && negb (cc_noauto cc) && negb (T =? 0) then
        (* newRenewer: the goroutine is started, then LoadOrStore *)
        let r := Renewer (PSleep (now st + interval T * second)) None (now st) false in
        let st2 := st1 <| cs_holds := cs_holds st1 ++ [Hold name key T true false (Some r)] |> in
        match cs_map st !! name with
        | Some _ => do_crash (CrOutOfSync j) st2
        | None => st2 <| cs_map := <[name := j]> (cs_map st2) |>
        end
      else st1 <| cs_holds := cs_holds st1 ++ [Hold name key T locked false None] |>
  | _ => emit (TParked j (now st)) (st <| cs_parked := true |>)     (* RBlocked: the call waits; server state not advanced *)
  end.

(** ** Lock.Unlock() -> Client.Unlock(name, key) *)

(** maybeRemoveRenewer(name): LoadAndDelete + Stop *)
Definition unlock_stop (cc : ccfg) (name : str) (st : cstate) : cstate :=
  if cc_noauto cc then st else
  match cs_map st !! name with
  | Some i => stop_renewer i (st <| cs_map := delete name (cs_map st) |>)
  | None => st
  end.

(** the Unlock RPC takes effect on the server *)
Definition unlock_rpc (j : nat) (h : hold) (st1 : cstate) : cstate :=
  if cs_closed st1 then emit (TRpcFail KUnlock j (now st1)) st1
  else let '(srv', outs) := srv_event (EUnlock (Some csid) (h_name h) (h_key h)) (cs_srv st1) in
       match last outs with
       | Some (OResp (RUnlock u e)) =>
           emit (TRpc KUnlock j (h_name h) (h_key h) 0 (now st1) u e) (st1 <| cs_srv := srv' |>)
       | _ => st1 <| cs_srv := srv' |>
       end.

(** the ghost flag *)
Definition mark_unl (j : nat) (st2 : cstate) : cstate :=
  match cs_holds st2 !! j with
  | Some h2 => st2 <| cs_holds := <[j := h2 <| h_unl := true |>]> (cs_holds st2) |>
  | None => st2
  end.

(** the whole call at one instant *)
Definition do_unlock (cc : ccfg) (j : nat) (st : cstate) : cstate :=
  match cs_holds st !! j with
  | None => st
  | Some h =>
      if negb (h_locked h) then st else      (* Lock.Unlock: ErrLockNotLocked, nothing sent *)
      let st1 := unlock_stop cc (h_name h) st in
      match cs_crashed st1 with
      | Some _ => st1
      | None => let st3 := mark_unl j (unlock_rpc j h st1) in emit (TUnlockRet j (now st3)) st3
      end
  end.

(** the same call in its three steps, so that virtual time (and the renew loops) can move while the request or the
    reply is in flight, or while rpcWithRetry sleeps after an Unavailable first attempt: the renewer is stopped FIRST *)
Definition do_unlock_begin (cc : ccfg) (j : nat) (st : cstate) : cstate :=
  match cs_holds st !! j with
  | None => st
  | Some h =>
      if negb (h_locked h) then st else
      let st1 := unlock_stop cc (h_name h) (emit (TUnlockCall j (now st)) st) in
      match cs_crashed st1 with
      | Some _ => st1
      | None => mark_unl j st1
      end
  end.

Definition do_unlock_send (j : nat) (st : cstate) : cstate :=
  match cs_holds st !! j with
  | None => st
  | Some h => if negb (h_locked h) then st else unlock_rpc j h st
  end.

Definition do_unlock_end (j : nat) (st : cstate) : cstate :=
  match cs_holds st !! j with
  | None => st
  | Some h => if negb (h_locked h) then st else emit (TUnlockRet j (now st)) st
  end.

(** ** Close *)
Fixpoint stop_all (l : list nat) (st : cstate) : cstate :=
  match l with
  | [] => st
  | i :: l' => match cs_crashed st with Some _ => st | None => stop_all l' (stop_renewer i st) end
  end.

Definition do_close (st : cstate) : cstate :=
  let st1 := stop_all (map snd (map_to_list (cs_map st))) st in
  match cs_crashed st1 with
  | Some _ => st1
  | None => emit (TCloseRet (now st1)) (st1 <| cs_closed := true |>)
  end.

(** ** The renew loop, step by step *)

(** the Renew RPC takes effect on the server; the answer is now in flight *)
Definition ren_send (j : nat) (st : cstate) : cstate :=
  match cs_holds st !! j with
  | None => st
  | Some h =>
      match h_ren h with
      | Some r =>
          match r_pc r with
          | PInRenew u None =>
              if cs_closed st then
                emit (TRpcFail KRenew j (now st)) (set_ren j (λ r, r <| r_pc := PInRenew u (Some (AErr None)) |>) st)
              else
                let '(srv', outs) := srv_event (ERenew (h_name h) (h_key h) (h_T h)) (cs_srv st) in
                match outs with
                | OResp (RLock locked key e) :: _ =>
                    let a := match e with None => AOk | Some _ => AErr e end in
                    let st1 := set_ren j (λ r, r <| r_pc := PInRenew u (Some a) |>
                                                 <| r_eff := match e with None => now st | Some _ => r_eff r end |>)
                                       (st <| cs_srv := srv' |>) in
                    emit (TRpc KRenew j (h_name h) (h_key h) (h_T h) (now st) locked e) st1
                | _ => st
                end
          | _ => st
          end
      | None => st
      end
  end.

(** the answer reaches the goroutine: next iteration, or panic *)
Definition ren_recv (j : nat) (st : cstate) : cstate :=
  match cs_holds st !! j with
  | None => st
  | Some h =>
      match h_ren h with
      | Some r =>
          match r_pc r with
          | PInRenew u (Some AOk) => set_ren j (λ r, r <| r_pc := PSleep (now st + interval (h_T h) * second) |>) st
          | PInRenew u (Some (AErr _)) => do_crash (CrRenewFailed j) st
          | _ => st
          end
      | None => st
      end
  end.

Definition arm_of (st : cstate) (j : nat) : option stage := ren_of st j ≫= r_arm.
Definition set_arm (j : nat) (a : option stage) (st : cstate) : cstate := set_ren j (λ r, r <| r_arm := a |>) st.

(** send, then the answer unless the interposer keeps it *)
Definition ren_send_on (j : nat) (st : cstate) : cstate :=
  let st1 := ren_send j st in
  match arm_of st1 j with
  | Some StPost => set_arm j None st1
  | _ => ren_recv j st1
  end.

(** the timer of renewer j fires (current instant): the goroutine leaves the select *)
Definition ren_fire (j : nat) (st : cstate) : cstate :=
  let st0 := set_ren j (λ r, r <| r_pc := PInRenew (now st) None |>) st in
  match arm_of st0 j with
  | Some StPre => set_arm j None st0
  | Some StBoth => set_arm j (Some StPost) st0
  | _ => ren_send_on j st0
  end.

(** RenewerStep: the driver releases what the interposer keeps *)
Definition do_step (j : nat) (st : cstate) : cstate :=
  match ren_of st j with
  | Some r =>
      match r_pc r with
      | PInRenew _ None => ren_send_on j st
      | PInRenew _ (Some _) => ren_recv j st
      | _ => st
      end
  | None => st
  end.

(** ** Virtual time *)

Definition srv_advance_to (t : Z) (st : cstate) : cstate :=
  st <| cs_srv := fst (srv_event (EAdvance (t - now st)) (cs_srv st)) |>.

(** the sleeping renewer whose timer is due first (lowest index among equals) *)
Fixpoint next_fire_from (j : nat) (hs : list hold) : option (nat * Z) :=
  match hs with
  | [] => None
  | h :: hs' =>
      let rest := next_fire_from (S j) hs' in
      match h_ren h with
      | Some r =>
          match r_pc r with
          | PSleep u => match rest with
                        | Some (j', u') => if u' <? u then rest else Some (j, u)
                        | None => Some (j, u)
                        end
          | _ => rest
          end
      | None => rest
      end
  end.
Definition next_fire (st : cstate) : option (nat * Z) := next_fire_from 0 (cs_holds st).

(** time passes up to [target]: lease timers of the server and renewer timers fire in time order (a lease that is due
    at the same instant as a renewer timer fires first). Out of fuel: time stops where it is. *)
Fixpoint adv_loop (fuel : nat) (target : Z) (st : cstate) : cstate :=
  match cs_crashed st with
  | Some _ => st
  | None =>
      match fuel with
      | O => st
      | S fuel' =>
          match next_fire st with
          | Some (j, u) =>
              if u <=? target then adv_loop fuel' target (ren_fire j (srv_advance_to (Z.max u (now st)) st))
              else srv_advance_to target st
          | None => srv_advance_to target st
          end
      end
  end.

(** a renewer with interval i fires at most dt/i + 1 times in dt *)
Definition adv_fuel (dt : Z) (st : cstate) : nat :=
  fold_right (λ h n, (n + match h_ren h with
                          | Some _ => Z.to_nat (dt / (Z.max 1 (interval (h_T h)) * second)) + 2
                          | None => 0 end)%nat) 1%nat (cs_holds st).

Definition do_advance (dt : Z) (st : cstate) : cstate :=
  let dt := Z.max 0 dt in adv_loop (adv_fuel dt st) (now st + dt) st.

(** ** Probes *)

(** a TryLock of the same size from another connection, released at once if it is granted *)
Definition do_compete (name : str) (size : Z) (st : cstate) : cstate :=
  let k := xkey_of (cs_ncomp st) in
  let '(s1, outs) := srv_event (ETryLock (Some xsid) name (optpos size) None k) (cs_srv st) in
  let granted := match outs with OResp (RLock true _ _) :: _ => true | _ => false end in
  let s2 := if granted then fst (srv_event (EUnlock (Some xsid) name k) s1) else s1 in
  emit (TCompete name granted (now st)) (st <| cs_srv := s2 |> <| cs_ncomp := S (cs_ncomp st) |>).

Definition do_probe (st : cstate) : cstate :=
  emit (TProbe (map (λ c, (cl_name c, cl_key c)) (listing (cs_srv st))) (now st)) st.

(** ** Schedules *)

Inductive item :=
| ILock (name : str) (T size : Z)
| ITryLock (name : str) (T size : Z)
| IUnlock (j : nat)
| IUnlockBegin (j : nat)              (* Unlock in steps: maybeRemoveRenewer *)
| IUnlockSend (j : nat)               (*   the Unlock RPC reaches the server *)
| IUnlockEnd (j : nat)                (*   the reply is back: Unlock returns *)
| IClose
| IAdvance (dt : Z)                  (* ns *)
| IHold (j : nat) (s : stage)        (* interposer: keep the next Renew RPC of hold j in flight at s *)
| IStep (j : nat)                    (* RenewerStep: release renewer j by one atomic step *)
| ICompete (name : str) (size : Z)
| IProbe.

Definition is_main_call (it : item) : bool :=
  match it with
  | ILock _ _ _ | ITryLock _ _ _ | IUnlock _ | IUnlockBegin _ | IUnlockSend _ | IUnlockEnd _ | IClose => true
  | _ => false
  end.

Definition step (cc : ccfg) (st : cstate) (it : item) : cstate :=
  match cs_crashed st with
  | Some _ => st                                   (* the process is dead *)
  | None =>
      if cs_parked st && is_main_call it then st else
      match it with
      | ILock name T size => do_acquire cc true name T size st
      | ITryLock name T size => do_acquire cc false name T size st
      | IUnlock j => do_unlock cc j st
      | IUnlockBegin j => do_unlock_begin cc j st
      | IUnlockSend j => do_unlock_send j st
      | IUnlockEnd j => do_unlock_end j st
      | IClose => do_close st
      | IAdvance dt => do_advance dt st
      | IHold j s => set_arm j (Some s) st
      | IStep j => do_step j st
      | ICompete name size => do_compete name size st
      | IProbe => do_probe st
      end
  end.

Definition run_from (cc : ccfg) (st : cstate) (sched : list item) : cstate := fold_left (step cc) sched st.
Definition run (cc : ccfg) (sched : list item) : cstate := run_from cc cinit sched.

(** [p] holds of some (state before the item, item) along the run *)
Fixpoint any_pre (cc : ccfg) (p : cstate → item → bool) (st : cstate) (sched : list item) : bool :=
  match sched with
  | [] => false
  | it :: rest => p st it || any_pre cc p (step cc st it) rest
  end.

Definition active (st : cstate) : bool :=
  negb (bool_decide (cs_crashed st ≠ None)) && negb (cs_parked st).

(** ** The signatures of the two recorded findings, as predicates over the executed schedule *)

Definition in_renew (st : cstate) (i : nat) : bool :=
  match ren_of st i with
  | Some r => match r_pc r with PInRenew _ _ => true | _ => false end
  | None => false
  end.

(** F-STOPDROP "stop_while_renewer_in_rpc": an Unlock / Close calls Stop() on a renewer that has left the select
    (timer fired, Renew not yet answered) *)
Definition stopdrop_at (cc : ccfg) (st : cstate) (it : item) : bool :=
  active st && negb (cc_noauto cc) &&
  match it with
  | IUnlock j | IUnlockBegin j =>
      match cs_holds st !! j with
      | Some h => h_locked h && match cs_map st !! h_name h with Some i => in_renew st i | None => false end
      | None => false
      end
  | IClose => existsb (λ '(_, i), in_renew st i) (map_to_list (cs_map st))
  | _ => false
  end.
Definition excluded_stopdrop (cc : ccfg) (sched : list item) : bool := any_pre cc (stopdrop_at cc) cinit sched.

(** F-RENEWMAP "second_hold_same_name_autorenew": with auto-renew on, a Lock / TryLock is GRANTED on a name of which
    this client already has a granted hold it has not unlocked, and at least one of the two has a lock timeout (so a
    renewer, which renewMap files under the NAME) *)
Definition twin_of (name : str) (T : Z) (h : hold) : bool :=
  bool_decide (h_name h = name) && h_locked h && negb (h_unl h) && (negb (T =? 0) || negb (h_T h =? 0)).

Definition granted_by (cc : ccfg) (st : cstate) (it : item) : bool :=
  match cs_holds (step cc st it) !! length (cs_holds st) with
  | Some h => h_locked h
  | None => false
  end.

Definition renewmap_at (cc : ccfg) (st : cstate) (it : item) : bool :=
  active st && negb (cc_noauto cc) && negb (cs_closed st) &&
  match it with
  | ILock name T _ | ITryLock name T _ => granted_by cc st it && existsb (twin_of name T) (cs_holds st)
  | _ => false
  end.
Definition excluded_renewmap (cc : ccfg) (sched : list item) : bool := any_pre cc (renewmap_at cc) cinit sched.

(** ** Use of the API the property does not speak about: a call on a closed client, a second Unlock of one hold
    (and, for an Unlock run in steps, its steps out of order) *)
Definition misuse_at (st : cstate) (it : item) : bool :=
  (cs_closed st && is_main_call it) ||
  match it with
  | IUnlock j | IUnlockBegin j => match cs_holds st !! j with Some h => h_unl h | None => false end
  (* the later steps of an Unlock only after its first *)
  | IUnlockSend j | IUnlockEnd j => match cs_holds st !! j with Some h => negb (h_unl h) | None => true end
  | _ => false
  end.
Definition wf_sched (cc : ccfg) (sched : list item) : bool := negb (any_pre cc misuse_at cinit sched).

(** ** The latency hypothesis of C19_alive, per hold: virtual time is never advanced beyond the slack
    T - interval T while a Renew of the hold is in flight. The lag of a Renew is the time its predecessor's answer
    took plus the time it takes to reach the server. *)
Definition slack (T : Z) : Z := (T - interval T) * second.

(** [lag]: what the Renew in flight (or the next one, for a sleeping renewer the interposer is armed for) will have
    waited by [target]: the time its predecessor's answer took plus the time it takes to reach the server. *)
Definition advance_ok_ren (T : Z) (target : Z) (r : renewer) : bool :=
  match r_pc r with
  | PSleep u =>
      match r_arm r with
      | Some StPost => (target <? u) || (target - u <? slack T)          (* sent at u, answer kept until after target *)
      | Some _ => (target <? u) || (target - interval T * second - r_eff r <? slack T)
      | None => true
      end
  | PInRenew _ None => target - interval T * second - r_eff r <? slack T
  | PInRenew _ (Some _) => target - r_eff r <? slack T
  | PExited => true
  end.

Definition timely_at (j : nat) (st : cstate) (it : item) : bool :=
  match it with
  | IAdvance dt =>
      match cs_holds st !! j with
      | Some h => match h_ren h with
                  | Some r => advance_ok_ren (h_T h) (now st + Z.max 0 dt) r
                  | None => true
                  end
      | None => true
      end
  | _ => true
  end.
(** no advance along the run violates the bound for hold j *)
Definition timely (cc : ccfg) (j : nat) (sched : list item) : bool :=
  negb (any_pre cc (λ st it, negb (timely_at j st it)) cinit sched).

(** no IUnlock j and no IClose in the schedule *)
Definition keeps (j : nat) (sched : list item) : bool :=
  forallb (λ it, match it with
                 | IUnlock i | IUnlockBegin i | IUnlockSend i | IUnlockEnd i => negb (i =? j)%nat
                 | IClose => false | _ => true end) sched.

(** ** Trace predicates *)

Definition crash_by (c : crash) : nat := match c with CrOutOfSync j | CrRenewFailed j | CrSendClosed j => j end.

(** C19_stop for hold j: after TUnlockRet j — and, for an Unlock run in steps, already after TUnlockCall j, i.e. during
    the whole call — no Renew of hold j takes effect and no panic of j's renewer *)
Definition stop_auto (j : nat) (acc : bool * bool) (e : tev) : bool * bool :=
  let '(seen, ok) := acc in
  match e with
  | TUnlockCall i _ | TUnlockRet i _ => (seen || (i =? j)%nat, ok)
  | TRpc KRenew i _ _ _ _ _ _ | TRpcFail KRenew i _ => (seen, ok && negb (seen && (i =? j)%nat))
  | TCrash c _ => (seen, ok && negb (seen && (crash_by c =? j)%nat))
  | _ => (seen, ok)
  end.
Definition p_stop (j : nat) (tr : list tev) : bool := snd (fold_left (stop_auto j) tr (false, true)).

Definition no_crash (tr : list tev) : bool := forallb (λ e, match e with TCrash _ _ => false | _ => true end) tr.

(** every Renew in the trace succeeded *)
Definition renews_ok (tr : list tev) : bool :=
  forallb (λ e, match e with TRpc KRenew _ _ _ _ _ ok _ => ok | TRpcFail KRenew _ _ => false | _ => true end) tr.

(** the hold is still on the server: its lease timer is armed with a deadline in the future *)
Definition lease_ok (st : cstate) (j : nat) : bool :=
  match cs_holds st !! j with
  | Some h =>
      match st_timers (cs_srv st) !! tkey (h_name h) (h_key h) with
      | Some t => now st <? tm_deadline t
      | None => false
      end
  | None => false
  end.

Definition held (st : cstate) (j : nat) : bool :=
  match cs_holds st !! j with
  | Some h =>
      match st_locks (cs_srv st) !! h_name h with
      | Some o => bool_decide (h_key h ∈ lo_keys o)
      | None => false
      end
  | None => false
  end.
