(** * Trace predicates for Mlk (layer 1 of Mconc): C01 / C02 / C03 as EXECUTABLE predicates over the OBSERVABLE history.

    A history [h : list lev] is read OLDEST FIRST and only through its invocations [EvInv tid op] and responses
    [EvRes tid r], in real-time order (ghost events are filtered away by [obsh] before anything else happens). The same
    functions are (a) proved to hold of every reachable trace of the model (Proofs/LkTraceP.v), (b) extracted
    (Extract/LkExtract.v) and evaluated by [lkdriver trace] on the call/return histories the T2 harness observed on the
    REAL lock.Manager, next to the Python oracles of lib/schedtie.py.

    Every predicate has the form "at every prefix of the history, [q_at prefix]" ([all_prefixes]); [first_bad] returns the
    length of the shortest offending prefix (what the driver prints). Definitions only. *)
From Ldlm Require Import Model.Base Model.Err Model.Lk.
Local Open Scope Z_scope.

(** the successful answer of TryLock / Lock / Unlock *)
Definition ok_res : lres := LRes true None.
(** TryLock and Lock are acquisitions (= [is_acq] of Proofs/LkDefs.v) *)
Definition acq_op (o : lop) : bool := match o with OUnl _ _ => false | _ => true end.

Definition observable (e : lev) : bool := match e with EvInv _ _ | EvRes _ _ => true | _ => false end.
Definition obsh (h : list lev) : list lev := filter (λ e, observable e = true) h.

Definition h_invs (h : list lev) : list (nat * lop) :=
  omap (λ e, match e with EvInv t o => Some (t, o) | _ => None end) h.
Definition h_ress (h : list lev) : list (nat * lres) :=
  omap (λ e, match e with EvRes t r => Some (t, r) | _ => None end) h.

(** call [t] has answered [r] *)
Definition answered (h : list lev) (t : nat) (r : lres) : bool := bool_decide ((t, r) ∈ h_ress h).
(** an Unlock of (name, key) has been invoked *)
Definition unl_invoked (h : list lev) (n k : str) : bool := bool_decide (OUnl n k ∈ (h_invs h).*2).

(** ** Quantification over the prefixes *)
Definition all_prefixes (Q : list lev → bool) (h : list lev) : bool :=
  forallb (λ n, Q (take n h)) (seq 0 (S (length h))).
Definition first_bad (Q : list lev → bool) (h : list lev) : option nat :=
  find (λ n, negb (Q (take n h))) (seq 0 (S (length h))).

(** ** Well-formedness: no thread id is invoked twice or answers twice; every response belongs to an invocation of that
    thread id which lies EARLIER (the condition holds at the prefix that ends with the response) *)
Definition wf_at (h : list lev) : bool :=
  bool_decide (NoDup (h_invs h).*1) && bool_decide (NoDup (h_ress h).*1) &&
  forallb (λ t, bool_decide (t ∈ (h_invs h).*1)) (h_ress h).*1.
Definition p_wellformed (h : list lev) : bool := all_prefixes wf_at (obsh h).

(** ** The model's assumption about keys (uuid.NewString, [item_ok] of Proofs/LkDefs.v) as a predicate on the history:
    the key of an acquisition occurs in no earlier call, and an Unlock presents a key only after every acquisition call
    that drew it has answered. [fresh_ev pre e]: the condition on event [e] given the events [pre] before it. A real
    history that does not satisfy it is outside what the theorems speak about. *)
Definition fresh_ev (pre : list lev) (e : lev) : bool :=
  match e with
  | EvInv _ o =>
      if acq_op o then negb (bool_decide (op_key o ∈ map (λ x, op_key x.2) (h_invs pre)))
      else forallb (λ x, negb (acq_op x.2 && bool_decide (op_key x.2 = op_key o)) || bool_decide (x.1 ∈ (h_ress pre).*1))
                   (h_invs pre)
  | _ => true
  end.
Definition fresh_at (h : list lev) : bool :=
  match rev h with e :: pre => fresh_ev (rev pre) e | [] => true end.
Definition p_fresh (h : list lev) : bool := all_prefixes fresh_at (obsh h).

(** ** C01 — capacity.
    A hold of lock [n] is LIVE in [h] when its acquisition call [OTry|OLock n k z] has answered [ok_res] and no
    [Unlock n k] has been INVOKED yet (an Unlock takes effect somewhere between its invocation and its response, so the
    hold stops counting at the invocation). At every prefix, for every live hold, the number of live holds of its name
    is at most the size [z] that this hold's own request named.

    Why each request's own size: it is the only size a client can see. The model shows ([x_size] in Proofs/LkTraceP.v)
    that the object which carries the key of a granted request has exactly the size the request named, and all live holds
    of a name sit in the one object mapped under that name; so all live holds of a name name the same size, and the
    comparison with each one's own size is the strongest reading (it implies the one with the minimum, which the Python
    oracle uses, and the one with the most recent grant). After the object was collected and created again with another
    size the old holds are gone, so nothing stale is compared. *)
Definition live_holds (h : list lev) : list (nat * lop) :=
  filter (λ x, (acq_op x.2 && answered h x.1 ok_res && negb (unl_invoked h (op_name x.2) (op_key x.2))) = true) (h_invs h).
Definition holds_of (n : str) (l : list (nat * lop)) : list (nat * lop) := filter (λ x, op_name x.2 = n) l.
Definition c01_at (h : list lev) : bool :=
  forallb (λ x, Z.of_nat (length (holds_of (op_name x.2) (live_holds h))) <=? op_size x.2) (live_holds h).
Definition p_c01 (h : list lev) : bool := all_prefixes c01_at (obsh h).

(** ** C02 — each granted key is unlocked successfully at most once, and only a granted key unlocks *)
(** the Unlock calls that have answered [ok_res] *)
Definition succ_unl (h : list lev) : list (nat * lop) :=
  filter (λ x, (negb (acq_op x.2) && answered h x.1 ok_res) = true) (h_invs h).
(** an acquisition of (name, key) has answered [ok_res] *)
Definition granted_acq (h : list lev) (n k : str) : bool :=
  existsb (λ x, acq_op x.2 && bool_decide (op_name x.2 = n) && bool_decide (op_key x.2 = k) && answered h x.1 ok_res) (h_invs h).
Definition once_at (h : list lev) : bool :=
  forallb (λ x, (length (filter (λ y, y.2 = x.2) (succ_unl h)) <=? 1)%nat && granted_acq h (op_name x.2) (op_key x.2))
          (succ_unl h).
Definition p_c02_once (h : list lev) : bool := all_prefixes once_at (obsh h).

(** ** C02 / C03 — a call that failed or was refused consumed nothing: the key of an acquisition that answered anything
    but [ok_res] never unlocks successfully (observable part of "holds no unit"; the rest is C02_conservation /
    C03_giveup_final on the state) *)
Definition unl_succeeded (h : list lev) (n k : str) : bool := bool_decide (OUnl n k ∈ (succ_unl h).*2).
Definition failed_acq (h : list lev) : list (nat * lop) :=
  filter (λ x, (acq_op x.2 && existsb (λ y, bool_decide (y.1 = x.1) && negb (bool_decide (y.2 = ok_res))) (h_ress h)) = true)
         (h_invs h).
Definition fail_at (h : list lev) : bool :=
  forallb (λ x, negb (unl_succeeded h (op_name x.2) (op_key x.2))) (failed_acq h).
Definition p_c02_fail_consumes_nothing (h : list lev) : bool := all_prefixes fail_at (obsh h).

(** C03: a Lock call that answered with an error (gave up: context ended / wait timeout / any failure) answers exactly
    once — it is never granted afterwards — and its key never unlocks *)
Definition gaveup (h : list lev) : list (nat * lop) :=
  filter (λ x, (match x.2 with OLock _ _ _ => true | _ => false end &&
                existsb (λ y, bool_decide (y.1 = x.1) && bool_decide (r_err y.2 ≠ None)) (h_ress h)) = true) (h_invs h).
Definition giveup_at (h : list lev) : bool :=
  forallb (λ x, (length (filter (λ y, y.1 = x.1) (h_ress h)) =? 1)%nat && negb (unl_succeeded h (op_name x.2) (op_key x.2)))
          (gaveup h).
Definition p_c03_giveup (h : list lev) : bool := all_prefixes giveup_at (obsh h).

(** ** What the driver evaluates: position of the first offending prefix per predicate (None = holds) *)
Definition lk_trace_verdict (h : list lev) : list (option nat) :=
  let o := obsh h in
  [first_bad fresh_at o; first_bad wf_at o; first_bad c01_at o; first_bad once_at o; first_bad fail_at o; first_bad giveup_at o].
