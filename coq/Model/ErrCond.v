(** C14 — the six error conditions of the property and the response path
    lock server -> gRPC Service method -> (wire) -> Go client, as functions.

    Definitions only. They do not mention the generated tables (Gen/ErrTables.v):
    the response model is polymorphic in the code type and in the two mappers, and
    is instantiated with the tables of the CURRENT source tree in Proofs/GenChecks.v. *)
From Coq Require Import String.
From Ldlm Require Import Model.Base Model.Err.

(** * The conditions *)

Inductive cond : Set :=
| CLockDoesNotExist                (* Unlock of a name the lock manager does not know *)
| CInvalidKey                      (* Unlock of a known name with a key that does not hold it *)
| CWaitTimeout                     (* Lock whose wait timeout ends before a unit is free *)
| CRenewDoesNotExistOrInvalidKey   (* Renew of a (name, key) pair that has no lease timer *)
| CSizeMismatch                    (* Lock / TryLock of a known name with another size *)
| CInvalidSize.                    (* Lock / TryLock with size <= 0 *)

#[global] Instance cond_eq_dec : EqDecision cond.
Proof. solve_decision. Defined.

Definition all_conds : list cond :=
  [CLockDoesNotExist; CInvalidKey; CWaitTimeout; CRenewDoesNotExistOrInvalidKey; CSizeMismatch; CInvalidSize].

Definition cond_name (c : cond) : string :=
  match c with
  | CLockDoesNotExist => "CLockDoesNotExist"
  | CInvalidKey => "CInvalidKey"
  | CWaitTimeout => "CWaitTimeout"
  | CRenewDoesNotExistOrInvalidKey => "CRenewDoesNotExistOrInvalidKey"
  | CSizeMismatch => "CSizeMismatch"
  | CInvalidSize => "CInvalidSize"
  end%string.

(** The Go error VARIABLE the lock server (server/server.go) returns in the condition.
      Unlock, unknown name   lock/manager.go getLock(create=false)         lock.ErrLockDoesNotExist
      Unlock, wrong key      lock/lock.go Unlock: removeKey fails          lock.ErrInvalidLockKey
      Lock, wait timeout     server.go Lock: WithTimeoutCause(.., ErrLockWaitTimeout); lock.go Lock returns
                             context.Cause(lockCtx)                        server.ErrLockWaitTimeout
      Renew, no timer        server.go Renew rewrites timermap.ErrTimerDoesNotExist to
                                                                           server.ErrLockDoesNotExistOrInvalidKey
      other size             lock/manager.go getLock(create=true)          lock.ErrLockSizeMismatch
      size <= 0              lock/manager.go getLock                       lock.ErrInvalidLockSize
    Tied to the code by the harness (transport "direct": identity of the value returned by the real LockServer). *)
Definition cond_err (c : cond) : err :=
  match c with
  | CLockDoesNotExist => ELockDoesNotExist
  | CInvalidKey => ELockInvalidLockKey
  | CWaitTimeout => ESrvLockWaitTimeout
  | CRenewDoesNotExistOrInvalidKey => ESrvDoesNotExistOrInvalidKey
  | CSizeMismatch => ELockSizeMismatch
  | CInvalidSize => ELockInvalidLockSize
  end.

(** "Its own code": the name of the ErrorCode enum value of the condition. *)
Definition cond_code_name (c : cond) : string :=
  match c with
  | CLockDoesNotExist => "LockDoesNotExist"
  | CInvalidKey => "InvalidLockKey"
  | CWaitTimeout => "LockWaitTimeout"
  | CRenewDoesNotExistOrInvalidKey => "LockDoesNotExistOrInvalidKey"
  | CSizeMismatch => "LockSizeMismatch"
  | CInvalidSize => "InvalidLockSize"
  end%string.

(** "The matching exported error value": the exported variable of package client of the same name ... *)
Definition cond_client_var (c : cond) : string :=
  match c with
  | CLockDoesNotExist => "ErrLockDoesNotExist"
  | CInvalidKey => "ErrInvalidLockKey"
  | CWaitTimeout => "ErrLockWaitTimeout"
  | CRenewDoesNotExistOrInvalidKey => "ErrLockDoesNotExistOrInvalidKey"
  | CSizeMismatch => "ErrLockSizeMismatch"
  | CInvalidSize => "ErrInvalidLockSize"
  end%string.

(** ... and the value that variable has to hold: client re-exports ("re-namespaces") the variables of
    packages lock and server, so the value is the server-side variable of the same name.
    Written out case by case on purpose (not [:= cond_err]). *)
Definition cond_client_err (c : cond) : err :=
  match c with
  | CLockDoesNotExist => ELockDoesNotExist                       (* client.ErrLockDoesNotExist = lock.ErrLockDoesNotExist *)
  | CInvalidKey => ELockInvalidLockKey                           (* client.ErrInvalidLockKey = lock.ErrInvalidLockKey *)
  | CWaitTimeout => ESrvLockWaitTimeout                          (* client.ErrLockWaitTimeout = server.ErrLockWaitTimeout *)
  | CRenewDoesNotExistOrInvalidKey => ESrvDoesNotExistOrInvalidKey
  | CSizeMismatch => ELockSizeMismatch
  | CInvalidSize => ELockInvalidLockSize
  end.

(** The RPCs in which the lock server can answer with the condition. *)
Inductive rpc : Set := RLock | RTryLock | RUnlock | RRenew.

#[global] Instance rpc_eq_dec : EqDecision rpc.
Proof. solve_decision. Defined.

Definition all_rpcs : list rpc := [RLock; RTryLock; RUnlock; RRenew].

Definition rpc_name (r : rpc) : string :=
  match r with RLock => "Lock" | RTryLock => "TryLock" | RUnlock => "Unlock" | RRenew => "Renew" end%string.

Definition cond_rpcs (c : cond) : list rpc :=
  match c with
  | CLockDoesNotExist => [RUnlock]
  | CInvalidKey => [RUnlock]
  | CWaitTimeout => [RLock]
  | CRenewDoesNotExistOrInvalidKey => [RRenew]
  | CSizeMismatch => [RLock; RTryLock]
  | CInvalidSize => [RLock; RTryLock]
  end.

(** One row per condition, for the harness: (condition, server variable, own code, client variable). *)
Definition c14_expect : list (string * string * string * string) :=
  map (fun c => (cond_name c, err_go_name (cond_err c), cond_code_name c, cond_client_var c)) all_conds.

(** * What a LockServer entry point returns (server/server.go) *)

(** Lock, TryLock and Renew return a pointer to server.Lock and an error: the pointer may be nil (the early
    [return nil, ErrX] exits), otherwise its [Locked] field is what matters here.
    Unlock returns [(bool, error)]. [None] in the error position is Go's nil. *)
Inductive srv_ret : Set :=
| RetLock (lk : option bool) (e : option err)
| RetUnlock (unlocked : bool) (e : option err).

(** net/grpc/grpc.go, Service.Lock/TryLock/Renew: [if lk == nil { lk = new(server.Lock) }] then
    [Locked: lk.Locked]; Service.Unlock: [Unlocked: unlocked]. *)
Definition ret_flag (r : srv_ret) : bool :=
  match r with
  | RetLock None _ => false
  | RetLock (Some b) _ => b
  | RetUnlock b _ => b
  end.

Definition ret_err (r : srv_ret) : option err :=
  match r with RetLock _ e => e | RetUnlock _ e => e end.

(** ASSUMPTION about server/server.go (discharged later from the sequential model of the server,
    until then tied to the code only by the harness, which checks it on every answer of the real
    LockServer): an entry point never reports locked / unlocked together with an error. *)
Definition srv_result_ok (locked : bool) (e : option err) : Prop := e <> None -> locked = false.

Definition srv_ret_ok (r : srv_ret) : Prop := srv_result_ok (ret_flag r) (ret_err r).

Definition srv_ret_okb (r : srv_ret) : bool :=
  match ret_err r with None => true | Some _ => negb (ret_flag r) end.

(** * The response message and what the Go client makes of it *)

Section Resp.
  Context {code : Type}.
  Variable srv : err -> code.              (* the server-side mapper's table *)
  Variable cli : code -> option err.       (* the client-side mapper's table; None = anonymous error *)

  (** pb.LockResponse / pb.UnlockResponse projected on what C14 reads: the locked / unlocked
      field and the optional Error's code. *)
  Record resp : Type := Resp { r_flag : bool; r_error : option code }.

  (** The Service methods: [Locked/Unlocked] from the server's answer, [Error: mapper(err)] where
      the mapper answers nil for nil and [&pb.Error{Code: table(err)}] otherwise. The REST gateway is
      registered in process (pb.RegisterLDLMHandlerServer) and calls these same methods, so this is also
      the message a REST request is answered with (rendered by protojson: the code as its enum name). *)
  Definition grpc_resp (r : srv_ret) : resp :=
    {| r_flag := ret_flag r; r_error := option_map srv (ret_err r) |}.

  (** What client.Client's Lock/TryLock/Renew/Unlock return: (Locked / unlocked, error) with
      error = nil for a message without Error, else the mapper's value. *)
  Inductive client_error : Type :=
  | CENil                      (* nil *)
  | CEAnonymous                (* errors.New(message) / fmt.Errorf(..): equal to no exported variable *)
  | CEValue (e : err).         (* an exported variable of package client holding this value *)

  Definition client_ret (p : resp) : bool * client_error :=
    (r_flag p,
     match r_error p with
     | None => CENil
     | Some c => match cli c with Some e => CEValue e | None => CEAnonymous end
     end).

  Definition end_to_end (r : srv_ret) : bool * client_error := client_ret (grpc_resp r).
End Resp.

Arguments Resp {code}.
Arguments r_flag {code}.
Arguments r_error {code}.
