(** Common vocabulary of the ldlm models: byte strings, small helpers.
    Definitions only; proofs about them live in Proofs/BaseP.v. *)
From Coq Require Export ZArith List Bool.
From Coq.Strings Require Export Byte.
From stdpp Require Export base decidable countable list gmap.
Export ListNotations.

(** Strings of the Go program (lock names, keys, session ids, timer keys, file
    contents) are byte lists. *)
Definition str := list byte.

#[global] Instance byte_eq_dec : EqDecision byte := Byte.byte_eq_dec.

#[global] Instance byte_countable : Countable byte :=
  inj_countable Byte.to_N Byte.of_N Byte.of_to_N.

Definition str_eqb (a b : str) : bool := bool_decide (a = b).

(** ASCII helpers used by the timer-key and listing renderers. *)
Definition byte_of_nat (n : nat) : byte :=
  match Byte.of_N (N.of_nat n) with Some b => b | None => x00 end.
