(** * Mlk — the lock package as a concurrent object (layer 1 of Mconc).

    A fine-grained interleaving model of [lock.Manager] (lock/manager.go), [lock.Lock]
    (lock/lock.go) and [semaphore.Weighted] (golang.org/x/sync v0.19.0). One [IRun tid] item
    executes ONE critical section (or one internally synchronised operation) of the call that
    thread [tid] is executing; schedules are arbitrary lists of items, so every interleaving of
    critical sections is a run of the model.

    pc labels and the code they stand for (the T2 harness puts a yield point before each):

      PEnter      Manager.Lock/TryLock/Unlock: shutdownMtx.RLock(); if m.isShutdown -> ErrManagerShutdown
      PGet        getLock under shard.Lock (create) / shard.RLock: size check, lookup, size compare,
                  lastAccessed := now, users++ ; or creation of the object
      PChkDel     the racy read  `if l.deleted { panic }`
      PTryAcq     Lock.TryLock: semaphore TryAcquire (Weighted.mu)
      PAcqEnter   semaphore Acquire, first critical section (ctx done? fast path : enqueue)
      PAcqWait    blocked in  select { <-done, <-ready }
      PAcqWoken   case <-ready: re-check of done
      PAcqCancel  case <-done: second critical section (handed meanwhile -> give back; else dequeue)
      PRelCancel  the Release(n) of a call that was handed a unit after its context ended
      PAddKey     Lock.addKey under keyMtx
      PUnlChk     Manager.Unlock: `deleted` check under keyMtx
      PUnlRem     Lock.Unlock: keyMtx { removeKey; Release+notifyWaiters }
      PDone       deferred l.done() (users--), deferred RUnlock, return
      PFin        the call has returned

    The manager context (mgrCtx) is cancelled only by shutdown(), which holds shutdownMtx exclusively,
    i.e. while no call is between PEnter and PFin; its checks inside the calls are therefore dead
    and are not modelled ([IShutdown] is disabled while a call is in flight).

    Besides the concrete state the model appends to a trace: invocations, responses, and GHOST
    linearisation actions [EvLin] (never read by the step function) against which C02 is stated.
    Definitions only. *)
From Ldlm Require Import Model.Base Model.Err.
From RecordUpdate Require Import RecordSet.
Import RecordSetNotations.
Local Open Scope Z_scope.

(** ** Calls, results *)
Inductive lop :=
| OTry (name key : str) (size : Z)
| OLock (name key : str) (size : Z)
| OUnl (name key : str).

(** (locked|unlocked, error) as the Manager methods return them (Lock: locked = (err == nil)) *)
Record lres := LRes { r_ok : bool; r_err : option err }.
#[global] Instance lres_eq_dec : EqDecision lres.
Proof. solve_decision. Defined.
#[global] Instance lop_eq_dec : EqDecision lop.
Proof. solve_decision. Defined.

Definition op_name (o : lop) : str := match o with OTry n _ _ | OLock n _ _ | OUnl n _ => n end.
Definition op_key (o : lop) : str := match o with OTry _ k _ | OLock _ k _ | OUnl _ k => k end.
Definition op_size (o : lop) : Z := match o with OTry _ _ z | OLock _ _ z => z | OUnl _ _ => 1 end.

Inductive lpc :=
| PEnter | PGet
| PChkDel (oid : nat) | PTryAcq (oid : nat)
| PAcqEnter (oid : nat) | PAcqWait (oid : nat) | PAcqWoken (oid : nat) | PAcqCancel (oid : nat) | PRelCancel (oid : nat)
| PAddKey (oid : nat)
| PUnlChk (oid : nat) | PUnlRem (oid : nat)
| PDone (oid : nat) (r : lres)
| PFin (r : lres).
#[global] Instance lpc_eq_dec : EqDecision lpc.
Proof. solve_decision. Defined.

Record thread := Thread { t_op : lop; t_pc : lpc; t_cancel : option err }.
#[global] Instance eta_thread : Settable _ := settable! Thread <t_op; t_pc; t_cancel>.

(** a lock object: ManagedLock + Lock + Weighted *)
Record lobj := LObj {
  o_name : str; o_size : Z;
  o_keys : list str;          (* Lock.keys *)
  o_cur : Z;                  (* Weighted.cur *)
  o_waitq : list nat;         (* Weighted.waiters, FIFO, by thread id *)
  o_ready : list nat;         (* threads whose ready channel was closed (handed a unit) and who have not taken note yet *)
  o_last : Z;                 (* lastAccessed *)
  o_deleted : bool;
  o_users : Z
}.
#[global] Instance eta_lobj : Settable _ :=
  settable! LObj <o_name; o_size; o_keys; o_cur; o_waitq; o_ready; o_last; o_deleted; o_users>.

(** ** Ghost: the atomic counting-lock specification the calls are linearised against (C02) *)
Inductive linact :=
| LaCreate (name : str) (size : Z)                 (* system: an empty lock object comes into being *)
| LaGc (name : str)                                (* system: an empty, unused lock object disappears *)
| LaErr (tid : nat) (e : err)                      (* the call fails without effect *)
| LaTryOk (tid : nat) (name key : str)             (* TryLock / Lock acquires at once *)
| LaTryBusy (tid : nat) (name : str)               (* TryLock refused *)
| LaEnq (tid : nat) (name : str)                   (* Lock joins the queue *)
| LaGrant (tid : nat) (name key : str)             (* the head of the queue is given the freed unit (by the releaser) *)
| LaLeave (tid : nat) (name : str) (e : err)       (* a queued Lock gives up *)
| LaGiveBack (tid : nat) (name key : str) (e : err)(* a Lock that was granted after its context ended returns the unit (F-LIN2) *)
| LaUnlOk (tid : nat) (name key : str)
| LaUnlBad (tid : nat) (name key : str).           (* ErrInvalidLockKey *)

Inductive lev :=
| EvInv (tid : nat) (op : lop)
| EvRes (tid : nat) (r : lres)
| EvLin (a : linact)
| EvPanic (tid : nat)
| EvShutdown.

Record lstate := LState {
  l_heap : gmap nat lobj;
  l_map : gmap str nat;          (* all shards together: name -> object (see Proofs: the shard of a name is a function of the name) *)
  l_next : nat;
  l_shut : bool;                 (* Manager.isShutdown *)
  l_now : Z;
  l_thr : gmap nat thread;
  l_crashed : bool;              (* a request goroutine panicked: the process is gone *)
  l_trace : list lev             (* newest first *)
}.
#[global] Instance eta_lstate : Settable _ :=
  settable! LState <l_heap; l_map; l_next; l_shut; l_now; l_thr; l_crashed; l_trace>.

Definition l_init : lstate := LState ∅ ∅ 0%nat false 0 ∅ false [].

Inductive item :=
| ICall (tid : nat) (op : lop)
| IRun (tid : nat)
| IRunCancel (tid : nat)          (* at PAcqWait with both arms possible: take  case <-done  *)
| ICancel (tid : nat) (cause : err)   (* the call's context ends (client went away: ECtxCanceled; wait timeout: ESrvLockWaitTimeout) *)
| IGc (name : str)                (* the GC pass reaches this lock (shard.Lock + keyMtx) *)
| ITick (dt : Z)
| IShutdown.

(** ** Helpers *)
Definition emit (e : lev) (s : lstate) : lstate := s <| l_trace := e :: l_trace s |>.
Definition set_pc (tid : nat) (pc : lpc) (s : lstate) : lstate :=
  match l_thr s !! tid with
  | Some t => s <| l_thr := <[tid := t <| t_pc := pc |>]> (l_thr s) |>
  | None => s
  end.
Definition set_obj (oid : nat) (o : lobj) (s : lstate) : lstate := s <| l_heap := <[oid := o]> (l_heap s) |>.
Definition finish (tid : nat) (r : lres) (s : lstate) : lstate := emit (EvRes tid r) (set_pc tid (PFin r) s).
Definition res_err (e : err) : lres := LRes false (Some e).

Definition key_of (s : lstate) (tid : nat) : str := match l_thr s !! tid with Some t => op_key (t_op t) | None => [] end.

(** semaphore notifyWaiters: hand free units to the head of the queue, in order *)
Fixpoint notify_loop (q : list nat) (cur size : Z) (ready : list nat) : list nat * Z * list nat :=
  match q with
  | [] => ([], cur, ready)
  | w :: q' => if cur <? size then notify_loop q' (cur + 1) size (ready ++ [w]) else (q, cur, ready)
  end.
Definition notify (o : lobj) : lobj * list nat :=
  let '(q, cur, ready) := notify_loop (o_waitq o) (o_cur o) (o_size o) [] in
  (o <| o_waitq := q |> <| o_cur := cur |> <| o_ready := o_ready o ++ ready |>, ready).

Definition emit_grants (name : str) (woken : list nat) (s : lstate) : lstate :=
  fold_left (λ s w, emit (EvLin (LaGrant w name (key_of s w))) s) woken s.

Fixpoint remove_first (k : str) (l : list str) : list str :=
  match l with [] => [] | x :: l' => if bool_decide (x = k) then l' else x :: remove_first k l' end.

Definition in_flight (pc : lpc) : bool := match pc with PEnter | PFin _ => false | _ => true end.
Definition no_call_in_flight (s : lstate) : bool :=
  forallb (λ '(_, t), negb (in_flight (t_pc t))) (map_to_list (l_thr s)).

(** ** One critical section of thread [tid] *)
Definition run_thread (minidle : Z) (tid : nat) (t : thread) (s : lstate) : lstate :=
  let name := op_name (t_op t) in
  let key := op_key (t_op t) in
  let size := op_size (t_op t) in
  match t_pc t with
  | PEnter =>
      if l_shut s then finish tid (res_err ELockManagerShutdown) (emit (EvLin (LaErr tid ELockManagerShutdown)) s)
      else set_pc tid PGet s
  | PGet =>
      let create := match t_op t with OUnl _ _ => false | _ => true end in
      if size <=? 0 then finish tid (res_err ELockInvalidLockSize) (emit (EvLin (LaErr tid ELockInvalidLockSize)) s) else
      match l_map s !! name with
      | Some oid =>
          match l_heap s !! oid with
          | Some o =>
              if create && negb (bool_decide (size = o_size o))
              then finish tid (res_err ELockSizeMismatch) (emit (EvLin (LaErr tid ELockSizeMismatch)) s)
              else
                let s1 := set_obj oid (o <| o_last := l_now s |> <| o_users := o_users o + 1 |>) s in
                set_pc tid (if create then PChkDel oid else PUnlChk oid) s1
          | None => s (* unreachable: mapped objects exist *)
          end
      | None =>
          if create then
            let oid := l_next s in
            let o := LObj name size [] 0 [] [] (l_now s) false 1 in
            set_pc tid (PChkDel oid)
              (emit (EvLin (LaCreate name size))
                 (s <| l_heap := <[oid := o]> (l_heap s) |> <| l_map := <[name := oid]> (l_map s) |> <| l_next := S oid |>))
          else finish tid (res_err ELockDoesNotExist) (emit (EvLin (LaErr tid ELockDoesNotExist)) s)
      end
  | PChkDel oid =>
      match l_heap s !! oid with
      | Some o =>
          if o_deleted o then emit (EvPanic tid) (s <| l_crashed := true |>)
          else set_pc tid (match t_op t with OLock _ _ _ => PAcqEnter oid | _ => PTryAcq oid end) s
      | None => s
      end
  | PTryAcq oid =>
      match l_heap s !! oid with
      | Some o =>
          if (o_cur o <? o_size o) && bool_decide (o_waitq o = [])
          then set_pc tid (PAddKey oid) (emit (EvLin (LaTryOk tid name key)) (set_obj oid (o <| o_cur := o_cur o + 1 |>) s))
          else set_pc tid (PDone oid (LRes false None)) (emit (EvLin (LaTryBusy tid name)) s)
      | None => s
      end
  | PAcqEnter oid =>
      match l_heap s !! oid with
      | Some o =>
          match t_cancel t with
          | Some e => set_pc tid (PDone oid (res_err e)) (emit (EvLin (LaErr tid e)) s)
          | None =>
              if (o_cur o <? o_size o) && bool_decide (o_waitq o = [])
              then set_pc tid (PAddKey oid) (emit (EvLin (LaTryOk tid name key)) (set_obj oid (o <| o_cur := o_cur o + 1 |>) s))
              else set_pc tid (PAcqWait oid) (emit (EvLin (LaEnq tid name)) (set_obj oid (o <| o_waitq := o_waitq o ++ [tid] |>) s))
          end
      | None => s
      end
  | PAcqWait oid =>
      match l_heap s !! oid with
      | Some o =>
          if bool_decide (tid ∈ o_ready o)
          then set_pc tid (PAcqWoken oid) (set_obj oid (o <| o_ready := filter (λ w, w ≠ tid) (o_ready o) |>) s)
          else match t_cancel t with Some _ => set_pc tid (PAcqCancel oid) s | None => s end
      | None => s
      end
  | PAcqWoken oid =>
      match t_cancel t with
      | Some _ => set_pc tid (PRelCancel oid) s
      | None => set_pc tid (PAddKey oid) s
      end
  | PAcqCancel oid =>
      let e := default ECtxCanceled (t_cancel t) in
      match l_heap s !! oid with
      | Some o =>
          if bool_decide (tid ∈ o_ready o) then
            (* handed a unit after the context ended: pretend we didn't, put the unit back *)
            let o1 := o <| o_ready := filter (λ w, w ≠ tid) (o_ready o) |> <| o_cur := o_cur o - 1 |> in
            let '(o2, woken) := notify o1 in
            set_pc tid (PDone oid (res_err e))
              (emit_grants name woken (emit (EvLin (LaGiveBack tid name key e)) (set_obj oid o2 s)))
          else
            let front := match o_waitq o with w :: _ => bool_decide (w = tid) | [] => false end in
            let o1 := o <| o_waitq := filter (λ w, w ≠ tid) (o_waitq o) |> in
            let '(o2, woken) := if front && (o_cur o1 <? o_size o1) then notify o1 else (o1, []) in
            set_pc tid (PDone oid (res_err e))
              (emit_grants name woken (emit (EvLin (LaLeave tid name e)) (set_obj oid o2 s)))
      | None => s
      end
  | PRelCancel oid =>
      let e := default ECtxCanceled (t_cancel t) in
      match l_heap s !! oid with
      | Some o =>
          if o_cur o - 1 <? 0 then emit (EvPanic tid) (s <| l_crashed := true |>) else
          let '(o2, woken) := notify (o <| o_cur := o_cur o - 1 |>) in
          set_pc tid (PDone oid (res_err e))
            (emit_grants name woken (emit (EvLin (LaGiveBack tid name key e)) (set_obj oid o2 s)))
      | None => s
      end
  | PAddKey oid =>
      match l_heap s !! oid with
      | Some o => set_pc tid (PDone oid (LRes true None)) (set_obj oid (o <| o_keys := o_keys o ++ [key] |>) s)
      | None => s
      end
  | PUnlChk oid =>
      match l_heap s !! oid with
      | Some o =>
          if o_deleted o then set_pc tid (PDone oid (res_err ELockDoesNotExist)) (emit (EvLin (LaErr tid ELockDoesNotExist)) s)
          else set_pc tid (PUnlRem oid) s
      | None => s
      end
  | PUnlRem oid =>
      match l_heap s !! oid with
      | Some o =>
          if bool_decide (key ∈ o_keys o) then
            if o_cur o - 1 <? 0 then emit (EvPanic tid) (s <| l_crashed := true |>) else
            let '(o2, woken) := notify (o <| o_keys := remove_first key (o_keys o) |> <| o_cur := o_cur o - 1 |>) in
            set_pc tid (PDone oid (LRes true None))
              (emit_grants name woken (emit (EvLin (LaUnlOk tid name key)) (set_obj oid o2 s)))
          else set_pc tid (PDone oid (res_err ELockInvalidLockKey)) (emit (EvLin (LaUnlBad tid name key)) s)
      | None => s
      end
  | PDone oid r =>
      match l_heap s !! oid with
      | Some o => finish tid r (set_obj oid (o <| o_users := o_users o - 1 |>) s)
      | None => s
      end
  | PFin _ => s
  end.

(** GC reaching one lock: manager.go lockGc body for one map entry *)
Definition gc_one (minidle : Z) (name : str) (s : lstate) : lstate :=
  match l_map s !! name with
  | Some oid =>
      match l_heap s !! oid with
      | Some o =>
          if bool_decide (o_keys o = []) && (o_users o =? 0) && (minidle <? l_now s - o_last o)
          then emit (EvLin (LaGc name)) (set_obj oid (o <| o_deleted := true |>) s <| l_map := delete name (l_map s) |>)
          else s
      | None => s
      end
  | None => s
  end.

(** Manager.shutdown: exclusive; final GC pass lockGc(0): collects what has been idle for MORE than 0 ns *)
Definition shutdown_all (s : lstate) : lstate :=
  let s1 := fold_left (λ s '(name, _), gc_one 0 name s) (map_to_list (l_map s)) s in
  emit EvShutdown (s1 <| l_shut := true |>).

Definition lstep (minidle : Z) (s : lstate) (it : item) : lstate :=
  if l_crashed s then s else
  match it with
  | ICall tid op =>
      match l_thr s !! tid with
      | Some _ => s
      | None => emit (EvInv tid op) (s <| l_thr := <[tid := Thread op PEnter None]> (l_thr s) |>)
      end
  | IRun tid =>
      match l_thr s !! tid with Some t => run_thread minidle tid t s | None => s end
  | IRunCancel tid =>
      match l_thr s !! tid with
      | Some t => match t_pc t, t_cancel t with PAcqWait oid, Some _ => set_pc tid (PAcqCancel oid) s | _, _ => s end
      | None => s
      end
  | ICancel tid cause =>
      match l_thr s !! tid with
      | Some t => match t_cancel t, t_op t with
                  | None, OLock _ _ _ => s <| l_thr := <[tid := t <| t_cancel := Some cause |>]> (l_thr s) |>
                  | _, _ => s
                  end
      | None => s
      end
  | IGc name => gc_one minidle name s
  | ITick dt => s <| l_now := l_now s + Z.max 0 dt |>
  | IShutdown => if l_shut s then s else if no_call_in_flight s then shutdown_all s else s
  end.

Definition lrun (minidle : Z) (sch : list item) : lstate := fold_left (lstep minidle) sch l_init.

(** ** The atomic specification (C02) *)
Record sobj := SObj { so_size : Z; so_live : list str; so_q : list nat }.
#[global] Instance sobj_eq_dec : EqDecision sobj.
Proof. solve_decision. Defined.

Definition so_free (o : sobj) : bool := (Z.of_nat (length (so_live o)) <? so_size o) && bool_decide (so_q o = []).

(** [strict = true] forbids [LaGiveBack] (the literal reading of the property) *)
Definition spec_step (strict : bool) (sp : gmap str sobj) (a : linact) : option (gmap str sobj) :=
  match a with
  | LaCreate n z => match sp !! n with None => if 0 <? z then Some (<[n := SObj z [] []]> sp) else None | Some _ => None end
  | LaGc n => match sp !! n with Some o => if bool_decide (so_live o = []) && bool_decide (so_q o = []) then Some (delete n sp) else None | None => None end
  | LaErr _ _ => Some sp
  | LaTryOk _ n k => match sp !! n with
                     | Some o => if so_free o then Some (<[n := SObj (so_size o) (so_live o ++ [k]) (so_q o)]> sp) else None
                     | None => None end
  | LaTryBusy _ n => match sp !! n with Some o => if so_free o then None else Some sp | None => None end
  | LaEnq t n => match sp !! n with
                 | Some o => if so_free o then None else Some (<[n := SObj (so_size o) (so_live o) (so_q o ++ [t])]> sp)
                 | None => None end
  | LaGrant t n k => match sp !! n with
                     | Some o => match so_q o with
                                 | t' :: q' => if bool_decide (t' = t) && (Z.of_nat (length (so_live o)) <? so_size o)
                                               then Some (<[n := SObj (so_size o) (so_live o ++ [k]) q']> sp) else None
                                 | [] => None end
                     | None => None end
  | LaLeave t n _ => match sp !! n with
                     | Some o => if bool_decide (t ∈ so_q o) then Some (<[n := SObj (so_size o) (so_live o) (filter (λ w, w ≠ t) (so_q o))]> sp) else None
                     | None => None end
  | LaGiveBack _ n k _ =>
      if strict then None else
      match sp !! n with
      | Some o => if bool_decide (k ∈ so_live o) then Some (<[n := SObj (so_size o) (remove_first k (so_live o)) (so_q o)]> sp) else None
      | None => None end
  | LaUnlOk _ n k => match sp !! n with
                     | Some o => if bool_decide (k ∈ so_live o) then Some (<[n := SObj (so_size o) (remove_first k (so_live o)) (so_q o)]> sp) else None
                     | None => None end
  | LaUnlBad _ n k => match sp !! n with Some o => if bool_decide (k ∈ so_live o) then None else Some sp | None => None end
  end.

Fixpoint spec_run (strict : bool) (sp : gmap str sobj) (l : list linact) : option (gmap str sobj) :=
  match l with [] => Some sp | a :: l' => match spec_step strict sp a with Some sp' => spec_run strict sp' l' | None => None end end.

(** the linearisation actions of a trace, oldest first *)
Definition lin_of (tr : list lev) : list linact :=
  omap (λ e, match e with EvLin a => Some a | _ => None end) (rev tr).

(** the spec only frees capacity after a hand-off attempt: in the concrete semaphore a release hands units to the
    queue in the same critical section, so the spec's [LaGrant] actions directly follow the releasing action. *)

(** ** What the harness compares (T2): after every item, the pc label of every thread and the responses *)
Definition pc_label (pc : lpc) : nat :=
  match pc with
  | PEnter => 0 | PGet => 1 | PChkDel _ => 2 | PTryAcq _ => 3 | PAcqEnter _ => 4 | PAcqWait _ => 5 | PAcqWoken _ => 6
  | PAcqCancel _ => 7 | PRelCancel _ => 8 | PAddKey _ => 9 | PUnlChk _ => 10 | PUnlRem _ => 11 | PDone _ _ => 12 | PFin _ => 13
  end%nat.

(** enabledness, used by the schedule enumerator: does [IRun tid] change the state? *)
Definition blocked (s : lstate) (tid : nat) : bool :=
  match l_thr s !! tid with
  | Some t => match t_pc t with
              | PFin _ => true
              | PAcqWait oid => match l_heap s !! oid with
                                | Some o => negb (bool_decide (tid ∈ o_ready o)) && negb (bool_decide (t_cancel t ≠ None))
                                | None => true end
              | _ => false end
  | None => true
  end.

(** the table seen by Manager.Locks(): name -> (size, keys) of mapped objects *)
Definition l_table (s : lstate) : list (str * (Z * list str)) :=
  omap (λ '(n, oid), (λ o, (n, (o_size o, o_keys o))) <$> l_heap s !! oid) (map_to_list (l_map s)).
