(** * Mseq — the sequential-event model of the ldlm lock server in virtual time.

    One [event] is one client request, connection event, admin call, time advance,
    restart or probe, executed to quiescence (every goroutine of the server blocked
    or finished). [sstep] returns the list of admissible outcomes: the only sources
    of nondeterminism are same-instant timer ties, the reload order at restart and
    the IPC unlock-by-name choice.

    Transcribed from (line numbers of /repo at the time of writing):
      server/server.go      Lock, TryLock, Unlock, Renew, DestroySession, onTimeoutFunc, New (reload)
      lock/manager.go       getLock, Lock, TryLock, Unlock, lockGc (with the [users] count)
      lock/lock.go          Lock, TryLock, Unlock (key list + semaphore)
      x/sync/semaphore      Acquire/TryAcquire/Release at quiescence: cur = |keys|, FIFO hand-off
      timermap/timermap.go  Add, Remove, Reset
      server/session        AddLock, RemoveLock (all sessions), CreateSession, DestroySession, Load
      server/ipc/ipc.go     Unlock, ListLocks

    Definitions only. Proofs: Proofs/SeqInv.v and friends. *)
From Coq Require Import Decimal DecimalNat.
From Ldlm Require Import Model.Base Model.Err.
From RecordUpdate Require Import RecordSet.
Import RecordSetNotations.

Local Open Scope Z_scope.

(** ** Data *)

Record clock := Clock { cl_name : str; cl_key : str; cl_size : Z }.
#[global] Instance clock_eq_dec : EqDecision clock.
Proof. solve_decision. Defined.

(** A lock object of the lock manager. At quiescence the semaphore's [cur] equals
    [length lo_keys]; [lo_last] is [lastAccessed] (ns since start). *)
Record lockobj := LockObj { lo_size : Z; lo_keys : list str; lo_last : Z }.
#[global] Instance eta_lockobj : Settable _ := settable! LockObj <lo_size; lo_keys; lo_last>.

(** A lease timer: deadline and the arguments captured by onTimeoutFunc. *)
Record timer := Timer { tm_deadline : Z; tm_name : str; tm_key : str; tm_sid : str }.

(** A blocked Lock call. [w_key] is the key drawn by the call before blocking. *)
Record waiter := Waiter {
  w_id : nat; w_sid : str; w_name : str; w_key : str; w_size : Z;
  w_lt : option Z;            (* lock timeout seconds, as given *)
  w_deadline : option Z       (* instant at which the wait timeout fires *)
}.

Record config := Config {
  c_noclear : bool;           (* NoClearOnDisconnect *)
  c_file : bool;              (* a state file is configured *)
  c_gc_interval : Z;          (* LockGcInterval, ns; must be > 0 *)
  c_gc_minidle : Z;           (* LockGcMinIdle, ns *)
  c_default_lt : Z            (* DefaultLockTimeout, ns *)
}.

Record sstate := SState {
  st_locks : gmap str lockobj;
  st_sessions : gmap str (list clock);
  st_timers : gmap str timer;
  st_waiters : list waiter;                       (* global arrival order; a lock's queue is the sub-list of its name *)
  st_file : option (gmap str (list clock));       (* None: empty file / never written *)
  st_now : Z;
  st_gc_next : Z;                                 (* instant of the next GC tick *)
  st_shut : bool;                                 (* LockServer.isShutdown *)
  st_used : list str                              (* ghost: every key and session id drawn so far *)
}.
#[global] Instance eta_sstate : Settable _ :=
  settable! SState <st_locks; st_sessions; st_timers; st_waiters; st_file; st_now; st_gc_next; st_shut; st_used>.

Definition init_state (cfg : config) : sstate :=
  SState ∅ ∅ ∅ [] None 0 (c_gc_interval cfg) false [].

Definition second : Z := 1000000000.

(** ** The lease-timer key, as server.timerKey computes it: strconv.Itoa(len(name)) + ":" + name + key *)

Fixpoint uint_bytes (d : Decimal.uint) : list byte :=
  match d with
  | Nil => []
  | D0 d => x30 :: uint_bytes d | D1 d => x31 :: uint_bytes d | D2 d => x32 :: uint_bytes d
  | D3 d => x33 :: uint_bytes d | D4 d => x34 :: uint_bytes d | D5 d => x35 :: uint_bytes d
  | D6 d => x36 :: uint_bytes d | D7 d => x37 :: uint_bytes d | D8 d => x38 :: uint_bytes d
  | D9 d => x39 :: uint_bytes d
  end.
Definition itoa (n : nat) : str := uint_bytes (Nat.to_uint n).
Definition tkey (name key : str) : str := itoa (length name) ++ [x3a] ++ name ++ key.

(** ** Responses and observations *)

Inductive resp :=
| RLock (locked : bool) (key : str) (e : option err)   (* Lock / TryLock / Renew *)
| RUnlock (unlocked : bool) (e : option err)
| RBlocked.                                             (* the Lock call is parked *)

Inductive out :=
| OResp (r : resp)
| OWaiter (wid : nat) (at_ : Z) (r : resp)              (* a parked Lock call completed at [at_] *)
| OListing (l : list clock)                             (* LockServer.Locks() *)
| OFile (f : option (list (str * list clock)))          (* decoded state file, None = empty *)
| OTable (t : list (str * (Z * list str * Z)))          (* lock manager: name -> size, keys, lastAccessed *)
| OIpcList (l : list clock)
| OIpcUnlock (r : option bool) (e : option err).        (* net/rpc reply: Some unlocked, or an error *)

Inductive event :=
| EConnect (sid : str)
| EDisconnect (sid : str)
| ETryLock (sid : option str) (name : str) (size lt : option Z) (key : str)
| ELock (wid : nat) (sid : option str) (name : str) (size lt wt : option Z) (key : str)
| EUnlock (sid : option str) (name key : str)
| ERenew (name key : str) (lt : Z)
| ECancel (wid : nat)
| EAdvance (dt : Z)
| ERestart (order : list str)
| EShutdown
| EProbe
| EIpcList
| EIpcUnlock (name : str) (key : option str).

(** ** Lock manager *)

Definition name_waiters (name : str) (ws : list waiter) : list waiter :=
  filter (λ w, w_name w = name) ws.

(** manager.getLock(name, create=true, size) *)
Definition get_lock_create (name : str) (size : Z) (s : sstate) : err + (lockobj * sstate) :=
  if size <=? 0 then inl ELockInvalidLockSize else
  match st_locks s !! name with
  | Some o =>
      if bool_decide (size = lo_size o) then
        let o' := o <| lo_last := st_now s |> in
        inr (o', s <| st_locks := <[name := o']> (st_locks s) |>)
      else inl ELockSizeMismatch
  | None =>
      let o := LockObj size [] (st_now s) in
      inr (o, s <| st_locks := <[name := o]> (st_locks s) |>)
  end.

(** semaphore TryAcquire at quiescence *)
Definition can_acquire (name : str) (o : lockobj) (s : sstate) : bool :=
  bool_decide (Z.of_nat (length (lo_keys o)) < lo_size o) && bool_decide (name_waiters name (st_waiters s) = []).

Definition add_key (name key : str) (s : sstate) : sstate :=
  match st_locks s !! name with
  | Some o => s <| st_locks := <[name := o <| lo_keys := lo_keys o ++ [key] |>]> (st_locks s) |>
  | None => s
  end.

(** sessionManager.Save *)
Definition save (cfg : config) (s : sstate) : sstate :=
  if c_file cfg then s <| st_file := Some (st_sessions s) |> else s.

(** sessionManager.AddLock + lockTimerMgr.Add: the bookkeeping of a grant *)
Definition record_grant (cfg : config) (sid name key : str) (size : Z) (lt : option Z) (s : sstate) : sstate :=
  let l := default [] (st_sessions s !! sid) in
  let s1 := save cfg (s <| st_sessions := <[sid := l ++ [Clock name key size]]> (st_sessions s) |>) in
  match lt with
  | Some t => if 0 <? t
              then s1 <| st_timers := <[tkey name key := Timer (st_now s + t * second) name key sid]> (st_timers s1) |>
              else s1
  | None => s1
  end.

Definition is_hold (name key : str) (c : clock) : bool :=
  bool_decide (cl_name c = name) && bool_decide (cl_key c = key).

(** sessionManager.RemoveLock: removes (name,key) from whichever sessions list it; saves iff something was removed *)
Definition remove_lock_entry (cfg : config) (name key : str) (s : sstate) : sstate :=
  let sess' := (λ l, filter (λ c, is_hold name key c = false) l) <$> st_sessions s in
  let s1 := s <| st_sessions := sess' |> in
  if existsb (λ '(_, l), existsb (is_hold name key) l) (map_to_list (st_sessions s)) then save cfg s1 else s1.

(** semaphore Release followed by the woken waiter's own completion (addKey, AddLock, timer, response) *)
Definition hand_off (cfg : config) (name : str) (s : sstate) : sstate * list out :=
  match st_locks s !! name, name_waiters name (st_waiters s) with
  | Some o, w :: _ =>
      if bool_decide (Z.of_nat (length (lo_keys o)) < lo_size o) then
        let s1 := add_key name (w_key w) s in
        let s2 := s1 <| st_waiters := filter (λ w', bool_decide (w_id w' ≠ w_id w)) (st_waiters s1) |> in
        let s3 := record_grant cfg (w_sid w) name (w_key w) (w_size w) (w_lt w) s2 in
        (s3, [OWaiter (w_id w) (st_now s) (RLock true (w_key w) None)])
      else (s, [])
  | _, _ => (s, [])
  end.

Fixpoint remove_first (k : str) (l : list str) : list str :=
  match l with [] => [] | x :: l' => if bool_decide (x = k) then l' else x :: remove_first k l' end.

(** manager.Unlock(name, key) including the hand-off to the next waiter *)
Definition mgr_unlock (cfg : config) (name key : str) (s : sstate) : sstate * (err + unit) * list out :=
  match st_locks s !! name with
  | None => (s, inl ELockDoesNotExist, [])
  | Some o =>
      let o1 := o <| lo_last := st_now s |> in
      if bool_decide (key ∈ lo_keys o) then
        let o2 := o1 <| lo_keys := remove_first key (lo_keys o) |> in
        let s1 := s <| st_locks := <[name := o2]> (st_locks s) |> in
        let '(s2, outs) := hand_off cfg name s1 in
        (s2, inr tt, outs)
      else (s <| st_locks := <[name := o1]> (st_locks s) |>, inl ELockInvalidLockKey, [])
  end.

(** ** Server entry points *)

Definition opt_neg (o : option Z) : bool := match o with Some v => v <? 0 | None => false end.

(** the part of Lock/TryLock after validation: lockMgr call and bookkeeping. [blocking] selects Lock. *)
Definition srv_acquire (cfg : config) (blocking : bool) (wid : nat) (sid name key : str) (size : Z)
           (lt wt : option Z) (s : sstate) : sstate * list out :=
  if bool_decide (name = []) then (s, [OResp (RLock false key (Some ESrvEmptyName))]) else
  match get_lock_create name size s with
  | inl e => (s, [OResp (RLock false key (Some e))])
  | inr (o, s1) =>
      if can_acquire name o s1 then
        let s2 := add_key name key s1 in
        (record_grant cfg sid name key size lt s2, [OResp (RLock true key None)])
      else if blocking then
        let dl := match wt with Some t => if 0 <? t then Some (st_now s + t * second) else None | None => None end in
        (s1 <| st_waiters := st_waiters s1 ++ [Waiter wid sid name key size lt dl] |>, [OResp RBlocked])
      else (s1, [OResp (RLock false key None)])
  end.

Definition srv_trylock (cfg : config) (sid : option str) (name : str) (size lt : option Z) (key : str)
           (s : sstate) : sstate * list out :=
  match sid with
  | None => (s, [OResp (RLock false [] (Some ESrvSessionDoesNotExist))])
  | Some sid =>
      if opt_neg lt then (s, [OResp (RLock false [] (Some ESrvInvalidLockTimeout))]) else
      srv_acquire cfg false 0%nat sid name key (default 1 size) lt None (s <| st_used := key :: st_used s |>)
  end.

Definition srv_lock (cfg : config) (wid : nat) (sid : option str) (name : str) (size lt wt : option Z) (key : str)
           (s : sstate) : sstate * list out :=
  match sid with
  | None => (s, [OResp (RLock false [] (Some ESrvSessionDoesNotExist))])
  | Some sid =>
      if opt_neg lt then (s, [OResp (RLock false [] (Some ESrvInvalidLockTimeout))]) else
      if opt_neg wt then (s, [OResp (RLock false [] (Some ESrvInvalidWaitTimeout))]) else
      srv_acquire cfg true wid sid name key (default 1 size) lt wt (s <| st_used := key :: st_used s |>)
  end.

Definition srv_unlock (cfg : config) (name key : str) (s : sstate) : sstate * (bool * option err) * list out :=
  let s0 := s <| st_timers := delete (tkey name key) (st_timers s) |> in
  match mgr_unlock cfg name key s0 with
  | (s1, inr _, outs) => (remove_lock_entry cfg name key s1, (true, None), outs)
  | (s1, inl e, outs) => (s1, (false, Some e), outs)
  end.

Definition srv_renew (name key : str) (lt : Z) (s : sstate) : sstate * list out :=
  if lt <=? 0 then (s, [OResp (RLock false [] (Some ESrvInvalidLockTimeout))]) else
  match st_timers s !! tkey name key with
  | Some t => (s <| st_timers := <[tkey name key := Timer (st_now s + lt * second) (tm_name t) (tm_key t) (tm_sid t)]> (st_timers s) |>,
               [OResp (RLock true key None)])
  | None => (s, [OResp (RLock false key (Some ESrvDoesNotExistOrInvalidKey))])
  end.

(** a parked Lock call gives up (its context ended) *)
Definition waiter_leave (w : waiter) (e : err) (s : sstate) : sstate * list out :=
  (s <| st_waiters := filter (λ w', bool_decide (w_id w' ≠ w_id w)) (st_waiters s) |>,
   [OWaiter (w_id w) (st_now s) (RLock false (w_key w) (Some e))]).

Definition cancel_waiters (p : waiter → bool) (e : err) (s : sstate) : sstate * list out :=
  fold_left (λ '(s, outs) w, let '(s', o) := waiter_leave w e s in (s', outs ++ o))
            (filter (λ w, p w = true) (st_waiters s)) (s, []).

(** LockServer.DestroySession *)
Definition destroy_session (cfg : config) (sid : str) (s : sstate) : sstate * list out :=
  if st_shut s then (s, []) else
  match st_sessions s !! sid with
  | None => (s, [])
  | Some locks =>
      if c_noclear cfg && negb (bool_decide (locks = [])) then (s, []) else
      let s1 := save cfg (s <| st_sessions := delete sid (st_sessions s) |>) in
      if c_noclear cfg then (s1, []) else
      fold_left (λ '(s, outs) c,
                   match mgr_unlock cfg (cl_name c) (cl_key c) s with
                   | (s', inr _, o) => (s' <| st_timers := delete (tkey (cl_name c) (cl_key c)) (st_timers s') |>, outs ++ o)
                   | (s', inl _, o) => (s', outs ++ o)
                   end) locks (s1, [])
  end.

Definition disconnect (cfg : config) (sid : str) (s : sstate) : sstate * list out :=
  let '(s1, o1) := cancel_waiters (λ w, bool_decide (w_sid w = sid)) ECtxCanceled s in
  let '(s2, o2) := destroy_session cfg sid s1 in
  (s2, o1 ++ o2).

(** the lease-timer callback: onTimeoutFunc, then TimerMap.Remove *)
Definition expire (cfg : config) (tk : str) (t : timer) (s : sstate) : sstate * list out :=
  let '(s1, _, outs) := mgr_unlock cfg (tm_name t) (tm_key t) s in
  let s2 := remove_lock_entry cfg (tm_name t) (tm_key t) s1 in
  (s2 <| st_timers := delete tk (st_timers s2) |>, outs).

(** ** Garbage collection: all ticks up to [t] collapsed into the last one (see DESIGN 3.4) *)
Definition gc_collectable (cfg : config) (tick : Z) (ws : list waiter) (name : str) (o : lockobj) : bool :=
  bool_decide (lo_keys o = []) && bool_decide (name_waiters name ws = []) && (c_gc_minidle cfg <? tick - lo_last o).

Definition run_gc_until (cfg : config) (t : Z) (s : sstate) : sstate :=
  if c_gc_interval cfg <=? 0 then s else
  if st_gc_next s <=? t then
    let k := (t - st_gc_next s) / c_gc_interval cfg in
    let tick := st_gc_next s + k * c_gc_interval cfg in
    s <| st_locks := filter (λ '(name, o), gc_collectable cfg tick (st_waiters s) name o = false) (st_locks s) |>
      <| st_gc_next := tick + c_gc_interval cfg |>
  else s.

(** ** Time *)

Inductive due_item := DTimer (tk : str) (t : timer) | DWaiter (w : waiter).

Definition due_time (d : due_item) : Z :=
  match d with DTimer _ t => tm_deadline t | DWaiter w => default 0 (w_deadline w) end.

Definition all_items (s : sstate) : list due_item :=
  (map (λ '(tk, t), DTimer tk t) (map_to_list (st_timers s)))
  ++ (map DWaiter (filter (λ w, bool_decide (w_deadline w ≠ None)) (st_waiters s))).

Definition min_time (l : list due_item) : option Z :=
  match l with [] => None | d :: l' => Some (fold_left (λ m d', Z.min m (due_time d')) l' (due_time d)) end.

(** the items that are due first at or before [target]; several = a same-instant tie *)
Definition next_due (target : Z) (s : sstate) : list due_item :=
  match min_time (all_items s) with
  | Some m => if m <=? target then filter (λ d, due_time d =? m) (all_items s) else []
  | None => []
  end.

Definition fire (cfg : config) (d : due_item) (s : sstate) : sstate * list out :=
  match d with
  | DTimer tk t => expire cfg tk t s
  | DWaiter w => waiter_leave w ESrvLockWaitTimeout s
  end.

Definition finish_advance (cfg : config) (target : Z) (s : sstate) : sstate :=
  (run_gc_until cfg target s) <| st_now := Z.max (st_now s) target |>.

Fixpoint advance_loop (cfg : config) (fuel : nat) (target : Z) (s : sstate) (outs : list out)
  : list (sstate * list out) :=
  match fuel with
  | O => [(finish_advance cfg target s, outs)]
  | S fuel' =>
      match next_due target s with
      | [] => [(finish_advance cfg target s, outs)]
      | items =>
          flat_map (λ d,
            let t := Z.max (st_now s) (due_time d) in
            let s1 := (run_gc_until cfg t s) <| st_now := t |> in
            let '(s2, o) := fire cfg d s1 in
            advance_loop cfg fuel' target s2 (outs ++ o)) items
      end
  end.

(** enough fuel: every firing removes a timer or a waiter; a granted waiter may add one timer *)
Definition advance_fuel (s : sstate) : nat :=
  (size (st_timers s) + 2 * length (st_waiters s) + 1)%nat.

Definition advance (cfg : config) (dt : Z) (s : sstate) : list (sstate * list out) :=
  let target := st_now s + Z.max 0 dt in
  advance_loop cfg (advance_fuel s) target s [].

(** ** Restart from the state file (server.New) *)

Definition restore_one (cfg : config) (sid : str) (c : clock) (s : sstate) : sstate :=
  match get_lock_create (cl_name c) (cl_size c) s with
  | inl _ => remove_lock_entry cfg (cl_name c) (cl_key c) s
  | inr (o, s1) =>
      if can_acquire (cl_name c) o s1 then
        let s2 := add_key (cl_name c) (cl_key c) s1 in
        s2 <| st_timers := <[tkey (cl_name c) (cl_key c) :=
                               Timer (st_now s + c_default_lt cfg) (cl_name c) (cl_key c) sid]> (st_timers s2) |>
      else remove_lock_entry cfg (cl_name c) (cl_key c) s1
  end.

(** session ids in the order the reload visits them: [order] if it is a permutation of the
    file's session ids, else the map's own order *)
Definition reload_order (order : list str) (m : gmap str (list clock)) : list str :=
  let ks := map fst (map_to_list m) in
  if bool_decide (order ≡ₚ ks) then order else ks.

Definition restart (cfg : config) (order : list str) (s : sstate) : list (sstate * list out) :=
  let m : gmap str (list clock) := if c_file cfg then default ∅ (st_file s) else ∅ in
  let s0 := SState ∅ m ∅ [] (if c_file cfg then st_file s else None) (st_now s)
                   (st_now s + c_gc_interval cfg) false (st_used s) in
  let s1 := fold_left (λ s sid, fold_left (λ s c, restore_one cfg sid c s) (default [] (m !! sid)) s)
                      (reload_order order m) s0 in
  advance_loop cfg (advance_fuel s1) (st_now s1) s1 [].

(** ** Graceful shutdown as cmd/server does it: flag, network stop (every context ends, ConnEnd for every
    session is a no-op under the flag), timers stopped, manager shut down *)
Definition shutdown (cfg : config) (s : sstate) : sstate * list out :=
  let s0 := s <| st_shut := true |> in
  let '(s1, o) := cancel_waiters (λ _, true) ECtxCanceled s0 in
  (s1 <| st_timers := ∅ |>, o).

(** ** Probes and admin IPC *)

Definition listing (s : sstate) : list clock := concat (map snd (map_to_list (st_sessions s))).
Definition file_view (s : sstate) : option (list (str * list clock)) := map_to_list <$> st_file s.
Definition table_view (s : sstate) : list (str * (Z * list str * Z)) :=
  map (λ '(n, o), (n, (lo_size o, lo_keys o, lo_last o))) (map_to_list (st_locks s)).

(** ipc.Unlock by name keeps the LAST match of Locks(), whose session order is Go's map order:
    any session's last hold of that name may be chosen *)
Definition ipc_candidates (name : str) (s : sstate) : list str :=
  omap (λ '(_, l), cl_key <$> last (filter (λ c, bool_decide (cl_name c = name)) l)) (map_to_list (st_sessions s)).

Definition ipc_unlock_with (cfg : config) (name key : str) (s : sstate) : sstate * list out :=
  match srv_unlock cfg name key s with
  | (s', (u, None), outs) => (s', outs ++ [OIpcUnlock (Some u) None])
  | (s', (_, Some e), outs) => (s', outs ++ [OIpcUnlock None (Some e)])
  end.

Definition ipc_unlock (cfg : config) (name : str) (key : option str) (s : sstate) : list (sstate * list out) :=
  match key with
  | Some k => if bool_decide (k = []) then [] else [ipc_unlock_with cfg name k s]
  | None =>
      match ipc_candidates name s with
      | [] => [(s, [OIpcUnlock None (Some ELockDoesNotExist)])]
      | ks => map (λ k, if bool_decide (k = []) then (s, [OIpcUnlock None (Some ELockDoesNotExist)])
                        else ipc_unlock_with cfg name k s) ks
      end
  end.

(** ** The step function *)

Definition det (r : sstate * list out) : list (sstate * list out) := [r].

Definition sstep (cfg : config) (s : sstate) (ev : event) : list (sstate * list out) :=
  match ev with
  | EConnect sid =>
      det (match st_sessions s !! sid with
           | Some _ => s
           | None => s <| st_sessions := <[sid := []]> (st_sessions s) |>
           end <| st_used := sid :: st_used s |>, [])
  | EDisconnect sid => det (disconnect cfg sid s)
  | ETryLock sid name size lt key => det (srv_trylock cfg sid name size lt key s)
  | ELock wid sid name size lt wt key => det (srv_lock cfg wid sid name size lt wt key s)
  | EUnlock sid name key =>
      let '(s', (u, e), outs) := srv_unlock cfg name key s in det (s', outs ++ [OResp (RUnlock u e)])
  | ERenew name key lt => det (srv_renew name key lt s)
  | ECancel wid =>
      det (cancel_waiters (λ w, bool_decide (w_id w = wid)) ECtxCanceled s)
  | EAdvance dt => advance cfg dt s
  | ERestart order => restart cfg order s
  | EShutdown => det (shutdown cfg s)
  | EProbe => det (s, [OListing (listing s); OFile (file_view s); OTable (table_view s)])
  | EIpcList => det (s, [OIpcList (listing s)])
  | EIpcUnlock name key => ipc_unlock cfg name key s
  end.

(** every state reachable by a history, with the observations it produced *)
Fixpoint runs (cfg : config) (s : sstate) (h : list event) : list (sstate * list (list out)) :=
  match h with
  | [] => [(s, [])]
  | ev :: h' =>
      flat_map (λ '(s1, o), map (λ '(s2, os), (s2, o :: os)) (runs cfg s1 h')) (sstep cfg s ev)
  end.
