(** Mauth — the authentication / transport-security decisions of ldlm (property C16).

    Written from the Go sources, one definition per decision:

      net/rest/rest.go        ServeHTTP (order of checks), ValidatePassword, Run, NewRestServer
      net/grpc/grpc.go        authPasswordInterceptor, Run
      net/security/security.go GetTLSConfig
      net/net.go              Run
      encoding/base64 (go1.26.8) StdEncoding.DecodeString / EncodeToString
      strings (go1.26.8)      Split, SplitN, Index

    Definitions only (executable, total, extractable with ExtrOcamlBasic). Proofs: Proofs/AuthP.v.
    Strings are byte lists ([str]); nothing here looks at UTF-8. *)
From Coq Require Import String.
From Ldlm Require Import Model.Base.

(* ------------------------------------------------------------------------- *)
(** * Byte strings: equality, prefix, strings.Index / Split / SplitN            *)

Definition is_empty (s : str) : bool := match s with [] => true | _ => false end.

Fixpoint bytes_eqb (a b : str) : bool :=
  match a, b with
  | [], [] => true
  | x :: a', y :: b' => Byte.eqb x y && bytes_eqb a' b'
  | _, _ => false
  end.

(** [is_prefix p s]: Go's [strings.HasPrefix(s, p)]. *)
Fixpoint is_prefix (p s : str) : bool :=
  match p, s with
  | [], _ => true
  | x :: p', y :: s' => Byte.eqb x y && is_prefix p' s'
  | _ :: _, [] => false
  end.

(** [find_sep sep s]: [m := strings.Index(s, sep)]; [None] if [m < 0], otherwise
    [Some (s[:m], s[m+len(sep):])] — the leftmost occurrence. *)
Fixpoint find_sep (sep s : str) {struct s} : option (str * str) :=
  if is_prefix sep s then Some ([], skipn (length sep) s)
  else match s with
       | [] => None
       | c :: r => match find_sep sep r with
                   | Some (a, b) => Some (c :: a, b)
                   | None => None
                   end
       end.

(** [strings.Split(s, sep)] for a NON-EMPTY [sep] (the only use in the code; Go explodes the
    string into UTF-8 sequences when [sep = ""], which is not modelled): genSplit cuts at the
    leftmost occurrence, continues after it (occurrences do not overlap) and the remainder is
    the last element. Every cut consumes at least one byte, so [length s] is enough fuel
    (AuthP.go_split_fuel_enough); the out-of-fuel branch is unreachable for a non-empty [sep]. *)
Fixpoint go_split_fuel (n : nat) (sep s : str) : list str :=
  match find_sep sep s with
  | None => [s]
  | Some (a, b) => match n with
                   | O => [s]
                   | S n' => a :: go_split_fuel n' sep b
                   end
  end.
Definition go_split (sep s : str) : list str := go_split_fuel (length s) sep s.

(** [strings.SplitN(s, sep, 2)] for a non-empty [sep]. *)
Definition go_splitn2 (sep s : str) : list str :=
  match find_sep sep s with
  | None => [s]
  | Some (a, b) => [a; b]
  end.

(* ------------------------------------------------------------------------- *)
(** * encoding/base64, StdEncoding (RFC 4648 alphabet, '=' padding, NOT Strict()) *)

(** Six bits, most significant first. *)
Definition sextet : Type := (bool * bool * bool * bool * bool * bool)%type.

Definition b2n (b : bool) : nat := if b then 1 else 0.
Definition sextet_index (s : sextet) : nat :=
  let '(a, b, c, d, e, f) := s in
  32 * b2n a + 16 * b2n b + 8 * b2n c + 4 * b2n d + 2 * b2n e + b2n f.

Definition b64_alphabet : str :=
  list_byte_of_string "ABCDEFGHIJKLMNOPQRSTUVWXYZabcdefghijklmnopqrstuvwxyz0123456789+/".

Definition b64_char (s : sextet) : byte := nth (sextet_index s) b64_alphabet x00.

Definition bools : list bool := [false; true].
Definition all_sextets : list sextet :=
  flat_map (fun a => flat_map (fun b => flat_map (fun c => flat_map (fun d =>
  flat_map (fun e => map (fun f => (a, b, c, d, e, f)) bools) bools) bools) bools) bools) bools.

(** [enc.decodeMap[c]]: [None] stands for 0xff. *)
Definition b64_sextet (c : byte) : option sextet :=
  find (fun s => Byte.eqb (b64_char s) c) all_sextets.

Definition bits_msb (x : byte) : bool * bool * bool * bool * bool * bool * bool * bool :=
  let '(b0, (b1, (b2, (b3, (b4, (b5, (b6, b7))))))) := Byte.to_bits x in
  (b7, b6, b5, b4, b3, b2, b1, b0).
Definition byte_msb (b7 b6 b5 b4 b3 b2 b1 b0 : bool) : byte :=
  Byte.of_bits (b0, (b1, (b2, (b3, (b4, (b5, (b6, b7))))))).

(** The four sextets of the 24-bit group x·y·z. *)
Definition enc_s1 (x : byte) : sextet :=
  let '(x7, x6, x5, x4, x3, x2, _, _) := bits_msb x in (x7, x6, x5, x4, x3, x2).
Definition enc_s2 (x y : byte) : sextet :=
  let '(_, _, _, _, _, _, x1, x0) := bits_msb x in
  let '(y7, y6, y5, y4, _, _, _, _) := bits_msb y in (x1, x0, y7, y6, y5, y4).
Definition enc_s3 (y z : byte) : sextet :=
  let '(_, _, _, _, y3, y2, y1, y0) := bits_msb y in
  let '(z7, z6, _, _, _, _, _, _) := bits_msb z in (y3, y2, y1, y0, z7, z6).
Definition enc_s4 (z : byte) : sextet :=
  let '(_, _, z5, z4, z3, z2, z1, z0) := bits_msb z in (z5, z4, z3, z2, z1, z0).

(** The three bytes of four sextets ([val>>16], [val>>8], [val>>0] of decodeQuantum). *)
Definition dec_b1 (s1 s2 : sextet) : byte :=
  let '(a5, a4, a3, a2, a1, a0) := s1 in let '(b5, b4, _, _, _, _) := s2 in
  byte_msb a5 a4 a3 a2 a1 a0 b5 b4.
Definition dec_b2 (s2 s3 : sextet) : byte :=
  let '(_, _, b3, b2, b1, b0) := s2 in let '(c5, c4, c3, c2, _, _) := s3 in
  byte_msb b3 b2 b1 b0 c5 c4 c3 c2.
Definition dec_b3 (s3 s4 : sextet) : byte :=
  let '(_, _, _, _, c1, c0) := s3 in let '(d5, d4, d3, d2, d1, d0) := s4 in
  byte_msb c1 c0 d5 d4 d3 d2 d1 d0.

Definition pad_char : byte := x3d.   (* '=' *)

(** [StdEncoding.EncodeToString]. *)
Fixpoint b64encode (l : str) : str :=
  match l with
  | [] => []
  | [x] => [b64_char (enc_s1 x); b64_char (enc_s2 x x00); pad_char; pad_char]
  | [x; y] => [b64_char (enc_s1 x); b64_char (enc_s2 x y); b64_char (enc_s3 y x00); pad_char]
  | x :: y :: z :: r =>
      b64_char (enc_s1 x) :: b64_char (enc_s2 x y) :: b64_char (enc_s3 y z) :: b64_char (enc_s4 z)
        :: b64encode r
  end.

Definition is_nl (c : byte) : bool := Byte.eqb c x0a || Byte.eqb c x0d.   (* '\n' '\r' *)
Definition is_pad (c : byte) : bool := Byte.eqb c pad_char.

Fixpoint skip_nl (s : str) : str :=
  match s with
  | c :: r => if is_nl c then skip_nl r else s
  | [] => []
  end.

(** Position inside the current quantum of [decodeQuantum] (its [j] and [dbuf]). *)
Inductive b64q : Type :=
| Q0
| Q1 (a : sextet)
| Q2 (a b : sextet)
| Q3 (a b c : sextet).

(** [StdEncoding.DecodeString]: [Some out] iff [err == nil]. Transcribed from Decode/decodeQuantum
    (base64.go:312-407, 508-583; the 8- and 4-byte fast paths are decodeQuantum on valid digits):
    - a byte of the alphabet fills the quantum; four of them emit three bytes;
    - '\r' and '\n' are skipped anywhere ([j--; continue]);
    - '=' after 0 or 1 digits: error; after 2 digits: newlines, a second '=', newlines and then
      the END of the input are required, one byte is emitted; after 3 digits: newlines, then
      the end of input, two bytes; anything after the padding is "trailing garbage";
    - end of input inside a quantum (1-3 digits): error, because the encoding is padded;
    - any other byte: error;
    - [enc.strict] is false for StdEncoding: non-zero trailing bits are NOT an error. *)
Fixpoint b64dec (q : b64q) (s : str) : option str :=
  match s with
  | [] => match q with Q0 => Some [] | _ => None end
  | c :: r =>
      match b64_sextet c with
      | Some v =>
          match q with
          | Q0 => b64dec (Q1 v) r
          | Q1 a => b64dec (Q2 a v) r
          | Q2 a b => b64dec (Q3 a b v) r
          | Q3 a b c' =>
              match b64dec Q0 r with
              | Some t => Some (dec_b1 a b :: dec_b2 b c' :: dec_b3 c' v :: t)
              | None => None
              end
          end
      | None =>
          if is_nl c then b64dec q r
          else if is_pad c then
            match q with
            | Q0 | Q1 _ => None
            | Q2 a b =>
                match skip_nl r with
                | p :: r' =>
                    if is_pad p then (if is_empty (skip_nl r') then Some [dec_b1 a b] else None)
                    else None
                | [] => None
                end
            | Q3 a b c' =>
                if is_empty (skip_nl r) then Some [dec_b1 a b; dec_b2 b c'] else None
            end
          else None
      end
  end.

Definition b64decode (s : str) : option str := b64dec Q0 s.

(* ------------------------------------------------------------------------- *)
(** * REST: ValidatePassword (rest.go:96-130)                                   *)

Definition basic_sp : str := [x42; x61; x73; x69; x63; x20].   (* "Basic " *)
Definition colon : str := [x3a].                                (* ":" *)

(** [hdr] is [r.Header.Get("Authorization")]: the first value of the canonical key, "" if absent. *)
Definition rest_password_ok (cfgpw hdr : str) : bool :=
  if is_empty cfgpw then true
  else match go_split basic_sp hdr with
       | [_; b] =>
           match b64decode b with
           | None => false
           | Some decoded =>
               match go_splitn2 colon decoded with
               | [_; p] => bytes_eqb p cfgpw
               | _ => false
               end
           end
       | _ => false
       end.

(** The property's own reading of "the request carries exactly the password" for REST,
    decidable: some occurrence of "Basic " in the header is followed, up to the end of the
    header, by the base64 of [user ":" pw] with a colon-free [user]
    (AuthP.rest_carries_spec states this as the existential of DESIGN.md §5 C16). *)
Definition carries_at (pw b : str) : bool :=
  match b64decode b with
  | Some d => match find_sep colon d with
              | Some (_, p) => bytes_eqb p pw
              | None => false
              end
  | None => false
  end.
Fixpoint rest_carries (pw hdr : str) : bool :=
  (is_prefix basic_sp hdr && carries_at pw (skipn (length basic_sp) hdr))
  || match hdr with [] => false | _ :: r => rest_carries pw r end.

(** ** The gate of ServeHTTP (rest.go:65-71): the password check precedes everything,
    including POST /session and DELETE /session. [proceed] is everything after the check
    (session endpoints, cookie validation, the gateway mux). *)
Record http_resp : Type := {
  hr_status : Z;
  hr_body : str;
  hr_www_authenticate : option str;   (* the WWW-Authenticate header *)
  hr_set_cookie : bool                (* a Set-Cookie header is present *)
}.

Record rest_req : Type := {
  rq_method : str;
  rq_path : str;
  rq_authorization : str;             (* r.Header.Get("Authorization") *)
  rq_cookie : option str;
  rq_body : str
}.

Definition basic_realm : str := list_byte_of_string "Basic realm=""Restricted""".

Definition resp_401 : http_resp :=
  {| hr_status := 401; hr_body := []; hr_www_authenticate := Some basic_realm; hr_set_cookie := false |}.

Section RestGate.
  Context {state : Type}.
  Variable proceed : rest_req -> state -> state * http_resp.

  Definition rest_gate (cfgpw : str) (rq : rest_req) (st : state) : state * http_resp :=
    if rest_password_ok cfgpw (rq_authorization rq) then proceed rq st
    else (st, resp_401).
End RestGate.

(* ------------------------------------------------------------------------- *)
(** * gRPC: authPasswordInterceptor (grpc.go:237-252) and its installation (grpc.go:205-209) *)

Inductive auth_outcome : Type :=
| AuthAccept         (* h(ctx, r) is called *)
| AuthMissing        (* Unauthenticated "missing credentials" *)
| AuthInvalid        (* Unauthenticated "invalid credentials" *)
| AuthPanic.         (* index out of range: md["authorization"] is an empty non-nil slice *)

(** [md] is [md["authorization"]] of the incoming metadata: [None] when there is no metadata,
    the key is absent or maps to nil (grpc lower-cases keys, so only this spelling matters);
    [Some l] otherwise. The transport only creates a key together with a value, so [Some []]
    does not arrive over the wire; the code would panic on it and the model says so. *)
Definition grpc_interceptor (pw : str) (md : option (list str)) : auth_outcome :=
  match md with
  | None => AuthMissing
  | Some [] => AuthPanic
  | Some (v :: _) => if bytes_eqb v pw then AuthAccept else AuthInvalid
  end.

(** The interceptor is installed iff a password is configured. *)
Definition grpc_gate (cfgpw : str) (md : option (list str)) : auth_outcome :=
  if is_empty cfgpw then AuthAccept else grpc_interceptor cfgpw md.

Definition grpc_password_ok (cfgpw : str) (md : option (list str)) : bool :=
  match grpc_gate cfgpw md with AuthAccept => true | _ => false end.

(** ** The interceptor as a gate in front of a method's handler. grpc.UnaryInterceptor wraps
    EVERY unary method of the service with the same function (the harness reads the service
    descriptor of the tree: four unary methods, no streams), so the handler, the request and
    the response types are parameters: the statements hold for whichever method is called. A
    rejection returns [(nil, status.Errorf(Unauthenticated, ...))]: no response message, the
    handler [h] is not called, hence the server state is what it was. *)
Section GrpcGate.
  Context {state req resp : Type}.
  Variable handler : req -> state -> state * resp.

  Definition grpc_serve (cfgpw : str) (md : option (list str)) (r : req) (st : state)
    : state * (auth_outcome + resp) :=
    match grpc_gate cfgpw md with
    | AuthAccept => let '(st', x) := handler r st in (st', inr x)
    | o => (st, inl o)
    end.
End GrpcGate.

(* ------------------------------------------------------------------------- *)
(** * TLS: GetTLSConfig (security.go:38-84)                                     *)

Record secconf : Type := {
  sc_cert : str;       (* TlsCert *)
  sc_key : str;        (* TlsKey *)
  sc_verify : bool;    (* ClientCertVerify *)
  sc_ca : str;         (* ClientCA *)
  sc_password : str    (* Password *)
}.

(** What the file system and the parsers answer. [fo_read p] is [os.ReadFile(p)]
    ([None] = error); [fo_x509_pair c k] is whether [tls.X509KeyPair(c, k)] succeeds on those
    contents; [fo_append_pem pem] is the result of [CertPool.AppendCertsFromPEM(pem)].
    All theorems quantify over the oracle. *)
Record file_oracle : Type := {
  fo_read : str -> option str;
  fo_x509_pair : str -> str -> bool;
  fo_append_pem : str -> bool
}.

(** [os.ReadFile("")] fails on every platform (open "": no such file or directory). This is
    the only fact about the file system C16_tls needs; it is a hypothesis of the theorem, not
    part of the model (AuthP.C16_tls_wf_necessary shows it cannot be dropped). *)
Definition oracle_wf (o : file_oracle) : Prop := fo_read o [] = None.

(** [tls.LoadX509KeyPair(certFile, keyFile)]: ReadFile(cert), ReadFile(key), X509KeyPair. *)
Definition load_x509_key_pair (o : file_oracle) (cert key : str) : bool :=
  match fo_read o cert with
  | None => false
  | Some c => match fo_read o key with
              | None => false
              | Some k => fo_x509_pair o c k
              end
  end.

Inductive client_auth : Type :=   (* crypto/tls.ClientAuthType *)
| NoClientCert | RequestClientCert | RequireAnyClientCert | VerifyClientCertIfGiven
| RequireAndVerifyClientCert.

Definition client_auth_eqb (a b : client_auth) : bool :=
  match a, b with
  | NoClientCert, NoClientCert | RequestClientCert, RequestClientCert
  | RequireAnyClientCert, RequireAnyClientCert | VerifyClientCertIfGiven, VerifyClientCertIfGiven
  | RequireAndVerifyClientCert, RequireAndVerifyClientCert => true
  | _, _ => false
  end.

Record tls_config : Type := {
  tc_certs : bool;            (* len(Certificates) > 0 *)
  tc_client_cas : bool;       (* ClientCAs != nil *)
  tc_client_auth : client_auth
}.

Inductive tls_err : Type :=
| ErrLoadKeyPair             (* "LoadX509KeyPair() error loading cert" *)
| ErrReadCA                  (* "os.ReadFile() failed to read ca cert" *)
| ErrAppendCA                (* "AppendCertsFromPEM() failed to append client ca cert" *)
| ErrClientNeedsServerTLS.   (* "client TLS certificate verification requires server TLS ..." *)

Inductive tls_result : Type :=
| TlsErr (e : tls_err)
| NoTLS                      (* (nil, nil) *)
| TLS (c : tls_config).

Definition tls_decision (sc : secconf) (o : file_oracle) : tls_result :=
  (* if conf.TlsCert != "" { LoadX509KeyPair ... useTls = true } *)
  match (if is_empty (sc_cert sc) then Some false
         else if load_x509_key_pair o (sc_cert sc) (sc_key sc) then Some true else None) with
  | None => TlsErr ErrLoadKeyPair
  | Some has_cert =>
      (* if conf.ClientCA != "" {...} else if conf.ClientCertVerify {...} *)
      match (if negb (is_empty (sc_ca sc)) then
               match fo_read o (sc_ca sc) with
               | None => inl ErrReadCA
               | Some pem => if fo_append_pem o pem
                             then inr (true, RequireAndVerifyClientCert, true)
                             else inl ErrAppendCA
               end
             else if sc_verify sc then inr (false, RequireAndVerifyClientCert, true)
             else inr (false, NoClientCert, false)) with
      | inl e => TlsErr e
      | inr (cas, auth, use_client) =>
          let use_tls := has_cert || use_client in
          if use_tls && is_empty (sc_cert sc) then TlsErr ErrClientNeedsServerTLS
          else if use_tls then TLS {| tc_certs := has_cert; tc_client_cas := cas; tc_client_auth := auth |}
          else NoTLS
      end
  end.

(* ------------------------------------------------------------------------- *)
(** * Listeners and start-up (grpc.Run, rest.NewRestServer, rest.Run, net.Run)   *)

Inductive listener : Type :=
| LPlain
| LTls (c : tls_config).

Inductive entry : Type := EGrpc | ERest.

Inductive start_err : Type :=
| SEListen                   (* net.Listen failed *)
| SETls (e : tls_err).

(** What is outside the security configuration. *)
Record run_env : Type := {
  env_grpc_listen_ok : bool;    (* net.Listen("tcp", conf.ListenAddress) succeeds *)
  env_rest_configured : bool;   (* conf.RestListenAddress != "" *)
  env_rest_listen_ok : bool     (* the REST address can be bound *)
}.

(** grpc.Run: Listen; GetTLSConfig error => startup fails; creds iff tlsConfig != nil. *)
Definition grpc_listener (sc : secconf) (env : run_env) (o : file_oracle) : start_err + listener :=
  if negb (env_grpc_listen_ok env) then inl SEListen
  else match tls_decision sc o with
       | TlsErr e => inl (SETls e)
       | NoTLS => inr LPlain
       | TLS c => inr (LTls c)
       end.

(** rest.NewRestServer: fails iff GetTLSConfig fails; otherwise srv.TLSConfig is its result. *)
Definition rest_new (sc : secconf) (o : file_oracle) : tls_err + option tls_config :=
  match tls_decision sc o with
  | TlsErr e => inl e
  | NoTLS => inr None
  | TLS c => inr (Some c)
  end.

(** What http.Server.ServeTLS does with a nil TLSConfig. *)
Definition default_tls_config : tls_config :=
  {| tc_certs := true; tc_client_cas := false; tc_client_auth := NoClientCert |}.

(** The goroutine of rest.Run (rest.go:314-322): ListenAndServeTLS(cert, key) iff both file
    names are non-empty, else ListenAndServe. ListenAndServeTLS binds, then loads the key pair
    AGAIN (net/http: certFile != "") and serves with a clone of srv.TLSConfig. Any error other
    than ErrServerClosed panics — after net.Run has already returned success. [None] = panic. *)
Definition rest_serve (sc : secconf) (cfg : option tls_config) (env : run_env) (o : file_oracle)
  : option listener :=
  if negb (is_empty (sc_cert sc)) && negb (is_empty (sc_key sc)) then
    if negb (env_rest_listen_ok env) then None
    else if load_x509_key_pair o (sc_cert sc) (sc_key sc)
         then Some (LTls (match cfg with
                          | Some c => {| tc_certs := true; tc_client_cas := tc_client_cas c;
                                         tc_client_auth := tc_client_auth c |}
                          | None => default_tls_config
                          end))
         else None
  else if env_rest_listen_ok env then Some LPlain else None.

Definition rest_listener (sc : secconf) (env : run_env) (o_new o_serve : file_oracle)
  : start_err + option listener :=
  match rest_new sc o_new with
  | inl e => inl (SETls e)
  | inr cfg => inr (rest_serve sc cfg env o_serve)
  end.

Inductive startup_result : Type :=
| StartErr (who : entry) (e : start_err)   (* net.Run returns an error; main exits 1 *)
| StartPanic                               (* net.Run returned nil, then the REST goroutine panicked: the process dies *)
| Running (g : listener) (r : option listener)
          (grpc_pw rest_pw : bool).        (* interceptor installed / handler.password != "" *)

(** net.Run: gRPC first; REST only if RestListenAddress != ""; if REST fails the gRPC server is
    closed and the error returned. The files are read up to three times (grpc.Run,
    NewRestServer, ListenAndServeTLS), so three oracles: the theorems do not assume the files
    stay the same in between. (Between grpc.Run returning and grpcClose() the gRPC listener is
    serving with the credentials grpc.Run computed; a failed start-up is modelled by its end
    state only.) *)
Definition startup (sc : secconf) (env : run_env) (o_grpc o_rest o_serve : file_oracle)
  : startup_result :=
  match grpc_listener sc env o_grpc with
  | inl e => StartErr EGrpc e
  | inr g =>
      let pw := negb (is_empty (sc_password sc)) in
      if env_rest_configured env then
        match rest_listener sc env o_rest o_serve with
        | inl e => StartErr ERest e
        | inr None => StartPanic
        | inr (Some r) => Running g (Some r) pw pw
        end
      else Running g None pw pw
  end.

(** ** The property's predicate on a start-up outcome (model outcome or observed outcome). *)
Definition tls_configured (sc : secconf) : bool :=
  negb (is_empty (sc_cert sc)) || sc_verify sc || negb (is_empty (sc_ca sc)).
Definition verify_configured (sc : secconf) : bool :=
  sc_verify sc || negb (is_empty (sc_ca sc)).

Definition listener_tls (l : listener) : bool :=
  match l with LTls _ => true | LPlain => false end.
Definition listener_verifies (l : listener) : bool :=
  match l with
  | LTls c => client_auth_eqb (tc_client_auth c) RequireAndVerifyClientCert
  | LPlain => false
  end.

Definition listeners_of (g : listener) (r : option listener) : list listener :=
  g :: match r with Some l => [l] | None => [] end.

Definition tls_enforced (sc : secconf) (env : run_env) (res : startup_result) : bool :=
  match res with
  | StartErr _ _ | StartPanic => true
  | Running g r gp rp =>
      (negb (tls_configured sc) || forallb listener_tls (listeners_of g r))
      && (negb (verify_configured sc) || forallb listener_verifies (listeners_of g r))
      && (negb (env_rest_configured env) || match r with Some _ => true | None => false end)
      && (is_empty (sc_password sc) || (gp && rp))
  end.

(* ------------------------------------------------------------------------- *)
(** * Helpers for generated case files (hex literals)                           *)

Definition hex_val (a : Ascii.ascii) : option nat :=
  let n := Ascii.nat_of_ascii a in
  if (48 <=? n)%nat && (n <=? 57)%nat then Some (n - 48)
  else if (97 <=? n)%nat && (n <=? 102)%nat then Some (n - 87)
  else None.

Fixpoint of_hex (s : string) : str :=
  match s with
  | String a (String b r) =>
      match hex_val a, hex_val b with
      | Some h, Some l => byte_of_nat (16 * h + l) :: of_hex r
      | _, _ => []
      end
  | _ => []
  end.
