(** C20 — REST session lifetime.

    "A REST session stays valid as long as consecutive requests are less than the session timeout apart
    and becomes invalid promptly after a full timeout of idleness or a DELETE; requests carrying a
    missing, unknown or expired cookie are refused (401 for lock, unlock and renew) and have no effect.
    Expiry, deletion and in-flight requests racing each other end the session exactly once, release its
    holds once, and never deadlock or crash the gateway."

    Model: Model/Rest.v. Sequential layer (virtual time, exact): [C20_valid], [C20_gap_rule],
    [C20_gap_accept], [C20_expire], [C20_delete]. Fine-grained layer (one step per shared-memory operation
    of rest.go / timermap.go, blocking mutexes, an armed timer may fire at any moment), for EVERY schedule:
    [C20_once], [C20_no_nil], [C20_no_deadlock], [C20_serve_before_end], [C20_mutex]. ConnEnd is Mseq's
    EDisconnect of the session, which releases its holds (C06); delivered once, they are released once.
    Proofs: Proofs/RestSeq1.v, Proofs/RestSeq3.v, Proofs/RestFine.v (inductive invariants, no bounded search). *)
From Coq Require Import String.
From Ldlm Require Import Model.Base Model.Err Model.Seq Model.Track Model.Rest Proofs.RestDefs.
From Ldlm Require Proofs.RestSeq1 Proofs.RestSeq3 Proofs.RestFine.
Local Open Scope Z_scope.

(** ** Sequential layer *)

(** A request is accepted iff its cookie is in the table with its idle deadline in the future; then the deadline
    is re-armed to now + timeout (before the request is served) and nothing else of the gateway changes.
    Otherwise the answer is 401 and NOTHING changes — neither the lock server nor the table. *)
Theorem C20_valid : ∀ cfg tmo st c q st' o,
  (st', o) ∈ rstep cfg tmo st (RRequest c q) → q ≠ QNoop 401 →
  (valid_cookie st c →
     401 ∉ statuses o ∧ r_now st' = r_now st ∧
     ∃ c' se, c = Some c' ∧ r_table st !! c' = Some se ∧
              r_table st' = <[c' := RSess (rs_sid se) (r_now st + tmo)]> (r_table st)) ∧
  (¬ valid_cookie st c → st' = st ∧ o = [ROStatus 401]).
Proof. exact RestSeq1.C20_valid. Qed.
Print Assumptions C20_valid.

(** The gap rule. After ANY history the table is exactly the set of sessions that were created, not deleted, and
    whose every gap between consecutive accepted requests (and creation) was < timeout ([gap_run]: read off the
    history alone), each with idle deadline = instant of its last accepted request (or creation) + timeout, in the future. *)
Theorem C20_gap_rule : ∀ cfg tmo h st os,
  0 < tmo → (st, os) ∈ rruns cfg tmo (rinit cfg) h →
  r_now st = gp_now (gap_run tmo h) ∧
  r_table st = (λ gs, RSess (gs_sid gs) (gs_last gs + tmo)) <$> gp_live (gap_run tmo h) ∧
  (∀ c se, r_table st !! c = Some se → r_now st < rs_deadline se).
Proof. exact RestSeq1.C20_gap_rule. Qed.
Print Assumptions C20_gap_rule.

(** Hence: after any history, the next request is accepted iff the gap rule says its cookie is live; a refused
    request is inert. *)
Theorem C20_gap_accept : ∀ cfg tmo h st os c q st' o,
  0 < tmo → (st, os) ∈ rruns cfg tmo (rinit cfg) h → q ≠ QNoop 401 →
  (st', o) ∈ rstep cfg tmo st (RRequest c q) →
  (gap_valid (gap_run tmo h) c = true → 401 ∉ statuses o) ∧
  (gap_valid (gap_run tmo h) c = false → st' = st ∧ o = [ROStatus 401]).
Proof. exact RestSeq1.C20_gap_accept. Qed.
Print Assumptions C20_gap_accept.

(** Prompt expiry: an advance that reaches a session's idle deadline removes the session and delivers its ConnEnd
    within that event; sessions whose deadline is not reached are untouched; ConnEnd goes to exactly the expired
    sessions, once each. *)
Theorem C20_expire : ∀ cfg tmo st dt st' o,
  (st', o) ∈ rstep cfg tmo st (RAdvance dt) →
  let target := r_now st + Z.max 0 dt in
  (∀ c se, r_table st !! c = Some se → rs_deadline se ≤ target →
           r_table st' !! c = None ∧ ROEnd (rs_sid se) ∈ o) ∧
  (∀ c se, r_table st !! c = Some se → target < rs_deadline se → r_table st' !! c = Some se) ∧
  (∀ c, r_table st !! c = None → r_table st' !! c = None) ∧
  ends o ≡ₚ expired_sids target st ∧
  r_now st' = Z.max (r_now st) target.
Proof. exact RestSeq1.C20_expire. Qed.
Print Assumptions C20_expire.

(** DELETE: a session in the table ends with exactly one ConnEnd; anything else is refused and inert. *)
Theorem C20_delete : ∀ cfg tmo st c st' o,
  (st', o) ∈ rstep cfg tmo st (RDelete c) →
  match c with
  | Some c' =>
      match r_table st !! c' with
      | Some se => r_table st' = delete c' (r_table st) ∧ ends o = [rs_sid se] ∧ statuses o = [200]
      | None => st' = st ∧ o = [ROStatus 409]
      end
  | None => st' = st ∧ o = [ROStatus 500]
  end.
Proof. exact RestSeq1.C20_delete. Qed.
Print Assumptions C20_delete.

(** The gateway's virtual clock is the lock server's. *)
Theorem C20_clock : ∀ cfg tmo h st os,
  (st, os) ∈ rruns cfg tmo (rinit cfg) h → st_now (r_seq st) = r_now st.
Proof. exact RestSeq3.rest_clock. Qed.
Print Assumptions C20_clock.

(** ** Fine-grained layer: every schedule of every finite set of handler goroutines *)

(** ConnEnd is delivered at most once per session, never while the session is in the table or before it was
    created, and exactly once in every finished run in which the session was deleted or expired. *)
Theorem C20_once : ∀ pool sch c, pool_ok pool →
  let st := frun (finit pool) sch in
  (fs_connend (sess st c) ≤ 1)%nat ∧
  (fs_entry (sess st c) = true → fs_connend (sess st c) = 0%nat) ∧
  (fs_created (sess st c) = false → fs_connend (sess st c) = 0%nat) ∧
  (finished st → fs_created (sess st c) = true → fs_entry (sess st c) = false → fs_connend (sess st c) = 1%nat).
Proof. exact RestFine.C20_once. Qed.
Print Assumptions C20_once.

(** No crash: whenever Reset succeeded under sessionsMtx the table entry exists (no nil session is dereferenced),
    and no mutex is unlocked while unlocked. *)
Theorem C20_no_nil : ∀ pool sch t c p, pool_ok pool →
  let st := frun (finit pool) sch in
  f_pool st !! t = Some (c, p) →
  p ≠ Panic ∧ (p = Q1b → fs_entry (sess st c) = true).
Proof. exact RestFine.C20_no_nil. Qed.
Print Assumptions C20_no_nil.

(** No deadlock: in every reachable state with an unfinished thread some thread can step. *)
Theorem C20_no_deadlock : ∀ pool sch, pool_ok pool →
  let st := frun (finit pool) sch in
  (∃ t c p, f_pool st !! t = Some (c, p) ∧ final_pc p = false) →
  ∃ t, is_Some (fstep st (SRun t)).
Proof. exact RestFine.C20_no_deadlock. Qed.
Print Assumptions C20_no_deadlock.

(** An in-flight request finishes before its session's ConnEnd: nothing is served on an ended session. *)
Theorem C20_serve_before_end : ∀ pool sch c, pool_ok pool →
  fs_late (sess (frun (finit pool) sch) c) = false.
Proof. exact RestFine.C20_serve_before_end. Qed.
Print Assumptions C20_serve_before_end.

(** The two mutexes exclude: an owner is a live thread inside the critical section. *)
Theorem C20_mutex : ∀ pool sch t c p, pool_ok pool →
  let st := frun (finit pool) sch in
  f_pool st !! t = Some (c, p) →
  (holds_s p = true ↔ f_smtx st = Some t) ∧
  (∀ c', fs_mtx (sess st c') = Some t ↔ c' = c ∧ holds_m p = true).
Proof. exact RestFine.C20_mutex. Qed.
Print Assumptions C20_mutex.

(** ** Non-vacuity *)

(** Sequential: a history with a lease, a request at gap timeout-1ns (accepted), an idle gap of exactly the timeout
    (expired, ConnEnd within the advance), a request with the expired cookie (401), an unknown cookie (401). *)
Definition ex_cfg : config := Config false false 1800000000000 300000000000 600000000000.
Definition ex_tmo : Z := 2000000000.
Definition ex_h : list revent :=
  [RCreate [x63] [x73]; RRequest (Some [x63]) (QTry [x61] None (Some 9) [x6b]); RAdvance 1999999999;
   RRequest (Some [x63]) (QRenew [x61] [x6b] 9); RAdvance 2000000000;
   RRequest (Some [x63]) (QUnlock [x61] [x6b]); RRequest (Some [x7a]) (QUnlock [x61] [x6b]); RRequest None (QNoop 404)].

Example C20_seq_nonvacuous :
  0 < ex_tmo ∧
  ∃ st, rruns ex_cfg ex_tmo (rinit ex_cfg) ex_h =
    [(st, [[ROStatus 201]; [ROStatus 200; ROSeq (OResp (RLock true [x6b] None))]; [];
           [ROStatus 200; ROSeq (OResp (RLock true [x6b] None))]; [ROEnd [x73]];
           [ROStatus 401]; [ROStatus 401]; [ROStatus 401]])] ∧
    map_to_list (r_table st) = [] ∧ map_to_list (gp_live (gap_run ex_tmo ex_h)) = [] ∧ r_now st = 3999999999.
Proof. split; [reflexivity|]. eexists. split; [vm_compute; reflexivity|]. split; [|split]; by vm_compute. Qed.

(** Fine-grained: POST /session, a request, the idle timer firing while a second request and a DELETE are under way:
    a finished run in which the session ended — with exactly one ConnEnd; the pool satisfies [pool_ok]. *)
Definition ex_pool : gmap thr (positive * pc) :=
  {[ TUser 1 := (1%positive, K0); TUser 2 := (1%positive, Q0); TUser 3 := (1%positive, D0); TUser 4 := (1%positive, Q0) ]}.
Definition ex_sch : list sitem :=
  (* create *) [SRun (TUser 1); SRun (TUser 1); SRun (TUser 1); SRun (TUser 1)] ++
  (* request 2 up to serving *) [SRun (TUser 2); SRun (TUser 2); SRun (TUser 2); SRun (TUser 2); SRun (TUser 2)] ++
  (* the timer fires; its function takes the table mutex, deletes the entry, waits for the session mutex *)
  [SFire 1; SRun (TCb 1); SRun (TCb 1); SRun (TCb 1); SRun (TCb 1)] ++
  (* DELETE and request 4 are blocked on the table mutex; request 2 finishes; the callback delivers ConnEnd *)
  [SRun (TUser 3); SRun (TUser 4); SRun (TUser 2); SRun (TUser 2);
   SRun (TCb 1); SRun (TCb 1); SRun (TCb 1); SRun (TCb 1); SRun (TCb 1)] ++
  (* DELETE finds nothing (409), request 4 is refused (401) *)
  [SRun (TUser 3); SRun (TUser 3); SRun (TUser 3); SRun (TUser 4); SRun (TUser 4); SRun (TUser 4)].

Example C20_fine_nonvacuous :
  pool_ok ex_pool ∧
  let st := frun (finit ex_pool) ex_sch in
  map_to_list (f_pool st) = [(TUser 1, (1%positive, Done (Some R201))); (TUser 2, (1%positive, Done (Some R200)));
                             (TUser 4, (1%positive, Done (Some R401))); (TUser 3, (1%positive, Done (Some R409)));
                             (TCb 1, (1%positive, Done None))] ∧
  fs_created (sess st 1) = true ∧ fs_entry (sess st 1) = false ∧ fs_connend (sess st 1) = 1%nat ∧ fs_served (sess st 1) = 1%nat.
Proof.
  split.
  - split.
    + intros t c p H. unfold ex_pool in H.
      repeat (apply lookup_insert_Some in H as [[<- H]|[_ H]]; [inversion H; subst; split; [reflexivity|eexists; reflexivity]|]).
      apply lookup_singleton_Some in H as [<- H]. inversion H; subst. split; [reflexivity|eexists; reflexivity].
    + intros t1 t2 c H1 H2. unfold ex_pool in H1, H2.
      repeat (apply lookup_insert_Some in H1 as [[<- H1]|[_ H1]]; [|]);
      try (apply lookup_singleton_Some in H1 as [<- H1]); try discriminate H1;
      repeat (apply lookup_insert_Some in H2 as [[<- H2]|[_ H2]]; [|]);
      try (apply lookup_singleton_Some in H2 as [<- H2]); try discriminate H2; try reflexivity.
  - vm_compute. repeat split.
Qed.
