(** C20 — REST session lifetime.

    "A REST session stays valid as long as consecutive requests are less than the session timeout apart
    and becomes invalid promptly after a full timeout of idleness or a DELETE; requests carrying a
    missing, unknown or expired cookie are refused (401 for lock, unlock and renew) and have no effect.
    Expiry, deletion and in-flight requests racing each other end the session exactly once, release its
    holds once, and never deadlock or crash the gateway."

    Model: Model/Rest.v. Sequential layer (virtual time, exact): [C20_valid], [C20_gap_rule],
    [C20_gap_accept], [C20_expire], [C20_delete]. Fine-grained layer (one step per shared-memory operation
    of rest.go / timermap.go, blocking mutexes, an armed timer may fire at any moment), for EVERY schedule:
    [C20_once], [C20_no_nil], [C20_no_deadlock], [C20_serve_before_end], [C20_mutex]. ConnEnd is Mseq's
    EDisconnect of the session, which releases its holds (C06); delivered once, they are released once.
    Proofs: Proofs/RestSeq1.v, Proofs/RestSeq3.v, Proofs/RestFine.v (inductive invariants, no bounded search). *)
From Coq Require Import String.
From Ldlm Require Import Model.Base Model.Err Model.Seq Model.Track Model.Rest Proofs.RestDefs.
From Ldlm Require Proofs.RestSeq1 Proofs.RestSeq3 Proofs.RestFine.
From Ldlm Require Import Proofs.RestExamples.
Local Open Scope Z_scope.

(** ** Sequential layer *)

(** A request is accepted iff its cookie is in the table with its idle deadline in the future; then the deadline
    is re-armed to now + timeout (before the request is served) and nothing else of the gateway changes.
    Otherwise the answer is 401 and NOTHING changes — neither the lock server nor the table. *)
Theorem C20_valid : ∀ cfg tmo st c q st' o,
  (st', o) ∈ rstep cfg tmo st (RRequest c q) → q ≠ QNoop 401 →
  (valid_cookie st c →
     401 ∉ statuses o ∧ r_now st' = r_now st ∧
     ∃ c' se, c = Some c' ∧ r_table st !! c' = Some se ∧
              r_table st' = <[c' := RSess (rs_sid se) (r_now st + tmo)]> (r_table st)) ∧
  (¬ valid_cookie st c → st' = st ∧ o = [ROStatus 401]).
Proof. exact RestSeq1.C20_valid. Qed.
Print Assumptions C20_valid.

(** The gap rule. After ANY history the table is exactly the set of sessions that were created, not deleted, and
    whose every gap between consecutive accepted requests (and creation) was < timeout ([gap_run]: read off the
    history alone), each with idle deadline = instant of its last accepted request (or creation) + timeout, in the future. *)
Theorem C20_gap_rule : ∀ cfg tmo h st os,
  0 < tmo → (st, os) ∈ rruns cfg tmo (rinit cfg) h →
  r_now st = gp_now (gap_run tmo h) ∧
  r_table st = (λ gs, RSess (gs_sid gs) (gs_last gs + tmo)) <$> gp_live (gap_run tmo h) ∧
  (∀ c se, r_table st !! c = Some se → r_now st < rs_deadline se).
Proof. exact RestSeq1.C20_gap_rule. Qed.
Print Assumptions C20_gap_rule.

(** Hence: after any history, the next request is accepted iff the gap rule says its cookie is live; a refused
    request is inert. *)
Theorem C20_gap_accept : ∀ cfg tmo h st os c q st' o,
  0 < tmo → (st, os) ∈ rruns cfg tmo (rinit cfg) h → q ≠ QNoop 401 →
  (st', o) ∈ rstep cfg tmo st (RRequest c q) →
  (gap_valid (gap_run tmo h) c = true → 401 ∉ statuses o) ∧
  (gap_valid (gap_run tmo h) c = false → st' = st ∧ o = [ROStatus 401]).
Proof. exact RestSeq1.C20_gap_accept. Qed.
Print Assumptions C20_gap_accept.

(** Prompt expiry: an advance that reaches a session's idle deadline removes the session and delivers its ConnEnd
    within that event; sessions whose deadline is not reached are untouched; ConnEnd goes to exactly the expired
    sessions, once each. *)
Theorem C20_expire : ∀ cfg tmo st dt st' o,
  (st', o) ∈ rstep cfg tmo st (RAdvance dt) →
  let target := r_now st + Z.max 0 dt in
  (∀ c se, r_table st !! c = Some se → rs_deadline se ≤ target →
           r_table st' !! c = None ∧ ROEnd (rs_sid se) ∈ o) ∧
  (∀ c se, r_table st !! c = Some se → target < rs_deadline se → r_table st' !! c = Some se) ∧
  (∀ c, r_table st !! c = None → r_table st' !! c = None) ∧
  ends o ≡ₚ expired_sids target st ∧
  r_now st' = Z.max (r_now st) target.
Proof. exact RestSeq1.C20_expire. Qed.
Print Assumptions C20_expire.

(** DELETE: a session in the table ends with exactly one ConnEnd; anything else is refused and inert. *)
Theorem C20_delete : ∀ cfg tmo st c st' o,
  (st', o) ∈ rstep cfg tmo st (RDelete c) →
  match c with
  | Some c' =>
      match r_table st !! c' with
      | Some se => r_table st' = delete c' (r_table st) ∧ ends o = [rs_sid se] ∧ statuses o = [200]
      | None => st' = st ∧ o = [ROStatus 409]
      end
  | None => st' = st ∧ o = [ROStatus 500]
  end.
Proof. exact RestSeq1.C20_delete. Qed.
Print Assumptions C20_delete.

(** The gateway's virtual clock is the lock server's. *)
Theorem C20_clock : ∀ cfg tmo h st os,
  (st, os) ∈ rruns cfg tmo (rinit cfg) h → st_now (r_seq st) = r_now st.
Proof. exact RestSeq3.rest_clock. Qed.
Print Assumptions C20_clock.

(** ** Fine-grained layer: every schedule of every finite set of handler goroutines *)

(** ConnEnd is delivered at most once per session, never while the session is in the table or before it was
    created, and exactly once in every finished run in which the session was deleted or expired. *)
Theorem C20_once : ∀ pool sch c, pool_ok pool →
  let st := frun (finit pool) sch in
  (fs_connend (sess st c) ≤ 1)%nat ∧
  (fs_entry (sess st c) = true → fs_connend (sess st c) = 0%nat) ∧
  (fs_created (sess st c) = false → fs_connend (sess st c) = 0%nat) ∧
  (finished st → fs_created (sess st c) = true → fs_entry (sess st c) = false → fs_connend (sess st c) = 1%nat).
Proof. exact RestFine.C20_once. Qed.
Print Assumptions C20_once.

(** No crash: whenever Reset succeeded under sessionsMtx the table entry exists (no nil session is dereferenced),
    and no mutex is unlocked while unlocked. *)
Theorem C20_no_nil : ∀ pool sch t c p, pool_ok pool →
  let st := frun (finit pool) sch in
  f_pool st !! t = Some (c, p) →
  p ≠ Panic ∧ (p = Q1b → fs_entry (sess st c) = true).
Proof. exact RestFine.C20_no_nil. Qed.
Print Assumptions C20_no_nil.

(** No deadlock: in every reachable state with an unfinished thread some thread can step. *)
Theorem C20_no_deadlock : ∀ pool sch, pool_ok pool →
  let st := frun (finit pool) sch in
  (∃ t c p, f_pool st !! t = Some (c, p) ∧ final_pc p = false) →
  ∃ t, is_Some (fstep st (SRun t)).
Proof. exact RestFine.C20_no_deadlock. Qed.
Print Assumptions C20_no_deadlock.

(** An in-flight request finishes before its session's ConnEnd: nothing is served on an ended session. *)
Theorem C20_serve_before_end : ∀ pool sch c, pool_ok pool →
  fs_late (sess (frun (finit pool) sch) c) = false.
Proof. exact RestFine.C20_serve_before_end. Qed.
Print Assumptions C20_serve_before_end.

(** The two mutexes exclude: an owner is a live thread inside the critical section. *)
Theorem C20_mutex : ∀ pool sch t c p, pool_ok pool →
  let st := frun (finit pool) sch in
  f_pool st !! t = Some (c, p) →
  (holds_s p = true ↔ f_smtx st = Some t) ∧
  (∀ c', fs_mtx (sess st c') = Some t ↔ c' = c ∧ holds_m p = true).
Proof. exact RestFine.C20_mutex. Qed.
Print Assumptions C20_mutex.

(** ** Non-vacuity (the runs are computed once in Proofs/RestExamples.v) *)

(** Sequential: a history with a lease, a request at gap timeout-1ns (accepted), an idle gap of exactly the timeout
    (expired, ConnEnd within the advance), then the expired cookie, an unknown cookie and no cookie (401 each): its one run
    produces [ex20_os], ends with an empty table at instant 3999999999, and the gap rule's live set is empty as well. *)
Example C20_seq_nonvacuous :
  0 < ex20_tmo ∧
  map rview (rruns ex20_cfg ex20_tmo (rinit ex20_cfg) ex20_h) = [([], 3999999999, ex20_os)] ∧
  map_to_list (gp_live (gap_run ex20_tmo ex20_h)) = [].
Proof. exact RestExamples.c20_seq_nonvacuous. Qed.

(** Fine-grained: POST /session, a request, the idle timer firing while it is served, a DELETE and a second request
    queued behind the table mutex: the pool satisfies [pool_ok]; the run is finished (201, 200, 401, 409, callback done);
    the session was created, is no longer in the table, got exactly one ConnEnd and served one request. *)
Example C20_fine_nonvacuous :
  pool_ok ex20_pool ∧
  fview (frun (finit ex20_pool) ex20_sch) 1 =
    ([(TUser 1, (1%positive, Done (Some R201))); (TUser 2, (1%positive, Done (Some R200)));
      (TUser 4, (1%positive, Done (Some R401))); (TUser 3, (1%positive, Done (Some R409)));
      (TCb 1, (1%positive, Done None))],
     (true, false, 1%nat, 1%nat)).
Proof. exact RestExamples.c20_fine_nonvacuous. Qed.
