(** C17 — the state file codec round-trips every map and rejects damaged input safely.

    Model: [Model/Codec.v] (store.go AS IT IS NOW — the validator [checkEncoding] of commit
    48482ed in front of benc's decoder, Write through "<path>.tmp" + rename of commit d2d0157 —
    and benc v1.1.8, byte for byte, with benc's panics and unbacked allocations as explicit
    outcomes).  Proofs: [Proofs/CodecP1-5.v].

    [go_bytes b] ([blen b <= 6 * (2^48 / 40)], about 42 TB) is the only side condition of the
    safety theorems: beyond it a count the validator accepts can exceed what [make([]cl.Lock, s)]
    accepts on linux/amd64 and the faithful model panics there, as the code would. *)
From Ldlm Require Import Model.Base Model.Codec.
From Ldlm Require Import Proofs.CodecP1 Proofs.CodecP2 Proofs.CodecP3 Proofs.CodecP4 Proofs.CodecP5.

Local Open Scope N_scope.

(** LEB128 varint (bstd.MarshalUint / UnmarshalUint / SizeUint): every 64-bit value
    round-trips at any offset of any buffer, and SizeUint is the marshalled length. *)
Theorem C17_varint : forall v : N,
  v < 2 ^ 64 ->
  (forall pre post,
      unmarshal_uint (pre ++ marshal_uint v ++ post) (blen pre) = Ok (blen pre + size_uint v, v))
  /\ size_uint v = blen (marshal_uint v)
  /\ 1 <= size_uint v <= 10.
Proof. exact varint_roundtrip. Qed.
Print Assumptions C17_varint.

(** int32: 4 bytes, little endian, two's complement. *)
Theorem C17_int32 : forall v : Z,
  (- 2 ^ 31 <= v < 2 ^ 31)%Z ->
  (forall pre post,
      unmarshal_int32 (pre ++ marshal_int32 v ++ post) (blen pre) = Ok (blen pre + 4, v))
  /\ blen (marshal_int32 v) = 4.
Proof. exact int32_roundtrip. Qed.
Print Assumptions C17_int32.

(** Round trip through the validator and benc's decoder, whatever order Go's map
    iteration visits the entries in. *)
Theorem C17_roundtrip : forall es es' : entries,
  wf es -> es' ≡ₚ es -> decode (encode es') = DecOk (to_map es).
Proof. exact roundtrip. Qed.
Print Assumptions C17_roundtrip.

(** After any sequence of writes (of any lengths, starting from any file) the state
    file is exactly the encoding of the last map — no stale tail — and reads back as
    that map; a file that was never written reads as no locks. *)
Theorem C17_rewrite : forall (f : fs) (ws : list entries) (es es' : entries),
  wf es -> es' ≡ₚ es ->
  state_file (file_writes f (ws ++ [es'])) = encode es'
  /\ file_read (file_writes f (ws ++ [es'])) = DecOk (to_map es).
Proof. exact rewrite_reads_last. Qed.
Print Assumptions C17_rewrite.

Theorem C17_rewrite_none : file_read (file_writes fs_new []) = DecOk ∅.
Proof. exact file_read_new. Qed.
Print Assumptions C17_rewrite_none.

(** [store.Write] replaces the state file in one step.  Stop a sequence of writes [ws] after
    any number [k] of its steps (open "<path>.tmp" with O_TRUNC / write + sync / rename): the
    state file is exactly the file left by the [k / 3] writes that were completed — a complete
    old or new image, never an empty or partial one. *)
Theorem C17_atomic : forall (f : fs) (ws : list entries) (k : nat),
  state_file (foldl fs_step f (take k (all_steps ws)))
  = state_file (file_writes f (take (k / 3) ws)).
Proof. exact (fun f ws k => crash_image ws f k). Qed.
Print Assumptions C17_atomic.

(** ... also when the data write itself is cut short (any bytes [d'] reached the temporary
    file), and under any steps other than the rename. *)
Theorem C17_torn : forall (f : fs) (d' : list byte) (ss : list write_step),
  state_file (foldl fs_step f [WOpenTrunc; WData d']) = state_file f
  /\ (Forall (fun s => s <> WRename) ss -> state_file (foldl fs_step f ss) = state_file f).
Proof. exact (fun f d' ss => conj (torn_write_keeps f d') (fs_steps_keep ss f)). Qed.
Print Assumptions C17_torn.

(** Hence at every instant the state file is the initial image or the complete encoding of one
    of the maps written, and reads back as that map. *)
Theorem C17_crash_reads : forall (f : fs) (ws : list entries) (k : nat),
  Forall wf ws ->
  let f' := foldl fs_step f (take k (all_steps ws)) in
  state_file f' = state_file f
  \/ exists es, es ∈ ws /\ state_file f' = encode es /\ file_read f' = DecOk (to_map es).
Proof. exact crash_reads. Qed.
Print Assumptions C17_crash_reads.

(** Every byte string a Go process can hold decodes to a map or to an error — never a
    panic, never an allocation request the input does not back, never "out of fuel". *)
Theorem C17_safe : forall b : list byte,
  go_bytes b -> (exists m, decode b = DecOk m) \/ (exists e, decode b = DecErr e).
Proof. exact decode_safe. Qed.
Print Assumptions C17_safe.

(** [store.Read] on whatever the state file holds (the empty file reads as no locks). *)
Theorem C17_read_safe : forall f : fs,
  go_bytes (state_file f) ->
  (exists m, file_read f = DecOk m) \/ (exists e, file_read f = DecErr e).
Proof. exact file_read_safe. Qed.
Print Assumptions C17_read_safe.

(** ... because whatever the validator accepts, benc's decoder decodes. *)
Theorem C17_validated : forall b : list byte,
  go_bytes b -> check_encoding b = None -> exists m, benc_decode b = DecOk m.
Proof. exact validated_benc_safe. Qed.
Print Assumptions C17_validated.

(** [decode] is "validate, then benc" and the validator itself cannot panic. *)
Theorem C17_decode_eq : forall b : list byte,
  decode b = match check_encoding b with Some e => DecErr e | None => benc_decode b end.
Proof. exact decode_eq. Qed.
Print Assumptions C17_decode_eq.

Theorem C17_validator_safe : forall b : list byte,
  check_encoding_r b = Ok tt \/ exists e, check_encoding_r b = Err e.
Proof. exact check_encoding_r_cases. Qed.
Print Assumptions C17_validator_safe.

(** The number of slice elements and map entries [make] is asked for while decoding
    ([decode_i] = [decode] instrumented) is at most a sixth of the file length. *)
Theorem C17_alloc : forall b : list byte,
  go_bytes b -> (decode_i b).1 = decode b /\ (decode_i b).2 <= blen b / 6.
Proof. exact (fun b H => conj eq_refl (decode_alloc b H)). Qed.
Print Assumptions C17_alloc.

(** Without the validator benc's decoder panics and over-allocates (this is what
    store.Read did before commit 48482ed): the validator is needed. *)
Theorem C17_unchecked_refuted :
  (exists b, benc_decode b = DecPanic WhySliceBounds)
  /\ (exists b, benc_decode b = DecPanic WhyMakeSliceLen)
  /\ (exists b s, benc_decode b = DecAlloc s /\ blen b < s)
  /\ (exists b, blen b / 6 < (benc_decode_i b).2).
Proof.
  exact (conj (ex_intro _ w_panic benc_decode_panics)
        (conj (ex_intro _ w_makeslice benc_decode_makeslice)
        (conj (ex_intro _ w_alloc (ex_intro _ _ (conj benc_decode_allocs eq_refl)))
              (ex_intro _ w_panic eq_refl)))).
Qed.
Print Assumptions C17_unchecked_refuted.

(** The model's loop fuel is never exhausted: no outcome above is an artefact. *)
Theorem C17_fuel : forall b : list byte,
  decode b <> DecPanic WhyFuel /\ benc_decode b <> DecPanic WhyFuel
  /\ check_encoding_r b <> Panic WhyFuel.
Proof. exact (fun b => conj (decode_fuel b) (conj (benc_decode_fuel b) (check_encoding_fuel b))). Qed.
Print Assumptions C17_fuel.

(** The file identifies the table: two different lock tables never share a file image, so
    a reader cannot be handed another table's holds by a byte-identical file. *)
Theorem C17_injective : forall es1 es2 : entries,
  wf es1 -> wf es2 -> encode es1 = encode es2 -> to_map es1 = to_map es2.
Proof. exact encode_determines_map. Qed.
Print Assumptions C17_injective.

(** The hypotheses are satisfiable: empty strings, non-ASCII bytes, an empty session,
    negative and extreme sizes; the empty map; and the witnesses are Go byte slices. *)
Definition C17_example : entries :=
  [ ([x73; x31], [ ([x61], [x6b], 5%Z); ([], [xff; x00; xc3; xa9], (-1)%Z) ]);
    ([], []);
    ([xe2; x82; xac], [ ([x62], [], (- 2 ^ 31)%Z); ([x62], [x6b], (2 ^ 31 - 1)%Z) ]) ].

Example C17_example_wf : wf C17_example /\ wf [] /\ go_bytes (encode C17_example)
                         /\ go_bytes w_panic /\ go_bytes w_alloc.
Proof.
  assert (Hwf : wf C17_example).
  { unfold wf. split_and!; [compute_done | by vm_compute |].
    repeat constructor; by vm_compute. }
  split_and!; [done | split_and!; [constructor | by vm_compute | constructor] | by vm_compute..].
Qed.
Print Assumptions C17_example_wf.

Example C17_example_roundtrip :
  decode (encode C17_example) = DecOk (to_map C17_example)
  /\ decode (encode (reverse C17_example)) = DecOk (to_map C17_example)
  /\ decode (encode []) = DecOk ∅
  /\ encode [] = [x00; x01; x01; x01; x01].
Proof.
  assert (Hwf : wf C17_example) by apply C17_example_wf.
  split_and!.
  - by apply C17_roundtrip.
  - apply C17_roundtrip; [done | apply reverse_Permutation].
  - by apply (C17_roundtrip [] []); [apply C17_example_wf|].
  - by vm_compute.
Qed.
Print Assumptions C17_example_roundtrip.

(** A longer map, then the empty map, on a fresh file, stopped at every step: empty until the
    first rename, the first image until the second rename (also while the shorter encoding is
    sitting in the temporary file), then exactly the 5 bytes of the empty map. *)
Example C17_example_crash :
  let at_step k := state_file (foldl fs_step fs_new (take k (all_steps [C17_example; []]))) in
  at_step 0%nat = [] /\ at_step 2%nat = [] /\ at_step 3%nat = encode C17_example
  /\ at_step 5%nat = encode C17_example /\ at_step 6%nat = encode []
  /\ (length (encode []) <? length (encode C17_example))%nat = true.
Proof. cbv zeta. split_and!; by vm_compute. Qed.
Print Assumptions C17_example_crash.
