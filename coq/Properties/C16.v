(** C16 — Password and TLS settings are enforced on every entry point or startup fails.

    Statements only; the proofs are in Proofs/AuthP.v, the definitions in Model/Auth.v
    (written from net/rest/rest.go, net/grpc/grpc.go, net/security/security.go, net/net.go and
    go1.26.8's encoding/base64 and strings). The model is tied to the code by
    harness/authdiff (checks/c16.py). *)
From Coq Require Import String.
From Ldlm Require Import Model.Base Model.Auth Proofs.AuthP.

(* ------------------------------------------------------------------------- *)
(** * REST *)

(** An accepted request contains exactly the configured password: its Authorization header is
    [pre ++ "Basic " ++ b] where [b] is the base64 (as Go's StdEncoding decodes it) of
    [user ":" pw] for a colon-free [user]. *)
Theorem C16_rest_sound : forall pw hdr : str,
  pw <> [] -> rest_password_ok pw hdr = true ->
  exists pre b user,
    hdr = pre ++ basic_sp ++ b /\ b64decode b = Some (user ++ colon ++ pw) /\ ~ In x3a user.
Proof. exact rest_sound. Qed.
Print Assumptions C16_rest_sound.

(** Stronger form: there is exactly one "Basic " in an accepted header. *)
Theorem C16_rest_sound_unique : forall pw hdr : str,
  pw <> [] -> rest_password_ok pw hdr = true ->
  exists pre b user,
    hdr = pre ++ basic_sp ++ b /\ b64decode b = Some (user ++ colon ++ pw) /\ ~ In x3a user
    /\ find_sep basic_sp hdr = Some (pre, b) /\ find_sep basic_sp b = None.
Proof. exact rest_password_ok_inv. Qed.
Print Assumptions C16_rest_sound_unique.

(** The header every Basic-auth client sends for the right password is accepted, whatever the
    password (it may contain ':' or "Basic ") and whatever the colon-free user name. No further
    side condition: base64 text contains no space, hence no second "Basic ". *)
Theorem C16_rest_complete : forall pw user : str,
  ~ In x3a user ->
  rest_password_ok pw (basic_sp ++ b64encode (user ++ colon ++ pw)) = true.
Proof. exact rest_complete. Qed.
Print Assumptions C16_rest_complete.

Theorem C16_b64_roundtrip : forall l : str, b64decode (b64encode l) = Some l.
Proof. exact b64_roundtrip. Qed.
Print Assumptions C16_b64_roundtrip.

(** The decidable predicate the harness evaluates on real outcomes ("accepted => carries the
    password") is the existential above. *)
Theorem C16_rest_carries_spec : forall pw hdr : str,
  rest_carries pw hdr = true <->
  exists pre b user,
    hdr = pre ++ basic_sp ++ b /\ b64decode b = Some (user ++ colon ++ pw) /\ ~ In x3a user.
Proof. exact rest_carries_spec. Qed.
Print Assumptions C16_rest_carries_spec.

(** A request that fails the check — on any path with any method, POST /session and
    DELETE /session included, whatever the rest of the handler ([proceed]) would do — gets 401
    with an empty body and no cookie, the state is returned unchanged, and the response does
    not depend on the state (it reveals nothing about locks or sessions). *)
Theorem C16_rest_gate :
  forall (state : Type) (proceed : rest_req -> state -> state * http_resp) (pw : str) (rq : rest_req),
  rest_password_ok pw (rq_authorization rq) = false ->
  forall st : state, rest_gate proceed pw rq st = (st, resp_401).
Proof. exact @rest_gate_rejects. Qed.
Print Assumptions C16_rest_gate.

Theorem C16_rest_gate_accepts :
  forall (state : Type) (proceed : rest_req -> state -> state * http_resp) (pw : str) (rq : rest_req),
  rest_password_ok pw (rq_authorization rq) = true ->
  forall st : state, rest_gate proceed pw rq st = proceed rq st.
Proof. exact @rest_gate_accepts. Qed.
Print Assumptions C16_rest_gate_accepts.

(* ------------------------------------------------------------------------- *)
(** * gRPC *)

(** Accepted iff the FIRST value of the [authorization] metadata key is the password. *)
Theorem C16_grpc : forall (pw : str) (md : option (list str)),
  pw <> [] ->
  (grpc_password_ok pw md = true <-> exists rest, md = Some (pw :: rest)).
Proof. exact grpc_ok_iff. Qed.
Print Assumptions C16_grpc.

(** Every rejection is a status (Unauthenticated), not a panic, for metadata the transport can
    deliver (a present key has at least one value). *)
Theorem C16_grpc_no_panic : forall (pw : str) (md : option (list str)),
  md <> Some [] -> match grpc_gate pw md with AuthPanic => False | _ => True end.
Proof. exact grpc_reject_unauthenticated. Qed.
Print Assumptions C16_grpc_no_panic.

(** The interceptor stands in front of EVERY unary method ([handler], request and response types
    are arbitrary): a call that fails the check returns the interceptor's status and no response
    message, the state is returned unchanged, and the answer does not depend on the state. *)
Theorem C16_grpc_gate :
  forall (state req resp : Type) (handler : req -> state -> state * resp)
         (pw : str) (md : option (list str)) (r : req),
  grpc_password_ok pw md = false ->
  forall st : state,
    grpc_serve handler pw md r st = (st, inl (grpc_gate pw md)) /\ grpc_gate pw md <> AuthAccept.
Proof. exact @grpc_serve_rejects. Qed.
Print Assumptions C16_grpc_gate.

Theorem C16_grpc_gate_accepts :
  forall (state req resp : Type) (handler : req -> state -> state * resp)
         (pw : str) (md : option (list str)) (r : req),
  grpc_password_ok pw md = true ->
  forall st : state,
    grpc_serve handler pw md r st = (fst (handler r st), inr (snd (handler r st))).
Proof. exact @grpc_serve_accepts. Qed.
Print Assumptions C16_grpc_gate_accepts.

(* ------------------------------------------------------------------------- *)
(** * TLS and start-up *)

(** The decision function GetTLSConfig on its own, for every configuration (all 16 set/unset
    combinations of certificate, key, flag, CA) and every file oracle: it answers "no TLS" only
    when nothing TLS-related is configured; a TLS configuration always has the server
    certificate (and a key was given), requires and verifies client certificates whenever the
    flag or a CA is configured, and carries the CA pool exactly when a CA is configured.
    Everything else is an error (start-up refused). *)
Theorem C16_tls_decision : forall (sc : secconf) (o : file_oracle),
  oracle_wf o ->
  match tls_decision sc o with
  | TlsErr _ => True
  | NoTLS => sc_cert sc = [] /\ sc_verify sc = false /\ sc_ca sc = []
  | TLS c =>
      sc_cert sc <> [] /\ sc_key sc <> [] /\ tc_certs c = true
      /\ (sc_verify sc = true \/ sc_ca sc <> [] -> tc_client_auth c = RequireAndVerifyClientCert)
      /\ (sc_verify sc = false -> sc_ca sc = [] -> tc_client_auth c = NoClientCert)
      /\ (sc_ca sc <> [] <-> tc_client_cas c = true)
  end.
Proof. exact tls_decision_table. Qed.
Print Assumptions C16_tls_decision.

(** For EVERY security configuration (in particular all 16 set/unset combinations of
    certificate, key, verification flag, client CA — and every password), every environment and
    every behaviour of the file system and the PEM/X.509 parsers at each of the three times the
    files are read: start-up fails (error or panic), or
    - REST, when configured, is listening;
    - if a certificate, client verification or a client CA is configured, EVERY listener uses TLS;
    - if client verification or a client CA is configured, every listener uses
      RequireAndVerifyClientCert;
    - if a password is configured, the gRPC interceptor is installed and the REST handler checks.
    The only assumption about the file system: reading the file named "" fails. *)
Theorem C16_tls : forall (sc : secconf) (env : run_env) (o1 o2 o3 : file_oracle),
  oracle_wf o1 -> oracle_wf o2 ->
  match startup sc env o1 o2 o3 with
  | StartErr _ _ | StartPanic => True
  | Running g r gp rp =>
      (env_rest_configured env = true -> exists l, r = Some l)
      /\ (sc_cert sc <> [] \/ sc_verify sc = true \/ sc_ca sc <> [] ->
          forall l, In l (listeners_of g r) -> exists c, l = LTls c)
      /\ (sc_verify sc = true \/ sc_ca sc <> [] ->
          forall l, In l (listeners_of g r) ->
          exists c, l = LTls c /\ tc_client_auth c = RequireAndVerifyClientCert)
      /\ (sc_password sc <> [] -> gp = true /\ rp = true)
  end.
Proof. exact tls_enforced_startup_prop. Qed.
Print Assumptions C16_tls.

(** The same, through the boolean predicate the harness evaluates on observed outcomes. *)
Theorem C16_tls_bool : forall (sc : secconf) (env : run_env) (o1 o2 o3 : file_oracle),
  oracle_wf o1 -> oracle_wf o2 -> tls_enforced sc env (startup sc env o1 o2 o3) = true.
Proof. exact tls_enforced_startup. Qed.
Print Assumptions C16_tls_bool.

(** The refusals are real: a certificate without a key is refused by gRPC's GetTLSConfig ... *)
Theorem C16_tls_cert_without_key_refused : forall sc env o1 o2 o3,
  oracle_wf o1 -> sc_cert sc <> [] -> sc_key sc = [] -> env_grpc_listen_ok env = true ->
  startup sc env o1 o2 o3 = StartErr EGrpc (SETls ErrLoadKeyPair).
Proof. exact startup_cert_without_key_fails. Qed.
Print Assumptions C16_tls_cert_without_key_refused.

(** ... and client verification without a certificate too. *)
Theorem C16_tls_verify_without_cert_refused : forall sc env o1 o2 o3,
  sc_cert sc = [] -> verify_configured sc = true -> env_grpc_listen_ok env = true ->
  exists e, startup sc env o1 o2 o3 = StartErr EGrpc (SETls e).
Proof. exact startup_verify_without_cert_fails. Qed.
Print Assumptions C16_tls_verify_without_cert_refused.

(** Reading decision (DESIGN.md §5 C16), stated so it can be challenged: a key file alone does
    not configure TLS; both listeners are plaintext and C16_tls does not object. *)
Theorem C16_tls_key_only_is_plaintext : forall sc env o1 o2 o3,
  sc_cert sc = [] -> sc_verify sc = false -> sc_ca sc = [] ->
  env_grpc_listen_ok env = true -> env_rest_configured env = true -> env_rest_listen_ok env = true ->
  startup sc env o1 o2 o3 =
    Running LPlain (Some LPlain) (negb (is_empty (sc_password sc))) (negb (is_empty (sc_password sc))).
Proof. exact startup_key_only_plain. Qed.
Print Assumptions C16_tls_key_only_is_plaintext.

(** [oracle_wf] is necessary: were [ReadFile("")] to succeed, "certificate without key" would
    start with TLS on gRPC and plaintext on REST. (rest.go chooses ListenAndServeTLS by
    [TlsCert != "" && TlsKey != ""], grpc.go by the result of GetTLSConfig; they agree only
    because LoadX509KeyPair(cert, "") cannot succeed.) *)
Theorem C16_tls_wf_necessary :
  exists sc env o, tls_configured sc = true /\ tls_enforced sc env (startup sc env o o o) = false.
Proof. exact tls_wf_necessary. Qed.
Print Assumptions C16_tls_wf_necessary.

(* ------------------------------------------------------------------------- *)
(** * Examples: the hypotheses are satisfiable and the definitions compute *)

Example C16_ex_rest_accept :
  rest_password_ok (s_ "secret") (s_ "Basic dXNlcjpzZWNyZXQ=") = true
  /\ b64encode (s_ "user:secret") = s_ "dXNlcjpzZWNyZXQ="
  /\ rest_password_ok (s_ "a:b Basic c") (basic_sp ++ b64encode (s_ "u:a:b Basic c")) = true.
Proof. vm_compute. auto. Qed.

Example C16_ex_rest_reject :
  map (rest_password_ok (s_ "secret"))
    [ s_ "";                                   (* missing *)
      s_ "Basic ";                             (* empty *)
      s_ "Basic dXNlcjpzZWNyZQ==";             (* user:secre  (prefix) *)
      s_ "Basic dXNlcjpzZWNyZXRz";             (* user:secrets (extension) *)
      s_ "Bearer dXNlcjpzZWNyZXQ=";            (* right password, wrong scheme *)
      s_ "basic dXNlcjpzZWNyZXQ=";             (* lower case *)
      s_ "Basic Basic dXNlcjpzZWNyZXQ=";       (* doubled *)
      s_ "Basic dXNlcjpzZWNyZXQ";              (* padding removed *)
      s_ "Basic c2VjcmV0";                     (* secret, no colon *)
      s_ "Basic dTp4OnNlY3JldA==" ]            (* u:x:secret *)
  = repeat false 10
  /\ (* accepted although unusual: any prefix before "Basic ", newlines inside the base64,
        non-canonical trailing bits (StdEncoding is not Strict) *)
  map (rest_password_ok (s_ "secret"))
    [ s_ "XBasic dXNlcjpzZWNyZXQ="; s_ "Bearer Basic dXNlcjpzZWNyZXQ=";
      [x42; x61; x73; x69; x63; x20; x0a] ++ s_ "dXNlcjpzZWNyZXQ=" ++ [x0d; x0a];
      s_ "Basic dXNlcjpzZWNyZXR=" ]
  = repeat true 4.
Proof. vm_compute. auto. Qed.

Example C16_ex_gate :
  let proceed (rq : rest_req) (st : list str) := (rq_path rq :: st, {| hr_status := 200; hr_body := concat st; hr_www_authenticate := None; hr_set_cookie := true |}) in
  let rq := {| rq_method := s_ "DELETE"; rq_path := s_ "/session"; rq_authorization := s_ "Basic c2VjcmV0";
               rq_cookie := Some (s_ "0123"); rq_body := [] |} in
  rest_gate proceed (s_ "secret") rq [s_ "lock-a"] = ([s_ "lock-a"], resp_401)
  /\ hr_status resp_401 = 401%Z /\ hr_body resp_401 = [] /\ hr_set_cookie resp_401 = false
  /\ fst (rest_gate proceed [] rq [s_ "lock-a"]) = [s_ "/session"; s_ "lock-a"].
Proof. vm_compute. auto. Qed.

Example C16_ex_grpc_gate :
  let handler (r : str) (st : list str) := (r :: st, concat st) in
  grpc_serve handler (s_ "secret") (Some [s_ "Secret"]) (s_ "unlock a") [s_ "lock-a"] = ([s_ "lock-a"], inl AuthInvalid)
  /\ grpc_serve handler (s_ "secret") None (s_ "unlock a") [s_ "lock-a"] = ([s_ "lock-a"], inl AuthMissing)
  /\ grpc_serve handler (s_ "secret") (Some [s_ "secret"]) (s_ "x") [s_ "lock-a"] = ([s_ "x"; s_ "lock-a"], inr (s_ "lock-a")).
Proof. vm_compute. auto. Qed.

Example C16_ex_grpc :
  map (grpc_gate (s_ "secret"))
    [ None; Some []; Some [s_ "secret"]; Some [s_ "secret"; s_ "x"]; Some [s_ "x"; s_ "secret"];
      Some [s_ "secre"]; Some [s_ "secrets"]; Some [s_ "Basic dXNlcjpzZWNyZXQ="] ]
  = [AuthMissing; AuthPanic; AuthAccept; AuthAccept; AuthInvalid; AuthInvalid; AuthInvalid; AuthInvalid]
  /\ grpc_gate [] None = AuthAccept.
Proof. vm_compute. auto. Qed.

(** The whole 16-entry matrix on a file system with a good certificate "c", key "k" and CA
    "a"; order: cert, key, verify, ca, the certificate varying slowest. *)
Example C16_ex_matrix :
  oracle_wf good_oracle /\
  matrix =
  [ both LPlain;                          (* ----            *)
    refused ErrClientNeedsServerTLS;      (* ---a            *)
    refused ErrClientNeedsServerTLS;      (* --v-            *)
    refused ErrClientNeedsServerTLS;      (* --va            *)
    both LPlain;                          (* -k--  key alone *)
    refused ErrClientNeedsServerTLS;      (* -k-a            *)
    refused ErrClientNeedsServerTLS;      (* -kv-            *)
    refused ErrClientNeedsServerTLS;      (* -kva            *)
    refused ErrLoadKeyPair;               (* c---  certificate without key *)
    refused ErrLoadKeyPair;               (* c--a            *)
    refused ErrLoadKeyPair;               (* c-v-            *)
    refused ErrLoadKeyPair;               (* c-va            *)
    both (tlsL false NoClientCert);                 (* ck--  *)
    both (tlsL true RequireAndVerifyClientCert);    (* ck-a  *)
    both (tlsL false RequireAndVerifyClientCert);   (* ckv-  *)
    both (tlsL true RequireAndVerifyClientCert) ].  (* ckva  *)
Proof. vm_compute. auto. Qed.

(** Bad files: unreadable or unparsable material refuses start-up; a certificate that
    disappears between grpc.Run and ListenAndServeTLS panics the process (never plaintext). *)
Example C16_ex_bad_files :
  let sc := {| sc_cert := s_ "c"; sc_key := s_ "k"; sc_verify := false; sc_ca := s_ "a"; sc_password := s_ "pw" |} in
  let gone := {| fo_read := fun _ : str => @None str; fo_x509_pair := fun _ _ => false; fo_append_pem := fun _ => false |} in
  let badca := {| fo_read := fo_read good_oracle; fo_x509_pair := fo_x509_pair good_oracle; fo_append_pem := fun _ => false |} in
  startup sc full_env gone good_oracle good_oracle = StartErr EGrpc (SETls ErrLoadKeyPair)
  /\ startup sc full_env badca good_oracle good_oracle = StartErr EGrpc (SETls ErrAppendCA)
  /\ startup sc full_env good_oracle gone good_oracle = StartErr ERest (SETls ErrLoadKeyPair)
  /\ startup sc full_env good_oracle good_oracle gone = StartPanic
  /\ startup sc full_env good_oracle good_oracle good_oracle
     = Running (tlsL true RequireAndVerifyClientCert) (Some (tlsL true RequireAndVerifyClientCert)) true true.
Proof. vm_compute. auto 10. Qed.
