(** C15 — REST ≡ gRPC.

    "Any sequence of lock (TryLock), unlock and renew requests produces the same responses, apart from
    the generated keys, and the same server state whether it is sent through the REST gateway or over
    gRPC, a REST session playing the role of a connection."

    Model: Model/Rest.v (Mrest, sequential layer) over Model/Seq.v (Mseq). The REST run of an abstract
    request list ([rest_runs]: POST /session, DELETE /session, the three routes with the session's
    cookie) and its gRPC run ([grpc_runs]: TagConn, HandleConn(ConnEnd), the Service methods with the
    connection's context) are compared run for run. The values the implementation draws (cookie, server
    session id, keys) are supplied by the items, equal on both sides; the correspondence harness
    (harness/restdiff) compares the REAL traces up to renaming by first occurrence. protojson decoding
    and the grpc-gateway runtime are exercised by the harness, not modelled. Proofs: Proofs/RestSeq2.v. *)
From Coq Require Import String.
From Ldlm Require Import Model.Base Model.Err Model.Seq Model.Track Model.Rest Proofs.RestDefs Proofs.RestSeq2 Proofs.RestExamples.
Local Open Scope Z_scope.

(** For every abstract request list in which no REST session idles out ([gaps_ok]: at every instant an
    advance reaches, every connected client's last activity is less than the timeout ago), with fresh
    cookies: the lock server's answers are equal run for run, the final lock-server states are equal, and
    the gateway refused no request. *)
Theorem C15_equiv : ∀ cfg tmo items,
  0 < tmo → NoDup (cookies_of items) → gaps_ok tmo 0 ∅ items = true →
  (∀ i, AReq i (QNoop 401) ∉ items) →
  map (λ '((st, _), os), (r_seq st, map strip os)) (rest_runs cfg tmo (rinit cfg, ∅) items)
    = map (λ '((s, _), os), (s, os)) (grpc_runs cfg (init_state cfg, ∅) items) ∧
  (∀ r os, (r, os) ∈ rest_runs cfg tmo (rinit cfg, ∅) items → Forall (λ o, not_refused o = true) os).
Proof. exact RestSeq2.C15_equiv. Qed.
Print Assumptions C15_equiv.

(** On ONE server: a request over a valid REST session is the same lock-server step — same answers, same
    resulting server state — as that request over a gRPC connection with the session's id, whatever
    transport earlier grants came from. *)
Theorem C15_mixed : ∀ cfg tmo st c se q ev,
  r_table st !! c = Some se → r_now st < rs_deadline se → req_event (rs_sid se) q = Some ev →
  map (λ '(st', o), (r_seq st', strip o)) (mstep cfg tmo st (MRest (RRequest (Some c) q)))
    = map (λ '(st', o), (r_seq st', strip o)) (mstep cfg tmo st (MGrpc ev)).
Proof. exact RestSeq2.C15_transparent. Qed.
Print Assumptions C15_mixed.

(** In particular a key granted over REST is accepted over gRPC (from any connection) ... *)
Theorem C15_mixed_rest_to_grpc : ∀ cfg tmo st c n sz lt k st1 o1 sid' st2 o2,
  (st1, o1) ∈ mstep cfg tmo st (MRest (RRequest (Some c) (QTry n sz lt k))) →
  ROSeq (OResp (RLock true k None)) ∈ o1 →
  (st2, o2) ∈ mstep cfg tmo st1 (MGrpc (EUnlock sid' n k)) →
  ROSeq (OResp (RUnlock true None)) ∈ o2.
Proof. exact RestSeq2.C15_mixed_rest_to_grpc. Qed.
Print Assumptions C15_mixed_rest_to_grpc.

(** ... and a key granted over gRPC is accepted over any valid REST session. *)
Theorem C15_mixed_grpc_to_rest : ∀ cfg tmo st sid n sz lt k st1 o1 c st2 o2,
  (st1, o1) ∈ mstep cfg tmo st (MGrpc (ETryLock (Some sid) n sz lt k)) →
  ROSeq (OResp (RLock true k None)) ∈ o1 →
  valid_cookie st1 (Some c) →
  (st2, o2) ∈ mstep cfg tmo st1 (MRest (RRequest (Some c) (QUnlock n k))) →
  ROSeq (OResp (RUnlock true None)) ∈ o2 ∧ 401 ∉ statuses o2.
Proof. exact RestSeq2.C15_mixed_grpc_to_rest. Qed.
Print Assumptions C15_mixed_grpc_to_rest.

(** Non-vacuity (the run is computed once in Proofs/RestExamples.v): a request list with two clients, a lease, idle gaps of
    timeout-1ns, a renew, a cross-client unlock, a gateway-answered exchange and a disconnect satisfies every hypothesis
    of [C15_equiv]; its REST run is [ex15_os], in which a grant and an unlock are answered 200. *)
Example C15_nonvacuous :
  0 < ex15_tmo ∧ NoDup (cookies_of ex15_items) ∧ gaps_ok ex15_tmo 0 ∅ ex15_items = true ∧
  (∀ i, AReq i (QNoop 401) ∉ ex15_items) ∧
  map snd (rest_runs ex15_cfg ex15_tmo (rinit ex15_cfg, ∅) ex15_items) = [ex15_os] ∧
  existsb (routs_eqb proj_all true ex15_grant) ex15_os = true ∧
  existsb (routs_eqb proj_all true ex15_unlock) ex15_os = true.
Proof. exact RestExamples.c15_nonvacuous. Qed.
