(** C19 — Go client: auto-renew keeps holds alive, stops at Unlock, handles many holds; retry rule.

    "With auto-renew on and a lock timeout above the client's minimum renew interval, a hold obtained through the Go
    client does not expire while the client is alive and has not unlocked it; once Unlock has returned no further renew
    for that hold is sent and nothing panics, for every timing of Unlock against the renew loop. Several holds, including
    several of the same counting lock, are renewed and unlocked independently, and only transport-unavailable errors are
    retried, at most MaxRetries times."

    The theorems are about Mclient (Model/Client.v: client/client.go transcribed, renew loop split into its atomic steps,
    Stop() as the non-blocking send it is) running over Mseq (Model/Seq.v), in virtual time, for schedules of arbitrary
    length. Gen/Consts.v (MinRenewSeconds, RetryDelaySeconds, the interval formula of renewer.Start) is regenerated from
    the tree under test on every run, so C19_interval and everything resting on it is re-proved against the current
    constants. The literal "for every timing of Unlock" and "several of the same counting lock" clauses are FALSE of the
    faithful model: C19_stop_refuted (F-STOPDROP) and C19_multi_refuted_* (F-RENEWMAP) exhibit the schedules (both
    reproduced on the real client by the harness); the clauses are proved outside exactly those two signatures
    ([excluded_stopdrop], [excluded_renewmap], decidable predicates over the executed schedule). [wf_sched] restricts the
    use of the API to what the property speaks about: no call on a closed client, no second Unlock of one hold. *)
From Ldlm Require Import Model.Base Model.Err Model.Seq Model.Client Gen.Consts.
From Ldlm Require Import Proofs.ClientSrvDefs Proofs.ClientSrv Proofs.ClientInvDefs Proofs.ClientP Proofs.ClientBasic Proofs.ClientStop Proofs.ClientAlive Proofs.ClientMulti.
Local Open Scope Z_scope.

(** ** The interval (over the regenerated constants) *)

(** a lock timeout above MinRenewSeconds is renewed strictly before it runs out, and not in a busy loop *)
Theorem C19_interval : ∀ T, client_MinRenewSeconds < T → 0 < interval T < T.
Proof. exact interval_bounds. Qed.
Print Assumptions C19_interval.

(** what the property excludes: with T <= MinRenewSeconds the first renew comes no earlier than the end of the lease *)
Theorem C19_interval_excluded : ∀ T, T ≤ client_MinRenewSeconds → T ≤ interval T.
Proof. exact interval_small. Qed.
Print Assumptions C19_interval_excluded.

Theorem C19_formula_recognised : renew_formula_recognised = true.
Proof. exact renew_formula_ok. Qed.
Print Assumptions C19_formula_recognised.

Example C19_interval_ex :
  (let T := client_MinRenewSeconds + 35 in client_MinRenewSeconds < T ∧ 0 < interval T ∧ interval T < T) ∧
  (let T := client_MinRenewSeconds + 1 in 0 < interval T ∧ interval T < T) ∧
  client_MinRenewSeconds ≤ interval client_MinRenewSeconds ∧
  cs_crashed (run cc_auto short_witness) = Some (CrRenewFailed 0).
Proof. vm_compute. repeat split; congruence. Qed.

(** ** A renewed hold never expires *)

(** For a hold obtained with auto-renew and T > MinRenewSeconds, in every run (of any length) in which no Unlock of it
    and no Close has been called, and in which virtual time is never advanced beyond the slack T - interval T while a
    Renew of it is in flight ([timely]: lag = answer latency of the previous Renew + request latency of this one):
    its renewer is never the goroutine that panics, and as long as the process is alive the server-side lease is armed
    with a deadline ([r_eff + T]) that lies after the present instant and after the next renew instant, and the hold
    occupies its unit of the lock. [excluded_renewmap]: see C19_multi_refuted_quiet — it is needed. *)
Theorem C19_alive : ∀ cc sched j h,
  cc_noauto cc = false → wf_sched cc sched = true → excluded_renewmap cc sched = false →
  timely cc j sched = true →
  let st := run cc sched in
  cs_holds st !! j = Some h → h_locked h = true → client_MinRenewSeconds < h_T h →
  h_unl h = false → cs_closed st = false →
  cs_crashed st ≠ Some (CrRenewFailed j) ∧ cs_crashed st ≠ Some (CrSendClosed j) ∧
  (cs_crashed st = None →
     ∃ r, h_ren h = Some r ∧ lease_inv st h r ∧ lease_ok st j = true ∧ held st j = true).
Proof. exact t_alive. Qed.
Print Assumptions C19_alive.

(** ** The retry rule *)

(** rpcWithRetry with budget n >= 0 on any script of transport outcomes: at most n+1 calls; a further call only after
    Unavailable; RetryDelaySeconds of sleep before every further call; the last outcome is returned, and it is
    Unavailable only if the budget is used up. ([None]: the script ended first, all of it Unavailable.) *)
Theorem C19_retry : ∀ (A : Type) (n : Z) (outs : list (toutcome A)) r calls sleeps,
  0 ≤ n →
  rpc_with_retry n outs = (r, calls, sleeps) →
  Z.of_nat calls ≤ n + 1 ∧ (calls ≤ length outs)%nat ∧
  (∀ i, (S i < calls)%nat → outs !! i = Some TUnavailable) ∧
  sleeps = repeat client_RetryDelaySeconds (length sleeps) ∧
  match r with
  | Some o =>
      (1 ≤ calls)%nat ∧ outs !! (calls - 1)%nat = Some o ∧ length sleeps = (calls - 1)%nat ∧
      (is_unavailable o = true → Z.of_nat calls = n + 1)
  | None => calls = length outs ∧ length sleeps = calls ∧ ∀ i o, outs !! i = Some o → o = TUnavailable
  end.
Proof. exact @retry_spec. Qed.
Print Assumptions C19_retry.

Example C19_retry_ex :
  rpc_with_retry 2 [TUnavailable; TUnavailable; TOk 7; TOk 8] = (Some (TOk 7), 3%nat, [client_RetryDelaySeconds; client_RetryDelaySeconds]) ∧
  rpc_with_retry 1 [TUnavailable; TUnavailable; TOk 7] = (Some (@TUnavailable Z), 2%nat, [client_RetryDelaySeconds]) ∧
  rpc_with_retry 3 [TUnavailable; TOtherErr 4; TOk 7] = (Some (@TOtherErr Z 4), 2%nat, [client_RetryDelaySeconds]) ∧
  rpc_with_retry 0 [@TUnavailable Z] = (Some TUnavailable, 1%nat, []).
Proof. vm_compute. repeat split; reflexivity. Qed.

(** ** After Unlock has returned *)

(** The literal clause — for EVERY position of the renewer — is false (F-STOPDROP, stop_while_renewer_in_rpc): Unlock while
    the renewer has left its select (its Renew kept in flight): Stop()'s non-blocking send is dropped, the Renew of the
    unlocked hold reaches the server after Unlock has returned, fails, and the goroutine panics. *)
Theorem C19_stop_refuted :
  ∃ cc sched j h,
    cc_noauto cc = false ∧ wf_sched cc sched = true ∧ excluded_renewmap cc sched = false ∧ timely cc j sched = true ∧
    cs_holds (run cc sched) !! j = Some h ∧ h_locked h = true ∧ client_MinRenewSeconds < h_T h ∧ h_unl h = true ∧
    p_stop j (cs_trace (run cc sched)) = false ∧ no_crash (cs_trace (run cc sched)) = false.
Proof. exact stop_refuted. Qed.
Print Assumptions C19_stop_refuted.

(** Outside that signature — no Unlock / Close calls Stop() on a renewer that has left its select — for every schedule and
    every hold: after Unlock of the hold has returned, no Renew of it reaches the server (or is attempted on a closed
    connection) and its renewer does not panic; the goroutine of an unlocked hold has returned. Schedules may run an
    Unlock in its three steps (IUnlockBegin: the renewer is stopped FIRST; IUnlockSend: the RPC reaches the server;
    IUnlockEnd: the reply is back) with virtual time and renew ticks in between — request or reply in flight, or
    rpcWithRetry asleep after an Unavailable attempt; [p_stop] then counts from the BEGINNING of the call (TUnlockCall):
    during the whole call no Renew of the hold is sent and nothing of its renewer panics — stronger than the property's
    "once Unlock has returned", and true of the code because Unlock stops the renewer before it sends. *)
Theorem C19_stop_holds_outside : ∀ cc sched j,
  wf_sched cc sched = true → excluded_stopdrop cc sched = false →
  p_stop j (cs_trace (run cc sched)) = true ∧
  (∀ h, cs_crashed (run cc sched) = None → cs_holds (run cc sched) !! j = Some h → h_unl h = true → ¬ running (run cc sched) j).
Proof. exact t_stop. Qed.
Print Assumptions C19_stop_holds_outside.

Example C19_stop_ex :
  excluded_stopdrop cc_auto stopdrop_witness = true ∧ excluded_stopdrop cc_auto stopdrop_witness_post = true ∧
  p_stop 0 (cs_trace (run cc_auto stopdrop_witness_post)) = false ∧
  wf_sched cc_auto good_witness = true ∧ excluded_stopdrop cc_auto good_witness = false ∧
  p_stop 1 (cs_trace (run cc_auto good_witness)) = true ∧
  (* an Unlock whose reply stays in flight for two renew intervals *)
  wf_sched cc_auto stepped_unlock_witness = true ∧ excluded_stopdrop cc_auto stepped_unlock_witness = false ∧
  p_stop 0 (cs_trace (run cc_auto stepped_unlock_witness)) = true ∧
  no_crash (cs_trace (run cc_auto stepped_unlock_witness)) = true.
Proof. vm_compute. repeat split; reflexivity. Qed.

(** ** Several holds *)

(** "including several of the same counting lock" is false (F-RENEWMAP, second_hold_same_name_autorenew; renewMap is keyed by
    lock NAME): two auto-renewed holds of one name panic "client out of sync"; *)
Theorem C19_multi_refuted_panic :
  ∃ cc sched,
    cc_noauto cc = false ∧ wf_sched cc sched = true ∧ excluded_stopdrop cc sched = false ∧
    timely cc 0 sched = true ∧ timely cc 1 sched = true ∧
    cs_crashed (run cc sched) = Some (CrOutOfSync 1).
Proof. exact multi_refuted_panic. Qed.
Print Assumptions C19_multi_refuted_panic.

(** and when the second hold has no lock timeout nothing panics, but unlocking it stops the renewer filed under the name —
    the first hold's — and the first hold expires although the client is alive, has not unlocked it, and every Renew
    was answered at once: the holds are not independent. *)
Theorem C19_multi_refuted_quiet :
  ∃ cc sched j h,
    cc_noauto cc = false ∧ wf_sched cc sched = true ∧ excluded_stopdrop cc sched = false ∧ timely cc j sched = true ∧
    cs_holds (run cc sched) !! j = Some h ∧ h_locked h = true ∧ client_MinRenewSeconds < h_T h ∧ h_unl h = false ∧
    cs_closed (run cc sched) = false ∧ cs_crashed (run cc sched) = None ∧
    lease_ok (run cc sched) j = false ∧ held (run cc sched) j = false.
Proof. exact multi_refuted_quiet. Qed.
Print Assumptions C19_multi_refuted_quiet.

(** Outside that signature (holds of this client that are held at the same time and of which one has a lock timeout are on
    pairwise different names): no out-of-sync panic; every hold keeps its own guarantee under its own hypotheses only —
    hold j stays alive if ITS Renews are timely, whatever happens to the others; Unlock of hold j ends exactly renewer j. *)
Theorem C19_multi_holds_outside : ∀ cc sched,
  cc_noauto cc = false → wf_sched cc sched = true → excluded_renewmap cc sched = false →
  let st := run cc sched in
  no_twin st ∧
  (∀ j, cs_crashed st ≠ Some (CrOutOfSync j)) ∧
  (∀ j h, timely cc j sched = true →
     cs_holds st !! j = Some h → h_locked h = true → client_MinRenewSeconds < h_T h → h_unl h = false → cs_closed st = false →
     cs_crashed st ≠ Some (CrRenewFailed j) ∧ cs_crashed st ≠ Some (CrSendClosed j) ∧
     (cs_crashed st = None → lease_ok st j = true ∧ held st j = true)) ∧
  (excluded_stopdrop cc sched = false → ∀ j, p_stop j (cs_trace st) = true).
Proof. exact multi_holds_outside. Qed.
Print Assumptions C19_multi_holds_outside.

(** the hypotheses are satisfiable together on a non-trivial run: three holds with timeouts MinRenewSeconds + 1, + 80, + 21 (11, 90, 31) on different names, a
    Renew kept 300 ms before and 200 ms after the server, 600 s of idle time, one hold unlocked while its renewer sleeps *)
Example C19_multi_ex :
  wf_sched cc_auto good_witness = true ∧
  excluded_stopdrop cc_auto good_witness = false ∧ excluded_renewmap cc_auto good_witness = false ∧
  timely cc_auto 0 good_witness = true ∧ timely cc_auto 1 good_witness = true ∧ timely cc_auto 2 good_witness = true ∧
  cs_crashed (run cc_auto good_witness) = None ∧ cs_closed (run cc_auto good_witness) = false ∧
  lease_ok (run cc_auto good_witness) 0 = true ∧ held (run cc_auto good_witness) 0 = true ∧
  lease_ok (run cc_auto good_witness) 2 = true ∧ held (run cc_auto good_witness) 2 = true ∧
  lease_ok (run cc_auto good_witness) 1 = false ∧ held (run cc_auto good_witness) 1 = false ∧
  p_stop 1 (cs_trace (run cc_auto good_witness)) = true ∧
  (20 < length (cs_trace (run cc_auto good_witness)))%nat.
Proof. exact good_witness_facts. Qed.

(** ** What the client model stands on *)

(** every schedule keeps the structure: renewMap entries are granted, not unlocked holds with a renewer, filed under their
    name; the server has no waiter; lease timers are filed under the key of the hold they release *)
Theorem C19_structure : ∀ cc sched, basic cc (run cc sched).
Proof. exact t_basic. Qed.
Print Assumptions C19_structure.

(** Mseq facts used (proved in Proofs/ClientSrv.v about Model/Seq.v) *)
Theorem C19_server_facts : srv_facts.
Proof. exact srv_facts_hold. Qed.
Print Assumptions C19_server_facts.
