(** C19 (provisional: interval, retry, refutations; the invariants follow). *)
From Ldlm Require Import Model.Base Model.Err Model.Seq Model.Client Gen.Consts Proofs.ClientP.
Local Open Scope Z_scope.

Theorem C19_interval : ∀ T, client_MinRenewSeconds < T → 0 < interval T < T.
Proof. exact interval_bounds. Qed.
Print Assumptions C19_interval.
