(** C14 — Every error condition keeps its specific code end to end.

    Each error condition (lock does not exist, invalid key, wait timeout, lock does not exist or
    invalid key on renew, size mismatch, invalid size) reaches the caller with its own error code
    over gRPC and over REST, and the Go client returns the matching exported error value.
    Successful responses never carry an error, and responses that carry an error never report
    locked or unlocked as true.

    The theorems are about the tables Gen/ErrTables.v and Gen/Consts.v, which are regenerated from the
    source tree under test on every run (the two switches, the enum, client's re-exports, the
    REST routes), composed with the response model of Model/ErrCond.v. [srv_result_ok] — a lock server
    entry point never returns locked/unlocked = true together with an error — is a hypothesis
    (an assumption about server/server.go, checked by the harness on every real answer). *)
From Coq Require Import ZArith List String.
From Ldlm Require Import Model.Base Model.Err Model.ErrCond Gen.ErrTables Gen.Consts Proofs.GenChecks.
Import ListNotations.

(** The translator recognised both switches and the enum of the current tree. *)
Theorem C14_tables_recognised : tables_recognised = true.
Proof. exact tables_ok. Qed.
Print Assumptions C14_tables_recognised.

(** Each condition's error value gets the condition's own code from the server-side switch, and the
    client-side switch turns that code into the exported client variable of the same name, which
    is the server-side value. *)
Theorem C14_codes : forall c : cond,
  srv_code (cond_err c) = cond_code c /\ cli_err (cond_code c) = Some (cond_client_err c).
Proof. exact GenChecks.C14_codes. Qed.
Print Assumptions C14_codes.

Theorem C14_client_vars : forall c : cond,
  cli_var (cond_code c) = Some (cond_client_var c) /\
  export_of (cond_client_var c) = Some (Some (cond_client_err c)).
Proof. exact GenChecks.C14_client_vars. Qed.
Print Assumptions C14_client_vars.

(** "Its own": the six codes are pairwise distinct (also as wire numbers), none of them is the code an
    unmatched error gets, and their names are the conditions' names. *)
Theorem C14_codes_distinct :
  (forall c c', cond_code c = cond_code c' -> c = c') /\
  (forall c c', code_num (cond_code c) = code_num (cond_code c') -> c = c') /\
  (forall c, cond_code c <> srv_default /\ cond_code c <> Code_Unknown) /\
  (forall c, code_name (cond_code c) = cond_code_name c) /\
  (forall a b : code, code_num a = code_num b -> a = b).
Proof.
  exact (conj cond_code_inj (conj cond_code_num_inj (conj cond_code_specific (conj cond_code_name_ok code_num_inj)))).
Qed.
Print Assumptions C14_codes_distinct.

(** Every code other than Unknown is returned by the client as an exported value; Unknown and
    unmatched errors stay anonymous. The .pb.go constants, its name map and ldlm.proto agree. *)
Theorem C14_enum :
  (forall k : code, k <> Code_Unknown ->
     exists v e, cli_var k = Some v /\ cli_err k = Some e /\ e <> EOther /\ export_of v = Some (Some e)) /\
  (cli_err Code_Unknown = None /\ cli_var Code_Unknown = None) /\
  (srv_default = Code_Unknown /\ srv_code EOther = Code_Unknown) /\
  (subset_pairs pbgo_enum proto_enum = true /\ subset_pairs proto_enum pbgo_enum = true /\
   subset_pairs pbgo_enum pbgo_name_map = true /\ subset_pairs pbgo_name_map pbgo_enum = true).
Proof. exact (conj every_code_exported (conj unknown_is_anonymous (conj unmatched_is_unknown enum_agrees))). Qed.
Print Assumptions C14_enum.

(** Well-formedness of every response the Service methods build from a lock server answer
    satisfying [srv_result_ok]: no Error iff the server returned no error; an Error implies
    locked / unlocked = false. *)
Theorem C14_wellformed : forall r : srv_ret,
  srv_result_ok (ret_flag r) (ret_err r) ->
  (r_error (gresp r) = None <-> ret_err r = None) /\
  (r_error (gresp r) <> None -> r_flag (gresp r) = false).
Proof. exact GenChecks.C14_wellformed. Qed.
Print Assumptions C14_wellformed.

(** End to end: whenever the lock server answers with the condition's error value, the message carries
    the condition's own code and flag false, and client.Client returns (false, the exported value). *)
Theorem C14_end_to_end : forall (c : cond) (r : srv_ret),
  srv_result_ok (ret_flag r) (ret_err r) -> ret_err r = Some (cond_err c) ->
  r_error (gresp r) = Some (cond_code c) /\
  r_flag (gresp r) = false /\
  e2e r = (false, CEValue (cond_client_err c)).
Proof. exact GenChecks.C14_end_to_end. Qed.
Print Assumptions C14_end_to_end.

(** Success (and a plain refusal: locked = false without error) carries no Error, and the client
    returns a nil error exactly then. *)
Theorem C14_success : forall r : srv_ret,
  (ret_err r = None -> r_error (gresp r) = None /\ e2e r = (ret_flag r, CENil)) /\
  (snd (e2e r) = CENil <-> ret_err r = None).
Proof. exact (fun r => conj (GenChecks.C14_success r) (C14_client_nil_iff r)). Qed.
Print Assumptions C14_success.

(** REST: the gateway calls the same Service methods in process; its routes are exactly
    POST /v1/lock -> TryLock, /v1/unlock -> Unlock, /v1/renew -> Renew (generated gateway and
    .api_config.yaml agree). Lock is not exposed, so the wait-timeout condition is the one condition
    that cannot arise over REST. *)
Theorem C14_rest :
  rest_registers_in_process = true /\
  rest_routes_gw = expected_rest_routes /\
  rest_routes_yaml = expected_rest_routes /\
  (forall r, rest_exposes r = negb (bool_decide (r = RLock))) /\
  (forall c, rest_reachable c = negb (bool_decide (c = CWaitTimeout))).
Proof. exact GenChecks.C14_rest. Qed.
Print Assumptions C14_rest.

(** The hypotheses are satisfiable on concrete, non-trivial answers of the lock server. *)

(* Renew of an unknown (name, key): server.go returns (&Lock{Locked: false}, ErrLockDoesNotExistOrInvalidKey). *)
Example C14_ex_renew :
  let r := RetLock (Some false) (Some ESrvDoesNotExistOrInvalidKey) in
  srv_result_ok (ret_flag r) (ret_err r) /\
  ret_err r = Some (cond_err CRenewDoesNotExistOrInvalidKey) /\
  gresp r = Resp false (Some Code_LockDoesNotExistOrInvalidKey) /\
  code_num Code_LockDoesNotExistOrInvalidKey = 5%Z /\
  e2e r = (false, CEValue ESrvDoesNotExistOrInvalidKey).
Proof. vm_compute. repeat split; congruence. Qed.

(* Unlock with a wrong key: (false, lock.ErrInvalidLockKey); early exit of Lock on a negative lock timeout: (nil, ErrInvalidLockTimeout),
   an error outside the six conditions: code Unknown, anonymous on the client, still well-formed. *)
Example C14_ex_unlock_and_nil :
  let r1 := RetUnlock false (Some ELockInvalidLockKey) in
  let r2 := RetLock None (Some ESrvInvalidLockTimeout) in
  srv_result_ok (ret_flag r1) (ret_err r1) /\ srv_result_ok (ret_flag r2) (ret_err r2) /\
  gresp r1 = Resp false (Some Code_InvalidLockKey) /\ e2e r1 = (false, CEValue ELockInvalidLockKey) /\
  gresp r2 = Resp false (Some Code_Unknown) /\ e2e r2 = (false, CEAnonymous).
Proof. vm_compute. repeat split; congruence. Qed.

(* A grant, and a plain refusal: no Error either way; and an answer that violates the assumption is
   copied through unchanged, i.e. the hypothesis of C14_wellformed is needed. *)
Example C14_ex_success :
  gresp (RetLock (Some true) None) = Resp true None /\ e2e (RetLock (Some true) None) = (true, CENil) /\
  gresp (RetLock (Some false) None) = Resp false None /\
  gresp (RetUnlock true None) = Resp true None /\
  ~ srv_result_ok true (Some ELockInvalidLockKey) /\
  gresp (RetUnlock true (Some ELockInvalidLockKey)) = Resp true (Some Code_InvalidLockKey).
Proof.
  vm_compute. repeat split; try congruence.
  intros H. specialize (H ltac:(congruence)). discriminate H.
Qed.

(** * Under races (Msv)

    The theorems above take [srv_result_ok] as a hypothesis about server/server.go. For the interleaving model of the lock server
    (Model/Sv.v: every interleaving of the request, expiry, session-end and shutdown steps; tied to the code by T2 layer 2, whose
    oracle evaluates the same clause on every real response) it is a theorem, together with the converse direction for the
    operations that have no plain refusal. Proofs: Proofs/SvWf.v (an invariant of [vstep], for EVERY item sequence). *)
From Ldlm Require Import Model.Sv Proofs.SvDefs.
From Ldlm Require Proofs.SvWf.

(** Every finished call's response, in every reachable state: a success bit excludes an error; Lock and Unlock never answer
    false without an error. TryLock's plain refusal (false, no error) and Renew (see below) are the exceptions. *)
Theorem C14_responses_wellformed : forall cfg s tid t b e,
  vreach cfg s -> v_thr s !! tid = Some t -> st_pc t = VFin (SResp b e) ->
  (b = true -> e = None) /\
  (match st_op t with STry _ _ _ _ _ | SRenew _ _ _ => True | _ => b = false -> e <> None end).
Proof. exact SvWf.C14_responses_wellformed. Qed.
Print Assumptions C14_responses_wellformed.

(** ... which discharges the hypothesis of [C14_wellformed] / [C14_end_to_end] for every answer of Msv. *)
Theorem C14_srv_result_ok_under_races : forall cfg s tid t b e,
  vreach cfg s -> v_thr s !! tid = Some t -> st_pc t = VFin (SResp b e) -> srv_result_ok b e.
Proof.
  intros cfg s tid t b e Hr Ht Hpc He. destruct (SvWf.C14_responses_wellformed cfg s tid t b e Hr Ht Hpc) as [H _].
  destruct b; [specialize (H eq_refl); contradiction|reflexivity].
Qed.
Print Assumptions C14_srv_result_ok_under_races.

(** "Renew: locked=false -> an error" is false of the model and of the code (timermap.Reset finds the entry of a timer that has
    already fired and returns (false, nil)): a reachable state in which a Renew has answered (false, no error) — the hold is even
    still live, its callback has not run yet. *)
Theorem C14_renew_strict_refuted : exists cfg s tid t n k lt,
  vreach cfg s /\ v_thr s !! tid = Some t /\ st_op t = SRenew n k lt /\ st_pc t = VFin (SResp false None) /\ slive s n k.
Proof. exact SvWf.C14_renew_strict_refuted. Qed.
Print Assumptions C14_renew_strict_refuted.

(** That is the only way: a Renew answers false without an error only when the lease timer of that very hold has fired, its entry is
    still in the timer map and its callback goroutine is in flight: started and not returned (the oracle's clause for Renew). *)
Theorem C14_renew_silent_refusal : forall cfg s tid t n k lt t',
  vreach cfg s -> v_thr s !! tid = Some t -> st_op t = SRenew n k lt -> st_pc t = VTmReset ->
  v_thr (vstep cfg s (VRun tid)) !! tid = Some t' -> st_pc t' = VFin (SResp false None) ->
  exists id tm tid' x, v_timers s !! tkey n k = Some id /\ v_theap s !! id = Some tm /\ tm_st tm = TFired /\ tm_n tm = n /\ tm_k tm = k /\
                       v_thr s !! tid' = Some x /\ st_op x = SExpire id /\ st_pc x <> VEnd.
Proof. exact SvWf.C14_renew_silent_refusal_in_flight. Qed.
Print Assumptions C14_renew_silent_refusal.
