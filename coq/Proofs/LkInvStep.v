(** [LInv] is preserved by every step of Mlk: the per-pc case analysis. *)
From Coq Require Import Lia ZifyBool ZifyNat.
From Ldlm Require Import Model.Base Model.Err Model.Lk Proofs.LkDefs Proofs.LkInvBase Proofs.LkInvMove Proofs.LkInvMove2.
From RecordUpdate Require Import RecordSet.
Import RecordSetNotations.
Local Open Scope Z_scope.

(** ** states up to the trace *)
Lemma core_eq_refl s : core_eq s s.
Proof. by repeat split. Qed.
Lemma core_eq_trans s1 s2 s3 : core_eq s1 s2 → core_eq s2 s3 → core_eq s1 s3.
Proof. unfold core_eq. intros (?&?&?&?&?&?&?) (?&?&?&?&?&?&?). split_and!; congruence. Qed.
Lemma core_eq_emit e s1 s2 : core_eq s1 s2 → core_eq s1 (emit e s2).
Proof. done. Qed.
Lemma core_eq_emit_grants n w s1 s2 : core_eq s1 s2 → core_eq s1 (emit_grants n w s2).
Proof. destruct (emit_grants_trace n w s2) as [tr ->]. done. Qed.
Lemma core_eq_set_pc tid pc s1 s2 : core_eq s1 s2 → core_eq (set_pc tid pc s1) (set_pc tid pc s2).
Proof.
  unfold core_eq, set_pc. intros (?&?&?&?&?&Ht&?). rewrite Ht.
  destruct (l_thr s1 !! tid); simpl; split_and!; congruence.
Qed.
Lemma core_eq_set_obj_id oid o s : l_heap s !! oid = Some o → core_eq (set_obj oid o s) s.
Proof. intros H. unfold core_eq, set_obj. simpl. rewrite insert_id by done. done. Qed.

Ltac core_tac :=
  repeat first [ apply core_eq_refl | apply core_eq_emit | apply core_eq_emit_grants | apply core_eq_set_pc ].

Lemma linv_obj_step s s' tid t pc' oid o o' :
  LInv s → l_thr s !! tid = Some t → l_heap s !! oid = Some o →
  core_eq (set_pc tid pc' (set_obj oid o' s)) s' →
  local_ok s tid t (t <| t_pc := pc' |>) oid o o' → LInv s'.
Proof.
  intros HI Ht Ho (H1&H2&H3&H4&H5&H6&H7) L.
  unfold set_pc, set_obj in *. simpl in *. rewrite Ht in *. simpl in *.
  by eapply (linv_move_obj s s' tid t _ oid o o' HI Ht H6 Ho H1).
Qed.

Lemma local_ok_pure s tid t t' oid o :
  LInv s → l_thr s !! tid = Some t → l_heap s !! oid = Some o →
  pc_oid (t_pc t) = Some oid → pc_oid (t_pc t') = Some oid →
  t_op t' = t_op t →
  in_transit oid t' = in_transit oid t →
  (W (t_pc t) oid ↔ W (t_pc t') oid) →
  (∀ x, t_pc t' = PAcqCancel x → t_cancel t' ≠ None) →
  (t_cancel t' ≠ None → ∃ n k z, t_op t = OLock n k z) →
  pc_kind (t_op t) (t_pc t') →
  (∀ x r, t_pc t = PDone x r → t_pc t' = PDone x r) →
  (t_pc t' = PDone oid (LRes true None) → t_pc t = PDone oid (LRes true None)) →
  local_ok s tid t t' oid o o.
Proof.
  intros HI Ht Ho Hpc Hpc' Hop Htr HW Hwc Hc Hk Hd Hd'.
  destruct (linv_ref_alive s tid t oid HI Ht Hpc) as (o1 & ? & Hdel & ? & ? & ? & ?). simplify_eq.
  constructor.
  - (* op *) done.
  - (* pc *) congruence.
  - (* pc' *) congruence.
  - (* pcname *) congruence.
  - (* name *) done.
  - (* size *) done.
  - (* del *) done.
  - (* del' *) done.
  - (* last *) by apply (li_time s HI oid).
  - (* users *) unfold refs. rewrite Hpc, Hpc'. lia.
  - (* units *) rewrite Htr. done.
  - (* bound *) by apply (li_units s HI oid o).
  - (* queue *) intros x. split.
    + intros Hx. destruct (decide (x = tid)) as [->|]; [right|by left]. split; [done|]. apply HW.
      destruct (li_queue s HI _ _ _ Ho Hx) as (t1 & ? & ?). by simplify_eq.
    + intros [[_ ?]|[-> HW']]; [done|]. apply HW in HW'. destruct (li_waiting s HI _ _ _ Ht HW') as (o1 & ? & ?). by simplify_eq.
  - (* nodup *) by apply (li_queue_nodup s HI oid).
  - (* wcancel *) done.
  - (* cancel *) done.
  - (* wake *) by apply (li_no_lost_wakeup s HI oid).
  - (* kind *) done.
  - (* keys_nodup *) by apply (li_keys s HI oid).
  - (* keys *) by left.
  - (* wit *) intros Ha x [Hx|Hx]; [left; by apply Hd|]. rewrite Hx in Hpc. done.
  - (* removed *) done.
  - (* done *) intros _ Hx. left. by apply Hd'.
  - (* fin *) intros _ Hx. rewrite Hx in Hpc'. done.
  - (* finr *) intros r Hx. rewrite Hx in Hpc. done.
  - (* shut *) intros Hs. pose proof (li_shut s HI Hs tid t Ht) as Hf. destruct (t_pc t); done.
Qed.

Lemma linv_pc_step s s' tid t pc' oid :
  LInv s → l_thr s !! tid = Some t →
  pc_oid (t_pc t) = Some oid → pc_oid pc' = Some oid →
  core_eq (set_pc tid pc' s) s' →
  in_transit oid (t <| t_pc := pc' |>) = in_transit oid t →
  (W (t_pc t) oid ↔ W pc' oid) →
  (∀ x, pc' = PAcqCancel x → t_cancel t ≠ None) →
  pc_kind (t_op t) pc' →
  (∀ x r, t_pc t = PDone x r → pc' = PDone x r) →
  (pc' = PDone oid (LRes true None) → t_pc t = PDone oid (LRes true None)) →
  LInv s'.
Proof.
  intros HI Ht Hpc Hpc' Hc Htr HW Hwc Hk Hd Hd'.
  destruct (linv_ref_alive s tid t oid HI Ht Hpc) as (o & Ho & _).
  eapply (linv_obj_step s s' tid t pc' oid o o HI Ht Ho).
  - eapply core_eq_trans; [|exact Hc]. apply core_eq_set_pc, core_eq_set_obj_id. done.
  - apply local_ok_pure; try done. apply (li_cancel_lock s HI tid t Ht).
Qed.

Lemma linv_thr_step s s' tid t pc' :
  LInv s → l_thr s !! tid = Some t →
  pc_oid (t_pc t) = None → pc_oid pc' = None →
  core_eq (set_pc tid pc' s) s' →
  (∀ r, t_pc t = PFin r → pc' = PFin r) →
  (is_acq (t_op t) = true → pc' = PFin (LRes true None) → t_pc t = PFin (LRes true None)) →
  (l_shut s = true → in_flight pc' = false) →
  LInv s'.
Proof.
  intros HI Ht Hpc Hpc' (H1&H2&H3&H4&H5&H6&H7) Hf Hf' Hs.
  unfold set_pc in *. rewrite Ht in *. simpl in *.
  eapply (linv_move_thr s s' tid (t <| t_pc := pc' |>) HI H6); simpl; try done.
  - intros t0 ?. by simplify_eq.
  - intros Ha Hp. exists t. split; [done|]. by apply Hf'.
  - apply (li_cancel_lock s HI tid t Ht).
  - intros tid1 t1 Hne Ht1 Ha1 Ha Hk. apply Hne. by apply (li_fresh s HI tid1 tid t1 t).
  - intros Hu tid1 t1 Hne Ht1 Ha1 Hk. by apply (li_unl_key s HI tid t tid1 t1).
  - intros Ha tid1 t1 Hne Ht1 Hu1 Hk. destruct (li_unl_key s HI tid1 t1 tid t) as [r Hr]; try done.
    exists r. by apply Hf.
Qed.

Ltac core_tac2 := unfold finish; core_tac.

(** facts about the object a step works on *)
Lemma obj_facts s oid o : LInv s → l_heap s !! oid = Some o →
  o_last o ≤ l_now s ∧
  o_cur o = Z.of_nat (length (o_keys o)) + Z.of_nat (length (o_ready o)) + count_thr (in_transit oid) s ∧
  0 ≤ o_cur o ≤ o_size o ∧ NoDup (o_waitq o ++ o_ready o) ∧ (o_waitq o ≠ [] → o_cur o = o_size o) ∧
  NoDup (o_keys o) ∧ 0 ≤ count_thr (in_transit oid) s.
Proof.
  intros HI Ho. destruct (li_units s HI _ _ Ho). destruct (li_keys s HI _ _ Ho).
  split; [by apply (li_time s HI oid)|]. split; [done|]. split; [done|].
  split; [by apply (li_queue_nodup s HI oid)|]. split; [by apply (li_no_lost_wakeup s HI oid)|].
  split; [done|apply count_thr_nonneg].
Qed.

Lemma not_in_flight_shut s tid t : LInv s → l_thr s !! tid = Some t → in_flight (t_pc t) = true → l_shut s = false.
Proof.
  intros HI Ht Hf. destruct (l_shut s) eqn:Hs; [|done]. rewrite (li_shut s HI Hs tid t Ht) in Hf. done.
Qed.

Lemma run_PGet_existing s tid t oid o :
  LInv s → l_thr s !! tid = Some t → t_pc t = PGet →
  l_map s !! op_name (t_op t) = Some oid → l_heap s !! oid = Some o →
  (is_acq (t_op t) = true → op_size (t_op t) = o_size o) →
  local_ok s tid t (t <| t_pc := if is_acq (t_op t) then PChkDel oid else PUnlChk oid |>) oid o
           (o <| o_last := l_now s |> <| o_users := o_users o + 1 |>).
Proof.
  intros HI Ht Hpc Hm Ho Hsz.
  destruct (li_map s HI _ _ Hm) as (o1 & ? & Hn & Hd). simplify_eq.
  destruct (obj_facts s oid o HI Ho) as (Hlast & Hu & Hb & Hnd & Hw & Hk & Hc).
  pose proof (linv_not_queued s tid t oid o HI Ht Ho) as Hnq.
  assert (¬ W (t_pc t) oid) as HnW by (rewrite Hpc; intros [?|?]; done). specialize (Hnq HnW).
  assert (l_shut s = false) as Hs by (apply (not_in_flight_shut s tid t HI Ht); by rewrite Hpc).
  constructor; simpl; rewrite ?Hpc; simpl.
  - (* op *) done.
  - (* pc *) done.
  - (* pc' *) destruct (is_acq _); simpl; congruence.
  - (* pcname *) intros _ _. split; [done|]. intros Ha. symmetry. by apply Hsz.
  - (* name *) done.
  - (* size *) done.
  - (* del *) done.
  - (* del' *) done.
  - (* last *) lia.
  - (* users *) unfold refs. simpl. rewrite Hpc. simpl. destruct (is_acq _); simpl; rewrite bool_decide_eq_true_2 by done; simpl; lia.
  - (* units *) unfold in_transit. simpl. rewrite Hpc. destruct (is_acq _); simpl; lia.
  - (* bound *) done.
  - (* queue *) intros x. split; [intros Hx; left; split; [|done]; by intros ->|].
    intros [[_ ?]|[_ [?|?]]]; [done| |]; destruct (is_acq _); done.
  - (* nodup *) done.
  - (* wcancel *) intros x. destruct (is_acq _); done.
  - (* cancel *) apply (li_cancel_lock s HI tid t Ht).
  - (* wake *) done.
  - (* kind *) destruct (is_acq _) eqn:E; simpl; done.
  - (* keys_nodup *) done.
  - (* keys *) by left.
  - (* wit *) intros _ x [?|?]; done.
  - (* removed *) done.
  - (* done *) destruct (is_acq _); done.
  - (* fin *) destruct (is_acq _); done.
  - (* finr *) done.
  - (* shut *) congruence.
Qed.

Ltac pre HI Ht Hpc oid :=
  let o1 := fresh "o1" in
  destruct (linv_ref_alive _ _ _ oid HI Ht ltac:(by rewrite Hpc)) as (o1 & ? & Hdel & Husr & Hname & Hsz & Hm);
  simplify_eq;
  match goal with Ho : l_heap _ !! oid = Some ?o |- _ =>
    destruct (obj_facts _ oid o HI Ho) as (Hlast & Hu & Hb & Hnd & Hw & Hk & Hc);
    pose proof (linv_not_queued _ _ _ oid o HI Ht Ho) as Hnq
  end;
  pose proof (linv_kind _ _ _ HI Ht) as Hkind; rewrite Hpc in Hkind; simpl in Hkind;
  pose proof (not_in_flight_shut _ _ _ HI Ht ltac:(by rewrite Hpc)) as Hs;
  pose proof (li_cancel_lock _ HI _ _ Ht) as Hcl.

Lemma is_acq_lock op : (∃ n k z, op = OLock n k z) → is_acq op = true.
Proof. by intros (?&?&?&->). Qed.

(** TryAcquire / the fast path of Acquire succeeds *)
Lemma run_acquire s tid t oid o :
  LInv s → l_thr s !! tid = Some t → (t_pc t = PTryAcq oid ∨ t_pc t = PAcqEnter oid) →
  l_heap s !! oid = Some o → o_cur o < o_size o → o_waitq o = [] →
  local_ok s tid t (t <| t_pc := PAddKey oid |>) oid o (o <| o_cur := o_cur o + 1 |>).
Proof.
  intros HI Ht Hpc Ho Hlt Hq.
  assert (pc_oid (t_pc t) = Some oid ∧ in_transit oid t = false ∧ ¬ W (t_pc t) oid ∧ is_acq (t_op t) = true ∧
          (∀ x r, t_pc t ≠ PDone x r) ∧ (∀ r, t_pc t ≠ PFin r)) as (Hpo & Htr & HnW & Ha & HnD & HnF).
  { pose proof (linv_kind _ _ _ HI Ht) as Hkind. unfold in_transit, W.
    destruct Hpc as [Hpc|Hpc]; rewrite Hpc in *; simpl in *; split_and!; try done; try (by intros [?|?]).
    by apply is_acq_lock. }
  destruct (linv_ref_alive _ _ _ oid HI Ht Hpo) as (o1 & ? & Hdel & Husr & Hname & Hsz & Hm). simplify_eq.
  destruct (obj_facts _ oid o HI Ho) as (Hlast & Hu & Hb & Hnd & Hw & Hk & Hc).
  pose proof (linv_not_queued _ _ _ oid o HI Ht Ho HnW) as Hnq.
  assert (l_shut s = false) as Hs by (apply (not_in_flight_shut _ _ _ HI Ht); destruct Hpc as [-> | ->]; done).
  constructor; simpl.
  - (* op *) done.
  - (* pc *) congruence.
  - (* pc' *) congruence.
  - (* pcname *) congruence.
  - (* name *) done.
  - (* size *) done.
  - (* del *) done.
  - (* del' *) done.
  - (* last *) done.
  - (* users *) unfold refs. simpl. rewrite Hpo. rewrite !bool_decide_eq_true_2 by done. simpl. lia.
  - (* units *) rewrite Htr. unfold in_transit. simpl. rewrite bool_decide_eq_true_2 by done. simpl. lia.
  - (* bound *) lia.
  - (* queue *) intros x. split; [intros Hx; left; split; [|done]; by intros ->|].
    intros [[_ ?]|[_ [?|?]]]; done.
  - (* nodup *) done.
  - (* wcancel *) done.
  - (* cancel *) apply (li_cancel_lock s HI tid t Ht).
  - (* wake *) done.
  - (* kind *) done.
  - (* keys_nodup *) done.
  - (* keys *) by left.
  - (* wit *) intros _ x [?|?]; [by destruct (HnD x (LRes true None))|by destruct (HnF (LRes true None))].
  - (* removed *) done.
  - (* done *) done.
  - (* fin *) done.
  - (* finr *) intros r ?. by destruct (HnF r).
  - (* shut *) congruence.
Qed.

(** Acquire: join the queue *)
Lemma run_enqueue s tid t oid o :
  LInv s → l_thr s !! tid = Some t → t_pc t = PAcqEnter oid →
  l_heap s !! oid = Some o → ¬ (o_cur o < o_size o ∧ o_waitq o = []) →
  local_ok s tid t (t <| t_pc := PAcqWait oid |>) oid o (o <| o_waitq := o_waitq o ++ [tid] |>).
Proof.
  intros HI Ht Hpc Ho Hfull. pre HI Ht Hpc oid.
  assert (¬ W (t_pc t) oid) as HnW by (rewrite Hpc; intros [?|?]; done). specialize (Hnq HnW).
  constructor; simpl; rewrite ?Hpc.
  - (* op *) done.
  - (* pc *) simpl. congruence.
  - (* pc' *) congruence.
  - (* pcname *) done.
  - (* name *) done.
  - (* size *) done.
  - (* del *) done.
  - (* del' *) done.
  - (* last *) done.
  - (* users *) unfold refs. simpl. rewrite Hpc. simpl. rewrite !bool_decide_eq_true_2 by done. simpl. lia.
  - (* units *) unfold in_transit. simpl. rewrite Hpc. lia.
  - (* bound *) done.
  - (* queue *) intros x. rewrite <-app_assoc. simpl. rewrite !elem_of_app, elem_of_cons.
    rewrite elem_of_app in Hnq. split.
    + intros [?|[->|?]]; [left|right|left]; try (split; [|by auto]; intros ->; tauto). split; [done|by left].
    + intros [[_ [?|?]]|[-> _]]; tauto.
  - (* nodup *) rewrite <-app_assoc. simpl. rewrite <-Permutation_middle. by constructor.
  - (* wcancel *) done.
  - (* cancel *) done.
  - (* wake *) intros _. destruct (decide (o_waitq o = [])) as [Hq|Hq]; [|by apply Hw]. assert (¬ o_cur o < o_size o) by (intros ?; by apply Hfull). lia.
  - (* kind *) done.
  - (* keys_nodup *) done.
  - (* keys *) by left.
  - (* wit *) intros _ x [?|?]; done.
  - (* removed *) done.
  - (* done *) done.
  - (* fin *) done.
  - (* finr *) done.
  - (* shut *) congruence.
Qed.

Lemma NoDup_app_l {A} (l k : list A) : NoDup (l ++ k) → NoDup l.
Proof. rewrite NoDup_app. tauto. Qed.
Lemma NoDup_app_r {A} (l k : list A) : NoDup (l ++ k) → NoDup k.
Proof. rewrite NoDup_app. tauto. Qed.

(** case <-ready *)
Lemma run_woken s tid t oid o :
  LInv s → l_thr s !! tid = Some t → t_pc t = PAcqWait oid →
  l_heap s !! oid = Some o → tid ∈ o_ready o →
  local_ok s tid t (t <| t_pc := PAcqWoken oid |>) oid o (o <| o_ready := filter (λ w, w ≠ tid) (o_ready o) |>).
Proof.
  intros HI Ht Hpc Ho Hin. pre HI Ht Hpc oid. clear Hnq.
  assert (tid ∉ o_waitq o) as Hnq.
  { apply NoDup_app in Hnd as (_ & Hd & _). intros ?. by apply (Hd tid). }
  pose proof (filter_ne_length tid (o_ready o) (NoDup_app_r _ _ Hnd) Hin) as Hlen.
  constructor; simpl; rewrite ?Hpc.
  - (* op *) done.
  - (* pc *) simpl. congruence.
  - (* pc' *) congruence.
  - (* pcname *) done.
  - (* name *) done.
  - (* size *) done.
  - (* del *) done.
  - (* del' *) done.
  - (* last *) done.
  - (* users *) unfold refs. simpl. rewrite Hpc. simpl. rewrite !bool_decide_eq_true_2 by done. simpl. lia.
  - (* units *) unfold in_transit. simpl. rewrite Hpc. rewrite bool_decide_eq_true_2 by done. simpl. lia.
  - (* bound *) done.
  - (* queue *) intros x. rewrite !elem_of_app, elem_of_list_filter. split.
    + intros [?|[? ?]]; left; (split; [|by auto]); [by intros ->|done].
    + intros [[? [?|?]]|[_ [?|?]]]; try done; auto.
  - (* nodup *) apply NoDup_app in Hnd as (? & Hd & ?). apply NoDup_app. split_and!; [done| |by apply NoDup_filter].
    intros x ? [_ ?]%elem_of_list_filter. by apply (Hd x).
  - (* wcancel *) done.
  - (* cancel *) done.
  - (* wake *) done.
  - (* kind *) done.
  - (* keys_nodup *) done.
  - (* keys *) by left.
  - (* wit *) intros _ x [?|?]; done.
  - (* removed *) done.
  - (* done *) done.
  - (* fin *) done.
  - (* finr *) done.
  - (* shut *) congruence.
Qed.

(** facts shared by the three steps that give a unit back and run the hand-off loop *)
Lemma notify_queue (q r q2 r2 woken : list nat) :
  q = woken ++ q2 → r2 = r ++ woken → ∀ x, x ∈ q2 ++ r2 ↔ x ∈ q ++ r.
Proof. intros -> -> x. rewrite !elem_of_app. tauto. Qed.
Lemma notify_nodup (q r q2 r2 woken : list nat) :
  q = woken ++ q2 → r2 = r ++ woken → NoDup (q ++ r) → NoDup (q2 ++ r2).
Proof.
  intros -> -> H. assert ((woken ++ q2) ++ r ≡ₚ q2 ++ r ++ woken) as <-; [|done].
  rewrite <-app_assoc. rewrite (Permutation_app_comm woken). by rewrite <-app_assoc.
Qed.

(** case <-done, but a unit was handed meanwhile: give it back *)
Lemma run_cancel_ready s tid t oid o o2 woken r :
  LInv s → l_thr s !! tid = Some t → t_pc t = PAcqCancel oid →
  l_heap s !! oid = Some o → tid ∈ o_ready o →
  notify (o <| o_ready := filter (λ w, w ≠ tid) (o_ready o) |> <| o_cur := o_cur o - 1 |>) = (o2, woken) →
  r ≠ LRes true None →
  local_ok s tid t (t <| t_pc := PDone oid r |>) oid o o2.
Proof.
  intros HI Ht Hpc Ho Hin Hn Hr. pre HI Ht Hpc oid. clear Hnq.
  apply notify_spec in Hn as (Hq2 & Hr2 & Hc2 & Hw2 & Hb2 & Hn2 & Hs2 & Hk2 & Hl2 & Hd2 & Hu2). simpl in *.
  assert (tid ∉ o_waitq o) as Hnq.
  { apply NoDup_app in Hnd as (_ & Hd & _). intros ?. by apply (Hd tid). }
  pose proof (filter_ne_length tid (o_ready o) (NoDup_app_r _ _ Hnd) Hin) as Hlen.
  assert (NoDup (o_waitq o ++ filter (λ w, w ≠ tid) (o_ready o))) as Hnd1.
  { apply NoDup_app in Hnd as (? & Hd & ?). apply NoDup_app. split_and!; [done| |by apply NoDup_filter].
    intros x ? [_ ?]%elem_of_list_filter. by apply (Hd x). }
  constructor; simpl; rewrite ?Hpc.
  - (* op *) done.
  - (* pc *) simpl. congruence.
  - (* pc' *) congruence.
  - (* pcname *) done.
  - (* name *) done.
  - (* size *) done.
  - (* del *) done.
  - (* del' *) congruence.
  - (* last *) lia.
  - (* users *) unfold refs. simpl. rewrite Hpc. simpl. rewrite !bool_decide_eq_true_2 by done. simpl. lia.
  - (* units *) unfold in_transit. simpl. rewrite Hpc. rewrite Hk2, Hr2, Hc2, app_length. simpl. lia.
  - (* bound *) rewrite Hc2. split; [lia|]. rewrite Hc2 in Hb2. lia.
  - (* queue *) intros x. rewrite (notify_queue _ _ _ _ _ Hq2 Hr2 x). rewrite !elem_of_app, elem_of_list_filter. split.
    + intros [?|[? ?]]; left; (split; [|by auto]); [by intros ->|done].
    + intros [[? [?|?]]|[_ [?|?]]]; try done; auto.
  - (* nodup *) by apply (notify_nodup _ _ _ _ _ Hq2 Hr2).
  - (* wcancel *) done.
  - (* cancel *) done.
  - (* wake *) intros Hne. specialize (Hw2 Hne). rewrite Hc2 in Hb2. lia.
  - (* kind *) done.
  - (* keys_nodup *) by rewrite Hk2.
  - (* keys *) rewrite Hk2. by left.
  - (* wit *) intros _ x [?|?]; done.
  - (* removed *) rewrite Hk2. done.
  - (* done *) intros _ [=]. done.
  - (* fin *) done.
  - (* finr *) done.
  - (* shut *) congruence.
Qed.

(** case <-done, still queued: leave the queue *)
Lemma run_cancel_queued s tid t oid o r :
  LInv s → l_thr s !! tid = Some t → t_pc t = PAcqCancel oid →
  l_heap s !! oid = Some o → tid ∉ o_ready o →
  r ≠ LRes true None →
  (o_cur o <? o_size o) = false ∧
  local_ok s tid t (t <| t_pc := PDone oid r |>) oid o (o <| o_waitq := filter (λ w, w ≠ tid) (o_waitq o) |>).
Proof.
  intros HI Ht Hpc Ho Hin Hr. pre HI Ht Hpc oid. clear Hnq.
  destruct (li_waiting s HI _ _ _ Ht ltac:(right; exact Hpc)) as (o1 & ? & Hq). simplify_eq.
  apply elem_of_app in Hq as [Hq|?]; [|done].
  assert (o_cur o = o_size o) as Hfull by (apply Hw; intros E; rewrite E in Hq; by apply elem_of_nil in Hq).
  split; [lia|].
  constructor; simpl; rewrite ?Hpc.
  - (* op *) done.
  - (* pc *) simpl. congruence.
  - (* pc' *) congruence.
  - (* pcname *) done.
  - (* name *) done.
  - (* size *) done.
  - (* del *) done.
  - (* del' *) done.
  - (* last *) done.
  - (* users *) unfold refs. simpl. rewrite Hpc. simpl. rewrite !bool_decide_eq_true_2 by done. simpl. lia.
  - (* units *) unfold in_transit. simpl. rewrite Hpc. lia.
  - (* bound *) done.
  - (* queue *) intros x. rewrite !elem_of_app, elem_of_list_filter. split.
    + intros [[? ?]|?]; left; (split; [|by auto]); [done|by intros ->].
    + intros [[? [?|?]]|[_ [?|?]]]; try done; auto.
  - (* nodup *) apply NoDup_app in Hnd as (? & Hd & ?). apply NoDup_app. split_and!; [by apply NoDup_filter| |done].
    intros x [_ ?]%elem_of_list_filter. by apply (Hd x).
  - (* wcancel *) done.
  - (* cancel *) done.
  - (* wake *) done.
  - (* kind *) done.
  - (* keys_nodup *) done.
  - (* keys *) by left.
  - (* wit *) intros _ x [?|?]; done.
  - (* removed *) done.
  - (* done *) intros _ [=]. done.
  - (* fin *) done.
  - (* finr *) done.
  - (* shut *) congruence.
Qed.

(** Release after a late hand-off *)
Lemma run_relcancel s tid t oid o :
  LInv s → l_thr s !! tid = Some t → t_pc t = PRelCancel oid → l_heap s !! oid = Some o →
  (o_cur o - 1 <? 0) = false ∧
  ∀ o2 woken r, notify (o <| o_cur := o_cur o - 1 |>) = (o2, woken) → r ≠ LRes true None →
  local_ok s tid t (t <| t_pc := PDone oid r |>) oid o o2.
Proof.
  intros HI Ht Hpc Ho. pre HI Ht Hpc oid.
  assert (¬ W (t_pc t) oid) as HnW by (rewrite Hpc; intros [?|?]; done). specialize (Hnq HnW).
  assert (1 ≤ count_thr (in_transit oid) s) as Hc1.
  { eapply count_thr_pos; [done|]. unfold in_transit. rewrite Hpc. by apply bool_decide_eq_true_2. }
  split; [lia|]. intros o2 woken r Hn Hr.
  apply notify_spec in Hn as (Hq2 & Hr2 & Hc2 & Hw2 & Hb2 & Hn2 & Hs2 & Hk2 & Hl2 & Hd2 & Hu2). simpl in *.
  constructor; simpl; rewrite ?Hpc.
  - (* op *) done.
  - (* pc *) simpl. congruence.
  - (* pc' *) congruence.
  - (* pcname *) done.
  - (* name *) done.
  - (* size *) done.
  - (* del *) done.
  - (* del' *) congruence.
  - (* last *) lia.
  - (* users *) unfold refs. simpl. rewrite Hpc. simpl. rewrite !bool_decide_eq_true_2 by done. simpl. lia.
  - (* units *) unfold in_transit. simpl. rewrite Hpc. rewrite bool_decide_eq_true_2 by done.
    rewrite Hk2, Hr2, Hc2, app_length. simpl. lia.
  - (* bound *) rewrite Hc2. split; [lia|]. rewrite Hc2 in Hb2. lia.
  - (* queue *) intros x. rewrite (notify_queue _ _ _ _ _ Hq2 Hr2 x). split.
    + intros ?. left. split; [|done]. by intros ->.
    + intros [[? ?]|[_ [?|?]]]; done.
  - (* nodup *) by apply (notify_nodup _ _ _ _ _ Hq2 Hr2).
  - (* wcancel *) done.
  - (* cancel *) done.
  - (* wake *) intros Hne. specialize (Hw2 Hne). rewrite Hc2 in Hb2. lia.
  - (* kind *) done.
  - (* keys_nodup *) by rewrite Hk2.
  - (* keys *) rewrite Hk2. by left.
  - (* wit *) intros _ x [?|?]; done.
  - (* removed *) rewrite Hk2. done.
  - (* done *) intros _ [=]. done.
  - (* fin *) done.
  - (* finr *) done.
  - (* shut *) congruence.
Qed.

(** addKey *)
Lemma run_addkey s tid t oid o :
  LInv s → l_thr s !! tid = Some t → t_pc t = PAddKey oid → l_heap s !! oid = Some o →
  local_ok s tid t (t <| t_pc := PDone oid (LRes true None) |>) oid o (o <| o_keys := o_keys o ++ [op_key (t_op t)] |>).
Proof.
  intros HI Ht Hpc Ho. pre HI Ht Hpc oid.
  assert (¬ W (t_pc t) oid) as HnW by (rewrite Hpc; intros [?|?]; done). specialize (Hnq HnW).
  assert (op_key (t_op t) ∉ o_keys o) as Hfresh.
  { intros Hin. destruct (li_keys s HI _ _ Ho) as [_ Hwit].
    destruct (Hwit _ Hin) as (tid1 & t1 & Ht1 & Ha1 & Hk1 & _ & Hp1).
    assert (tid1 = tid) as -> by by apply (li_fresh s HI tid1 tid t1 t).
    simplify_eq. rewrite Hpc in Hp1. by destruct Hp1. }
  constructor; simpl; rewrite ?Hpc.
  - (* op *) done.
  - (* pc *) simpl. congruence.
  - (* pc' *) congruence.
  - (* pcname *) done.
  - (* name *) done.
  - (* size *) done.
  - (* del *) done.
  - (* del' *) done.
  - (* last *) done.
  - (* users *) unfold refs. simpl. rewrite Hpc. simpl. rewrite !bool_decide_eq_true_2 by done. simpl. lia.
  - (* units *) unfold in_transit. simpl. rewrite Hpc. rewrite bool_decide_eq_true_2 by done.
    rewrite app_length. simpl. lia.
  - (* bound *) done.
  - (* queue *) intros x. split; [intros Hx; left; split; [|done]; by intros ->|].
    intros [[_ ?]|[_ [?|?]]]; done.
  - (* nodup *) done.
  - (* wcancel *) done.
  - (* cancel *) done.
  - (* wake *) done.
  - (* kind *) done.
  - (* keys_nodup *) apply NoDup_app. split_and!; [done| |apply NoDup_singleton].
    intros x ? Hx%elem_of_list_singleton. by subst.
  - (* keys *) intros k [?|Hx%elem_of_list_singleton]%elem_of_app; [by left|subst; by right].
  - (* wit *) intros _ x [?|?]; done.
  - (* removed *) intros k Hkk Hnk. destruct Hnk. apply elem_of_app. by left.
  - (* done *) intros _ _. right. apply elem_of_app. right. by apply elem_of_list_singleton.
  - (* fin *) done.
  - (* finr *) done.
  - (* shut *) congruence.
Qed.

(** Lock.Unlock with a recorded key *)
Lemma run_unlock s tid t oid o :
  LInv s → l_thr s !! tid = Some t → t_pc t = PUnlRem oid → l_heap s !! oid = Some o →
  op_key (t_op t) ∈ o_keys o →
  (o_cur o - 1 <? 0) = false ∧
  ∀ o2 woken r, notify (o <| o_keys := remove_first (op_key (t_op t)) (o_keys o) |> <| o_cur := o_cur o - 1 |>) = (o2, woken) →
  local_ok s tid t (t <| t_pc := PDone oid r |>) oid o o2.
Proof.
  intros HI Ht Hpc Ho Hin. pre HI Ht Hpc oid.
  assert (¬ W (t_pc t) oid) as HnW by (rewrite Hpc; intros [?|?]; done). specialize (Hnq HnW).
  pose proof (remove_first_length _ _ Hin) as Hlen.
  split; [lia|]. intros o2 woken r Hn.
  apply notify_spec in Hn as (Hq2 & Hr2 & Hc2 & Hw2 & Hb2 & Hn2 & Hs2 & Hk2 & Hl2 & Hd2 & Hu2). simpl in *.
  constructor; simpl; rewrite ?Hpc.
  - (* op *) done.
  - (* pc *) simpl. congruence.
  - (* pc' *) congruence.
  - (* pcname *) done.
  - (* name *) done.
  - (* size *) done.
  - (* del *) done.
  - (* del' *) congruence.
  - (* last *) lia.
  - (* users *) unfold refs. simpl. rewrite Hpc. simpl. rewrite !bool_decide_eq_true_2 by done. simpl. lia.
  - (* units *) unfold in_transit. simpl. rewrite Hpc.
    rewrite Hk2, Hr2, Hc2, app_length. simpl. lia.
  - (* bound *) rewrite Hc2. split; [lia|]. rewrite Hc2 in Hb2. lia.
  - (* queue *) intros x. rewrite (notify_queue _ _ _ _ _ Hq2 Hr2 x). split.
    + intros ?. left. split; [|done]. by intros ->.
    + intros [[? ?]|[_ [?|?]]]; done.
  - (* nodup *) by apply (notify_nodup _ _ _ _ _ Hq2 Hr2).
  - (* wcancel *) done.
  - (* cancel *) done.
  - (* wake *) intros Hne. specialize (Hw2 Hne). rewrite Hc2 in Hb2. lia.
  - (* kind *) done.
  - (* keys_nodup *) rewrite Hk2. by apply NoDup_remove_first.
  - (* keys *) rewrite Hk2. intros k ?%elem_of_remove_first. by left.
  - (* wit *) congruence.
  - (* removed *) rewrite Hk2. intros k Hkk Hnk.
    assert (k = op_key (t_op t)) as -> by (destruct (decide (k = op_key (t_op t))); [done|]; destruct Hnk; by apply elem_of_remove_first_ne).
    rewrite Hname. destruct (t_op t); done.
  - (* done *) congruence.
  - (* fin *) done.
  - (* finr *) done.
  - (* shut *) congruence.
Qed.

(** the deferred l.done() and the return *)
Lemma run_done s tid t oid o r :
  LInv s → l_thr s !! tid = Some t → t_pc t = PDone oid r → l_heap s !! oid = Some o →
  local_ok s tid t (t <| t_pc := PFin r |>) oid o (o <| o_users := o_users o - 1 |>).
Proof.
  intros HI Ht Hpc Ho. pre HI Ht Hpc oid.
  assert (¬ W (t_pc t) oid) as HnW by (rewrite Hpc; intros [?|?]; done). specialize (Hnq HnW).
  constructor; simpl; rewrite ?Hpc.
  - (* op *) done.
  - (* pc *) simpl. congruence.
  - (* pc' *) done.
  - (* pcname *) done.
  - (* name *) done.
  - (* size *) done.
  - (* del *) done.
  - (* del' *) done.
  - (* last *) done.
  - (* users *) unfold refs. simpl. rewrite Hpc. simpl. rewrite bool_decide_eq_true_2 by done.
    rewrite ?bool_decide_eq_false_2 by done. simpl. lia.
  - (* units *) unfold in_transit. simpl. rewrite Hpc. lia.
  - (* bound *) done.
  - (* queue *) intros x. split; [intros Hx; left; split; [|done]; by intros ->|].
    intros [[_ ?]|[_ [?|?]]]; done.
  - (* nodup *) done.
  - (* wcancel *) done.
  - (* cancel *) done.
  - (* wake *) done.
  - (* kind *) done.
  - (* keys_nodup *) done.
  - (* keys *) by left.
  - (* wit *) intros _ x [[= -> ->]|?]; [by right|done].
  - (* removed *) done.
  - (* done *) done.
  - (* fin *) intros _ [= ->]. by right.
  - (* finr *) done.
  - (* shut *) done.
Qed.
