(** What Mclient needs to know about Mseq: the effect of the five events the client world issues on the lease timers,
    the clock, the waiter list and the lock table. Statements only ([F_*] : Prop); proofs in Proofs/ClientSrv.v. *)
From Ldlm Require Import Model.Base Model.Err Model.Seq Model.Client.
Local Open Scope Z_scope.

Definition tmr (s : sstate) (n k : str) : option timer := st_timers s !! tkey n k.

(** (n,k) occupies a unit of lock n *)
Definition hld (s : sstate) (n k : str) : Prop := ∃ o, st_locks s !! n = Some o ∧ k ∈ lo_keys o.

(** every lease timer is filed under the key of the hold it releases *)
Definition timers_wf (s : sstate) : Prop :=
  ∀ tk t, st_timers s !! tk = Some t → tk = tkey (tm_name t) (tm_key t).

Definition F_init : Prop := st_waiters srv_init = [] ∧ st_now srv_init = 0 ∧ timers_wf srv_init ∧ st_timers srv_init = ∅.

Definition F_trylock : Prop := ∀ sid name size lt key s s' o,
  srv_event (ETryLock (Some sid) name size lt key) s = (s', o) →
  st_now s' = st_now s ∧ st_waiters s' = st_waiters s ∧ (timers_wf s → timers_wf s') ∧
  (∀ n k, (n, k) ≠ (name, key) → tmr s' n k = tmr s n k) ∧
  (∀ n k, hld s n k → hld s' n k) ∧
  (∀ k' e rest, o = OResp (RLock true k' e) :: rest →
     k' = key ∧ hld s' name key ∧
     ∀ t, lt = Some t → 0 < t → tmr s' name key = Some (Timer (st_now s + t * second) name key sid)).

(** a Lock call that is answered at once (the client model discards the state when the call would wait) *)
Definition F_lock : Prop := ∀ wid sid name size lt key s s' locked k' e rest,
  srv_event (ELock wid (Some sid) name size lt None key) s = (s', OResp (RLock locked k' e) :: rest) →
  st_now s' = st_now s ∧ st_waiters s' = st_waiters s ∧ (timers_wf s → timers_wf s') ∧
  (∀ n k, (n, k) ≠ (name, key) → tmr s' n k = tmr s n k) ∧
  (∀ n k, hld s n k → hld s' n k) ∧
  (locked = true →
     k' = key ∧ hld s' name key ∧
     ∀ t, lt = Some t → 0 < t → tmr s' name key = Some (Timer (st_now s + t * second) name key sid)).

Definition F_unlock : Prop := ∀ sid name key s s' o,
  srv_event (EUnlock sid name key) s = (s', o) → st_waiters s = [] →
  st_now s' = st_now s ∧ st_waiters s' = [] ∧ (timers_wf s → timers_wf s') ∧
  (∀ n k, (n, k) ≠ (name, key) → tmr s' n k = tmr s n k) ∧
  (∀ n k, (n, k) ≠ (name, key) → hld s n k → hld s' n k).

Definition F_renew : Prop := ∀ name key T s s' o,
  srv_event (ERenew name key T) s = (s', o) →
  st_now s' = st_now s ∧ st_waiters s' = st_waiters s ∧ (timers_wf s → timers_wf s') ∧
  (∀ n k, (n, k) ≠ (name, key) → tmr s' n k = tmr s n k) ∧
  (∀ n k, hld s n k → hld s' n k) ∧
  (∀ t, tmr s name key = Some t → 0 < T →
     o = [OResp (RLock true key None)] ∧
     tmr s' name key = Some (Timer (st_now s + T * second) (tm_name t) (tm_key t) (tm_sid t))).

(** time passes: a lease whose deadline is not reached stays as it is, and so does its hold *)
Definition F_advance : Prop := ∀ dt s s' o,
  srv_event (EAdvance dt) s = (s', o) → st_waiters s = [] →
  st_now s' = st_now s + Z.max 0 dt ∧ st_waiters s' = [] ∧ (timers_wf s → timers_wf s') ∧
  (∀ n k t, tmr s n k = Some t → st_now s + Z.max 0 dt < tm_deadline t → tmr s' n k = Some t) ∧
  (∀ n k t, timers_wf s → tmr s n k = Some t → st_now s + Z.max 0 dt < tm_deadline t → hld s n k → hld s' n k).

Definition F_probe : Prop := ∀ s, srv_event EProbe s = (s, [OListing (listing s); OFile (file_view s); OTable (table_view s)]).

Record srv_facts : Prop := SrvFacts {
  sf_init : F_init; sf_trylock : F_trylock; sf_lock : F_lock; sf_unlock : F_unlock;
  sf_renew : F_renew; sf_advance : F_advance
}.
