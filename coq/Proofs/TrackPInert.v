(** C07 at trace level: on every run of Mseq, [inert_failures] (Model/Track.v) reports nothing — the probes before
    and after a request that failed show the same state up to lastAccessed. From [SeqReq2.C07_inert] and the
    definition of EProbe (work package trackp). *)
From Coq Require Import Lia ZifyBool ZifyNat String Permutation.
From Ldlm Require Import Model.Base Model.Err Model.Seq Model.Track Proofs.SeqDefs Proofs.SeqTargets Proofs.SeqInv Proofs.SeqTimeBase Proofs.SeqReq2
  Proofs.TrackPBase Proofs.TrackPTR Proofs.TrackP.
Local Open Scope Z_scope.

Lemma flat_map_map {A B C} (g : B → list C) (h : A → B) l : flat_map g (map h l) = flat_map (λ x, g (h x)) l.
Proof. induction l as [|x l IH]; [done|]. simpl. by rewrite IH. Qed.

Definition obs_list (L : gmap str lockobj) : list (str * (Z * list str)) := map_to_list (lock_obs <$> L).

Lemma obs_list_perm L : obs_list L ≡ₚ prod_map id lock_obs <$> map_to_list L.
Proof. apply map_to_list_fmap. Qed.

Lemma table_holds_obs s :
  table_holds (table_view s) ≡ₚ flat_map (λ '(n, (sz, ks)), map (λ k, Clock n k sz) ks) (obs_list (st_locks s)).
Proof.
  rewrite obs_list_perm. unfold table_view, table_holds. rewrite flat_map_map. rewrite <- list_map_fmap, flat_map_map.
  apply Permutation_refl', flat_map_ext. by intros [n [sz ks la]].
Qed.

Lemma table_sizes_obs s :
  map (λ '(n, (sz, _, _)), (n, sz)) (table_view s) ≡ₚ map (λ '(n, (sz, _)), (n, sz)) (obs_list (st_locks s)).
Proof.
  rewrite obs_list_perm. unfold table_view.
  change (prod_map id lock_obs <$> map_to_list (st_locks s)) with (map (prod_map id lock_obs) (map_to_list (st_locks s))).
  rewrite !map_map.
  apply Permutation_refl', map_ext. by intros [n [sz ks la]].
Qed.

Lemma probe_inert_eq s s' : obs_eq s s' →
  perm_by out_inert_eqb [OListing (listing s); OFile (file_view s); OTable (table_view s)]
                        [OListing (listing s'); OFile (file_view s'); OTable (table_view s')] = true.
Proof.
  intros (EL & ES & _ & _ & EF & _).
  assert (listing s' = listing s) as -> by (unfold listing; by rewrite ES).
  assert (file_view s' = file_view s) as -> by (unfold file_view; by rewrite EF).
  assert (out_inert_eqb (OListing (listing s)) (OListing (listing s)) = true) as H1.
  { simpl. by apply perm_by_perm. }
  assert (out_inert_eqb (OFile (file_view s)) (OFile (file_view s)) = true) as H2.
  { simpl. destruct (file_view s); [|done]. by rewrite !perm_by_perm. }
  assert (out_inert_eqb (OTable (table_view s)) (OTable (table_view s')) = true) as H3.
  { unfold out_inert_eqb, out_eqb. cbn [p_table p_last negb orb]. rewrite andb_true_r. apply andb_true_iff. split; apply perm_by_perm.
    - rewrite !table_holds_obs. unfold obs_list. by rewrite EL.
    - rewrite !table_sizes_obs. unfold obs_list. by rewrite EL. }
  cbn [perm_by remove_by]. rewrite H1. cbn [perm_by remove_by fmap option_fmap option_map]. rewrite H2.
  cbn [perm_by remove_by fmap option_fmap option_map]. by rewrite H3.
Qed.

Lemma failed_request_spec ev o : failed_request ev o = true → is_request ev ∧ is_failure o.
Proof.
  unfold failed_request, first_resp. intros H.
  destruct (head _) as [r|] eqn:Hh; [|by destruct ev].
  assert (OResp r ∈ o) as Hin.
  { apply head_Some_elem_of, elem_of_list_omap in Hh as (x & Hx & E). destruct x; try done. by injection E as ->. }
  destruct ev; try done; destruct r as [[] ? [?|]| [] ?|]; try done; (split; [done|]); eexists; (split; [exact Hin|done]).
Qed.

Theorem mseq_inert cfg h : cfg_ok cfg → ∀ s i sf os,
  Inv cfg s → hist_ok cfg s h → (sf, os) ∈ runs cfg s h → inert_failures i (zip h os) = [].
Proof.
  intros Hcfg. induction h as [|ev1 h IH]; intros s i sf os HI Hh Hin; [done|].
  apply elem_of_runs_cons in Hin as (s1 & o1 & os1 & Hst1 & Hr1 & ->).
  destruct Hh as (Hok1 & _ & _ & Hrest1).
  pose proof (inv_step _ _ _ _ _ Hcfg HI Hok1 Hst1) as HI1.
  cbn [zip zip_with inert_failures]. fold (zip h os1).
  rewrite (IH s1 (S i) sf os1 HI1 (Hrest1 _ _ Hst1) Hr1), app_nil_r.
  destruct ev1; try done.
  destruct h as [|ev h]; [done|].
  apply elem_of_runs_cons in Hr1 as (s2 & o & os2 & Hst2 & Hr2 & ->). cbn [zip zip_with].
  destruct h as [|ev3 h]; [done|].
  apply elem_of_runs_cons in Hr2 as (s3 & o3 & os3 & Hst3 & Hr3 & ->). cbn [zip zip_with].
  destruct ev3; try done.
  simpl in Hst1, Hst3. apply elem_of_list_singleton in Hst1, Hst3. injection Hst1 as -> ->. injection Hst3 as -> ->.
  destruct (failed_request ev o) eqn:Hf; [|done].
  apply failed_request_spec in Hf as [Hreq Hfail].
  destruct (Hrest1 _ _ ltac:(simpl; by apply elem_of_list_singleton)) as (Hok2 & _).
  pose proof (C07_inert cfg s ev s2 o HI Hok2 Hreq Hst2 Hfail) as Hobs.
  by rewrite (probe_inert_eq _ _ Hobs).
Qed.

Corollary mseq_satisfies_inert cfg h s os :
  cfg_ok cfg → hist_ok cfg (init_state cfg) h → (s, os) ∈ runs cfg (init_state cfg) h →
  inert_failures 0 (zip h os) = [].
Proof. intros Hcfg Hh Hin. eapply mseq_inert; [done|by apply inv_init|done|done]. Qed.

Print Assumptions mseq_satisfies_inert.
