(** Basic facts about the building blocks of Mseq used by the time / session level proofs
    (work package seqtime): list helpers, field-by-field specifications of run_gc_until,
    record_grant, remove_lock_entry, hand_off, mgr_unlock, expire, waiter_leave, the
    specification of next_due, and the generic induction principle for advance_loop
    (with the fuel argument). Nothing here depends on [Inv]. *)
From Coq Require Import Lia ZifyBool ZifyNat.
From Ldlm Require Import Model.Base Model.Err Model.Seq Proofs.SeqDefs Proofs.SeqLemmasKey Proofs.SeqTargets.
From RecordUpdate Require Import RecordSet.
Import RecordSetNotations.
Local Open Scope Z_scope.

Lemma second_pos : 0 < second.
Proof. unfold second; lia. Qed.
#[global] Opaque second.

Lemma det_elem' (r r' : sstate * list out) : r ∈ det r' → r = r'.
Proof. unfold det. apply elem_of_list_singleton. Qed.

(** ** Lists *)

Lemma remove_first_sub k l x : x ∈ remove_first k l → x ∈ l.
Proof.
  induction l as [|y l IH]; simpl; [done|]. case_bool_decide.
  - intros; by right.
  - rewrite !elem_of_cons. intros [->|?]; auto.
Qed.

Lemma remove_first_other k l x : x ≠ k → x ∈ l → x ∈ remove_first k l.
Proof.
  intros Hne. induction l as [|y l IH]; simpl; [done|]. case_bool_decide.
  - rewrite elem_of_cons. intros [->|?]; [congruence|done].
  - rewrite !elem_of_cons. intros [->|?]; auto.
Qed.

Lemma remove_first_notin k l : k ∉ l → remove_first k l = l.
Proof.
  induction l as [|y l IH]; simpl; [done|]. rewrite not_elem_of_cons. intros [? ?].
  case_bool_decide; [congruence|]. f_equal; auto.
Qed.

Lemma remove_first_NoDup k l : NoDup l → NoDup (remove_first k l) ∧ k ∉ remove_first k l.
Proof.
  induction 1 as [|y l Hy Hl IH]; simpl.
  - split; [constructor|apply not_elem_of_nil].
  - case_bool_decide; [subst; done|]. destruct IH as [IH1 IH2]. split.
    + constructor; [|done]. intros Hin. apply Hy. eapply remove_first_sub; eauto.
    + rewrite not_elem_of_cons. split; [congruence|done].
Qed.

Lemma remove_first_length k l : k ∈ l → S (length (remove_first k l)) = length l.
Proof.
  induction l as [|y l IH]; simpl; [by rewrite elem_of_nil|]. case_bool_decide; [done|].
  rewrite elem_of_cons. intros [->|?]; [done|]. simpl. f_equal; auto.
Qed.

Lemma remove_first_length_le k l : (length (remove_first k l) ≤ length l)%nat.
Proof.
  induction l as [|y l IH]; simpl; [lia|]. case_bool_decide; simpl; lia.
Qed.

(** number of occurrences *)
Definition cnt (k : str) (l : list str) : nat := length (filter (λ x, x = k) l).
#[global] Arguments cnt : simpl never.

Lemma cnt_nil k : cnt k [] = 0%nat.
Proof. done. Qed.
Lemma cnt_cons k x l : cnt k (x :: l) = ((if decide (x = k) then 1 else 0) + cnt k l)%nat.
Proof. unfold cnt. rewrite filter_cons. destruct (decide (x = k)); simpl; lia. Qed.
Lemma cnt_app k l1 l2 : cnt k (l1 ++ l2) = (cnt k l1 + cnt k l2)%nat.
Proof. unfold cnt. by rewrite filter_app, app_length. Qed.
Lemma cnt_zero k l : cnt k l = 0%nat ↔ k ∉ l.
Proof.
  induction l as [|x l IH].
  - rewrite cnt_nil. split; [intros _; apply not_elem_of_nil|done].
  - rewrite cnt_cons, not_elem_of_cons. destruct (decide (x = k)) as [->|Hne].
    + split; [lia|]. intros [? _]; done.
    + rewrite <- IH. simpl. split; [intros; split; [congruence|lia] | intros [_ ?]; lia].
Qed.
Lemma cnt_remove_first_same k l : cnt k (remove_first k l) = pred (cnt k l).
Proof.
  induction l as [|x l IH]; simpl; [done|]. case_bool_decide.
  - subst. rewrite cnt_cons. destruct (decide (k = k)); [simpl; lia|done].
  - rewrite !cnt_cons. destruct (decide (x = k)); [done|]. simpl. done.
Qed.
Lemma cnt_remove_first_other k k' l : k' ≠ k → cnt k (remove_first k' l) = cnt k l.
Proof.
  intros Hne. induction l as [|x l IH]; simpl; [done|]. case_bool_decide.
  - subst. rewrite cnt_cons. destruct (decide (k' = k)); [done|]. simpl; lia.
  - rewrite !cnt_cons. lia.
Qed.
Lemma cnt_NoDup k l : NoDup l → (cnt k l ≤ 1)%nat.
Proof.
  induction 1 as [|x l Hx Hl IH]; [rewrite cnt_nil; lia|]. rewrite cnt_cons.
  destruct (decide (x = k)); [|lia]. subst. apply cnt_zero in Hx. lia.
Qed.

Lemma head_filter_split {A} (P : A → Prop) `{∀ x, Decision (P x)} l x :
  head (filter P l) = Some x → ∃ pre post, l = pre ++ x :: post ∧ (∀ y, y ∈ pre → ¬ P y) ∧ P x.
Proof.
  induction l as [|y l IH]; [done|]. rewrite filter_cons. destruct (decide (P y)); simpl.
  - intros [= ->]. exists [], l. split; [done|]. split; [|done]. intros ? ?%elem_of_nil; done.
  - intros (pre & post & -> & Hpre & Hx)%IH. exists (y :: pre), post. split; [done|]. split; [|done].
    intros z [->|?]%elem_of_cons; auto.
Qed.

Lemma NoDup_fmap_eq {A B} (f : A → B) l x y : NoDup (f <$> l) → x ∈ l → y ∈ l → f x = f y → x = y.
Proof.
  induction l as [|z l IH]; [by rewrite elem_of_nil|]. rewrite fmap_cons, NoDup_cons, !elem_of_cons.
  intros [Hz Hl] [->|Hx] [->|Hy] Hf; auto.
  - exfalso; apply Hz. rewrite Hf. apply elem_of_list_fmap; eauto.
  - exfalso; apply Hz. rewrite <- Hf. apply elem_of_list_fmap; eauto.
Qed.

Lemma list_map_fmap {A B} (f : A → B) l : map f l = f <$> l.
Proof. done. Qed.

(** ** Garbage collection *)

Section gc.
  Context (cfg : config) (t : Z) (s : sstate).
  Lemma gc_sessions : st_sessions (run_gc_until cfg t s) = st_sessions s.
  Proof. unfold run_gc_until; repeat case_match; done. Qed.
  Lemma gc_timers : st_timers (run_gc_until cfg t s) = st_timers s.
  Proof. unfold run_gc_until; repeat case_match; done. Qed.
  Lemma gc_waiters : st_waiters (run_gc_until cfg t s) = st_waiters s.
  Proof. unfold run_gc_until; repeat case_match; done. Qed.
  Lemma gc_file : st_file (run_gc_until cfg t s) = st_file s.
  Proof. unfold run_gc_until; repeat case_match; done. Qed.
  Lemma gc_now : st_now (run_gc_until cfg t s) = st_now s.
  Proof. unfold run_gc_until; repeat case_match; done. Qed.
  Lemma gc_shut : st_shut (run_gc_until cfg t s) = st_shut s.
  Proof. unfold run_gc_until; repeat case_match; done. Qed.
  Lemma gc_used : st_used (run_gc_until cfg t s) = st_used s.
  Proof. unfold run_gc_until; repeat case_match; done. Qed.
  Lemma gc_locks_sub n o : st_locks (run_gc_until cfg t s) !! n = Some o → st_locks s !! n = Some o.
  Proof.
    unfold run_gc_until; repeat case_match; try done. cbn.
    rewrite map_filter_lookup_Some. tauto.
  Qed.
  Lemma gc_locks_keep n o : st_locks s !! n = Some o →
    lo_keys o ≠ [] ∨ name_waiters n (st_waiters s) ≠ [] → st_locks (run_gc_until cfg t s) !! n = Some o.
  Proof.
    intros Hl Hne. unfold run_gc_until; repeat case_match; try done. cbn.
    rewrite map_filter_lookup_Some. split; [done|]. unfold gc_collectable.
    destruct Hne; repeat case_bool_decide; try done.
  Qed.
  Lemma gc_live n k : live s n k → live (run_gc_until cfg t s) n k.
  Proof.
    intros (o & Ho & Hk). exists o. split; [|done]. apply gc_locks_keep; [done|]. left.
    intros E; rewrite E in Hk. by apply elem_of_nil in Hk.
  Qed.
  Lemma gc_live_inv n k : live (run_gc_until cfg t s) n k → live s n k.
  Proof. intros (o & Ho & Hk). exists o. split; [|done]. by apply gc_locks_sub. Qed.
End gc.

(** ** record_grant, remove_lock_entry *)

Definition grant_timers (now : Z) (n : str) (w : waiter) (T : gmap str timer) : gmap str timer :=
  match w_lt w with
  | Some lt => if 0 <? lt then <[tkey n (w_key w) := Timer (now + lt * second) n (w_key w) (w_sid w)]> T else T
  | None => T
  end.

Definition grant_sessions (n : str) (w : waiter) (S : gmap str (list clock)) : gmap str (list clock) :=
  <[w_sid w := default [] (S !! w_sid w) ++ [Clock n (w_key w) (w_size w)]]> S.

Section rle.
  Context (cfg : config) (n k : str) (s : sstate).
  Lemma rle_locks : st_locks (remove_lock_entry cfg n k s) = st_locks s.
  Proof. unfold remove_lock_entry, save; repeat case_match; done. Qed.
  Lemma rle_timers : st_timers (remove_lock_entry cfg n k s) = st_timers s.
  Proof. unfold remove_lock_entry, save; repeat case_match; done. Qed.
  Lemma rle_waiters : st_waiters (remove_lock_entry cfg n k s) = st_waiters s.
  Proof. unfold remove_lock_entry, save; repeat case_match; done. Qed.
  Lemma rle_now : st_now (remove_lock_entry cfg n k s) = st_now s.
  Proof. unfold remove_lock_entry, save; repeat case_match; done. Qed.
  Lemma rle_gc_next : st_gc_next (remove_lock_entry cfg n k s) = st_gc_next s.
  Proof. unfold remove_lock_entry, save; repeat case_match; done. Qed.
  Lemma rle_shut : st_shut (remove_lock_entry cfg n k s) = st_shut s.
  Proof. unfold remove_lock_entry, save; repeat case_match; done. Qed.
  Lemma rle_used : st_used (remove_lock_entry cfg n k s) = st_used s.
  Proof. unfold remove_lock_entry, save; repeat case_match; done. Qed.
  Lemma rle_sessions : st_sessions (remove_lock_entry cfg n k s)
     = (λ l, filter (λ c, is_hold n k c = false) l) <$> st_sessions s.
  Proof. unfold remove_lock_entry, save; repeat case_match; done. Qed.
End rle.

(** ** mgr_unlock (with the hand-off) in closed form. [x] is the parked call that was granted, if any. *)

Definition granted_key (x : option waiter) : list str := match x with Some w => [w_key w] | None => [] end.

Definition unlock_shape (n k : str) (L : gmap str lockobj) (W : list waiter) (now : Z)
           (s2 : sstate) (x : option waiter) (o : list out) : Prop :=
  (∀ w, x = Some w → head (name_waiters n W) = Some w ∧ ∃ ob, L !! n = Some ob ∧ k ∈ lo_keys ob) ∧
  o = match x with Some w => [OWaiter (w_id w) now (RLock true (w_key w) None)] | None => [] end ∧
  st_waiters s2 = match x with
                  | Some w => filter (λ w', bool_decide (w_id w' ≠ w_id w)) W
                  | None => W end ∧
  match L !! n with
  | None => st_locks s2 = L ∧ x = None
  | Some ob => st_locks s2 = <[n := LockObj (lo_size ob) (remove_first k (lo_keys ob) ++ granted_key x) now]> L
  end.

Lemma hand_off_spec cfg n s s2 o : hand_off cfg n s = (s2, o) →
  (s2 = s ∧ o = []) ∨
  (∃ ob w, st_locks s !! n = Some ob ∧ head (name_waiters n (st_waiters s)) = Some w ∧
     Z.of_nat (length (lo_keys ob)) < lo_size ob ∧
     o = [OWaiter (w_id w) (st_now s) (RLock true (w_key w) None)] ∧
     s2 = record_grant cfg (w_sid w) n (w_key w) (w_size w) (w_lt w)
            (s <| st_locks := <[n := ob <| lo_keys := lo_keys ob ++ [w_key w] |>]> (st_locks s) |>
               <| st_waiters := filter (λ w', bool_decide (w_id w' ≠ w_id w)) (st_waiters s) |>)).
Proof.
  unfold hand_off. destruct (st_locks s !! n) as [ob|] eqn:Hl; [|intros [= <- <-]; by left].
  destruct (name_waiters n (st_waiters s)) as [|w ws] eqn:Hw; [intros [= <- <-]; by left|].
  case_bool_decide; [|intros [= <- <-]; by left].
  intros [= <- <-]. right. exists ob, w. split; [done|]. split; [done|]. split; [done|]. split; [done|].
  unfold add_key. rewrite Hl. done.
Qed.

Section rg.
  Context (cfg : config) (sid n k : str) (sz : Z) (lt : option Z) (s : sstate).
  Lemma rg_locks : st_locks (record_grant cfg sid n k sz lt s) = st_locks s.
  Proof. unfold record_grant, save; repeat case_match; done. Qed.
  Lemma rg_waiters : st_waiters (record_grant cfg sid n k sz lt s) = st_waiters s.
  Proof. unfold record_grant, save; repeat case_match; done. Qed.
  Lemma rg_now : st_now (record_grant cfg sid n k sz lt s) = st_now s.
  Proof. unfold record_grant, save; repeat case_match; done. Qed.
  Lemma rg_gc_next : st_gc_next (record_grant cfg sid n k sz lt s) = st_gc_next s.
  Proof. unfold record_grant, save; repeat case_match; done. Qed.
  Lemma rg_shut : st_shut (record_grant cfg sid n k sz lt s) = st_shut s.
  Proof. unfold record_grant, save; repeat case_match; done. Qed.
  Lemma rg_used : st_used (record_grant cfg sid n k sz lt s) = st_used s.
  Proof. unfold record_grant, save; repeat case_match; done. Qed.
  Lemma rg_sessions : st_sessions (record_grant cfg sid n k sz lt s)
     = <[sid := default [] (st_sessions s !! sid) ++ [Clock n k sz]]> (st_sessions s).
  Proof. unfold record_grant, save; repeat case_match; done. Qed.
  Lemma rg_file : st_file (record_grant cfg sid n k sz lt s)
     = if c_file cfg then Some (<[sid := default [] (st_sessions s !! sid) ++ [Clock n k sz]]> (st_sessions s)) else st_file s.
  Proof. unfold record_grant, save; repeat case_match; done. Qed.
  Lemma rg_timers : st_timers (record_grant cfg sid n k sz lt s)
     = match lt with
       | Some t => if 0 <? t then <[tkey n k := Timer (st_now s + t * second) n k sid]> (st_timers s) else st_timers s
       | None => st_timers s end.
  Proof. unfold record_grant, save; repeat case_match; done. Qed.
End rg.

Lemma mgr_unlock_spec cfg n k s s2 r o : mgr_unlock cfg n k s = (s2, r, o) →
  ∃ x, unlock_shape n k (st_locks s) (st_waiters s) (st_now s) s2 x o ∧
    st_now s2 = st_now s ∧ st_gc_next s2 = st_gc_next s ∧ st_shut s2 = st_shut s ∧ st_used s2 = st_used s ∧
    st_timers s2 = match x with Some w => grant_timers (st_now s) n w (st_timers s) | None => st_timers s end ∧
    st_sessions s2 = match x with Some w => grant_sessions n w (st_sessions s) | None => st_sessions s end ∧
    st_file s2 = match x with Some w => if c_file cfg then Some (grant_sessions n w (st_sessions s)) else st_file s
                 | None => st_file s end ∧
    r = match st_locks s !! n with
        | None => inl ELockDoesNotExist
        | Some ob => if bool_decide (k ∈ lo_keys ob) then inr tt else inl ELockInvalidLockKey
        end.
Proof.
  unfold mgr_unlock, unlock_shape. destruct (st_locks s !! n) as [ob|] eqn:Hl.
  2:{ intros [= <- <- <-]. exists None. split_and!; done. }
  case_bool_decide as Hk.
  2:{ intros [= <- <- <-]. exists None. cbn. rewrite remove_first_notin, app_nil_r by done.
      destruct ob; split_and!; done. }
  destruct (hand_off _ _ _) as [s3 o3] eqn:Hh. intros [= <- <- <-].
  apply hand_off_spec in Hh as [[-> ->]|(ob' & w & Hl' & Hw & Hlt & -> & ->)].
  - exists None. cbn. rewrite app_nil_r. destruct ob; split_and!; done.
  - cbn in Hl', Hw |- *. rewrite lookup_insert in Hl'. injection Hl' as <-.
    exists (Some w). rewrite rg_now, rg_gc_next, rg_shut, rg_used, rg_waiters, rg_locks, rg_timers, rg_sessions, rg_file.
    cbn. rewrite insert_insert. destruct ob; cbn in *.
    split_and!; try done.
    intros ? [= <-]. eauto.
Qed.

Lemma unlock_shape_lookup n k L W now s2 x o n' : unlock_shape n k L W now s2 x o →
  st_locks s2 !! n' =
    (λ ob, if decide (n' = n) then LockObj (lo_size ob) (remove_first k (lo_keys ob) ++ granted_key x) now else ob)
      <$> (L !! n').
Proof.
  intros (_ & _ & _ & Hl). destruct (L !! n) as [ob|] eqn:E.
  - rewrite Hl. destruct (decide (n' = n)) as [->|Hne].
    + by rewrite lookup_insert, E.
    + rewrite lookup_insert_ne by done. by destruct (L !! n').
  - destruct Hl as [-> _]. destruct (decide (n' = n)) as [->|Hne].
    + by rewrite E.
    + by destruct (L !! n').
Qed.

Lemma unlock_shape_waiters_sub n k L W now s2 x o w : unlock_shape n k L W now s2 x o → w ∈ st_waiters s2 → w ∈ W.
Proof.
  intros (_ & _ & Hw & _). rewrite Hw. destruct x; [|done]. by intros [_ ?]%elem_of_list_filter.
Qed.

Lemma unlock_shape_granted n k L W now s2 x o w : unlock_shape n k L W now s2 x o → x = Some w → w ∈ W ∧ w_name w = n.
Proof.
  intros (Hx & _) ->. destruct (Hx w eq_refl) as [Hh _].
  apply head_Some_elem_of, elem_of_list_filter in Hh. tauto.
Qed.

Lemma grant_timers_lookup now n w T tk t : grant_timers now n w T !! tk = Some t →
  T !! tk = Some t ∨
  (∃ lt, w_lt w = Some lt ∧ 0 < lt ∧ tk = tkey n (w_key w) ∧ t = Timer (now + lt * second) n (w_key w) (w_sid w)).
Proof.
  unfold grant_timers. destruct (w_lt w) as [lt|]; [|by left]. destruct (Z.ltb_spec 0 lt); [|by left].
  destruct (decide (tk = tkey n (w_key w))) as [->|Hne].
  - rewrite lookup_insert. intros [= <-]. right. eauto.
  - rewrite lookup_insert_ne by done. by left.
Qed.

Lemma grant_timers_lookup_ne now n w T tk : tk ≠ tkey n (w_key w) → grant_timers now n w T !! tk = T !! tk.
Proof.
  intros Hne. unfold grant_timers. repeat case_match; try done. by rewrite lookup_insert_ne.
Qed.

(** ** expire *)

Lemma expire_spec cfg tk t s s2 o : expire cfg tk t s = (s2, o) →
  ∃ x, unlock_shape (tm_name t) (tm_key t) (st_locks s) (st_waiters s) (st_now s) s2 x o ∧
    st_now s2 = st_now s ∧
    st_timers s2 = delete tk (match x with Some w => grant_timers (st_now s) (tm_name t) w (st_timers s)
                                         | None => st_timers s end).
Proof.
  unfold expire. destruct (mgr_unlock _ _ _ _) as [[s1 r] o1] eqn:Hm. intros [= <- <-].
  apply mgr_unlock_spec in Hm as (x & Hs & Hnow & _ & _ & _ & Ht & _).
  exists x. unfold unlock_shape in *. cbn. rewrite rle_now, rle_waiters, rle_locks, rle_timers.
  rewrite Ht. done.
Qed.

(** ** next_due *)

Lemma all_items_spec s d : d ∈ all_items s ↔
  (∃ tk t, d = DTimer tk t ∧ st_timers s !! tk = Some t) ∨
  (∃ w, d = DWaiter w ∧ w ∈ st_waiters s ∧ w_deadline w ≠ None).
Proof.
  unfold all_items. rewrite elem_of_app, !list_map_fmap, !elem_of_list_fmap. split.
  - intros [([tk t] & -> & Hin)|(w & -> & Hin)].
    + left. exists tk, t. split; [done|]. by apply elem_of_map_to_list in Hin.
    + right. exists w. apply elem_of_list_filter in Hin as [Hd Hin]. apply bool_decide_unpack in Hd. done.
  - intros [(tk & t & -> & Hl)|(w & -> & Hin & Hd)].
    + left. exists (tk, t). split; [done|]. by apply elem_of_map_to_list.
    + right. exists w. split; [done|]. apply elem_of_list_filter. split; [|done]. by apply bool_decide_pack.
Qed.

Lemma fold_min_spec l m0 : let m := fold_left (λ m d', Z.min m (due_time d')) l m0 in
  m ≤ m0 ∧ (∀ d, d ∈ l → m ≤ due_time d) ∧ (m = m0 ∨ ∃ d, d ∈ l ∧ m = due_time d).
Proof.
  revert m0. induction l as [|d l IH]; intros m0; simpl.
  - split; [lia|]. split; [|by left]. intros ? ?%elem_of_nil; done.
  - destruct (IH (Z.min m0 (due_time d))) as (H1 & H2 & H3). split; [lia|]. split.
    + intros d' [->|?]%elem_of_cons; [lia|auto].
    + destruct H3 as [H3|(d' & Hd' & H3)].
      * rewrite H3. destruct (Z.min_spec m0 (due_time d)) as [[? E]|[? E]]; rewrite E; [by left|].
        right. exists d. split; [left|done].
      * right. exists d'. split; [by right|done].
Qed.

Lemma min_time_spec l m : min_time l = Some m → (∀ d, d ∈ l → m ≤ due_time d) ∧ ∃ d, d ∈ l ∧ m = due_time d.
Proof.
  destruct l as [|d0 l]; [done|]. simpl. intros [= <-].
  destruct (fold_min_spec l (due_time d0)) as (H1 & H2 & H3). split.
  - intros d [->|?]%elem_of_cons; [done|auto].
  - destruct H3 as [H3|(d & ? & ?)]; [exists d0; split; [left|done]|exists d; split; [by right|done]].
Qed.

Lemma next_due_elem target s d : d ∈ next_due target s →
  d ∈ all_items s ∧ due_time d ≤ target ∧ ∀ d', d' ∈ all_items s → due_time d ≤ due_time d'.
Proof.
  unfold next_due. destruct (min_time (all_items s)) as [m|] eqn:Hm; [|by rewrite elem_of_nil].
  apply min_time_spec in Hm as [Hmin _]. destruct (Z.leb_spec m target); [|by rewrite elem_of_nil].
  rewrite elem_of_list_filter. intros [Hd Hin]. apply Is_true_true, Z.eqb_eq in Hd. split; [done|]. split; [lia|].
  intros d' Hd'. rewrite Hd. auto.
Qed.

Lemma next_due_nil target s d : next_due target s = [] → d ∈ all_items s → target < due_time d.
Proof.
  unfold next_due. destruct (min_time (all_items s)) as [m|] eqn:Hm.
  - apply min_time_spec in Hm as [Hmin (d0 & Hd0 & ->)]. destruct (Z.leb_spec (due_time d0) target).
    + intros Hnil. exfalso. assert (d0 ∈ filter (λ d, due_time d =? due_time d0) (all_items s)) as Hin.
      { apply elem_of_list_filter. split; [|done]. apply Is_true_true, Z.eqb_refl. }
      rewrite Hnil in Hin. by apply elem_of_nil in Hin.
    + intros _ Hd. specialize (Hmin _ Hd). lia.
  - destruct (all_items s); [by rewrite elem_of_nil|done].
Qed.

(** ** One round of the loop *)

Definition tick (cfg : config) (t : Z) (s : sstate) : sstate := (run_gc_until cfg t s) <| st_now := t |>.

Definition measure (s : sstate) : nat := (size (st_timers s) + 2 * length (st_waiters s))%nat.

Lemma filter_id_length (ws : list waiter) (w : waiter) : w ∈ ws →
  (S (length (filter (λ w', bool_decide (w_id w' ≠ w_id w)) ws)) ≤ length ws)%nat.
Proof.
  induction ws as [|y ws IH]; [by rewrite elem_of_nil|]. rewrite filter_cons, elem_of_cons.
  intros [<-|Hin].
  - destruct (decide _) as [Hd|Hd]; [by apply bool_decide_unpack in Hd|]. simpl.
    pose proof (filter_length (λ w', bool_decide (w_id w' ≠ w_id w)) ws). lia.
  - specialize (IH Hin). destruct (decide _); simpl; lia.
Qed.

Lemma fire_measure cfg d s s2 o : d ∈ all_items s → fire cfg d s = (s2, o) → (measure s2 < measure s)%nat.
Proof.
  intros Hd Hf. apply all_items_spec in Hd as [(tk & t & -> & Hl)|(w & -> & Hin & _)]; simpl in Hf.
  - apply expire_spec in Hf as (x & Hs & _ & Ht). pose proof (λ w, unlock_shape_granted _ _ _ _ _ _ _ _ w Hs) as Hx.
    destruct Hs as (_ & _ & Hw & _).
    unfold measure. rewrite Ht, Hw. destruct x as [w|].
    + destruct (Hx w eq_refl) as [Hin _].
      pose proof (filter_id_length _ _ Hin). rewrite map_size_delete. unfold grant_timers.
      assert (size (st_timers s) ≠ 0%nat) by (intros E%map_size_empty_inv; by rewrite E in Hl).
      repeat case_match; try rewrite map_size_insert in *; repeat case_match; simpl in *; try lia.
    + rewrite map_size_delete, Hl. simpl.
      assert (size (st_timers s) ≠ 0%nat) by (intros E%map_size_empty_inv; by rewrite E in Hl). lia.
  - injection Hf as <- <-. unfold measure. cbn. pose proof (filter_id_length _ _ Hin). lia.
Qed.

Lemma tick_measure cfg t s : measure (tick cfg t s) = measure s.
Proof. unfold measure, tick. cbn. by rewrite gc_timers, gc_waiters. Qed.

Lemma tick_all_items cfg t s : all_items (tick cfg t s) = all_items s.
Proof. unfold all_items, tick. cbn. by rewrite gc_timers, gc_waiters. Qed.

(** ** The loop: an invariant [I] of the rounds holds of the state from which [finish_advance] is taken,
    and with enough fuel nothing due remains there *)

Lemma advance_loop_elem cfg fuel target s outs r : r ∈ advance_loop cfg (S fuel) target s outs →
  (next_due target s = [] ∧ r = (finish_advance cfg target s, outs)) ∨
  (∃ d s2 o, d ∈ next_due target s ∧ fire cfg d (tick cfg (Z.max (st_now s) (due_time d)) s) = (s2, o) ∧
             r ∈ advance_loop cfg fuel target s2 (outs ++ o)).
Proof.
  cbn [advance_loop]. remember (next_due target s) as nd eqn:Hnd. destruct nd as [|d0 ds].
  - intros ->%elem_of_list_singleton. by left.
  - intros (d & Hd & Hin)%elem_of_list_In%in_flat_map. right.
    apply elem_of_list_In in Hd. change (run_gc_until cfg ?t s <| st_now := ?t |>) with (tick cfg t s) in Hin.
    destruct (fire cfg d _) as [s2 o] eqn:Hf. exists d, s2, o. by rewrite <- elem_of_list_In in Hin.
Qed.

Lemma advance_loop_inv cfg target (I : sstate → list out → Prop) :
  (∀ s outs d s2 o, I s outs → d ∈ next_due target s →
     fire cfg d (tick cfg (Z.max (st_now s) (due_time d)) s) = (s2, o) → I s2 (outs ++ o)) →
  ∀ fuel s outs s' o', (measure s < fuel)%nat → I s outs → (s', o') ∈ advance_loop cfg fuel target s outs →
  ∃ sf, I sf o' ∧ next_due target sf = [] ∧ s' = finish_advance cfg target sf.
Proof.
  intros Hstep. induction fuel as [|fuel IH]; intros s outs s' o' Hm HI Hin; [lia|].
  apply advance_loop_elem in Hin as [[Hnd [= -> ->]]|(d & s2 & o & Hd & Hf & Hin)]; [eauto|].
  eapply IH; [|eapply Hstep; eauto|exact Hin].
  apply next_due_elem in Hd as (Hd & _). rewrite <- (tick_all_items cfg (Z.max (st_now s) (due_time d))) in Hd.
  eapply fire_measure in Hf; [|exact Hd]. rewrite tick_measure in Hf. lia.
Qed.

Lemma advance_fuel_measure s : (measure s < advance_fuel s)%nat.
Proof. unfold measure, advance_fuel. lia. Qed.
