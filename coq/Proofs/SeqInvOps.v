(** Preservation of the component invariants of SeqInvBase by the functions of Model/Seq.v that make up
    a request: getLock, the grant bookkeeping, RemoveLock, the manager's Unlock with its hand-off. *)
From Coq Require Import Lia ZifyBool ZifyNat.
From Ldlm Require Import Model.Base Model.Err Model.Seq Proofs.SeqDefs Proofs.SeqLemmasKey Proofs.SeqInvBase.
From RecordUpdate Require Import RecordSet.
Import RecordSetNotations.
Local Open Scope Z_scope.

Definition STI (s : sstate) (D : list (str * str)) : Prop :=
  TI (st_locks s) (st_timers s) (st_waiters s) (st_used s) D.
Definition SLI (cfg : config) (s : sstate) : Prop :=
  LI cfg (st_sessions s) (st_file s) (st_waiters s) (st_used s).
Definition STM (P : Z → Prop) (s : sstate) : Prop := TM P (st_timers s) (st_waiters s).
Definition SVW (s : sstate) : Prop := VW (st_locks s) (st_sessions s).

(** the structural invariant of quiescent states: [Inv] without the time conditions *)
Definition SI (cfg : config) (s : sstate) : Prop := STI s [] ∧ SLI cfg s ∧ SVW s.

(** [s'] runs at the same instant as [s] *)
Definition same_clock (s s' : sstate) : Prop :=
  st_now s' = st_now s ∧ st_gc_next s' = st_gc_next s.

Lemma same_clock_refl s : same_clock s s.
Proof. done. Qed.
Lemma same_clock_trans s1 s2 s3 : same_clock s1 s2 → same_clock s2 s3 → same_clock s1 s3.
Proof. intros [? ?] [? ?]. split; congruence. Qed.

(** ** getLock *)

Lemma glc_shape name size s o s1 :
  get_lock_create name size s = inr (o, s1) →
  0 < size ∧ lo_size o = size ∧ s1 = s <| st_locks := <[name := o]> (st_locks s) |> ∧
  ((∃ o0, st_locks s !! name = Some o0 ∧ o = o0 <| lo_last := st_now s |>)
   ∨ (st_locks s !! name = None ∧ o = LockObj size [] (st_now s))).
Proof.
  unfold get_lock_create. destruct (size <=? 0) eqn:E; [done|].
  destruct (st_locks s !! name) as [o0|] eqn:Ho.
  - case_bool_decide; [|done]. intros [= <- <-]. split_and!; [lia|done|done|]. left. eauto.
  - intros [= <- <-]. split_and!; [lia|done|done|]. right. eauto.
Qed.

Lemma glc_STI name size s o s1 D :
  get_lock_create name size s = inr (o, s1) → STI s D → STI s1 D.
Proof.
  intros (Hsz & _ & -> & [(o0 & Ho0 & ->)|[Hn ->]])%glc_shape HI; unfold STI in *; simpl.
  - by apply TI_touch.
  - by apply TI_create.
Qed.

Lemma glc_intab name size s o s1 c :
  get_lock_create name size s = inr (o, s1) → intab (st_locks s1) c ↔ intab (st_locks s) c.
Proof.
  intros (Hsz & _ & -> & [(o0 & Ho0 & ->)|[Hn ->]])%glc_shape; simpl.
  - by apply intab_touch.
  - rewrite intab_insert. simpl. split; [intros [(_ & H & _)|[_ H]]; [by apply elem_of_nil in H|done]|].
    intros H. right. split; [|done]. intros <-. destruct H as (? & ? & _). congruence.
Qed.

Lemma glc_livel name size s o s1 n k :
  get_lock_create name size s = inr (o, s1) → livel (st_locks s1) n k ↔ livel (st_locks s) n k.
Proof.
  intros (Hsz & _ & -> & [(o0 & Ho0 & ->)|[Hn ->]])%glc_shape; simpl.
  - by apply livel_touch.
  - rewrite livel_insert. simpl. split; [intros [(_ & H)|[_ H]]; [by apply elem_of_nil in H|done]|].
    intros H. right. split; [|done]. intros ->. destruct H as (? & ? & _). congruence.
Qed.

(** ** The bookkeeping of a grant *)

Section record_grant.
  Context (cfg : config) (sid name key : str) (size : Z) (lt : option Z) (s : sstate).
  Let s' := record_grant cfg sid name key size lt s.

  Lemma rg_locks : st_locks s' = st_locks s.
  Proof. subst s'. unfold record_grant, save. by repeat case_match. Qed.
  Lemma rg_waiters : st_waiters s' = st_waiters s.
  Proof. subst s'. unfold record_grant, save. by repeat case_match. Qed.
  Lemma rg_used : st_used s' = st_used s.
  Proof. subst s'. unfold record_grant, save. by repeat case_match. Qed.
  Lemma rg_now : st_now s' = st_now s.
  Proof. subst s'. unfold record_grant, save. by repeat case_match. Qed.
  Lemma rg_gc_next : st_gc_next s' = st_gc_next s.
  Proof. subst s'. unfold record_grant, save. by repeat case_match. Qed.
  Lemma rg_sessions :
    st_sessions s' = <[sid := default [] (st_sessions s !! sid) ++ [Clock name key size]]> (st_sessions s).
  Proof. subst s'. unfold record_grant, save. by repeat case_match. Qed.
  Lemma rg_file : c_file cfg = true → st_file s' = Some (st_sessions s').
  Proof. subst s'. unfold record_grant, save. intros ->. by repeat case_match. Qed.
  Lemma rg_timers :
    st_timers s' = match lt with
                   | Some t => if 0 <? t then <[tkey name key := Timer (st_now s + t * second) name key sid]> (st_timers s)
                               else st_timers s
                   | None => st_timers s
                   end.
  Proof. subst s'. unfold record_grant, save. by repeat case_match. Qed.
End record_grant.

Lemma rg_STI cfg sid name key size lt s D :
  livel (st_locks s) name key → STI s D → STI (record_grant cfg sid name key size lt s) D.
Proof.
  intros Hl HI. unfold STI. rewrite rg_locks, rg_waiters, rg_used, rg_timers.
  destruct lt as [t|]; [|done]. destruct (0 <? t); [|done]. by apply TI_timer_insert.
Qed.

Lemma rg_SLI cfg sid name key size lt s :
  ¬ listedS (st_sessions s) (Clock name key size) → key ∈ st_used s → (∀ w, w ∈ st_waiters s → key ≠ w_key w) →
  SLI cfg s → SLI cfg (record_grant cfg sid name key size lt s).
Proof.
  intros Hnl Hu Hw HI. unfold SLI. rewrite rg_waiters, rg_used.
  eapply LI_grant; [apply rg_sessions|apply rg_file|done|done|done|done].
Qed.

Lemma rg_STM cfg sid name key size lt s (P : Z → Prop) :
  (∀ t, 0 < t → P (st_now s + t * second)) → STM P s → STM P (record_grant cfg sid name key size lt s).
Proof.
  intros HP HI. unfold STM. rewrite rg_waiters, rg_timers.
  destruct lt as [t|]; [|done]. destruct (0 <? t) eqn:E; [|done]. apply TM_timer_insert; [|done]. simpl. apply HP. lia.
Qed.

Lemma rg_listed cfg sid name key size lt s c :
  listedS (st_sessions (record_grant cfg sid name key size lt s)) c ↔
  listedS (st_sessions s) c ∨ c = Clock name key size.
Proof.
  rewrite rg_sessions, listedS_insert, elem_of_app, elem_of_list_singleton. unfold listedS. split.
  - intros [[H|H]|(sid' & l' & ? & ? & ?)]; eauto.
    destruct (st_sessions s !! sid) as [l|] eqn:E; simpl in H; [eauto|by apply elem_of_nil in H].
  - intros [(sid' & l' & Hs & ?)| ->]; [|auto]. destruct (decide (sid' = sid)) as [->|]; [|right; eauto 6].
    rewrite Hs. simpl. auto.
Qed.

(** ** sessionManager.RemoveLock *)

Section remove_lock_entry.
  Context (cfg : config) (name key : str) (s : sstate).
  Let s' := remove_lock_entry cfg name key s.

  Lemma rle_locks : st_locks s' = st_locks s.
  Proof. subst s'. unfold remove_lock_entry, save. by repeat case_match. Qed.
  Lemma rle_timers : st_timers s' = st_timers s.
  Proof. subst s'. unfold remove_lock_entry, save. by repeat case_match. Qed.
  Lemma rle_waiters : st_waiters s' = st_waiters s.
  Proof. subst s'. unfold remove_lock_entry, save. by repeat case_match. Qed.
  Lemma rle_used : st_used s' = st_used s.
  Proof. subst s'. unfold remove_lock_entry, save. by repeat case_match. Qed.
  Lemma rle_now : st_now s' = st_now s.
  Proof. subst s'. unfold remove_lock_entry, save. by repeat case_match. Qed.
  Lemma rle_gc_next : st_gc_next s' = st_gc_next s.
  Proof. subst s'. unfold remove_lock_entry, save. by repeat case_match. Qed.
  Lemma rle_sessions :
    st_sessions s' = (λ l, filter (λ c, is_hold name key c = false) l) <$> st_sessions s.
  Proof. subst s'. unfold remove_lock_entry, save. by repeat case_match. Qed.

  Lemma rle_file : c_file cfg = true →
    st_file s' = Some (st_sessions s') ∨ (st_file s' = st_file s ∧ st_sessions s' = st_sessions s).
  Proof.
    intros Hf. subst s'. unfold remove_lock_entry, save. rewrite Hf.
    destruct (existsb _ _) eqn:E; simpl; [by left|right]. split; [done|].
    apply map_eq. intros sid. rewrite lookup_fmap. destruct (st_sessions s !! sid) as [l|] eqn:Hs; simpl; [|done].
    f_equal. apply filter_all. intros c Hc.
    pose proof (existsb_false _ _ (sid, l) E) as H1. simpl in H1.
    apply (existsb_false (is_hold name key) l c); [|done]. apply H1. by apply elem_of_map_to_list.
  Qed.
End remove_lock_entry.

Lemma rle_listed cfg name key s c :
  listedS (st_sessions (remove_lock_entry cfg name key s)) c ↔
  listedS (st_sessions s) c ∧ ¬ (cl_name c = name ∧ cl_key c = key).
Proof.
  rewrite rle_sessions. unfold listedS. setoid_rewrite lookup_fmap.
  assert (∀ l : list clock, c ∈ filter (λ c, is_hold name key c = false) l ↔ c ∈ l ∧ ¬ (cl_name c = name ∧ cl_key c = key)) as Hf.
  { intros l. rewrite elem_of_list_filter. unfold is_hold.
    destruct (bool_decide (cl_name c = name)) eqn:E1; destruct (bool_decide (cl_key c = key)) eqn:E2; simpl;
      try apply bool_decide_eq_true in E1; try apply bool_decide_eq_true in E2;
      try apply bool_decide_eq_false in E1; try apply bool_decide_eq_false in E2; naive_solver. }
  split.
  - intros (sid & l' & Hs & Hc). destruct (st_sessions s !! sid) as [l|] eqn:E; simpl in Hs; [|done].
    simplify_eq. apply Hf in Hc as [? ?]. eauto.
  - intros [(sid & l & Hs & Hc) Hn]. exists sid, (filter (λ c, is_hold name key c = false) l). rewrite Hs. simpl.
    split; [done|]. apply Hf. auto.
Qed.

Lemma rle_STI cfg name key s D : STI s D → STI (remove_lock_entry cfg name key s) D.
Proof. unfold STI. by rewrite rle_locks, rle_timers, rle_waiters, rle_used. Qed.

Lemma rle_STM cfg name key s P : STM P s → STM P (remove_lock_entry cfg name key s).
Proof. unfold STM. by rewrite rle_timers, rle_waiters. Qed.

Lemma rle_SLI cfg name key s : SLI cfg s → SLI cfg (remove_lock_entry cfg name key s).
Proof.
  intros HI. unfold SLI. rewrite rle_waiters, rle_used.
  eapply LI_mono; [| |done|done|exact HI].
  - intros sid l'. rewrite rle_sessions, lookup_fmap.
    destruct (st_sessions s !! sid) as [l|] eqn:E; simpl; [|done]. intros [= <-]. split.
    + apply NoDup_filter. eapply li_nodup; eauto.
    + intros c [_ ?]%elem_of_list_filter. eauto.
  - intros Hf. destruct (rle_file cfg name key s Hf) as [->|[-> ->]]; auto.
Qed.

(** ** manager.Unlock with the hand-off *)

Lemma mgr_unlock_shape cfg name key s s' r outs :
  mgr_unlock cfg name key s = (s', r, outs) →
  (st_locks s !! name = None ∧ s' = s ∧ ∃ e, r = inl e) ∨
  (∃ o, st_locks s !! name = Some o ∧ key ∉ lo_keys o ∧ (∃ e, r = inl e) ∧
        s' = s <| st_locks := <[name := o <| lo_last := st_now s |>]> (st_locks s) |>) ∨
  (∃ o, st_locks s !! name = Some o ∧ key ∈ lo_keys o ∧ r = inr tt ∧
     let ks := remove_first key (lo_keys o) in
     ((s' = s <| st_locks := <[name := LockObj (lo_size o) ks (st_now s)]> (st_locks s) |> ∧
       (name_waiters name (st_waiters s) = [] ∨ ¬ Z.of_nat (length ks) < lo_size o)) ∨
      (∃ w rest, name_waiters name (st_waiters s) = w :: rest ∧ Z.of_nat (length ks) < lo_size o ∧
         s' = record_grant cfg (w_sid w) name (w_key w) (w_size w) (w_lt w)
                (s <| st_locks := <[name := LockObj (lo_size o) (ks ++ [w_key w]) (st_now s)]> (st_locks s) |>
                   <| st_waiters := filter (λ w', bool_decide (w_id w' ≠ w_id w)) (st_waiters s) |>)))).
Proof.
  unfold mgr_unlock. destruct (st_locks s !! name) as [o|] eqn:Ho.
  2:{ intros [= <- <- <-]. left. eauto. }
  case_bool_decide as Hk.
  2:{ intros [= <- <- <-]. right; left. exists o. eauto 6. }
  destruct (hand_off _ _ _) as [s2 outs2] eqn:Hh. intros [= <- <- <-]. right; right. exists o.
  split_and!; [done..|]. revert Hh. unfold hand_off. cbn [st_locks set]. rewrite lookup_insert. cbn [st_waiters set].
  destruct (name_waiters name (st_waiters s)) as [|w rest] eqn:Hw.
  { intros [= <- <-]. left. destruct o; simpl. auto. }
  simpl. case_bool_decide as Hlt.
  2:{ intros [= <- <-]. left. destruct o; simpl in *. auto. }
  intros [= <- <-]. right. exists w, rest. split_and!; [done|done|].
  unfold add_key. cbn [st_locks set]. rewrite lookup_insert. f_equal. destruct o, s; simpl.
  by rewrite insert_insert.
Qed.

Lemma intab_remove_key L n o o' k c :
  L !! n = Some o → NoDup (lo_keys o) → lo_size o' = lo_size o → lo_keys o' = remove_first k (lo_keys o) →
  intab (<[n := o']> L) c ↔ intab L c ∧ ¬ (cl_name c = n ∧ cl_key c = k).
Proof.
  intros Ho Hnd Es Ek. destruct (remove_first_nodup k _ Hnd) as [_ Hnk].
  rewrite intab_insert, Es, Ek. unfold intab. split.
  - intros [(<- & Hc & ?)|[? (o1 & ? & ? & ?)]]; [|split; [eauto|tauto]].
    split; [exists o; split_and!; [done|by eapply remove_first_incl|done]|]. intros [_ <-]. done.
  - intros [(o1 & Ho1 & Hc & ?) Hn]. destruct (decide (cl_name c = n)) as [E|]; [left|right; eauto].
    rewrite E in Ho1. simplify_eq. split_and!; [done| |done]. apply remove_first_ne; [done|]. tauto.
Qed.

Lemma mgr_unlock_inv cfg name key s s' r outs D (P : Z → Prop) :
  mgr_unlock cfg name key s = (s', r, outs) →
  STI s D → SLI cfg s → STM P s → (∀ t, 0 < t → P (st_now s + t * second)) →
  SLI cfg s' ∧ STM P s' ∧ same_clock s s' ∧ st_used s' = st_used s ∧
  (((∃ e, r = inl e) ∧ ¬ livel (st_locks s) name key ∧ STI s' D ∧
     (∀ c, intab (st_locks s') c ↔ intab (st_locks s) c) ∧ st_sessions s' = st_sessions s ∧
     st_timers s' = st_timers s ∧ st_waiters s' = st_waiters s ∧ st_file s' = st_file s)
   ∨ (r = inr tt ∧ livel (st_locks s) name key ∧ STI s' ((name, key) :: D) ∧
      st_timers s' !! tkey name key = st_timers s !! tkey name key ∧
      ∃ G : list clock, (∀ c, intab (st_locks s') c ↔ (intab (st_locks s) c ∧ ¬ (cl_name c = name ∧ cl_key c = key)) ∨ c ∈ G) ∧
           (∀ c, listedS (st_sessions s') c ↔ listedS (st_sessions s) c ∨ c ∈ G) ∧
           (∀ c, c ∈ G → cl_key c ≠ key ∧ ¬ intab (st_locks s) c ∧ ¬ listedS (st_sessions s) c))).
Proof.
  intros Hm HT HL HM HP.
  apply mgr_unlock_shape in Hm as [(Hn & -> & He)|[(o & Ho & Hk & He & ->)|(o & Ho & Hk & -> & Hm)]].
  - split_and!; [done..|]. left. split_and!; try done. intros (o & ? & _). congruence.
  - split_and!; [done..|]. left. simpl. split_and!; try done.
    + intros (o' & ? & ?). congruence.
    + by apply TI_touch.
    + intros c. by apply intab_touch.
  - pose proof (ti_cap _ _ _ _ _ HT _ _ Ho) as (Hsz & Hlen & Hnd).
    pose proof (remove_first_len key _ Hk) as Hlen'.
    assert (livel (st_locks s) name key) as Hlive by (exists o; auto).
    simpl in Hm. destruct Hm as [[-> Hnw]|(w & rest & Hw & Hlt & ->)].
    + assert (∀ w, w ∈ st_waiters s → w_name w ≠ name) as Hnw'.
      { destruct Hnw as [Hnw|Hnw]; [|lia]. intros w. by apply name_waiters_nil_ne. }
      split_and!; [done..|]. right. simpl. split_and!; [done|done| |done|].
      * eapply TI_remove_key; eauto.
      * exists []. split_and!.
        -- intros c. rewrite (intab_remove_key _ _ o _ key) by done. rewrite elem_of_nil. tauto.
        -- intros c. rewrite elem_of_nil. tauto.
        -- intros c ?%elem_of_nil. done.
    + apply name_waiters_cons in Hw as [Hw Hwn].
      destruct (ti_used_waiters _ _ _ _ _ HT _ Hw) as [HwU Hwdead].
      destruct (ti_waiters _ _ _ _ _ HT _ Hw) as (o1 & Ho1 & _ & Hwsz). rewrite Hwn in Ho1. simplify_eq.
      assert (w_key w ≠ key) as Hwk by (intros E; apply (Hwdead (w_name w)); by rewrite E).
      set (W' := filter (λ w', bool_decide (w_id w' ≠ w_id w)) (st_waiters s)).
      assert (∀ w', w' ∈ W' → w' ∈ st_waiters s ∧ w_key w' ≠ w_key w) as HW'.
      { intros w' [Hp Hw']%elem_of_list_filter. split; [done|]. intros E.
        apply bool_decide_spec in Hp. apply Hp. f_equal.
        eapply (NoDup_fmap_inj_on w_key); eauto. eapply ti_wkeys; eauto. }
      set (L' := <[w_name w := LockObj (lo_size o) (remove_first key (lo_keys o) ++ [w_key w]) (st_now s)]> (st_locks s)).
      set (sm := s <| st_locks := L' |> <| st_waiters := W' |>).
      assert (STI sm ((w_name w, key) :: D)) as HTm.
      { unfold STI, sm. simpl. eapply (TI_swap_key _ _ _ _ _ _ o); eauto.
        intros w'. apply bool_decide_spec. }
      assert (livel (st_locks sm) (w_name w) (w_key w)) as Hlw.
      { unfold sm, L'. simpl. rewrite livel_insert. left. split; [done|]. simpl.
        rewrite elem_of_app, elem_of_list_singleton. auto. }
      assert (¬ listedS (st_sessions s) (Clock (w_name w) (w_key w) (w_size w))) as Hnl.
      { intros Hl. by eapply (li_nw _ _ _ _ _ HL _ w Hl). }
      split_and!.
      * apply rg_SLI; simpl; [done|done|intros w' Hw'; apply not_eq_sym; by apply HW'|].
        unfold SLI, sm. simpl. eapply LI_waiters_sub; [|done|exact HL]. intros w' Hw'. by apply HW'.
      * apply rg_STM; [done|]. unfold STM, sm. simpl. eapply TM_waiters_sub; [|exact HM]. intros w' Hw'. by apply HW'.
      * split; [by rewrite rg_now|by rewrite rg_gc_next].
      * by rewrite rg_used.
      * right. split_and!; [done|done|by apply rg_STI| |].
        -- rewrite rg_timers. simpl.
           assert (tkey (w_name w) (w_key w) ≠ tkey (w_name w) key) by (intros [_ ?]%tkey_inj; done).
           destruct (w_lt w) as [t|]; [|done]. destruct (0 <? t); [|done]. by rewrite lookup_insert_ne.
        -- exists [Clock (w_name w) (w_key w) (w_size w)]. split_and!.
           ++ intros c. rewrite rg_locks, elem_of_list_singleton. unfold sm, L'. simpl.
              rewrite intab_insert. simpl. rewrite elem_of_app, elem_of_list_singleton.
              rewrite <-(intab_remove_key (st_locks s) (w_name w) o (LockObj (lo_size o) (remove_first key (lo_keys o)) 0) key c) by done.
              rewrite intab_insert. simpl. split.
              ** intros [(? & [?|?] & ?)|?]; [tauto| |tauto]. right. destruct c; simpl in *. congruence.
              ** intros [[?|?]| ->]; [tauto|tauto|]. left. simpl. auto.
           ++ intros c. rewrite rg_listed, elem_of_list_singleton. unfold sm. simpl. done.
           ++ intros c ->%elem_of_list_singleton. simpl. split_and!; [done| |done].
              intros Hc%intab_livel. by apply (Hwdead (w_name w)).
Qed.

(** ** Unlock, lease expiry *)

Lemma unlock_views L S L' S' S'' name key (G : list clock) :
  VW L S →
  (∀ c, intab L' c ↔ (intab L c ∧ ¬ (cl_name c = name ∧ cl_key c = key)) ∨ c ∈ G) →
  (∀ c, listedS S' c ↔ listedS S c ∨ c ∈ G) →
  (∀ c, c ∈ G → cl_key c ≠ key ∧ ¬ intab L c ∧ ¬ listedS S c) →
  (∀ c, listedS S'' c ↔ listedS S' c ∧ ¬ (cl_name c = name ∧ cl_key c = key)) →
  VW L' S''.
Proof.
  intros HV Hi Hl HG Hl' c. rewrite Hl', Hl, Hi. split.
  - intros [[H|H] Hn]; [left; split; [by apply HV|done]|by right].
  - intros [[H Hn]|H]; [split; [left; by apply HV|done]|]. split; [by right|].
    intros [_ E]. by destruct (HG _ H) as [? _].
Qed.

Lemma srv_unlock_inv cfg name key s s' r outs (P : Z → Prop) :
  srv_unlock cfg name key s = (s', r, outs) →
  SI cfg s → STM P s → (∀ t, 0 < t → P (st_now s + t * second)) →
  SI cfg s' ∧ STM P s' ∧ same_clock s s'.
Proof.
  intros Hu (HT & HL & HV) HM HP. unfold srv_unlock in Hu.
  destruct (mgr_unlock _ _ _ _) as [[s1 r1] outs1] eqn:Hm.
  eapply (mgr_unlock_inv _ _ _ _ _ _ _ [] P) in Hm; simpl; [|by apply TI_timer_delete|done|by apply TM_timer_delete|done].
  destruct Hm as (HL1 & HM1 & HC1 & HU1 & [([e ->] & _ & HT1 & Hi & Hs & _)|(-> & Hlive & HT1 & Ht & G & Hi & Hl & HG)]).
  - simplify_eq. simpl in *. split_and!; [split_and!| |]; try done.
    intros c. rewrite Hi, Hs. apply HV.
  - simplify_eq. split_and!; [split_and!| |].
    + apply rle_STI. eapply TI_D_drop; [|done]. rewrite Ht. simpl. apply lookup_delete.
    + by apply rle_SLI.
    + unfold SVW. rewrite rle_locks. eapply unlock_views; [exact HV|exact Hi|exact Hl|exact HG|]. apply rle_listed.
    + by apply rle_STM.
    + destruct HC1. split; [by rewrite rle_now|by rewrite rle_gc_next].
Qed.

Lemma expire_inv cfg tk t s s' outs (P : Z → Prop) :
  expire cfg tk t s = (s', outs) → st_timers s !! tk = Some t →
  SI cfg s → STM P s → (∀ t, 0 < t → P (st_now s + t * second)) →
  SI cfg s' ∧ STM P s' ∧ same_clock s s'.
Proof.
  intros Hu Ht (HT & HL & HV) HM HP. unfold expire in Hu.
  destruct (mgr_unlock _ _ _ _) as [[s1 r1] outs1] eqn:Hm. simplify_eq.
  destruct (ti_timers _ _ _ _ _ HT _ _ Ht) as [-> [Hlive|[]%elem_of_nil]].
  eapply (mgr_unlock_inv _ _ _ _ _ _ _ [] P) in Hm; [|done..].
  destruct Hm as (HL1 & HM1 & HC1 & HU1 & [(_ & Hn & _)|(-> & _ & HT1 & _ & G & Hi & Hl & HG)]); [done|].
  split_and!; [split_and!| |]; simpl.
  - eapply TI_D_drop; [apply lookup_delete|]. apply TI_timer_delete. by apply rle_STI.
  - unfold SLI. simpl. by apply rle_SLI.
  - unfold SVW. simpl. rewrite rle_locks. eapply unlock_views; [exact HV|exact Hi|exact Hl|exact HG|]. apply rle_listed.
  - unfold STM. simpl. apply TM_timer_delete. by apply rle_STM.
  - destruct HC1. split; simpl; [by rewrite rle_now|by rewrite rle_gc_next].
Qed.

(** ** Parked calls leaving *)

Definition only_waiters (s s' : sstate) : Prop :=
  st_locks s' = st_locks s ∧ st_sessions s' = st_sessions s ∧ st_timers s' = st_timers s ∧
  st_file s' = st_file s ∧ st_now s' = st_now s ∧ st_gc_next s' = st_gc_next s ∧ st_used s' = st_used s.

Lemma cancel_fold_inv cfg (P : Z → Prop) e D l : ∀ s outs s' outs',
  fold_left (λ '(s, outs) w, let '(s', o) := waiter_leave w e s in (s', outs ++ o)) l (s, outs) = (s', outs') →
  STI s D → SLI cfg s → STM P s →
  STI s' D ∧ SLI cfg s' ∧ STM P s' ∧ only_waiters s s'.
Proof.
  induction l as [|w l IH]; intros s outs s' outs'; simpl.
  - intros [= <- <-]. done.
  - intros Hf HT HL HM. apply IH in Hf; simpl.
    + destruct Hf as (? & ? & ? & Ho). split_and!; try done; unfold only_waiters in *; simpl in Ho; done.
    + by apply TI_filter_waiters.
    + eapply LI_waiters_sub; [|done|exact HL]. by intros w' [_ ?]%elem_of_list_filter.
    + eapply TM_waiters_sub; [|exact HM]. by intros w' [_ ?]%elem_of_list_filter.
Qed.

Lemma cancel_waiters_inv cfg (P : Z → Prop) p e D s s' outs :
  cancel_waiters p e s = (s', outs) → STI s D → SLI cfg s → STM P s →
  STI s' D ∧ SLI cfg s' ∧ STM P s' ∧ only_waiters s s'.
Proof. unfold cancel_waiters. apply cancel_fold_inv. Qed.

Lemma only_waiters_SVW s s' : only_waiters s s' → SVW s → SVW s'.
Proof. intros (E1 & E2 & _). unfold SVW. by rewrite E1, E2. Qed.

Lemma only_waiters_clock s s' : only_waiters s s' → same_clock s s'.
Proof. intros (_ & _ & _ & _ & ? & ? & _). by split. Qed.

(** ** Session end *)

Lemma intab_same_hold L c c' :
  intab L c → intab L c' → cl_name c' = cl_name c → cl_key c' = cl_key c → c' = c.
Proof.
  intros (o & Ho & _ & Hs) (o' & Ho' & _ & Hs') En Ek. rewrite En in Ho'. simplify_eq.
  destruct c, c'; simpl in *. congruence.
Qed.

Lemma destroy_fold_inv cfg (P : Z → Prop) B : ∀ s outs s' outs',
  fold_left (λ '(s, outs) c,
               match mgr_unlock cfg (cl_name c) (cl_key c) s with
               | (s', inr _, o) => (s' <| st_timers := delete (tkey (cl_name c) (cl_key c)) (st_timers s') |>, outs ++ o)
               | (s', inl _, o) => (s', outs ++ o)
               end) B (s, outs) = (s', outs') →
  STI s [] → SLI cfg s → STM P s → (∀ t, 0 < t → P (st_now s + t * second)) → NoDup B →
  (∀ c, intab (st_locks s) c ↔ listedS (st_sessions s) c ∨ c ∈ B) →
  (∀ c, c ∈ B → ¬ listedS (st_sessions s) c) →
  SI cfg s' ∧ STM P s' ∧ same_clock s s'.
Proof.
  induction B as [|c B IH]; intros s outs s' outs'; simpl.
  - intros [= <- <-] HT HL HM HP _ HV _. split_and!; [split_and!|..]; try done.
    intros c. rewrite HV, elem_of_nil. tauto.
  - intros Hf HT HL HM HP [HcB HB]%NoDup_cons HV HnL.
    destruct (mgr_unlock _ _ _ _) as [[s1 r1] outs1] eqn:Hm.
    assert (intab (st_locks s) c) as Hc by (apply HV; right; left).
    eapply (mgr_unlock_inv _ _ _ _ _ _ _ [] P) in Hm; [|done..].
    destruct Hm as (HL1 & HM1 & HC1 & HU1 & [(_ & Hn & _)|(-> & _ & HT1 & _ & G & Hi & Hl & HG)]);
      [by apply intab_livel in Hc|].
    apply IH in Hf; simpl.
    + destruct Hf as (? & ? & ?). split_and!; [done..|]. eapply same_clock_trans; [exact HC1|done].
    + eapply TI_D_drop; [apply lookup_delete|]. by apply TI_timer_delete.
    + done.
    + by apply TM_timer_delete.
    + destruct HC1 as [-> _]. done.
    + done.
    + intros c'. rewrite Hi, Hl, HV, elem_of_cons. split.
      * intros [[[?|[->|?]] Hn]|?]; tauto.
      * intros [[H|H]|H]; [|tauto|].
        -- left. split; [tauto|]. intros [En Ek].
           assert (c' = c) as -> by (eapply intab_same_hold; [exact Hc|apply HV; by left|done|done]).
           apply (HnL c); [left|done].
        -- left. split; [tauto|]. intros [En Ek].
           assert (c' = c) as -> by (eapply intab_same_hold; [exact Hc|apply HV; right; by right|done|done]). done.
    + intros c' Hc'. rewrite Hl. intros [H|H].
      * apply (HnL c'); [by right|done].
      * destruct (HG _ H) as (_ & Hni & _). apply Hni, HV. right. by right.
Qed.

Section save.
  Context (cfg : config) (s : sstate).
  Lemma save_locks : st_locks (save cfg s) = st_locks s. Proof. unfold save. by case_match. Qed.
  Lemma save_sessions : st_sessions (save cfg s) = st_sessions s. Proof. unfold save. by case_match. Qed.
  Lemma save_timers : st_timers (save cfg s) = st_timers s. Proof. unfold save. by case_match. Qed.
  Lemma save_waiters : st_waiters (save cfg s) = st_waiters s. Proof. unfold save. by case_match. Qed.
  Lemma save_used : st_used (save cfg s) = st_used s. Proof. unfold save. by case_match. Qed.
  Lemma save_now : st_now (save cfg s) = st_now s. Proof. unfold save. by case_match. Qed.
  Lemma save_gc_next : st_gc_next (save cfg s) = st_gc_next s. Proof. unfold save. by case_match. Qed.
  Lemma save_file : c_file cfg = true → st_file (save cfg s) = Some (st_sessions s).
  Proof. unfold save. by intros ->. Qed.
End save.

Lemma destroy_session_inv cfg sid s s' outs (P : Z → Prop) :
  destroy_session cfg sid s = (s', outs) →
  SI cfg s → STM P s → (∀ t, 0 < t → P (st_now s + t * second)) →
  SI cfg s' ∧ STM P s' ∧ same_clock s s'.
Proof.
  intros Hd (HT & HL & HV) HM HP. unfold destroy_session in Hd.
  destruct (st_shut s); [by simplify_eq|].
  destruct (st_sessions s !! sid) as [locks|] eqn:Hs; [|by simplify_eq].
  destruct (c_noclear cfg && negb (bool_decide (locks = []))) eqn:E1; [by simplify_eq|].
  set (s1 := save cfg (s <| st_sessions := delete sid (st_sessions s) |>)) in *.
  assert (STI s1 []) as HT1.
  { unfold STI, s1. by rewrite save_locks, save_timers, save_waiters, save_used. }
  assert (STM P s1) as HM1.
  { unfold STM, s1. by rewrite save_timers, save_waiters. }
  assert (SLI cfg s1) as HL1.
  { unfold SLI, s1. rewrite save_sessions, save_waiters, save_used. simpl.
    eapply LI_mono; [| |done|done|exact HL].
    - intros sid' l' [_ H]%lookup_delete_Some. split; [by eapply li_nodup|eauto].
    - intros Hf. left. by rewrite save_file. }
  assert (same_clock s s1) as HC1.
  { split; unfold s1; [by rewrite save_now|by rewrite save_gc_next]. }
  assert (∀ c, listedS (st_sessions s) c ↔ listedS (st_sessions s1) c ∨ c ∈ locks) as Hl.
  { intros c. unfold s1. rewrite save_sessions. simpl. unfold listedS. split.
    - intros (sid' & l & Hs' & Hc). destruct (decide (sid' = sid)) as [->|]; [simplify_eq; auto|].
      left. exists sid', l. by rewrite lookup_delete_ne.
    - intros [(sid' & l & [_ Hs']%lookup_delete_Some & Hc)|Hc]; eauto. }
  destruct (c_noclear cfg) eqn:Hnc.
  - simpl in E1. apply negb_false_iff, bool_decide_eq_true in E1. subst locks. injection Hd as <- <-.
    split_and!; [split_and!|..]; try done.
    intros c. unfold SVW, s1. rewrite save_locks. simpl. rewrite <-(HV c), Hl, elem_of_nil. tauto.
  - eapply destroy_fold_inv in Hd; try done.
    + destruct Hd as (? & ? & ?). split_and!; [done..|]. by eapply same_clock_trans.
    + destruct HC1 as [-> _]. done.
    + eapply li_nodup; [exact HL|exact Hs].
    + intros c. unfold s1 at 1. rewrite save_locks. simpl. rewrite <-(HV c). apply Hl.
    + intros c Hc (sid' & l & Hs' & Hc'). unfold s1 in Hs'. rewrite save_sessions in Hs'. simpl in Hs'.
      apply lookup_delete_Some in Hs' as [Hne Hs']. apply Hne. by eapply (li_owner _ _ _ _ _ HL sid sid' locks l c).
Qed.

Lemma disconnect_inv cfg sid s s' outs (P : Z → Prop) :
  disconnect cfg sid s = (s', outs) →
  SI cfg s → STM P s → (∀ t, 0 < t → P (st_now s + t * second)) →
  SI cfg s' ∧ STM P s' ∧ same_clock s s'.
Proof.
  intros Hd (HT & HL & HV) HM HP. unfold disconnect in Hd.
  destruct (cancel_waiters _ _ _) as [s1 o1] eqn:Hc. destruct (destroy_session _ _ _) as [s2 o2] eqn:Hd2.
  simplify_eq. eapply cancel_waiters_inv in Hc as (HT1 & HL1 & HM1 & Ho); [|done..].
  pose proof (only_waiters_clock _ _ Ho) as HC.
  eapply destroy_session_inv in Hd2 as (? & ? & ?); [| |done|].
  - split_and!; [done..|]. by eapply same_clock_trans.
  - split_and!; [done..|]. by eapply only_waiters_SVW.
  - destruct HC as [-> _]. done.
Qed.

Lemma shutdown_inv cfg s s' outs (P : Z → Prop) :
  shutdown cfg s = (s', outs) → SI cfg s → STM P s → SI cfg s' ∧ STM P s' ∧ same_clock s s'.
Proof.
  intros Hd (HT & HL & HV) HM. unfold shutdown in Hd.
  destruct (cancel_waiters _ _ _) as [s1 o1] eqn:Hc. simplify_eq.
  eapply (cancel_waiters_inv cfg P) in Hc as (HT1 & HL1 & HM1 & Ho); [|done..].
  split_and!; [split_and!|..].
  - unfold STI. simpl. by eapply TI_timers_empty.
  - done.
  - eapply (only_waiters_SVW _ s1) in HV; [done|]. done.
  - unfold STM. simpl. by eapply TM_timers_empty.
  - apply only_waiters_clock in Ho. done.
Qed.

(** ** Lock / TryLock *)

Lemma intab_add_key L n o o' k c :
  L !! n = Some o → lo_size o' = lo_size o → lo_keys o' = lo_keys o ++ [k] →
  intab (<[n := o']> L) c ↔ intab L c ∨ c = Clock n k (lo_size o).
Proof.
  intros Ho Es Ek. rewrite intab_insert, Es, Ek, elem_of_app, elem_of_list_singleton. unfold intab. split.
  - intros [(<- & [?|?] & ?)|[? ?]]; [left; eauto|right|by left]. destruct c; simpl in *. congruence.
  - intros [(o1 & Ho1 & ? & ?)| ->]; [|left; simpl; auto].
    destruct (decide (cl_name c = n)) as [E|]; [left|right; eauto]. rewrite E in Ho1. simplify_eq. auto.
Qed.

Lemma srv_acquire_inv cfg blocking wid sid name key size lt wt s s' outs (P : Z → Prop) :
  srv_acquire cfg blocking wid sid name key size lt wt s = (s', outs) →
  SI cfg s → STM P s → (∀ t, 0 < t → P (st_now s + t * second)) →
  key ∈ st_used s → (∀ n, ¬ livel (st_locks s) n key) → (∀ w, w ∈ st_waiters s → w_key w ≠ key) →
  (∀ c, listedS (st_sessions s) c → cl_key c ≠ key) →
  (blocking = true → wid ∉ w_id <$> st_waiters s) →
  SI cfg s' ∧ STM P s' ∧ same_clock s s'.
Proof.
  intros Ha (HT & HL & HV) HM HP HkU Hdead Hwk Hlk Hwid. unfold srv_acquire in Ha.
  case_bool_decide; [by simplify_eq|].
  destruct (get_lock_create name size s) as [e|[o s1]] eqn:Hg; [by simplify_eq|].
  pose proof (glc_STI _ _ _ _ _ [] Hg HT) as HT1.
  pose proof (λ c, glc_intab _ _ _ _ _ c Hg) as Hi1.
  pose proof (λ n k, glc_livel _ _ _ _ _ n k Hg) as Hl1.
  apply glc_shape in Hg as (Hsz & Hosz & -> & _). simpl in *.
  set (L1 := <[name := o]> (st_locks s)) in *.
  assert (L1 !! name = Some o) as Ho by apply lookup_insert.
  destruct (can_acquire _ _ _) eqn:Hc.
  - apply andb_true_iff in Hc as [Hlt%bool_decide_eq_true Hnw%bool_decide_eq_true]. simpl in Hnw.
    unfold add_key in Ha. simpl in Ha. fold L1 in Ha. rewrite Ho in Ha. simpl in Ha.
    set (o' := o <| lo_keys := lo_keys o ++ [key] |>) in *.
    set (s2 := s <| st_locks := L1 |> <| st_locks := <[name := o']> L1 |>) in *.
    assert (STI s2 []) as HT2.
    { unfold STI, s2. simpl. eapply (TI_add_key _ _ _ _ _ _ o); eauto.
      - intros n'. rewrite Hl1. apply Hdead.
      - intros w Hw. by eapply name_waiters_nil_ne. }
    injection Ha as <- <-. split_and!; [split_and!|..].
    + apply rg_STI; [|done]. unfold s2. simpl. rewrite livel_insert. left. split; [done|]. simpl.
      rewrite elem_of_app, elem_of_list_singleton. auto.
    + apply rg_SLI; try done.
      * intros Hl. by apply (Hlk _ Hl).
      * intros w Hw. apply not_eq_sym. by apply Hwk.
    + intros c. unfold SVW. rewrite rg_listed, rg_locks. unfold s2. simpl.
      rewrite (intab_add_key L1 name o o' key) by done. rewrite Hi1, Hosz. by rewrite (HV c).
    + by apply rg_STM.
    + split; [by rewrite rg_now|by rewrite rg_gc_next].
  - destruct blocking.
    + injection Ha as <- <-.
      set (w := Waiter wid sid name key size lt _).
      assert (Z.of_nat (length (lo_keys o)) = lo_size o) as Hfull.
      { apply andb_false_iff in Hc as [Hc|Hc]; apply bool_decide_eq_false in Hc.
        - destruct (ti_cap _ _ _ _ _ HT1 _ _ Ho) as (_ & ? & _). lia.
        - simpl in Hc. destruct (name_waiters name (st_waiters s)) as [|w' r] eqn:E; [done|].
          apply name_waiters_cons in E as [Hw' En].
          destruct (ti_waiters _ _ _ _ _ HT1 _ Hw') as (o1 & Ho1 & ? & _). simpl in Ho1. rewrite En, Ho in Ho1. by simplify_eq. }
      split_and!; [split_and!|..]; simpl.
      * eapply (TI_add_waiter _ _ _ _ _ w o); simpl; eauto.
        -- intros n. rewrite Hl1. apply Hdead.
        -- intros (w' & E & Hw')%elem_of_list_fmap. by apply (Hwk _ Hw').
      * unfold SLI. simpl. apply LI_add_waiter; [|done]. simpl. done.
      * intros c. unfold SVW. simpl. rewrite Hi1. apply HV.
      * unfold STM. simpl. apply TM_add_waiter; [|done]. simpl. intros d.
        destruct wt as [t|]; [|done]. destruct (0 <? t) eqn:E; [|done]. intros [= <-]. apply HP. lia.
      * done.
    + injection Ha as <- <-. split_and!; [split_and!|..]; try done.
      intros c. unfold SVW. simpl. rewrite Hi1. apply HV.
Qed.

Lemma fresh_key_facts cfg s key :
  SI cfg s → key ∉ st_used s →
  let s0 := s <| st_used := key :: st_used s |> in
  SI cfg s0 ∧ (∀ n, ¬ livel (st_locks s0) n key) ∧ (∀ w, w ∈ st_waiters s0 → w_key w ≠ key) ∧
  (∀ c, listedS (st_sessions s0) c → cl_key c ≠ key).
Proof.
  intros (HT & HL & HV) Hk. simpl. split_and!; [split_and!|..]; simpl.
  - eapply TI_used; [|exact HT]. intros k ?. by right.
  - eapply LI_waiters_sub; [done| |exact HL]. intros k ?. by right.
  - done.
  - intros n Hl. apply Hk. by eapply ti_used_live.
  - intros w Hw E. apply Hk. rewrite <-E. by eapply ti_used_waiters.
  - intros c Hc E. apply Hk. rewrite <-E. by eapply li_used.
Qed.

Lemma srv_trylock_inv cfg sid name size lt key s s' outs (P : Z → Prop) :
  srv_trylock cfg sid name size lt key s = (s', outs) → key ∉ st_used s →
  SI cfg s → STM P s → (∀ t, 0 < t → P (st_now s + t * second)) →
  SI cfg s' ∧ STM P s' ∧ same_clock s s'.
Proof.
  intros Ha Hk HS HM HP. unfold srv_trylock in Ha. destruct sid as [sid|]; [|by simplify_eq].
  destruct (opt_neg lt); [by simplify_eq|].
  destruct (fresh_key_facts cfg s key HS Hk) as (HS0 & ? & ? & ?).
  eapply srv_acquire_inv in Ha; try done. by left.
Qed.

Lemma srv_lock_inv cfg wid sid name size lt wt key s s' outs (P : Z → Prop) :
  srv_lock cfg wid sid name size lt wt key s = (s', outs) → key ∉ st_used s → wid ∉ w_id <$> st_waiters s →
  SI cfg s → STM P s → (∀ t, 0 < t → P (st_now s + t * second)) →
  SI cfg s' ∧ STM P s' ∧ same_clock s s'.
Proof.
  intros Ha Hk Hw HS HM HP. unfold srv_lock in Ha. destruct sid as [sid|]; [|by simplify_eq].
  destruct (opt_neg lt); [by simplify_eq|]. destruct (opt_neg wt); [by simplify_eq|].
  destruct (fresh_key_facts cfg s key HS Hk) as (HS0 & ? & ? & ?).
  eapply srv_acquire_inv in Ha; try done. by left.
Qed.

Lemma srv_renew_inv cfg name key lt s s' outs (P : Z → Prop) :
  srv_renew name key lt s = (s', outs) →
  SI cfg s → STM P s → (∀ t, 0 < t → P (st_now s + t * second)) →
  SI cfg s' ∧ STM P s' ∧ same_clock s s'.
Proof.
  intros Ha (HT & HL & HV) HM HP. unfold srv_renew in Ha. destruct (lt <=? 0) eqn:E; [by simplify_eq|].
  destruct (st_timers s !! tkey name key) as [t|] eqn:Ht; [|by simplify_eq]. injection Ha as <- <-.
  split_and!; [split_and!|..]; try done.
  - unfold STI. simpl. by apply TI_timer_renew.
  - unfold STM. simpl. apply TM_timer_insert; [|done]. simpl. apply HP. lia.
Qed.

Lemma ipc_unlock_inv cfg name key s s' outs (P : Z → Prop) :
  (s', outs) ∈ ipc_unlock cfg name key s →
  SI cfg s → STM P s → (∀ t, 0 < t → P (st_now s + t * second)) →
  SI cfg s' ∧ STM P s' ∧ same_clock s s'.
Proof.
  intros Hin HS HM HP.
  assert (∀ k, (s', outs) = ipc_unlock_with cfg name k s → SI cfg s' ∧ STM P s' ∧ same_clock s s') as Hw.
  { intros k. unfold ipc_unlock_with. destruct (srv_unlock cfg name k s) as [[s1 [u e]] o1] eqn:Hu.
    eapply srv_unlock_inv in Hu; [|done..]. destruct e; by intros [= -> _]. }
  unfold ipc_unlock in Hin. destruct key as [k|].
  - case_bool_decide; [by apply elem_of_nil in Hin|]. apply elem_of_list_singleton in Hin. eauto.
  - destruct (ipc_candidates name s) as [|k0 ks] eqn:E.
    + apply elem_of_list_singleton in Hin. by simplify_eq.
    + rewrite map_is_fmap in Hin. apply elem_of_list_fmap in Hin as (k & Hin & _).
      case_bool_decide; [by simplify_eq|]. eauto.
Qed.
