(** C02, responses: every response equals the result of the call's latest decisive linearisation action
    (work package lklin). *)
From Coq Require Import Lia ZifyBool ZifyNat.
From Ldlm Require Import Model.Base Model.Err Model.Lk Proofs.LkDefs Proofs.LkLinBase.
From RecordUpdate Require Import RecordSet.
Import RecordSetNotations.
Local Open Scope Z_scope.

(** ** [resp_ok] as a run that returns the pending map *)
Fixpoint resp_run (pending : gmap nat (option lres)) (tr : list lev) : option (gmap nat (option lres)) :=
  match tr with
  | [] => Some pending
  | EvInv t _ :: tr' => match pending !! t with None => resp_run (<[t := None]> pending) tr' | Some _ => None end
  | EvLin a :: tr' =>
      match decisive a with
      | Some (t, r) => match pending !! t with Some _ => resp_run (<[t := Some r]> pending) tr' | None => None end
      | None => resp_run pending tr'
      end
  | EvRes t r :: tr' =>
      match pending !! t with
      | Some (Some r') => if bool_decide (r = r') then resp_run (delete t pending) tr' else None
      | _ => None
      end
  | _ :: tr' => resp_run pending tr'
  end.

Lemma resp_run_ok tr : ∀ P P', resp_run P tr = Some P' → resp_ok P tr = true.
Proof.
  induction tr as [|e tr IH]; intros P P' H; simpl in *; [done|]. destruct e as [t op|t r|a|t|]; eauto.
  - destruct (P !! t); [done|eauto].
  - destruct (P !! t) as [[r'|]|]; try done. destruct (bool_decide (r = r')); [simpl; eauto|done].
  - destruct (decisive a) as [[t r]|]; [|eauto]. destruct (P !! t); [eauto|done].
Qed.

Lemma resp_run_app tr1 : ∀ P tr2,
  resp_run P (tr1 ++ tr2) = match resp_run P tr1 with Some P' => resp_run P' tr2 | None => None end.
Proof.
  induction tr1 as [|e tr1 IH]; intros P tr2; simpl; [done|]. destruct e as [t op|t r|a|t|]; auto.
  - destruct (P !! t); [done|auto].
  - destruct (P !! t) as [[r'|]|]; try done. destruct (bool_decide (r = r')); [auto|done].
  - destruct (decisive a) as [[t r]|]; [|auto]. destruct (P !! t); [auto|done].
Qed.

Lemma resp_run_snoc P P' tr tr2 : resp_run P tr = Some P' → resp_run P (tr ++ tr2) = resp_run P' tr2.
Proof. intros H. by rewrite resp_run_app, H. Qed.

Definition granted_r : lres := LRes true None.
Definition grantP (woken : list nat) (P : gmap nat (option lres)) : gmap nat (option lres) :=
  fold_left (λ P w, <[w := Some granted_r]> P) woken P.

Lemma grantP_lookup woken : ∀ P x, grantP woken P !! x = if decide (x ∈ woken) then Some (Some granted_r) else P !! x.
Proof.
  induction woken as [|w ws IH]; intros P x; simpl.
  - destruct (decide (x ∈ [])) as [H|]; [by apply elem_of_nil in H|done].
  - rewrite IH. destruct (decide (x ∈ ws)) as [H|H].
    + rewrite decide_True; [done|by right].
    + destruct (decide (x = w)) as [->|Hne].
      * rewrite lookup_insert, decide_True; [done|left].
      * rewrite lookup_insert_ne by done. rewrite decide_False; [done|]. by intros [|]%elem_of_cons.
Qed.

Lemma resp_run_grants n kf woken : ∀ P, (∀ w, w ∈ woken → is_Some (P !! w)) →
  resp_run P (map (λ w, EvLin (LaGrant w n (kf w))) woken) = Some (grantP woken P).
Proof.
  induction woken as [|w ws IH]; intros P H; simpl; [done|]. destruct (H w) as [x Hx]; [left|]. rewrite Hx. apply IH.
  intros w' Hw'. destruct (decide (w' = w)) as [->|Hne]; [by rewrite lookup_insert|]. rewrite lookup_insert_ne by done.
  apply H. by right.
Qed.

(** ** The invariant that ties the pending map to the thread pool *)
Definition rinv1 (s : lstate) (P : gmap nat (option lres)) (tid : nat) : Prop :=
  match l_thr s !! tid with
  | None => P !! tid = None
  | Some t =>
      match t_pc t with
      | PFin _ => P !! tid = None
      | PDone _ r => P !! tid = Some (Some r)
      | PAddKey _ | PAcqWoken _ | PRelCancel _ => P !! tid = Some (Some granted_r)
      | PAcqWait oid | PAcqCancel oid =>
          is_Some (P !! tid) ∧ ∀ o, l_heap s !! oid = Some o → tid ∈ o_ready o → P !! tid = Some (Some granted_r)
      | _ => is_Some (P !! tid)
      end
  end.
Definition RInv (s : lstate) (P : gmap nat (option lres)) : Prop := ∀ tid, rinv1 s P tid.

Lemma rinv1_some s P tid t : rinv1 s P tid → l_thr s !! tid = Some t → (∀ r, t_pc t ≠ PFin r) → is_Some (P !! tid).
Proof.
  unfold rinv1. intros H Ht Hpc. rewrite Ht in H. destruct (t_pc t); try done; try (by eexists); try (by destruct H).
  by destruct (Hpc r).
Qed.

(** the stepping thread [tid] is replaced; the threads in [woken] (waiters of [oidw]) are granted; no other ready set grows *)
Lemma rinv_step s s' P P' tid t' (woken : list nat) oidw :
  RInv s P → l_thr s' = <[tid := t']> (l_thr s) →
  (∀ w, w ∈ woken → w ≠ tid ∧ ∃ tw, l_thr s !! w = Some tw ∧ (t_pc tw = PAcqWait oidw ∨ t_pc tw = PAcqCancel oidw)) →
  (∀ x, x ≠ tid → P' !! x = if decide (x ∈ woken) then Some (Some granted_r) else P !! x) →
  (∀ oid o' x, l_heap s' !! oid = Some o' → x ∈ o_ready o' → x ∈ woken ∨ ∃ o, l_heap s !! oid = Some o ∧ x ∈ o_ready o) →
  rinv1 s' P' tid →
  RInv s' P'.
Proof.
  intros HR Hthr Hwoken HP Hheap Htid x. destruct (decide (x = tid)) as [->|Hne]; [done|].
  unfold rinv1. rewrite Hthr, lookup_insert_ne by done. rewrite (HP x Hne). destruct (decide (x ∈ woken)) as [Hw|Hw].
  - destruct (Hwoken x Hw) as (_ & tw & -> & [-> | ->]); eauto.
  - specialize (HR x). unfold rinv1 in HR. destruct (l_thr s !! x) as [t|]; [|done]. destruct (t_pc t); try done.
    + destruct HR as [H1 H2]. split; [done|]. intros o' Ho' Hx. destruct (Hheap _ _ _ Ho' Hx) as [|(o & Ho & Hxo)]; [done|]. eauto.
    + destruct HR as [H1 H2]. split; [done|]. intros o' Ho' Hx. destruct (Hheap _ _ _ Ho' Hx) as [|(o & Ho & Hxo)]; [done|]. eauto.
Qed.

Lemma rinv_step0 s s' P P' tid t' :
  RInv s P → l_thr s' = <[tid := t']> (l_thr s) →
  (∀ x, x ≠ tid → P' !! x = P !! x) →
  (∀ oid o' x, l_heap s' !! oid = Some o' → x ∈ o_ready o' → ∃ o, l_heap s !! oid = Some o ∧ x ∈ o_ready o) →
  rinv1 s' P' tid →
  RInv s' P'.
Proof.
  intros HR Hthr HP Hheap Htid. apply (rinv_step s s' P P' tid t' [] 0%nat HR Hthr); [|intros x Hx|eauto|done].
  - intros w Hw. by apply elem_of_nil in Hw.
  - rewrite decide_False; [auto|]. by intros ?%elem_of_nil.
Qed.

Lemma rinv_frame s s' P :
  RInv s P → l_thr s' = l_thr s →
  (∀ oid o' x, l_heap s' !! oid = Some o' → x ∈ o_ready o' → ∃ o, l_heap s !! oid = Some o ∧ x ∈ o_ready o) →
  RInv s' P.
Proof.
  intros HR Hthr Hheap x. specialize (HR x). unfold rinv1 in *. rewrite Hthr. destruct (l_thr s !! x) as [t|]; [|done].
  destruct (t_pc t); try done.
  - destruct HR as [H1 H2]. split; [done|]. intros o' Ho' Hx. destruct (Hheap _ _ _ Ho' Hx) as (o & Ho & Hxo). eauto.
  - destruct HR as [H1 H2]. split; [done|]. intros o' Ho' Hx. destruct (Hheap _ _ _ Ho' Hx) as (o & Ho & Hxo). eauto.
Qed.

Lemma heap_ready_same (h : gmap nat lobj) : ∀ oid o' (x : nat), h !! oid = Some o' → x ∈ o_ready o' → ∃ o, h !! oid = Some o ∧ x ∈ o_ready o.
Proof. eauto. Qed.

Lemma heap_ready_upd (h : gmap nat lobj) oid0 o0 o0' :
  h !! oid0 = Some o0 → (∀ x, x ∈ o_ready o0' → x ∈ o_ready o0) →
  ∀ oid o' (x : nat), <[oid0 := o0']> h !! oid = Some o' → x ∈ o_ready o' → ∃ o, h !! oid = Some o ∧ x ∈ o_ready o.
Proof.
  intros H0 Hsub oid o' x. destruct (decide (oid = oid0)) as [->|Hne].
  - rewrite lookup_insert. intros [= <-] Hx. eauto.
  - rewrite lookup_insert_ne by done. eauto.
Qed.

Lemma heap_ready_upd_woken (h : gmap nat lobj) oid0 o0 o0' (woken : list nat) :
  h !! oid0 = Some o0 → (∀ x, x ∈ o_ready o0' → x ∈ woken ∨ x ∈ o_ready o0) →
  ∀ oid o' (x : nat), <[oid0 := o0']> h !! oid = Some o' → x ∈ o_ready o' → x ∈ woken ∨ ∃ o, h !! oid = Some o ∧ x ∈ o_ready o.
Proof.
  intros H0 Hsub oid o' x. destruct (decide (oid = oid0)) as [->|Hne].
  - rewrite lookup_insert. intros [= <-] Hx. destruct (Hsub x Hx); eauto.
  - rewrite lookup_insert_ne by done. eauto.
Qed.

(** ** One critical section *)
Lemma woken_facts s oid o o1 o2 (woken : list nat) tid :
  LInv s → l_heap s !! oid = Some o → notified o1 o2 woken → (∀ x, x ∈ o_waitq o1 → x ∈ o_waitq o ∧ x ≠ tid) →
  ∀ w, w ∈ woken → w ≠ tid ∧ ∃ tw, l_thr s !! w = Some tw ∧ (t_pc tw = PAcqWait oid ∨ t_pc tw = PAcqCancel oid).
Proof.
  intros I Ho (Hq & _) Hsub w Hw. destruct (Hsub w) as [Hwq Hne]; [rewrite Hq, elem_of_app; by left|]. split; [done|].
  apply (li_queue _ I oid o w Ho). apply elem_of_app; by left.
Qed.

Lemma grants_pending s P (woken : list nat) tid oid r :
  RInv s P → (∀ w, w ∈ woken → w ≠ tid ∧ ∃ tw, l_thr s !! w = Some tw ∧ (t_pc tw = PAcqWait oid ∨ t_pc tw = PAcqCancel oid)) →
  ∀ w, w ∈ woken → is_Some (<[tid := r]> P !! w).
Proof.
  intros HR Hwoken w Hw. destruct (Hwoken w Hw) as (Hne & tw & Htw & Hpc). rewrite lookup_insert_ne by done.
  apply (rinv1_some s P w tw (HR w) Htw). intros r'. destruct Hpc as [-> | ->]; done.
Qed.

Ltac open_step t Ht := unfold finish, set_obj, emit; rewrite ?emit_grants_eq; unfold emit; rewrite (set_pc_eq _ _ _ t) by exact Ht; simpl.
Ltac rtrace Hrun := rewrite ?rev_app_distr, ?rev_involutive; simpl rev; rewrite <- ?app_assoc, (resp_run_snoc _ _ _ _ Hrun); simpl app.
Ltac others := let x := fresh "x" in let Hx := fresh "Hx" in intros x Hx; by rewrite ?lookup_delete_ne, ?lookup_insert_ne by done.
Ltac rinv_tid := unfold rinv1; simpl; rewrite lookup_insert; simpl; rewrite ?lookup_delete, ?lookup_insert; eauto.
Ltac step0 HR := eapply (rinv_step0 _ _ _ _ _ _ HR); [simpl; reflexivity|others|simpl|rinv_tid].

Lemma resp_run_thread minidle s tid t P :
  LInv s → l_thr s !! tid = Some t → resp_run ∅ (rev (l_trace s)) = Some P → RInv s P →
  ∃ P', resp_run ∅ (rev (l_trace (run_thread minidle tid t s))) = Some P' ∧ RInv (run_thread minidle tid t s) P'.
Proof.
  intros I Ht Hrun HR. pose proof (HR tid) as Htid. unfold rinv1 in Htid. rewrite Ht in Htid.
  unfold run_thread. destruct (t_pc t) eqn:Hpc.
  - (* PEnter *) destruct Htid as [x Hx]. destruct (l_shut s).
    + open_step t Ht. rtrace Hrun. simpl. rewrite Hx, lookup_insert, bool_decide_eq_true_2 by done.
      eexists; split; [done|]. step0 HR. apply heap_ready_same.
    + open_step t Ht. exists P; split; [done|]. step0 HR. apply heap_ready_same.
  - (* PGet *) destruct Htid as [x Hx]. destruct (op_size (t_op t) <=? 0).
    { open_step t Ht. rtrace Hrun. simpl. rewrite Hx, lookup_insert, bool_decide_eq_true_2 by done.
      eexists; split; [done|]. step0 HR. apply heap_ready_same. }
    destruct (l_map s !! op_name (t_op t)) as [oid|] eqn:Hm.
    + destruct (l_heap s !! oid) as [o|] eqn:Ho; [|by exists P]. destruct (_ && _).
      * open_step t Ht. rtrace Hrun. simpl. rewrite Hx, lookup_insert, bool_decide_eq_true_2 by done.
        eexists; split; [done|]. step0 HR. apply heap_ready_same.
      * open_step t Ht. exists P; split; [done|]. step0 HR; [by apply (heap_ready_upd _ _ o)|]. destruct (t_op t); simpl; eauto.
    + destruct (match t_op t with OUnl _ _ => false | _ => true end).
      * open_step t Ht. rtrace Hrun. simpl. exists P; split; [done|]. step0 HR.
        intros oid o' x'. destruct (decide (oid = l_next s)) as [->|Hne].
        -- rewrite lookup_insert. intros [= <-]. simpl. by intros ?%elem_of_nil.
        -- rewrite lookup_insert_ne by done. eauto.
      * open_step t Ht. rtrace Hrun. simpl. rewrite Hx, lookup_insert, bool_decide_eq_true_2 by done.
        eexists; split; [done|]. step0 HR. apply heap_ready_same.
  - (* PChkDel *) destruct Htid as [x Hx]. destruct (l_heap s !! oid) as [o|] eqn:Ho; [|by exists P]. destruct (o_deleted o).
    + unfold emit. simpl. rtrace Hrun. simpl. exists P; split; [done|]. by apply (rinv_frame s _ P HR); [|apply heap_ready_same].
    + open_step t Ht. exists P; split; [done|]. step0 HR; [apply heap_ready_same|]. destruct (t_op t); simpl; eauto.
  - (* PTryAcq *) destruct Htid as [x Hx]. destruct (l_heap s !! oid) as [o|] eqn:Ho; [|by exists P]. destruct (_ && _).
    + open_step t Ht. rtrace Hrun. simpl. rewrite Hx. eexists; split; [done|]. step0 HR. by apply (heap_ready_upd _ _ o).
    + open_step t Ht. rtrace Hrun. simpl. rewrite Hx. eexists; split; [done|]. step0 HR. apply heap_ready_same.
  - (* PAcqEnter *) destruct Htid as [x Hx]. destruct (l_heap s !! oid) as [o|] eqn:Ho; [|by exists P].
    destruct (t_cancel t) eqn:Hc.
    { open_step t Ht. rtrace Hrun. simpl. rewrite Hx. eexists; split; [done|]. step0 HR. apply heap_ready_same. }
    destruct (_ && _).
    + open_step t Ht. rtrace Hrun. simpl. rewrite Hx. eexists; split; [done|]. step0 HR. by apply (heap_ready_upd _ _ o).
    + open_step t Ht. rtrace Hrun. simpl. exists P; split; [done|]. step0 HR; [by apply (heap_ready_upd _ _ o)|].
      split; [done|]. intros o'. intros [= <-]. simpl. intros Hin.
      destruct (li_queue _ I oid o tid Ho) as (tw & Htw & Hpcw); [apply elem_of_app; by right|].
      assert (tw = t) as -> by congruence. rewrite Hpc in Hpcw. by destruct Hpcw.
  - (* PAcqWait *) destruct Htid as [[x Hx] Hg]. destruct (l_heap s !! oid) as [o|] eqn:Ho; [|by exists P].
    case_bool_decide as Hrdy.
    + open_step t Ht. exists P; split; [done|]. step0 HR.
      apply (heap_ready_upd _ _ o); [done|]. simpl. by intros x' [_ ?]%elem_of_list_filter.
    + destruct (t_cancel t) eqn:Hc; [|by exists P].
      open_step t Ht. exists P; split; [done|]. step0 HR; [apply heap_ready_same|]. split; [done|]. intros o'. rewrite Ho. by intros [= <-].
  - (* PAcqWoken *)
    destruct (t_cancel t) eqn:Hc; open_step t Ht; (exists P; split; [done|]); step0 HR; apply heap_ready_same.
  - (* PAcqCancel *) destruct Htid as [[x Hx] Hg]. destruct (l_heap s !! oid) as [o|] eqn:Ho; [|by exists P].
    case_bool_decide as Hrdy.
    + match goal with |- context [notify ?x] => set (o1 := x) end.
      destruct (notify o1) as [o2 woken] eqn:Hnt. apply notify_notified in Hnt as Hnf.
      assert (∀ w, w ∈ woken → w ≠ tid ∧ ∃ tw, l_thr s !! w = Some tw ∧ (t_pc tw = PAcqWait oid ∨ t_pc tw = PAcqCancel oid)) as Hwk.
      { apply (woken_facts s oid o o1 o2 woken tid I Ho Hnf). simpl. intros x' Hx'. split; [done|]. intros ->.
        pose proof (li_queue_nodup _ I oid o Ho) as Hnd. apply NoDup_app in Hnd as (_ & Hnd & _). by apply (Hnd tid). }
      open_step t Ht. rtrace Hrun. simpl. rewrite Hx. rewrite (resp_run_grants _ _ woken) by (eapply grants_pending; eauto).
      eexists; split; [done|].
      eapply (rinv_step _ _ _ _ tid _ woken oid HR); [simpl; reflexivity|exact Hwk| | |].
      * intros x' Hx'. rewrite grantP_lookup. destruct (decide _); [done|by rewrite lookup_insert_ne].
      * simpl. apply (heap_ready_upd_woken _ _ o); [done|]. destruct Hnf as (_ & -> & _). simpl.
        intros x' [Hin|Hin]%elem_of_app; [right|by left]. by apply elem_of_list_filter in Hin as [_ ?].
      * unfold rinv1; simpl. rewrite lookup_insert; simpl. rewrite grantP_lookup, decide_False, lookup_insert; [done|].
        intros Hin. by destruct (Hwk tid Hin).
    + match goal with |- context [notify ?x] => set (o1 := x) end.
      match goal with |- context [if ?c then notify o1 else _] => destruct (if c then notify o1 else (o1, [])) as [o2 woken] eqn:Hnt end.
      assert (notified o1 o2 woken) as Hnf.
      { destruct (_ && _); [by apply notify_notified|]. injection Hnt as <- <-. apply notified_refl. }
      assert (∀ w, w ∈ woken → w ≠ tid ∧ ∃ tw, l_thr s !! w = Some tw ∧ (t_pc tw = PAcqWait oid ∨ t_pc tw = PAcqCancel oid)) as Hwk.
      { apply (woken_facts s oid o o1 o2 woken tid I Ho Hnf). simpl. by intros x' [? ?]%elem_of_list_filter. }
      open_step t Ht. rtrace Hrun. simpl. rewrite Hx. rewrite (resp_run_grants _ _ woken) by (eapply grants_pending; eauto).
      eexists; split; [done|].
      eapply (rinv_step _ _ _ _ tid _ woken oid HR); [simpl; reflexivity|exact Hwk| | |].
      * intros x' Hx'. rewrite grantP_lookup. destruct (decide _); [done|by rewrite lookup_insert_ne].
      * simpl. apply (heap_ready_upd_woken _ _ o); [done|]. destruct Hnf as (_ & -> & _). simpl.
        intros x' [Hin|Hin]%elem_of_app; [by right|by left].
      * unfold rinv1; simpl. rewrite lookup_insert; simpl. rewrite grantP_lookup, decide_False, lookup_insert; [done|].
        intros Hin. by destruct (Hwk tid Hin).
  - (* PRelCancel *) destruct (l_heap s !! oid) as [o|] eqn:Ho; [|by exists P]. destruct (o_cur o - 1 <? 0).
    { unfold emit. simpl. rtrace Hrun. simpl. exists P; split; [done|]. by apply (rinv_frame s _ P HR); [|apply heap_ready_same]. }
    match goal with |- context [notify ?x] => set (o1 := x) end.
    destruct (notify o1) as [o2 woken] eqn:Hnt. apply notify_notified in Hnt as Hnf.
    assert (∀ w, w ∈ woken → w ≠ tid ∧ ∃ tw, l_thr s !! w = Some tw ∧ (t_pc tw = PAcqWait oid ∨ t_pc tw = PAcqCancel oid)) as Hwk.
    { apply (woken_facts s oid o o1 o2 woken tid I Ho Hnf). simpl. intros x' Hx'. split; [done|]. intros ->.
      destruct (li_queue _ I oid o tid Ho) as (tw & Htw & Hpcw); [apply elem_of_app; by left|].
      assert (tw = t) as -> by congruence. rewrite Hpc in Hpcw. by destruct Hpcw. }
    open_step t Ht. rtrace Hrun. simpl. rewrite Htid. rewrite (resp_run_grants _ _ woken) by (eapply grants_pending; eauto).
    eexists; split; [done|].
    eapply (rinv_step _ _ _ _ tid _ woken oid HR); [simpl; reflexivity|exact Hwk| | |].
    + intros x' Hx'. rewrite grantP_lookup. destruct (decide _); [done|by rewrite lookup_insert_ne].
    + simpl. apply (heap_ready_upd_woken _ _ o); [done|]. destruct Hnf as (_ & -> & _). simpl.
      intros x' [Hin|Hin]%elem_of_app; [by right|by left].
    + unfold rinv1; simpl. rewrite lookup_insert; simpl. rewrite grantP_lookup, decide_False, lookup_insert; [done|].
      intros Hin. by destruct (Hwk tid Hin).
  - (* PAddKey *) destruct (l_heap s !! oid) as [o|] eqn:Ho; [|by exists P].
    open_step t Ht. exists P; split; [done|]. step0 HR. by apply (heap_ready_upd _ _ o).
  - (* PUnlChk *) destruct Htid as [x Hx]. destruct (l_heap s !! oid) as [o|] eqn:Ho; [|by exists P]. destruct (o_deleted o).
    + open_step t Ht. rtrace Hrun. simpl. rewrite Hx. eexists; split; [done|]. step0 HR. apply heap_ready_same.
    + open_step t Ht. exists P; split; [done|]. step0 HR. apply heap_ready_same.
  - (* PUnlRem *) destruct Htid as [x Hx]. destruct (l_heap s !! oid) as [o|] eqn:Ho; [|by exists P]. case_bool_decide as Hkey.
    + destruct (o_cur o - 1 <? 0).
      { unfold emit. simpl. rtrace Hrun. simpl. exists P; split; [done|]. by apply (rinv_frame s _ P HR); [|apply heap_ready_same]. }
      match goal with |- context [notify ?x] => set (o1 := x) end.
      destruct (notify o1) as [o2 woken] eqn:Hnt. apply notify_notified in Hnt as Hnf.
      assert (∀ w, w ∈ woken → w ≠ tid ∧ ∃ tw, l_thr s !! w = Some tw ∧ (t_pc tw = PAcqWait oid ∨ t_pc tw = PAcqCancel oid)) as Hwk.
      { apply (woken_facts s oid o o1 o2 woken tid I Ho Hnf). simpl. intros x' Hx'. split; [done|]. intros ->.
        destruct (li_queue _ I oid o tid Ho) as (tw & Htw & Hpcw); [apply elem_of_app; by left|].
        assert (tw = t) as -> by congruence. rewrite Hpc in Hpcw. by destruct Hpcw. }
      open_step t Ht. rtrace Hrun. simpl. rewrite Hx. rewrite (resp_run_grants _ _ woken) by (eapply grants_pending; eauto).
      eexists; split; [done|].
      eapply (rinv_step _ _ _ _ tid _ woken oid HR); [simpl; reflexivity|exact Hwk| | |].
      * intros x' Hx'. rewrite grantP_lookup. destruct (decide _); [done|by rewrite lookup_insert_ne].
      * simpl. apply (heap_ready_upd_woken _ _ o); [done|]. destruct Hnf as (_ & -> & _). simpl.
        intros x' [Hin|Hin]%elem_of_app; [by right|by left].
      * unfold rinv1; simpl. rewrite lookup_insert; simpl. rewrite grantP_lookup, decide_False, lookup_insert; [done|].
        intros Hin. by destruct (Hwk tid Hin).
    + open_step t Ht. rtrace Hrun. simpl. rewrite Hx. eexists; split; [done|]. step0 HR. apply heap_ready_same.
  - (* PDone *) destruct (l_heap s !! oid) as [o|] eqn:Ho; [|by exists P].
    open_step t Ht. rtrace Hrun. simpl. rewrite Htid, bool_decide_eq_true_2 by done. eexists; split; [done|].
    step0 HR. by apply (heap_ready_upd _ _ o).
  - (* PFin *) by exists P.
Qed.

(** ** Garbage collection, shutdown, and the other items *)
Lemma gc_one_resp m name s P :
  resp_run ∅ (rev (l_trace s)) = Some P → RInv s P →
  resp_run ∅ (rev (l_trace (gc_one m name s))) = Some P ∧ RInv (gc_one m name s) P.
Proof.
  intros Hrun HR. unfold gc_one. destruct (l_map s !! name) as [oid|]; [|done]. destruct (l_heap s !! oid) as [o|] eqn:Ho; [|done].
  destruct (_ && _); [|done]. unfold emit, set_obj. simpl. rtrace Hrun. split; [done|].
  apply (rinv_frame s _ P HR); [done|]. cbn. by apply (heap_ready_upd _ _ o).
Qed.

Lemma gc_fold_resp l : ∀ s P,
  resp_run ∅ (rev (l_trace s)) = Some P → RInv s P →
  resp_run ∅ (rev (l_trace (fold_left (λ s '(name, _), gc_one 0 name s) l s))) = Some P ∧
  RInv (fold_left (λ (s : lstate) '((name, _) : str * nat), gc_one 0 name s) l s) P.
Proof.
  induction l as [|[name x] l IH]; intros s P Hrun HR; simpl; [done|].
  destruct (gc_one_resp 0 name s P Hrun HR). by apply IH.
Qed.

Lemma resp_step minidle s it P :
  LInv s → resp_run ∅ (rev (l_trace s)) = Some P → RInv s P →
  ∃ P', resp_run ∅ (rev (l_trace (lstep minidle s it))) = Some P' ∧ RInv (lstep minidle s it) P'.
Proof.
  intros I Hrun HR. unfold lstep. rewrite (li_not_crashed _ I). destruct it as [tid op|tid|tid|tid cause|name|dt|].
  - (* ICall *) pose proof (HR tid) as Htid. unfold rinv1 in Htid.
    destruct (l_thr s !! tid) as [t|] eqn:Ht; [by exists P|]. unfold emit; simpl. rtrace Hrun. simpl. rewrite Htid.
    eexists; split; [done|]. intros x. unfold rinv1. simpl. destruct (decide (x = tid)) as [->|Hne].
    + rewrite !lookup_insert. simpl. eauto.
    + rewrite !lookup_insert_ne by done. apply HR.
  - (* IRun *) destruct (l_thr s !! tid) as [t|] eqn:Ht; [|by exists P]. by apply (resp_run_thread minidle s tid t P).
  - (* IRunCancel *) pose proof (HR tid) as Htid. unfold rinv1 in Htid.
    destruct (l_thr s !! tid) as [t|] eqn:Ht; [|by exists P].
    destruct (t_pc t) eqn:Hpc; try by exists P. destruct (t_cancel t) eqn:Hc; [|by exists P].
    rewrite (set_pc_eq _ _ _ t) by exact Ht. exists P; split; [done|].
    eapply (rinv_step0 _ _ _ _ _ _ HR); [simpl; reflexivity|done|apply heap_ready_same|]. unfold rinv1; simpl. by rewrite lookup_insert.
  - (* ICancel *) pose proof (HR tid) as Htid. unfold rinv1 in Htid.
    destruct (l_thr s !! tid) as [t|] eqn:Ht; [|by exists P].
    destruct (t_cancel t) eqn:Hc; [by exists P|]. destruct (t_op t) eqn:Hop; try by exists P.
    exists P; split; [done|].
    eapply (rinv_step0 _ _ _ _ _ _ HR); [simpl; reflexivity|done|apply heap_ready_same|]. unfold rinv1; simpl. by rewrite lookup_insert.
  - (* IGc *) exists P. by apply gc_one_resp.
  - (* ITick *) exists P; split; [done|]. by apply (rinv_frame s _ P HR); [|apply heap_ready_same].
  - (* IShutdown *) destruct (l_shut s); [by exists P|]. destruct (no_call_in_flight s); [|by exists P].
    unfold shutdown_all, emit. destruct (gc_fold_resp (map_to_list (l_map s)) s P Hrun HR) as [Hrun' HR'].
    exists P. simpl. rewrite (resp_run_snoc _ _ _ _ Hrun'). split; [done|].
    by apply (rinv_frame _ _ P HR'); [|apply heap_ready_same].
Qed.

Theorem C02_responses_from_inv : T_linv_reach → T_C02_responses.
Proof.
  intros HI minidle s Hr.
  assert (∃ P, resp_run ∅ (rev (l_trace s)) = Some P ∧ RInv s P) as (P & Hrun & _); [|by eapply resp_run_ok].
  induction Hr as [|s it Hr IH Hok].
  - exists ∅. split; [done|]. intros x. unfold rinv1. simpl. by rewrite !lookup_empty.
  - destruct IH as (P & Hrun & HR). apply (resp_step minidle s it P); [by apply (HI minidle)|done|done].
Qed.
