(** The simulation relation between a state of Mseq and a state of the trace oracle (work package trackp),
    stated over the components of the model state so that it can be used inside multi-step events
    (session end, time advance), and the lemmas that move it along the three kinds of change:
    the tracker forgets holds ([HR_doom]), the model changes without creating holds ([HR_change]),
    a hold is granted on both sides ([HR_grant]). *)
From Coq Require Import Lia ZifyBool ZifyNat String.
From Ldlm Require Import Model.Base Model.Err Model.Seq Model.Track Proofs.SeqDefs Proofs.SeqLemmasKey Proofs.SeqInvBase
  Proofs.SeqTimeBase Proofs.SeqTime1 Proofs.TrackPBase Proofs.TrackPOrder.
From RecordUpdate Require Import RecordSet.
Import RecordSetNotations.
Local Open Scope Z_scope.

Definition hkey (h : hold) : str * str := (h_name h, h_key h).
Definition ckey (c : clock) : str * str := (cl_name c, cl_key c).
Definition tdl (T : gmap str timer) (n k : str) : option Z := tm_deadline <$> (T !! tkey n k).

Lemma ckey_hold_clock h : ckey (hold_clock h) = hkey h.
Proof. done. Qed.

(** [hs]: the holds the tracker counts as live; [D]: (name,key) pairs that are still in the lock table but
    that the tracker has already written off (their release is under way); [P]: leases are comparable
    (false after a shutdown, which stops the lease timers). *)
Record HR (L : gmap str lockobj) (S : gmap str (list clock)) (T : gmap str timer) (P : Prop)
          (D : list (str * str)) (hs : list hold) : Prop := {
  hr_nodup : NoDup (hkey <$> hs);
  hr_tab : ∀ h, h ∈ hs → intab L (hold_clock h) ∧ hkey h ∉ D;
  hr_all : ∀ c, intab L c → ckey c ∈ D ∨ ∃ h, h ∈ hs ∧ hold_clock h = c;
  hr_sid : ∀ h, h ∈ hs → ∃ l, S !! h_sid h = Some l ∧ hold_clock h ∈ l;
  hr_lease : P → ∀ h, h ∈ hs → h_deadline h = tdl T (h_name h) (h_key h);
  hr_D : ∀ n k, (n, k) ∈ D → livel L n k
}.

Definition WR (w : waiter) (tw : twaiter) : Prop :=
  tw_id tw = w_id w ∧ tw_name tw = w_name w ∧ tw_sid tw = w_sid w ∧ tw_size tw = w_size w ∧ tw_lt tw = w_lt w ∧
  w_deadline w = wait_dl tw.

(** ** Moving [HR] *)

Lemma HR_doom L S T P D D' hs (f : hold → bool) :
  HR L S T P D hs →
  (∀ h, h ∈ hs → f h = false → hkey h ∈ D') →
  (∀ h, h ∈ hs → f h = true → hkey h ∉ D') →
  (∀ d, d ∈ D → d ∈ D') → (∀ n k, (n, k) ∈ D' → livel L n k) →
  HR L S T P D' (List.filter f hs).
Proof.
  intros [H1 H2 H3 H4 H5 H6] Hf Ht Hsub HD. split.
  - by apply lfilter_NoDup_fmap.
  - intros h [Hfh Hh]%elem_of_lfilter. split; [by apply H2|by apply Ht].
  - intros c Hc. destruct (H3 c Hc) as [?|(h & Hh & <-)]; [left; auto|].
    destruct (f h) eqn:E; [right; exists h; split; [by apply elem_of_lfilter|done]|left; by apply Hf].
  - intros h [_ Hh]%elem_of_lfilter. auto.
  - intros HP h [_ Hh]%elem_of_lfilter. auto.
  - done.
Qed.

Lemma HR_change L S T (P : Prop) D hs L' S' T' (P' : Prop) D' :
  HR L S T P D hs →
  (∀ h, h ∈ hs → intab L' (hold_clock h) ∧ hkey h ∉ D') →
  (∀ c, intab L' c → ckey c ∈ D' ∨ (intab L c ∧ ckey c ∉ D)) →
  (∀ h l, h ∈ hs → S !! h_sid h = Some l → hold_clock h ∈ l → ∃ l', S' !! h_sid h = Some l' ∧ hold_clock h ∈ l') →
  (P' → P ∧ ∀ h, h ∈ hs → tdl T' (h_name h) (h_key h) = tdl T (h_name h) (h_key h)) →
  (∀ n k, (n, k) ∈ D' → livel L' n k) →
  HR L' S' T' P' D' hs.
Proof.
  intros [H1 H2 H3 H4 H5 H6] Ht Ha Hs Hl HD. split; try done.
  - intros c Hc. destruct (Ha c Hc) as [?|[Hc' Hn]]; [by left|]. destruct (H3 c Hc') as [?|?]; [done|by right].
  - intros h Hh. destruct (H4 h Hh) as (l & ? & ?). eauto.
  - intros HP' h Hh. destruct (Hl HP') as [HP Ht']. rewrite Ht' by done. auto.
Qed.

Lemma HR_grant L S T (P : Prop) D hs L' T' n k sz sid dl :
  HR L S T P D hs →
  (∀ c, intab L' c ↔ intab L c ∨ c = Clock n k sz) → ¬ livel L n k →
  (∀ n' k', (n', k') ∈ D → livel L' n' k') →
  (P → dl = tdl T' n k ∧ ∀ h, h ∈ hs → tdl T' (h_name h) (h_key h) = tdl T (h_name h) (h_key h)) →
  HR L' (<[sid := default [] (S !! sid) ++ [Clock n k sz]]> S) T' P D (hs ++ [Hold n k sz sid dl]).
Proof.
  intros [H1 H2 H3 H4 H5 H6] Hi Hnl HD Hl.
  assert (∀ h, h ∈ hs → hkey h ≠ (n, k)) as Hne.
  { intros h Hh E. apply Hnl. destruct (H2 h Hh) as [Ht _]. apply intab_livel in Ht. unfold hkey in E. injection E as <- <-. exact Ht. }
  split.
  - rewrite fmap_app. apply NoDup_app. split; [done|]. split; [|apply NoDup_singleton].
    intros x (h & -> & Hh)%elem_of_list_fmap Hx. simpl in Hx. apply elem_of_list_singleton in Hx. by apply (Hne h).
  - intros h [Hh| ->%elem_of_list_singleton]%elem_of_app.
    + destruct (H2 h Hh). split; [apply Hi; by left|done].
    + split; [apply Hi; by right|]. intros HnD. apply Hnl. by apply H6.
  - intros c [Hc| ->]%Hi.
    + destruct (H3 c Hc) as [?|(h & ? & ?)]; [by left|]. right. exists h. split; [apply elem_of_app; by left|done].
    + right. eexists. split; [apply elem_of_app; right; by apply elem_of_list_singleton|done].
  - intros h [Hh| ->%elem_of_list_singleton]%elem_of_app.
    + destruct (H4 h Hh) as (l & Hs & Hc). destruct (decide (h_sid h = sid)) as [<-|Hns].
      * rewrite lookup_insert, Hs. simpl. eexists. split; [done|]. apply elem_of_app. by left.
      * rewrite lookup_insert_ne by done. eauto.
    + simpl. rewrite lookup_insert. eexists. split; [done|]. apply elem_of_app. right. by apply elem_of_list_singleton.
  - intros HP h [Hh| ->%elem_of_list_singleton]%elem_of_app.
    + destruct (Hl HP) as [_ Ht]. rewrite Ht by done. auto.
    + simpl. by destruct (Hl HP).
  - done.
Qed.

(** ** Reading the tracker's hold list *)

Lemma on_name_keys_nodup hs n : NoDup (hkey <$> hs) → NoDup (h_key <$> on_name n hs).
Proof.
  intros Hnd. unfold on_name.
  induction hs as [|h l IH]; [constructor|]. rewrite fmap_cons in Hnd. apply NoDup_cons in Hnd as [Hh Hl]. simpl.
  case_bool_decide as E; [|auto]. rewrite fmap_cons. apply NoDup_cons. split; [|auto].
  intros (h' & Ek & Hh')%elem_of_list_fmap. apply elem_of_lfilter in Hh' as [En%bool_decide_eq_true Hh'].
  apply Hh. apply elem_of_list_fmap. exists h'. split; [|done]. unfold hkey. congruence.
Qed.

Section read.
  Context (L : gmap str lockobj) (S : gmap str (list clock)) (T : gmap str timer) (P : Prop)
          (D : list (str * str)) (hs : list hold).
  Context (HH : HR L S T P D hs).
  Context (Hcap : ∀ n o, L !! n = Some o → NoDup (lo_keys o)).

  Definition nk_filter (n k : str) : hold → bool := λ h, bool_decide (h_name h = n) && bool_decide (h_key h = k).

  Lemma hr_live_some n k : livel L n k → (n, k) ∉ D →
    ∃ h, head (List.filter (nk_filter n k) hs) = Some h ∧ h ∈ hs ∧ h_name h = n ∧ h_key h = k.
  Proof.
    intros (o & Ho & Hk) HnD. destruct (hr_all _ _ _ _ _ _ HH (Clock n k (lo_size o))) as [?|(h & Hh & Ec)]; [by exists o|done|].
    assert (h ∈ List.filter (nk_filter n k) hs) as Hf.
    { apply elem_of_lfilter. split; [|done]. unfold nk_filter. injection Ec as -> -> _. by rewrite !bool_decide_eq_true_2. }
    destruct (List.filter (nk_filter n k) hs) as [|h' r] eqn:E; [by apply elem_of_nil in Hf|].
    exists h'. assert (h' ∈ List.filter (nk_filter n k) hs) as Hf' by (rewrite E; left).
    apply elem_of_lfilter in Hf' as [Hp ?]. unfold nk_filter in Hp. apply andb_true_iff in Hp as [?%bool_decide_eq_true ?%bool_decide_eq_true].
    done.
  Qed.

  Lemma hr_live_none n k : ¬ livel L n k → List.filter (nk_filter n k) hs = [].
  Proof.
    intros Hn. apply lfilter_none. intros h Hh. unfold nk_filter.
    destruct (bool_decide (h_name h = n)) eqn:E1, (bool_decide (h_key h = k)) eqn:E2; try done.
    apply bool_decide_eq_true in E1, E2. subst. exfalso. apply Hn.
    destruct (hr_tab _ _ _ _ _ _ HH h Hh) as [Hi _]. by apply intab_livel in Hi.
  Qed.

  Lemma hr_on_name_keys n : NoDup (h_key <$> on_name n hs).
  Proof. apply on_name_keys_nodup, (hr_nodup _ _ _ _ _ _ HH). Qed.

  Lemma hr_on_name_none n : L !! n = None → on_name n hs = [].
  Proof.
    intros Hn. apply lfilter_none. intros h Hh. apply bool_decide_eq_false. intros <-.
    destruct (hr_tab _ _ _ _ _ _ HH h Hh) as [(o & Ho & _) _]. simpl in Ho. congruence.
  Qed.

  Lemma hr_count_le n o k : L !! n = Some o → (n, k) ∈ D → k ∈ lo_keys o →
    (length (on_name n hs) ≤ length (remove_first k (lo_keys o)))%nat.
  Proof.
    intros Ho HD Hk. rewrite <- (fmap_length h_key). apply submseteq_length, NoDup_submseteq; [apply hr_on_name_keys|].
    intros x (h & -> & Hh)%elem_of_list_fmap. apply elem_of_lfilter in Hh as [En%bool_decide_eq_true Hh].
    destruct (hr_tab _ _ _ _ _ _ HH h Hh) as [(o' & Ho' & Hk' & _) HnD]. simpl in *. rewrite En in Ho'. simplify_eq.
    apply remove_first_ne; [done|]. intros E. apply HnD. unfold hkey. by rewrite E.
  Qed.

  Lemma hr_count_le' n o : L !! n = Some o → (length (on_name n hs) ≤ length (lo_keys o))%nat.
  Proof.
    intros Ho. rewrite <- (fmap_length h_key). apply submseteq_length, NoDup_submseteq; [apply hr_on_name_keys|].
    intros x (h & -> & Hh)%elem_of_list_fmap. apply elem_of_lfilter in Hh as [En%bool_decide_eq_true Hh].
    destruct (hr_tab _ _ _ _ _ _ HH h Hh) as [(o' & Ho' & Hk' & _) HnD]. simpl in *. rewrite En in Ho'. by simplify_eq.
  Qed.

  Lemma hr_count_eq n o : D = [] → L !! n = Some o → length (on_name n hs) = length (lo_keys o).
  Proof.
    intros ED Ho. apply Nat.le_antisymm; [by apply hr_count_le'|].
    rewrite <- (fmap_length h_key (on_name n hs)). apply submseteq_length, NoDup_submseteq; [by eapply Hcap|].
    intros k Hk. destruct (hr_all _ _ _ _ _ _ HH (Clock n k (lo_size o))) as [HcD|(h & Hh & Ec)]; [by exists o|by rewrite ED in HcD; apply elem_of_nil in HcD|].
    apply elem_of_list_fmap. exists h. injection Ec as En Ek _. split; [done|]. apply elem_of_lfilter. split; [|done].
    by apply bool_decide_eq_true.
  Qed.

  Lemma hr_size h n : h ∈ on_name n hs → ∃ o, L !! n = Some o ∧ lo_size o = h_size h.
  Proof.
    intros [En%bool_decide_eq_true Hh]%elem_of_lfilter. destruct (hr_tab _ _ _ _ _ _ HH h Hh) as [(o & Ho & _ & Hs) _].
    simpl in *. subst. eauto.
  Qed.
End read.

(** ** Parked calls *)

Lemma WR_filter_id W ws id : Forall2 WR W ws →
  Forall2 WR (filter (λ w', bool_decide (w_id w' ≠ id)) W) (rmw id ws).
Proof.
  intros H. unfold rmw. rewrite lfilter_eq. eapply Forall2_filter; [|done]. intros w tw (Hid & _). simpl.
  rewrite Hid. split; intros Hx; repeat case_bool_decide; simpl in *; try done; congruence.
Qed.

Lemma WR_name W ws n : Forall2 WR W ws → Forall2 WR (name_waiters n W) (won n ws).
Proof.
  intros H. unfold name_waiters, won. rewrite lfilter_eq. eapply Forall2_filter; [|done]. intros w tw (_ & Hn & _). simpl.
  rewrite Hn. split; [intros ->; by apply bool_decide_pack|by intros ?%bool_decide_unpack].
Qed.

Lemma WR_findw W ws w : Forall2 WR W ws → NoDup (w_id <$> W) → w ∈ W →
  ∃ tw, findw (w_id w) ws = [tw] ∧ WR w tw.
Proof.
  intros H Hnd Hw. unfold findw. rewrite lfilter_eq.
  assert (Forall2 WR (filter (λ w', w_id w' = w_id w) W) (filter (λ w0, bool_decide (tw_id w0 = w_id w)) ws)) as HF.
  { eapply Forall2_filter; [|done]. intros w' tw (Hid & _). simpl. rewrite Hid.
    split; [intros ->; by apply bool_decide_pack|by intros ?%bool_decide_unpack]. }
  assert (filter (λ w', w_id w' = w_id w) W = [w]) as E.
  { clear HF H. induction W as [|x W IH]; [by apply elem_of_nil in Hw|]. rewrite fmap_cons in Hnd. apply NoDup_cons in Hnd as [Hx Hnd].
    rewrite filter_cons. apply elem_of_cons in Hw as [<-|Hw].
    - rewrite decide_True by done. f_equal. apply filter_nil_not. intros y Hy E. apply Hx. rewrite <- E. apply elem_of_list_fmap. eauto.
    - rewrite decide_False; [auto|]. intros E. apply Hx. rewrite E. apply elem_of_list_fmap. eauto. }
  rewrite E in HF. inversion HF as [|? tw ? ? Hwr Hrest]; subst. inversion Hrest; subst. eauto.
Qed.

Lemma Forall2_elem_r {A B} (R : A → B → Prop) l k y : Forall2 R l k → y ∈ k → ∃ x, x ∈ l ∧ R x y.
Proof.
  induction 1 as [|x y' l k HR _ IH]; [by intros ?%elem_of_nil|]. intros [->|Hy]%elem_of_cons.
  - exists x. split; [left|done].
  - destruct (IH Hy) as (x' & ? & ?). exists x'. split; [by right|done].
Qed.
Lemma Forall2_elem_l {A B} (R : A → B → Prop) l k x : Forall2 R l k → x ∈ l → ∃ y, y ∈ k ∧ R x y.
Proof.
  induction 1 as [|x' y l k HR _ IH]; [by intros ?%elem_of_nil|]. intros [->|Hx]%elem_of_cons.
  - exists y. split; [left|done].
  - destruct (IH Hx) as (y' & ? & ?). exists y'. split; [by right|done].
Qed.

Lemma WR_coh L T W U D ws : TI L T W U D → Forall2 WR W ws → coh ws.
Proof.
  intros HT HF tw tw' Htw Htw' En.
  destruct (Forall2_elem_r _ _ _ _ HF Htw) as (w & Hw & (_ & Hn & _ & Hs & _)).
  destruct (Forall2_elem_r _ _ _ _ HF Htw') as (w' & Hw' & (_ & Hn' & _ & Hs' & _)).
  destruct (ti_waiters _ _ _ _ _ HT w Hw) as (o & Ho & _ & Hz).
  destruct (ti_waiters _ _ _ _ _ HT w' Hw') as (o' & Ho' & _ & Hz').
  rewrite <- Hn, En, Hn' in Ho. simplify_eq. congruence.
Qed.
