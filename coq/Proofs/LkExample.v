(** A concrete, non-trivial reachable state of Mlk used by the [Example]s of the property files: a size-1 lock "a" held under
    key k1 (a TryLock that has returned), a Lock call (thread 2) parked in its queue, and an Unlock of k1 (thread 3) that has
    just released and handed the unit to thread 2, which has not yet taken note. Reachability is discharged by a boolean
    checker of [item_ok] with a soundness lemma. *)
From Ldlm Require Import Model.Base Model.Err Model.Lk Proofs.LkDefs.
Local Open Scope Z_scope.

Definition item_okb (s : lstate) (it : item) : bool :=
  match it with
  | ICall _ op =>
      forallb (λ '(_, t'),
                 (negb (is_acq op) || negb (bool_decide (op_key (t_op t') = op_key op))) &&
                 (is_acq op || negb (is_acq (t_op t')) || negb (bool_decide (op_key (t_op t') = op_key op))
                  || match t_pc t' with PFin _ => true | _ => false end))
              (map_to_list (l_thr s))
  | _ => true
  end.
Lemma item_okb_sound s it : item_okb s it = true → item_ok s it.
Proof.
  destruct it as [tid op| | | | | |]; try done. cbn. rewrite forallb_forall. intros H. split.
  - intros Ha tid' t' Ht. specialize (H (tid', t')). rewrite <-elem_of_list_In, elem_of_map_to_list in H.
    specialize (H Ht). cbn in H. rewrite Ha in H. cbn in H. apply andb_true_iff in H as [H _].
    by apply negb_true_iff, bool_decide_eq_false in H.
  - intros Ha tid' t' Ht Hacq Hk. specialize (H (tid', t')). rewrite <-elem_of_list_In, elem_of_map_to_list in H.
    specialize (H Ht). cbn in H. rewrite Ha, Hacq in H. cbn in H. rewrite bool_decide_eq_true_2 in H by done. cbn in H.
    destruct (t_pc t'); try done. by eexists.
Qed.
Fixpoint sched_okb (minidle : Z) (s : lstate) (sch : list item) : bool :=
  match sch with [] => true | it :: r => item_okb s it && sched_okb minidle (lstep minidle s it) r end.
Lemma sched_okb_reach minidle sch : ∀ s, lreach minidle s → sched_okb minidle s sch = true → lreach minidle (fold_left (lstep minidle) sch s).
Proof.
  induction sch as [|it r IH]; intros s Hr H; [done|]. cbn in H. apply andb_true_iff in H as [H1 H2].
  cbn. apply IH; [|done]. apply lreach_step; [done|]. by apply item_okb_sound.
Qed.
Lemma lrun_reach minidle sch : sched_okb minidle l_init sch = true → lreach minidle (lrun minidle sch).
Proof. apply sched_okb_reach, lreach_init. Qed.

Definition xa : str := [x61]. Definition xk1 : str := [x6b; x31]. Definition xk2 : str := [x6b; x32].
Definition ex_sched : list item :=
  [ICall 1 (OTry xa xk1 1); IRun 1; IRun 1; IRun 1; IRun 1; IRun 1; IRun 1;
   ICall 2 (OLock xa xk2 1); IRun 2; IRun 2; IRun 2; IRun 2;
   ICall 3 (OUnl xa xk1); IRun 3; IRun 3; IRun 3; IRun 3]%nat.
Definition lex_state : lstate := lrun 0 ex_sched.
Lemma lex_reach : lreach 0 lex_state.
Proof. apply lrun_reach. by vm_compute. Qed.
(** thread 1 reported its grant, thread 2 was handed the unit (a LaGrant was recorded), nothing crashed *)
Lemma lex_facts :
  (∃ t, l_thr lex_state !! 1%nat = Some t ∧ t_pc t = PFin (LRes true None)) ∧
  (∃ t oid, l_thr lex_state !! 2%nat = Some t ∧ t_pc t = PAcqWait oid) ∧
  EvLin (LaGrant 2 xa xk2) ∈ l_trace lex_state ∧ l_crashed lex_state = false.
Proof.
  split; [eexists; split; by vm_compute|]. split; [do 2 eexists; split; by vm_compute|].
  split; [|by vm_compute]. apply elem_of_list_In. vm_compute. auto 20.
Qed.
(** before the Unlock: the grant was reported and no Unlock had been invoked *)
Definition lex_state0 : lstate := lrun 0 (take 12 ex_sched).
Lemma lex_reach0 : lreach 0 lex_state0.
Proof. apply lrun_reach. by vm_compute. Qed.
Lemma lex_granted0 : granted lex_state0 xa xk1 ∧ ¬ unlock_invoked lex_state0 xa xk1.
Proof.
  split.
  - exists 1%nat. eexists. split; [by vm_compute|]. by vm_compute.
  - intros (tid & t & Ht & Hop). assert (Hin : (tid, t) ∈ map_to_list (l_thr lex_state0)) by by apply elem_of_map_to_list.
    apply elem_of_list_In in Hin. vm_compute in Hin.
    destruct Hin as [Hin|[Hin|[]]]; injection Hin as <- <-; discriminate Hop.
Qed.
