(** Restart from the state file (C10_restore). Work package seqtime. *)
From Coq Require Import Lia ZifyBool ZifyNat.
From Ldlm Require Import Model.Base Model.Err Model.Seq Proofs.SeqDefs Proofs.SeqLemmasKey Proofs.SeqTargets.
From Ldlm Require Import Proofs.SeqTimeBase Proofs.SeqTime1 Proofs.SeqTime2 Proofs.SeqTime3.
From RecordUpdate Require Import RecordSet.
Import RecordSetNotations.
Local Open Scope Z_scope.

Lemma listing_listed s c : c ∈ listing s ↔ ∃ sid, listed s sid c.
Proof.
  unfold listing, listed. rewrite elem_of_list_In, in_concat. split.
  - intros (l & ([sid l'] & <- & Hin)%in_map_iff & Hc). exists sid, l'. cbn.
    split; [by apply elem_of_map_to_list, elem_of_list_In|by apply elem_of_list_In].
  - intros (sid & l & Hl & Hc). exists l. split; [|by apply elem_of_list_In].
    apply in_map_iff. exists (sid, l). split; [done|]. by apply elem_of_list_In, elem_of_map_to_list.
Qed.

(** ** The reload as one fold over (session id, hold) pairs *)

Definition todo_list (m : gmap str (list clock)) (ro : list str) : list (str * clock) :=
  flat_map (λ sid, map (pair sid) (default [] (m !! sid))) ro.

Definition rstep (cfg : config) : sstate → str * clock → sstate := λ s p, restore_one cfg p.1 p.2 s.

Lemma restore_fold_flat cfg m ro : ∀ s0,
  fold_left (λ s sid, fold_left (λ s c, restore_one cfg sid c s) (default [] (m !! sid)) s) ro s0
  = fold_left (rstep cfg) (todo_list m ro) s0.
Proof.
  induction ro as [|sid ro IH]; intros s0; [done|]. cbn [fold_left todo_list flat_map]. rewrite fold_left_app, IH. f_equal.
  generalize (default [] (m !! sid)). intros l. revert s0. induction l as [|c l IHl]; intros s0; [done|]. cbn. apply IHl.
Qed.

Lemma todo_list_elem m ro sid c : (sid, c) ∈ todo_list m ro ↔ sid ∈ ro ∧ c ∈ default [] (m !! sid).
Proof.
  unfold todo_list. rewrite elem_of_list_In, in_flat_map. split.
  - intros (sid' & Hs & (c' & [= <- <-] & Hc)%in_map_iff). by rewrite !elem_of_list_In.
  - intros [Hs Hc]. exists sid. rewrite <- elem_of_list_In. split; [done|]. apply in_map, elem_of_list_In, Hc.
Qed.

Lemma todo_list_snd m ro : map snd (todo_list m ro) = flat_map (λ sid, default [] (m !! sid)) ro.
Proof.
  unfold todo_list. induction ro as [|sid ro IH]; [done|]. cbn [flat_map]. rewrite map_app, IH. f_equal.
  rewrite map_map. cbn. apply map_id.
Qed.

Lemma todo_list_NoDup m ro : NoDup ro → (∀ sid, NoDup (default [] (m !! sid))) →
  (∀ sid1 sid2 c, c ∈ default [] (m !! sid1) → c ∈ default [] (m !! sid2) → sid1 = sid2) →
  NoDup (map snd (todo_list m ro)).
Proof.
  intros Hro Hnd Hdisj. rewrite todo_list_snd. induction Hro as [|sid ro Hsid Hro IH]; cbn; [constructor|].
  apply NoDup_app. split; [done|]. split; [|done].
  intros c Hc (sid' & Hs' & Hc')%elem_of_list_In%in_flat_map. apply Hsid.
  rewrite (Hdisj sid sid' c); [by apply elem_of_list_In|done|by apply elem_of_list_In].
Qed.

Lemma reload_order_perm (order : list str) (m : gmap str (list clock)) : reload_order order m ≡ₚ map fst (map_to_list m).
Proof. unfold reload_order. case_bool_decide; done. Qed.

Lemma reload_order_elem (order : list str) (m : gmap str (list clock)) sid : sid ∈ reload_order order m ↔ is_Some (m !! sid).
Proof.
  rewrite reload_order_perm. split.
  - intros ([sid' l] & <- & Hin%elem_of_list_In%elem_of_map_to_list)%elem_of_list_In%in_map_iff. eauto.
  - intros [l Hl]. apply elem_of_list_In, in_map_iff. exists (sid, l). split; [done|]. by apply elem_of_list_In, elem_of_map_to_list.
Qed.

Lemma reload_order_NoDup (order : list str) (m : gmap str (list clock)) : NoDup (reload_order order m).
Proof. rewrite reload_order_perm. apply NoDup_fst_map_to_list. Qed.

(** ** restore_one when the hold fits *)

Definition keys_of (s : sstate) (n : str) : list str :=
  match st_locks s !! n with Some o => lo_keys o | None => [] end.

Lemma restore_one_ok cfg sid c s :
  0 < cl_size c → (∀ o, st_locks s !! cl_name c = Some o → cl_size c = lo_size o) →
  Z.of_nat (length (keys_of s (cl_name c))) < cl_size c → st_waiters s = [] →
  restore_one cfg sid c s =
    s <| st_locks := <[cl_name c := LockObj (cl_size c) (keys_of s (cl_name c) ++ [cl_key c]) (st_now s)]> (st_locks s) |>
      <| st_timers := <[tkey (cl_name c) (cl_key c) := Timer (st_now s + c_default_lt cfg) (cl_name c) (cl_key c) sid]> (st_timers s) |>.
Proof.
  intros Hsz Hsame Hlen Hw. unfold restore_one, get_lock_create, keys_of in *.
  destruct (Z.leb_spec (cl_size c) 0); [lia|].
  destruct (st_locks s !! cl_name c) as [o|] eqn:Ho.
  - rewrite bool_decide_eq_true_2 by auto. unfold can_acquire, add_key. cbn. rewrite lookup_insert, Hw. cbn.
    rewrite bool_decide_eq_true_2 by (rewrite <- (Hsame o); done). cbn. rewrite insert_insert.
    rewrite (Hsame o eq_refl). by destruct o.
  - unfold can_acquire, add_key. cbn. rewrite lookup_insert, Hw. cbn.
    rewrite bool_decide_eq_true_2 by done. cbn. by rewrite insert_insert.
Qed.

(** ** The invariant of the reload *)

Section restore.
  Context (cfg : config) (s : sstate) (m : gmap str (list clock)) (now0 g0 : Z).
  Hypothesis Hcap : ∀ n o, st_locks s !! n = Some o →
      0 < lo_size o ∧ Z.of_nat (length (lo_keys o)) ≤ lo_size o ∧ NoDup (lo_keys o).

  Definition lease (p : str * clock) : timer :=
    Timer (now0 + c_default_lt cfg) (cl_name p.2) (cl_key p.2) p.1.

  Definition RI (done : list (str * clock)) (cur : sstate) : Prop :=
    st_waiters cur = [] ∧ st_now cur = now0 ∧ st_sessions cur = m ∧ st_gc_next cur = g0 ∧
    (∀ n ob', st_locks cur !! n = Some ob' → ∃ ob, st_locks s !! n = Some ob ∧ lo_size ob' = lo_size ob ∧
        NoDup (lo_keys ob') ∧ ∀ k, k ∈ lo_keys ob' → Clock n k (lo_size ob) ∈ map snd done) ∧
    (∀ p, p ∈ done → in_table cur p.2 ∧ st_timers cur !! tkey (cl_name p.2) (cl_key p.2) = Some (lease p)) ∧
    (∀ tk t, st_timers cur !! tk = Some t → ∃ p, p ∈ done ∧ tk = tkey (cl_name p.2) (cl_key p.2) ∧ t = lease p).

  Lemma RI_step done p cur : RI done cur → NoDup (map snd (done ++ [p])) → (∀ q, q ∈ done ++ [p] → in_table s q.2) →
    RI (done ++ [p]) (rstep cfg cur p).
  Proof.
    intros (Hw & Hnow & Hse & Hg & Hlocks & Hdone & Htim) Hnd Htab.
    destruct p as [sid c]. destruct (Htab (sid, c)) as (ob & Hob & Hk & Hsz); [apply elem_of_app; right; left|]. cbn in Hob, Hk, Hsz.
    destruct (Hcap _ _ Hob) as (Hpos & Hlen & Hndk).
    assert (c ∉ map snd done) as Hfresh.
    { rewrite map_app in Hnd. apply NoDup_app in Hnd as (_ & Hd & _). intros Hc. apply (Hd c Hc). left. }
    assert (∀ q, q ∈ done → (cl_name q.2, cl_key q.2) ≠ (cl_name c, cl_key c)) as Hdiff.
    { intros q Hq E. apply Hfresh. assert (q.2 = c) as <-.
      { eapply (clock_eq_of_table s); [apply Htab, elem_of_app; by left| |done]. exists ob; done. }
      by apply elem_of_list_In, in_map, elem_of_list_In. }
    assert (NoDup (keys_of cur (cl_name c)) ∧ cl_key c ∉ keys_of cur (cl_name c) ∧
            (∀ k, k ∈ keys_of cur (cl_name c) → k ∈ lo_keys ob ∧ Clock (cl_name c) k (lo_size ob) ∈ map snd done)) as (Hkn & Hkf & Hks).
    { unfold keys_of. destruct (st_locks cur !! cl_name c) as [ob'|] eqn:Hob'.
      - destruct (Hlocks _ _ Hob') as (ob0 & Hob0 & _ & Hn & Hkeys). rewrite Hob in Hob0. injection Hob0 as <-.
        split; [done|]. split.
        + intros Hin. apply Hfresh. specialize (Hkeys _ Hin). rewrite <- Hsz in Hkeys. by destruct c.
        + intros k Hin. specialize (Hkeys _ Hin). split; [|done].
          apply elem_of_list_In, in_map_iff in Hkeys as (q & Eq & Hq%elem_of_list_In).
          destruct (Htab q) as (ob1 & Hob1 & Hk1 & _); [apply elem_of_app; by left|].
          rewrite Eq in Hob1, Hk1. cbn in Hob1, Hk1. rewrite Hob in Hob1. by injection Hob1 as <-.
      - split; [constructor|]. split; [apply not_elem_of_nil|]. intros k ?%elem_of_nil; done. }
    assert (Z.of_nat (length (keys_of cur (cl_name c))) < cl_size c) as Hfit.
    { assert (cl_key c :: keys_of cur (cl_name c) ⊆+ lo_keys ob) as Hsub.
      { apply NoDup_submseteq; [by constructor|]. intros k [->|Hin]%elem_of_cons; [done|]. by apply Hks. }
      apply submseteq_length in Hsub. cbn in Hsub. lia. }
    unfold rstep. cbn [fst snd]. rewrite restore_one_ok; [|lia| |done|done].
    2:{ intros o' Ho'. destruct (Hlocks _ _ Ho') as (ob0 & Hob0 & E & _). rewrite Hob in Hob0. injection Hob0 as <-. lia. }
    unfold RI. cbn. split_and!; try done.
    - intros n ob'. destruct (decide (n = cl_name c)) as [->|Hne].
      + rewrite lookup_insert. intros [= <-]. exists ob. cbn. split_and!; try done.
        * apply NoDup_app. split_and!; [done| |apply NoDup_singleton]. intros k Hin ->%elem_of_list_singleton. done.
        * intros k [Hin| ->%elem_of_list_singleton]%elem_of_app; rewrite map_app, elem_of_app.
          -- left. by apply Hks.
          -- right. cbn. rewrite <- Hsz. destruct c; left.
      + rewrite lookup_insert_ne by done. intros Hl. destruct (Hlocks _ _ Hl) as (ob0 & ? & ? & ? & Hkeys).
        exists ob0. split_and!; try done. intros k Hin. rewrite map_app, elem_of_app. left. auto.
    - intros q [Hq| ->%elem_of_list_singleton]%elem_of_app.
      + destruct (Hdone q Hq) as [(o' & Ho' & Hk' & Hs') Ht]. split.
        * unfold in_table. cbn. destruct (decide (cl_name q.2 = cl_name c)) as [E|Hne].
          -- eexists. rewrite E, lookup_insert. split; [done|]. cbn. split.
             ++ apply elem_of_app. left. unfold keys_of. rewrite <- E, Ho'. done.
             ++ destruct (Hlocks _ _ Ho') as (ob0 & Hob0 & E0 & _). rewrite E, Hob in Hob0. injection Hob0 as <-. lia.
          -- exists o'. rewrite lookup_insert_ne by done. done.
        * rewrite lookup_insert_ne; [done|]. intros [? ?]%tkey_inj. apply (Hdiff q Hq). congruence.
      + cbn. split.
        * unfold in_table. cbn. eexists. rewrite lookup_insert. split; [done|]. cbn. split; [|done]. apply elem_of_app; right; left.
        * rewrite lookup_insert, Hnow. done.
    - intros tk t. destruct (decide (tk = tkey (cl_name c) (cl_key c))) as [->|Hne].
      + rewrite lookup_insert. intros [= <-]. exists (sid, c). rewrite Hnow. split; [apply elem_of_app; right; left|done].
      + rewrite lookup_insert_ne by done. intros (q & Hq & ? & ?)%Htim. exists q. split; [apply elem_of_app; by left|done].
  Qed.

  Lemma RI_fold todo : ∀ done cur, RI done cur → NoDup (map snd (done ++ todo)) →
    (∀ q, q ∈ done ++ todo → in_table s q.2) → RI (done ++ todo) (fold_left (rstep cfg) todo cur).
  Proof.
    induction todo as [|p todo IH]; intros done cur HRI Hnd Htab; cbn [fold_left]; [by rewrite app_nil_r|].
    rewrite (cons_middle p done todo), app_assoc in Hnd, Htab |- *. apply IH; [|done|done].
    apply RI_step; [done| |].
    - rewrite map_app in Hnd. by apply NoDup_app in Hnd as (? & _).
    - intros q Hq. apply Htab, elem_of_app. by left.
  Qed.
End restore.

(** ** The loop when no call is parked: no output, and the clock ends at the target *)

Lemma nowaiters_loop cfg target fuel s outs s' o :
  (measure s < fuel)%nat → st_waiters s = [] → st_now s ≤ target →
  (s', o) ∈ advance_loop cfg fuel target s outs → o = outs ∧ st_now s' = target.
Proof.
  intros Hm Hw Hnow Hin.
  eapply (advance_loop_inv cfg target (λ s o, st_waiters s = [] ∧ o = outs ∧ st_now s ≤ target))
    in Hin as (sf & (_ & -> & Hn) & _ & ->); [|clear dependent s|done|done].
  - split; [done|]. rewrite fin_now. lia.
  - intros s outs' d s2 o2 (Hw & -> & Hn) Hd Hf.
    destruct (round_cases _ _ _ _ _ _ Hd Hf) as (Hle & _ & Hnow & [(w0 & _ & Hw0 & _)|(tk0 & tm & x & _ & _ & Hs & _)]).
    + rewrite Hw in Hw0. by apply elem_of_nil in Hw0.
    + destruct x as [w|].
      * destruct (unlock_shape_granted _ _ _ _ _ _ _ _ w Hs eq_refl) as [Hin _]. rewrite Hw in Hin. by apply elem_of_nil in Hin.
      * destruct Hs as (_ & -> & -> & _). rewrite app_nil_r. split; [done|]. split; [done|]. lia.
Qed.

(** ** C10 *)

Lemma restart_spec cfg s order s' o : Inv cfg s → c_file cfg = true → (s', o) ∈ restart cfg order s →
  o = [] ∧ st_now s' = st_now s ∧
  (∀ c, in_table s' c → c ∈ listing s) ∧
  (0 < c_default_lt cfg →
     ∀ c, c ∈ listing s →
       in_table s' c ∧ c ∈ listing s' ∧
       ∃ sid, listed s' sid c ∧
              st_timers s' !! tkey (cl_name c) (cl_key c) =
                Some (Timer (st_now s + c_default_lt cfg) (cl_name c) (cl_key c) sid)) ∧
  (c_default_lt cfg ≤ 0 → ∀ c, ¬ in_table s' c).
Proof.
  intros HI Hfile H. unfold restart in H. rewrite Hfile in H. rewrite restore_fold_flat in H.
  set (m := default ∅ (st_file s)) in *. set (todo := todo_list m (reload_order order m)) in *.
  set (s0 := SState ∅ m ∅ [] (st_file s) (st_now s) (st_now s + c_gc_interval cfg) false (st_used s)) in *.
  assert (∀ sid, default [] (m !! sid) = default [] (st_sessions s !! sid)) as Hfe by (by apply (inv_file_eq _ _ HI)).
  assert (∀ sid c, (sid, c) ∈ todo ↔ listed s sid c) as Htodo.
  { intros sid c. unfold todo. rewrite todo_list_elem, reload_order_elem. unfold listed. split.
    - intros [_ Hc]. rewrite Hfe in Hc. destruct (st_sessions s !! sid) as [l|]; [eauto|by apply elem_of_nil in Hc].
    - intros (l & Hl & Hc). assert (c ∈ default [] (m !! sid)) as Hc' by (by rewrite Hfe, Hl).
      split; [|done]. destruct (m !! sid); [done|by apply elem_of_nil in Hc']. }
  assert (NoDup (map snd todo)) as Hnd.
  { apply todo_list_NoDup; [apply reload_order_NoDup| |].
    - intros sid. rewrite Hfe. destruct (st_sessions s !! sid) as [l|] eqn:Hl; [by eapply inv_nodup|constructor].
    - intros sid1 sid2 c. rewrite !Hfe. intros H1 H2.
      destruct (st_sessions s !! sid1) as [l1|] eqn:Hl1; [|by apply elem_of_nil in H1].
      destruct (st_sessions s !! sid2) as [l2|] eqn:Hl2; [|by apply elem_of_nil in H2].
      eapply (inv_owner _ _ HI); eauto. }
  assert (∀ q, q ∈ todo → in_table s q.2) as Htab.
  { intros [sid c] Hq. eapply inv_listed_table; [done|]. by apply Htodo. }
  assert (RI cfg s m (st_now s) (st_now s + c_gc_interval cfg) todo (fold_left (rstep cfg) todo s0)) as HRI.
  { apply (RI_fold cfg s m _ _ (inv_cap _ _ HI) todo [] s0); [|done|done].
    unfold RI, s0; cbn. split_and!; try done.
    all: try (intros ? ?; by rewrite lookup_empty).
    intros p ?%elem_of_nil; done. }
  set (s1 := fold_left (rstep cfg) todo s0) in *.
  destruct HRI as (Hw & Hnow & Hse & Hg & Hlocks & Hdone & Htim).
  assert (∀ c, in_table s1 c → c ∈ listing s) as Hback.
  { intros c (o' & Ho' & Hk & Hsz). destruct (Hlocks _ _ Ho') as (ob & Hob & E & _ & Hkeys).
    specialize (Hkeys _ Hk). rewrite <- E, <- Hsz in Hkeys. assert (Clock (cl_name c) (cl_key c) (cl_size c) = c) as Ec by (by destruct c).
    rewrite Ec in Hkeys. apply elem_of_list_In, in_map_iff in Hkeys as ([sid c'] & Eq & Hq%elem_of_list_In). cbn in Eq. subst c'.
    apply listing_listed. exists sid. by apply Htodo. }
  destruct (Z.ltb_spec 0 (c_default_lt cfg)) as [Hpos|Hneg].
  - (* leases restored, nothing fires *)
    unfold advance_fuel in H. rewrite Nat.add_1_r in H.
    apply advance_loop_elem in H as [[_ [= -> ->]]|(d & s2 & o2 & Hd & _)].
    2:{ exfalso. apply next_due_elem in Hd as (Hin & Hle & _).
        apply all_items_spec in Hin as [(tk & t & -> & Ht)|(w & _ & Hin & _)]; [|rewrite Hw in Hin; by apply elem_of_nil in Hin].
        destruct (Htim _ _ Ht) as (p & _ & _ & ->). cbn in Hle. lia. }
    split; [done|]. split; [rewrite fin_now; lia|]. split_and!.
    + intros c (o' & Ho' & Hk & Hsz). rewrite fin_locks in Ho'. apply gc_locks_sub in Ho'. apply Hback. exists o'; done.
    + intros _ c (sid & Hl)%listing_listed. apply Htodo in Hl as Hq. destruct (Hdone _ Hq) as [(o' & Ho' & Hk & Hsz) Ht]. cbn in *.
      assert (listed (finish_advance cfg (st_now s1) s1) sid c) as Hl'.
      { unfold listed. rewrite fin_sessions, Hse. apply todo_list_elem in Hq as [_ Hc].
        destruct (m !! sid) as [l|]; [eauto|by apply elem_of_nil in Hc]. }
      split_and!.
      * exists o'. rewrite fin_locks. split; [|done]. apply gc_locks_keep; [done|]. left. intros E. rewrite E in Hk. by apply elem_of_nil in Hk.
      * apply listing_listed. eauto.
      * exists sid. split; [done|]. by rewrite gc_timers.
    + lia.
  - (* every restored lease fires at once *)
    destruct (nowaiters_loop _ _ _ _ _ _ _ (advance_fuel_measure s1) Hw (Z.le_refl _) H) as [-> Hn].
    assert (∀ c, ¬ in_table s' c) as Hnone.
    { intros c Hit%in_table_live. revert Hit.
      eapply expires_loop; [apply advance_fuel_measure| | | | |exact H].
      - intros tk t (p & _ & -> & ->)%Htim. done.
      - intros w Hin. rewrite Hw in Hin. by apply elem_of_nil in Hin.
      - intros ob' Hob'. apply cnt_NoDup. by destruct (Hlocks _ _ Hob') as (_ & _ & _ & ? & _).
      - destruct (st_timers s1 !! tkey (cl_name c) (cl_key c)) as [t|] eqn:Ht.
        + left. exists t. split; [done|]. destruct (Htim _ _ Ht) as (p & _ & _ & ->). cbn. lia.
        + right. split; [|done]. intros (ob' & Hob' & Hk). destruct (Hlocks _ _ Hob') as (ob & _ & _ & _ & Hkeys).
          specialize (Hkeys _ Hk). apply elem_of_list_In, in_map_iff in Hkeys as (q & Eq & Hq%elem_of_list_In).
          destruct (Hdone _ Hq) as [_ Ht']. rewrite Eq in Ht'. cbn [cl_name cl_key] in Ht'. congruence. }
    split; [done|]. split; [lia|]. split_and!; [intros c Hc; by destruct (Hnone c)|lia|done].
Qed.

Lemma C10_restore : T_C10_restore.
Proof. intros cfg s order s' o _ HI Hf H. by apply (restart_spec cfg s order). Qed.
