(** EUnlock, ERenew, ECancel, EShutdown and EIpcUnlock by key against the oracle (work package trackp). *)
From Coq Require Import Lia ZifyBool ZifyNat String Sorted.
From Ldlm Require Import Model.Base Model.Err Model.Seq Model.Track Proofs.SeqDefs Proofs.SeqLemmasKey Proofs.SeqInvBase
  Proofs.SeqInvOps Proofs.SeqInvTime Proofs.SeqInv Proofs.SeqTimeBase Proofs.SeqTime1
  Proofs.TrackPBase Proofs.TrackPOrder Proofs.TrackPRel Proofs.TrackPStep Proofs.TrackPTR Proofs.TrackPProbe Proofs.TrackPAcq.
From RecordUpdate Require Import RecordSet.
Import RecordSetNotations.
Local Open Scope Z_scope.

Lemma sorted_same_time (cs : list (nat * Z * resp)) a : (∀ c, c ∈ cs → c_at c = a) → StronglySorted (λ x y, c_at x ≤ c_at y) cs.
Proof.
  induction cs as [|c cs IH]; intros H; constructor.
  - apply IH. intros; apply H; by right.
  - apply Forall_forall. intros x Hx. rewrite (H c), (H x); [lia|by right|left].
Qed.

Lemma Inv_STI cfg s : Inv cfg s → STI s [].
Proof. intros HI%Inv_QInv. by destruct HI as ((? & _) & _). Qed.

Lemma comps_resp_tail o r : comps (o ++ [OResp r]) = comps o.
Proof. by rewrite comps_app, app_nil_r. Qed.
Lemma comps_ipc_tail o r e : comps (o ++ [OIpcUnlock r e]) = comps o.
Proof. by rewrite comps_app, app_nil_r. Qed.

Lemma first_resp_tail o r : (∀ x, x ∈ o → ∃ w a r', x = OWaiter w a r') → first_resp (o ++ [OResp r]) = Some r.
Proof.
  intros H. unfold first_resp. rewrite omap_app. simpl.
  assert (omap (λ o0, match o0 with OResp r0 => Some r0 | _ => None end) o = []) as ->; [|done].
  induction o as [|x o IH]; [done|]. simpl. destruct (H x) as (w & a & r' & ->); [left|]. simpl. apply IH. intros; apply H; by right.
Qed.

Lemma Dminus_self p : Dminus p [p] = [].
Proof. unfold Dminus. rewrite filter_cons, decide_False by (by intros ?). done. Qed.

Lemma live_dec s n k : {SeqDefs.live s n k} + {¬ SeqDefs.live s n k}.
Proof.
  unfold SeqDefs.live. destruct (st_locks s !! n) as [o|] eqn:E.
  - destruct (decide (k ∈ lo_keys o)); [left; eauto|right]. intros (o' & ? & ?). by simplify_eq.
  - right. intros (o' & ? & ?). congruence.
Qed.

Section fin.
  Context (X : nat → string → Prop) (cfg : config) (i : nat).

  (** from the tracker after the completions in emission order to the oracle's own [t_completions] *)
  Lemma finish_event cause s' outs t0 L T W U D :
    LR s' [] (done_list cfg i cause (comps outs) t0) → fails_ok X (done_list cfg i cause (comps outs) t0) →
    (∀ c, c ∈ comps outs → c_at c = st_now s' ∧ rlock c) → NoDup (c_wid <$> comps outs) →
    TI L T W U D → Forall2 WR W (t_waiters t0) →
    ef (st_now s') (t_holds t0) = t_holds t0 → t_now t0 = st_now s' → t_pending t0 = [] →
    TR X cfg s' (t_completions cfg i cause outs t0).
  Proof.
    intros HL HX Hc Hnd HT HW Ea En Ep.
    eapply TR_transfer; [|apply t_completions_transfer].
    - apply (LR_TR X cfg s' _ HL); [| | |exact HX].
      + apply (ef_done_list X); [intros c Hcc; by apply Hc|done].
      + by rewrite done_list_now.
      + by rewrite done_list_pending.
    - apply (sorted_same_time _ (st_now s')). intros c Hcc. by apply Hc.
    - done.
    - intros c Hcc. by apply Hc.
  Qed.

  (** ** srv_unlock of a live pair *)
  Lemma srv_unlock_live_ok cause n k s s' u e o outs t :
    Inv cfg s → st_shut s = false → TR X cfg s t → SeqDefs.live s n k →
    srv_unlock cfg n k s = (s', (u, e), o) → comps outs = comps o →
    u = true ∧ e = None ∧ (∀ x, x ∈ o → ∃ w key, x = OWaiter w (st_now s) (RLock true key None) ∧ key ≠ k) ∧
    TR X cfg s' (t_completions cfg i cause outs (drop_hold n k t)).
  Proof.
    intros HI Hsh HT Hlive Hu Hco. pose proof (Inv_STI _ _ HI) as HTI.
    pose proof (TR_LR _ _ _ _ HI Hsh HT) as HL. pose proof (TR_alive _ _ _ _ HI Hsh HT) as Hal.
    unfold srv_unlock in Hu.
    set (s0 := s <| st_timers := delete (tkey n k) (st_timers s) |>) in *.
    destruct (mgr_unlock cfg n k s0) as [[s1 r] o1] eqn:Hm.
    (* the tracker writes the hold off *)
    assert (ef (st_now s) (t_holds (drop_hold n k t)) = t_holds (drop_hold n k t)) as Hal'.
    { simpl. unfold ef. rewrite lfilter_comm. fold (ef (st_now s) (t_holds t)). by rewrite Hal. }
    assert (LR s0 [(n, k)] (drop_hold n k t)) as HL0.
    { destruct HL as (HH & HW & HK). eapply (LR_frame s).
      - split; [|split; [exact HW|exact HK]]. rewrite Hal'. rewrite Hal in HH. simpl.
        eapply HR_doom; [exact HH|..].
        + intros h _ Hf. apply negb_false_iff, andb_true_iff in Hf as [?%bool_decide_eq_true ?%bool_decide_eq_true].
          apply elem_of_list_singleton. unfold hkey. congruence.
        + intros h _ Hf [= En Ek]%elem_of_list_singleton. rewrite En, Ek, !bool_decide_eq_true_2 in Hf by done. done.
        + by intros d ?%elem_of_nil.
        + intros n' k' [= -> ->]%elem_of_list_singleton. done.
      - done.
      - done.
      - done.
      - done.
      - eauto.
      - intros h Hh. rewrite Hal' in Hh. simpl in Hh. apply elem_of_lfilter in Hh as [Hf _]. unfold tdl. simpl.
        rewrite lookup_delete_ne; [done|]. intros [En Ek]%tkey_inj. rewrite <- En, <- Ek, !bool_decide_eq_true_2 in Hf by done. done. }
    assert (STI s0 []) as HTI0 by (by apply TI_timer_delete).
    destruct (mgr_unlock_LR cfg i cause X n k s0 s1 r o1 [(n, k)] (drop_hold n k t) Hm HTI0) as
      (-> & HL1 & HX1 & En1 & Hnl1 & Hcs & _ & Hnd & _); [left|done|exact (tr_fail _ _ _ _ HT)|exact (tr_pending _ _ _ _ HT)|].
    injection Hu as <- <- <- <-. rewrite Dminus_self in HL1. split; [done|]. split; [done|]. split.
    { intros x Hx. destruct Hlive as (ob & Hob & Hk).
      eapply mgr_unlock_live in Hm as [_ [[-> _]|(w & rest & Hw & _ & -> & _)]]; [by apply elem_of_nil in Hx| |exact Hob|exact Hk].
      apply elem_of_list_singleton in Hx as ->. exists (w_id w), (w_key w). split; [done|].
      apply name_waiters_cons in Hw as [Hw _]. destruct (ti_used_waiters _ _ _ _ _ HTI w Hw) as [_ Hdead].
      intros E. apply (Hdead n). exists ob. by rewrite E. }
    eapply (finish_event cause (remove_lock_entry cfg n k s1) outs (drop_hold n k t)); rewrite ?Hco.
    - eapply LR_cleanup; [exact HL1|exact Hnl1|by rewrite rle_locks|by rewrite rle_waiters|by rewrite rle_now|by rewrite rle_used|by right|left; by rewrite rle_timers].
    - done.
    - intros c Hc. destruct (Hcs c Hc) as (? & ? & _). rewrite rle_now, En1. done.
    - done.
    - exact HTI.
    - apply (tr_waiters _ _ _ _ HT).
    - by rewrite rle_now, En1.
    - rewrite rle_now, En1. apply (tr_now _ _ _ _ HT).
    - apply (tr_pending _ _ _ _ HT).
  Qed.

  (** ** srv_unlock of a dead pair: refused, nothing changes for the oracle *)
  Lemma srv_unlock_dead_ok n k s s' u e o t :
    Inv cfg s → TR X cfg s t → ¬ SeqDefs.live s n k →
    srv_unlock cfg n k s = (s', (u, e), o) →
    u = false ∧ o = [] ∧ TR X cfg s' t ∧
    (e = Some ELockInvalidLockKey ∨ e = Some ELockDoesNotExist ∧ st_locks s !! n = None).
  Proof.
    intros HI HT Hnl Hu. unfold srv_unlock, mgr_unlock in Hu. cbn [st_locks set] in Hu.
    assert (st_timers s !! tkey n k = None) as Hnt.
    { destruct (st_timers s !! tkey n k) as [tm|] eqn:Et; [|done].
      destruct (inv_timers _ _ HI _ _ Et) as (E & _ & Hl). apply tkey_inj in E as [E1 E2]. by rewrite <- E1, <- E2 in Hl. }
    assert (delete (tkey n k) (st_timers s) = st_timers s) as Hdel by (by apply delete_notin).
    destruct (st_locks s !! n) as [ob|] eqn:Ho.
    - rewrite bool_decide_eq_false_2 in Hu by (intros Hk; apply Hnl; by exists ob).
      injection Hu as <- <- <- <-. split_and!; [done|done| |by left].
      destruct HT as [H1 H2 H3 H4 H5]. split; simpl; try done. rewrite Hdel.
      eapply HR_change; [exact H3|..]; try done.
      + intros h Hh. split; [apply intab_touch; [done|]; by apply (hr_tab _ _ _ _ _ _ H3)|apply not_elem_of_nil].
      + intros c Hc%intab_touch; [|done]. right. split; [done|apply not_elem_of_nil].
      + eauto.
      + by intros ? ? ?%elem_of_nil.
    - injection Hu as <- <- <- <-. split_and!; [done|done| |by right].
      destruct HT as [H1 H2 H3 H4 H5]. split; simpl; try done. by rewrite Hdel.
  Qed.

  Lemma track_unlock_ok sid n k s s' u e o t :
    Inv cfg s → st_shut s = false → TR X cfg s t →
    srv_unlock cfg n k s = (s', (u, e), o) →
    TR X cfg s' (track_step0 cfg i (EUnlock sid n k) (o ++ [OResp (RUnlock u e)]) t).
  Proof.
    intros HI Hsh HT Hu. simpl. destruct (live_dec s n k) as [Hl|Hl].
    - destruct (TR_live_some _ _ _ _ HT _ _ Hl) as (h & Hlh & _).
      edestruct (srv_unlock_live_ok None n k s s' u e o (o ++ [OResp (RUnlock u e)]) t) as (-> & -> & Ho & HT');
        [done..|apply comps_resp_tail|].
      rewrite first_resp_tail by (intros x Hx; destruct (Ho x Hx) as (w & key & -> & _); eauto). unfold t_unlock. simpl. rewrite Hlh. exact HT'.
    - destruct (srv_unlock_dead_ok n k s s' u e o t HI HT Hl Hu) as (-> & -> & HT' & He). simpl.
      unfold t_unlock. simpl. rewrite ?live_flag, (TR_live_none _ _ _ _ HT _ _ Hl). simpl.
      assert (bool_decide (e = None) = false) as E1 by (destruct He as [->|[-> _]]; done).
      rewrite E1. simpl.
      rewrite (flag_true _ "C14:wrong-unlock-error").
      2:{ destruct (known_size n t) as [ks|] eqn:Ek.
          - destruct He as [->|[-> Hn]]; [done|]. destruct (TR_known_size _ _ _ _ HI HT _ _ Ek) as (? & ? & _). congruence.
          - destruct He as [->|[-> _]]; done. }
      unfold t_completions. simpl. done.
  Qed.

  (** ** EIpcUnlock by name and key *)
  Lemma track_ipc_key_ok n k s s' o t :
    Inv cfg s → st_shut s = false → TR X cfg s t →
    ipc_unlock_with cfg n k s = (s', o) →
    TR X cfg s' (track_step0 cfg i (EIpcUnlock n (Some k)) o t).
  Proof.
    intros HI Hsh HT Hu. unfold ipc_unlock_with in Hu. destruct (srv_unlock cfg n k s) as [[s1 [u e]] o1] eqn:Hs.
    simpl. destruct (live_dec s n k) as [Hl|Hl].
    - destruct (TR_live_some _ _ _ _ HT _ _ Hl) as (h & Hlh & _).
      assert (comps o = comps o1) as Hco by (destruct e; injection Hu as <- <-; apply comps_ipc_tail).
      edestruct (srv_unlock_live_ok None n k s s1 u e o1 o t) as (-> & -> & Ho & HT'); [done..|].
      injection Hu as <- <-.
      assert (head (omap (λ o0, match o0 with OIpcUnlock r e => Some (r, e) | _ => None end) (o1 ++ [OIpcUnlock (Some true) None]))
              = Some (Some true, None)) as ->.
      { rewrite omap_app. simpl. clear -Ho. induction o1 as [|x o1 IH]; [done|]. simpl.
        destruct (Ho x) as (w & key & -> & _); [left|]. simpl. apply IH. intros; apply Ho; by right. }
      rewrite Hlh. rewrite flag_true by done. simpl. exact HT'.
    - destruct (srv_unlock_dead_ok n k s s1 u e o1 t HI HT Hl Hs) as (-> & -> & HT' & He).
      assert (∃ e', e = Some e') as [e' ->] by (destruct He as [->|[-> _]]; eauto).
      injection Hu as <- <-. simpl. rewrite (TR_live_none _ _ _ _ HT _ _ Hl). rewrite ?flag_true by done. exact HT'.
  Qed.

  (** ** ECancel *)
  Lemma cancel_waiters_ok p s s' o t D0 D :
    STI s D0 → LR s D t → fails_ok X t →
    cancel_waiters p ECtxCanceled s = (s', o) →
    LR s' D (done_list cfg i (Some ECtxCanceled) (comps o) t) ∧ fails_ok X (done_list cfg i (Some ECtxCanceled) (comps o) t) ∧
    st_locks s' = st_locks s ∧ st_sessions s' = st_sessions s ∧ st_timers s' = st_timers s ∧ st_now s' = st_now s ∧
    st_file s' = st_file s ∧ st_gc_next s' = st_gc_next s ∧ st_used s' = st_used s ∧ st_shut s' = st_shut s ∧
    st_waiters s' = filter (λ w', w_id w' ∉ w_id <$> filter (λ w, p w = true) (st_waiters s)) (st_waiters s) ∧
    (∀ c, c ∈ comps o → c_at c = st_now s ∧ rlock c ∧ c_wid c ∈ w_id <$> filter (λ w, p w = true) (st_waiters s) ∧ is_grant (c_resp c) = false) ∧
    NoDup (c_wid <$> comps o).
  Proof.
    intros HT HL HX Hc. unfold cancel_waiters in Hc.
    change (λ '(s, outs) w, let '(s', o) := waiter_leave w ECtxCanceled s in (s', outs ++ o)) with (leave_step ECtxCanceled) in Hc.
    pose proof (leave_fold_LR cfg i (Some ECtxCanceled) X ECtxCanceled (filter (λ w, p w = true) (st_waiters s)) s [] t D) as H.
    rewrite Hc in H. destruct H as (o' & -> & H); try done.
    - apply (ti_ids _ _ _ _ _ HT).
    - apply NoDup_fmap_filter, (ti_ids _ _ _ _ _ HT).
    - by intros w [_ ?]%elem_of_list_filter.
  Qed.

  Lemma track_cancel_ok wid s s' o t :
    Inv cfg s → st_shut s = false → TR X cfg s t →
    cancel_waiters (λ w, bool_decide (w_id w = wid)) ECtxCanceled s = (s', o) →
    TR X cfg s' (track_step0 cfg i (ECancel wid) o t).
  Proof.
    intros HI Hsh HT Hc. simpl. pose proof (Inv_STI _ _ HI) as HTI.
    destruct (cancel_waiters_ok _ s s' o t [] [] HTI (TR_LR _ _ _ _ HI Hsh HT) (tr_fail _ _ _ _ HT) Hc)
      as (HL & HX & _ & _ & _ & En & _ & _ & _ & _ & _ & Hcs & Hnd).
    eapply (finish_event _ s' o t _ _ _ _ _ HL HX _ Hnd HTI (tr_waiters _ _ _ _ HT)).
    - rewrite En. by eapply TR_alive.
    - rewrite En. apply (tr_now _ _ _ _ HT).
    - apply (tr_pending _ _ _ _ HT).
    Unshelve. intros c Hcc. destruct (Hcs c Hcc) as (? & ? & _). by rewrite En.
  Qed.

  (** ** EShutdown *)
  Lemma track_shutdown_ok s s' o t :
    Inv cfg s → st_shut s = false → TR X cfg s t →
    shutdown cfg s = (s', o) →
    TR X cfg s' (track_step0 cfg i EShutdown o t).
  Proof.
    intros HI Hsh HT Hs. simpl. pose proof (Inv_STI _ _ HI) as HTI. unfold shutdown in Hs.
    destruct (cancel_waiters _ _ _) as [s1 o1] eqn:Hc. injection Hs as <- <-.
    pose proof (TR_LR _ _ _ _ HI Hsh HT) as HL0.
    change (LR s [] t) with (LR (s <| st_shut := true |>) [] t) in HL0.
    pose proof HTI as HTI'. change (STI s []) with (STI (s <| st_shut := true |>) []) in HTI'.
    destruct (cancel_waiters_ok _ (s <| st_shut := true |>) s1 o1 t [] [] HTI' HL0 (tr_fail _ _ _ _ HT) Hc)
      as (HL & HX & _ & _ & _ & En & _ & _ & _ & Es & _ & Hcs & Hnd). simpl in En, Es.
    assert (TR X cfg s1 (t_completions cfg i (Some ECtxCanceled) o1 t)) as [H1 H2 H3 H4 H5].
    { assert (∀ c, c ∈ comps o1 → c_at c = st_now s1 ∧ rlock c) as Hcs'.
      { intros c Hcc. destruct (Hcs c Hcc) as (? & ? & _). by rewrite En. }
      eapply (finish_event _ s1 o1 t _ _ _ _ _ HL HX Hcs' Hnd HTI (tr_waiters _ _ _ _ HT)).
      - rewrite En. by eapply TR_alive.
      - rewrite En. apply (tr_now _ _ _ _ HT).
      - apply (tr_pending _ _ _ _ HT). }
    split; simpl; try done.
    eapply HR_change; [exact H3|..]; try done.
    - intros h Hh. by apply (hr_tab _ _ _ _ _ _ H3).
    - intros c Hc'. right. split; [done|apply not_elem_of_nil].
    - eauto.
    - rewrite Es. done.
    - by intros ? ? ?%elem_of_nil.
  Qed.
End fin.
