(** C19, several holds: outside F-RENEWMAP every hold keeps its own guarantees under its own hypotheses. *)
From Ldlm Require Import Model.Base Model.Err Model.Seq Model.Client Gen.Consts.
From Ldlm Require Import Proofs.ClientSrvDefs Proofs.ClientInvDefs Proofs.ClientP Proofs.ClientBasic Proofs.ClientStop Proofs.ClientAlive.
Local Open Scope Z_scope.

Lemma multi_holds_outside : ∀ cc sched,
  cc_noauto cc = false → wf_sched cc sched = true → excluded_renewmap cc sched = false →
  let st := run cc sched in
  no_twin st ∧
  (∀ j, cs_crashed st ≠ Some (CrOutOfSync j)) ∧
  (∀ j h, timely cc j sched = true →
     cs_holds st !! j = Some h → h_locked h = true → client_MinRenewSeconds < h_T h → h_unl h = false → cs_closed st = false →
     cs_crashed st ≠ Some (CrRenewFailed j) ∧ cs_crashed st ≠ Some (CrSendClosed j) ∧
     (cs_crashed st = None → lease_ok st j = true ∧ held st j = true)) ∧
  (excluded_stopdrop cc sched = false → ∀ j, p_stop j (cs_trace st) = true).
Proof.
  intros cc sched Ha Hwf Hr st.
  destruct (t_no_twin cc sched Ha Hwf Hr) as [Hnt Hoos].
  split; [exact Hnt|]. split; [exact Hoos|]. split.
  - intros j h Ht Hh Hl HT Hu Hc.
    destruct (t_alive cc sched j h Ha Hwf Hr Ht Hh Hl HT Hu Hc) as (A & B & C).
    split; [exact A|]. split; [exact B|]. intros Hcr.
    destruct (C Hcr) as (r & _ & _ & L & H'). split; assumption.
  - intros Hs j. exact (proj1 (t_stop cc sched j Hwf Hs)).
Qed.
Print Assumptions multi_holds_outside.
