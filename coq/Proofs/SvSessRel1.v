(** Session end releases every hold of the session, part 1: holds that are "gone" (not live, or their expiry callback is
    about to release them) stay gone; expiry callbacks and Unlock calls past their release step. Work package svsess. *)
From Coq Require Import Lia ZifyBool ZifyNat.
From Ldlm Require Import Model.Base Model.Err Model.Sv Proofs.SvDefs Proofs.SeqLemmasKey
  Proofs.SvSessBase Proofs.SvSessThr Proofs.SvSessLk Proofs.SvSessDs Proofs.SvSessSe.
From RecordUpdate Require Import RecordSet.
Import RecordSetNotations.
Local Open Scope Z_scope.

Definition gone (s : svstate) (n k : str) : Prop := ¬ slive s n k ∨ expiry_pending s n k.

Lemma item_run_dec (it : sitem) (x : nat) : it = VRun x ∨ it ≠ VRun x.
Proof. destruct it as [| tid | | | | |]; try (by right). destruct (decide (tid = x)) as [->|]; [by left|right; congruence]. Qed.

(** ** a release really frees the key *)
Lemma rel_state_not_live cfg s tid n k a : SvInv cfg s → v_locks s !! n = Some a → k ∈ al_live a →
  ¬ live_in (v_locks (rel_state tid n k a s)) n k.
Proof.
  intros HI Ha Hk. destruct (rel_state_locks tid n k a s) as (a' & -> & Hl & _). rewrite live_in_insert.
  destruct (vi_cap _ _ HI n a Ha) as (_ & _ & Hnd & _).
  intros [[_ Hin]|[? _]]; [|done].
  destruct Hl as [[Hl _]|(w & q' & Hq & Hl & _)]; rewrite Hl in Hin; [by eapply not_elem_of_remove_first|].
  apply elem_of_app in Hin as [Hin|Hin%elem_of_list_singleton]; [by eapply not_elem_of_remove_first|].
  destruct (proj1 (vi_queue _ _ HI n a w Ha)) as (tw & sid & kw & z & lt & Htw & Hop & Hpc); [rewrite Hq; left|].
  rewrite (key_of_thr_lock _ _ _ _ _ _ _ _ Htw Hop) in Hin. subst kw.
  destruct (vi_live_owner _ _ HI n k) as (tid' & t' & sid' & z' & Ht' & Hacq & Hpc'); [by exists a|].
  assert (tid' = w) as -> by (eapply acquirer_unique; eauto; exists lt; by right).
  simplify_eq. rewrite Hpc in Hpc'. naive_solver.
Qed.

(** the three callers of lockMgr.Unlock *)
Definition unlock_kind (s : svstate) (t : sthread) (n k : str) : Prop :=
  (st_op t = SUnlock n k ∧ st_pc t = VMgrUnlock) ∨
  (∃ id tm, st_op t = SExpire id ∧ st_pc t = VCbUnlock ∧ v_theap s !! id = Some tm ∧ tm_n tm = n ∧ tm_k tm = k) ∨
  (∃ sid c rest, st_op t = SConnEnd sid ∧ st_pc t = VDsUnlock c rest ∧ cl_name c = n ∧ cl_key c = k).

Lemma unlock_kind_locks cfg s tid t n k : unlock_kind s t n k →
  v_locks (vrun_thread cfg tid t s) = v_locks (mgr_unlock tid n k s).1.
Proof.
  destruct t as [op pc cn]. unfold vrun_thread, unlock_kind. cbn [st_pc st_op st_cancel].
  intros [[-> ->]|[(id & tm & -> & -> & Hh & <- & <-)|(sid & c & rest & -> & -> & <- & <-)]].
  - destruct (mgr_unlock tid n k s) as [s1 r]. simpl. case_match; unfold vfinish; by autorewrite with svframe.
  - rewrite Hh. by autorewrite with svframe.
  - by autorewrite with svframe.
Qed.

Lemma unlock_step_not_live cfg s tid t n k : SvInv cfg s → v_thr s !! tid = Some t → unlock_kind s t n k →
  v_mgrshut s = false → ¬ slive (vstep cfg s (VRun tid)) n k.
Proof.
  intros HI Ht Hk Hsh. rewrite (vstep_run_lookup cfg s tid t (vi_not_crashed _ _ HI) Ht).
  rewrite slive_live_in, (unlock_kind_locks cfg s tid t n k Hk).
  destruct (mgr_unlock_cases tid n k s) as [(-> & _ & Hnl)|(a & _ & Ha & Hin & ->)]; [by apply Hnl|].
  simpl. by eapply rel_state_not_live.
Qed.

(** ** a key that is not live stays so once its call is past the grant *)
Lemma not_live_step cfg s it n k : SvInv cfg s → ¬ slive s n k →
  (∃ tid t sid z, v_thr s !! tid = Some t ∧ acquirer t sid n k z ∧ post_grant (st_pc t)) →
  ¬ slive (vstep cfg s it) n k.
Proof.
  intros HI Hnl (tid & t & sid & z & Ht & Hacq & Hpg) Hl.
  apply (vstep_live_new cfg s it n k HI) in Hl as [Hl|(tid0 & t0 & sid0 & z0 & Ht0 & Hacq0 & Hpre)]; [done|].
  assert (tid0 = tid) as -> by (eapply acquirer_unique; eauto). simplify_eq.
  destruct Hpre as [Hq|[Hq|Hq]]; destruct Hpg as [Hq'|[Hq'|[Hq'|[r Hq']]]]; congruence.
Qed.

(** ** expiry callbacks past their unlock step *)
Definition XInv (s : svstate) : Prop := v_mgrshut s = false →
  ∀ x t id tm, v_thr s !! x = Some t → st_op t = SExpire id → v_theap s !! id = Some tm → st_pc t ≠ VCbUnlock →
  ¬ slive s (tm_n tm) (tm_k tm).

Lemma timer_owner_post_grant cfg s id tm : SvInv cfg s → v_theap s !! id = Some tm →
  ∃ tid t sid z, v_thr s !! tid = Some t ∧ acquirer t sid (tm_n tm) (tm_k tm) z ∧ post_grant (st_pc t).
Proof.
  intros HI Hh. destruct (vi_tm_heap _ _ HI id tm Hh) as (_ & tid & t & sid & z & Ht & Hacq & _ & r & Hpc).
  exists tid, t, sid, z. split_and!; [done..|]. unfold post_grant. eauto.
Qed.

Lemma x_inv_step cfg s it : SvInv cfg s → SvInv cfg (vstep cfg s it) → XInv s → XInv (vstep cfg s it).
Proof.
  intros HI HI' IH Hsh' x t' id tm' Hx' Hop Hh' Hpc'. pose proof (vstep_mgrshut cfg s it Hsh') as Hsh.
  pose proof (vstep_heap cfg s it id HI) as Hheap. rewrite Hh' in Hheap.
  destruct (v_theap s !! id) as [tm|] eqn:Hh; simpl in Hheap.
  2: { destruct Hheap as [d Hd]. assert (tm_st tm' = TFired) as Hf by (apply (vi_tm_fired _ _ HI' id tm' Hh'); eauto). congruence. }
  destruct Hheap as (-> & -> & _).
  destruct (vstep_thr_back cfg s it x t' HI Hx') as [[_ [Hfp _]]|(t & Hx & Hop' & _ & Hcase)].
  { rewrite Hop in Hfp. simpl in Hfp. congruence. }
  rewrite Hop in Hop'. symmetry in Hop'.
  destruct (decide (st_pc t = VCbUnlock)) as [Hcb|Hncb].
  - destruct Hcase as [->|[Hsame|[Hw _]]]; [|congruence..].
    eapply unlock_step_not_live; [done|exact Hx| |done]. right; left. eauto 8.
  - eapply not_live_step; [done|by eapply IH|by eapply timer_owner_post_grant].
Qed.

(** ** "gone" is stable *)
Lemma gone_step cfg s it n k : SvInv cfg s → v_mgrshut s = false → gone s n k →
  (∃ tid t sid z, v_thr s !! tid = Some t ∧ acquirer t sid n k z ∧ post_grant (st_pc t)) →
  gone (vstep cfg s it) n k.
Proof.
  intros HI Hsh [Hnl|(x & t & id & tm & Hx & Hop & Hpc & Hh & <- & <-)] Hacq; [left; by eapply not_live_step|].
  destruct (item_run_dec it x) as [->|Hne].
  - left. eapply unlock_step_not_live; [done|exact Hx| |done]. right; left. eauto 8.
  - right. destruct (vstep_thr_other cfg s it x t HI Hne Hx) as (t' & Hx' & Hop' & Hpc').
    pose proof (vstep_heap cfg s it id HI) as Hheap. rewrite Hh in Hheap.
    destruct (v_theap (vstep cfg s it) !! id) as [tm'|] eqn:Hh'; [|done]. destruct Hheap as (Hn & Hk & _).
    exists x, t', id, tm'. split_and!; [done|congruence| |done..].
    destruct Hpc' as [?|[? _]]; congruence.
Qed.

(** a lease timer found already fired: its callback releases (or has released) the hold *)
Lemma not_stopped_gone cfg s n k : SvInv cfg s → XInv s → v_mgrshut s = false →
  (tm_remove (tkey n k) s).2 = false → gone s n k.
Proof.
  intros HI HX Hsh. unfold tm_remove. destruct (v_timers s !! tkey n k) as [id|] eqn:Htk; [|done].
  destruct (vi_tm_entry _ _ HI _ _ Htk) as (tm & Hh & Heq & Hns & _). rewrite Hh.
  apply tkey_inj in Heq as [-> ->].
  destruct (tm_st tm) eqn:Hst; [done|done|]. intros _.
  destruct (proj1 (vi_tm_fired _ _ HI id tm Hh) Hst) as (y & ty & Hy & Hopy).
  destruct (decide (st_pc ty = VCbUnlock)) as [Hcb|Hncb].
  - right. exists y, ty, id, tm. done.
  - left. by eapply HX.
Qed.

(** ** Unlock calls past their release step *)
Lemma unlock_self_step cfg s x t n k t' : v_thr s !! x = Some t → st_op t = SUnlock n k →
  v_thr (vrun_thread cfg x t s) !! x = Some t' → st_pc t' = VSessRemove →
  st_pc t = VSessRemove ∨ st_pc t = VMgrUnlock ∨ (st_pc t = VTmRemove ∧ (tm_remove (tkey n k) s).2 = false).
Proof.
  intros Hx Hop. destruct t as [op pc cn]. simpl in Hop. subst op. unfold vrun_thread. cbn [st_pc st_op st_cancel].
  destruct pc; try (rewrite Hx; intros [=]; subst t'; simpl; eauto; fail).
  all: unfold vfinish; repeat case_match; subst; pair_norm; rewrite ?vemit_v_thr, ?vset_pc_lookup, ?decide_True by done.
  all: try (intros (t0 & _ & ->)%fmap_Some; simpl; intros [=]; fail).
  all: eauto.
Qed.

Definition UInv (s : svstate) : Prop := v_mgrshut s = false →
  ∀ x t n k, v_thr s !! x = Some t → st_op t = SUnlock n k → st_pc t = VSessRemove →
  (∃ tid' t' sid z, v_thr s !! tid' = Some t' ∧ acquirer t' sid n k z) → gone s n k.

Lemma u_inv_step cfg s it : SvInv cfg s → SvInv cfg (vstep cfg s it) → XInv s → UInv s → UInv (vstep cfg s it).
Proof.
  intros HI HI' HX IH Hsh' x t' n k Hx' Hop Hpc' (tid2 & t2' & sid & z & Ht2' & Hacq2').
  pose proof (vstep_mgrshut cfg s it Hsh') as Hsh.
  (* the Unlock call existed before *)
  destruct (vstep_thr_back cfg s it x t' HI Hx') as [[_ [Hfp _]]|(t & Hx & Hop' & _ & Hcase)].
  { rewrite Hop in Hfp. simpl in Hfp. congruence. }
  rewrite Hop in Hop'. symmetry in Hop'.
  (* so did the acquisition call, and its grant was delivered *)
  assert (∃ t2, v_thr s !! tid2 = Some t2 ∧ acquirer t2 sid n k z) as (t2 & Ht2 & Hacq2).
  { destruct (vstep_thr_back cfg s it tid2 t2' HI Ht2') as [[_ [Hfp _]]|(t2 & Ht2 & Hop2 & _)].
    - exfalso. destruct Hacq2' as [lt Hacq2'].
      assert (delivered (vstep cfg s it) k) as (tid0 & t0 & sid0 & n0 & z0 & Ht0 & Hacq0 & Hpc0 & _).
      { eapply (vi_presented _ _ HI' x t' k Hx'); [by rewrite Hop|by rewrite Hop|exact Ht2'| |]; by destruct Hacq2' as [-> | ->]. }
      assert (tid0 = tid2) as -> by (eapply (acquirer_unique cfg (vstep cfg s it)); eauto; by exists lt). simplify_eq.
      rewrite Hpc0 in Hfp. destruct Hacq2' as [Ho|Ho]; rewrite Ho in Hfp; done.
    - exists t2. split; [done|]. unfold acquirer in *. by rewrite <- Hop2. }
  assert (Hpg : post_grant (st_pc t2)).
  { destruct Hacq2 as [lt Hacq2].
    assert (delivered s k) as (tid0 & t0 & sid0 & n0 & z0 & Ht0 & Hacq0 & Hpc0 & _).
    { eapply (vi_presented _ _ HI x t k Hx); [by rewrite Hop'|by rewrite Hop'|exact Ht2| |]; by destruct Hacq2 as [-> | ->]. }
    assert (tid0 = tid2) as -> by (eapply (acquirer_unique cfg s); eauto; by exists lt). simplify_eq.
    rewrite Hpc0. unfold post_grant. eauto. }
  assert (Hown : ∃ tid t sid z, v_thr s !! tid = Some t ∧ acquirer t sid n k z ∧ post_grant (st_pc t)) by eauto 8.
  destruct (decide (st_pc t = VSessRemove)) as [Hsr|Hnsr].
  { eapply gone_step; [done|done| |exact Hown]. eapply (IH Hsh x t n k Hx Hop' Hsr). exists tid2, t2, sid, z. done. }
  destruct Hcase as [->|[Hsame|[_ Hw]]]; [|congruence..].
  rewrite (vstep_run_lookup cfg s x t (vi_not_crashed _ _ HI) Hx) in Hx'.
  destruct (unlock_self_step cfg s x t n k t' Hx Hop' Hx' Hpc') as [?|[Hmu|[Htr Hns]]]; [done| |].
  - left. eapply unlock_step_not_live; [done|exact Hx|by left|done].
  - eapply gone_step; [done|done| |exact Hown]. by eapply not_stopped_gone.
Qed.
