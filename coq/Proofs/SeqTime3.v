(** Session end with clearing (C06_clear) and the frame facts for unlock-like steps used by
    C04_only_ends_by. Work package seqtime. *)
From Coq Require Import Lia ZifyBool ZifyNat.
From Ldlm Require Import Model.Base Model.Err Model.Seq Proofs.SeqDefs Proofs.SeqLemmasKey Proofs.SeqTargets.
From Ldlm Require Import Proofs.SeqTimeBase Proofs.SeqTime1 Proofs.SeqTime2.
From RecordUpdate Require Import RecordSet.
Import RecordSetNotations.
Local Open Scope Z_scope.

(** ** One step of DestroySession's loop *)

Definition dstep (cfg : config) : sstate * list out → clock → sstate * list out :=
  λ '(s, outs) c,
    match mgr_unlock cfg (cl_name c) (cl_key c) s with
    | (s', inr _, o) => (s' <| st_timers := delete (tkey (cl_name c) (cl_key c)) (st_timers s') |>, outs ++ o)
    | (s', inl _, o) => (s', outs ++ o)
    end.

Lemma dstep_spec cfg s1 outs c s2 outs2 : dstep cfg (s1, outs) c = (s2, outs2) →
  ∃ x o, unlock_shape (cl_name c) (cl_key c) (st_locks s1) (st_waiters s1) (st_now s1) s2 x o ∧ outs2 = outs ++ o ∧
    st_sessions s2 = match x with Some w => grant_sessions (cl_name c) w (st_sessions s1) | None => st_sessions s1 end ∧
    let T := match x with Some w => grant_timers (st_now s1) (cl_name c) w (st_timers s1) | None => st_timers s1 end in
    (st_timers s2 = T ∨ st_timers s2 = delete (tkey (cl_name c) (cl_key c)) T) ∧
    (liveL (st_locks s1) (cl_name c) (cl_key c) → st_timers s2 = delete (tkey (cl_name c) (cl_key c)) T).
Proof.
  unfold dstep. destruct (mgr_unlock _ _ _ _) as [[s' r] o] eqn:Hm.
  apply mgr_unlock_spec in Hm as (x & Hs & _ & _ & _ & _ & Ht & Hse & _ & Hr).
  destruct r as [e|u]; intros [= <- <-]; exists x, o; cbn.
  - split; [done|]. split; [done|]. split; [done|]. split; [by left|].
    intros (ob & Hob & Hk). rewrite Hob in Hr. by rewrite bool_decide_eq_true_2 in Hr.
  - split; [done|]. split; [done|]. split; [done|]. rewrite Ht. split; [by right|done].
Qed.

Lemma grant_sessions_listed n0 w S sid c : c ≠ Clock n0 (w_key w) (w_size w) →
  (∃ l, grant_sessions n0 w S !! sid = Some l ∧ c ∈ l) ↔ (∃ l, S !! sid = Some l ∧ c ∈ l).
Proof.
  intros Hne. unfold grant_sessions. destruct (decide (sid = w_sid w)) as [->|Hs].
  - rewrite lookup_insert. destruct (S !! w_sid w) as [l0|]; cbn.
    + split; [intros (l & [= <-] & [?|?%elem_of_list_singleton]%elem_of_app); [eauto|done]|].
      intros (l & [= <-] & ?). eexists; split; [done|]. apply elem_of_app; by left.
    + split; [intros (l & [= <-] & ?%elem_of_list_singleton); done|intros (l & ? & _); done].
  - by rewrite lookup_insert_ne.
Qed.

Lemma dstep_waiters_sub cfg s1 outs c s2 outs2 w : dstep cfg (s1, outs) c = (s2, outs2) → w ∈ st_waiters s2 → w ∈ st_waiters s1.
Proof. intros (x & o & Hs & _)%dstep_spec. by eapply unlock_shape_waiters_sub. Qed.

Lemma dstep_sessions cfg s1 outs c s2 outs2 sid : dstep cfg (s1, outs) c = (s2, outs2) →
  (∀ w, w ∈ st_waiters s1 → w_sid w ≠ sid) → st_sessions s2 !! sid = st_sessions s1 !! sid.
Proof.
  intros (x & o & Hs & _ & -> & _)%dstep_spec Hw. destruct x as [w|]; [|done].
  destruct (unlock_shape_granted _ _ _ _ _ _ _ _ w Hs eq_refl) as [Hin _].
  unfold grant_sessions. rewrite lookup_insert_ne; [done|]. by apply Hw.
Qed.

(** the frame: a hold other than the one being released, whose key no parked call carries *)
Lemma dstep_frame cfg s1 outs c s2 outs2 n k : dstep cfg (s1, outs) c = (s2, outs2) →
  no_waiter_key k s1 → (cl_name c, cl_key c) ≠ (n, k) →
  (live s1 n k ↔ live s2 n k) ∧ st_timers s2 !! tkey n k = st_timers s1 !! tkey n k ∧
  (∀ sid sz, listed s2 sid (Clock n k sz) ↔ listed s1 sid (Clock n k sz)) ∧
  (key_once n k s1 → key_once n k s2).
Proof.
  intros (x & o & Hs & _ & Hse & Ht & _)%dstep_spec Hnw Hne.
  assert (∀ w, x = Some w → w_key w ≠ k) as Hxk.
  { intros w ->. destruct (unlock_shape_granted _ _ _ _ _ _ _ _ w Hs eq_refl) as [Hw _]. by apply Hnw. }
  split_and!.
  - split; [intros Hl; eapply shape_live_keep; [exact Hs|congruence|exact Hl]|].
    intros Hl. destruct (shape_live_inv' _ _ _ _ _ _ _ _ _ _ Hs Hl) as [?|(w & Hw & _ & Hk)]; [done|]. by destruct (Hnw w Hw).
  - assert (match x with Some w => grant_timers (st_now s1) (cl_name c) w (st_timers s1) | None => st_timers s1 end !! tkey n k
            = st_timers s1 !! tkey n k) as E.
    { destruct x as [w|]; [|done]. apply grant_timers_lookup_ne. intros [_ E]%tkey_inj. by apply (Hxk w). }
    destruct Ht as [->| ->]; [done|]. rewrite lookup_delete_ne; [done|]. intros [? ?]%tkey_inj. congruence.
  - intros sid sz. unfold listed. rewrite Hse. destruct x as [w|]; [|done]. apply grant_sessions_listed.
    intros [= _ E _]. by apply (Hxk w).
  - intros Honce ob2 Hob2. rewrite (unlock_shape_lookup _ _ _ _ _ _ _ _ n Hs) in Hob2.
    destruct (st_locks s1 !! n) as [ob|] eqn:Hob; [|done]. specialize (Honce _ Hob).
    cbn in Hob2. injection Hob2 as <-. destruct (decide _); [|done]. cbn.
    rewrite cnt_app, cnt_granted_key by done. pose proof (cnt_remove_first_le k (cl_key c) (lo_keys ob)). lia.
Qed.

(** the hold being released *)
Lemma dstep_target cfg s1 outs c s2 outs2 : dstep cfg (s1, outs) c = (s2, outs2) →
  no_waiter_key (cl_key c) s1 → live s1 (cl_name c) (cl_key c) → key_once (cl_name c) (cl_key c) s1 →
  ¬ live s2 (cl_name c) (cl_key c) ∧ st_timers s2 !! tkey (cl_name c) (cl_key c) = None.
Proof.
  intros (x & o & Hs & _ & _ & _ & Ht)%dstep_spec Hnw Hl Honce.
  assert (∀ w, x = Some w → w_key w ≠ cl_key c) as Hxk.
  { intros w ->. destruct (unlock_shape_granted _ _ _ _ _ _ _ _ w Hs eq_refl) as [Hw _]. by apply Hnw. }
  split; [|by rewrite (Ht Hl), lookup_delete].
  intros (ob2 & Hob2 & Hk2). rewrite (unlock_shape_lookup _ _ _ _ _ _ _ _ _ Hs) in Hob2.
  destruct (st_locks s1 !! cl_name c) as [ob|] eqn:Hob; [|done]. specialize (Honce _ Hob).
  cbn in Hob2. injection Hob2 as <-. rewrite decide_True in Hk2 by done. cbn in Hk2.
  apply cnt_zero in Hk2; [done|]. rewrite cnt_app, cnt_granted_key, cnt_remove_first_same by done. lia.
Qed.

(** ** The whole loop *)

Lemma dfold_waiters_sub cfg l : ∀ s1 outs s2 outs2 w,
  fold_left (dstep cfg) l (s1, outs) = (s2, outs2) → w ∈ st_waiters s2 → w ∈ st_waiters s1.
Proof.
  induction l as [|c l IH]; intros s1 outs s2 outs2 w; cbn [fold_left]; [by intros [= <- <-]|].
  destruct (dstep cfg (s1, outs) c) as [s1' outs'] eqn:Hd. intros Hf Hw.
  eapply dstep_waiters_sub; [exact Hd|]. eapply IH; eauto.
Qed.

Lemma dfold_sessions cfg l sid : ∀ s1 outs s2 outs2,
  fold_left (dstep cfg) l (s1, outs) = (s2, outs2) →
  (∀ w, w ∈ st_waiters s1 → w_sid w ≠ sid) → st_sessions s2 !! sid = st_sessions s1 !! sid.
Proof.
  induction l as [|c l IH]; intros s1 outs s2 outs2; cbn [fold_left]; [by intros [= <- <-]|].
  destruct (dstep cfg (s1, outs) c) as [s1' outs'] eqn:Hd. intros Hf Hw.
  rewrite (IH _ _ _ _ Hf); [by eapply dstep_sessions|].
  intros w Hin. eapply Hw, dstep_waiters_sub; eauto.
Qed.

Lemma dfold_frame cfg l n k : ∀ s1 outs s2 outs2,
  fold_left (dstep cfg) l (s1, outs) = (s2, outs2) →
  no_waiter_key k s1 → (∀ c, c ∈ l → (cl_name c, cl_key c) ≠ (n, k)) →
  (live s1 n k ↔ live s2 n k) ∧ st_timers s2 !! tkey n k = st_timers s1 !! tkey n k ∧
  (∀ sid sz, listed s2 sid (Clock n k sz) ↔ listed s1 sid (Clock n k sz)).
Proof.
  induction l as [|c l IH]; intros s1 outs s2 outs2; cbn [fold_left]; [by intros [= <- <-]|].
  destruct (dstep cfg (s1, outs) c) as [s1' outs'] eqn:Hd. intros Hf Hnw Hne.
  destruct (dstep_frame _ _ _ _ _ _ n k Hd Hnw) as (H1 & H2 & H3 & _); [apply Hne; left|].
  destruct (IH _ _ _ _ Hf) as (H1' & H2' & H3').
  { intros w Hw. eapply Hnw, dstep_waiters_sub; eauto. }
  { intros c' Hc'. apply Hne. by right. }
  split_and!; [by rewrite H1|by rewrite H2'|intros; by rewrite H3'].
Qed.

Lemma dfold_targets cfg l : ∀ s1 outs s2 outs2,
  fold_left (dstep cfg) l (s1, outs) = (s2, outs2) →
  NoDup (map (λ c, (cl_name c, cl_key c)) l) →
  (∀ c, c ∈ l → no_waiter_key (cl_key c) s1 ∧ live s1 (cl_name c) (cl_key c) ∧ key_once (cl_name c) (cl_key c) s1) →
  ∀ c, c ∈ l → ¬ live s2 (cl_name c) (cl_key c) ∧ st_timers s2 !! tkey (cl_name c) (cl_key c) = None.
Proof.
  induction l as [|c0 l IH]; intros s1 outs s2 outs2; cbn [fold_left]; [intros _ _ _ c ?%elem_of_nil; done|].
  destruct (dstep cfg (s1, outs) c0) as [s1' outs'] eqn:Hd. intros Hf [Hc0 Hnd]%NoDup_cons Hall c Hc.
  assert (∀ c', c' ∈ l → (cl_name c0, cl_key c0) ≠ (cl_name c', cl_key c')) as Hdiff.
  { intros c' Hc' E. apply Hc0. rewrite E. apply elem_of_list_In, (in_map (λ c, (cl_name c, cl_key c))), elem_of_list_In, Hc'. }
  apply elem_of_cons in Hc as [->|Hc].
  - destruct (Hall c0) as (Hnw & Hl & Honce); [left|].
    destruct (dstep_target _ _ _ _ _ _ Hd Hnw Hl Honce) as [Hnl Ht].
    destruct (dfold_frame _ _ (cl_name c0) (cl_key c0) _ _ _ _ Hf) as (H1 & H2 & _).
    { intros w Hw. eapply Hnw, dstep_waiters_sub; eauto. }
    { intros c' Hc' E. by apply (Hdiff c' Hc'). }
    split; [by rewrite <- H1|by rewrite H2].
  - eapply IH; eauto. intros c' Hc'. destruct (Hall c') as (Hnw & Hl & Honce); [by right|].
    destruct (dstep_frame _ _ _ _ _ _ (cl_name c') (cl_key c') Hd Hnw (Hdiff c' Hc')) as (H1 & _ & _ & H4).
    split_and!; [|by apply H1|by apply H4]. intros w Hw. eapply Hnw, dstep_waiters_sub; eauto.
Qed.

(** ** disconnect, taken apart *)

Lemma destroy_session_cases cfg sid s s2 o2 : destroy_session cfg sid s = (s2, o2) →
  (s2 = s ∧ (st_shut s = true ∨ st_sessions s !! sid = None ∨ c_noclear cfg = true)) ∨
  (c_noclear cfg = true ∧ st_sessions s !! sid = Some [] ∧ s2 = save cfg (s <| st_sessions := delete sid (st_sessions s) |>)) ∨
  (c_noclear cfg = false ∧ st_shut s = false ∧ ∃ l, st_sessions s !! sid = Some l ∧
     fold_left (dstep cfg) l (save cfg (s <| st_sessions := delete sid (st_sessions s) |>), []) = (s2, o2)).
Proof.
  unfold destroy_session. destruct (st_shut s); [intros [= <- <-]; left; auto|].
  destruct (st_sessions s !! sid) as [l|]; [|intros [= <- <-]; left; auto].
  destruct (c_noclear cfg); cbn.
  - case_bool_decide; cbn; intros [= <- <-]; [subst; right; left; done|left; auto].
  - intros H. right; right. eauto.
Qed.

Lemma NoDup_map_inj_on {A B} (f : A → B) l : NoDup l → (∀ x y, x ∈ l → y ∈ l → f x = f y → x = y) → NoDup (map f l).
Proof.
  induction 1 as [|x l Hx Hl IH]; intros Hinj; cbn; [constructor|]. constructor.
  - intros (y & E & Hy%elem_of_list_In)%elem_of_list_In%in_map_iff. apply Hx.
    rewrite (Hinj x y); [done|left|by right|done].
  - apply IH. intros y z Hy Hz. apply Hinj; by right.
Qed.

Lemma clock_eq_of_table s c1 c2 : in_table s c1 → in_table s c2 →
  (cl_name c1, cl_key c1) = (cl_name c2, cl_key c2) → c1 = c2.
Proof.
  intros (o1 & H1 & _ & E1) (o2 & H2 & _ & E2) [= En Ek]. destruct c1 as [n1 k1 z1], c2 as [n2 k2 z2]; cbn in *.
  rewrite En in H1. rewrite H1 in H2. injection H2 as <-. congruence.
Qed.

Lemma inv_listed_table cfg s sid c : Inv cfg s → listed s sid c → in_table s c.
Proof.
  intros HI (l & Hl & Hc). apply (inv_views _ _ HI). unfold listing.
  apply elem_of_list_In, in_concat. exists l. split; [|by apply elem_of_list_In].
  apply in_map_iff. exists (sid, l). split; [done|]. by apply elem_of_list_In, elem_of_map_to_list.
Qed.

Lemma in_table_live s c : in_table s c → live s (cl_name c) (cl_key c).
Proof. intros (o & ? & ? & _). exists o; done. Qed.

Lemma inv_key_once' cfg s n k : Inv cfg s → key_once n k s.
Proof. intros HI ob Hob. apply cnt_NoDup. by destruct (inv_cap _ _ HI _ _ Hob) as (_ & _ & ?). Qed.

(** ** C06 *)

Lemma C06_clear : T_C06_clear.
Proof.
  intros cfg s sid s' o HI Hnc Hshut H. simpl in H. apply det_elem' in H. unfold disconnect in H.
  destruct (cancel_waiters_spec (λ w, bool_decide (w_sid w = sid)) ECtxCanceled s) as (ws' & E & Hws).
  rewrite E in H. clear E.
  destruct (destroy_session _ _ _) as [s2 o2] eqn:Hd. injection H as -> _.
  assert (∀ w, w ∈ ws' → w ∈ st_waiters s ∧ w_sid w ≠ sid) as Hws1.
  { intros w Hw. apply Hws in Hw as [Hw Hn]. split; [done|]. intros E. apply (Hn w Hw); [by apply bool_decide_eq_true|done]. }
  assert (∀ n k, live s n k → ∀ w, w ∈ ws' → w_key w ≠ k) as Hnwk.
  { intros n k Hl w Hw. eapply inv_no_waiter_key; eauto. by apply Hws1. }
  apply destroy_session_cases in Hd as [[-> Hwhy]|[(Hnc' & _)|(_ & _ & l & Hl & Hf)]]; [|congruence|]; cbn in *.
  - (* unknown session *)
    destruct Hwhy as [?|[Hnone|?]]; [congruence| |congruence]. split_and!.
    + done.
    + intros c (l & Hl & _). congruence.
    + intros sid2 c _ _. by apply hold_same_of.
    + intros w Hw Hsid Hw'. by destruct (Hws1 w Hw').
  - set (s1 := save cfg (s <| st_waiters := ws' |> <| st_sessions := delete sid (st_sessions s) |>)) in *.
    assert (st_locks s1 = st_locks s) as Hl1 by (unfold s1; by rewrite save_locks).
    assert (st_timers s1 = st_timers s) as Ht1 by (unfold s1; by rewrite save_timers).
    assert (st_waiters s1 = ws') as Hw1 by (unfold s1; by rewrite save_waiters).
    assert (st_sessions s1 = delete sid (st_sessions s)) as Hs1 by (unfold s1; by rewrite save_sessions).
    assert (∀ n k, live s1 n k ↔ live s n k) as Hlive1 by (intros; unfold live; by rewrite Hl1).
    split_and!.
    + erewrite dfold_sessions; [|exact Hf|]; [by rewrite Hs1, lookup_delete|]. rewrite Hw1. intros w Hw. by apply Hws1.
    + intros c (l' & Hl' & Hc). rewrite Hl in Hl'. injection Hl' as <-.
      destruct (dfold_targets _ _ _ _ _ _ Hf) with (c := c) as [Hnl Ht]; [| |done|].
      * apply NoDup_map_inj_on; [by eapply inv_nodup|]. intros c1 c2 Hc1 Hc2.
        apply (clock_eq_of_table s); eapply inv_listed_table; eauto; exists l; eauto.
      * intros c' Hc'. assert (live s (cl_name c') (cl_key c')) as Hlc.
        { eapply in_table_live, inv_listed_table; eauto. exists l; eauto. }
        split_and!; [unfold no_waiter_key; rewrite Hw1; by eapply Hnwk|by apply Hlive1|].
        unfold key_once. rewrite Hl1. by eapply inv_key_once'.
      * split; [|done]. intros Hit. by apply Hnl, in_table_live.
    + intros sid2 c Hne Hlc.
      assert (in_table s c) as Hit by (by eapply inv_listed_table).
      destruct (dfold_frame _ _ (cl_name c) (cl_key c) _ _ _ _ Hf) as (H1 & H2 & H3).
      { unfold no_waiter_key; rewrite Hw1. eapply Hnwk. by apply in_table_live. }
      { intros c' Hc' Eq. assert (c' = c) as ->.
        { eapply clock_eq_of_table; eauto. eapply inv_listed_table; eauto. exists l; eauto. }
        apply Hne. destruct Hlc as (l2 & Hl2 & Hc2). symmetry. eapply (inv_owner _ _ HI); eauto. }
      unfold hold_same. split_and!.
      * by rewrite <- H1, Hlive1.
      * by rewrite H2, Ht1.
      * intros sid' sz. rewrite H3. unfold listed. rewrite Hs1.
        destruct (decide (sid' = sid)) as [->|Hne']; [|by rewrite lookup_delete_ne].
        rewrite lookup_delete. split; [|intros (? & ? & _); done].
        intros (l' & Hl' & Hc'). exfalso. apply Hne.
        assert (Clock (cl_name c) (cl_key c) sz = c) as Ec.
        { eapply clock_eq_of_table; eauto. eapply inv_listed_table; eauto. exists l'; eauto. }
        rewrite Ec in Hc'. destruct Hlc as (l2 & Hl2 & Hc2). symmetry. eapply (inv_owner _ _ HI); eauto.
    + intros w Hw Hsid Hw'. eapply dfold_waiters_sub in Hw'; [|exact Hf]. rewrite Hw1 in Hw'. by destruct (Hws1 w Hw').
Qed.
