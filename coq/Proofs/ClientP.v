(** C19: the renew interval over the regenerated constants, the retry rule, and the two refutations
    (F-STOPDROP, F-RENEWMAP) of the literal statements, with their witnesses. *)
From Coq Require Import Lia ZifyBool ZifyNat ZifyN.
From Ldlm Require Import Model.Base Model.Err Model.Seq Model.Client Gen.Consts.
Local Open Scope Z_scope.

(** * The interval *)

(** the translator found renewer.Start's computation in the shape [interval] transcribes *)
Lemma renew_formula_ok : renew_formula_recognised = true.
Proof. vm_compute. reflexivity. Qed.

Lemma interval_bounds : ∀ T, client_MinRenewSeconds < T → 0 < interval T < T.
Proof.
  intros T H. unfold interval. destruct (Z.leb_spec T renew_threshold) as [L|L];
    unfold client_MinRenewSeconds, renew_threshold, renew_subtract in *; lia.
Qed.

(** what the property excludes: a lock timeout of at most MinRenewSeconds is never renewed in time *)
Lemma interval_small : ∀ T, T ≤ client_MinRenewSeconds → T ≤ interval T.
Proof.
  intros T H. unfold interval. destruct (Z.leb_spec T renew_threshold) as [L|L];
    unfold client_MinRenewSeconds, renew_threshold, renew_subtract in *; lia.
Qed.

Lemma slack_pos : ∀ T, client_MinRenewSeconds < T → 0 < slack T.
Proof. intros T H. pose proof (interval_bounds T H). unfold slack, second. lia. Qed.

(** * rpcWithRetry *)

Definition is_unavailable {A} (o : toutcome A) : bool := match o with TUnavailable => true | _ => false end.

Lemma retry_loop_spec {A} : ∀ (outs : list (toutcome A)) maxr retries r calls sleeps,
  retries ≤ maxr →
  retry_loop maxr retries outs = (r, calls, sleeps) →
  (* bounded *)
  Z.of_nat calls ≤ maxr - retries + 1 ∧ (calls ≤ length outs)%nat ∧
  (* f is called again only after Unavailable *)
  (∀ i, (S i < calls)%nat → outs !! i = Some TUnavailable) ∧
  (* it sleeps RetryDelaySeconds before every further call *)
  sleeps = repeat client_RetryDelaySeconds (length sleeps) ∧
  match r with
  | Some o =>
      (* the last outcome is returned; an Unavailable only when the budget is used up *)
      (1 ≤ calls)%nat ∧ outs !! (calls - 1)%nat = Some o ∧ length sleeps = (calls - 1)%nat ∧
      (is_unavailable o = true → Z.of_nat calls = maxr - retries + 1)
  | None =>
      (* the script of outcomes ran out first: all of it was Unavailable and within the budget *)
      calls = length outs ∧ length sleeps = calls ∧ ∀ i o, outs !! i = Some o → o = TUnavailable
  end.
Proof.
  induction outs as [|o rest IH]; intros maxr retries r calls sleeps Hle H; cbn [retry_loop] in H.
  - inversion H; subst. cbn. repeat split; try lia; try (intros i o Hi; rewrite lookup_nil in Hi; discriminate).
  - destruct o as [v| |c].
    + inversion H; subst. cbn. repeat split; try lia; try reflexivity; try discriminate.
    + destruct (Z.leb_spec maxr retries) as [Hm|Hm].
      * inversion H; subst. cbn. repeat split; try lia; try reflexivity.
      * destruct (retry_loop maxr (retries + 1) rest) as [[r' c'] s'] eqn:E.
        inversion H; subst. clear H.
        destruct (IH maxr (retries + 1) r c' s' ltac:(lia) E) as (B1 & B2 & B3 & B4 & B5).
        split; [lia|]. split; [cbn; lia|]. split.
        { intros [|i] Hi; [reflexivity|]. cbn. apply B3. lia. }
        split. { cbn [length repeat]. f_equal. exact B4. }
        destruct r as [o|].
        -- destruct B5 as (C1 & C2 & C3 & C4). split; [lia|]. split.
           { replace (S c' - 1)%nat with (S (c' - 1))%nat by lia. cbn. exact C2. }
           split; [cbn; lia|]. intros Hu. specialize (C4 Hu). lia.
        -- destruct B5 as (C1 & C2 & C3). split; [cbn; lia|]. split; [cbn; lia|].
           intros [|i] o Hi; cbn in Hi; [congruence|]. eapply C3; eauto.
    + inversion H; subst. cbn. repeat split; try lia; try reflexivity; try discriminate.
Qed.

Lemma retry_spec {A} : ∀ (n : Z) (outs : list (toutcome A)) r calls sleeps,
  0 ≤ n →
  rpc_with_retry n outs = (r, calls, sleeps) →
  Z.of_nat calls ≤ n + 1 ∧ (calls ≤ length outs)%nat ∧
  (∀ i, (S i < calls)%nat → outs !! i = Some TUnavailable) ∧
  sleeps = repeat client_RetryDelaySeconds (length sleeps) ∧
  match r with
  | Some o =>
      (1 ≤ calls)%nat ∧ outs !! (calls - 1)%nat = Some o ∧ length sleeps = (calls - 1)%nat ∧
      (is_unavailable o = true → Z.of_nat calls = n + 1)
  | None => calls = length outs ∧ length sleeps = calls ∧ ∀ i o, outs !! i = Some o → o = TUnavailable
  end.
Proof.
  intros n outs r calls sleeps Hn H. unfold rpc_with_retry in H.
  pose proof (retry_loop_spec outs n 0 r calls sleeps Hn H) as S.
  replace (n - 0 + 1) with (n + 1) in S by lia. exact S.
Qed.

(** * The literal statements of C19_stop / C19_multi and their refutation *)

Definition la : str := [x61].

(** The witnesses are written over the regenerated constants (a lock timeout 35 s above MinRenewSeconds, advances of
    one renew interval), so that they stay witnesses when the constants of the source change in a way that keeps the
    property. [wT] is 45 and [interval wT] is 15 with the constants of the unmodified source. *)
Definition wT : Z := client_MinRenewSeconds + 35.
Definition wI : Z := interval wT * second.

(** F-STOPDROP: Unlock while the renewer has left the select (its Renew is kept before the server). The Stop() is
    dropped; the Renew of the unlocked hold reaches the server after Unlock has returned, fails, and the goroutine panics. *)
Definition stopdrop_witness : list item :=
  [ILock la wT 1; IHold 0 StPre; IAdvance wI; IUnlock 0; IStep 0].

(** the same with the Renew kept after the server: the renewer survives, sends another Renew one interval later *)
Definition stopdrop_witness_post : list item :=
  [ILock la wT 1; IHold 0 StPost; IAdvance wI; IUnlock 0; IStep 0; IAdvance (wI + second)].

(** F-RENEWMAP: two auto-renewed holds of one counting lock *)
Definition renewmap_witness : list item := [ILock la wT 2; ILock la wT 2].

(** its quiet form: the second hold has no lock timeout; unlocking it stops the FIRST hold's renewer *)
Definition renewmap_witness_quiet : list item :=
  [ILock la wT 2; ILock la 0 2; IUnlock 1; IAdvance (3 * wT * second)].

Definition cc_auto : ccfg := CCfg false 0.

Lemma stopdrop_witness_facts :
  wf_sched cc_auto stopdrop_witness = true ∧
  excluded_renewmap cc_auto stopdrop_witness = false ∧
  excluded_stopdrop cc_auto stopdrop_witness = true ∧
  timely cc_auto 0 stopdrop_witness = true ∧
  p_stop 0 (cs_trace (run cc_auto stopdrop_witness)) = false ∧
  cs_crashed (run cc_auto stopdrop_witness) = Some (CrRenewFailed 0).
Proof. vm_compute. repeat split; reflexivity. Qed.

Lemma stopdrop_witness_post_facts :
  wf_sched cc_auto stopdrop_witness_post = true ∧
  excluded_renewmap cc_auto stopdrop_witness_post = false ∧
  excluded_stopdrop cc_auto stopdrop_witness_post = true ∧
  p_stop 0 (cs_trace (run cc_auto stopdrop_witness_post)) = false ∧
  cs_crashed (run cc_auto stopdrop_witness_post) = Some (CrRenewFailed 0).
Proof. vm_compute. repeat split; reflexivity. Qed.

Lemma renewmap_witness_facts :
  wf_sched cc_auto renewmap_witness = true ∧
  excluded_stopdrop cc_auto renewmap_witness = false ∧
  excluded_renewmap cc_auto renewmap_witness = true ∧
  timely cc_auto 0 renewmap_witness = true ∧ timely cc_auto 1 renewmap_witness = true ∧
  no_crash (cs_trace (run cc_auto renewmap_witness)) = false ∧
  cs_crashed (run cc_auto renewmap_witness) = Some (CrOutOfSync 1).
Proof. vm_compute. repeat split; reflexivity. Qed.

Lemma renewmap_witness_quiet_facts :
  wf_sched cc_auto renewmap_witness_quiet = true ∧
  excluded_stopdrop cc_auto renewmap_witness_quiet = false ∧
  excluded_renewmap cc_auto renewmap_witness_quiet = true ∧
  timely cc_auto 0 renewmap_witness_quiet = true ∧
  cs_crashed (run cc_auto renewmap_witness_quiet) = None ∧
  (∃ h, cs_holds (run cc_auto renewmap_witness_quiet) !! 0%nat = Some h ∧ h_locked h = true ∧ h_unl h = false ∧ h_T h = wT) ∧
  lease_ok (run cc_auto renewmap_witness_quiet) 0 = false.
Proof.
  vm_compute. repeat split; try reflexivity. eexists. repeat split; reflexivity.
Qed.

(** a lock timeout of at most MinRenewSeconds: the lease is over by the first renew, which then fails *)
Definition short_witness : list item :=
  [ILock la client_MinRenewSeconds 1; IAdvance (interval client_MinRenewSeconds * second)].
Lemma short_timeout_crashes :
  cs_crashed (run cc_auto short_witness) = Some (CrRenewFailed 0).
Proof. vm_compute. reflexivity. Qed.

(** * The refutations in the form Properties/C19.v states them *)

(** C19_stop as the property text has it — "for every timing of Unlock against the renew loop" — fails: *)
Lemma stop_refuted :
  ∃ cc sched j h,
    cc_noauto cc = false ∧ wf_sched cc sched = true ∧ excluded_renewmap cc sched = false ∧ timely cc j sched = true ∧
    cs_holds (run cc sched) !! j = Some h ∧ h_locked h = true ∧ client_MinRenewSeconds < h_T h ∧ h_unl h = true ∧
    p_stop j (cs_trace (run cc sched)) = false ∧ no_crash (cs_trace (run cc sched)) = false.
Proof.
  exists cc_auto, stopdrop_witness, 0%nat. vm_compute. eexists. repeat split; reflexivity.
Qed.

(** C19_multi as the property text has it — "including several of the same counting lock" — fails twice over:
    two auto-renewed holds of one name panic; with one of them without a timeout, unlocking it makes the OTHER
    hold expire although the client is alive, has not unlocked it, and every Renew was answered at once. *)
Lemma multi_refuted_panic :
  ∃ cc sched,
    cc_noauto cc = false ∧ wf_sched cc sched = true ∧ excluded_stopdrop cc sched = false ∧
    timely cc 0 sched = true ∧ timely cc 1 sched = true ∧
    cs_crashed (run cc sched) = Some (CrOutOfSync 1).
Proof. exists cc_auto, renewmap_witness. vm_compute. repeat split; reflexivity. Qed.

Lemma multi_refuted_quiet :
  ∃ cc sched j h,
    cc_noauto cc = false ∧ wf_sched cc sched = true ∧ excluded_stopdrop cc sched = false ∧ timely cc j sched = true ∧
    cs_holds (run cc sched) !! j = Some h ∧ h_locked h = true ∧ client_MinRenewSeconds < h_T h ∧ h_unl h = false ∧
    cs_closed (run cc sched) = false ∧ cs_crashed (run cc sched) = None ∧
    lease_ok (run cc sched) j = false ∧ held (run cc sched) j = false.
Proof.
  exists cc_auto, renewmap_witness_quiet, 0%nat. vm_compute. eexists. repeat split; reflexivity.
Qed.

(** non-vacuity of the positive statements: three holds around the thresholds, a Renew kept in flight on both sides of
    the server within the slack, idle for many lease lengths, one hold unlocked while its renewer sleeps *)
Definition lb : str := [x62].
Definition lc : str := [x63].
Definition gT0 : Z := client_MinRenewSeconds + 1.
Definition gT1 : Z := client_MinRenewSeconds + 80.
Definition gT2 : Z := client_MinRenewSeconds + 21.
Definition good_witness : list item :=
  [ILock la gT0 1; ITryLock lb gT1 1; ILock lc gT2 1;
   IHold 0 StBoth; IAdvance (interval gT0 * second + 300000000); IStep 0; IAdvance 200000000; IStep 0;
   IAdvance (400 * second); IProbe; ICompete la 1;
   IUnlock 1; IAdvance (200 * second); IProbe].

Lemma good_witness_facts :
  wf_sched cc_auto good_witness = true ∧
  excluded_stopdrop cc_auto good_witness = false ∧ excluded_renewmap cc_auto good_witness = false ∧
  timely cc_auto 0 good_witness = true ∧ timely cc_auto 1 good_witness = true ∧ timely cc_auto 2 good_witness = true ∧
  cs_crashed (run cc_auto good_witness) = None ∧ cs_closed (run cc_auto good_witness) = false ∧
  lease_ok (run cc_auto good_witness) 0 = true ∧ held (run cc_auto good_witness) 0 = true ∧
  lease_ok (run cc_auto good_witness) 2 = true ∧ held (run cc_auto good_witness) 2 = true ∧
  lease_ok (run cc_auto good_witness) 1 = false ∧ held (run cc_auto good_witness) 1 = false ∧
  p_stop 1 (cs_trace (run cc_auto good_witness)) = true ∧
  (20 < length (cs_trace (run cc_auto good_witness)))%nat.
Proof. vm_compute. repeat split; try reflexivity; lia. Qed.

(** an Unlock run in steps: the renewer sleeps when the call begins, the server applies the unlock, the reply stays in
    flight for two renew intervals — no Renew is sent during the call, nothing panics *)
Definition stepped_unlock_witness : list item :=
  [ILock la wT 1; IAdvance second; IUnlockBegin 0; IUnlockSend 0; IAdvance (2 * wI); IUnlockEnd 0; IAdvance wI; IProbe].
Lemma stepped_unlock_witness_facts :
  wf_sched cc_auto stepped_unlock_witness = true ∧ excluded_stopdrop cc_auto stepped_unlock_witness = false ∧
  excluded_renewmap cc_auto stepped_unlock_witness = false ∧
  p_stop 0 (cs_trace (run cc_auto stepped_unlock_witness)) = true ∧
  no_crash (cs_trace (run cc_auto stepped_unlock_witness)) = true ∧
  length (cs_trace (run cc_auto stepped_unlock_witness)) = 5%nat.
Proof. vm_compute. repeat split; reflexivity. Qed.
