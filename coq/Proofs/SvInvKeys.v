(** Work package svinv, part 4: keys, contexts and thread-identity fields of the invariant are preserved. *)
From Coq Require Import Lia ZifyBool ZifyNat.
From Ldlm Require Import Model.Base Model.Err Model.Sv Proofs.SeqLemmasKey.
From Ldlm Require Import Proofs.SvDefs Proofs.SvInvBase Proofs.SvInvFrame.
From RecordUpdate Require Import RecordSet.
Import RecordSetNotations.
Local Open Scope Z_scope.

Lemma step_vi_keys_fresh cfg s it s' (I : SvInv cfg s) (Hok : sitem_ok s it) (Hv : vsr cfg s it s') : ∀ t1 t2 x1 x2 k, v_thr s' !! t1 = Some x1 → v_thr s' !! t2 = Some x2 →
  is_acq (st_op x1) = true → is_acq (st_op x2) = true → op_key' (st_op x1) = Some k → op_key' (st_op x2) = Some k → t1 = t2.
Proof.
  intros t1 t2 x1 x2 k H1 H2 A1 A2 K1 K2.
  destruct (vsr_thr_bwd _ _ _ _ _ _ I Hv H1) as [(y1 & Hy1 & Ho1 & _)|[Hn1 N1]];
  destruct (vsr_thr_bwd _ _ _ _ _ _ I Hv H2) as [(y2 & Hy2 & Ho2 & _)|[Hn2 N2]].
  - rewrite Ho1 in *. rewrite Ho2 in *. eapply (vi_keys_fresh _ _ I); eauto.
  - exfalso. destruct N2 as [(op & -> & -> & Hc)|(_ & _ & _ & [[? Ho]|[Ho|(? & ? & ? & Ho & _)]])]; simpl in *; try (rewrite Ho in A2; done).
    destruct op; try done; simpl in *; simplify_eq; destruct Hok as (Hf & _); eapply Hf; eauto; by rewrite <- Ho1.
  - exfalso. destruct N1 as [(op & -> & -> & Hc)|(_ & _ & _ & [[? Ho]|[Ho|(? & ? & ? & Ho & _)]])]; simpl in *; try (rewrite Ho in A1; done).
    destruct op; try done; simpl in *; simplify_eq; destruct Hok as (Hf & _); eapply Hf; eauto; by rewrite <- Ho2.
  - destruct N1 as [(op1 & E1 & _)|(-> & _ & _ & Q1)].
    + destruct N2 as [(op2 & E2 & _)|(-> & _ & _ & Q2)]; [congruence|].
      destruct Q2 as [[? Ho]|[Ho|(? & ? & ? & Ho & _)]]; rewrite Ho in A2; done.
    + destruct Q1 as [[? Ho]|[Ho|(? & ? & ? & Ho & _)]]; rewrite Ho in A1; done.
Qed.

Lemma new_thread_acq s it x t' : new_thread s it x t' → is_acq (st_op t') = true → ∃ op, it = VCall x op ∧ st_op t' = op.
Proof.
  intros [(op & -> & -> & _)|(_ & _ & _ & [[? Ho]|[Ho|(? & ? & ? & Ho & _)]])] A; try (rewrite Ho in A; done). eauto.
Qed.
Lemma new_thread_client s it x t' : new_thread s it x t' → client_op (st_op t') = true → ∃ op, it = VCall x op ∧ st_op t' = op.
Proof.
  intros [(op & -> & -> & _)|(_ & _ & _ & [[? Ho]|[Ho|(? & ? & ? & Ho & _)]])] A; try (rewrite Ho in A; done). eauto.
Qed.

Lemma step_vi_presented cfg s it s' (I : SvInv cfg s) (Hok : sitem_ok s it) (Hv : vsr cfg s it s') :
  ∀ tid t k, v_thr s' !! tid = Some t → is_acq (st_op t) = false → op_key' (st_op t) = Some k →
  ∀ tid' t', v_thr s' !! tid' = Some t' → is_acq (st_op t') = true → op_key' (st_op t') = Some k → delivered s' k.
Proof.
  intros tid t k H1 A1 K1 tid' t' H2 A2 K2. pose proof (vsr_thr_fwd _ _ _ _ I Hv) as Hf.
  destruct (vsr_thr_bwd _ _ _ _ _ _ I Hv H1) as [(y1 & Hy1 & Ho1 & _)|[Hn1 N1]];
  destruct (vsr_thr_bwd _ _ _ _ _ _ I Hv H2) as [(y2 & Hy2 & Ho2 & _)|[Hn2 N2]].
  - rewrite Ho1 in *. rewrite Ho2 in *. eapply delivered_fwd; [done|]. exact (vi_presented _ _ I tid y1 k Hy1 A1 K1 tid' y2 Hy2 A2 K2).
  - exfalso. destruct (new_thread_acq _ _ _ _ N2 A2) as (op & -> & Ho). rewrite Ho in *.
    destruct op; try done; simpl in *; simplify_eq; destruct Hok as (Hfr & _); eapply Hfr; eauto; by rewrite <- Ho1.
  - assert (client_op (st_op t) = true) as Hcl by (destruct (st_op t); done).
    destruct (new_thread_client _ _ _ _ N1 Hcl) as (op & -> & Ho). rewrite Ho in *. rewrite Ho2 in *.
    eapply delivered_fwd; [done|].
    destruct op; try done; simpl in *; simplify_eq; [|destruct Hok as [Hok _]]; eapply Hok; eauto.
  - destruct (new_thread_acq _ _ _ _ N2 A2) as (op & -> & Ho).
    assert (client_op (st_op t) = true) as Hcl by (destruct (st_op t); done).
    destruct (new_thread_client _ _ _ _ N1 Hcl) as (op' & E & Ho'). simplify_eq. congruence.
Qed.

Lemma step_vi_renew_pos cfg s it s' (I : SvInv cfg s) (Hok : sitem_ok s it) (Hv : vsr cfg s it s') :
  ∀ tid t n k lt, v_thr s' !! tid = Some t → st_op t = SRenew n k lt → 0 < lt.
Proof.
  intros tid t n k lt H1 Ho.
  destruct (vsr_thr_bwd _ _ _ _ _ _ I Hv H1) as [(y1 & Hy1 & Ho1 & _)|[Hn1 N1]].
  - rewrite Ho1 in Ho. eapply (vi_renew_pos _ _ I); eauto.
  - assert (client_op (st_op t) = true) as Hcl by (by rewrite Ho).
    destruct (new_thread_client _ _ _ _ N1 Hcl) as (op & -> & Ho'). rewrite Ho in Ho'. subst op. simpl in Hok. tauto.
Qed.

Lemma step_vi_expire_unique cfg s it s' (I : SvInv cfg s) (Hok : sitem_ok s it) (Hv : vsr cfg s it s') :
  ∀ t1 t2 x1 x2 id, v_thr s' !! t1 = Some x1 → v_thr s' !! t2 = Some x2 → st_op x1 = SExpire id → st_op x2 = SExpire id → t1 = t2.
Proof.
  intros t1 t2 x1 x2 id H1 H2 O1 O2.
  assert (∀ x t' y ty, new_thread s it x t' → st_op t' = SExpire id → v_thr s !! y = Some ty → st_op ty = SExpire id → False) as Hnew.
  { intros x t' y ty [(op & -> & -> & Hc)|(_ & _ & _ & [[? Ho]|[Ho|(id' & tm & d & Ho & Htm & Hst)]])] Ho' Hy Hoy; simpl in *; try congruence.
    - subst op. done.
    - rewrite Ho in Ho'. simplify_eq. assert (tm_st tm = TFired) by (apply (vi_tm_fired _ _ I _ _ Htm); eauto). congruence. }
  destruct (vsr_thr_bwd _ _ _ _ _ _ I Hv H1) as [(y1 & Hy1 & Ho1 & _)|[Hn1 N1]];
  destruct (vsr_thr_bwd _ _ _ _ _ _ I Hv H2) as [(y2 & Hy2 & Ho2 & _)|[Hn2 N2]].
  - rewrite Ho1 in *. rewrite Ho2 in *. eapply (vi_expire_unique _ _ I); eauto.
  - exfalso. eapply Hnew; eauto. congruence.
  - exfalso. eapply Hnew; eauto. congruence.
  - destruct N1 as [(op1 & E1 & -> & Hc)|(-> & _)]; [simpl in O1; subst op1; done|].
    destruct N2 as [(op2 & E2 & -> & Hc)|(-> & _)]; [simpl in O2; subst op2; done|]. done.
Qed.

Lemma shnet_cancel_ok3 t e : st_cancel (shnet_cancel t) = Some e → e ≠ ECtxCanceled → st_cancel t = Some e.
Proof.
  unfold shnet_cancel. destruct (st_op t) eqn:Ho; destruct (st_cancel t) eqn:Hc; destruct (is_fin (st_pc t)) eqn:Hf; simpl;
    rewrite ?Hc; intros; simplify_eq; done.
Qed.
Lemma connend_cancel_ok3 sid t e : st_cancel (connend_cancel sid t) = Some e → e ≠ ECtxCanceled → st_cancel t = Some e.
Proof.
  unfold connend_cancel. case_bool_decide; simpl; [|auto]. case_bool_decide as Hc; simpl; [|auto].
  destruct (is_fin (st_pc t)); simpl; auto. intros; simplify_eq.
Qed.

Lemma step_vi_cancel_pc cfg s it s' (I : SvInv cfg s) (Hok : sitem_ok s it) (Hv : vsr cfg s it s') :
  ∀ tid t e, v_thr s' !! tid = Some t → st_cancel t = Some e → e ≠ ECtxCanceled →
    st_pc t = VMgrLock ∨ st_pc t = VWait ∨ st_pc t = VWoken ∨ ∃ o, st_pc t = VFin (SResp false o).
Proof.
  pose proof (vi_cancel_pc _ _ I) as Hc.
  destruct Hv; unfold st_go; simpl; intros x t' e0 Ql Qc Qe; lk; simpl in *; try done; try (by eapply Hc); eauto 6.
  all: try (specialize (Hc _ _ _ Ht Qc Qe); try site_inv; subst;
            solve [ match goal with H : st_pc _ = _ |- _ => rewrite H in Hc; naive_solver end
                  | destruct Hpc as [Hpc|Hpc]; rewrite Hpc in Hc; naive_solver
                  | destruct Hpc as [Hpc|[Hpc _]]; rewrite Hpc in Hc; naive_solver ]).
  - simpl in Hok. destruct Hok as [?|[_ (t0 & Ht0 & Hp0)]]; [congruence|]. simplify_eq. naive_solver.
  - destruct (connend_cancel_ok sid x0) as (_ & -> & _). eapply Hc; eauto using connend_cancel_ok3.
  - destruct (shnet_cancel_ok x0) as (_ & -> & _). eapply Hc; eauto using shnet_cancel_ok3.
Qed.

Lemma step_vi_ended_cancel cfg s it s' (I : SvInv cfg s) (Hok : sitem_ok s it) (Hv : vsr cfg s it s') :
  ∀ tid t sid, v_thr s' !! tid = Some t → op_sid (st_op t) = Some sid → ev_in (SvConnEnd sid) s' →
    is_fin (st_pc t) = false → st_cancel t ≠ None.
Proof.
  intros x t' sid H1 Hos Hev Hnf. pose proof (vsr_thr_fwd _ _ _ _ I Hv) as Hf.
  destruct (vsr_thr_bwd _ _ _ _ _ _ I Hv H1) as [(y & Hy & Ho & _)|[Hn N]].
  - destruct (Hf _ _ Hy) as (t'' & Ht'' & _ & Hc & Hfin & _). simplify_eq.
    destruct (is_fin (st_pc y)) eqn:Hfy; [rewrite Hfin in Hnf by done; congruence|].
    destruct (vsr_connend_bwd _ _ _ _ _ Hv Hev) as [Hev'| ->].
    + destruct (st_cancel y) as [e|] eqn:Hcy. { intros Hx. specialize (Hc e). rewrite Hx in Hc. by specialize (Hc eq_refl). }
      exfalso. eapply (vi_ended_cancel _ _ I); eauto. by rewrite <- Ho.
    + (* the connection ends now *)
      inversion Hv; subst.
      * by rewrite H1 in Hy; simplify_eq; eapply (vi_ended_cancel _ _ I) in Hev; eauto; rewrite <- ?Ho; eauto; destruct Hok as [_ []].
      * simpl in H1. rewrite lookup_insert_ne in H1 by (apply (vi_sys _ _ I) in Hy; lia).
        rewrite lookup_fmap, Hy in H1. simpl in H1. simplify_eq. unfold connend_cancel in *.
        rewrite <- Ho, Hos, Hfy. rewrite bool_decide_eq_true_2 by done.
        destruct (st_cancel y) eqn:Hcy; simpl; rewrite ?Hcy; done.
      * (* delivered by the network stop: every call in flight was cancelled first *)
        simpl in H1. rewrite lookup_insert_ne in H1 by (pose proof (vi_sys _ _ I _ _ Hy); lia).
        assert (t' = y) as -> by congruence.
        apply (Hcn _ _ Hy); [|done]. by destruct (st_op y).
  - assert (client_op (st_op t') = true) as Hcl by (destruct (st_op t'); done).
    destruct (new_thread_client _ _ _ _ N Hcl) as (op & -> & Hop). rewrite Hop in Hos.
    destruct (vsr_connend_bwd _ _ _ _ _ Hv Hev) as [Hev'|?]; [|done].
    destruct op; simpl in *; simplify_eq; tauto.
Qed.

Lemma step_vi_sh_flag cfg s it s' (I : SvInv cfg s) (Hok : sitem_ok s it) (Hv : vsr cfg s it s') :
  ∀ tid t, v_thr s' !! tid = Some t → st_op t = SShutdown → st_pc t ≠ VShFlag → v_shut s' = true.
Proof.
  pose proof (vi_sh_flag _ _ I) as Hc.
  destruct Hv; unfold st_go; simpl; intros x t' Ql Qo Qp; lk; simpl in *; try done; try (by eapply Hc).
  all: try (eapply Hc; [exact Ht|done|]; try site_inv; subst; congruence).
  all: try (try site_inv; destruct Hop as [Hop|Hop]; congruence).
  - subst op. done.
  - destruct (connend_cancel_ok sid x0) as (Ho & Hp & _). rewrite Ho in Qo. rewrite Hp in Qp. by eapply Hc.
  - congruence.
  - destruct (shnet_cancel_ok x0) as (Ho & Hp & _). rewrite Ho in Qo. rewrite Hp in Qp. by eapply Hc.
Qed.

Lemma ds_thr_bwd cfg s it s' (I : SvInv cfg s) (Hv : vsr cfg s it s') :
  ∀ x t' sid, v_thr s' !! x = Some t' → st_op t' = SConnEnd sid →
    (∃ t, v_thr s !! x = Some t ∧ st_op t = SConnEnd sid ∧
          (st_pc t' = st_pc t ∨ st_pc t' = VEnd ∨ (st_pc t = VDsFlag ∧ v_shut s = false) ∨ (st_pc t ≠ VDsFlag ∧ st_pc t ≠ VEnd))) ∨
    (v_thr s !! x = None ∧ st_pc t' = VDsFlag ∧ x = v_next s ∧ it = VConnEnd sid ∧ ev_in (SvConnEnd sid) s').
Proof.
  pose proof (next_fresh _ _ I) as Hnx.
  destruct Hv; unfold st_go, ev_in; simpl in *; intros x t' sid0 Ql Qo; lk; simpl in *; try done; eauto 10.
  all: try (left; eexists; split; [done|]; split; [done|]; try site_inv; subst;
            solve [ match goal with H : st_pc _ = _ |- _ => rewrite H; naive_solver end
                  | destruct Hpc as [Hpc|Hpc]; rewrite Hpc; naive_solver
                  | destruct Hpc as [Hpc|[Hpc _]]; rewrite Hpc; naive_solver ]).
  - subst op. done.
  - right. simplify_eq. split_and!; try done. left.
  - destruct (connend_cancel_ok sid x0) as (Ho & Hp & _). rewrite Ho in Qo. rewrite Hp. eauto 10.
  - destruct (shnet_cancel_ok x0) as (Ho & Hp & _). rewrite Ho in Qo. rewrite Hp. eauto 10.
  - right. simplify_eq. split_and!; try done. left.
Qed.

Lemma step_vi_ds_ended cfg s it s' (I : SvInv cfg s) (Hok : sitem_ok s it) (Hv : vsr cfg s it s') :
  ∀ tid t sid, v_thr s' !! tid = Some t → st_op t = SConnEnd sid → ev_in (SvConnEnd sid) s'.
Proof.
  intros x t' sid Ql Qo. pose proof (vsr_trace_fwd _ _ _ _ (SvConnEnd sid) Hv) as Hev.
  destruct (ds_thr_bwd _ _ _ _ I Hv _ _ _ Ql Qo) as [(y & Hy & Hoy & Hp)|(Hn & Hp & _ & _ & Hnew)]; [|done].
  apply Hev. eapply (vi_ds_ended _ _ I); eauto.
Qed.

Lemma step_vi_ds_unique cfg s it s' (I : SvInv cfg s) (Hok : sitem_ok s it) (Hv : vsr cfg s it s') :
  ∀ t1 t2 x1 x2 sid, v_thr s' !! t1 = Some x1 → v_thr s' !! t2 = Some x2 → st_op x1 = SConnEnd sid → st_op x2 = SConnEnd sid → t1 = t2.
Proof.
  intros t1 t2 x1 x2 sid H1 H2 O1 O2.
  destruct (ds_thr_bwd _ _ _ _ I Hv _ _ _ H1 O1) as [(y1 & Hy1 & Ho1 & _)|(Hn1 & _ & -> & -> & _)];
  destruct (ds_thr_bwd _ _ _ _ I Hv _ _ _ H2 O2) as [(y2 & Hy2 & Ho2 & _)|(Hn2 & _ & -> & E2 & _)]; try done.
  - eapply (vi_ds_unique _ _ I); eauto.
  - exfalso. subst it. destruct Hok as [_ Hne]. apply Hne. eapply (vi_ds_ended _ _ I); eauto.
  - exfalso. destruct Hok as [_ Hne]. apply Hne. eapply (vi_ds_ended _ _ I); eauto.
Qed.

Lemma connects_app l1 l2 : connects (l1 ++ l2) = connects l1 ++ connects l2.
Proof. apply omap_app. Qed.
Lemma connects_fin_evs tid pc : connects (fin_evs tid pc) = [].
Proof. by destruct pc. Qed.
Lemma elem_of_connects sid tr : sid ∈ connects tr ↔ SvConnect sid ∈ tr.
Proof.
  unfold connects. rewrite elem_of_list_omap. split.
  - intros (e & He & Hm). destruct e; simplify_eq. done.
  - intros He. exists (SvConnect sid). done.
Qed.

Lemma step_vi_connect_once cfg s it s' (I : SvInv cfg s) (Hok : sitem_ok s it) (Hv : vsr cfg s it s') : NoDup (connects (v_trace s')).
Proof.
  pose proof (vi_connect_once _ _ I) as Hc.
  destruct Hv; unfold st_go; simpl; rewrite ?connects_app, ?connects_fin_evs; simpl; try done.
  all: apply NoDup_cons; split; [|done]; rewrite elem_of_connects; exact Hok.
Qed.

Lemma step_vi_ds_noclear cfg s it s' (I : SvInv cfg s) (Hok : sitem_ok s it) (Hv : vsr cfg s it s') :
  ∀ tid t sid, v_thr s' !! tid = Some t → st_op t = SConnEnd sid →
    if sc_noclear cfg then st_pc t = VDsFlag ∨ st_pc t = VDsNoClear ∨ st_pc t = VEnd else st_pc t ≠ VDsNoClear.
Proof.
  pose proof (vi_ds_noclear _ _ I) as Hc. pose proof (next_fresh _ _ I) as Hnx.
  destruct Hv; unfold st_go; simpl in *; intros x t' sid0 Ql Qo; lk; simpl in *; try done; try (by eapply Hc).
  all: try (exfalso; try site_inv; first [congruence | destruct Hop as [Hop|Hop]; congruence]).
  all: try (by (destruct (sc_noclear cfg); auto)).
  all: try (specialize (Hc _ _ _ Ht Qo); try site_inv; destruct (sc_noclear cfg) eqn:Hnc; ds_next_cases;
            solve [ auto | done | match goal with H : st_pc _ = _ |- _ => rewrite H in Hc; naive_solver end ]).
  - subst op. done.
  - destruct (connend_cancel_ok sid x0) as (Ho & Hp & _). rewrite Ho in Qo. rewrite Hp. by eapply Hc.
  - specialize (Hc _ _ _ Ht Qo). destruct (sc_noclear cfg); [|by destruct l].
    destruct Hpc as [Hpc|[Hpc ->]]; [rewrite Hpc in Hc; naive_solver|simpl; auto].
  - destruct (shnet_cancel_ok x0) as (Ho & Hp & _). rewrite Ho in Qo. rewrite Hp. by eapply Hc.
Qed.
