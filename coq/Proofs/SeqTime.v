(** Time- and session-level facts about Mseq (work package seqtime): the lemmas proving the targets of
    Proofs/SeqTargets.v for C03, C04 (time part), C06, C10, C11. The proofs are spread over
      SeqTimeBase  (building blocks, the induction principle for advance_loop with its fuel argument)
      SeqTime1     (C11_shutdown, C03_cancel, C03_fifo', C10_nofile, C06_noclear)
      SeqTime2     (C04_keeps, C04_expires, C03_timeout_exact, C03_timeout_prompt)
      SeqTime3     (C06_clear)
      SeqTime4     (C10_restore)
    and this file adds C04_only_ends_by and collects the statements.

    Deviation from SeqTargets.v: [T_C03_fifo] is false as stated (no hypothesis on the state; two parked
    calls sharing an id refute it: [C03_fifo_refuted]); [C03_fifo'] adds [NoDup (map w_id (st_waiters s))],
    which is [inv_waiter_ids], and [C03_fifo_inv] states it under [Inv]. *)
From Coq Require Import Lia ZifyBool ZifyNat.
From Ldlm Require Import Model.Base Model.Err Model.Seq Proofs.SeqDefs Proofs.SeqLemmasKey Proofs.SeqTargets.
From Ldlm Require Export Proofs.SeqTimeBase Proofs.SeqTime1 Proofs.SeqTime2 Proofs.SeqTime3 Proofs.SeqTime4.
From RecordUpdate Require Import RecordSet.
Import RecordSetNotations.
Local Open Scope Z_scope.

(** ** Steps that only add capacity use *)

Lemma get_lock_create_live name size s o s1 n k : get_lock_create name size s = inr (o, s1) → live s n k → live s1 n k.
Proof.
  unfold get_lock_create. destruct (size <=? 0); [done|]. intros H (ob & Hob & Hk).
  destruct (st_locks s !! name) as [o'|] eqn:Ho.
  - case_bool_decide; [|done]. injection H as <- <-. unfold live. cbn.
    destruct (decide (n = name)) as [->|Hne].
    + rewrite lookup_insert. rewrite Ho in Hob. injection Hob as <-. eauto.
    + rewrite lookup_insert_ne by done. eauto.
  - injection H as <- <-. unfold live. cbn. rewrite lookup_insert_ne by congruence. eauto.
Qed.

Lemma add_key_live name key s n k : live s n k → live (add_key name key s) n k.
Proof.
  intros (ob & Hob & Hk). unfold add_key. destruct (st_locks s !! name) as [o'|] eqn:Ho; [|by exists ob].
  unfold live. cbn. destruct (decide (n = name)) as [->|Hne].
  - rewrite lookup_insert. rewrite Ho in Hob. injection Hob as <-. eexists; split; [done|]. cbn. apply elem_of_app; by left.
  - rewrite lookup_insert_ne by done. eauto.
Qed.

Lemma srv_acquire_live cfg b wid sid name key size lt wt s s' o n k :
  srv_acquire cfg b wid sid name key size lt wt s = (s', o) → live s n k → live s' n k.
Proof.
  unfold srv_acquire. case_bool_decide as Hb; [by intros [= <- <-]|].
  destruct (get_lock_create name size s) as [e|[ob s1]] eqn:Hg; [by intros [= <- <-]|].
  intros H Hl. eapply get_lock_create_live in Hl; [|exact Hg].
  destruct (can_acquire name ob s1).
  - injection H as <- <-. unfold live. rewrite rg_locks. by apply add_key_live.
  - destruct b; injection H as <- <-; done.
Qed.

Lemma srv_unlock_live cfg n' k' s s' r o n k :
  srv_unlock cfg n' k' s = (s', r, o) → (n, k) ≠ (n', k') → live s n k → live s' n k.
Proof.
  unfold srv_unlock. destruct (mgr_unlock _ _ _ _) as [[s1 r1] o1] eqn:Hm. intros H Hne Hl.
  apply mgr_unlock_spec in Hm as (x & Hs & _). cbn in Hs.
  eapply shape_live_keep in Hs; [|exact Hne|exact Hl].
  destruct r1; injection H as <- <- <-; [done|]. unfold live. by rewrite rle_locks.
Qed.

Lemma ipc_unlock_with_live cfg n' k' s s' o n k :
  ipc_unlock_with cfg n' k' s = (s', o) → (n, k) ≠ (n', k') → live s n k → live s' n k.
Proof.
  unfold ipc_unlock_with. destruct (srv_unlock _ _ _ _) as [[s1 [u e]] o1] eqn:Hu. intros H Hne Hl.
  eapply srv_unlock_live in Hu; [|exact Hne|exact Hl]. destruct e; by injection H as <- <-.
Qed.

(** ** C04: the only ways a hold ends *)

Lemma C04_only_ends_by : T_C04_only_ends_by.
Proof.
  intros cfg s ev s' o n k HI Hev H Hl Hnl.
  destruct ev as [sid|sid|sid name size lt key|wid sid name size lt wt key|sid name key|name key lt|wid|dt|order| | | |name key];
    simpl in H.
  - (* EConnect *) apply det_elem' in H. injection H as -> _. exfalso. apply Hnl. destruct (st_sessions s !! sid); exact Hl.
  - (* EDisconnect *)
    right; right; left. apply det_elem' in H. unfold disconnect in H.
    destruct (cancel_waiters_spec (λ w, bool_decide (w_sid w = sid)) ECtxCanceled s) as (ws' & E & Hws).
    rewrite E in H. clear E. destruct (destroy_session _ _ _) as [s2 o2] eqn:Hd. injection H as -> _.
    apply destroy_session_cases in Hd as [[-> _]|[(_ & _ & ->)|(Hnc & Hshut & l & Hsl & Hf)]].
    + by destruct Hnl.
    + exfalso. apply Hnl. unfold live. by rewrite save_locks.
    + cbn in *. destruct (decide (Exists (λ c, (cl_name c, cl_key c) = (n, k)) l)) as [(c & Hc & [= <- <-])%Exists_exists|Hno].
      * exists sid, (cl_size c). split; [done|]. split; [|done]. exists l. split; [done|]. by destruct c.
      * exfalso. apply Hnl. rewrite <- Forall_Exists_neg, Forall_forall in Hno.
        eapply dfold_frame in Hf as (H1 & _); [apply H1| |exact Hno].
        -- unfold live. by rewrite save_locks.
        -- unfold no_waiter_key. rewrite save_waiters. cbn. intros w [Hw _]%Hws. eapply inv_no_waiter_key; eauto.
  - (* ETryLock *) exfalso. apply Hnl. apply det_elem' in H. unfold srv_trylock in H.
    destruct sid as [sid|]; [|by injection H as -> _]. destruct (opt_neg lt); [by injection H as -> _|].
    symmetry in H. eapply srv_acquire_live in H; [exact H|exact Hl].
  - (* ELock *) exfalso. apply Hnl. apply det_elem' in H. unfold srv_lock in H.
    destruct sid as [sid|]; [|by injection H as -> _]. destruct (opt_neg lt); [by injection H as -> _|].
    destruct (opt_neg wt); [by injection H as -> _|].
    symmetry in H. eapply srv_acquire_live in H; [exact H|exact Hl].
  - (* EUnlock *)
    destruct (decide ((n, k) = (name, key))) as [[= -> ->]|Hne]; [left; eauto|]. exfalso. apply Hnl.
    destruct (srv_unlock cfg name key s) as [[s1 [u e]] o1] eqn:Hu. apply det_elem' in H. injection H as -> _.
    eapply srv_unlock_live; eauto.
  - (* ERenew *) exfalso. apply Hnl. apply det_elem' in H. unfold srv_renew in H.
    repeat case_match; injection H as -> _; exact Hl.
  - (* ECancel *) exfalso. apply Hnl. apply det_elem' in H.
    destruct (cancel_waiters_spec (λ w, bool_decide (w_id w = wid)) ECtxCanceled s) as (ws' & E & _).
    rewrite E in H. injection H as -> _. exact Hl.
  - (* EAdvance *)
    right; right; right; left. exists dt.
    destruct (st_timers s !! tkey n k) as [t|] eqn:Ht.
    + destruct (Z.le_gt_cases (tm_deadline t) (st_now s + Z.max 0 dt)) as [Hle|Hgt]; [eauto|].
      exfalso. apply Hnl. eapply (C04_keeps cfg s dt s' o n k); eauto. rewrite Ht. lia.
    + exfalso. apply Hnl. eapply (C04_keeps cfg s dt s' o n k); eauto. by rewrite Ht.
  - (* ERestart *)
    right; right; right; right. exists order. split; [done|].
    destruct (c_file cfg) eqn:Hfile; [|by left]. right.
    destruct (Z.le_gt_cases (c_default_lt cfg) 0) as [Hle|Hgt]; [done|]. exfalso. apply Hnl.
    destruct (restart_spec _ _ _ _ _ HI Hfile H) as (_ & _ & _ & Hkeep & _).
    destruct Hl as (ob & Hob & Hk).
    assert (0 < c_default_lt cfg) as Hpos by lia.
    assert (Clock n k (lo_size ob) ∈ listing s) as Hc by (destruct (inv_views _ _ HI) as [Hv _]; apply Hv; exists ob; done).
    destruct (Hkeep Hpos _ Hc) as (Hit & _).
    by apply in_table_live in Hit.
  - (* EShutdown *) exfalso. apply Hnl. destruct (C11_shutdown cfg s s' o H) as (_ & _ & Hlocks & _).
    unfold live. by rewrite Hlocks.
  - (* EProbe *) apply det_elem' in H. injection H as -> _. by destruct Hnl.
  - (* EIpcList *) apply det_elem' in H. injection H as -> _. by destruct Hnl.
  - (* EIpcUnlock *)
    destruct (decide (name = n)) as [->|Hne]; [right; left; eauto|]. exfalso. apply Hnl.
    unfold ipc_unlock in H. destruct key as [k'|].
    + case_bool_decide; [by apply elem_of_nil in H|]. apply elem_of_list_singleton in H. symmetry in H.
      eapply ipc_unlock_with_live; eauto. congruence.
    + destruct (ipc_candidates name s) as [|k0 ks]; [apply elem_of_list_singleton in H; by injection H as -> _|].
      apply elem_of_list_In, in_map_iff in H as (k' & H & _). case_bool_decide; [by injection H as -> _|].
      eapply ipc_unlock_with_live; eauto. congruence.
Qed.

(** ** The targets of Proofs/SeqTargets.v proved by this work package, in one place *)

Definition seqtime_targets : Prop :=
  T_C04_only_ends_by ∧ T_C04_expires ∧ T_C04_keeps ∧ T_C10_restore ∧ T_C10_nofile ∧ T_C06_clear ∧ T_C06_noclear ∧
  T_C03_fifo' ∧ T_C03_timeout_exact ∧ T_C03_timeout_prompt ∧ T_C03_cancel ∧ T_C11_shutdown.

Lemma seqtime_targets_hold : seqtime_targets.
Proof.
  unfold seqtime_targets.
  split_and!; [exact C04_only_ends_by|exact C04_expires|exact C04_keeps|exact C10_restore|exact C10_nofile|exact C06_clear
              |exact C06_noclear|exact C03_fifo'|exact C03_timeout_exact|exact C03_timeout_prompt|exact C03_cancel|exact C11_shutdown].
Qed.

