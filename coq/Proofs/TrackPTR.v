(** The simulation relation [TR] between a quiescent state of Mseq and the state of the trace oracle,
    its relation to the in-event relation [LR], the well-formedness [hist_ok_ev] of events, and the
    transfer from emission order to the oracle's sorted order (work package trackp). *)
From Coq Require Import Lia ZifyBool ZifyNat String Sorted.
From Ldlm Require Import Model.Base Model.Err Model.Seq Model.Track Proofs.SeqDefs Proofs.SeqLemmasKey Proofs.SeqInvBase
  Proofs.SeqInvOps Proofs.SeqInvTime Proofs.SeqInv Proofs.SeqTimeBase Proofs.SeqTime1
  Proofs.TrackPBase Proofs.TrackPOrder Proofs.TrackPRel Proofs.TrackPStep.
From RecordUpdate Require Import RecordSet.
Import RecordSetNotations.
Local Open Scope Z_scope.

(** [X j tag]: a failure with this tag at event [j] is excused (see TrackP.v) *)
Record TR (X : nat → string → Prop) (cfg : config) (s : sstate) (t : tstate) : Prop := {
  tr_now : t_now t = st_now s;
  tr_pending : t_pending t = [];
  tr_holds : HR (st_locks s) (st_sessions s) (st_timers s) (st_shut s = false) [] (t_holds t);
  tr_waiters : Forall2 WR (st_waiters s) (t_waiters t);
  tr_keys : KI s t;
  tr_fail : fails_ok X t
}.

(** What the harness guarantees about the events it issues, beyond [ev_ok] (fresh keys and call ids):
    - after EShutdown the server process only answers probes until it is restarted: the harness issues
      nothing but EProbe / ERestart (the lease timers are stopped by the shutdown, while the oracle — like
      the property text — keeps counting leases, so time must not pass for the comparison either);
    - the id the server gives a new connection is fresh (uuid.NewString): it was not drawn before (ghost
      [st_used]), it is not the id of a session of the state (this includes the sessions restored from the state
      file by a restart) and no call is parked under it. The oracle monitors this on the real traces
      ("FRESH:session-id-reused"); [ev_ok] states the same for keys ("FRESH:key-reused");
    - the keys of holds are UUIDs, in particular not the empty string, which the admin Unlock by name
      treats as "no such lock": stated on the state in which the admin command runs (no session's last hold
      of that name has the empty key). *)
Definition hist_ok_ev (s : sstate) (ev : event) : Prop :=
  (st_shut s = true → ev = EProbe ∨ ∃ o, ev = ERestart o) ∧
  match ev with
  | EConnect sid => sid ∉ st_used s ∧ st_sessions s !! sid = None ∧ sid ∉ w_sid <$> st_waiters s
  | EIpcUnlock name None => [] ∉ ipc_candidates name s
  | _ => True
  end.

Lemma hist_ok_ev_noshut s ev : hist_ok_ev s ev → ev ≠ EProbe → (∀ o, ev ≠ ERestart o) → st_shut s = false.
Proof.
  intros [H _] H1 H2. destruct (st_shut s); [|done]. destruct (H eq_refl) as [?|[o ?]]; [done|by destruct (H2 o)].
Qed.

Lemma HR_perm L S T P D hs hs' : hs ≡ₚ hs' → HR L S T P D hs → HR L S T P D hs'.
Proof.
  intros Hp [H1 H2 H3 H4 H5 H6]. split; try done.
  - by rewrite <- Hp.
  - intros h Hh. apply H2. by rewrite Hp.
  - intros c Hc. destruct (H3 c Hc) as [?|(h & ? & ?)]; [by left|]. right. exists h. by rewrite <- Hp.
  - intros h Hh. apply H4. by rewrite Hp.
  - intros HP h Hh. apply H5; [done|]. by rewrite Hp.
Qed.

Lemma HR_P L S T (P P' : Prop) D hs : (P' → P) → HR L S T P D hs → HR L S T P' D hs.
Proof. intros HPP [H1 H2 H3 H4 H5 H6]. split; try done. intros HP'. apply H5. auto. Qed.

Section tr.
  Context (X : nat → string → Prop) (cfg : config).

  Lemma TR_alive s t : Inv cfg s → st_shut s = false → TR X cfg s t → ef (st_now s) (t_holds t) = t_holds t.
  Proof.
    intros HI Hsh [_ _ HH _ _]. apply lfilter_all. intros h Hh. unfold alive.
    rewrite (hr_lease _ _ _ _ _ _ HH Hsh h Hh). unfold tdl.
    destruct (st_timers s !! tkey (h_name h) (h_key h)) as [tm|] eqn:E; [|done]. simpl.
    destruct (inv_timers _ _ HI _ _ E) as (_ & ? & _). lia.
  Qed.

  Lemma TR_LR s t : Inv cfg s → st_shut s = false → TR X cfg s t → LR s [] t.
  Proof.
    intros HI Hsh HT. split; [|split; [apply (tr_waiters _ _ _ _ HT)|apply (tr_keys _ _ _ _ HT)]]. rewrite (TR_alive _ _ HI Hsh HT).
    eapply HR_P; [|apply (tr_holds _ _ _ _ HT)]. done.
  Qed.

  Lemma LR_TR s t : LR s [] t → ef (st_now s) (t_holds t) = t_holds t → t_now t = st_now s → t_pending t = [] →
    fails_ok X t → TR X cfg s t.
  Proof. intros (HH & HW & HK) Ea En Ep HX. split; try done. rewrite <- Ea. eapply HR_P; [|exact HH]. done. Qed.

  (** the tracker after the completions in sorted order, from the tracker after them in emission order *)
  Lemma TR_transfer s t1 t2 : TR X cfg s t1 → tle t1 t2 → TR X cfg s t2.
  Proof.
    intros [H1 H2 H3 H4 H5 H6] (En & Ep & Em & Es & Ek & Ew & Hh & Hf). split.
    - by rewrite En.
    - by rewrite Ep.
    - by eapply HR_perm.
    - by rewrite Ew.
    - unfold KI in *. by rewrite Es, Ek.
    - intros j tag Hx. by apply H6, Hf.
  Qed.

  Lemma ef_done_list i cause cs t a : (∀ c, c ∈ cs → c_at c = a) → ef a (t_holds t) = t_holds t →
    ef a (t_holds (done_list cfg i cause cs t)) = t_holds (done_list cfg i cause cs t).
  Proof.
    revert t. induction cs as [|c cs IH]; intros t Hc Ht; [done|]. simpl. apply IH; [intros; apply Hc; by right|].
    rewrite done1_eq. simpl. unfold dh. destruct (findw _ _); [done|]. rewrite (Hc c) by left.
    by rewrite ef_app, ef_ef, ef_new_hold by lia.
  Qed.
End tr.

(** ** A sequence of calls giving up (cancel_waiters) *)

Lemma leave_fold_LR cfg i cause X e l : ∀ s outs t D,
  NoDup (w_id <$> st_waiters s) → NoDup (w_id <$> l) → (∀ w, w ∈ l → w ∈ st_waiters s) →
  e ≠ ESrvLockWaitTimeout → cause = Some e →
  LR s D t → fails_ok X t →
  let '(s', o) := fold_left (leave_step e) l (s, outs) in
  ∃ o', o = outs ++ o' ∧
    LR s' D (done_list cfg i cause (comps o') t) ∧ fails_ok X (done_list cfg i cause (comps o') t) ∧
    st_locks s' = st_locks s ∧ st_sessions s' = st_sessions s ∧ st_timers s' = st_timers s ∧ st_now s' = st_now s ∧
    st_file s' = st_file s ∧ st_gc_next s' = st_gc_next s ∧ st_used s' = st_used s ∧ st_shut s' = st_shut s ∧
    st_waiters s' = filter (λ w', w_id w' ∉ w_id <$> l) (st_waiters s) ∧
    (∀ c, c ∈ comps o' → c_at c = st_now s ∧ rlock c ∧ c_wid c ∈ w_id <$> l ∧ is_grant (c_resp c) = false) ∧
    NoDup (c_wid <$> comps o').
Proof.
  induction l as [|w l IH]; intros s outs t D Hnd Hndl Hsub Hne Hc HL HX.
  - simpl. exists []. rewrite app_nil_r. split_and!; try done.
    + symmetry. apply filter_all. intros w _. apply not_elem_of_nil.
    + by intros c ?%elem_of_nil.
  - rewrite fmap_cons in Hndl. apply NoDup_cons in Hndl as [Hwl Hndl].
    assert (w ∈ st_waiters s) as Hw by (apply Hsub; left).
    pose proof (leave_LR cfg i cause X w e s D t Hnd Hw HL HX (or_intror (conj Hne Hc))) as Hstep.
    cbn [fold_left]. unfold leave_step at 2. destruct (waiter_leave w e s) as [s1 o1] eqn:E1.
    unfold waiter_leave in E1. injection E1 as <- <-. destruct Hstep as [HL1 HX1].
    set (s1 := s <| st_waiters := filter (λ w', bool_decide (w_id w' ≠ w_id w)) (st_waiters s) |>) in *.
    set (o1 := [OWaiter (w_id w) (st_now s) (RLock false (w_key w) (Some e))]) in *.
    specialize (IH s1 (outs ++ o1) (done_list cfg i cause (comps o1) t) D).
    destruct (fold_left (leave_step e) l (s1, outs ++ o1)) as [s' o] eqn:Ef.
    destruct IH as (o' & -> & HL' & HX' & E2 & E3 & E4 & E5 & E6 & E7 & E8 & E9 & E10 & Hcs & Hndc); try done.
    + unfold s1. simpl. by apply NoDup_fmap_filter.
    + intros w' Hw'. unfold s1. simpl. apply elem_of_list_filter. split; [|apply Hsub; by right].
      apply bool_decide_pack. intros E. apply Hwl. rewrite <- E. apply elem_of_list_fmap. eauto.
    + exists (o1 ++ o'). rewrite comps_app, done_list_app. split; [by rewrite app_assoc|].
      split_and!; try done.
      * rewrite E10. unfold s1. simpl. rewrite list_filter_filter. apply list_filter_iff. intros w'.
        change (w_id w :: list_fmap waiter nat w_id l) with (w_id w :: (w_id <$> l)). rewrite not_elem_of_cons. split; [intros [? Hb]; by apply bool_decide_unpack in Hb|].
        intros [? ?]. split; [done|by apply bool_decide_pack].
      * intros c [->%elem_of_list_singleton|Hc']%elem_of_app.
        -- unfold c_at, c_wid, rlock, c_resp. simpl. split_and!; try done. left.
        -- destruct (Hcs c Hc') as (? & ? & Hin' & ?). split_and!; try done. rewrite fmap_cons. by right.
      * simpl. apply NoDup_cons. split; [|done]. intros (c & Ec & Hc')%elem_of_list_fmap.
        destruct (Hcs c Hc') as (_ & _ & Hin & _). apply Hwl. unfold c_wid in Ec. simpl in Ec. by rewrite Ec.
Qed.
