(** Proofs about Model/Auth.v (property C16). *)
From Coq Require Import String Lia.
From Ldlm Require Import Model.Base Model.Auth.

Local Open Scope list_scope.

(* ------------------------------------------------------------------------- *)
(** * Byte strings *)

Lemma byte_eqb_refl x : Byte.eqb x x = true.
Proof. apply Byte.byte_dec_lb; reflexivity. Qed.

Lemma byte_eqb_eq x y : Byte.eqb x y = true <-> x = y.
Proof. split; [apply Byte.byte_dec_bl | apply Byte.byte_dec_lb]. Qed.

Lemma byte_eqb_neq x y : Byte.eqb x y = false <-> x <> y.
Proof.
  split; [apply Byte.eqb_false|].
  intros H. destruct (Byte.eqb x y) eqn:E; [|reflexivity]. apply byte_eqb_eq in E. contradiction.
Qed.

Lemma bytes_eqb_eq a b : bytes_eqb a b = true <-> a = b.
Proof.
  revert b; induction a as [|x a IH]; intros [|y b]; cbn; split; try congruence; try discriminate.
  - intros [H1 H2]%andb_true_iff. apply byte_eqb_eq in H1. apply IH in H2. congruence.
  - intros [= -> ->]. rewrite byte_eqb_refl. cbn. apply IH; reflexivity.
Qed.

Lemma bytes_eqb_refl a : bytes_eqb a a = true.
Proof. apply bytes_eqb_eq; reflexivity. Qed.

Lemma is_empty_true s : is_empty s = true <-> s = [].
Proof. destruct s; cbn; split; congruence. Qed.

Lemma is_empty_false s : is_empty s = false <-> s <> [].
Proof. destruct s; cbn; split; congruence. Qed.

Lemma is_prefix_spec p s : is_prefix p s = true <-> exists t, s = p ++ t.
Proof.
  revert s; induction p as [|x p IH]; intros s; cbn.
  - split; eauto.
  - destruct s as [|y s]; cbn.
    + split; [discriminate|]. intros [t [=]].
    + rewrite andb_true_iff, byte_eqb_eq, IH. split.
      * intros [-> [t ->]]. eauto.
      * intros [t [= -> ->]]. eauto.
Qed.

Lemma is_prefix_app p t : is_prefix p (p ++ t) = true.
Proof. apply is_prefix_spec; eauto. Qed.

Lemma skipn_length_app {A} (p t : list A) : skipn (length p) (p ++ t) = t.
Proof. induction p; cbn; auto. Qed.

(** The leftmost occurrence: what [find_sep] returns is a decomposition of [s]. *)
Lemma find_sep_some sep s a b : find_sep sep s = Some (a, b) -> s = a ++ sep ++ b.
Proof.
  revert a b; induction s as [|c r IH]; intros a b; cbn [find_sep].
  - destruct (is_prefix sep []) eqn:E; [|discriminate].
    apply is_prefix_spec in E as [t E]. intros [= <- <-].
    symmetry in E. apply app_eq_nil in E as [-> ->]. reflexivity.
  - destruct (is_prefix sep (c :: r)) eqn:E.
    + apply is_prefix_spec in E as [t E]. intros [= <- <-].
      rewrite E. rewrite skipn_length_app. reflexivity.
    + destruct (find_sep sep r) as [[a' b']|] eqn:F; [|discriminate].
      intros [= <- <-]. rewrite (IH _ _ eq_refl). reflexivity.
Qed.

(** No occurrence when a byte of the separator does not occur at all. *)
Lemma find_sep_none_byte c sep s : In c sep -> ~ In c s -> find_sep sep s = None.
Proof.
  intros Hc Hs. destruct (find_sep sep s) as [[a b]|] eqn:F; [|reflexivity].
  apply find_sep_some in F. subst s. exfalso. apply Hs.
  rewrite !in_app_iff. auto.
Qed.

(** Single-byte separators (":"): the first part is free of it, and conversely. *)
Lemma find_sep_byte_some c s a b :
  find_sep [c] s = Some (a, b) -> s = a ++ [c] ++ b /\ ~ In c a.
Proof.
  revert a b; induction s as [|x r IH]; intros a b; cbn [find_sep is_prefix].
  - discriminate.
  - destruct (Byte.eqb c x) eqn:E; cbn [andb].
    + apply byte_eqb_eq in E as <-. cbn. intros [= <- <-]. split; [reflexivity|tauto].
    + apply byte_eqb_neq in E.
      destruct (find_sep [c] r) as [[a' b']|] eqn:F; [|discriminate].
      intros [= <- <-]. destruct (IH _ _ eq_refl) as [-> Hn]. split; [reflexivity|].
      cbn. intros [->|?]; tauto.
Qed.

Lemma find_sep_byte_app c a b : ~ In c a -> find_sep [c] (a ++ [c] ++ b) = Some (a, b).
Proof.
  induction a as [|x a IH]; intros Hn.
  - cbn. rewrite byte_eqb_refl. reflexivity.
  - cbn [app find_sep is_prefix].
    assert (Byte.eqb c x = false) as -> by (apply byte_eqb_neq; intros ->; apply Hn; left; reflexivity).
    cbn [andb]. change (a ++ c :: b) with (a ++ [c] ++ b). rewrite IH; [reflexivity|].
    intros ?; apply Hn; right; assumption.
Qed.

(** ** strings.Split *)

(** Each cut consumes at least one byte when the separator is not empty. *)
Lemma find_sep_shorter sep s a b :
  sep <> [] -> find_sep sep s = Some (a, b) -> length b < length s.
Proof.
  intros Hsep F. apply find_sep_some in F. subst s. rewrite !app_length.
  destruct sep; [congruence|]. cbn. lia.
Qed.

(** More fuel than [length s] changes nothing: the out-of-fuel branch is unreachable. *)
Lemma go_split_fuel_enough sep s n m :
  sep <> [] -> length s <= n -> length s <= m -> go_split_fuel n sep s = go_split_fuel m sep s.
Proof.
  intros Hsep. revert s m; induction n as [|n IH]; intros s m Hn Hm.
  - destruct s; [|cbn in Hn; lia].
    assert (find_sep sep [] = None) as F.
    { destruct (find_sep sep []) as [[a b]|] eqn:F; [|reflexivity].
      apply find_sep_shorter in F; [cbn in F; lia|assumption]. }
    destruct m; cbn [go_split_fuel]; rewrite F; reflexivity.
  - cbn [go_split_fuel]. destruct (find_sep sep s) as [[a b]|] eqn:F.
    + pose proof (find_sep_shorter _ _ _ _ Hsep F).
      destruct m; [lia|]. cbn [go_split_fuel]. rewrite F. f_equal. apply IH; lia.
    + destruct m; cbn [go_split_fuel]; rewrite F; reflexivity.
Qed.

Lemma go_split_fuel_nonempty n sep s : go_split_fuel n sep s <> [].
Proof. destruct n; cbn [go_split_fuel]; destruct (find_sep sep s) as [[a b]|]; discriminate. Qed.

(** Exactly two parts: one occurrence, and none in the remainder. *)
Lemma go_split_two sep s a b :
  sep <> [] ->
  go_split sep s = [a; b] ->
  find_sep sep s = Some (a, b) /\ find_sep sep b = None /\ s = a ++ sep ++ b.
Proof.
  intros Hsep. unfold go_split. destruct (length s) as [|n] eqn:L; cbn [go_split_fuel].
  - destruct (find_sep sep s) as [[a' b']|]; discriminate.
  - destruct (find_sep sep s) as [[a' b']|] eqn:F; [|discriminate].
    intros [= -> H].
    pose proof (find_sep_shorter _ _ _ _ Hsep F) as Hlt. rewrite L in Hlt.
    assert (b' = b /\ find_sep sep b' = None) as [-> Hb].
    { destruct (find_sep sep b') as [[a2 b2]|] eqn:F2.
      - exfalso. pose proof (find_sep_shorter _ _ _ _ Hsep F2) as Hlt2.
        destruct n; [lia|]. cbn [go_split_fuel] in H. rewrite F2 in H.
        injection H as _ H. exact (go_split_fuel_nonempty _ _ _ H).
      - destruct n; cbn [go_split_fuel] in H; rewrite F2 in H; injection H as ->; auto. }
    split; [reflexivity|]. split; [assumption|]. apply find_sep_some; assumption.
Qed.

Lemma go_split_one_occurrence sep a b :
  sep <> [] -> find_sep sep (a ++ sep ++ b) = Some (a, b) -> find_sep sep b = None ->
  go_split sep (a ++ sep ++ b) = [a; b].
Proof.
  intros Hsep F Hb. unfold go_split.
  destruct (length (a ++ sep ++ b)) as [|n] eqn:L.
  - rewrite !app_length in L. destruct sep; [congruence|]. cbn in L. lia.
  - cbn [go_split_fuel]. rewrite F. f_equal.
    destruct n; cbn [go_split_fuel]; rewrite Hb; reflexivity.
Qed.

(* ------------------------------------------------------------------------- *)
(** * base64 *)

Lemma b64_sextet_char s : b64_sextet (b64_char s) = Some s.
Proof.
  destruct s as [[[[[a b] c] d] e] f].
  destruct a, b, c, d, e, f; vm_compute; reflexivity.
Qed.

Lemma b64_char_not_special s :
  b64_char s <> x20 /\ b64_char s <> pad_char /\ b64_char s <> x0a /\ b64_char s <> x0d.
Proof.
  destruct s as [[[[[a b] c] d] e] f].
  destruct a, b, c, d, e, f; vm_compute; repeat split; discriminate.
Qed.

Lemma dec_enc_1 x y : dec_b1 (enc_s1 x) (enc_s2 x y) = x.
Proof.
  unfold dec_b1, enc_s1, enc_s2.
  destruct (bits_msb y) as [[[[[[[y7 y6] y5] y4] y3] y2] y1] y0].
  destruct x; reflexivity.
Qed.

Lemma dec_enc_2 x y z : dec_b2 (enc_s2 x y) (enc_s3 y z) = y.
Proof.
  unfold dec_b2, enc_s2, enc_s3.
  destruct (bits_msb x) as [[[[[[[x7 x6] x5] x4] x3] x2] x1] x0].
  destruct (bits_msb z) as [[[[[[[z7 z6] z5] z4] z3] z2] z1] z0].
  destruct y; reflexivity.
Qed.

Lemma dec_enc_3 y z : dec_b3 (enc_s3 y z) (enc_s4 z) = z.
Proof.
  unfold dec_b3, enc_s3, enc_s4.
  destruct (bits_msb y) as [[[[[[[y7 y6] y5] y4] y3] y2] y1] y0].
  destruct z; reflexivity.
Qed.

(** One step of the decoder on a digit of the alphabet. *)
Lemma b64dec_digit q s r :
  b64dec q (b64_char s :: r) =
  match q with
  | Q0 => b64dec (Q1 s) r
  | Q1 a => b64dec (Q2 a s) r
  | Q2 a b => b64dec (Q3 a b s) r
  | Q3 a b c =>
      match b64dec Q0 r with
      | Some t => Some (dec_b1 a b :: dec_b2 b c :: dec_b3 c s :: t)
      | None => None
      end
  end.
Proof. cbn [b64dec]. rewrite b64_sextet_char. reflexivity. Qed.

Lemma b64_sextet_pad : b64_sextet pad_char = None.
Proof. vm_compute; reflexivity. Qed.

Lemma b64dec_pad q r :
  b64dec q (pad_char :: r) =
  match q with
  | Q0 | Q1 _ => None
  | Q2 a b =>
      match skip_nl r with
      | p :: r' => if is_pad p then (if is_empty (skip_nl r') then Some [dec_b1 a b] else None) else None
      | [] => None
      end
  | Q3 a b c => if is_empty (skip_nl r) then Some [dec_b1 a b; dec_b2 b c] else None
  end.
Proof. cbn [b64dec]. rewrite b64_sextet_pad. reflexivity. Qed.

(** Induction three elements at a time. *)
Lemma list_ind3 {A} (P : list A -> Prop) :
  P [] -> (forall x, P [x]) -> (forall x y, P [x; y]) ->
  (forall x y z r, P r -> P (x :: y :: z :: r)) -> forall l, P l.
Proof.
  intros H0 H1 H2 H3 l.
  assert (forall n l, length l <= n -> P l) as H.
  { induction n as [|n IH]; intros [|x [|y [|z r]]] Hl; cbn in Hl; auto; try lia.
    apply H3. apply IH. lia. }
  apply (H (length l)). lia.
Qed.

(** [DecodeString(EncodeToString(l)) = l, nil]. *)
Theorem b64_roundtrip l : b64decode (b64encode l) = Some l.
Proof.
  unfold b64decode. induction l as [|x|x y|x y z r IH] using list_ind3.
  - reflexivity.
  - cbn [b64encode]. rewrite !b64dec_digit, b64dec_pad. cbn. rewrite dec_enc_1. reflexivity.
  - cbn [b64encode]. rewrite !b64dec_digit, b64dec_pad. cbn. rewrite dec_enc_1, dec_enc_2. reflexivity.
  - cbn [b64encode]. rewrite !b64dec_digit, IH. rewrite dec_enc_1, dec_enc_2, dec_enc_3. reflexivity.
Qed.

(** The encoder's output has no space, hence no "Basic ". *)
Lemma b64encode_no_space l : ~ In x20 (b64encode l).
Proof.
  induction l as [|x|x y|x y z r IH] using list_ind3; cbn [b64encode In].
  - tauto.
  - pose proof (b64_char_not_special (enc_s1 x)). pose proof (b64_char_not_special (enc_s2 x x00)).
    intros [?|[?|[?|[?|[]]]]]; try discriminate; intuition congruence.
  - pose proof (b64_char_not_special (enc_s1 x)). pose proof (b64_char_not_special (enc_s2 x y)).
    pose proof (b64_char_not_special (enc_s3 y x00)).
    intros [?|[?|[?|[?|[]]]]]; try discriminate; intuition congruence.
  - pose proof (b64_char_not_special (enc_s1 x)). pose proof (b64_char_not_special (enc_s2 x y)).
    pose proof (b64_char_not_special (enc_s3 y z)). pose proof (b64_char_not_special (enc_s4 z)).
    intros [?|[?|[?|[?|?]]]]; intuition congruence.
Qed.

(* ------------------------------------------------------------------------- *)
(** * REST password check *)

Lemma basic_sp_nonempty : basic_sp <> [].
Proof. discriminate. Qed.
Lemma colon_nonempty : colon <> [].
Proof. discriminate. Qed.

(** What an accepted header looks like, in full: exactly one occurrence of "Basic ", followed by
    the base64 of [user ":" pw] up to the end of the header. *)
Lemma rest_password_ok_inv pw hdr :
  pw <> [] -> rest_password_ok pw hdr = true ->
  exists pre b user,
    hdr = pre ++ basic_sp ++ b /\ b64decode b = Some (user ++ colon ++ pw) /\ ~ In x3a user
    /\ find_sep basic_sp hdr = Some (pre, b) /\ find_sep basic_sp b = None.
Proof.
  intros Hpw. unfold rest_password_ok.
  destruct (is_empty pw) eqn:E; [apply is_empty_true in E; congruence|].
  destruct (go_split basic_sp hdr) as [|pre [|b [|? ?]]] eqn:S; try discriminate.
  apply (go_split_two _ _ _ _ basic_sp_nonempty) in S as (F1 & F2 & ->).
  destruct (b64decode b) as [d|] eqn:D; [|discriminate].
  unfold go_splitn2. destruct (find_sep colon d) as [[user p]|] eqn:C; [|discriminate].
  intros ->%bytes_eqb_eq. apply find_sep_byte_some in C as [-> Hn].
  exists pre, b, user. auto.
Qed.

Theorem rest_sound pw hdr :
  pw <> [] -> rest_password_ok pw hdr = true ->
  exists pre b user,
    hdr = pre ++ basic_sp ++ b /\ b64decode b = Some (user ++ colon ++ pw) /\ ~ In x3a user.
Proof.
  intros Hpw H. destruct (rest_password_ok_inv _ _ Hpw H) as (pre & b & user & ? & ? & ? & _).
  exists pre, b, user. auto.
Qed.

(** The canonical client header is accepted — for every password (an empty configured password
    accepts everything) and every colon-free user name; no other side condition is needed
    because base64 text contains no space and therefore no second "Basic ". *)
Theorem rest_complete pw user :
  ~ In x3a user ->
  rest_password_ok pw (basic_sp ++ b64encode (user ++ colon ++ pw)) = true.
Proof.
  intros Hu. unfold rest_password_ok. destruct (is_empty pw); [reflexivity|].
  set (e := b64encode (user ++ colon ++ pw)).
  assert (find_sep basic_sp e = None) as Fe.
  { apply (find_sep_none_byte x20); [cbn; tauto|apply b64encode_no_space]. }
  assert (find_sep basic_sp ([] ++ basic_sp ++ e) = Some ([], e)) as F.
  { cbn [app]. destruct (basic_sp ++ e) eqn:X; [discriminate X|]. rewrite <- X.
    unfold find_sep at 1. rewrite X at 1. rewrite <- X.
    rewrite is_prefix_app, skipn_length_app. reflexivity. }
  rewrite (go_split_one_occurrence basic_sp [] e basic_sp_nonempty F Fe : go_split basic_sp (basic_sp ++ e) = _).
  subst e. rewrite b64_roundtrip. unfold go_splitn2, colon. rewrite (find_sep_byte_app x3a user pw Hu).
  apply bytes_eqb_refl.
Qed.

(** ** The decidable "carries the password" predicate is the existential of the design. *)
Lemma carries_at_spec pw b :
  carries_at pw b = true <-> exists user, b64decode b = Some (user ++ colon ++ pw) /\ ~ In x3a user.
Proof.
  unfold carries_at. split.
  - destruct (b64decode b) as [d|]; [|discriminate].
    destruct (find_sep colon d) as [[u p]|] eqn:C; [|discriminate].
    intros ->%bytes_eqb_eq. apply find_sep_byte_some in C as [-> Hn]. eauto.
  - intros (user & -> & Hn). unfold colon. rewrite (find_sep_byte_app x3a user pw Hn). apply bytes_eqb_refl.
Qed.

Theorem rest_carries_spec pw hdr :
  rest_carries pw hdr = true <->
  exists pre b user,
    hdr = pre ++ basic_sp ++ b /\ b64decode b = Some (user ++ colon ++ pw) /\ ~ In x3a user.
Proof.
  split.
  - induction hdr as [|c r IH].
    + cbn [rest_carries]. rewrite orb_false_r. intros [P C]%andb_true_iff.
      apply is_prefix_spec in P as [t P]. destruct basic_sp eqn:B; discriminate.
    + cbn [rest_carries]. intros [[P C]%andb_true_iff|H]%orb_true_iff.
      * apply is_prefix_spec in P as [t P]. rewrite P, skipn_length_app in C.
        apply carries_at_spec in C as (user & D & Hn). exists [], t, user. rewrite P. auto.
      * destruct (IH H) as (pre & b & user & -> & D & Hn). exists (c :: pre), b, user. auto.
  - intros (pre & b & user & -> & D & Hn). induction pre as [|c pre IH].
    + cbn [app]. destruct (basic_sp ++ b) eqn:X; [discriminate X|]. rewrite <- X.
      unfold rest_carries. rewrite X at 1. rewrite <- X. fold rest_carries.
      rewrite is_prefix_app, skipn_length_app.
      assert (carries_at pw b = true) as -> by (apply carries_at_spec; eauto). reflexivity.
    + cbn [app rest_carries]. rewrite IH. apply orb_true_r.
Qed.

Corollary rest_ok_carries pw hdr :
  pw <> [] -> rest_password_ok pw hdr = true -> rest_carries pw hdr = true.
Proof. intros H1 H2. apply rest_carries_spec. apply rest_sound; assumption. Qed.

(** ** The gate *)
Theorem rest_gate_rejects {state} (proceed : rest_req -> state -> state * http_resp) pw rq :
  rest_password_ok pw (rq_authorization rq) = false ->
  forall st, rest_gate proceed pw rq st = (st, resp_401).
Proof. intros H st. unfold rest_gate. rewrite H. reflexivity. Qed.

Theorem rest_gate_accepts {state} (proceed : rest_req -> state -> state * http_resp) pw rq :
  rest_password_ok pw (rq_authorization rq) = true ->
  forall st, rest_gate proceed pw rq st = proceed rq st.
Proof. intros H st. unfold rest_gate. rewrite H. reflexivity. Qed.

(* ------------------------------------------------------------------------- *)
(** * gRPC *)

Theorem grpc_ok_iff pw md :
  pw <> [] ->
  (grpc_password_ok pw md = true <-> exists rest, md = Some (pw :: rest)).
Proof.
  intros Hpw. unfold grpc_password_ok, grpc_gate.
  destruct (is_empty pw) eqn:E; [apply is_empty_true in E; congruence|].
  unfold grpc_interceptor. destruct md as [[|v l]|].
  - split; [discriminate|intros [? [=]]].
  - destruct (bytes_eqb v pw) eqn:B.
    + apply bytes_eqb_eq in B as ->. split; eauto.
    + split; [discriminate|]. intros [? [= -> ->]]. rewrite bytes_eqb_refl in B. discriminate.
  - split; [discriminate|intros [? [=]]].
Qed.

(** Rejections are Unauthenticated unless the metadata is the empty non-nil slice that the
    transport never produces. *)
Theorem grpc_reject_unauthenticated pw md :
  md <> Some [] ->
  match grpc_gate pw md with AuthPanic => False | _ => True end.
Proof.
  intros H. unfold grpc_gate, grpc_interceptor. destruct (is_empty pw); [exact I|].
  destruct md as [[|v l]|]; [congruence| |exact I]. destruct (bytes_eqb v pw); exact I.
Qed.

Theorem grpc_no_password_accepts md : grpc_password_ok [] md = true.
Proof. reflexivity. Qed.

(** The gate in front of any method's handler: a rejected call leaves the state alone, returns
    no response message and its status does not depend on the state. *)
Theorem grpc_serve_rejects {state req resp} (handler : req -> state -> state * resp) pw md r :
  grpc_password_ok pw md = false ->
  forall st, grpc_serve handler pw md r st = (st, inl (grpc_gate pw md)) /\ grpc_gate pw md <> AuthAccept.
Proof.
  unfold grpc_password_ok, grpc_serve. intros H st.
  destruct (grpc_gate pw md); [discriminate| | |]; split; (reflexivity || discriminate).
Qed.

Theorem grpc_serve_accepts {state req resp} (handler : req -> state -> state * resp) pw md r :
  grpc_password_ok pw md = true ->
  forall st, grpc_serve handler pw md r st = (fst (handler r st), inr (snd (handler r st))).
Proof.
  unfold grpc_password_ok, grpc_serve. intros H st.
  destruct (grpc_gate pw md); try discriminate. destruct (handler r st); reflexivity.
Qed.

(* ------------------------------------------------------------------------- *)
(** * TLS *)

Lemma load_pair_empty_key o cert : oracle_wf o -> load_x509_key_pair o cert [] = false.
Proof. unfold oracle_wf, load_x509_key_pair. intros ->. destruct (fo_read o cert); reflexivity. Qed.

Lemma load_pair_empty_cert o key : oracle_wf o -> load_x509_key_pair o [] key = false.
Proof. unfold oracle_wf, load_x509_key_pair. intros ->. reflexivity. Qed.

(** GetTLSConfig never returns a TLS configuration without a server certificate, and client
    verification is RequireAndVerifyClientCert exactly when a CA or the flag is configured. *)
Lemma tls_decision_TLS sc o c :
  tls_decision sc o = TLS c ->
  sc_cert sc <> [] /\ load_x509_key_pair o (sc_cert sc) (sc_key sc) = true /\ tc_certs c = true
  /\ tc_client_auth c = (if verify_configured sc then RequireAndVerifyClientCert else NoClientCert)
  /\ tc_client_cas c = negb (is_empty (sc_ca sc)).
Proof.
  unfold tls_decision, verify_configured.
  destruct sc as [cert key v ca pw]; cbn [sc_cert sc_key sc_verify sc_ca].
  destruct cert as [|c0 cert]; cbn [is_empty negb].
  - destruct ca; cbn [is_empty negb].
    + destruct v; discriminate.
    + destruct (fo_read o _); [|discriminate]. destruct (fo_append_pem o _); discriminate.
  - destruct (load_x509_key_pair o (c0 :: cert) key); [|discriminate].
    destruct ca as [|a0 ca]; cbn [is_empty negb].
    + destruct v; cbn; intros [= <-]; cbn; repeat split; congruence.
    + destruct (fo_read o _); [|discriminate]. destruct (fo_append_pem o _); [|discriminate].
      cbn. intros [= <-]. cbn. rewrite orb_true_r. repeat split; congruence.
Qed.

Lemma tls_decision_NoTLS sc o :
  tls_decision sc o = NoTLS -> tls_configured sc = false.
Proof.
  unfold tls_decision, tls_configured.
  destruct sc as [cert key v ca pw]; cbn [sc_cert sc_key sc_verify sc_ca].
  destruct cert as [|c0 cert]; cbn [is_empty negb].
  - destruct ca; cbn [is_empty negb].
    + destruct v; [discriminate|reflexivity].
    + destruct (fo_read o _); [|discriminate]. destruct (fo_append_pem o _); discriminate.
  - destruct (load_x509_key_pair o (c0 :: cert) key); [|discriminate].
    destruct ca as [|a0 ca]; cbn [is_empty negb].
    + destruct v; discriminate.
    + destruct (fo_read o _); [|discriminate]. destruct (fo_append_pem o _); discriminate.
Qed.

(** The decision table of GetTLSConfig over all flag combinations and every file oracle. *)
Theorem tls_decision_table sc o :
  oracle_wf o ->
  match tls_decision sc o with
  | TlsErr _ => True
  | NoTLS => sc_cert sc = [] /\ sc_verify sc = false /\ sc_ca sc = []
  | TLS c =>
      sc_cert sc <> [] /\ sc_key sc <> [] /\ tc_certs c = true
      /\ (sc_verify sc = true \/ sc_ca sc <> [] -> tc_client_auth c = RequireAndVerifyClientCert)
      /\ (sc_verify sc = false -> sc_ca sc = [] -> tc_client_auth c = NoClientCert)
      /\ (sc_ca sc <> [] <-> tc_client_cas c = true)
  end.
Proof.
  intros W. destruct (tls_decision sc o) as [e| |c] eqn:D; [exact I| |].
  - apply tls_decision_NoTLS in D. unfold tls_configured in D.
    destruct (is_empty (sc_cert sc)) eqn:E1, (sc_verify sc), (is_empty (sc_ca sc)) eqn:E3; cbn in D; try discriminate.
    apply is_empty_true in E1, E3. auto.
  - apply tls_decision_TLS in D as (Hc & L & C & A & K).
    assert (sc_key sc <> []) as Hk.
    { intros E. rewrite E, load_pair_empty_key in L by assumption. discriminate. }
    repeat split; try assumption.
    + intros Hv. rewrite A. unfold verify_configured. destruct Hv as [->|Hv]; [reflexivity|].
      apply is_empty_false in Hv. rewrite Hv. rewrite orb_true_r. reflexivity.
    + intros Hv Ha. rewrite A. unfold verify_configured. rewrite Hv, Ha. reflexivity.
    + intros Ha. rewrite K. apply is_empty_false in Ha. rewrite Ha. reflexivity.
    + intros Ht. rewrite K in Ht. apply is_empty_false. destruct (is_empty (sc_ca sc)); [discriminate|reflexivity].
Qed.

(** The main TLS theorem: for every security configuration, environment and file-system
    behaviour (possibly different at each of the three reads), the outcome of start-up
    satisfies the property's predicate. *)
Theorem tls_enforced_startup sc env o1 o2 o3 :
  oracle_wf o1 -> oracle_wf o2 ->
  tls_enforced sc env (startup sc env o1 o2 o3) = true.
Proof.
  intros W1 W2. unfold startup, grpc_listener.
  destruct (env_grpc_listen_ok env); cbn [negb]; [|reflexivity].
  destruct (tls_decision sc o1) as [e|  |c1] eqn:D1; [reflexivity| |].
  - (* gRPC plaintext: nothing TLS-ish is configured *)
    pose proof (tls_decision_NoTLS _ _ D1) as NC.
    assert (verify_configured sc = false) as NV.
    { unfold tls_configured in NC. unfold verify_configured.
      destruct (is_empty (sc_cert sc)), (sc_verify sc), (is_empty (sc_ca sc)); cbn in *; congruence. }
    assert (is_empty (sc_cert sc) = true) as EC.
    { unfold tls_configured in NC. destruct (is_empty (sc_cert sc)); cbn in NC; congruence. }
    destruct (env_rest_configured env) eqn:RC.
    + unfold rest_listener, rest_new.
      destruct (tls_decision sc o2) as [e| |c2] eqn:D2; [reflexivity| |].
      * unfold rest_serve. rewrite EC. cbn [negb andb].
        destruct (env_rest_listen_ok env); [|reflexivity].
        cbn [tls_enforced]. rewrite NC, NV, RC. cbn.
        destruct (is_empty (sc_password sc)); reflexivity.
      * apply tls_decision_TLS in D2 as (Hc & _). apply is_empty_true in EC. congruence.
    + cbn [tls_enforced]. rewrite NC, NV, RC. cbn. destruct (is_empty (sc_password sc)); reflexivity.
  - (* gRPC with TLS *)
    pose proof (tls_decision_TLS _ _ _ D1) as (Hc1 & L1 & C1 & A1 & _).
    assert (is_empty (sc_cert sc) = false) as EC by (apply is_empty_false; assumption).
    assert (is_empty (sc_key sc) = false) as EK.
    { apply is_empty_false. intros K. rewrite K, load_pair_empty_key in L1 by assumption. discriminate. }
    assert (listener_verifies (LTls c1) = verify_configured sc) as V1.
    { cbn. rewrite A1. destruct (verify_configured sc); reflexivity. }
    destruct (env_rest_configured env) eqn:RC.
    + unfold rest_listener, rest_new.
      destruct (tls_decision sc o2) as [e| |c2] eqn:D2; [reflexivity| |].
      * apply tls_decision_NoTLS in D2. unfold tls_configured in D2. rewrite EC in D2. discriminate.
      * pose proof (tls_decision_TLS _ _ _ D2) as (_ & _ & _ & A2 & _).
        unfold rest_serve. rewrite EC, EK. cbn [negb andb].
        destruct (env_rest_listen_ok env); [|reflexivity]. cbn [negb].
        destruct (load_x509_key_pair o3 (sc_cert sc) (sc_key sc)); [|reflexivity].
        cbn [tls_enforced listeners_of forallb listener_tls listener_verifies tc_client_auth].
        rewrite A2. cbn in V1. rewrite V1. rewrite RC.
        destruct (tls_configured sc), (verify_configured sc), (is_empty (sc_password sc)); reflexivity.
    + cbn [tls_enforced listeners_of forallb listener_tls]. rewrite V1, RC.
      destruct (tls_configured sc), (verify_configured sc), (is_empty (sc_password sc)); reflexivity.
Qed.

(** Start-up succeeds exactly when ... (used by the harness as the expected outcome; also shows
    that the refusal cases of the theorem above are not vacuous). *)
Theorem startup_cert_without_key_fails sc env o1 o2 o3 :
  oracle_wf o1 -> sc_cert sc <> [] -> sc_key sc = [] -> env_grpc_listen_ok env = true ->
  startup sc env o1 o2 o3 = StartErr EGrpc (SETls ErrLoadKeyPair).
Proof.
  intros W Hc Hk HL. unfold startup, grpc_listener, tls_decision. rewrite HL. cbn [negb].
  apply is_empty_false in Hc. rewrite Hc, Hk, load_pair_empty_key by assumption. reflexivity.
Qed.

Theorem startup_verify_without_cert_fails sc env o1 o2 o3 :
  sc_cert sc = [] -> verify_configured sc = true -> env_grpc_listen_ok env = true ->
  exists e, startup sc env o1 o2 o3 = StartErr EGrpc (SETls e).
Proof.
  intros Hc Hv HL. unfold startup, grpc_listener. rewrite HL. cbn [negb].
  destruct (tls_decision sc o1) as [e| |c] eqn:D; [eauto| |].
  - apply tls_decision_NoTLS in D. unfold tls_configured, verify_configured in *.
    destruct (sc_verify sc), (is_empty (sc_ca sc)), (is_empty (sc_cert sc)); cbn in *; congruence.
  - apply tls_decision_TLS in D as (? & _). congruence.
Qed.

(** A key file alone configures nothing: both listeners are plaintext (the reading decision of
    DESIGN.md, stated so that it can be challenged). *)
Theorem startup_key_only_plain sc env o1 o2 o3 :
  sc_cert sc = [] -> sc_verify sc = false -> sc_ca sc = [] ->
  env_grpc_listen_ok env = true -> env_rest_configured env = true -> env_rest_listen_ok env = true ->
  startup sc env o1 o2 o3 =
    Running LPlain (Some LPlain) (negb (is_empty (sc_password sc))) (negb (is_empty (sc_password sc))).
Proof.
  intros Hc Hv Ha H1 H2 H3. unfold startup, grpc_listener, rest_listener, rest_new, rest_serve, tls_decision.
  rewrite H1, H2, H3, Hc, Hv, Ha. reflexivity.
Qed.

(** The hypothesis [oracle_wf] cannot be dropped: if reading the file named "" succeeded, a
    certificate without a key would give TLS on gRPC and PLAINTEXT on REST. *)
Definition bad_oracle : file_oracle :=
  {| fo_read := fun _ => Some []; fo_x509_pair := fun _ _ => true; fo_append_pem := fun _ => true |}.

Theorem tls_wf_necessary :
  exists sc env o,
    tls_configured sc = true /\ tls_enforced sc env (startup sc env o o o) = false.
Proof.
  exists {| sc_cert := [x63]; sc_key := []; sc_verify := false; sc_ca := []; sc_password := [] |},
         {| env_grpc_listen_ok := true; env_rest_configured := true; env_rest_listen_ok := true |},
         bad_oracle.
  split; vm_compute; reflexivity.
Qed.

(** The boolean predicate, spelled out. *)
Definition tls_enforced_prop (sc : secconf) (env : run_env) (res : startup_result) : Prop :=
  match res with
  | StartErr _ _ | StartPanic => True
  | Running g r gp rp =>
      (env_rest_configured env = true -> exists l, r = Some l)
      /\ (sc_cert sc <> [] \/ sc_verify sc = true \/ sc_ca sc <> [] ->
          forall l, In l (listeners_of g r) -> exists c, l = LTls c)
      /\ (sc_verify sc = true \/ sc_ca sc <> [] ->
          forall l, In l (listeners_of g r) ->
          exists c, l = LTls c /\ tc_client_auth c = RequireAndVerifyClientCert)
      /\ (sc_password sc <> [] -> gp = true /\ rp = true)
  end.

Lemma client_auth_eqb_eq a b : client_auth_eqb a b = true <-> a = b.
Proof. destruct a, b; cbn; split; congruence. Qed.

Lemma tls_enforced_spec sc env res :
  tls_enforced sc env res = true -> tls_enforced_prop sc env res.
Proof.
  destruct res as [| |g r gp rp]; cbn [tls_enforced tls_enforced_prop]; auto.
  intros [[[H1 H2]%andb_true_iff H3]%andb_true_iff H4]%andb_true_iff.
  repeat split.
  - intros E. rewrite E in H3. destruct r; [eauto|discriminate].
  - intros Hc l Hl.
    assert (tls_configured sc = true) as T.
    { unfold tls_configured. destruct Hc as [Hc|[->|Hc]].
      - apply is_empty_false in Hc. rewrite Hc. reflexivity.
      - apply orb_true_iff; left. apply orb_true_r.
      - apply is_empty_false in Hc. rewrite Hc. apply orb_true_r. }
    rewrite T in H1. cbn [negb orb] in H1. rewrite forallb_forall in H1. specialize (H1 l Hl).
    destruct l; [discriminate|eauto].
  - intros Hv l Hl.
    assert (verify_configured sc = true) as T.
    { unfold verify_configured. destruct Hv as [->|Hv]; [reflexivity|].
      apply is_empty_false in Hv. rewrite Hv. apply orb_true_r. }
    rewrite T in H2. cbn [negb orb] in H2. rewrite forallb_forall in H2. specialize (H2 l Hl).
    destruct l as [|c]; [discriminate|]. cbn in H2. apply client_auth_eqb_eq in H2. eauto.
  - apply is_empty_false in H. rewrite H in H4. cbn in H4. apply andb_true_iff in H4. tauto.
  - apply is_empty_false in H. rewrite H in H4. cbn in H4. apply andb_true_iff in H4. tauto.
Qed.

Theorem tls_enforced_startup_prop sc env o1 o2 o3 :
  oracle_wf o1 -> oracle_wf o2 -> tls_enforced_prop sc env (startup sc env o1 o2 o3).
Proof. intros. apply tls_enforced_spec, tls_enforced_startup; assumption. Qed.

(* ------------------------------------------------------------------------- *)
(** * Concrete values for the Examples of Properties/C16.v *)

Definition s_ (x : string) : str := list_byte_of_string x.

(** A file system with three good files "c" (certificate), "k" (its key), "a" (a CA bundle). *)
Definition good_oracle : file_oracle :=
  {| fo_read := fun p : str => if is_empty p then @None str else
                         if bytes_eqb p (s_ "c") || bytes_eqb p (s_ "k") || bytes_eqb p (s_ "a")
                         then Some p else None;
     fo_x509_pair := fun c k => bytes_eqb c (s_ "c") && bytes_eqb k (s_ "k");
     fo_append_pem := fun pem => bytes_eqb pem (s_ "a") |}.

Lemma good_oracle_wf : oracle_wf good_oracle.
Proof. reflexivity. Qed.

Definition full_env : run_env :=
  {| env_grpc_listen_ok := true; env_rest_configured := true; env_rest_listen_ok := true |}.

(** The 16 set/unset combinations, in the order cert, key, verify, ca (cert varies slowest). *)
Definition flag_confs : list secconf :=
  flat_map (fun cert : bool => flat_map (fun key : bool => flat_map (fun v : bool => map (fun ca : bool =>
    {| sc_cert := if cert then s_ "c" else []; sc_key := if key then s_ "k" else [];
       sc_verify := v; sc_ca := if ca then s_ "a" else []; sc_password := [] |})
    bools) bools) bools) bools.

Definition matrix : list startup_result :=
  map (fun sc => startup sc full_env good_oracle good_oracle good_oracle) flag_confs.

Definition tlsL (cas : bool) (a : client_auth) : listener :=
  LTls {| tc_certs := true; tc_client_cas := cas; tc_client_auth := a |}.
Definition both (l : listener) : startup_result := Running l (Some l) false false.
Definition refused (e : tls_err) : startup_result := StartErr EGrpc (SETls e).
