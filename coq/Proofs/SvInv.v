(** Work package svinv: [SvInv] is an invariant of every reachable state of Msv; C05 (Unlock / Renew / expiry racing on one
    hold answer truthfully) and C06 (no crash). *)
From Coq Require Import Lia ZifyBool ZifyNat.
From Ldlm Require Import Model.Base Model.Err Model.Sv Proofs.SeqLemmasKey.
From Ldlm Require Import Proofs.SvDefs Proofs.SvInvBase Proofs.SvInvFrame Proofs.SvInvLock Proofs.SvInvKeys Proofs.SvInvTimer Proofs.SvInvSess Proofs.SvInvAux.
From RecordUpdate Require Import RecordSet.
Import RecordSetNotations.
Local Open Scope Z_scope.

(** ** one explicit step preserves the invariant *)
Lemma svinv_vsr cfg s it s' : SvInv cfg s → sitem_ok s it → vsr cfg s it s' → SvInv cfg s'.
Proof.
  intros I Hok Hv. constructor.
  - eapply step_vi_not_crashed; eauto.
  - eapply step_vi_cap; eauto.
  - eapply step_vi_no_lost_wakeup; eauto.
  - eapply step_vi_queue; eauto.
  - intros tid t sid n k z lt Ht Ho Hp. eapply step_vi_wait_lock; eauto. exists t, sid, k, z, lt. done.
  - eapply step_vi_live_owner; eauto.
  - eapply step_vi_keys_fresh; eauto.
  - eapply step_vi_presented; eauto.
  - eapply step_vi_tm_entry; eauto.
  - eapply step_vi_tm_heap; eauto.
  - eapply step_vi_tm_unique; eauto.
  - eapply step_vi_tm_fired; eauto.
  - eapply step_vi_expire_unique; eauto.
  - eapply step_vi_tm_future; eauto.
  - eapply step_vi_tm_shut; eauto.
  - eapply step_vi_lease; eauto.
  - eapply step_vi_entry_owner; eauto.
  - eapply step_vi_entry_nodup; eauto.
  - intros sid c He Hnl. apply zw_iff. eapply step_vi_zombie; eauto.
  - eapply step_vi_file; eauto.
  - eapply step_vi_nofile; eauto.
  - eapply step_vi_expire_heap; eauto.
  - eapply step_vi_tmadd_pos; eauto.
  - eapply step_vi_renew_pos; eauto.
  - eapply step_vi_cancel_pc; eauto.
  - eapply step_vi_ended_cancel; eauto.
  - eapply step_vi_granted_live; eauto.
  - eapply step_vi_tmadd_live; eauto.
  - eapply step_vi_ds_ended; eauto.
  - eapply step_vi_ds_unique; eauto.
  - eapply step_vi_connect_once; eauto.
  - eapply step_vi_ds_noclear; eauto.
  - eapply step_vi_ds_todo; eauto.
  - eapply step_vi_ds_unlock; eauto.
  - eapply step_vi_unl_notimer; eauto.
  - eapply step_vi_unlocked; eauto.
  - eapply step_vi_expired; eauto.
  - eapply step_vi_sh_flag; eauto.
  - eapply step_vi_sys; eauto.
  - eapply step_vi_next; eauto.
Qed.

Lemma svinv_init cfg : SvInv cfg sv_init.
Proof.
  constructor; unfold sv_init, slive, entry_of, armed_at, delivered, ev_in; simpl; try done; intros;
    repeat match goal with
           | H : ∅ !! _ = Some _ |- _ => by rewrite lookup_empty in H
           | H : ∃ _, _ |- _ => destruct H
           | H : _ ∧ _ |- _ => destruct H
           end; try done.
  - split; [intros (? & ? & ? & _); done|intros (? & Hx & _); by rewrite lookup_empty in Hx].
  - constructor.
Qed.

(** ** time passes: the invariant does not depend on the clock, except that armed timers lie in the future *)
Lemma svinv_now cfg s now' : SvInv cfg s → (∀ tk id tm d, armed_at s tk id tm d → now' < d) → SvInv cfg (s <| v_now := now' |>).
Proof.
  intros I Hfut. constructor.
  - exact (vi_not_crashed _ _ I).
  - exact (vi_cap _ _ I).
  - exact (vi_no_lost_wakeup _ _ I).
  - exact (vi_queue _ _ I).
  - exact (vi_wait_lock _ _ I).
  - exact (vi_live_owner _ _ I).
  - exact (vi_keys_fresh _ _ I).
  - exact (vi_presented _ _ I).
  - exact (vi_tm_entry _ _ I).
  - exact (vi_tm_heap _ _ I).
  - exact (vi_tm_unique _ _ I).
  - exact (vi_tm_fired _ _ I).
  - exact (vi_expire_unique _ _ I).
  - exact Hfut.
  - exact (vi_tm_shut _ _ I).
  - exact (vi_lease _ _ I).
  - exact (vi_entry_owner _ _ I).
  - exact (vi_entry_nodup _ _ I).
  - exact (vi_zombie _ _ I).
  - exact (vi_file _ _ I).
  - exact (vi_nofile _ _ I).
  - exact (vi_expire_heap _ _ I).
  - exact (vi_tmadd_pos _ _ I).
  - exact (vi_renew_pos _ _ I).
  - exact (vi_cancel_pc _ _ I).
  - exact (vi_ended_cancel _ _ I).
  - exact (vi_granted_live _ _ I).
  - exact (vi_tmadd_live _ _ I).
  - exact (vi_ds_ended _ _ I).
  - exact (vi_ds_unique _ _ I).
  - exact (vi_connect_once _ _ I).
  - exact (vi_ds_noclear _ _ I).
  - exact (vi_ds_todo _ _ I).
  - exact (vi_ds_unlock _ _ I).
  - exact (vi_unl_notimer _ _ I).
  - exact (vi_unlocked _ _ I).
  - exact (vi_expired _ _ I).
  - exact (vi_sh_flag _ _ I).
  - exact (vi_sys _ _ I).
  - exact (vi_next _ _ I).
Qed.

(** ** VTick: the due lease timers fire one after the other *)
Definition fire_one (s : svstate) (x : nat * stimer) : svstate :=
  let '(id, tm) := x in
  match tm_st tm with
  | TArmed d => if d <=? v_now s
                then vemit (SvFired id) (spawn (SExpire id) VCbUnlock (s <| v_theap := <[id := tm <| tm_st := TFired |>]> (v_theap s) |>))
                else s
  | _ => s
  end.
Lemma fire_due_eq s : fire_due s = fold_left fire_one (map_to_list (v_theap s)) s.
Proof. reflexivity. Qed.

Lemma fire_fold cfg old l X : NoDup l.*1 → (∀ id tm, (id, tm) ∈ l → v_theap X !! id = Some tm) →
  SvInv cfg (X <| v_now := old |>) →
  (∀ id tm d, v_theap X !! id = Some tm → tm_st tm = TArmed d → d ≤ v_now X → (id, tm) ∈ l) →
  SvInv cfg (fold_left fire_one l X <| v_now := old |>) ∧ v_now (fold_left fire_one l X) = v_now X ∧
  (∀ id tm d, v_theap (fold_left fire_one l X) !! id = Some tm → tm_st tm = TArmed d → v_now X < d).
Proof.
  revert X. induction l as [|[id tm] l IH]; intros X Hnd Hin I Hdue; simpl.
  { split; [done|]. split; [done|]. intros id tm d Hh Hst. destruct (Z.le_gt_cases d (v_now X)) as [Hle|?]; [|lia].
    by apply (Hdue _ _ _ Hh Hst), elem_of_nil in Hle. }
  simpl in Hnd. apply NoDup_cons in Hnd as [Hid Hnd].
  assert (Hh : v_theap X !! id = Some tm) by (apply Hin; left).
  destruct (tm_st tm) as [d| |] eqn:Hst.
  2,3: apply IH; [done|intros; apply Hin; by right|done|];
       intros id0 tm0 d0 Hh0 Hst0 Hle; apply (Hdue _ _ _ Hh0 Hst0) in Hle as [Heq|?]%elem_of_cons; [simplify_eq; congruence|done].
  destruct (Z.leb_spec d (v_now X)) as [Hle|Hgt].
  2:{ apply IH; [done|intros; apply Hin; by right|done|].
      intros id0 tm0 d0 Hh0 Hst0 Hle0; pose proof (Hdue _ _ _ Hh0 Hst0 Hle0) as Hin0; apply elem_of_cons in Hin0 as [Heq|?]; [simplify_eq; rewrite Hst in Hst0; simplify_eq; lia|done]. }
  set (X1 := vemit (SvFired id) (spawn (SExpire id) VCbUnlock (X <| v_theap := <[id := tm <| tm_st := TFired |>]> (v_theap X) |>))).
  assert (v_now X1 = v_now X) as Hnow by done.
  destruct (IH X1) as (I' & Hn' & Hfut'); [done| | | |].
  - intros id0 tm0 Hin0. simpl. rewrite lookup_insert_ne; [apply Hin; by right|].
    intros <-. apply Hid. apply elem_of_list_fmap. exists (id, tm0). done.
  - eapply (svinv_vsr cfg (X <| v_now := old |>) (VTick 0)); [done|done|]. eapply vsr_eq; [|eapply (vsr_fire _ _ id tm d); done]. reflexivity.
  - intros id0 tm0 d0 Hh0 Hst0 Hle0. simpl in Hh0. apply lookup_insert_Some in Hh0 as [[<- <-]|[Hne Hh0]]; [done|].
    rewrite Hnow in Hle0. apply (Hdue _ _ _ Hh0 Hst0) in Hle0 as [Heq|?]%elem_of_cons; [simplify_eq|done].
  - split; [done|]. split; [congruence|]. intros. rewrite <- Hnow. eauto.
Qed.

Lemma svinv_tick cfg s dt : SvInv cfg s → SvInv cfg (fire_due (s <| v_now := v_now s + Z.max 0 dt |>)).
Proof.
  intros I. set (s0 := s <| v_now := v_now s + Z.max 0 dt |>). rewrite fire_due_eq.
  destruct (fire_fold cfg (v_now s) (map_to_list (v_theap s0)) s0) as (I' & Hn' & Hfut').
  - apply NoDup_fst_map_to_list.
  - intros id tm Hin. by apply elem_of_map_to_list.
  - destruct s; exact I.
  - intros id tm d Hh _ _. by apply elem_of_map_to_list.
  - set (X' := fold_left fire_one (map_to_list (v_theap s0)) s0) in *.
    assert (X' = X' <| v_now := v_now s |> <| v_now := v_now s0 |>) as -> by (rewrite <- Hn'; by destruct X').
    apply svinv_now; [done|]. intros tk id tm d (_ & Hh & Hst). simpl in Hh. eapply Hfut'; eauto.
Qed.

(** ** the network stop: contexts end, then a ConnEnd is delivered for every open connection *)
Lemma omap_NoDup_sub {A B} (f g : A → option B) l : (∀ x y, f x = Some y → g x = Some y) → NoDup (omap g l) → NoDup (omap f l).
Proof.
  intros Hfg. induction l as [|x l IH]; simpl; [done|].
  destruct (f x) as [y|] eqn:Hf.
  - rewrite (Hfg _ _ Hf). intros [Hy Hnd]%NoDup_cons. apply NoDup_cons. split; [|auto].
    intros (x' & Hx' & Hf')%elem_of_list_omap. apply Hy. apply elem_of_list_omap. exists x'. eauto.
  - destruct (g x); [intros [_ ?]%NoDup_cons|]; auto.
Qed.
Lemma open_sids_NoDup tr : NoDup (connects tr) → NoDup (open_sids tr).
Proof.
  intros Hnd. unfold open_sids.
  apply (omap_NoDup_sub _ (λ e, match e with SvConnect sid => Some sid | _ => None end)).
  - intros [] y; try done. by case_match.
  - change (NoDup (connects (rev tr))). unfold connects. by rewrite <- (Permutation_rev tr).
Qed.
Lemma ended_in_false tr sid : ended_in tr sid = false → SvConnEnd sid ∉ tr.
Proof.
  intros H Hin. apply (existsb_false _ _ H) in Hin. simpl in Hin. by rewrite bool_decide_eq_true_2 in Hin.
Qed.
Lemma elem_of_open_sids tr sid : sid ∈ open_sids tr → SvConnect sid ∈ tr ∧ SvConnEnd sid ∉ tr.
Proof.
  unfold open_sids. intros (e & He & Hf)%elem_of_list_omap. destruct e; try done.
  destruct (ended_in tr sid0) eqn:Hen; [done|]. simplify_eq. split; [by rewrite <- (Permutation_rev tr) in He|by apply ended_in_false].
Qed.

Lemma spawn_fold cfg (l : list str) X : SvInv cfg X → v_shut X = true → all_cancelled X → NoDup l →
  (∀ sid, sid ∈ l → ev_in (SvConnect sid) X ∧ ¬ ev_in (SvConnEnd sid) X) →
  SvInv cfg (spawn_list l X).
Proof.
  unfold spawn_list. revert X. induction l as [|sid l IH]; intros X I Hsh Hcn Hnd Hl; simpl; [done|].
  apply NoDup_cons in Hnd as [Hsid Hnd]. pose proof (next_fresh _ _ I) as Hnx.
  apply IH; [|done| |done|].
  - eapply (svinv_vsr cfg X (VConnEnd sid)); [done|apply Hl; left|]. eapply vsr_eq; [|by eapply (vsr_sh_spawn _ _ sid)]. reflexivity.
  - intros tid t Ht Hc Hf. simpl in Ht. apply lookup_insert_Some in Ht as [[_ <-]|[_ Ht]]; [done|]. by eapply Hcn.
  - intros sid' Hin. destruct (Hl sid') as [H1 H2]; [by right|]. unfold ev_in in *. simpl. split; [by right|].
    intros [?|?]%elem_of_cons; [|done]. simplify_eq. done.
Qed.

Lemma shnet_cancel_cancelled t : client_op (st_op t) = true → is_fin (st_pc t) = false → st_cancel (shnet_cancel t) ≠ None.
Proof.
  unfold shnet_cancel. intros Hc Hf. destruct (st_op t); try done; destruct (st_cancel t) eqn:Hcn; rewrite ?Hf; simpl; by rewrite ?Hcn.
Qed.

Lemma svinv_shnet cfg s tid t : SvInv cfg s → v_thr s !! tid = Some t → st_op t = SShutdown → st_pc t = VShNet →
  SvInv cfg (st_go tid t VShTimers (spawn_sessions (s <| v_thr := shnet_cancel <$> v_thr s |>))).
Proof.
  intros I Ht Hop Hpc.
  assert (v_shut s = true) as Hsh by (eapply (vi_sh_flag _ _ I); eauto; congruence).
  assert (SvInv cfg (s <| v_thr := shnet_cancel <$> v_thr s |>)) as I1.
  { eapply (svinv_vsr cfg s (VTick 0)); [done|done|]. apply vsr_sh_cancel. }
  set (s1 := s <| v_thr := shnet_cancel <$> v_thr s |>) in *.
  assert (SvInv cfg (spawn_sessions s1)) as I2.
  { apply spawn_fold; [done|done| | |].
    - intros x tx Hx Hc Hf. simpl in Hx. rewrite lookup_fmap in Hx. apply fmap_Some in Hx as (t0 & Hx & ->).
      destruct (shnet_cancel_ok t0) as (Ho & Hp & _). rewrite Ho in Hc. rewrite Hp in Hf. by apply shnet_cancel_cancelled.
    - apply open_sids_NoDup, (vi_connect_once _ _ I1).
    - intros sid Hin. by apply elem_of_open_sids in Hin. }
  assert (v_thr (spawn_sessions s1) !! tid = Some t) as Ht2.
  { unfold spawn_sessions. rewrite spawn_fold_thr by (simpl; apply (vi_sys _ _ I tid t Ht)).
    simpl. rewrite lookup_fmap, Ht. simpl. unfold shnet_cancel. by rewrite Hop. }
  eapply (svinv_vsr cfg (spawn_sessions s1) (VRun tid)); [done|done|]. by apply vsr_sh_net.
Qed.

(** ** every step preserves the invariant *)
Lemma svinv_step cfg s it : SvInv cfg s → sitem_ok s it → SvInv cfg (vstep cfg s it).
Proof.
  intros I Hok. destruct (vsr_ok cfg s it I) as [it s' Hv|dt|tid t Ht Hop Hpc].
  - by eapply svinv_vsr.
  - by apply svinv_tick.
  - by apply svinv_shnet.
Qed.

Theorem svinv_reach : T_svinv_reach.
Proof. intros cfg s H. induction H; [apply svinv_init|by apply svinv_step]. Qed.

Theorem C06_no_crash : T_C06_no_crash.
Proof. intros cfg s H. apply (vi_not_crashed cfg). by apply svinv_reach. Qed.

(** ** C05 *)
Theorem C05_unlock_truth : T_C05_unlock_truth.
Proof.
  intros cfg s tid t n k Hr Hms Ht Hop Hpc. apply svinv_reach in Hr.
  eapply (vi_unlocked _ _ Hr); eauto.
Qed.

Lemma vrun_eq cfg s tid t : SvInv cfg s → v_thr s !! tid = Some t → vstep cfg s (VRun tid) = vrun_thread cfg tid t s.
Proof. intros I Ht. unfold vstep. by rewrite (vi_not_crashed _ _ I), Ht. Qed.

Theorem C05_expiry_frees : T_C05_expiry_frees.
Proof.
  intros cfg s tid t id tm Hr Hms Ht Hop Hpc Hh. apply svinv_reach in Hr as I.
  rewrite (vrun_eq _ _ _ _ I Ht). unfold vrun_thread. rewrite Hpc, Hop, Hh.
  assert (rel_site s t (tm_n tm) (tm_k tm) VCbSessRemove) as Hsite by (by eapply rs_expire).
  destruct (mgr_unlock_cases s tid (tm_n tm) (tm_k tm)) as [(e & -> & Hwhy)|(a & _ & Ha & Hk & ->)]; simpl.
  - destruct Hwhy as [?|Hnl]; [congruence|]. intros Hl. apply Hnl. unfold vset_pc in Hl. by rewrite Ht in Hl.
  - destruct (release_ok cfg s tid t (tm_n tm) (tm_k tm) a VCbSessRemove I Ht Hsite Ha Hk) as [Ht' Hv].
    rewrite (vset_pc_go _ t) by done.
    destruct (vsr_run_rel _ _ _ _ _ _ _ _ I Hv Ht Hsite) as [Heq|?]; [|done].
    exfalso. apply (f_equal (λ st, v_thr st !! tid)) in Heq. simpl in Heq. rewrite lookup_insert, Ht in Heq.
    simplify_eq. apply (f_equal st_pc) in Heq. simpl in Heq. congruence.
Qed.

Theorem C05_renew_truth : T_C05_renew_truth.
Proof.
  intros cfg s tid t n k lt Hr Ht Hop Hpc s' t' Ht' Hpc'. apply svinv_reach in Hr as I.
  subst s'. rewrite (vrun_eq _ _ _ _ I Ht) in *. unfold vrun_thread in *. rewrite Hpc, Hop in *.
  unfold tm_reset in *.
  destruct (v_timers s !! tkey n k) as [id|] eqn:Hid.
  2:{ exfalso. rewrite (vfinish_go _ t) in Ht' by done. simpl in Ht'. rewrite lookup_insert in Ht'. simplify_eq. }
  destruct (v_theap s !! id) as [tm|] eqn:Hh.
  2:{ exfalso. rewrite (vfinish_go _ t) in Ht' by done. simpl in Ht'. rewrite lookup_insert in Ht'. simplify_eq. }
  destruct (tm_st tm) as [d| |] eqn:Hst.
  2,3: exfalso; rewrite (vfinish_go _ t) in Ht' by done; simpl in Ht'; rewrite lookup_insert in Ht'; simplify_eq.
  clear Ht' Hpc'.
  destruct (vi_tm_entry _ _ I _ _ Hid) as (tm1 & Htm1 & Hkey & _). simplify_eq. apply tkey_inj in Hkey as [-> ->].
  assert (slive s (tm_n tm) (tm_k tm)) as Hlv.
  { destruct (vi_lease _ _ I (tkey (tm_n tm) (tm_k tm)) id tm d) as [?|(x & tx & sidx & zx & Hx & Hax & Hcx)]; [done|done|].
    exfalso. destruct (acquirer_is_acq _ _ _ _ _ Hax) as (Hia & Hk & _).
    destruct (vi_presented _ _ I tid t (tm_k tm) Ht) with (tid' := x) (t' := tx) as (y & ty & ? & ? & ? & Hy & Hay & _ & Hcy);
      [by rewrite Hop|by rewrite Hop|done|done|done|].
    destruct (acq_unique _ _ _ _ _ _ _ _ _ _ _ _ _ I Hx Hy Hax Hay) as (-> & -> & _). done. }
  rewrite (vfinish_go _ t) by done. split; [done|]. split; [exact Hlv|].
  exists id, (tm <| tm_st := TArmed (v_now s + lt * second) |>). unfold armed_at; simpl. rewrite lookup_insert. done.
Qed.

Theorem C05_final : T_C05_final.
Proof.
  intros cfg s n k Hr Hdone Hms. apply svinv_reach in Hr as I. split.
  - intros (tid & t & Ht & Hop & Hpc) Hl.
    destruct (vi_unlocked _ _ I _ _ _ _ Ht Hop (or_intror Hpc) Hms) as [?|(e & te & id & tm & He & _ & Hpe & _)]; [done|].
    apply Hdone in He. by rewrite Hpe in He.
  - intros id tm d Ha. pose proof Ha as (Hid & Hh & _).
    destruct (vi_tm_entry _ _ I _ _ Hid) as (tm1 & Htm1 & Hkey & _). simplify_eq. apply tkey_inj in Hkey as [-> ->].
    destruct (vi_lease _ _ I _ _ _ _ Ha) as [?|(x & tx & sidx & zx & Hx & Hax & Hcx)]; [by left|right].
    intros (y & ty & sidy & ny & zy & Hy & Hay & _ & Hcy).
    destruct (acq_unique _ _ _ _ _ _ _ _ _ _ _ _ _ I Hx Hy Hax Hay) as (-> & -> & _). done.
Qed.

(** ** why [sitem_ok] restricts the wait-timeout cancellation (correction made by this work package)
    Before the correction [VCancel tid ESrvLockWaitTimeout] was admitted at any pc of any client call. A thread records only
    the first cause of its context's end, so a wait timeout delivered to a TryLock that is past its grant hides the later end
    of its connection; the grant then counts as [delivered] although nobody can have seen the key, and a Renew of that key
    answers locked=true for a hold that DestroySession has released. In the code the wait-timeout context (lockCtx of
    LockServer.Lock) is consulted only inside lockMgr.Lock, and TryLock has none. The schedule: *)
Definition cex_sid : str := [x73]. Definition cex_n : str := [x6e]. Definition cex_k : str := [x6b].
Definition cex_old_vcancel : list sitem :=
  [VConnect cex_sid; VCall 1 (STry cex_sid cex_n cex_k 1 (Some 5)); VRun 1; VRun 1; VCancel 1 ESrvLockWaitTimeout; VConnEnd cex_sid;
   VRun 1000; VRun 1000; VRun 1000; VRun 1000; VRun 1; VRun 1000; VCall 2 (SRenew cex_n cex_k 7); VRun 2].
Example cex_old_vcancel_renew_true_hold_gone :
  let s := vrun (SvCfg false true) cex_old_vcancel in
  (st_pc <$> v_thr s !! 2%nat) = Some (VFin (SResp true None)) ∧ (al_live <$> v_locks s !! cex_n) = Some [] ∧
  (st_cancel <$> v_thr s !! 1%nat) = Some (Some ESrvLockWaitTimeout).
Proof. vm_compute. done. Qed.
(** ... is no longer meaningful: its fifth item violates [sitem_ok] (thread 1 is at VTmAdd). *)
Example cex_old_vcancel_excluded :
  ¬ sitem_ok (vrun (SvCfg false true) (take 4 cex_old_vcancel)) (VCancel 1 ESrvLockWaitTimeout).
Proof.
  intros [H|[_ (t & Ht & Hp)]]; [done|]. vm_compute in Ht. simplify_eq. simpl in Hp. destruct Hp as [?|[?|?]]; done.
Qed.

Print Assumptions svinv_reach.
Print Assumptions C05_unlock_truth.
Print Assumptions C05_expiry_frees.
Print Assumptions C05_renew_truth.
Print Assumptions C05_final.
Print Assumptions C06_no_crash.
