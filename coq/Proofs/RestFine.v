(** Fine-grained layer of Mrest (Model/Rest.v, section (b)): the races of C20.
    An inductive invariant [Inv] over ALL schedules ([Inv (finit pool)] from [pool_ok pool], and
    [Inv st -> fstep st i = Some st' -> Inv st']), from which the five targets of Proofs/RestDefs.v follow:
    C20_once, C20_no_nil, C20_no_deadlock, C20_serve_before_end, C20_mutex. No bounded search. *)
From Coq Require Import Lia ZifyBool ZifyNat ZifyN.
From stdpp Require Import tactics.
From Ldlm Require Import Model.Base Model.Rest Proofs.RestDefs.
From RecordUpdate Require Import RecordSet.
Import RecordSetNotations.

(** ** Projections of the state updates *)

Lemma sess_upd c f st c' :
  sess (upd_sess c f st) c' = if decide (c' = c) then f (sess st c) else sess st c'.
Proof.
  unfold sess at 1, upd_sess. simpl. destruct (decide (c' = c)) as [->|Hne].
  - by rewrite lookup_insert.
  - by rewrite lookup_insert_ne.
Qed.

Lemma sess_same c (st : fstate) c' :
  sess st c' = if decide (c' = c) then (λ se, se) (sess st c) else sess st c'.
Proof. by destruct (decide (c' = c)) as [->|]. Qed.

(** ** The invariant *)

(** "entry deleted, ConnEnd not yet delivered": the thread that will deliver it *)
Definition tokpc (p : pc) : bool := match p with D4 | D5 | D6 | C3 | C4 | C5 => true | _ => false end.
(** the creator *)
Definition kpc (p : pc) : bool := match p with K0 | K1 | K2 | K3 => true | _ => false end.

Definition tok (se : fsess) : Prop :=
  fs_entry se = false ∧ fs_connend se = 0%nat ∧ fs_created se = true.

Definition pc_ok (se : fsess) (t : thr) (c : positive) (p : pc) : Prop :=
  match p with
  | Q0 | Q1 | QF | Q5 | D0 | D1 | D7 | DF | K3 | Done _ => True
  | Q1b | Q2 | D2 => fs_entry se = true
  | Q3 | Q4 => fs_connend se = 0%nat
  | D3 => fs_entry se = true ∧ fs_timer se ≠ TmArmed
  | D4 | D5 | D6 => tok se
  | K0 | K1 => fs_created se = false
  | K2 => fs_entry se = true ∧ fs_timer se = TmNone
  | C0 | C1 | C6 | C7 | CA => t = TCb c
  | C2 => t = TCb c ∧ fs_entry se = true
  | C3 | C4 | C5 => t = TCb c ∧ tok se
  | Panic => False
  end.

Definition thr_ok (se : fsess) (t : thr) (c : positive) (p : pc) : Prop :=
  (∀ c', t = TCb c' → c' = c) ∧ pc_ok se t c p.

Definition cookie_loc (se : fsess) : Prop :=
  (fs_timer se = TmArmed → fs_entry se = true) ∧
  (fs_entry se = true → fs_connend se = 0%nat ∧ fs_created se = true) ∧
  (fs_connend se ≤ 1)%nat ∧
  (fs_created se = false → fs_timer se = TmNone ∧ fs_connend se = 0%nat) ∧
  fs_late se = false.

Record Inv (st : fstate) : Prop := {
  inv_s : ∀ t, f_smtx st = Some t ↔ ∃ c p, f_pool st !! t = Some (c, p) ∧ holds_s p = true;
  inv_m : ∀ c t, fs_mtx (sess st c) = Some t ↔ ∃ p, f_pool st !! t = Some (c, p) ∧ holds_m p = true;
  inv_thr : ∀ t c p, f_pool st !! t = Some (c, p) → thr_ok (sess st c) t c p;
  inv_ck : ∀ c, cookie_loc (sess st c);
  inv_tokex : ∀ c, tok (sess st c) → ∃ t p, f_pool st !! t = Some (c, p) ∧ tokpc p = true;
  inv_cb : ∀ c, is_Some (f_pool st !! TCb c) → ∃ b, fs_timer (sess st c) = TmFired b;
  inv_uk : ∀ t1 t2 c p1 p2, f_pool st !! t1 = Some (c, p1) → f_pool st !! t2 = Some (c, p2) →
                            kpc p1 = true → kpc p2 = true → t1 = t2;
  inv_ut : ∀ t1 t2 c p1 p2, f_pool st !! t1 = Some (c, p1) → f_pool st !! t2 = Some (c, p2) →
                            tokpc p1 = true → tokpc p2 = true → t1 = t2
}.

(** ** Initial states *)

Lemma sess_finit pool c : sess (finit pool) c = fs0.
Proof. unfold sess, finit. simpl. by rewrite lookup_empty. Qed.

Lemma inv_init pool : pool_ok pool → Inv (finit pool).
Proof.
  intros [Hst Hk]. split.
  - intros t. simpl. split; [done|]. intros (c & p & Hl & Hh).
    destruct (Hst _ _ _ Hl) as [Hs _]. by destruct p.
  - intros c t. rewrite sess_finit. simpl. split; [done|]. intros (p & Hl & Hh).
    destruct (Hst _ _ _ Hl) as [Hs _]. by destruct p.
  - intros t c p Hl. rewrite sess_finit. simpl in Hl.
    destruct (Hst _ _ _ Hl) as [Hs [u ->]]. split; [done|]. by destruct p.
  - intros c. rewrite sess_finit. unfold cookie_loc. simpl. repeat split; try done; lia.
  - intros c. rewrite sess_finit. unfold tok. simpl. naive_solver.
  - intros c [[c' p] Hl]. simpl in Hl. destruct (Hst _ _ _ Hl) as [_ [u ?]]. done.
  - simpl. intros t1 t2 c p1 p2 H1 H2 K1' K2'.
    destruct (Hst _ _ _ H1) as [S1 _]. destruct (Hst _ _ _ H2) as [S2 _].
    destruct p1; try done. destruct p2; try done. eauto.
  - simpl. intros t1 t2 c p1 p2 H1 H2 K1' K2'.
    destruct (Hst _ _ _ H1) as [S1 _]. by destruct p1.
Qed.

(** ** The generic preservation lemma *)

(** thread [t] works on [c] at [p0]; or it is the timer goroutine of [c] about to be started *)
Definition at_pc (st : fstate) (t : thr) (c : positive) (p0 : pc) : Prop :=
  f_pool st !! t = Some (c, p0) ∨ (f_pool st !! t = None ∧ p0 = Done None ∧ t = TCb c).

(** how a mutex changes when [t] goes from a pc with "holds" = h0 to one with "holds" = h1 *)
Definition mtr (o o' : option thr) (t : thr) (h0 h1 : bool) : Prop :=
  (o' = o ∧ h0 = h1) ∨ (o = None ∧ o' = Some t ∧ h0 = false ∧ h1 = true) ∨ (o' = None ∧ h0 = true ∧ h1 = false).

Lemma own_s st t c p0 : Inv st → at_pc st t c p0 → (f_smtx st = Some t ↔ holds_s p0 = true).
Proof.
  intros HI [H|(H & -> & _)]; rewrite (inv_s _ HI).
  - split; [|by eauto]. intros (c' & p' & Hl & Hh). rewrite H in Hl. by simplify_eq.
  - split; [|done]. intros (c' & p' & Hl & Hh). rewrite H in Hl. done.
Qed.

Lemma own_m st t c p0 : Inv st → at_pc st t c p0 →
  ∀ c', fs_mtx (sess st c') = Some t ↔ (c' = c ∧ holds_m p0 = true).
Proof.
  intros HI [H|(H & -> & _)] c'; rewrite (inv_m _ HI).
  - split.
    + intros (p' & Hl & Hh). rewrite H in Hl. by simplify_eq.
    + intros [-> Hh]. eauto.
  - split; [|by intros [_ ?]]. intros (p' & Hl & Hh). rewrite H in Hl. done.
Qed.

Lemma at_cb st t c p0 : Inv st → at_pc st t c p0 → ∀ c', t = TCb c' → c' = c.
Proof.
  intros HI [H|(H & _ & ->)].
  - by destruct (inv_thr _ HI _ _ _ H).
  - by intros c' [= ->].
Qed.

Lemma pres st st' t c p0 p1 f :
  Inv st → at_pc st t c p0 →
  f_pool st' = <[t:=(c,p1)]> (f_pool st) →
  (∀ c', sess st' c' = if decide (c' = c) then f (sess st c) else sess st c') →
  mtr (f_smtx st) (f_smtx st') t (holds_s p0) (holds_s p1) →
  mtr (fs_mtx (sess st c)) (fs_mtx (f (sess st c))) t (holds_m p0) (holds_m p1) →
  (kpc p1 = true → kpc p0 = true) →
  thr_ok (f (sess st c)) t c p1 →
  (∀ t' p', t' ≠ t → f_pool st !! t' = Some (c, p') → thr_ok (f (sess st c)) t' c p') →
  cookie_loc (f (sess st c)) →
  (tok (f (sess st c)) → tokpc p1 = true ∨ (tok (sess st c) ∧ tokpc p0 = false)) →
  (tokpc p1 = true → tokpc p0 = true ∨ ∀ t' p', f_pool st !! t' = Some (c, p') → tokpc p' = false) →
  (is_Some (f_pool st !! TCb c) ∨ t = TCb c → ∃ b, fs_timer (f (sess st c)) = TmFired b) →
  Inv st'.
Proof.
  intros HI Hat Hpool Hsess Hs Hm Hk Hself Hoth Hck Htokex Htoku Hcb.
  pose proof (own_s _ _ _ _ HI Hat) as Hos.
  pose proof (own_m _ _ _ _ HI Hat) as Hom.
  split.
  - (* sessionsMtx *)
    intros x. rewrite Hpool. destruct (decide (x = t)) as [->|Hne].
    + rewrite lookup_insert. destruct Hs as [[-> E]|[(E1 & -> & E2 & E3)|(-> & E2 & E3)]].
      * rewrite Hos, E. naive_solver.
      * naive_solver.
      * split; [done|]. intros (? & ? & ? & ?). simplify_eq. congruence.
    + rewrite lookup_insert_ne by done. rewrite <- (inv_s _ HI x).
      destruct Hs as [[-> E]|[(E1 & -> & E2 & E3)|(-> & E2 & E3)]].
      * done.
      * rewrite E1. naive_solver.
      * apply Hos in E2. rewrite E2. naive_solver.
  - (* session mutexes *)
    intros c' x. rewrite Hsess, Hpool. destruct (decide (c' = c)) as [->|Hc].
    + specialize (Hom c). destruct (decide (x = t)) as [->|Hne].
      * rewrite lookup_insert.
        destruct Hm as [[-> E]|[(E1 & -> & E2 & E3)|(-> & E2 & E3)]].
        -- rewrite Hom, E. naive_solver.
        -- naive_solver.
        -- split; [done|]. intros (? & ? & ?). simplify_eq. congruence.
      * rewrite lookup_insert_ne by done. rewrite <- (inv_m _ HI c x).
        destruct Hm as [[-> E]|[(E1 & -> & E2 & E3)|(-> & E2 & E3)]].
        -- done.
        -- rewrite E1. naive_solver.
        -- assert (fs_mtx (sess st c) = Some t) as -> by (apply Hom; done). naive_solver.
    + destruct (decide (x = t)) as [->|Hne].
      * rewrite lookup_insert. rewrite (Hom c'). naive_solver.
      * rewrite lookup_insert_ne by done. apply (inv_m _ HI).
  - (* threads *)
    intros x c' p. rewrite Hpool. destruct (decide (x = t)) as [->|Hne].
    + rewrite lookup_insert. intros [= <- <-]. rewrite Hsess. by rewrite decide_True.
    + rewrite lookup_insert_ne by done. intros Hl. rewrite Hsess.
      destruct (decide (c' = c)) as [->|Hc]; [by apply Hoth|by apply (inv_thr _ HI)].
  - intros c'. rewrite Hsess. destruct (decide (c' = c)); [done|apply (inv_ck _ HI)].
  - (* the deliverer exists *)
    intros c'. rewrite Hsess, Hpool. destruct (decide (c' = c)) as [->|Hc].
    + intros Ht. destruct (Htokex Ht) as [E|[Ht0 E]].
      * exists t, p1. by rewrite lookup_insert.
      * destruct (inv_tokex _ HI c Ht0) as (x & p & Hl & Hp). exists x, p.
        rewrite lookup_insert_ne; [done|]. intros <-.
        destruct Hat as [H|(H & _)]; rewrite H in Hl; simplify_eq. congruence.
    + intros Ht. destruct (inv_tokex _ HI c' Ht) as (x & p & Hl & Hp). exists x, p.
      rewrite lookup_insert_ne; [done|]. intros <-.
      destruct Hat as [H|(H & _)]; rewrite H in Hl; simplify_eq.
  - (* timer goroutines *)
    intros c'. rewrite Hsess, Hpool. destruct (decide (c' = c)) as [->|Hc].
    + intros Hin. apply Hcb. destruct (decide (TCb c = t)) as [<-|Hne]; [by right|].
      left. by rewrite lookup_insert_ne in Hin.
    + intros Hin. apply (inv_cb _ HI). rewrite lookup_insert_ne in Hin; [done|].
      intros E. apply Hc. symmetry in E. by eapply at_cb.
  - (* one creator *)
    intros t1 t2 c' q1 q2. rewrite Hpool.
    destruct (decide (t1 = t)) as [->|H1], (decide (t2 = t)) as [->|H2]; [done|..].
    + rewrite lookup_insert, lookup_insert_ne by done. intros [= <- <-] Hl2 Hk1 Hk2.
      destruct Hat as [H|(H & -> & _)]; [|by specialize (Hk Hk1)].
      eapply (inv_uk _ HI); eauto.
    + rewrite lookup_insert, lookup_insert_ne by done. intros Hl2 [= <- <-] Hk1 Hk2.
      destruct Hat as [H|(H & -> & _)]; [|by specialize (Hk Hk2)].
      eapply (inv_uk _ HI); eauto.
    + rewrite !lookup_insert_ne by done. apply (inv_uk _ HI).
  - (* one deliverer *)
    intros t1 t2 c' q1 q2. rewrite Hpool.
    destruct (decide (t1 = t)) as [->|H1], (decide (t2 = t)) as [->|H2]; [done|..].
    + rewrite lookup_insert, lookup_insert_ne by done. intros [= <- <-] Hl2 Hk1 Hk2.
      destruct (Htoku Hk1) as [E|E]; [|by rewrite (E _ _ Hl2) in Hk2].
      destruct Hat as [H|(H & -> & _)]; [|done].
      eapply (inv_ut _ HI); eauto.
    + rewrite lookup_insert, lookup_insert_ne by done. intros Hl2 [= <- <-] Hk1 Hk2.
      destruct (Htoku Hk2) as [E|E]; [|by rewrite (E _ _ Hl2) in Hk1].
      destruct Hat as [H|(H & -> & _)]; [|done].
      eapply (inv_ut _ HI); eauto.
    + rewrite !lookup_insert_ne by done. apply (inv_ut _ HI).
Qed.

(** ** Specialisations *)

(** the fields the thread-level invariant reads *)
Definition sim (se se' : fsess) : Prop :=
  fs_entry se' = fs_entry se ∧ fs_created se' = fs_created se ∧ fs_timer se' = fs_timer se ∧
  fs_connend se' = fs_connend se.

Lemma pc_ok_sim se se' t c p : sim se se' → pc_ok se t c p → pc_ok se' t c p.
Proof. intros (E1 & E2 & E3 & E4). unfold pc_ok, tok. by rewrite E1, E2, E3, E4. Qed.

Lemma tok_sim se se' : sim se se' → tok se' → tok se.
Proof. intros (E1 & E2 & E3 & E4). unfold tok. by rewrite E1, E2, E4. Qed.

Lemma cookie_loc_sim se se' : sim se se' → fs_late se' = fs_late se → cookie_loc se → cookie_loc se'.
Proof. intros (E1 & E2 & E3 & E4) E5. unfold cookie_loc. by rewrite E1, E2, E3, E4, E5. Qed.

Lemma tokpc_tok se t c p : pc_ok se t c p → tokpc p = true → tok se.
Proof. destruct p; simpl; try done; naive_solver. Qed.

Lemma pres_sim st st' t c p0 p1 f :
  Inv st → f_pool st !! t = Some (c, p0) →
  f_pool st' = <[t:=(c,p1)]> (f_pool st) →
  (∀ c', sess st' c' = if decide (c' = c) then f (sess st c) else sess st c') →
  mtr (f_smtx st) (f_smtx st') t (holds_s p0) (holds_s p1) →
  mtr (fs_mtx (sess st c)) (fs_mtx (f (sess st c))) t (holds_m p0) (holds_m p1) →
  sim (sess st c) (f (sess st c)) → fs_late (f (sess st c)) = fs_late (sess st c) →
  (kpc p1 = true → kpc p0 = true) → tokpc p1 = tokpc p0 →
  (cookie_loc (sess st c) → pc_ok (sess st c) t c p0 → pc_ok (sess st c) t c p1) →
  Inv st'.
Proof.
  intros HI Hl Hpool Hsess Hs Hm Hsim Hlate Hk Ht Hpc.
  destruct (inv_thr _ HI _ _ _ Hl) as [Hcb0 Hp0].
  eapply (pres st st' t c p0 p1 f); try done.
  - by left.
  - split; [done|]. eapply pc_ok_sim; [done|]. apply Hpc; [apply (inv_ck _ HI)|done].
  - intros t' p' _ Hl'. destruct (inv_thr _ HI _ _ _ Hl') as [? ?]. split; [done|]. by eapply pc_ok_sim.
  - eapply cookie_loc_sim; [done..|]. apply (inv_ck _ HI).
  - intros Htk. apply (tok_sim _ _ Hsim) in Htk.
    destruct (tokpc p0) eqn:E; [left; congruence|right; done].
  - intros E. left. congruence.
  - intros Hin. destruct Hsim as (_ & _ & -> & _). apply (inv_cb _ HI).
    destruct Hin as [?| ->]; [done|]. rewrite Hl. eauto.
Qed.

Lemma pres_go st t c p0 p1 :
  Inv st → f_pool st !! t = Some (c, p0) →
  holds_s p0 = holds_s p1 → holds_m p0 = holds_m p1 → (kpc p1 = true → kpc p0 = true) → tokpc p1 = tokpc p0 →
  (cookie_loc (sess st c) → pc_ok (sess st c) t c p0 → pc_ok (sess st c) t c p1) →
  Inv (goto t c p1 st).
Proof.
  intros HI Hl H1 H2 H3 H4 H5.
  eapply (pres_sim st _ t c p0 p1 (λ se, se)); try done.
  - intros c'. exact (sess_same c st c').
  - by left.
  - by left.
Qed.

Lemma pres_take_s st st' t c p0 p1 :
  Inv st → f_pool st !! t = Some (c, p0) → take_s t c p1 st = Some st' →
  holds_s p0 = false → holds_s p1 = true → holds_m p0 = holds_m p1 → (kpc p1 = true → kpc p0 = true) → tokpc p1 = tokpc p0 →
  (cookie_loc (sess st c) → pc_ok (sess st c) t c p0 → pc_ok (sess st c) t c p1) →
  Inv st'.
Proof.
  intros HI Hl Hst H0 H1 H2 H3 H4 H5. unfold take_s in Hst.
  destruct (f_smtx st) eqn:E; simpl in Hst; [done|]. injection Hst as <-.
  eapply (pres_sim st _ t c p0 p1 (λ se, se)); try done.
  - intros c'. exact (sess_same c st c').
  - right; left. by rewrite E.
  - by left.
Qed.

Lemma pres_release_s st t c p0 p1 :
  Inv st → f_pool st !! t = Some (c, p0) →
  holds_s p0 = true → holds_s p1 = false → holds_m p0 = holds_m p1 → (kpc p1 = true → kpc p0 = true) → tokpc p1 = tokpc p0 →
  (cookie_loc (sess st c) → pc_ok (sess st c) t c p0 → pc_ok (sess st c) t c p1) →
  Inv (release_s t c p1 st).
Proof.
  intros HI Hl H0 H1 H2 H3 H4 H5. unfold release_s.
  assert (f_smtx st = Some t) as E by (eapply own_s; [done|by left|done]).
  rewrite E. simpl.
  eapply (pres_sim st _ t c p0 p1 (λ se, se)); try done.
  - intros c'. exact (sess_same c st c').
  - right; right. done.
  - by left.
Qed.

Lemma pres_take_m st st' t c p0 p1 :
  Inv st → f_pool st !! t = Some (c, p0) → take_m t c p1 st = Some st' →
  holds_m p0 = false → holds_m p1 = true → holds_s p0 = holds_s p1 → (kpc p1 = true → kpc p0 = true) → tokpc p1 = tokpc p0 →
  (cookie_loc (sess st c) → pc_ok (sess st c) t c p0 → pc_ok (sess st c) t c p1) →
  Inv st'.
Proof.
  intros HI Hl Hst H0 H1 H2 H3 H4 H5. unfold take_m in Hst.
  destruct (fs_mtx (sess st c)) eqn:E; simpl in Hst; [done|]. injection Hst as <-.
  eapply (pres_sim st _ t c p0 p1 (λ se, se <| fs_mtx := Some t |>)); try done.
  - intros c'. apply sess_upd.
  - by left.
  - right; left. by rewrite E.
Qed.

Lemma pres_release_m st t c p0 p1 :
  Inv st → f_pool st !! t = Some (c, p0) →
  holds_m p0 = true → holds_m p1 = false → holds_s p0 = holds_s p1 → (kpc p1 = true → kpc p0 = true) → tokpc p1 = tokpc p0 →
  (cookie_loc (sess st c) → pc_ok (sess st c) t c p0 → pc_ok (sess st c) t c p1) →
  Inv (release_m t c p1 st).
Proof.
  intros HI Hl H0 H1 H2 H3 H4 H5. unfold release_m.
  assert (fs_mtx (sess st c) = Some t) as E by (eapply own_m; [done|by left|done]).
  rewrite E. simpl.
  eapply (pres_sim st _ t c p0 p1 (λ se, se <| fs_mtx := None |>)); try done.
  - intros c'. apply sess_upd.
  - by left.
  - right; right. done.
Qed.

(** two different threads *)
Lemma excl st t c p0 t' c' p' :
  Inv st → f_pool st !! t = Some (c, p0) → f_pool st !! t' = Some (c', p') → t' ≠ t →
  holds_s p0 && holds_s p' = false ∧
  (c' = c → holds_m p0 && holds_m p' = false ∧ kpc p0 && kpc p' = false ∧ tokpc p0 && tokpc p' = false).
Proof.
  intros HI Hl Hl' Hne. split; [|intros ->; repeat split].
  - destruct (holds_s p0) eqn:E0, (holds_s p') eqn:E1; try done. exfalso.
    assert (f_smtx st = Some t) as A by (apply (inv_s _ HI); eauto).
    assert (f_smtx st = Some t') as B by (apply (inv_s _ HI); eauto). congruence.
  - destruct (holds_m p0) eqn:E0, (holds_m p') eqn:E1; try done. exfalso.
    assert (fs_mtx (sess st c) = Some t) as A by (apply (inv_m _ HI); eauto).
    assert (fs_mtx (sess st c) = Some t') as B by (apply (inv_m _ HI); eauto). congruence.
  - destruct (kpc p0) eqn:E0, (kpc p') eqn:E1; try done. exfalso.
    apply Hne. eapply (inv_uk _ HI); eauto.
  - destruct (tokpc p0) eqn:E0, (tokpc p') eqn:E1; try done. exfalso.
    apply Hne. eapply (inv_ut _ HI); eauto.
Qed.

Lemma pres_upd st t c p0 p1 f :
  Inv st → f_pool st !! t = Some (c, p0) →
  holds_s p0 = holds_s p1 → holds_m p0 = holds_m p1 → (kpc p1 = true → kpc p0 = true) →
  fs_mtx (f (sess st c)) = fs_mtx (sess st c) →
  pc_ok (f (sess st c)) t c p1 →
  (∀ t' p', t' ≠ t → f_pool st !! t' = Some (c, p') → pc_ok (sess st c) t' c p' → pc_ok (f (sess st c)) t' c p') →
  cookie_loc (f (sess st c)) →
  (tok (f (sess st c)) → tokpc p1 = true ∨ (tok (sess st c) ∧ tokpc p0 = false)) →
  (tokpc p1 = true → tokpc p0 = true ∨ fs_entry (sess st c) = true) →
  (∀ b, fs_timer (sess st c) = TmFired b → ∃ b', fs_timer (f (sess st c)) = TmFired b') →
  Inv (goto t c p1 (upd_sess c f st)).
Proof.
  intros HI Hl H1 H2 H3 H4 Hself Hoth Hck Htokex Htoku Htm.
  destruct (inv_thr _ HI _ _ _ Hl) as [Hcb0 Hp0].
  eapply (pres st _ t c p0 p1 f); try done.
  - by left.
  - intros c'. apply sess_upd.
  - by left.
  - left. done.
  - intros t' p' Hne Hl'. destruct (inv_thr _ HI _ _ _ Hl') as [? ?]. split; [done|]. by apply Hoth.
  - intros E. destruct (Htoku E) as [?|Hen]; [by left|right].
    intros t' p' Hl'. destruct (tokpc p') eqn:Ep; [|done]. exfalso.
    destruct (inv_thr _ HI _ _ _ Hl') as [_ Hp']. destruct (tokpc_tok _ _ _ _ Hp' Ep) as (? & _). congruence.
  - intros Hin. assert (is_Some (f_pool st !! TCb c)) as Hin'.
    { destruct Hin as [?| ->]; [done|]. rewrite Hl. eauto. }
    destruct (inv_cb _ HI _ Hin') as [b Hb]. eauto.
Qed.

(** ** Every step of a thread preserves the invariant *)

Ltac fin :=
  simpl in *; unfold cookie_loc, tok in *; simpl in *;
  try match goal with
      | |- context [tm_remove ?x] => let E := fresh "Etm" in destruct x eqn:E; rewrite ?E in *
      | H : context [tm_remove ?x] |- _ => let E := fresh "Etm" in destruct x eqn:E; rewrite ?E in *
      end;
  simpl in *; intuition (try congruence; try lia; eauto).
Ltac side := try reflexivity; try (intros; fin).

(** the other threads on the same cookie, for a step that changes entry / created / timer / connend *)
Ltac other_tac HI Hl :=
  let t' := fresh "t'" in let p' := fresh "p'" in let Hne := fresh "Hne" in
  let Hl' := fresh "Hl'" in let Hp' := fresh "Hp'" in
  let X1 := fresh "X1" in let X2 := fresh "X2" in let X3 := fresh "X3" in let X4 := fresh "X4" in
  let X5 := fresh "X5" in
  intros t' p' Hne Hl' Hp';
  destruct (excl _ _ _ _ _ _ _ HI Hl Hl' Hne) as (X1 & X2);
  destruct (X2 eq_refl) as (X5 & X3 & X4); clear X2;
  destruct p'; simpl in Hp', X1, X5, X3, X4 |- *; try done; fin.

Ltac upd HI Hl := eapply pres_upd; [exact HI|exact Hl|side|side|side|side|side|other_tac HI Hl|side..].

Lemma inv_thread st t c p st' :
  Inv st → f_pool st !! t = Some (c, p) → step_thread st t c p = Some st' → Inv st'.
Proof.
  intros HI Hl Hst.
  pose proof (inv_thr _ HI _ _ _ Hl) as [Hcb Hp].
  pose proof (inv_ck _ HI c) as Hck.
  destruct p; simpl in Hst, Hp; try done.
  - (* Q0 *) eapply pres_take_s; [exact HI|exact Hl|exact Hst|side..].
  - (* Q1 *) injection Hst as <-.
    destruct (fs_timer (sess st c)) eqn:Etm; (eapply pres_go; [exact HI|exact Hl|side..]).
  - (* Q1b *) rewrite Hp in Hst. injection Hst as <-. eapply pres_go; [exact HI|exact Hl|side..].
  - (* Q2 *) eapply pres_take_m; [exact HI|exact Hl|exact Hst|side..].
  - (* Q3 *) injection Hst as <-. eapply pres_release_s; [exact HI|exact Hl|side..].
  - (* Q4 *) injection Hst as <-. eapply pres_upd; [exact HI|exact Hl|side..].
  - (* Q5 *) injection Hst as <-. eapply pres_release_m; [exact HI|exact Hl|side..].
  - (* QF *) injection Hst as <-. eapply pres_release_s; [exact HI|exact Hl|side..].
  - (* D0 *) eapply pres_take_s; [exact HI|exact Hl|exact Hst|side..].
  - (* D1 *) injection Hst as <-.
    destruct (fs_entry (sess st c)) eqn:Een; (eapply pres_go; [exact HI|exact Hl|side..]).
  - (* D2 *) injection Hst as <-. upd HI Hl.
  - (* D3 *) injection Hst as <-. upd HI Hl.
  - (* D4 *) injection Hst as <-. eapply pres_release_s; [exact HI|exact Hl|side..].
  - (* D5 *) eapply pres_take_m; [exact HI|exact Hl|exact Hst|side..].
  - (* D6 *) injection Hst as <-. unfold conn_end. upd HI Hl.
  - (* D7 *) injection Hst as <-. eapply pres_release_m; [exact HI|exact Hl|side..].
  - (* DF *) injection Hst as <-. eapply pres_release_s; [exact HI|exact Hl|side..].
  - (* K0 *) eapply pres_take_s; [exact HI|exact Hl|exact Hst|side..].
  - (* K1 *) injection Hst as <-. upd HI Hl.
  - (* K2 *) injection Hst as <-. upd HI Hl.
  - (* K3 *) injection Hst as <-. eapply pres_release_s; [exact HI|exact Hl|side..].
  - (* C0 *) eapply pres_take_s; [exact HI|exact Hl|exact Hst|side..].
  - (* C1 *) injection Hst as <-.
    destruct (fs_entry (sess st c)) eqn:Een; (eapply pres_go; [exact HI|exact Hl|side..]).
  - (* C2 *) injection Hst as <-.
    destruct Hp as [-> Hen].
    destruct (inv_cb _ HI c) as [b Hb]; [rewrite Hl; eauto|].
    upd HI Hl.
  - (* C3 *) eapply pres_take_m; [exact HI|exact Hl|exact Hst|side..].
  - (* C4 *) injection Hst as <-. eapply pres_release_s; [exact HI|exact Hl|side..].
  - (* C5 *) injection Hst as <-. unfold conn_end. upd HI Hl.
  - (* C6 *) injection Hst as <-. eapply pres_release_m; [exact HI|exact Hl|side..].
  - (* C7 *) injection Hst as <-. upd HI Hl.
  - (* CA *) injection Hst as <-. eapply pres_release_s; [exact HI|exact Hl|side..].
Qed.

(** the runtime starts the timer's function *)
Lemma inv_fire st c :
  Inv st → fs_timer (sess st c) = TmArmed →
  Inv (goto (TCb c) c C0 (upd_sess c (λ se, se <| fs_timer := TmFired true |>) st)).
Proof.
  intros HI Etm.
  assert (f_pool st !! TCb c = None) as Hnone.
  { destruct (f_pool st !! TCb c) eqn:E; [|done].
    destruct (inv_cb _ HI c) as [b Hb]; [rewrite E; eauto|congruence]. }
  pose proof (inv_ck _ HI c) as Hck.
  eapply (pres st _ (TCb c) c (Done None) C0 (λ se, se <| fs_timer := TmFired true |>)); try done.
  - by right.
  - intros c'. apply sess_upd.
  - by left.
  - by left.
  - split; [by intros c' [= ->]|done].
  - intros t' p' Hne Hl'. destruct (inv_thr _ HI _ _ _ Hl') as [? Hp']. split; [done|].
    destruct p'; simpl in Hp' |- *; try done; fin.
  - fin.
  - intros Ht. right. fin.
  - simpl. eauto.
Qed.

Lemma inv_step st i st' : Inv st → fstep st i = Some st' → Inv st'.
Proof.
  intros HI. destruct i as [t|c]; simpl.
  - destruct (f_pool st !! t) as [[c p]|] eqn:Hl; [|done]. by apply inv_thread.
  - destruct (fs_timer (sess st c)) eqn:Etm; try done. intros [= <-]. by apply inv_fire.
Qed.

Lemma inv_frun st sch : Inv st → Inv (frun st sch).
Proof.
  revert st. induction sch as [|i sch IH]; intros st HI; simpl; [done|].
  apply IH. destruct (fstep st i) eqn:E; [by eapply inv_step|done].
Qed.

Lemma inv_run pool sch : pool_ok pool → Inv (frun (finit pool) sch).
Proof. intros. by apply inv_frun, inv_init. Qed.

(** ** The targets *)

Lemma C20_once : T_C20_once.
Proof.
  intros pool sch c Hok st. pose proof (inv_run pool sch Hok) as HI. fold st in HI.
  pose proof (inv_ck _ HI c) as (A & B & C & D & E).
  split; [done|]. split; [naive_solver|]. split; [naive_solver|].
  intros Hfin Hcr Hen.
  destruct (fs_connend (sess st c)) as [|[|n]] eqn:En; [|done|lia].
  exfalso. destruct (inv_tokex _ HI c) as (t & p & Hl & Hp); [done|].
  specialize (Hfin _ _ _ Hl). by destruct p.
Qed.

Lemma C20_no_nil : T_C20_no_nil.
Proof.
  intros pool sch t c p Hok st Hl. pose proof (inv_run pool sch Hok) as HI. fold st in HI.
  destruct (inv_thr _ HI _ _ _ Hl) as [_ Hp]. split.
  - intros ->. done.
  - intros ->. done.
Qed.

Lemma C20_serve_before_end : T_C20_serve_before_end.
Proof.
  intros pool sch c Hok. pose proof (inv_run pool sch Hok) as HI.
  by destruct (inv_ck _ HI c) as (A & B & C & D & E).
Qed.

Lemma C20_mutex : T_C20_mutex.
Proof.
  intros pool sch t c p Hok st Hl. pose proof (inv_run pool sch Hok) as HI. fold st in HI.
  split.
  - symmetry. eapply own_s; [done|by left].
  - intros c'. eapply own_m; [done|by left].
Qed.

(** *** No deadlock *)

Definition blocking (p : pc) : bool :=
  match p with Q0 | D0 | K0 | C0 | Q2 | D5 | C3 => true | _ => false end.

Lemma nonblocking_enabled st t c p :
  f_pool st !! t = Some (c, p) → final_pc p = false → blocking p = false → is_Some (fstep st (SRun t)).
Proof. intros Hl Hf Hb. simpl. rewrite Hl. destruct p; simpl; try done; eauto. Qed.

(** the owner of a session mutex, when it does not also hold sessionsMtx, can take its next step *)
Lemma mowner_enabled st c m :
  Inv st → fs_mtx (sess st c) = Some m →
  (∀ pm, f_pool st !! m = Some (c, pm) → holds_s pm = false) →
  is_Some (fstep st (SRun m)).
Proof.
  intros HI Hm Hns. apply (inv_m _ HI) in Hm as (pm & Hl & Hh).
  specialize (Hns _ Hl). eapply nonblocking_enabled; [done|..]; by destruct pm.
Qed.

Lemma C20_no_deadlock : T_C20_no_deadlock.
Proof.
  intros pool sch Hok st (t & c & p & Hl & Hnf). pose proof (inv_run pool sch Hok) as HI. fold st in HI.
  destruct (f_smtx st) as [o|] eqn:Es.
  - (* sessionsMtx is owned by [o] *)
    pose proof Es as Es'. apply (inv_s _ HI) in Es' as (co & po & Hlo & Hho).
    destruct (blocking po) eqn:Eb.
    + (* o is at Q2 / C3: s.mtx.Lock() while holding sessionsMtx *)
      destruct (fs_mtx (sess st co)) as [m|] eqn:Em.
      * exists m. eapply mowner_enabled; [done..|].
        intros pm Hlm. destruct (holds_s pm) eqn:Ehs; [|done]. exfalso.
        assert (f_smtx st = Some m) as Es2 by (apply (inv_s _ HI); eauto).
        assert (m = o) as -> by congruence.
        assert (holds_m po = true).
        { apply (inv_m _ HI) in Em as (pm' & Hl' & Hh'). congruence. }
        by destruct po.
      * exists o. simpl. rewrite Hlo. destruct po; simpl; try done; unfold take_m; rewrite Em; simpl; eauto.
    + exists o. eapply nonblocking_enabled; [done| |done]. by destruct po.
  - (* sessionsMtx is free *)
    assert (holds_s p = false) as Hhs.
    { destruct (holds_s p) eqn:E; [|done]. exfalso.
      assert (f_smtx st = Some t) by (apply (inv_s _ HI); eauto). congruence. }
    destruct (blocking p) eqn:Eb; [|exists t; by eapply nonblocking_enabled].
    destruct (fs_mtx (sess st c)) as [m|] eqn:Em.
    + destruct (decide (p = D5)) as [->|Hne].
      * exists m. eapply mowner_enabled; [done..|].
        intros pm Hlm. destruct (holds_s pm) eqn:Ehs; [|done]. exfalso.
        assert (f_smtx st = Some m) by (apply (inv_s _ HI); eauto). congruence.
      * exists t. simpl. rewrite Hl. destruct p; simpl; try done; unfold take_s; rewrite Es; simpl; eauto.
    + exists t. simpl. rewrite Hl.
      destruct p; simpl; try done; unfold take_s, take_m; rewrite ?Es, ?Em; simpl; eauto.
Qed.
