(** EDisconnect against the oracle (work package trackp): the oracle ends all holds of the session at once and then
    reads the completions; the model releases them one by one, handing capacity over as it goes. *)
From Coq Require Import Lia ZifyBool ZifyNat String Sorted.
From Ldlm Require Import Model.Base Model.Err Model.Seq Model.Track Proofs.SeqDefs Proofs.SeqLemmasKey Proofs.SeqInvBase
  Proofs.SeqInvOps Proofs.SeqInvTime Proofs.SeqInv Proofs.SeqTimeBase Proofs.SeqTime1 Proofs.SeqTime2 Proofs.SeqTime3
  Proofs.TrackPBase Proofs.TrackPOrder Proofs.TrackPRel Proofs.TrackPStep Proofs.TrackPTR Proofs.TrackPProbe Proofs.TrackPAcq
  Proofs.TrackPUnl.
From RecordUpdate Require Import RecordSet.
Import RecordSetNotations.
Local Open Scope Z_scope.

Definition Dfold (D : list (str * str)) (B : list clock) : list (str * str) :=
  fold_left (λ D c, Dminus (ckey c) D) B D.

Lemma elem_of_Dfold B : ∀ D d, d ∈ Dfold D B → d ∈ D ∧ d ∉ ckey <$> B.
Proof.
  induction B as [|c B IH]; intros D d; simpl.
  - intros ?. split; [done|apply not_elem_of_nil].
  - intros [[Hne Hd]%elem_of_Dminus Hn]%IH. split; [done|]. apply not_elem_of_cons. done.
Qed.

Lemma Dfold_all B : Dfold (ckey <$> B) B = [].
Proof.
  destruct (Dfold (ckey <$> B) B) as [|d r] eqn:E; [done|].
  assert (d ∈ Dfold (ckey <$> B) B) as [H1 H2]%elem_of_Dfold by (rewrite E; left). done.
Qed.

Section sess.
  Context (X : nat → string → Prop) (cfg : config) (i : nat) (cause : option err).

  (** the releases of a session's holds, one after the other *)
  Lemma dfold_LR (P : Z → Prop) B : ∀ s outs t D s' outs',
    fold_left (dstep cfg) B (s, outs) = (s', outs') →
    STI s [] → SLI cfg s → STM P s → (∀ v, 0 < v → P (st_now s + v * second)) →
    (∀ c, c ∈ B → ckey c ∈ D) → NoDup (ckey <$> B) → LR s D t → fails_ok X t → t_pending t = [] →
    ∃ o', outs' = outs ++ o' ∧
      LR s' (Dfold D B) (done_list cfg i cause (comps o') t) ∧ fails_ok X (done_list cfg i cause (comps o') t) ∧
      st_now s' = st_now s ∧ st_shut s' = st_shut s ∧
      (∀ c, c ∈ comps o' → c_at c = st_now s ∧ rlock c ∧ c_wid c ∈ w_id <$> st_waiters s ∧ c_wid c ∉ w_id <$> st_waiters s') ∧
      (∀ w, w ∈ st_waiters s' → w ∈ st_waiters s) ∧ NoDup (c_wid <$> comps o') ∧ NoDup (w_id <$> st_waiters s').
  Proof.
    induction B as [|c B IH]; intros s outs t D s' outs' Hf HT HL HM HP HB HBnd HLR HX Hpd.
    - simpl in Hf. injection Hf as <- <-. exists []. rewrite app_nil_r. split_and!; try done.
      + by intros c ?%elem_of_nil.
      + constructor.
      + apply (ti_ids _ _ _ _ _ HT).
    - rewrite fmap_cons in HBnd. apply NoDup_cons in HBnd as [HcB HBnd].
      cbn [fold_left] in Hf. unfold dstep at 2 in Hf.
      destruct (mgr_unlock cfg (cl_name c) (cl_key c) s) as [[s1 r] o1] eqn:Hm.
      assert (ckey c ∈ D) as HcD by (apply HB; left).
      pose proof (mgr_unlock_inv _ _ _ _ _ _ _ [] P Hm HT HL HM HP) as (HL1 & HM1 & [En1 Eg1] & HU1 & Hcase).
      destruct (mgr_unlock_LR cfg i cause X _ _ s s1 r o1 D t Hm HT HcD HLR HX Hpd) as (-> & HLR1 & HX1 & _ & Hnl1 & Hcs1 & Hsub1 & Hnd1 & Hndw1).
      destruct Hcase as [([e He] & _)|(_ & _ & HT1 & _)]; [done|].
      set (s2 := s1 <| st_timers := delete (tkey (cl_name c) (cl_key c)) (st_timers s1) |>) in *.
      assert (st_shut s1 = st_shut s) as Esh1.
      { apply mgr_unlock_spec in Hm as (? & _ & _ & _ & ? & _). done. }
      eapply (IH s2 (outs ++ o1) (done_list cfg i cause (comps o1) t) (Dminus (ckey c) D)) in Hf as
        (o' & -> & HLR' & HX' & En' & Esh' & Hcs' & Hsub' & Hnd' & Hndw').
      + exists (o1 ++ o'). rewrite app_assoc. split; [done|]. rewrite comps_app, done_list_app.
        split_and!; try done.
        * simpl in En'. congruence.
        * simpl in Esh'. congruence.
        * intros c' [Hc'|Hc']%elem_of_app.
          -- destruct (Hcs1 c' Hc') as (? & ? & ? & Hn). split_and!; try done. intros Hin. apply Hn.
             apply elem_of_list_fmap in Hin as (w & -> & Hw). apply elem_of_list_fmap. exists w. split; [done|]. by apply Hsub'.
          -- destruct (Hcs' c' Hc') as (? & ? & Hin & ?). simpl in *. split_and!; try done; [congruence|].
             apply elem_of_list_fmap in Hin as (w & -> & Hw). apply elem_of_list_fmap. exists w. split; [done|]. by apply Hsub1.
        * intros w Hw. apply Hsub1. by apply Hsub'.
        * rewrite fmap_app. apply NoDup_app. split; [done|]. split; [|done].
          intros x (c1 & -> & Hc1)%elem_of_list_fmap (c2 & E & Hc2)%elem_of_list_fmap.
          destruct (Hcs1 c1 Hc1) as (_ & _ & _ & Hn). destruct (Hcs' c2 Hc2) as (_ & _ & Hin & _). rewrite E in Hn. done.
      + unfold STI, s2. simpl. eapply TI_D_drop; [apply lookup_delete|]. by apply TI_timer_delete.
      + done.
      + unfold STM, s2. simpl. by apply TM_timer_delete.
      + simpl. rewrite En1. done.
      + intros c' Hc'. apply elem_of_Dminus. split; [|apply HB; by right].
        intros E. apply HcB. rewrite <- E. apply elem_of_list_fmap. eauto.
      + done.
      + eapply (LR_cleanup cfg); [exact HLR1|exact Hnl1|done..|by left|by right].
      + done.
      + by rewrite done_list_pending.
  Qed.
End sess.

Lemma giveups_no_holds cfg i cause cs : ∀ t h, (∀ c, c ∈ cs → is_grant (c_resp c) = false) →
  h ∈ t_holds (done_list cfg i cause cs t) → h ∈ t_holds t.
Proof.
  induction cs as [|c cs IH]; intros t h Hcs Hh; [done|]. simpl in Hh. apply IH in Hh; [|intros; apply Hcs; by right].
  rewrite done1_eq in Hh. simpl in Hh. unfold dh in Hh. destruct (findw _ _); [done|].
  apply elem_of_app in Hh as [Hh|Hh]; [apply elem_of_lfilter in Hh; tauto|].
  specialize (Hcs c (elem_of_list_here _ _)). destruct (c_resp c) as [[] ? ?| |]; try done; by apply elem_of_nil in Hh.
Qed.

Section disc.
  Context (X : nat → string → Prop) (cfg : config) (i : nat).

  Lemma track_disconnect_ok sid s s' o t :
    Inv cfg s → st_shut s = false → TR X cfg s t →
    disconnect cfg sid s = (s', o) →
    TR X cfg s' (track_step0 cfg i (EDisconnect sid) o t).
  Proof.
    intros HI Hsh HT Hd. simpl. unfold disconnect in Hd.
    destruct (cancel_waiters _ _ s) as [s1 o1] eqn:Hc. destruct (destroy_session cfg sid s1) as [s2 o2] eqn:Hds.
    injection Hd as <- <-.
    pose proof (Inv_QInv _ _ HI) as ((HTI & HLI & HVW) & HMM & _).
    pose proof (TR_LR _ _ _ _ HI Hsh HT) as HL. pose proof (TR_alive _ _ _ _ HI Hsh HT) as Hal.
    pose proof (tr_holds _ _ _ _ HT) as HH.
    set (t1 := if c_noclear cfg then t else t <| t_holds := List.filter (λ h, negb (bool_decide (h_sid h = sid))) (t_holds t) |>).
    set (D := if c_noclear cfg then [] else match st_sessions s !! sid with Some l => ckey <$> l | None => [] end).
    assert (t_now t1 = st_now s ∧ t_pending t1 = [] ∧ t_waiters t1 = t_waiters t ∧ fails_ok X t1) as (En1 & Ep1 & Ew1 & HX1).
    { unfold t1. destruct (c_noclear cfg); simpl; split_and!; try apply HT; done. }
    assert (ef (st_now s) (t_holds t1) = t_holds t1) as Hal1.
    { unfold t1. destruct (c_noclear cfg); [done|]. simpl. unfold ef. rewrite lfilter_comm. fold (ef (st_now s) (t_holds t)). by rewrite Hal. }
    assert (∀ c l, st_sessions s !! sid = Some l → c ∈ l → intab (st_locks s) c) as Hlt.
    { intros c l Hs Hcl. apply HVW. by exists sid, l. }
    assert (LR s D t1 ∧ (c_noclear cfg = false → ∀ h, h ∈ t_holds t1 → h_sid h ≠ sid)) as [HL1 Hsid1].
    { unfold t1, D. destruct (c_noclear cfg); [split; [exact HL|done]|].
      split; [|intros _ h [Hf _]%elem_of_lfilter; apply negb_true_iff, bool_decide_eq_false in Hf; done].
      destruct HL as [HHe HW]. split; [|exact HW]. rewrite Hal in HHe. fold t1. rewrite Hal1. unfold t1. simpl.
      eapply HR_doom; [exact HHe|..].
      - intros h Hh Hf. apply negb_false_iff, bool_decide_eq_true in Hf.
        destruct (hr_sid _ _ _ _ _ _ HHe h Hh) as (l & Hs & Hcl). rewrite Hf in Hs. rewrite Hs.
        rewrite <- ckey_hold_clock. apply elem_of_list_fmap. eauto.
      - intros h Hh Hf. apply negb_true_iff, bool_decide_eq_false in Hf.
        destruct (st_sessions s !! sid) as [locks|] eqn:Hs; [|apply not_elem_of_nil].
        intros (c & Ec & Hcl)%elem_of_list_fmap. apply Hf.
        destruct (hr_sid _ _ _ _ _ _ HHe h Hh) as (l & Hs' & Hcl').
        assert (c = hold_clock h) as ->.
        { eapply intab_same_hold; [by apply (hr_tab _ _ _ _ _ _ HHe)|by eapply Hlt| |]; unfold hkey, ckey in Ec; by injection Ec. }
        by eapply (inv_owner _ _ HI (h_sid h) sid).
      - by intros d ?%elem_of_nil.
      - intros n k Hd. destruct (st_sessions s !! sid) as [locks|] eqn:Hs; [|by apply elem_of_nil in Hd].
        apply elem_of_list_fmap in Hd as (c & [= -> ->] & Hcl). eapply intab_livel, Hlt; done. }
    destruct (cancel_waiters_ok X cfg i _ s s1 o1 t1 [] D HTI HL1 HX1 Hc)
      as (HL2 & HX2 & EL & ES & ETm & En & EF & EG & EU & Esh & EW & Hcs1 & Hnd1).
    set (t2 := done_list cfg i (Some ECtxCanceled) (comps o1) t1) in *.
    assert (∀ c, c ∈ comps o1 → c_wid c ∉ w_id <$> st_waiters s1) as Hgone1.
    { intros c Hcc. destruct (Hcs1 c Hcc) as (_ & _ & Hin & _). rewrite EW. intros (w & E & [Hn _]%elem_of_list_filter)%elem_of_list_fmap.
      apply Hn. by rewrite <- E. }
    assert (STI s1 [] ∧ SLI cfg s1 ∧ STM (λ d, st_now s < d) s1) as (HTI1 & HLI1 & HMM1).
    { eapply cancel_waiters_inv in Hc as (? & ? & ? & _); done. }
    (* the session's end *)
    assert (∃ o2', o2 = o2' ∧
       LR s2 [] (done_list cfg i (Some ECtxCanceled) (comps o2') t2) ∧ fails_ok X (done_list cfg i (Some ECtxCanceled) (comps o2') t2) ∧
       st_now s2 = st_now s ∧
       (∀ c, c ∈ comps o2' → c_at c = st_now s ∧ rlock c ∧ c_wid c ∈ w_id <$> st_waiters s1) ∧ NoDup (c_wid <$> comps o2'))
      as (? & <- & HL3 & HX3 & En3 & Hcs2 & Hnd2).
    { unfold destroy_session in Hds. rewrite Esh, Hsh in Hds. rewrite ES in Hds.
      assert (∀ S', (∀ h l, h ∈ ef (st_now s1) (t_holds t2) → st_sessions s1 !! h_sid h = Some l → hold_clock h ∈ l →
                       ∃ l', S' !! h_sid h = Some l' ∧ hold_clock h ∈ l') →
                LR (save cfg (s1 <| st_sessions := S' |>)) D t2) as Hframe.
      { intros S' HS'. eapply (LR_frame s1); [exact HL2|by rewrite save_locks|by rewrite save_waiters|by rewrite save_now|by rewrite save_used| |by rewrite save_timers].
        rewrite save_sessions. exact HS'. }
      destruct (st_sessions s !! sid) as [locks|] eqn:Hs.
      2:{ injection Hds as <- <-. exists []. split_and!; try done; [|by intros c ?%elem_of_nil|constructor].
          unfold D in HL2. rewrite ?Hs in HL2. by destruct (c_noclear cfg). }
      destruct (c_noclear cfg) eqn:Hnc; simpl in Hds.
      - (* no-clear: the session entry goes only if it lists nothing *)
        case_bool_decide as Hnil; simpl in Hds; injection Hds as <- <-; exists [].
        + subst locks. split_and!; [done| |exact HX2|by rewrite save_now|by intros c ?%elem_of_nil|constructor].
          rewrite <- ES. apply (Hframe (delete sid (st_sessions s1))).
          intros h l Hh Hsl Hcl. rewrite lookup_delete_ne; [eauto|]. intros E. rewrite <- E, ES, Hs in Hsl. injection Hsl as <-.
          by apply elem_of_nil in Hcl.
        + split_and!; [done|exact HL2|exact HX2|done|by intros c ?%elem_of_nil|constructor].
      - (* clear: every hold of the session is released *)
        set (s1' := save cfg (s1 <| st_sessions := delete sid (st_sessions s) |>)) in *.
        change (λ '(s, outs) c0, match mgr_unlock cfg (cl_name c0) (cl_key c0) s with
                                | (s', inr _, o) => (s' <| st_timers := delete (tkey (cl_name c0) (cl_key c0)) (st_timers s') |>, outs ++ o)
                                | (s', inl _, o) => (s', outs ++ o) end) with (dstep cfg) in Hds.
        eapply (dfold_LR X cfg i (Some ECtxCanceled) (λ d, st_now s < d) locks s1' [] t2 D) in Hds
          as (o' & -> & HL3 & HX3 & En3 & _ & Hcs3 & _ & Hnd3 & _).
        + exists o'. simpl. unfold D in HL3. rewrite ?Hs in HL3. rewrite Dfold_all in HL3. split_and!; try done.
          * rewrite En3. unfold s1'. by rewrite save_now.
          * intros c Hcc. destruct (Hcs3 c Hcc) as (E1 & ? & Hin & _). unfold s1' in E1, Hin. rewrite save_now in E1. rewrite save_waiters in Hin.
            simpl in *. split_and!; try done. congruence.
        + unfold STI, s1'. by rewrite save_locks, save_timers, save_waiters, save_used.
        + unfold SLI, s1'. rewrite save_sessions, save_waiters, save_used. simpl. rewrite <- ES.
          eapply LI_mono; [| |done|done|exact HLI1].
          * intros sid' l' [_ Hl']%lookup_delete_Some. split; [by eapply li_nodup|eauto].
          * intros Hf. left. by rewrite save_file.
        + unfold STM, s1'. by rewrite save_timers, save_waiters.
        + unfold s1'. rewrite save_now. simpl. rewrite En. intros v Hv. pose proof second_gt0. nia.
        + intros c Hcl. unfold D. rewrite ?Hs. apply elem_of_list_fmap. eauto.
        + apply NoDup_fmap_2_strong; [|by eapply (inv_nodup _ _ HI)]. intros c1 c2 H1 H2 [= E1 E2].
          symmetry. eapply intab_same_hold; [by eapply Hlt|by eapply Hlt|done..].
        + unfold s1'. rewrite <- ES. apply (Hframe (delete sid (st_sessions s1))).
          intros h l Hh Hsl Hcl. rewrite lookup_delete_ne; [eauto|]. intros E.
          apply (Hsid1 eq_refl h); [|done].
          assert (h ∈ t_holds t2) as Hh2 by (apply elem_of_lfilter in Hh; tauto).
          eapply giveups_no_holds; [|exact Hh2]. intros c Hcc. by destruct (Hcs1 c Hcc) as (_ & _ & _ & ?).
        + done.
        + unfold t2. by rewrite done_list_pending. }
    assert (∀ c, c ∈ comps (o1 ++ o2) → c_at c = st_now s2 ∧ rlock c) as Hcs.
    { intros c. rewrite comps_app, En3. intros [Hcc|Hcc]%elem_of_app.
      - destruct (Hcs1 c Hcc) as (? & ? & _). done.
      - destruct (Hcs2 c Hcc) as (? & ? & _). done. }
    unfold t2 in HL3, HX3. rewrite <- done_list_app, <- comps_app in HL3, HX3.
    eapply (finish_event X cfg i _ s2 (o1 ++ o2) t1 _ _ _ _ _ HL3 HX3 Hcs _ HTI); [by rewrite Ew1; apply HT|by rewrite En3|by rewrite En3|done].
    Unshelve.
    rewrite comps_app, fmap_app. apply NoDup_app. split; [done|]. split; [|done].
    intros x (c1 & -> & Hc1)%elem_of_list_fmap (c2 & E & Hc2)%elem_of_list_fmap.
    destruct (Hcs2 c2 Hc2) as (_ & _ & Hin). apply (Hgone1 c1 Hc1). by rewrite E.
  Qed.
End disc.
