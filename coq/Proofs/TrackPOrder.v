(** The completions of one event may be processed in the order the model emits them:
    [sort_completions] only moves the give-ups of an instant before its grants (each class keeps its
    order of emission), and reading a give-up before a grant of the same instant instead of after it
    gives the same tracker state and no additional failure. *)
From Coq Require Import Lia ZifyBool ZifyNat String Sorted.
From Ldlm Require Import Model.Base Model.Err Model.Seq Model.Track Proofs.TrackPBase.
From RecordUpdate Require Import RecordSet.
Import RecordSetNotations.
Local Open Scope Z_scope.

(** [done1] in closed form over the two lists it reads *)
Definition dh (hs : list hold) (ws : list twaiter) (c : comp) : list hold :=
  match findw (c_wid c) ws with [] => hs | w :: _ => ef (c_at c) hs ++ new_hold w (c_at c) (c_resp c) end.
Definition dw (ws : list twaiter) (c : comp) : list twaiter :=
  match findw (c_wid c) ws with [] => ws | _ :: _ => rmw (c_wid c) ws end.
Definition dk (ks : list str) (ws : list twaiter) (c : comp) : list str :=
  match findw (c_wid c) ws with [] => ks | _ :: _ => new_key (c_resp c) ++ ks end.
Definition df (cause : option err) (hs : list hold) (ws : list twaiter) (pend ks : list str) (c : comp) : list string :=
  match findw (c_wid c) ws with
  | [] => ["C03:completion-of-unknown-call"%string]
  | w :: _ => key_flags (c_resp c) ks ++ (if is_grant (c_resp c) then grant_flags w (c_at c) hs ws pend else []) ++ own_flags w (c_at c) (c_resp c) cause
  end.

Lemma done1_eq cfg i cause t c :
  done1 cfg i cause t c = TState (dh (t_holds t) (t_waiters t) c) (dw (t_waiters t) c) (t_now t) (t_pending t) (t_mem t) (t_sids t)
                                 (dk (t_keys t) (t_waiters t) c)
                                 (map (pair i) (df cause (t_holds t) (t_waiters t) (t_pending t) (t_keys t) c) ++ t_fail t).
Proof.
  unfold done1, dh, dw, dk, df. destruct (findw (c_wid c) (t_waiters t)) as [|w rest] eqn:E.
  - rewrite wd_unknown by done. by destruct t.
  - by erewrite wd_known.
Qed.

Lemma findw_rmw_ne w1 w2 ws : w1 ≠ w2 → findw w1 (rmw w2 ws) = findw w1 ws.
Proof.
  intros Hne. unfold findw, rmw. rewrite lfilter_lfilter. apply lfilter_ext. intros w _.
  repeat case_bool_decide; simpl; congruence.
Qed.
Lemma findw_dw_ne w1 c ws : w1 ≠ c_wid c → findw w1 (dw ws c) = findw w1 ws.
Proof. intros Hne. unfold dw. destruct (findw (c_wid c) ws); [done|]. by apply findw_rmw_ne. Qed.

Lemma won_rmw n wid ws : won n (rmw wid ws) = rmw wid (won n ws).
Proof. unfold won, rmw. apply lfilter_comm. Qed.

Lemma ef_new_hold w a r : ef a (new_hold w a r) = new_hold w a r.
Proof. destruct r as [[] ? ?| |]; try done. unfold ef. simpl. by rewrite lease_alive'. Qed.

Lemma cap_ok_ef w a hs pend : cap_ok w a (ef a hs) pend = cap_ok w a hs pend.
Proof. unfold cap_ok. by rewrite ef_ef by lia. Qed.

Lemma cap_ok_perm w a hs hs' pend : hs ≡ₚ hs' → cap_ok w a hs pend = cap_ok w a hs' pend.
Proof. intros H. unfold cap_ok, on_name, ef. by rewrite (lfilter_perm _ _ _ (lfilter_perm _ _ _ H)). Qed.

(** sizes of parked calls on one lock agree (true of the model's queue; needed to compare capacity checks) *)
Definition coh (ws : list twaiter) : Prop := ∀ w w', w ∈ ws → w' ∈ ws → tw_name w = tw_name w' → tw_size w = tw_size w'.

Lemma coh_dw ws c : coh ws → coh (dw ws c).
Proof.
  intros H w w' Hw Hw'. apply H; unfold dw in *; destruct (findw (c_wid c) ws); try done;
    unfold rmw in *; by (eapply elem_of_lfilter; eauto).
Qed.

Section order.
  Context (cfg : config) (i : nat) (cause : option err).

  Definition tle (t t' : tstate) : Prop :=
    t_now t' = t_now t ∧ t_pending t' = t_pending t ∧ t_mem t' = t_mem t ∧ t_sids t' = t_sids t ∧ t_keys t' = t_keys t ∧
    t_waiters t' = t_waiters t ∧ t_holds t ≡ₚ t_holds t' ∧
    ∀ x, x ∈ t_fail t' → x ∈ t_fail t.

  Lemma tle_refl t : tle t t.
  Proof. split_and!; try done. Qed.
  Lemma tle_trans t1 t2 t3 : tle t1 t2 → tle t2 t3 → tle t1 t3.
  Proof.
    intros (? & ? & ? & ? & ? & ? & Hp1 & F1) (? & ? & ? & ? & ? & ? & Hp2 & F2). split_and!; try congruence.
    - by rewrite Hp1.
    - auto.
  Qed.

  Lemma df_perm hs hs' ws pend ks c : hs ≡ₚ hs' → df cause hs ws pend ks c = df cause hs' ws pend ks c.
  Proof.
    intros H. unfold df. destruct (findw _ _); [done|]. f_equal. destruct (is_grant _); [|done].
    unfold grant_flags. by rewrite (cap_ok_perm _ _ _ _ _ H).
  Qed.
  Lemma dh_perm hs hs' ws c : hs ≡ₚ hs' → dh hs ws c ≡ₚ dh hs' ws c.
  Proof. intros H. unfold dh. destruct (findw _ _); [done|]. unfold ef. by rewrite (lfilter_perm _ _ _ H). Qed.

  Lemma done1_mono t t' c : tle t t' → tle (done1 cfg i cause t c) (done1 cfg i cause t' c).
  Proof.
    intros (En & Ep & Em & Es & Ek & Ew & Hh & Hf). rewrite !done1_eq. rewrite Ew, Ep, Ek. split_and!; simpl; try done.
    - by apply dh_perm.
    - intros x. rewrite !elem_of_app, <- (df_perm _ _ _ _ _ _ Hh). intros [?|Hx]; auto.
  Qed.

  Lemma done_list_mono l : ∀ t t', tle t t' → tle (done_list cfg i cause l t) (done_list cfg i cause l t').
  Proof. induction l as [|c l IH]; intros t t' H; [done|]. simpl. apply IH. by apply done1_mono. Qed.

  (** a grant followed by a give-up of the same instant *)
  Definition okswap (c1 c2 : comp) : Prop :=
    c_at c1 = c_at c2 ∧ c_wid c1 ≠ c_wid c2 ∧ is_grant (c_resp c1) = true ∧ is_grant (c_resp c2) = false.

  Lemma fifo_ok_rmw w wid ws : tw_id w ≠ wid → fifo_ok w ws = true → fifo_ok w (rmw wid ws) = true.
  Proof.
    unfold fifo_ok. rewrite won_rmw. destruct (won (tw_name w) ws) as [|w0 rest]; [done|].
    intros Hne E. apply bool_decide_eq_true in E. unfold rmw. simpl.
    rewrite bool_decide_eq_false_2 by congruence. simpl. by apply bool_decide_eq_true.
  Qed.

  (** the give-up read first *)
  Lemma done1_swap t c1 c2 : okswap c1 c2 →
    tle (done1 cfg i cause (done1 cfg i cause t c1) c2) (done1 cfg i cause (done1 cfg i cause t c2) c1).
  Proof.
    intros (Hat & Hne & G1 & G2). rewrite !done1_eq. simpl.
    set (hs := t_holds t). set (ws := t_waiters t). set (pd := t_pending t). set (ks := t_keys t).
    pose proof (findw_dw_ne (c_wid c1) c2 ws Hne) as F1.
    pose proof (findw_dw_ne (c_wid c2) c1 ws (not_eq_sym Hne)) as F2.
    assert (new_key (c_resp c2) = []) as Enk by (destruct (c_resp c2) as [[] ? ?| |]; done).
    assert (key_flags (c_resp c2) = λ _, []) as Ekf by (destruct (c_resp c2) as [[] ? ?| |]; done).
    split_and!; simpl; try done.
    - unfold dk. rewrite F1, F2. rewrite Enk. by destruct (findw (c_wid c1) ws), (findw (c_wid c2) ws).
    - unfold dw in *. rewrite F1, F2.
      destruct (findw (c_wid c1) ws), (findw (c_wid c2) ws); try done. unfold rmw. apply lfilter_comm.
    - unfold dh. rewrite F1, F2.
      destruct (findw (c_wid c1) ws) as [|w1 r1], (findw (c_wid c2) ws) as [|w2 r2]; try done.
      rewrite !ef_app, Hat, !ef_new_hold, !ef_ef by lia. rewrite <- !app_assoc. apply Permutation_app_head, Permutation_app_comm.
    - intros x. rewrite !elem_of_app, !elem_of_list_In, !in_map_iff. setoid_rewrite <- elem_of_list_In.
      unfold df. rewrite F1, F2. unfold dh, dw, dk. rewrite Enk, Ekf.
      destruct (findw (c_wid c1) ws) as [|w1 r1] eqn:E1; destruct (findw (c_wid c2) ws) as [|w2 r2] eqn:E2; try tauto.
      destruct (findw_id _ _ _ _ E1) as [Hid1 Hw1], (findw_id _ _ _ _ E2) as [Hid2 Hw2]. rewrite G1, G2, Hat. simpl.
      assert (new_hold w2 (c_at c2) (c_resp c2) = []) as Enh by (destruct (c_resp c2) as [[] ? ?| |]; done).
      rewrite Enh, app_nil_r.
      intros [(tg & <- & Hx)|[(tg & <- & Hx)|?]]; [| |tauto].
      + apply elem_of_app in Hx as [Hx|Hx]; [right; left; exists tg; split; [done|]; apply elem_of_app; by left|].
        apply elem_of_app in Hx as [Hx|Hx]; [|right; left; exists tg; split; [done|]; apply elem_of_app; right; apply elem_of_app; by right].
        right. left. exists tg. split; [done|]. apply elem_of_app. right. apply elem_of_app. left.
        unfold grant_flags in *. apply elem_of_app in Hx as [Hx|Hx]; apply elem_of_app; [left|right].
        * by rewrite cap_ok_ef in Hx.
        * destruct (fifo_ok w1 ws) eqn:F'.
          -- apply (fifo_ok_rmw _ (c_wid c2)) in F'; [|congruence]. rewrite F' in Hx. by apply elem_of_nil in Hx.
          -- destruct (fifo_ok w1 (rmw (c_wid c2) ws)); [by apply elem_of_nil in Hx|done].
      + left. exists tg. done.
  Qed.

  Inductive Reord : list comp → list comp → Prop :=
  | Reord_refl l : Reord l l
  | Reord_cons c l l' : Reord l l' → Reord (c :: l) (c :: l')
  | Reord_swap c1 c2 l : okswap c1 c2 → Reord (c1 :: c2 :: l) (c2 :: c1 :: l)
  | Reord_trans l1 l2 l3 : Reord l1 l2 → Reord l2 l3 → Reord l1 l3.

  Lemma Reord_tle l l' : Reord l l' → ∀ t, tle (done_list cfg i cause l t) (done_list cfg i cause l' t).
  Proof.
    induction 1 as [l|c l l' _ IH|c1 c2 l Hok|l1 l2 l3 _ IH1 _ IH2]; intros t.
    - apply tle_refl.
    - simpl. apply IH.
    - simpl. apply done_list_mono. by apply done1_swap.
    - eapply tle_trans; eauto.
  Qed.

  Lemma Reord_app_l pre l l' : Reord l l' → Reord (pre ++ l) (pre ++ l').
  Proof. intros H. induction pre as [|x pre IH]; [done|]. simpl. by apply Reord_cons. Qed.

  Lemma Reord_app_r l l' r : Reord l l' → Reord (l ++ r) (l' ++ r).
  Proof.
    induction 1 as [l|c l l' _ IH|c1 c2 l Hok|l1 l2 l3 _ IH1 _ IH2]; simpl.
    - apply Reord_refl.
    - by apply Reord_cons.
    - by apply Reord_swap.
    - eapply Reord_trans; eauto.
  Qed.

  (** a give-up moves in front of the grants of its instant *)
  Lemma Reord_move_left c post : (∀ x, x ∈ post → okswap x c) → Reord (post ++ [c]) (c :: post).
  Proof.
    induction post as [|x post IH]; intros H; [apply Reord_refl|]. simpl.
    eapply Reord_trans; [apply Reord_cons, IH; intros; apply H; by right|]. apply Reord_swap, H. left.
  Qed.
End order.

(** ** [sort_completions] *)

Definition ins_all (l acc : list comp) : list comp := fold_left (λ acc c, insert_by_time c acc) l acc.

Definition sortc (cs : list comp) : list comp :=
  ins_all (List.filter (λ c, negb (ok_bit (snd c))) cs ++ List.filter (λ c, ok_bit (snd c)) cs) [].

Lemma sort_completions_eq outs : sort_completions outs = sortc (comps outs).
Proof. done. Qed.

Lemma ins_perm c l : insert_by_time c l ≡ₚ c :: l.
Proof.
  induction l as [|x l IH]; [done|]. simpl. destruct (_ <? _); [done|]. rewrite IH. apply Permutation_swap.
Qed.
Lemma ins_all_perm l : ∀ acc, ins_all l acc ≡ₚ acc ++ l.
Proof.
  induction l as [|x l IH]; intros acc; simpl; [by rewrite app_nil_r|]. rewrite IH, ins_perm.
  by rewrite (Permutation_middle acc l x).
Qed.

Lemma ins_pass c pre l : (∀ x, x ∈ pre → c_at x ≤ c_at c) → insert_by_time c (pre ++ l) = pre ++ insert_by_time c l.
Proof.
  induction pre as [|x pre IH]; intros H; [done|]. simpl.
  assert (c_at x ≤ c_at c) as Hx by (apply H; left). unfold c_at in Hx.
  destruct (Z.ltb_spec (c.1).2 (x.1).2); [lia|]. f_equal. apply IH. intros y ?. apply H. by right.
Qed.

Lemma ins_end c l : (∀ x, x ∈ l → c_at x ≤ c_at c) → insert_by_time c l = l ++ [c].
Proof. intros H. rewrite <- (app_nil_r l) at 1. by rewrite ins_pass. Qed.

Lemma ins_stop c pre l : (∀ x, x ∈ l → c_at c < c_at x) → insert_by_time c (pre ++ l) = insert_by_time c pre ++ l.
Proof.
  intros H. induction pre as [|x pre IH]; simpl.
  - destruct l as [|y l]; [done|]. simpl. assert (c_at c < c_at y) as Hy by (apply H; left). unfold c_at in Hy.
    destruct (Z.ltb_spec (c.1).2 (y.1).2); [done|lia].
  - destruct (_ <? _); [done|]. simpl. by rewrite IH.
Qed.

Definition rlock (c : comp) : Prop := match c_resp c with RLock _ _ _ => True | _ => False end.

Lemma rlock_ok_bit c : rlock c → ok_bit (snd c) = is_grant (c_resp c).
Proof. unfold rlock, c_resp. destruct (c.2) as [[] ? ?| |]; done. Qed.

Notation tsorted := (StronglySorted (λ x y : comp, c_at x ≤ c_at y)).

Lemma tsorted_app (l1 l2 : list comp) : tsorted (l1 ++ l2) → tsorted l1 ∧ tsorted l2 ∧ ∀ x y, x ∈ l1 → y ∈ l2 → c_at x ≤ c_at y.
Proof.
  induction l1 as [|a l1 IH]; simpl; intros H.
  - split; [constructor|]. split; [done|]. by intros x y ?%elem_of_nil.
  - apply StronglySorted_inv in H as [H Ha]. destruct (IH H) as (H1 & H2 & H3). rewrite Forall_app, !Forall_forall in Ha.
    destruct Ha as [Ha1 Ha2]. split; [constructor; [done|by apply Forall_forall]|]. split; [done|].
    intros x y [->|Hx]%elem_of_cons Hy; [by apply Ha2|by apply H3].
Qed.

Lemma tsorted_filter (f : comp → bool) l : tsorted l → tsorted (List.filter f l).
Proof.
  induction 1 as [|x l Hs IH Hx]; simpl; [constructor|]. destruct (f x); [|done]. constructor; [done|].
  rewrite Forall_forall in *. intros y [_ Hy]%elem_of_lfilter. by apply Hx.
Qed.

(** inserting a sorted list whose elements are not before the accumulator appends it *)
Lemma ins_all_sorted l : ∀ acc, tsorted l → (∀ x y, x ∈ acc → y ∈ l → c_at x ≤ c_at y) → ins_all l acc = acc ++ l.
Proof.
  induction l as [|c l IH]; intros acc Hs Hle; simpl; [by rewrite app_nil_r|].
  apply StronglySorted_inv in Hs as [Hs Hc]. rewrite Forall_forall in Hc.
  rewrite ins_end by (intros x Hx; apply Hle; [done|left]). rewrite IH; [by rewrite <- app_assoc|done|].
  intros x y [Hx| ->%elem_of_list_singleton]%elem_of_app Hy; [apply Hle; [done|by right]|by apply Hc].
Qed.

(** the effect of one more (latest) give-up on the sorted list: it lands in front of the grants of its instant *)
Lemma ins_all_giveup c grs : ∀ p q, tsorted grs → (∀ g, g ∈ grs → c_at g ≤ c_at c) →
  (∀ x, x ∈ p → c_at x ≤ c_at c) → tsorted p → (∀ x, x ∈ q → c_at x = c_at c) →
  ∃ p' q', ins_all grs (p ++ c :: q) = p' ++ c :: q' ∧ ins_all grs (p ++ q) = p' ++ q' ∧
           (∀ x, x ∈ q' → x ∈ q ∨ x ∈ grs) ∧ (∀ x, x ∈ q' → c_at x = c_at c).
Proof.
  induction grs as [|g grs IH]; intros p q Hs Hg Hp Hps Hq; simpl.
  - exists p, q. split_and!; auto.
  - apply StronglySorted_inv in Hs as [Hs Hgs]. rewrite Forall_forall in Hgs.
    assert (c_at g ≤ c_at c) as Hgc by (apply Hg; left).
    destruct (decide (c_at g = c_at c)) as [Eg|Ng].
    + (* same instant: after everything *)
      rewrite (ins_end g (p ++ c :: q)), (ins_end g (p ++ q)).
      2:{ intros x [Hx|Hx]%elem_of_app; [specialize (Hp x Hx)|specialize (Hq x Hx)]; lia. }
      2:{ intros x [Hx|[->|Hx]%elem_of_cons]%elem_of_app; [specialize (Hp x Hx)|..|specialize (Hq x Hx)]; lia. }
      rewrite <- !app_assoc. simpl.
      destruct (IH p (q ++ [g]) Hs) as (p' & q' & E1 & E2 & Hsub & Hq'); try done.
      { intros; apply Hg; by right. }
      { intros x [Hx| ->%elem_of_list_singleton]%elem_of_app; [by apply Hq|done]. }
      exists p', q'. split_and!; try done. intros x Hx. destruct (Hsub x Hx) as [[?| ->%elem_of_list_singleton]%elem_of_app|?]; auto.
      * right. left.
      * right. by right.
    + (* an earlier instant: lands inside [p] *)
      assert (c_at g < c_at c) as Hlt by lia.
      rewrite (ins_stop g p (c :: q)), (ins_stop g p q).
      2:{ intros x Hx. specialize (Hq x Hx). lia. }
      2:{ intros x [->|Hx]%elem_of_cons; [done|]. specialize (Hq x Hx). lia. }
      destruct (IH (insert_by_time g p) q Hs) as (p' & q' & E1 & E2 & Hsub & Hq'); try done.
      { intros; apply Hg; by right. }
      { intros x Hx. rewrite ins_perm in Hx. apply elem_of_cons in Hx as [->|Hx]; [lia|by apply Hp]. }
      { clear -Hps. induction Hps as [|x p Hs IH Hx]; simpl; [repeat constructor|].
        destruct (Z.ltb_spec (g.1).2 (x.1).2).
        - constructor; [by constructor|]. constructor; [unfold c_at; lia|]. rewrite Forall_forall in *. intros y Hy. specialize (Hx y Hy). unfold c_at in *. lia.
        - constructor; [done|]. rewrite Forall_forall in *. intros y Hy. rewrite ins_perm in Hy. apply elem_of_cons in Hy as [->|Hy]; [done|by apply Hx]. }
      exists p', q'. split_and!; try done. intros x Hx. destruct (Hsub x Hx); auto. right. by right.
Qed.

Lemma lfilter_partition {A} (f : A → bool) l : List.filter (λ x, negb (f x)) l ++ List.filter f l ≡ₚ l.
Proof.
  induction l as [|a l IH]; simpl; [done|]. destruct (f a); simpl.
  - rewrite <- Permutation_middle. by rewrite IH.
  - by rewrite IH.
Qed.

Lemma sortc_perm cs : sortc cs ≡ₚ cs.
Proof. unfold sortc. rewrite ins_all_perm. simpl. apply lfilter_partition. Qed.

Lemma sortc_Reord cs :
  tsorted cs → NoDup (c_wid <$> cs) → (∀ c, c ∈ cs → rlock c) → Reord cs (sortc cs).
Proof.
  induction cs as [|c cs IH] using rev_ind; intros Hs Hnd Hrl; [apply Reord_refl|].
  apply tsorted_app in Hs as (Hs & _ & Hle).
  rewrite fmap_app in Hnd. apply NoDup_app in Hnd as (Hnd & Hdis & _).
  assert (∀ x, x ∈ cs → c_wid x ≠ c_wid c) as Hidne.
  { intros x Hx E. apply (Hdis (c_wid x)); [apply elem_of_list_fmap; eauto|]. rewrite E. simpl. left. }
  assert (∀ x, x ∈ cs → c_at x ≤ c_at c) as Hmax by (intros x Hx; apply Hle; [done|left]).
  specialize (IH Hs Hnd ltac:(intros; apply Hrl, elem_of_app; by left)).
  eapply Reord_trans; [apply Reord_app_r, IH|].
  set (gus := List.filter (λ c, negb (ok_bit c.2)) cs). set (grs := List.filter (λ c, ok_bit c.2) cs).
  assert (tsorted gus ∧ tsorted grs) as [Hsu Hsg] by (split; by apply tsorted_filter).
  assert (sortc cs = ins_all grs gus) as Es.
  { unfold sortc. unfold ins_all at 1. rewrite fold_left_app. change (ins_all grs (ins_all gus []) = ins_all grs gus). rewrite (ins_all_sorted gus []); [done|done|]. by intros x y ?%elem_of_nil. }
  assert (rlock c) as Hrc by (apply Hrl, elem_of_app; right; left).
  destruct (ok_bit c.2) eqn:Eb.
  - (* the latest completion is a grant: it stays last *)
    assert (sortc (cs ++ [c]) = sortc cs ++ [c]) as ->; [|apply Reord_refl].
    unfold sortc. rewrite !lfilter_app. simpl. rewrite Eb. simpl. rewrite app_nil_r, app_assoc.
    unfold ins_all at 1. rewrite fold_left_app. simpl. change (insert_by_time c (ins_all (gus ++ grs) []) = ins_all (gus ++ grs) [] ++ [c]). apply ins_end.
    intros x Hx. apply Hmax. rewrite ins_all_perm in Hx. simpl in Hx.
    apply elem_of_app in Hx as [Hx|Hx]; apply elem_of_lfilter in Hx; tauto.
  - (* a give-up: in front of the grants of its instant *)
    assert (sortc (cs ++ [c]) = ins_all grs (gus ++ [c])) as ->.
    { unfold sortc. rewrite !lfilter_app. simpl. rewrite Eb. simpl. rewrite app_nil_r. unfold ins_all at 1. rewrite fold_left_app.
      change (ins_all grs (ins_all (gus ++ [c]) []) = ins_all grs (gus ++ [c])).
      rewrite (ins_all_sorted (gus ++ [c]) []); [done| |by intros x y ?%elem_of_nil].
      clear -Hsu Hmax. assert (∀ x, x ∈ gus → c_at x ≤ c_at c) as H by (intros x [_ ?]%elem_of_lfilter; auto).
      induction Hsu as [|x l Hs IH Hx]; simpl; [repeat constructor|]. constructor; [apply IH; intros; apply H; by right|].
      apply Forall_app. split; [done|]. constructor; [apply H; left|constructor]. }
    rewrite Es.
    destruct (ins_all_giveup c grs gus [] Hsg) as (p' & q' & E1 & E2 & Hsub & Hq').
    { intros g [_ ?]%elem_of_lfilter. auto. }
    { intros x [_ ?]%elem_of_lfilter. auto. }
    { done. }
    { by intros x ?%elem_of_nil. }
    rewrite app_nil_r in E2. rewrite E1, E2. rewrite <- app_assoc. apply Reord_app_l, Reord_move_left.
    intros x Hx. destruct (Hsub x Hx) as [[]%elem_of_nil|Hxg]. apply elem_of_lfilter in Hxg as [Hb Hxc].
    split_and!; [by apply Hq'|by apply Hidne| |].
    + rewrite <- rlock_ok_bit; [done|]. apply Hrl, elem_of_app. by left.
    + rewrite <- rlock_ok_bit by done. done.
Qed.

(** ** The transfer: what holds of the tracker after the completions in emission order holds after [t_completions] *)

Lemma t_completions_transfer cfg i cause outs t :
  tsorted (comps outs) → NoDup (c_wid <$> comps outs) → (∀ c, c ∈ comps outs → rlock c) →
  tle (done_list cfg i cause (comps outs) t) (t_completions cfg i cause outs t).
Proof.
  intros Hs Hnd Hrl. rewrite t_completions_eq, sort_completions_eq. apply Reord_tle. by apply sortc_Reord.
Qed.
