(** The completions of one event may be processed in the order the model emits them:
    [sort_completions] only permutes completions of one instant (give-ups first, and each class
    reversed), and processing two such completions in the other order gives the same tracker
    state up to the order of the hold list; the only check whose outcome can get worse is
    "C03:not-fifo" when two grants fall on the same instant (parameter [M] below; this is the
    oracle's false alarm reported by trackp). *)
From Coq Require Import Lia ZifyBool ZifyNat String Sorted.
From Ldlm Require Import Model.Base Model.Err Model.Seq Model.Track Proofs.TrackPBase.
From RecordUpdate Require Import RecordSet.
Import RecordSetNotations.
Local Open Scope Z_scope.

(** [done1] in closed form over the two lists it reads *)
Definition dh (hs : list hold) (ws : list twaiter) (c : comp) : list hold :=
  match findw (c_wid c) ws with [] => hs | w :: _ => ef (c_at c) hs ++ new_hold w (c_at c) (c_resp c) end.
Definition dw (ws : list twaiter) (c : comp) : list twaiter :=
  match findw (c_wid c) ws with [] => ws | _ :: _ => rmw (c_wid c) ws end.
Definition df (cause : option err) (hs : list hold) (ws : list twaiter) (c : comp) : list string :=
  match findw (c_wid c) ws with
  | [] => ["C03:completion-of-unknown-call"%string]
  | w :: _ => (if is_grant (c_resp c) then grant_flags w (c_at c) hs ws else []) ++ own_flags w (c_at c) (c_resp c) cause
  end.

Lemma done1_eq cfg i cause t c :
  done1 cfg i cause t c = TState (dh (t_holds t) (t_waiters t) c) (dw (t_waiters t) c) (t_now t) (t_pending t)
                                 (map (pair i) (df cause (t_holds t) (t_waiters t) c) ++ t_fail t).
Proof.
  unfold done1, dh, dw, df. destruct (findw (c_wid c) (t_waiters t)) as [|w rest] eqn:E.
  - rewrite wd_unknown by done. by destruct t.
  - by erewrite wd_known.
Qed.

Lemma findw_rmw_ne w1 w2 ws : w1 ≠ w2 → findw w1 (rmw w2 ws) = findw w1 ws.
Proof.
  intros Hne. unfold findw, rmw. rewrite lfilter_lfilter. apply lfilter_ext. intros w _.
  repeat case_bool_decide; simpl; congruence.
Qed.
Lemma findw_dw_ne w1 c ws : w1 ≠ c_wid c → findw w1 (dw ws c) = findw w1 ws.
Proof. intros Hne. unfold dw. destruct (findw (c_wid c) ws); [done|]. by apply findw_rmw_ne. Qed.

Lemma won_rmw n wid ws : won n (rmw wid ws) = rmw wid (won n ws).
Proof. unfold won, rmw. apply lfilter_comm. Qed.

Lemma ef_new_hold w a r : ef a (new_hold w a r) = new_hold w a r.
Proof. destruct r as [[] ? ?| |]; try done. unfold ef. simpl. by rewrite lease_alive'. Qed.

Lemma cap_ok_ef w a hs : cap_ok w a (ef a hs) = cap_ok w a hs.
Proof. unfold cap_ok. by rewrite ef_ef by lia. Qed.

Lemma cap_ok_perm w a hs hs' : hs ≡ₚ hs' → cap_ok w a hs = cap_ok w a hs'.
Proof. intros H. unfold cap_ok, on_name, ef. by rewrite (lfilter_perm _ _ _ (lfilter_perm _ _ _ H)). Qed.

(** sizes of parked calls on one lock agree (true of the model's queue; needed to compare capacity checks) *)
Definition coh (ws : list twaiter) : Prop := ∀ w w', w ∈ ws → w' ∈ ws → tw_name w = tw_name w' → tw_size w = tw_size w'.

Lemma coh_dw ws c : coh ws → coh (dw ws c).
Proof.
  intros H w w' Hw Hw'. apply H; unfold dw in *; destruct (findw (c_wid c) ws); try done;
    unfold rmw in *; by (eapply elem_of_lfilter; eauto).
Qed.

Section order.
  Context (cfg : config) (i : nat) (cause : option err) (M : Prop).

  Definition Exc (x : nat * string) : Prop := M ∧ x = (i, "C03:not-fifo"%string).

  Definition tle (t t' : tstate) : Prop :=
    t_now t' = t_now t ∧ t_pending t' = t_pending t ∧ t_waiters t' = t_waiters t ∧ t_holds t ≡ₚ t_holds t' ∧
    ∀ x, x ∈ t_fail t' → x ∈ t_fail t ∨ Exc x.

  Lemma tle_refl t : tle t t.
  Proof. split_and!; try done. auto. Qed.
  Lemma tle_trans t1 t2 t3 : tle t1 t2 → tle t2 t3 → tle t1 t3.
  Proof.
    intros (? & ? & ? & Hp1 & F1) (? & ? & ? & Hp2 & F2). split_and!; try congruence.
    - by rewrite Hp1.
    - intros x Hx. destruct (F2 x Hx) as [?|?]; auto.
  Qed.

  Lemma df_perm hs hs' ws c : hs ≡ₚ hs' → df cause hs ws c = df cause hs' ws c.
  Proof.
    intros H. unfold df. destruct (findw _ _); [done|]. destruct (is_grant _); [|done].
    unfold grant_flags. by rewrite (cap_ok_perm _ _ _ _ H).
  Qed.
  Lemma dh_perm hs hs' ws c : hs ≡ₚ hs' → dh hs ws c ≡ₚ dh hs' ws c.
  Proof. intros H. unfold dh. destruct (findw _ _); [done|]. unfold ef. by rewrite (lfilter_perm _ _ _ H). Qed.

  Lemma done1_mono t t' c : tle t t' → tle (done1 cfg i cause t c) (done1 cfg i cause t' c).
  Proof.
    intros (En & Ep & Ew & Hh & Hf). rewrite !done1_eq. rewrite Ew. split_and!; simpl; try done.
    - by apply dh_perm.
    - intros x. rewrite !elem_of_app, <- (df_perm _ _ _ _ Hh). intros [?|Hx]; [auto|]. destruct (Hf x Hx); auto.
  Qed.

  Lemma done_list_mono l : ∀ t t', tle t t' → tle (done_list cfg i cause l t) (done_list cfg i cause l t').
  Proof. induction l as [|c l IH]; intros t t' H; [done|]. simpl. apply IH. by apply done1_mono. Qed.

  Definition okswap (c1 c2 : comp) : Prop :=
    c_at c1 = c_at c2 ∧ c_wid c1 ≠ c_wid c2 ∧
    (is_grant (c_resp c1) = true ∨ is_grant (c_resp c2) = false) ∧
    (is_grant (c_resp c1) = true → is_grant (c_resp c2) = true → M).

  Lemma fifo_ok_rmw w wid ws : tw_id w ≠ wid → fifo_ok w ws = true → fifo_ok w (rmw wid ws) = true.
  Proof.
    unfold fifo_ok. rewrite won_rmw. destruct (won (tw_name w) ws) as [|w0 rest]; [done|].
    intros Hne E. apply bool_decide_eq_true in E. unfold rmw. simpl.
    rewrite bool_decide_eq_false_2 by congruence. simpl. by apply bool_decide_eq_true.
  Qed.

  Lemma on_name_new_hold_ne w w' a r : tw_name w ≠ tw_name w' → on_name (tw_name w) (new_hold w' a r) = [].
  Proof. intros Hne. destruct r as [[] ? ?| |]; try done. unfold on_name. simpl. by rewrite bool_decide_eq_false_2. Qed.

  Lemma cap_ok_app_false w a hs l : cap_ok w a hs = false → cap_ok w a (hs ++ l) = false.
  Proof.
    unfold cap_ok, on_name. rewrite ef_app, lfilter_app, app_length. lia.
  Qed.

  Lemma cap_ok_app_other w w' a r hs : tw_name w ≠ tw_name w' → cap_ok w a (ef a hs ++ new_hold w' a r) = cap_ok w a hs.
  Proof.
    intros Hne. unfold cap_ok. rewrite ef_app, ef_ef, ef_new_hold by lia. unfold on_name at 1. rewrite lfilter_app.
    fold (on_name (tw_name w) (new_hold w' a r)). rewrite on_name_new_hold_ne by done. by rewrite app_nil_r.
  Qed.

  Lemma cap_ok_app_same w w' a k e k' e' hs : tw_name w = tw_name w' → tw_size w = tw_size w' →
    cap_ok w a (ef a hs ++ new_hold w' a (RLock true k e)) = cap_ok w' a (ef a hs ++ new_hold w a (RLock true k' e')).
  Proof.
    intros En Es. unfold cap_ok. rewrite !ef_app, !ef_new_hold. unfold on_name. rewrite !lfilter_app, !app_length, En, Es. simpl.
    rewrite !bool_decide_eq_true_2 by done. done.
  Qed.

  (** two completions of one instant, processed in the other order *)
  Lemma done1_swap t c1 c2 : coh (t_waiters t) → okswap c1 c2 →
    tle (done1 cfg i cause (done1 cfg i cause t c1) c2) (done1 cfg i cause (done1 cfg i cause t c2) c1).
  Proof.
    intros Hcoh (Hat & Hne & Hkind & HM). rewrite !done1_eq. simpl.
    set (hs := t_holds t). set (ws := t_waiters t).
    assert (∀ x : nat * string, x ∈ map (pair i) (df cause (dh hs ws c2) (dw ws c2) c1) ++ map (pair i) (df cause hs ws c2) ++ t_fail t →
            (x ∈ map (pair i) (df cause (dh hs ws c1) (dw ws c1) c2) ++ map (pair i) (df cause hs ws c1) ++ t_fail t) ∨ Exc x) as Hfl.
    { intros x. rewrite !elem_of_app, !elem_of_list_In, !in_map_iff. setoid_rewrite <- elem_of_list_In.
      unfold df. rewrite !findw_dw_ne by congruence. unfold dh, dw.
      destruct (findw (c_wid c1) ws) as [|w1 r1] eqn:E1; destruct (findw (c_wid c2) ws) as [|w2 r2] eqn:E2; try tauto.
      - destruct (findw_id _ _ _ _ E1) as [Hid1 Hw1], (findw_id _ _ _ _ E2) as [Hid2 Hw2]. rewrite Hat.
        intros [(tg & <- & Hx)|[(tg & <- & Hx)|?]]; [| |tauto].
        + (* a flag of c1, processed after c2 *)
          apply elem_of_app in Hx as [Hx|Hx]; [|left; right; left; exists tg; split; [done|]; apply elem_of_app; by right].
          destruct (is_grant (c_resp c1)) eqn:G1; [|by apply elem_of_nil in Hx].
          unfold grant_flags in Hx. apply elem_of_app in Hx as [Hx|Hx].
          * (* capacity *)
            destruct (cap_ok w1 _ _) eqn:C; [by apply elem_of_nil in Hx|]. apply elem_of_list_singleton in Hx as ->.
            destruct (decide (tw_name w1 = tw_name w2)) as [En|Hnn].
            -- destruct (is_grant (c_resp c2)) eqn:G2.
               ++ left. left. exists "C01:grant-over-capacity"%string. split; [done|]. apply elem_of_app. left.
                  unfold grant_flags. apply elem_of_app. left.
                  destruct (c_resp c1) as [[] k1 e1| |]; try done. destruct (c_resp c2) as [[] k2 e2| |]; try done.
                  rewrite (cap_ok_app_same w2 w1 _ k1 e1 k2 e2) by (symmetry; auto).
                  rewrite C. left.
               ++ left. right. left. exists "C01:grant-over-capacity"%string. split; [done|]. apply elem_of_app. left.
                  unfold grant_flags. apply elem_of_app. left.
                  assert (new_hold w2 (c_at c2) (c_resp c2) = []) as Enh by (destruct (c_resp c2) as [[] ? ?| |]; done).
                  rewrite Enh, app_nil_r, cap_ok_ef in C. rewrite C. left.
            -- left. right. left. exists "C01:grant-over-capacity"%string. split; [done|]. apply elem_of_app. left.
               unfold grant_flags. apply elem_of_app. left. rewrite cap_ok_app_other in C by done. rewrite C. left.
          * (* queue order *)
            destruct (fifo_ok w1 (rmw (c_wid c2) ws)) eqn:F; [by apply elem_of_nil in Hx|]. apply elem_of_list_singleton in Hx as ->.
            destruct (is_grant (c_resp c2)) eqn:G2; [right; split; [auto|done]|].
            left. right. left. exists "C03:not-fifo"%string. split; [done|]. apply elem_of_app. left.
            unfold grant_flags. apply elem_of_app. right. destruct (fifo_ok w1 ws) eqn:F'; [|left].
            apply (fifo_ok_rmw _ (c_wid c2)) in F'; congruence.
        + (* a flag of c2, processed first *)
          apply elem_of_app in Hx as [Hx|Hx]; [|left; left; exists tg; split; [done|]; apply elem_of_app; by right].
          destruct (is_grant (c_resp c2)) eqn:G2; [|by apply elem_of_nil in Hx].
          destruct Hkind as [G1|?]; [|congruence].
          unfold grant_flags in Hx. apply elem_of_app in Hx as [Hx|Hx].
          * destruct (cap_ok w2 _ hs) eqn:C; [by apply elem_of_nil in Hx|]. apply elem_of_list_singleton in Hx as ->.
            left. left. exists "C01:grant-over-capacity"%string. split; [done|]. apply elem_of_app. left.
            unfold grant_flags. apply elem_of_app. left.
            rewrite <- cap_ok_ef in C. rewrite (cap_ok_app_false _ _ _ _ C). left.
          * destruct (fifo_ok w2 ws); [by apply elem_of_nil in Hx|]. apply elem_of_list_singleton in Hx as ->.
            right. split; [auto|done]. }
    split_and!; simpl; try done.
    - pose proof (findw_dw_ne (c_wid c1) c2 ws Hne) as F1.
      pose proof (findw_dw_ne (c_wid c2) c1 ws (not_eq_sym Hne)) as F2.
      unfold dw in *. rewrite F1, F2.
      destruct (findw (c_wid c1) ws), (findw (c_wid c2) ws); try done. unfold rmw. apply lfilter_comm.
    - pose proof (findw_dw_ne (c_wid c1) c2 ws Hne) as F1.
      pose proof (findw_dw_ne (c_wid c2) c1 ws (not_eq_sym Hne)) as F2.
      unfold dh. rewrite F1, F2. clear F1 F2.
      destruct (findw (c_wid c1) ws) as [|w1 r1], (findw (c_wid c2) ws) as [|w2 r2]; try done.
      rewrite !ef_app, Hat, !ef_new_hold, !ef_ef by lia. rewrite <- !app_assoc. apply Permutation_app_head, Permutation_app_comm.
  Qed.

  Lemma done1_coh t c : coh (t_waiters t) → coh (t_waiters (done1 cfg i cause t c)).
  Proof. rewrite done1_eq. simpl. apply coh_dw. Qed.

  Inductive Reord : list comp → list comp → Prop :=
  | Reord_refl l : Reord l l
  | Reord_cons c l l' : Reord l l' → Reord (c :: l) (c :: l')
  | Reord_swap c1 c2 l : okswap c1 c2 → Reord (c1 :: c2 :: l) (c2 :: c1 :: l)
  | Reord_trans l1 l2 l3 : Reord l1 l2 → Reord l2 l3 → Reord l1 l3.

  Lemma Reord_tle l l' : Reord l l' → ∀ t, coh (t_waiters t) → tle (done_list cfg i cause l t) (done_list cfg i cause l' t).
  Proof.
    induction 1 as [l|c l l' _ IH|c1 c2 l Hok|l1 l2 l3 _ IH1 _ IH2]; intros t Hc.
    - apply tle_refl.
    - simpl. apply IH. by apply done1_coh.
    - simpl. apply done_list_mono. by apply done1_swap.
    - eapply tle_trans; eauto.
  Qed.

  Lemma Reord_move c pre post : (∀ x, x ∈ pre → okswap c x) → Reord (c :: pre ++ post) (pre ++ c :: post).
  Proof.
    induction pre as [|x pre IH]; intros H; [apply Reord_refl|]. simpl.
    eapply Reord_trans; [apply Reord_swap; apply H; left|]. apply Reord_cons, IH. intros y ?. apply H. by right.
  Qed.
End order.

(** ** [sort_completions] *)

Definition sortc (cs : list comp) : list comp :=
  fold_right insert_by_time [] (List.filter (λ c, ok_bit (snd c)) cs ++ List.filter (λ c, negb (ok_bit (snd c))) cs).

Lemma sort_completions_eq outs : sort_completions outs = sortc (comps outs).
Proof. done. Qed.

Lemma ins_perm c l : insert_by_time c l ≡ₚ c :: l.
Proof.
  induction l as [|x l IH]; [done|]. simpl. destruct (_ <? _); [done|]. rewrite IH. apply Permutation_swap.
Qed.
Lemma fold_ins_perm l acc : fold_right insert_by_time acc l ≡ₚ l ++ acc.
Proof. induction l as [|x l IH]; [done|]. simpl. by rewrite ins_perm, IH. Qed.

Lemma ins_pass c pre l : (∀ x, x ∈ pre → c_at x ≤ c_at c) → insert_by_time c (pre ++ l) = pre ++ insert_by_time c l.
Proof.
  induction pre as [|x pre IH]; intros H; [done|]. simpl.
  assert (c_at x ≤ c_at c) as Hx by (apply H; left). unfold c_at in Hx.
  destruct (Z.ltb_spec (c.1).2 (x.1).2); [lia|]. f_equal. apply IH. intros y ?. apply H. by right.
Qed.

Lemma ins_split c l : ∃ pre post, l = pre ++ post ∧ insert_by_time c l = pre ++ c :: post ∧ ∀ x, x ∈ pre → c_at x ≤ c_at c.
Proof.
  induction l as [|x l (pre & post & -> & E & Hp)]; [exists [], []; split_and!; try done; by intros ? ?%elem_of_nil|].
  simpl. destruct (Z.ltb_spec (c.1).2 (x.1).2).
  - exists [], (x :: pre ++ post). split_and!; try done. by intros ? ?%elem_of_nil.
  - exists (x :: pre), post. split_and!; [done|by rewrite E|]. intros y [->|?]%elem_of_cons; [done|auto].
Qed.

Definition rlock (c : comp) : Prop := match c_resp c with RLock _ _ _ => True | _ => False end.

Lemma rlock_ok_bit c : rlock c → ok_bit (snd c) = is_grant (c_resp c).
Proof. unfold rlock, c_resp. destruct (c.2) as [[] ? ?| |]; done. Qed.

Lemma lfilter_partition {A} (f : A → bool) l : List.filter f l ++ List.filter (λ x, negb (f x)) l ≡ₚ l.
Proof.
  induction l as [|a l IH]; simpl; [done|]. destruct (f a); simpl.
  - by rewrite IH.
  - rewrite <- Permutation_middle. by rewrite IH.
Qed.

Lemma sortc_perm cs : sortc cs ≡ₚ cs.
Proof. unfold sortc. rewrite fold_ins_perm, app_nil_r. apply lfilter_partition. Qed.

Lemma fold_ins_giveup c pre post grs :
  (∀ x, x ∈ pre → c_at x ≤ c_at c) → (∀ g, g ∈ grs → c_at c ≤ c_at g) →
  ∃ P, fold_right insert_by_time (pre ++ c :: post) grs = pre ++ c :: P ∧
       fold_right insert_by_time (pre ++ post) grs = pre ++ P.
Proof.
  intros Hp. induction grs as [|g grs IH]; intros Hg; [by exists post|].
  destruct IH as (P & E1 & E2); [intros; apply Hg; by right|]. simpl. rewrite E1, E2.
  assert (c_at c ≤ c_at g) as Hcg by (apply Hg; left).
  assert (∀ x, x ∈ pre → c_at x ≤ c_at g) as Hpg by (intros x Hx; specialize (Hp x Hx); lia).
  exists (insert_by_time g P). split.
  - rewrite (ins_pass g pre (c :: P)) by done. f_equal. simpl. unfold c_at in Hcg.
    destruct (Z.ltb_spec (g.1).2 (c.1).2); [lia|]. done.
  - by apply ins_pass.
Qed.

Section sort.
  Context (M : Prop).

  Lemma sortc_Reord cs :
    StronglySorted (λ x y, c_at x ≤ c_at y) cs → NoDup (c_wid <$> cs) → (∀ c, c ∈ cs → rlock c) →
    (∀ c1 c2, c1 ∈ cs → c2 ∈ cs → c_wid c1 ≠ c_wid c2 → c_at c1 = c_at c2 →
       is_grant (c_resp c1) = true → is_grant (c_resp c2) = true → M) →
    Reord M cs (sortc cs).
  Proof.
    induction cs as [|c cs IH]; intros Hs Hnd Hrl HM; [apply Reord_refl|].
    apply StronglySorted_inv in Hs as [Hs Hc]. rewrite Forall_forall in Hc.
    rewrite fmap_cons in Hnd. apply NoDup_cons in Hnd as [Hcn Hnd].
    assert (∀ x, x ∈ cs → c_wid c ≠ c_wid x) as Hidne.
    { intros x Hx E. apply Hcn. rewrite E. apply elem_of_list_fmap. eauto. }
    specialize (IH Hs Hnd). eapply Reord_trans.
    { apply Reord_cons, IH; [intros; apply Hrl; by right|]. intros c1 c2 ? ?. apply HM; by right. }
    pose proof (sortc_perm cs) as Hperm.
    assert (rlock c) as Hrc by (apply Hrl; left).
    destruct (ok_bit c.2) eqn:Eb.
    - (* a grant: inserted after everything of its instant *)
      assert (sortc (c :: cs) = insert_by_time c (sortc cs)) as ->.
      { unfold sortc. simpl. by rewrite Eb. }
      destruct (ins_split c (sortc cs)) as (pre & post & E1 & E2 & Hpre). rewrite E2, E1.
      apply Reord_move. intros x Hx.
      assert (x ∈ cs) as Hxc by (rewrite <- Hperm, E1; apply elem_of_app; by left).
      rewrite rlock_ok_bit in Eb by done.
      split_and!; [specialize (Hc x Hxc); specialize (Hpre x Hx); lia|by apply Hidne|by left|].
      intros _ Gx. eapply (HM c x); [left|by right|by apply Hidne| |done|done].
      specialize (Hc x Hxc); specialize (Hpre x Hx); lia.
    - (* a give-up: ends up after the give-ups of its instant, before the grants *)
      set (grs := List.filter (λ c, ok_bit c.2) cs). set (gus := List.filter (λ c, negb (ok_bit c.2)) cs).
      assert (sortc (c :: cs) = fold_right insert_by_time (insert_by_time c (fold_right insert_by_time [] gus)) grs) as ->.
      { unfold sortc. simpl. rewrite Eb. simpl. by rewrite fold_right_app. }
      assert (sortc cs = fold_right insert_by_time (fold_right insert_by_time [] gus) grs) as Es.
      { unfold sortc. by rewrite fold_right_app. }
      destruct (ins_split c (fold_right insert_by_time [] gus)) as (pre & post & E1 & E2 & Hpre).
      assert (∀ x, x ∈ pre → x ∈ gus) as Hpg.
      { intros x Hx. rewrite <- (app_nil_r gus), <- fold_ins_perm, E1. apply elem_of_app. by left. }
      destruct (fold_ins_giveup c pre post grs Hpre) as (P & F1 & F2).
      { intros g [_ Hg]%elem_of_lfilter. by apply Hc. }
      rewrite E2, F1. rewrite Es, E1, F2. apply Reord_move. intros x Hx.
      pose proof (Hpg x Hx) as Hx'. apply elem_of_lfilter in Hx' as [Hxb Hxc].
      assert (is_grant (c_resp x) = false) as Gx.
      { rewrite <- rlock_ok_bit by (apply Hrl; by right). by destruct (ok_bit x.2). }
      split_and!; [specialize (Hc x Hxc); specialize (Hpre x Hx); lia|by apply Hidne|by right|].
      intros _ ?. congruence.
  Qed.
End sort.

(** ** The transfer: what holds of the tracker after the completions in emission order holds after [t_completions] *)

Definition multi_grant (cs : list comp) : Prop :=
  ∃ c1 c2, c1 ∈ cs ∧ c2 ∈ cs ∧ c_wid c1 ≠ c_wid c2 ∧ c_at c1 = c_at c2 ∧
           is_grant (c_resp c1) = true ∧ is_grant (c_resp c2) = true.

Lemma t_completions_transfer cfg i cause outs t :
  StronglySorted (λ x y, c_at x ≤ c_at y) (comps outs) → NoDup (c_wid <$> comps outs) →
  (∀ c, c ∈ comps outs → rlock c) → coh (t_waiters t) →
  tle i (multi_grant (comps outs)) (done_list cfg i cause (comps outs) t) (t_completions cfg i cause outs t).
Proof.
  intros Hs Hnd Hrl Hcoh. rewrite t_completions_eq, sort_completions_eq. apply Reord_tle; [|done].
  apply sortc_Reord; try done. intros c1 c2 ? ? ? ? ? ?. exists c1, c2. done.
Qed.
