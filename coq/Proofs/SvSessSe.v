(** Effect of one step of Msv on the session table (with its ghost events), the timer heap and the shutdown flag.
    Work package svsess. *)
From Coq Require Import Lia ZifyBool ZifyNat.
From Ldlm Require Import Model.Base Model.Err Model.Sv Proofs.SvDefs Proofs.SvSessBase Proofs.SvSessThr Proofs.SvSessLk.
From RecordUpdate Require Import RecordSet.
Import RecordSetNotations.
Local Open Scope Z_scope.

(** ** trace extension without session-table events *)
Definition is_sess_ev (e : sev) : bool := match e with SvSessAdd _ _ _ | SvSessDestroy _ _ | SvConnect _ => true | _ => false end.
Definition tr_xs (tr0 tr : list sev) : Prop := ∃ evs, tr = evs ++ tr0 ∧ forallb (λ e, negb (is_sess_ev e)) evs = true.
Lemma tr_xs_refl tr : tr_xs tr tr.
Proof. by exists []. Qed.
Lemma tr_xs_cons tr0 tr e : is_sess_ev e = false → tr_xs tr0 tr → tr_xs tr0 (e :: tr).
Proof. intros He (evs & -> & Hevs). exists (e :: evs). split; [done|]. simpl. by rewrite He. Qed.
Lemma tr_xs_vemit tr0 e s : is_sess_ev e = false → tr_xs tr0 (v_trace s) → tr_xs tr0 (v_trace (vemit e s)).
Proof. intros. simpl. by apply tr_xs_cons. Qed.
Lemma tr_xs_vfinish tr0 tid r s : tr_xs tr0 (v_trace s) → tr_xs tr0 (v_trace (vfinish tid r s)).
Proof. intros. unfold vfinish. apply tr_xs_vemit; [done|]. by rewrite vset_pc_v_trace. Qed.
Lemma tr_xs_sess_remove tr0 cfg tid n k s : tr_xs tr0 (v_trace s) → tr_xs tr0 (v_trace (sess_remove cfg tid n k s)).
Proof. intros. unfold sess_remove. apply tr_xs_vemit; [done|]. case_match; by rewrite ?vsave_v_trace. Qed.
Lemma tr_xs_hand_over tr0 name s : tr_xs tr0 (v_trace s) → tr_xs tr0 (v_trace (hand_over name s)).
Proof.
  intros. rewrite hand_over_eq. destruct (ho_grant name s) as [[[a w] q']|]; [|done].
  apply tr_xs_vemit; [done|]. by rewrite vset_pc_v_trace.
Qed.
Lemma tr_xs_mgr_unlock tr0 tid name key s : tr_xs tr0 (v_trace s) → tr_xs tr0 (v_trace (mgr_unlock tid name key s).1).
Proof.
  intros. unfold mgr_unlock. repeat case_match; simpl; try done. apply tr_xs_hand_over. simpl. by apply tr_xs_cons.
Qed.
Lemma tr_xs_spawn_all tr0 (l : list str) s : tr_xs tr0 (v_trace s) →
  tr_xs tr0 (v_trace (fold_left (λ s sid, vemit (SvConnEnd sid) (spawn (SConnEnd sid) VDsFlag s)) l s)).
Proof. intros H. apply (fold_left_inv (λ s', tr_xs tr0 (v_trace s'))); [done|]. intros s' sid H' _. first [apply tr_ext_vemit|apply tr_xs_vemit]; [done|]. by rewrite spawn_v_trace. Qed.
Lemma tr_xs_fire_due tr0 s : tr_xs tr0 (v_trace s) → tr_xs tr0 (v_trace (fire_due s)).
Proof.
  intros H. unfold fire_due. apply (fold_left_inv (λ s', tr_xs tr0 (v_trace s'))); [done|].
  intros s' [id tm] H' _. repeat case_match; try done. apply tr_xs_vemit; [done|]. by rewrite spawn_v_trace.
Qed.
Ltac xs_tac :=
  repeat first [ apply tr_xs_refl
               | apply tr_xs_vfinish | apply tr_xs_sess_remove | apply tr_xs_mgr_unlock
               | apply tr_xs_hand_over | apply tr_xs_spawn_all | apply tr_xs_fire_due
               | apply tr_xs_vemit; [reflexivity|]
               | progress (autorewrite with svframe) | progress simpl ].

Lemma tr_xs_elem tr0 tr e : tr_xs tr0 tr → e ∈ tr0 → e ∈ tr.
Proof. intros (evs & -> & _) He. apply elem_of_app. by right. Qed.
Lemma tr_xs_elem_back tr0 tr e : tr_xs tr0 tr → is_sess_ev e = true → e ∈ tr → e ∈ tr0.
Proof.
  intros (evs & -> & Hevs) He [Hin|Hin]%elem_of_app; [|done].
  rewrite forallb_forall in Hevs. apply elem_of_list_In, Hevs in Hin. by rewrite He in Hin.
Qed.

Lemma spawn_all_v_sess (l : list str) s : v_sess (fold_left (λ s sid, vemit (SvConnEnd sid) (spawn (SConnEnd sid) VDsFlag s)) l s) = v_sess s.
Proof. apply (fold_left_inv (λ s', v_sess s' = v_sess s)); [done|]. intros s' sid H' _. by rewrite vemit_v_sess, spawn_v_sess. Qed.
Lemma fire_due_v_sess s : v_sess (fire_due s) = v_sess s.
Proof.
  unfold fire_due. apply (fold_left_inv (λ s', v_sess s' = v_sess s)); [done|].
  intros s' [id tm] H' _. repeat case_match; rewrite ?vemit_v_sess, ?spawn_v_sess; done.
Qed.

(** ** the session table *)
Definition sess_eff (cfg : svcfg) (s : svstate) (it : sitem) (s' : svstate) : Prop :=
  (v_sess s' = v_sess s ∧ tr_xs (v_trace s) (v_trace s'))
  ∨ (∃ sid, it = VConnect sid ∧ v_trace s' = SvConnect sid :: v_trace s ∧
        v_sess s' = match v_sess s !! sid with Some _ => v_sess s | None => <[sid := []]> (v_sess s) end)
  ∨ (∃ tid t sid n k z, it = VRun tid ∧ v_thr s !! tid = Some t ∧ acquirer t sid n k z ∧ st_pc t = VSessAdd ∧
        v_sess s' = <[sid := default [] (v_sess s !! sid) ++ [Clock n k z]]> (v_sess s) ∧
        tr_xs (SvSessAdd tid sid (Clock n k z) :: v_trace s) (v_trace s'))
  ∨ (∃ tid t n k, it = VRun tid ∧ v_thr s !! tid = Some t ∧
        ((st_op t = SUnlock n k ∧ st_pc t = VSessRemove) ∨
         (∃ id tm, st_op t = SExpire id ∧ st_pc t = VCbSessRemove ∧ v_theap s !! id = Some tm ∧ tm_n tm = n ∧ tm_k tm = k)) ∧
        v_sess s' = (λ l, filter (λ c, is_hold n k c = false) l) <$> v_sess s ∧ tr_xs (v_trace s) (v_trace s'))
  ∨ (∃ tid t sid l, it = VRun tid ∧ v_thr s !! tid = Some t ∧ st_op t = SConnEnd sid ∧
        (st_pc t = VDsDestroy ∨ (st_pc t = VDsNoClear ∧ l = [])) ∧
        v_sess s !! sid = Some l ∧ v_sess s' = delete sid (v_sess s) ∧ v_trace s' = SvSessDestroy tid sid :: v_trace s).

Lemma sess_eff_same cfg s it s' : v_sess s' = v_sess s → tr_xs (v_trace s) (v_trace s') → sess_eff cfg s it s'.
Proof. intros. left. done. Qed.

Lemma sess_add_v_sess cfg tid sid c s : v_sess (sess_add cfg tid sid c s) = <[sid := default [] (v_sess s !! sid) ++ [c]]> (v_sess s).
Proof. unfold sess_add. by rewrite vemit_v_sess, vsave_v_sess. Qed.
Lemma sess_add_v_trace cfg tid sid c s : v_trace (sess_add cfg tid sid c s) = SvSessAdd tid sid c :: v_trace s.
Proof.
  unfold sess_add.
  change (SvSessAdd tid sid c :: v_trace (vsave cfg (s <| v_sess := <[sid := default [] (v_sess s !! sid) ++ [c]]> (v_sess s) |>)) = SvSessAdd tid sid c :: v_trace s).
  by rewrite vsave_v_trace.
Qed.
Lemma sess_remove_v_sess cfg tid n k s : v_sess (sess_remove cfg tid n k s) = (λ l, filter (λ c, is_hold n k c = false) l) <$> v_sess s.
Proof. unfold sess_remove. rewrite vemit_v_sess. case_match; by rewrite ?vsave_v_sess. Qed.
Lemma sess_destroy_some cfg tid sid s l : v_sess s !! sid = Some l →
  v_sess (sess_destroy cfg tid sid s).1 = delete sid (v_sess s) ∧ v_trace (sess_destroy cfg tid sid s).1 = SvSessDestroy tid sid :: v_trace s ∧
  (sess_destroy cfg tid sid s).2 = l.
Proof.
  intros H. unfold sess_destroy. rewrite H. cbn [fst snd]. split_and!; [by rewrite vemit_v_sess, vsave_v_sess| |done].
  change (SvSessDestroy tid sid :: v_trace (vsave cfg (s <| v_sess := delete sid (v_sess s) |>)) = SvSessDestroy tid sid :: v_trace s).
  by rewrite vsave_v_trace.
Qed.
Lemma sess_destroy_none cfg tid sid s : v_sess s !! sid = None → sess_destroy cfg tid sid s = (s, []).
Proof. intros H. unfold sess_destroy. by rewrite H. Qed.

Lemma vrun_thread_sess_eff cfg tid t s : v_thr s !! tid = Some t → sess_eff cfg s (VRun tid) (vrun_thread cfg tid t s).
Proof.
  intros Ht. destruct t as [op pc cn]. unfold vrun_thread. cbn [st_pc st_op st_cancel].
  destruct pc, op; try (apply sess_eff_same; [done|apply tr_xs_refl]).
  all: repeat case_match; subst; pair_norm.
  all: try (apply sess_eff_same; [by autorewrite with svframe|xs_tac; fail]).
  (* AddLock *)
  1-4: (right; right; left; eexists tid, _, _, _, _, _; split_and!; [done|exact Ht|eexists; simpl; eauto|done| |];
        [autorewrite with svframe; by rewrite sess_add_v_sess|unfold vfinish; repeat first [apply tr_xs_vemit; [reflexivity|] | rewrite vset_pc_v_trace]; rewrite sess_add_v_trace; apply tr_xs_refl]).
  (* RemoveLock *)
  - right; right; right; left. eexists tid, _, _, _. split_and!; [done|exact Ht|left; done| |].
    + autorewrite with svframe. by rewrite sess_remove_v_sess.
    + xs_tac.
  - right; right; right; left. eexists tid, _, _, _. split_and!; [done|exact Ht|right; simpl; eauto 8| |].
    + autorewrite with svframe. by rewrite sess_remove_v_sess.
    + xs_tac.
  (* DestroySessionIfEmpty: an empty session *)
  - destruct (sess_destroy_some cfg tid sid s [] ltac:(done)) as (H1 & H2 & H3).
    right; right; right; right. eexists tid, _, sid, []. split_and!; [done|exact Ht|done|right; done|done| |]; by autorewrite with svframe.
  (* DestroySession *)
  - destruct (v_sess s !! sid) as [l|] eqn:Hs.
    + destruct (sess_destroy_some cfg tid sid s l Hs) as (H1 & H2 & H3).
      right; right; right; right. eexists tid, _, sid, l. split_and!; [done|exact Ht|done|left; done|done| |]; by autorewrite with svframe.
    + rewrite (sess_destroy_none _ _ _ _ Hs). simpl. apply sess_eff_same; [by autorewrite with svframe|xs_tac].
  (* network stop *)
  - apply sess_eff_same; [autorewrite with svframe; by rewrite spawn_all_v_sess|xs_tac].
Qed.

Lemma vstep_sess_eff cfg s it : v_crashed s = false → sess_eff cfg s it (vstep cfg s it).
Proof.
  intros Hc. unfold vstep. rewrite Hc.
  destruct it as [tid op|tid|tid cause|sid|sid|dt|].
  - repeat case_match; apply sess_eff_same; try done; try apply tr_xs_refl. xs_tac.
  - destruct (v_thr s !! tid) as [t|] eqn:Ht; [by apply vrun_thread_sess_eff|apply sess_eff_same; [done|apply tr_xs_refl]].
  - repeat case_match; apply sess_eff_same; try done; apply tr_xs_refl.
  - right; left. exists sid. split; [done|]. split; [simpl; by case_match|]. rewrite vemit_v_sess. by case_match.
  - apply sess_eff_same; [done|]. xs_tac.
  - apply sess_eff_same; [by rewrite fire_due_v_sess|]. xs_tac.
  - apply sess_eff_same; [done|]. xs_tac.
Qed.

(** ** the lock manager's shutdown flag is monotone *)
Lemma spawn_all_v_mgrshut (l : list str) s : v_mgrshut (fold_left (λ s sid, vemit (SvConnEnd sid) (spawn (SConnEnd sid) VDsFlag s)) l s) = v_mgrshut s.
Proof. apply (fold_left_inv (λ s', v_mgrshut s' = v_mgrshut s)); [done|]. intros s' sid H' _. by rewrite vemit_v_mgrshut, spawn_v_mgrshut. Qed.
Lemma fire_due_v_mgrshut s : v_mgrshut (fire_due s) = v_mgrshut s.
Proof.
  unfold fire_due. apply (fold_left_inv (λ s', v_mgrshut s' = v_mgrshut s)); [done|].
  intros s' [id tm] H' _. repeat case_match; rewrite ?vemit_v_mgrshut, ?spawn_v_mgrshut; done.
Qed.

Lemma vstep_mgrshut cfg s it : v_mgrshut (vstep cfg s it) = false → v_mgrshut s = false.
Proof.
  unfold vstep. destruct (v_crashed s); [done|].
  destruct it as [tid op|tid|tid cause|sid|sid|dt|]; try (repeat case_match; simpl; done).
  - destruct (v_thr s !! tid) as [t|] eqn:Ht; [|done]. destruct t as [op pc cn]. unfold vrun_thread. cbn [st_pc st_op st_cancel].
    destruct pc, op; try done.
    all: repeat case_match; subst; pair_norm; unfold vfinish; autorewrite with svframe; simpl; try done.
    1,2: congruence.
    by rewrite spawn_all_v_mgrshut.
  - by rewrite fire_due_v_mgrshut.
Qed.

(** ** the trace only grows *)
Lemma vstep_trace_app cfg s it : v_crashed s = false → ∃ evs, v_trace (vstep cfg s it) = evs ++ v_trace s.
Proof.
  intros Hc. destruct (vstep_lock_eff cfg s it Hc) as [[_ (evs & -> & _)]|[(n0 & a' & z & _ & (evs & -> & _) & _)|(tid & t & name & key & a & _ & _ & _ & _ & _ & (evs & -> & _) & _)]]; eauto.
  destruct (rel_state_trace tid name key a s) as (evs' & -> & _). exists (evs ++ evs' ++ [SvReleased tid name key]).
  by rewrite <- !app_assoc.
Qed.
Lemma vstep_trace_mono cfg s it e : v_crashed s = false → e ∈ v_trace s → e ∈ v_trace (vstep cfg s it).
Proof. intros Hc He. destruct (vstep_trace_app cfg s it Hc) as (evs & ->). apply elem_of_app. by right. Qed.

Lemma add_after_destroy_app sid evs tr : add_after_destroy sid (evs ++ tr) = false → add_after_destroy sid tr = false.
Proof.
  induction evs as [|e evs IH]; simpl; [done|]. destruct e; try done.
  intros [_ ?]%orb_false_elim. auto.
Qed.
Lemma add_after_destroy_mono cfg s it sid : v_crashed s = false →
  add_after_destroy sid (v_trace (vstep cfg s it)) = false → add_after_destroy sid (v_trace s) = false.
Proof. intros Hc. destruct (vstep_trace_app cfg s it Hc) as (evs & ->). apply add_after_destroy_app. Qed.

(** an entry written after the destroy is the signature of F-LEAK *)
Lemma add_after_destroy_hit sid evs tid c tr x : SvSessDestroy x sid ∈ tr →
  add_after_destroy sid (evs ++ SvSessAdd tid sid c :: tr) = true.
Proof.
  intros Hin. induction evs as [|e evs IH]; simpl.
  - rewrite bool_decide_true by done. simpl. apply orb_true_intro. left.
    apply existsb_exists. exists (SvSessDestroy x sid). split; [by apply elem_of_list_In|]. by rewrite bool_decide_true.
  - destruct e; try done. rewrite IH. apply orb_true_r.
Qed.

(** ** the timer heap: timers are never deleted and keep their hold; a new one is armed *)
Definition heap_rel (o o' : option stimer) : Prop :=
  match o, o' with
  | Some tm, Some tm' => tm_n tm' = tm_n tm ∧ tm_k tm' = tm_k tm ∧ tm_s tm' = tm_s tm
  | Some _, None => False
  | None, Some tm' => ∃ d, tm_st tm' = TArmed d
  | None, None => True
  end.
Lemma heap_rel_refl o : heap_rel o o.
Proof. by destruct o. Qed.
Lemma heap_rel_upd (m : gmap nat stimer) id tm tm' x : m !! id = Some tm →
  tm_n tm' = tm_n tm → tm_k tm' = tm_k tm → tm_s tm' = tm_s tm → heap_rel (m !! x) (<[id := tm']> m !! x).
Proof.
  intros Hm ? ? ?. destruct (decide (x = id)) as [->|Hne]; [rewrite Hm, lookup_insert; done|].
  rewrite lookup_insert_ne by done. apply heap_rel_refl.
Qed.
Lemma tm_add_heap n k sid d s x : v_theap s !! v_tnext s = None → heap_rel (v_theap s !! x) (v_theap (tm_add n k sid d s) !! x).
Proof.
  intros Hf. unfold tm_add. case_match; [apply heap_rel_refl|]. simpl.
  destruct (decide (x = v_tnext s)) as [->|Hne]; [rewrite Hf, lookup_insert; simpl; eauto|].
  rewrite lookup_insert_ne by done. apply heap_rel_refl.
Qed.
Lemma tm_remove_heap tk s x : heap_rel (v_theap s !! x) (v_theap (tm_remove tk s).1 !! x).
Proof.
  unfold tm_remove. repeat case_match; simpl; try apply heap_rel_refl. by eapply heap_rel_upd.
Qed.
Lemma tm_reset_heap tk d s x : heap_rel (v_theap s !! x) (v_theap (tm_reset tk d s).1 !! x).
Proof.
  unfold tm_reset. repeat case_match; simpl; try apply heap_rel_refl. by eapply heap_rel_upd.
Qed.
Lemma spawn_all_v_theap (l : list str) s : v_theap (fold_left (λ s sid, vemit (SvConnEnd sid) (spawn (SConnEnd sid) VDsFlag s)) l s) = v_theap s.
Proof. apply (fold_left_inv (λ s', v_theap s' = v_theap s)); [done|]. intros s' sid H' _. by rewrite vemit_v_theap, spawn_v_theap. Qed.
Definition heap_same (o o' : option stimer) : Prop :=
  match o, o' with
  | Some tm, Some tm' => tm_n tm' = tm_n tm ∧ tm_k tm' = tm_k tm ∧ tm_s tm' = tm_s tm
  | None, None => True
  | _, _ => False
  end.
Lemma heap_same_rel o o' : heap_same o o' → heap_rel o o'.
Proof. by destruct o, o'. Qed.
Lemma fire_due_heap s x : heap_rel (v_theap s !! x) (v_theap (fire_due s) !! x).
Proof.
  apply heap_same_rel. unfold fire_due.
  apply (fold_left_inv (λ s', heap_same (v_theap s !! x) (v_theap s' !! x))); [by destruct (v_theap s !! x)|].
  intros s' [id tm] IH Hin. apply elem_of_map_to_list in Hin.
  repeat case_match; try done. rewrite vemit_v_theap, spawn_v_theap. simpl.
  destruct (decide (x = id)) as [->|Hne]; [|by rewrite lookup_insert_ne].
  rewrite lookup_insert. rewrite Hin in *. done.
Qed.

Lemma vstep_heap cfg s it x : SvInv cfg s → heap_rel (v_theap s !! x) (v_theap (vstep cfg s it) !! x).
Proof.
  intros HI. unfold vstep. rewrite (vi_not_crashed _ _ HI).
  assert (Hf : v_theap s !! v_tnext s = None).
  { destruct (v_theap s !! v_tnext s) eqn:E; [|done]. apply (vi_tm_heap _ _ HI) in E as [? _]. lia. }
  destruct it as [tid op|tid|tid cause|sid|sid|dt|]; try (repeat case_match; simpl; apply heap_rel_refl).
  - destruct (v_thr s !! tid) as [t|] eqn:Ht; [|apply heap_rel_refl]. destruct t as [op pc cn]. unfold vrun_thread. cbn [st_pc st_op st_cancel].
    destruct pc, op; try apply heap_rel_refl.
    all: repeat case_match; subst; pair_norm; unfold vfinish; autorewrite with svframe; simpl; try apply heap_rel_refl.
    all: try apply tm_remove_heap; try apply tm_reset_heap; try (by apply tm_add_heap).
    + rewrite spawn_all_v_theap. apply heap_rel_refl.
    + rewrite lookup_fmap. destruct (v_theap s !! x) as [tm|]; simpl; [|done]. by repeat case_match.
  - match goal with |- context [fire_due ?X] => apply (fire_due_heap X x) end.
Qed.
