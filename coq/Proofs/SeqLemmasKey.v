(** The lease-timer key [tkey name key] = itoa (length name) ++ ":" ++ name ++ key is injective. *)
From Coq Require Import Decimal DecimalNat Lia.
From Ldlm Require Import Model.Base Model.Err Model.Seq.

Lemma uint_bytes_no_colon d : x3a ∉ uint_bytes d.
Proof.
  induction d; simpl; rewrite ?elem_of_cons; try (intros [?|?]; [discriminate|tauto]).
  apply not_elem_of_nil.
Qed.

Lemma uint_bytes_inj d1 d2 : uint_bytes d1 = uint_bytes d2 → d1 = d2.
Proof.
  revert d2; induction d1; intros d2 H; destruct d2; simpl in H;
    try discriminate; try reflexivity; injection H as H; f_equal; auto.
Qed.

Lemma split_at_sep {A} (x : A) l1 r1 l2 r2 :
  x ∉ l1 → x ∉ l2 → l1 ++ x :: r1 = l2 ++ x :: r2 → l1 = l2 ∧ r1 = r2.
Proof.
  revert l2; induction l1 as [|a l1 IH]; intros l2 H1 H2 E; destruct l2 as [|b l2]; simpl in E.
  - injection E as E; auto.
  - injection E as -> E. exfalso; apply H2; left.
  - injection E as -> E. exfalso; apply H1; left.
  - injection E as -> E. rewrite not_elem_of_cons in H1, H2.
    destruct (IH l2) as [-> ->]; tauto.
Qed.

Lemma tkey_inj n1 k1 n2 k2 : tkey n1 k1 = tkey n2 k2 → n1 = n2 ∧ k1 = k2.
Proof.
  unfold tkey, itoa; simpl; intros E.
  apply split_at_sep in E as [E1 E2]; try apply uint_bytes_no_colon.
  apply uint_bytes_inj, Unsigned.to_uint_inj in E1.
  apply app_inj_1 in E2; auto.
Qed.
