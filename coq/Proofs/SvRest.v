(** Msv (Model/Sv.v): C06's release clause for sessions that end the REST way — the premise that excludes the recorded
    finding F-LEAK ([add_after_destroy sid (v_trace s) = false] in [SvAll.C06_release_all]) is DISCHARGED under the
    serialisation the REST gateway imposes on a session. Work package svrest.

    *** Where the discipline comes from.
    For a gRPC connection a request of the session may still be in flight when the connection ends, and its
    sessionMgr.AddLock may run after DestroySession has deleted the session (F-LEAK, witness [SvAll.C06_leak_refuted]).
    The REST gateway (net/rest/rest.go) is different: a routed request runs its lock-server call (mux.ServeHTTP) while it
    holds the session's mutex [s.mtx] (ServeHTTP: ValidateSession takes it, [defer s.mtx.Unlock()]), and both session ends —
    DELETE /session (restHandler.DestroySession) and the idle expiry (onTimeoutFunc) — take [s.mtx] BEFORE they call
    [grpcSrv.HandleConn(s.ctx, ConnEnd)], after having removed the session from the table under sessionsMtx. In the fine-grained
    REST model (Model/Rest.v, part (b): threads [pc], program points Q4 = "the lock-server call", D6 / C5 = "HandleConn(ConnEnd)")
    this is proved for every schedule:

      [C20_mutex]             (Properties/C20.v, [RestDefs.T_C20_mutex], proved in Proofs/RestFine.v): a thread is at a point of
                              [holds_m] = {Q3, Q4, Q5, D6, D7, C4, C5, C6} iff it owns the session's mutex — so while a request of the
                              session is inside its lock-server call (Q4), no thread is at D6 / C5: the ConnEnd of that session is
                              delivered only when NO request of that session is in flight;
      [C20_serve_before_end]  ([RestDefs.T_C20_serve_before_end]): [fs_late] stays false — no request of a session is served (Q4) after
                              that session's ConnEnd.

    *** How the two models are linked.
    The REST fine model does not contain the lock server (Q4 and D6/C5 are single steps there), and Msv does not contain the
    gateway. The link is the following STATED correspondence, not a refinement proof:
      - the step Q4 of a request thread on cookie c  =  the whole life of one client call of Msv in session sid(c): the item
        [VCall tid op] up to the state in which thread [tid] is finished ([is_fin (st_pc t) = true]; the handler returns, then Q5);
      - the steps D6 / C5 on cookie c  =  the item [VConnEnd sid(c)] of Msv (HandleConn(ConnEnd) → LockServer.DestroySession; the
        goroutine [SConnEnd sid] that the item starts stands for the synchronous call).
    Under it [C20_mutex] is exactly [rest_item_ok] below (at the item [VConnEnd sid] every call-thread of [sid] is finished), and
    [C20_serve_before_end] is what [sitem_ok] ALREADY requires of every schedule (a call [STry sid ..]/[SLock sid ..] needs
    [¬ ev_in (SvConnEnd sid) s]: lemma [call_after_end_excluded]) — so nothing has to be added to the discipline for it.
    On the real code the correspondence is exercised by lib/restsess.py (tie [T2-rest-session-end]: DELETE /session and the idle
    expiry against an in-flight TryLock on the real REST handler in front of the real LockServer).

    *** What is proved here (all closed, no premise [T_svinv_reach]):
      [vreach_rest cfg sids s]       s is reachable by a meaningful schedule ([sitem_ok]) that, for every session of [sids] (the
                                     REST sessions; other sessions are unconstrained gRPC connections), obeys [rest_item_ok]
      [vreach_rest_vreach]           vreach_rest cfg sids s → vreach cfg s
      [vreach_rest_nil], [vreach_rest_mono]
      [rest_inv_reach]               the invariant [RestInv sid] of every such state, sid ∈ sids
      [rest_quiet_after_destroy]     once DestroySession has deleted the session, no call of it is unfinished, ever
      [rest_no_add_after_destroy]    vreach_rest cfg sids s → sid ∈ sids → add_after_destroy sid (v_trace s) = false
      [C06_rest_release_all]         [T_C06_release_all] without the F-LEAK premise
      [rest_sched_okb_sound]         boolean checker of the discipline along a schedule (decidable from schedule + states)
      [C06_rest_premises]            Example: a disciplined run in which an answered hold's session has ended and the hold is released
      [C06_rest_excludes_leak]       Example: F-LEAK's schedule breaks the discipline at its [VConnEnd] item, and its final state
                                     is reachable by NO disciplined schedule

    A session end delivered by the closer's network stop (pc VShNet: a ConnEnd for every open connection) needs no discipline:
    the shutdown flag is set before it, so that DestroySession returns at its flag check and deletes nothing ([ri_ds], first case). *)
From Coq Require Import Lia ZifyBool ZifyNat.
From Ldlm Require Import Model.Base Model.Err Model.Sv Proofs.SvDefs.
From Ldlm Require Import Proofs.SvFileBase Proofs.SvFileStep Proofs.SvFile Proofs.SvTraceP.
From Ldlm Require Proofs.SvAll Proofs.SvSessWit.
Local Open Scope Z_scope.

(** ** the discipline *)
(** no request of session [sid] is in flight: every call made in that session has answered *)
Definition sess_quiet (sid : str) (s : svstate) : Prop :=
  ∀ tid t, v_thr s !! tid = Some t → op_sid (st_op t) = Some sid → is_fin (st_pc t) = true.
Definition sess_quietb (sid : str) (s : svstate) : bool :=
  forallb (λ '(_, t), negb (bool_decide (op_sid (st_op t) = Some sid)) || is_fin (st_pc t)) (map_to_list (v_thr s)).
Lemma sess_quietb_spec sid s : sess_quietb sid s = true ↔ sess_quiet sid s.
Proof.
  unfold sess_quietb, sess_quiet. rewrite forallb_forall. split.
  - intros H tid t Ht Hop. specialize (H (tid, t)). simpl in H. rewrite bool_decide_true in H by done. simpl in H.
    apply H. apply elem_of_list_In, elem_of_map_to_list, Ht.
  - intros H [tid t] Hin. apply elem_of_list_In, elem_of_map_to_list in Hin. case_bool_decide; simpl; [eauto|done].
Qed.
Print Assumptions sess_quietb_spec.

(** the item that starts the end of session [sid] (it spawns the [SConnEnd sid] goroutine) is scheduled only when the session
    is quiet: the gateway's per-session mutex (C20_mutex) *)
Definition rest_item_ok (sid : str) (s : svstate) (it : sitem) : Prop :=
  match it with VConnEnd sid' => sid' = sid → sess_quiet sid s | _ => True end.
Definition rest_item_okb (sid : str) (s : svstate) (it : sitem) : bool :=
  match it with VConnEnd sid' => negb (bool_decide (sid' = sid)) || sess_quietb sid s | _ => true end.
Lemma rest_item_okb_spec sid s it : rest_item_okb sid s it = true ↔ rest_item_ok sid s it.
Proof.
  destruct it; simpl; try done. rewrite orb_true_iff, sess_quietb_spec. case_bool_decide; simpl; intuition congruence.
Qed.
Print Assumptions rest_item_okb_spec.

(** no request of a session after its end: ALREADY part of [sitem_ok] (C20_serve_before_end needs no extra clause) *)
Lemma call_after_end_excluded s tid op sid :
  sitem_ok s (VCall tid op) → ev_in (SvConnEnd sid) s → op_sid op ≠ Some sid.
Proof. destruct op; simpl; try done; intros (_ & _ & Hn & _) Hin [= ->]; by apply Hn. Qed.
Print Assumptions call_after_end_excluded.

Inductive vreach_rest (cfg : svcfg) (sids : list str) : svstate → Prop :=
| vrr_init : vreach_rest cfg sids sv_init
| vrr_step s it : vreach_rest cfg sids s → sitem_ok s it → (∀ sid, sid ∈ sids → rest_item_ok sid s it) →
    vreach_rest cfg sids (vstep cfg s it).

Theorem vreach_rest_vreach cfg sids s : vreach_rest cfg sids s → vreach cfg s.
Proof. induction 1; [apply vreach_init|by apply vreach_step]. Qed.
Print Assumptions vreach_rest_vreach.

(** no REST session: the discipline is empty; fewer REST sessions: fewer constraints *)
Theorem vreach_rest_nil cfg s : vreach cfg s ↔ vreach_rest cfg [] s.
Proof.
  split; [|apply vreach_rest_vreach].
  induction 1; [apply vrr_init|apply vrr_step; [done|done|]]. by intros sid ?%elem_of_nil.
Qed.
Print Assumptions vreach_rest_nil.
Theorem vreach_rest_mono cfg sids sids' s : (∀ sid, sid ∈ sids' → sid ∈ sids) → vreach_rest cfg sids s → vreach_rest cfg sids' s.
Proof. intros Hsub. induction 1; [apply vrr_init|apply vrr_step; auto]. Qed.
Print Assumptions vreach_rest_mono.

(** ** the invariant *)
Record RestInv (sid : str) (s : svstate) : Prop := {
  (* a DestroySession of the session: started by the network stop (flag set: it will return at once), or returned, or
     running while the session is quiet *)
  ri_ds : ∀ tid t, v_thr s !! tid = Some t → st_op t = SConnEnd sid →
    (st_pc t = VDsFlag ∧ v_shut s = true) ∨ st_pc t = VEnd ∨ sess_quiet sid s;
  (* once the session was deleted it is quiet (and its connection has ended: no new call) *)
  ri_destroyed : ∀ tid, SvSessDestroy tid sid ∈ v_trace s → sess_quiet sid s ∧ SvConnEnd sid ∈ v_trace s;
  ri_aad : add_after_destroy sid (v_trace s) = false
}.

Lemma rest_inv_init sid : RestInv sid sv_init.
Proof.
  split; simpl.
  - intros tid t Ht. by rewrite lookup_empty in Ht.
  - by intros tid ?%elem_of_nil.
  - done.
Qed.
Print Assumptions rest_inv_init.

(** a quiet session stays quiet as long as no call of it is issued *)
Lemma quiet_step cfg sid s it : SvInv cfg s → (∀ tid op, it = VCall tid op → op_sid op ≠ Some sid) →
  sess_quiet sid s → sess_quiet sid (vstep cfg s it).
Proof.
  intros I Hnc Hq tid' t' Ht' Hop.
  destruct (thr_step _ _ _ _ _ I Ht') as [(t & Ht & Hsame & Hfin & _)|(Hnone & Heq & Hnew)].
  - rewrite Hsame in Hop. rewrite (Hfin (Hq _ _ Ht Hop)). by apply (Hq _ _ Ht).
  - destruct Hnew as [->|[(sid' & -> & Hop')|[(-> & Hop')|[(dt & id & -> & Hop')|(tid & t & sid' & -> & _ & _ & _ & Hop')]]]];
      try (rewrite Hop' in Hop; done).
    exfalso. by eapply Hnc.
Qed.
Print Assumptions quiet_step.

Lemma rest_inv_step cfg sid s it : vreach cfg s → sitem_ok s it → rest_item_ok sid s it →
  RestInv sid s → RestInv sid (vstep cfg s it).
Proof.
  intros Hreach Hok Hr [Hds Hde Haad].
  pose proof (SvAll.svinv_reach cfg s Hreach) as I.
  assert (Hq : SvConnEnd sid ∈ v_trace s → sess_quiet sid s → sess_quiet sid (vstep cfg s it)).
  { intros He. apply quiet_step; [done|]. intros tid op ->. by apply (call_after_end_excluded s tid op sid). }
  pose proof (step_evnew cfg s it I) as Hev.
  split.
  - intros tid' t' Ht' Hop'.
    destruct (thr_step _ _ _ _ _ I Ht') as [(t & Ht & Hsame & Hfin & _ & Hpc)|(Hnone & Heq & Hnew)].
    + rewrite Hsame in Hop'.
      assert (He : SvConnEnd sid ∈ v_trace s) by (eapply (vi_ds_ended _ _ I); eauto).
      destruct (Hds _ _ Ht Hop') as [[Hp Hs]|[Hp|Hqs]].
      * destruct Hpc as [Hpc|[->|[Hw _]]]; [left; split; [congruence|by apply (shut_step cfg)]| |congruence].
        destruct (SvAll.C11_keeps_holds cfg s tid' t sid Hreach Ht Hop' Hs Hp) as (_ & _ & _ & _ & _ & t'' & Ht'' & Hend).
        right; left. congruence.
      * right; left. rewrite Hfin by (by rewrite Hp). done.
      * right; right. by apply Hq.
    + rewrite Heq in Hop'. simpl in Hop'.
      destruct Hnew as [->|[(sid' & -> & Hop'')|[(-> & Hop'')|[(dt & id & -> & Hop'')|(tid & t & sid' & -> & Ht & Hsh & Hpn & Hop'')]]]];
        try congruence.
      * (* a VCall of a non-client operation starts nothing *)
        exfalso. unfold vstep in Ht'. rewrite (vi_not_crashed _ _ I), Hop' in Ht'. simpl in Ht'. congruence.
      * (* the session end itself: the discipline *)
        assert (sid' = sid) as -> by congruence.
        right; right. apply quiet_step; [done|done|by apply Hr].
      * (* delivered by the network stop: the flag is set *)
        left. split; [rewrite Heq, Hop'; done|]. apply (shut_step cfg); [done|].
        apply (vi_sh_flag _ _ I tid t Ht Hsh). congruence.
  - intros x Hin. destruct (trx_new _ _ _ _ Hev Hin) as [Hold|Hnew].
    + destruct (Hde _ Hold) as [Hqs He]. split; [by apply Hq|by eapply trx_mono].
    + simpl in Hnew. destruct Hnew as (t & l & -> & Ht & Hop & Hpc & Hl).
      assert (He : SvConnEnd sid ∈ v_trace s) by (eapply (vi_ds_ended _ _ I); eauto).
      destruct (Hds _ _ Ht Hop) as [[Hp _]|[Hp|Hqs]]; [destruct Hpc; congruence..|].
      split; [by apply Hq|by eapply trx_mono].
  - destruct Hev as (l & E & F). rewrite E.
    destruct (add_after_destroy sid (l ++ v_trace s)) eqn:A; [|done]. exfalso.
    apply aad_app in A as [A|(tid & c & tid' & Hadd & Hdes)]; [congruence|].
    rewrite Forall_forall in F. pose proof (F _ Hadd) as Ha. simpl in Ha. destruct Ha as (t & -> & Ht & Hpc & Hop).
    apply elem_of_app in Hdes as [Hdes|Hdes].
    + (* one step does not both write an entry and delete the session *)
      pose proof (F _ Hdes) as Hd. simpl in Hd. destruct Hd as (t2 & l2 & [= <-] & Ht2 & Hop2 & Hpc2 & _).
      simplify_eq. destruct Hpc2; congruence.
    + (* the session was deleted before: it is quiet, nobody is at AddLock *)
      destruct (Hde _ Hdes) as [Hqs _]. pose proof (Hqs _ _ Ht Hop) as Hf. rewrite Hpc in Hf. done.
Qed.
Print Assumptions rest_inv_step.

Theorem rest_inv_reach cfg sids s sid : vreach_rest cfg sids s → sid ∈ sids → RestInv sid s.
Proof.
  intros H Hin. induction H as [|s it Hr IH Hok Hrest]; [apply rest_inv_init|].
  apply rest_inv_step; [by eapply vreach_rest_vreach|done|by apply Hrest|done].
Qed.
Print Assumptions rest_inv_reach.

(** ** the theorems *)
(** once DestroySession has deleted a REST session, no request of that session is in flight — now or later *)
Theorem rest_quiet_after_destroy : ∀ cfg sids s sid tid,
  vreach_rest cfg sids s → sid ∈ sids → ev_in (SvSessDestroy tid sid) s → sess_quiet sid s.
Proof. intros cfg sids s sid tid H Hin He. by apply (ri_destroyed _ _ (rest_inv_reach _ _ _ _ H Hin) tid). Qed.
Print Assumptions rest_quiet_after_destroy.

(** F-LEAK cannot happen to a REST session: no session entry is written after the session was destroyed *)
Theorem rest_no_add_after_destroy : ∀ cfg sids s sid,
  vreach_rest cfg sids s → sid ∈ sids → add_after_destroy sid (v_trace s) = false.
Proof. intros cfg sids s sid H Hin. apply (ri_aad _ _ (rest_inv_reach _ _ _ _ H Hin)). Qed.
Print Assumptions rest_no_add_after_destroy.

(** C06's release clause for a REST session, without the F-LEAK premise: once DestroySession of the session has run to its end
    (and did clear), every hold acquired in that session whose grant was answered is released, or is being released by its own
    expiry callback. *)
Theorem C06_rest_release_all : ∀ cfg sids s tid t sid,
  vreach_rest cfg sids s → sid ∈ sids →
  sc_noclear cfg = false → v_thr s !! tid = Some t → st_op t = SConnEnd sid → st_pc t = VEnd →
  (∃ tid', ev_in (SvSessDestroy tid' sid) s) → v_mgrshut s = false →
  ∀ tid' t' n k z, v_thr s !! tid' = Some t' → acquirer t' sid n k z → st_pc t' = VFin (SResp true None) →
  ¬ slive s n k ∨ expiry_pending s n k.
Proof.
  intros cfg sids s tid t sid H Hin Hnc Ht Hop Hpc Hdes Hms.
  apply (SvAll.C06_release_all cfg s tid t sid); try done.
  - by eapply vreach_rest_vreach.
  - by eapply rest_no_add_after_destroy.
Qed.
Print Assumptions C06_rest_release_all.

(** ** the discipline along a schedule, as a boolean *)
Fixpoint rest_sched_okb (cfg : svcfg) (sids : list str) (s : svstate) (sch : list sitem) : bool :=
  match sch with
  | [] => true
  | it :: r => SvSessWit.sitem_okb s it && forallb (λ sid, rest_item_okb sid s it) sids && rest_sched_okb cfg sids (vstep cfg s it) r
  end.
Lemma rest_sched_okb_sound cfg sids sch s : vreach_rest cfg sids s → rest_sched_okb cfg sids s sch = true →
  vreach_rest cfg sids (fold_left (vstep cfg) sch s).
Proof.
  revert s. induction sch as [|it r IH]; simpl; intros s Hr H; [done|].
  apply andb_prop in H as [H H3]. apply andb_prop in H as [H1 H2]. apply IH; [|done].
  apply vrr_step; [done|by apply SvSessWit.sitem_okb_sound|].
  intros sid Hin. apply rest_item_okb_spec. rewrite forallb_forall in H2. apply H2. by apply elem_of_list_In.
Qed.
Print Assumptions rest_sched_okb_sound.
Lemma vrun_reach_rest cfg sids sch : rest_sched_okb cfg sids sv_init sch = true → vreach_rest cfg sids (vrun cfg sch).
Proof. apply rest_sched_okb_sound, vrr_init. Qed.
Print Assumptions vrun_reach_rest.

(** ** non-vacuity *)
Import SvSessWit.
(** a REST session with one answered hold is deleted while quiet; DestroySession: flag, delete, timer removal (none), unlock *)
Definition rest_sched : list sitem :=
  [VConnect w_sid; VCall 1 (STry w_sid w_n w_k 1 None); VRun 1; VRun 1;    (* granted; AddLock; locked=true answered *)
   VConnEnd w_sid;                                                          (* DELETE /session: the session is quiet *)
   VRun 1000; VRun 1000; VRun 1000; VRun 1000].                             (* DestroySession runs to its end *)

Example C06_rest_premises :
  let cfg := SvCfg false true in let s := vrun cfg rest_sched in
  vreach_rest cfg [w_sid] s ∧
  v_thr s !! 1000%nat = Some (SThread (SConnEnd w_sid) VEnd None) ∧ ev_in (SvSessDestroy 1000 w_sid) s ∧ v_mgrshut s = false ∧
  v_thr s !! 1%nat = Some (SThread (STry w_sid w_n w_k 1 None) (VFin (SResp true None)) None) ∧
  ¬ slive s w_n w_k ∧ v_sess s !! w_sid = None ∧ sv_file s = Some [].
Proof.
  cbv zeta. split_and!.
  - apply vrun_reach_rest. vm_compute. reflexivity.
  - vm_compute. reflexivity.
  - apply evb_true. vm_compute. reflexivity.
  - vm_compute. reflexivity.
  - vm_compute. reflexivity.
  - intros (a & Ha & Hk).
    assert (E : v_locks (vrun (SvCfg false true) rest_sched) !! w_n = Some (ALock 1 [] [])) by (vm_compute; reflexivity).
    rewrite E in Ha. clear E. injection Ha as <-. by apply elem_of_nil in Hk.
  - vm_compute. reflexivity.
  - vm_compute. reflexivity.
Qed.
Print Assumptions C06_rest_premises.

(** the contrast: the schedule of F-LEAK ([SvSessWit.leak_sched], the witness of [SvAll.C06_leak_refuted]) is meaningful but NOT
    disciplined — its [VConnEnd] item comes while the session's TryLock is between its grant and its AddLock — and the state it
    ends in (hold live, session gone, nothing pending) cannot be reached by any disciplined schedule at all *)
Example C06_rest_excludes_leak :
  let cfg := SvCfg false true in
  sched_okb cfg sv_init leak_sched = true ∧
  rest_sched_okb cfg [w_sid] sv_init leak_sched = false ∧
  (let s3 := vrun cfg (take 3 leak_sched) in
   leak_sched !! 3%nat = Some (VConnEnd w_sid) ∧ vreach_rest cfg [w_sid] s3 ∧ sitem_ok s3 (VConnEnd w_sid) ∧
   ¬ rest_item_ok w_sid s3 (VConnEnd w_sid)) ∧
  ¬ vreach_rest cfg [w_sid] (vrun cfg leak_sched).
Proof.
  cbv zeta. split_and!.
  - vm_compute. reflexivity.
  - vm_compute. reflexivity.
  - reflexivity.
  - apply vrun_reach_rest. vm_compute. reflexivity.
  - apply sitem_okb_sound. vm_compute. reflexivity.
  - intros H. apply rest_item_okb_spec in H.
    assert (E : rest_item_okb w_sid (vrun (SvCfg false true) (take 3 leak_sched)) (VConnEnd w_sid) = false) by (vm_compute; reflexivity).
    congruence.
  - intros H. apply rest_no_add_after_destroy with (sid := w_sid) in H; [|apply elem_of_list_here].
    assert (E : add_after_destroy w_sid (v_trace (vrun (SvCfg false true) leak_sched)) = true) by (vm_compute; reflexivity).
    congruence.
Qed.
Print Assumptions C06_rest_excludes_leak.
