(** Work package svfile: C09 (a kill at any instant: what the state file left behind says) and C11 (graceful shutdown:
    holds and waiters) over Msv (Model/Sv.v), from the invariant of every reachable state ([T_svinv_reach], proved in
    Proofs/SvInv.v by work package svinv; used here only as a premise and through its field names). *)
From Coq Require Import Lia ZifyBool ZifyNat.
From Ldlm Require Import Model.Base Model.Err Model.Sv Proofs.SvDefs Proofs.SvFileFrames Proofs.SvFileBase Proofs.SvFileStep Proofs.SvFileStep2 Proofs.SvFileRun.
From RecordUpdate Require Import RecordSet.
Import RecordSetNotations.
Local Open Scope Z_scope.

#[local] Arguments vemit : simpl never.
#[local] Arguments vset_pc : simpl never.
#[local] Arguments vfinish : simpl never.
#[local] Arguments spawn : simpl never.
#[local] Arguments vsave : simpl never.
#[local] Arguments hand_over : simpl never.
#[local] Arguments mgr_unlock : simpl never.
#[local] Arguments tm_add : simpl never.
#[local] Arguments tm_remove : simpl never.
#[local] Arguments tm_reset : simpl never.
#[local] Arguments sess_add : simpl never.
#[local] Arguments sess_remove : simpl never.
#[local] Arguments sess_destroy : simpl never.
#[local] Arguments fire_due : simpl never.

(** ** induction over reachable states with the invariant at hand *)
Lemma vreach_ind_inv cfg (P : svstate → Prop) : T_svinv_reach →
  P sv_init → (∀ s it, vreach cfg s → SvInv cfg s → P s → sitem_ok s it → P (vstep cfg s it)) → ∀ s, vreach cfg s → P s.
Proof. intros HI H0 Hs s Hr. induction Hr as [|s it Hr IH Hok]; [done|]. apply Hs; auto. Qed.

Lemma vstep_run cfg s tid t : v_crashed s = false → v_thr s !! tid = Some t → vstep cfg s (VRun tid) = vrun_thread cfg tid t s.
Proof. intros Hc Ht. unfold vstep. by rewrite Hc, Ht. Qed.

(** ** C11 *)

(** a session end delivered after the shutdown flag is set touches nothing (no invariant needed) *)
Theorem C11_flag_first : T_C11_flag_first.
Proof.
  intros cfg s tid t sid _ Hs Ht Ho Hp. simpl. unfold vstep. destruct (v_crashed s); [done|]. rewrite Ht. unfold vrun_thread. rewrite Hp, Ho, Hs.
  by autorewrite with svf.
Qed.
Theorem C11_flag_first_from_inv : T_svinv_reach → T_C11_flag_first.
Proof. intros _. exact C11_flag_first. Qed.

(** the flag is set before anything else happens, and stays set *)
Lemma run_shflag cfg tid cn s : vrun_thread cfg tid (SThread SShutdown VShFlag cn) s = vset_pc tid VShNet (s <| v_shut := true |>).
Proof. done. Qed.
Lemma run_shnet cfg tid cn s : vrun_thread cfg tid (SThread SShutdown VShNet cn) s = vset_pc tid VShTimers (net_stop s).
Proof. done. Qed.

Theorem C11_net_after_flag_from_inv : T_svinv_reach → T_C11_net_after_flag.
Proof.
  intros HI cfg s tid t Hr. revert tid t. pattern s. revert s Hr. apply (vreach_ind_inv cfg); [exact HI|done|].
  intros s it Hr I IH Hok tid' t' Ht' Hop Hpc.
  destruct (thr_step _ _ _ _ _ I Ht') as [(t & Ht & Hop' & Hfin & Hcn & Hpc')|(_ & E & _)].
  - rewrite Hop in Hop'. destruct (decide (st_pc t = VShFlag)) as [Hf|Hnf].
    + destruct Hpc' as [E|[->|[E _]]]; [congruence| |congruence].
      destruct t as [op pc cn]. simpl in *. subst. rewrite (vstep_run _ _ _ _ (vi_not_crashed _ _ I) Ht), run_shflag. by autorewrite with svf.
    + apply (shut_step _ _ _ I). eapply IH; eauto.
  - rewrite E, Hop in Hpc. done.
Qed.

(** *** parked calls *)
(** a call at [VWait]/[VWoken] is a Lock call whose lock object exists *)
Definition parked_ok (s : svstate) : Prop := ∀ tid t, v_thr s !! tid = Some t → st_pc t = VWait ∨ st_pc t = VWoken →
  ∃ sid n k z lt, st_op t = SLock sid n k z lt ∧ is_Some (v_locks s !! n).

Lemma run_mgrlock cfg tid s sid n k z lt cn : let t := SThread (SLock sid n k z lt) VMgrLock cn in
  v_thr s !! tid = Some t →
  (∃ r, v_thr (vrun_thread cfg tid t s) !! tid = Some (setpc (VFin r) t)) ∨ is_Some (v_locks (vrun_thread cfg tid t s) !! n).
Proof.
  intros t Ht. unfold vrun_thread, t. simpl. repeat case_match; unfold vfinish.
  all: try (left; eexists; rewrite fr_vemit_thr, thr_vset_pc, lookup_alter; autorewrite with svf; simpl; by rewrite Ht).
  all: right; autorewrite with svf; simpl; by rewrite lookup_insert.
Qed.

Lemma pc_step_parked op pc pc' : pc_step op pc pc' → pc' = VWait ∨ pc' = VWoken →
  pc = VMgrLock ∧ pc' = VWait ∧ ∃ sid n k z lt, op = SLock sid n k z lt.
Proof. destruct pc, op; simpl; try done; naive_solver. Qed.

Lemma parked_ok_reach : T_svinv_reach → ∀ cfg s, vreach cfg s → parked_ok s.
Proof.
  intros HI cfg s Hr. pattern s. revert s Hr. apply (vreach_ind_inv cfg); [exact HI|done|].
  intros s it Hr I IH Hok tid' t' Ht' Hpc.
  destruct (thr_step _ _ _ _ _ I Ht') as [(t & Ht & Hop' & Hfin & Hcn & Hpc')|(_ & E & _)].
  - assert (Hold : st_pc t = VWait ∨ st_pc t = VWoken → ∃ sid n k z lt, st_op t' = SLock sid n k z lt ∧ is_Some (v_locks (vstep cfg s it) !! n)).
    { intros Hp. destruct (IH _ _ Ht Hp) as (sid & n & k & z & lt & E1 & E2). rewrite Hop'. do 5 eexists. split; [done|]. by apply (lk_step _ _ _ I). }
    destruct Hpc' as [E|[->|[E1 E2]]]; [apply Hold; by rewrite <-E| |apply Hold; by left].
    destruct (run_self _ _ _ _ I Ht) as [E|(pc' & E & Hst)]; rewrite E in Ht'; simplify_eq/=; [by apply Hold|].
    destruct (pc_step_parked _ _ _ Hst Hpc) as (Hp & -> & sid & n & k & z & lt & Hop). destruct t as [op pc cn]. simpl in *. subst.
    rewrite (vstep_run _ _ _ _ (vi_not_crashed _ _ I) Ht) in *. destruct (run_mgrlock cfg tid' s sid n k z lt cn Ht) as [(r & E')|?]; [|eauto 10].
    rewrite E in E'. done.
  - rewrite E in Hpc. simpl in Hpc. destruct (st_op t'); simpl in Hpc; by destruct Hpc.
Qed.

(** *** the network stop reaches every unfinished client call

    [sitem_ok] admits a client call ([VCall]) only while the network is up ([net_open]: the closer has not yet run its
    network stop; the real server has closed its listeners and connections by then), so after the network stop every
    unfinished client call has a cancelled context. *)
Lemma call_net_open s tid op : client_op op = true → sitem_ok s (VCall tid op) → net_open s.
Proof. destruct op; simpl; try done; tauto. Qed.

Definition net_stopped (s : svstate) : Prop :=
  ∃ tid t, v_thr s !! tid = Some t ∧ st_op t = SShutdown ∧ (st_pc t = VShTimers ∨ st_pc t = VShMgr ∨ st_pc t = VEnd).
Definition all_cancelled (s : svstate) : Prop :=
  ∀ tid t, v_thr s !! tid = Some t → client_op (st_op t) = true → is_fin (st_pc t) = true ∨ st_cancel t ≠ None.

Lemma pc_step_shutdown pc pc' : pc_step SShutdown pc pc' → pc' = VShTimers ∨ pc' = VShMgr ∨ pc' = VEnd → pc = VShNet ∨ pc = VShTimers ∨ pc = VShMgr.
Proof. destruct pc; simpl; try done; naive_solver. Qed.
Lemma net_cancel_cancelled t : client_op (st_op t) = true → is_fin (st_pc (net_cancel t)) = true ∨ st_cancel (net_cancel t) ≠ None.
Proof. destruct t as [op pc cn]. unfold net_cancel. simpl. destruct op, cn, (is_fin pc) eqn:E; simpl; auto; done. Qed.

Lemma net_stop_cancels : T_svinv_reach → ∀ cfg s, vreach cfg s → net_stopped s → all_cancelled s.
Proof.
  intros HI cfg s Hr. induction Hr as [|s it Hr IH Hok]; [by intros (? & ? & ? & _)|].
  pose proof (HI _ _ Hr) as I.
  intros (tc & c' & Hc' & Hcop & Hcpc).
  (* the closer before the step *)
  destruct (thr_step _ _ _ _ _ I Hc') as [(c & Hc & Hop' & Hfin & Hcn & Hpc')|(_ & E & _)]; [|rewrite E, Hcop in Hcpc; simpl in Hcpc; naive_solver].
  rewrite Hcop in Hop'.
  assert (Hcase : net_stopped s ∨ (it = VRun tc ∧ st_pc c = VShNet)).
  { destruct Hpc' as [E|[->|[E1 E2]]].
    - left. exists tc, c. rewrite <-E. done.
    - destruct (run_self _ _ _ _ I Hc) as [E|(pc' & E & Hst)]; rewrite E in Hc'; simplify_eq/=.
      + left. by exists tc, c'.
      + rewrite <-Hop' in Hst. destruct (pc_step_shutdown _ _ Hst Hcpc) as [?|?]; [right; by split|]. left. exists tc, c. split_and!; [done|done|naive_solver].
    - rewrite E2 in Hcpc. naive_solver. }
  destruct Hcase as [Hst|[-> Hnetpc]].
  - specialize (IH Hst). intros tid' t' Ht' Hcl.
    destruct (thr_step _ _ _ _ _ I Ht') as [(t & Ht & Hopt & Hfint & Hcnt & _)|(_ & E & Hnew)].
    + rewrite Hopt in Hcl. destruct (IH _ _ Ht Hcl) as [Hf|Hc0].
      * left. by rewrite (Hfint Hf).
      * right. destruct (st_cancel t) as [e|] eqn:Ee; [|done]. by rewrite (Hcnt e eq_refl).
    + exfalso. destruct Hnew as [->|[(sid & -> & Eo)|[[-> Eo]|[(dt & id & -> & Eo)|(? & ? & sid & ? & ? & ? & ? & Eo)]]]]; try (rewrite Eo in Hcl; done).
      pose proof (call_net_open _ _ _ Hcl Hok) as Hnet.
      destruct Hst as (tc0 & c0 & Hc0 & Hc0op & Hc0pc). destruct (Hnet _ _ Hc0 Hc0op) as [E'|E']; rewrite E' in Hc0pc; naive_solver.
  - intros tid' t' Ht' Hcl. destruct c as [op pc cn]. simpl in *. subst.
    rewrite (vstep_run _ _ _ _ (vi_not_crashed _ _ I) Hc), run_shnet, thr_vset_pc in Ht'.
    destruct (decide (tid' = tc)) as [->|].
    + rewrite lookup_alter, (net_stop_thr_old _ _ _ _ I Hc) in Ht'. simplify_eq/=.
    + rewrite lookup_alter_ne in Ht' by done. destruct (net_stop_thr _ _ _ _ I Ht') as [(t & Ht & ->)|(_ & _ & sid & ->)]; [|done].
      apply net_cancel_cancelled. by destruct t as [[] ? []].
Qed.

Theorem C11_waiters_fail_from_inv : T_svinv_reach → T_C11_waiters_fail.
Proof.
  intros HI cfg s tid t Hr Ht Hpc Hst.
  pose proof Hr as Hr'. pose proof (HI _ _ Hr') as I.
  destruct (parked_ok_reach HI _ _ Hr' _ _ Ht (or_introl Hpc)) as (sid & n & k & z & lt & Hop & a & Ha).
  destruct (net_stop_cancels HI _ _ Hr Hst _ _ Ht) as [Hf|Hc]; [by rewrite Hop|by rewrite Hpc in Hf|].
  destruct (st_cancel t) as [e|] eqn:Hcn; [|done]. exists e. split; [done|].
  rewrite (vstep_run _ _ _ _ (vi_not_crashed _ _ I) Ht). destruct t as [op pc cn]. simpl in *. subst.
  unfold vrun_thread. simpl. rewrite Ha. unfold vfinish. rewrite fr_vemit_thr, thr_vset_pc, lookup_alter. simpl. rewrite Ht. simpl.
  eexists. split; [done|]. done.
Qed.

Theorem C11_no_hang_from_inv : T_svinv_reach → T_C11_no_hang.
Proof.
  intros HI cfg s tid t Hr Ht Hop Hpc Hb.
  unfold sv_blocked in Hb. rewrite Ht, Hpc in Hb. apply existsb_exists in Hb as ([tid' t'] & Hin & Hp).
  apply elem_of_list_In, elem_of_map_to_list in Hin. exists tid', t'. split; [done|].
  apply orb_prop in Hp. split; [destruct Hp as [Hp|Hp]; apply bool_decide_eq_true in Hp; auto|].
  unfold sv_blocked. rewrite Hin. destruct Hp as [Hp|Hp]; apply bool_decide_eq_true in Hp; rewrite Hp; [|done].
  pose proof Hr as Hr'.
  destruct (parked_ok_reach HI _ _ Hr' _ _ Hin (or_introl Hp)) as (sid & n & k & z & lt & Hop' & _).
  destruct (net_stop_cancels HI _ _ Hr) with (tid := tid') (t := t') as [Hf|Hc]; [exists tid, t; auto|done|by rewrite Hop'|by rewrite Hp in Hf|].
  by apply bool_decide_eq_false.
Qed.

(** *** session ends delivered by the network stop clear nothing *)
Lemma ev_mono cfg s it e : SvInv cfg s → ev_in e s → ev_in e (vstep cfg s it).
Proof. intros I H. unfold ev_in in *. eapply tr_ext_mono; [apply (trace_step cfg s it I)|done]. Qed.

Lemma run_dsflag cfg tid sid cn s : vrun_thread cfg tid (SThread (SConnEnd sid) VDsFlag cn) s =
  if v_shut s then vset_pc tid VEnd s else vset_pc tid (if sc_noclear cfg then VDsNoClear else VDsDestroy) s.
Proof. done. Qed.

Theorem C11_keeps_holds_from_inv : T_svinv_reach → ∀ cfg s tid t sid,
  vreach cfg s → v_thr s !! tid = Some t → st_op t = SConnEnd sid → v_shut s = true → st_pc t = VDsFlag →
  let s' := vstep cfg s (VRun tid) in
  v_locks s' = v_locks s ∧ v_sess s' = v_sess s ∧ v_file s' = v_file s ∧ v_timers s' = v_timers s ∧ v_theap s' = v_theap s ∧
  ∃ t', v_thr s' !! tid = Some t' ∧ st_pc t' = VEnd.
Proof.
  intros HI cfg s tid t sid Hr Ht Hop Hs Hpc. pose proof (HI _ _ Hr) as I. simpl.
  rewrite (vstep_run _ _ _ _ (vi_not_crashed _ _ I) Ht). destruct t as [op pc cn]. simpl in *. subst. rewrite run_dsflag, Hs.
  autorewrite with svf. split_and!; try done. rewrite thr_vset_pc, lookup_alter, Ht. by eexists.
Qed.

(** every ConnEnd goroutine belongs to a connection that has ended ([SvConnEnd] in the trace: by the client's disconnect, or
    delivered by the network stop — and then the shutdown flag was already set ([C11_net_after_flag]) and stays set
    ([shut_step]): the goroutine stops at its first step ([C11_keeps_holds_from_inv])) *)
Lemma connend_inv_reach : T_svinv_reach → ∀ cfg s, vreach cfg s →
  ∀ tid t sid, v_thr s !! tid = Some t → st_op t = SConnEnd sid → ev_in (SvConnEnd sid) s.
Proof. intros HI cfg s Hr tid t sid Ht Hop. eapply (vi_ds_ended _ _ (HI _ _ Hr)); eauto. Qed.

Theorem C11_shut_monotone_from_inv : T_svinv_reach → ∀ cfg s it, vreach cfg s → v_shut s = true → v_shut (vstep cfg s it) = true.
Proof. intros HI cfg s it Hr. apply shut_step. by apply HI. Qed.

(** over runs: whatever happens after the network stop, each goroutine it started finds the flag set when it gets to run,
    so its whole run is the single no-op step of [C11_keeps_holds_from_inv] *)
Inductive vruns (cfg : svcfg) (s : svstate) : svstate → Prop :=
| vruns_refl : vruns cfg s s
| vruns_step s' it : vruns cfg s s' → sitem_ok s' it → vruns cfg s (vstep cfg s' it).
Lemma vruns_reach cfg s s' : vreach cfg s → vruns cfg s s' → vreach cfg s'.
Proof. intros Hr. induction 1; [done|by constructor]. Qed.
Theorem C11_flag_stays_from_inv : T_svinv_reach → ∀ cfg s s', vreach cfg s → v_shut s = true → vruns cfg s s' → v_shut s' = true.
Proof.
  intros HI cfg s s' Hr Hs Hruns. induction Hruns as [|s' it Hruns IH Hok]; [done|].
  apply shut_step; [|done]. apply HI. by eapply vruns_reach.
Qed.
Theorem C11_net_stop_goroutines_from_inv : T_svinv_reach → ∀ cfg s tc c,
  vreach cfg s → v_thr s !! tc = Some c → st_op c = SShutdown → st_pc c = VShNet →
  let s1 := vstep cfg s (VRun tc) in
  ∀ tid' t', v_thr s !! tid' = None → v_thr s1 !! tid' = Some t' →
    (∃ sid, t' = SThread (SConnEnd sid) VDsFlag None) ∧
    ∀ s2, vruns cfg s1 s2 → vreach cfg s2 ∧ v_shut s2 = true.
Proof.
  intros HI cfg s tc c Hr Hc Hop Hpc s1 tid' t' Hnone Ht'. pose proof (HI _ _ Hr) as I.
  assert (Hr1 : vreach cfg s1) by (by constructor).
  assert (Hs1 : v_shut s1 = true).
  { apply shut_step; [done|]. eapply (C11_net_after_flag_from_inv HI); eauto. by rewrite Hpc. }
  split.
  - destruct (thr_step _ _ _ _ _ I Ht') as [(t & Ht & _)|(_ & E & Hnew)]; [congruence|].
    destruct Hnew as [?|[(? & ? & _)|[[? _]|[(? & ? & ? & _)|(? & ? & sid & _ & _ & _ & _ & Eo)]]]]; try done.
    exists sid. rewrite E, Eo. done.
  - intros s2 Hruns. split; [by eapply vruns_reach|by eapply (C11_flag_stays_from_inv HI)].
Qed.

(** ** C09 *)

(** *** the image is the session table (list by list: empty sessions are written only with the next change) *)
Definition fsync (cfg : svcfg) (s : svstate) : Prop :=
  (sc_file cfg = true → ∀ sid, flist s sid = slist s sid) ∧ (sc_file cfg = false → v_file s = None).
Lemma fsync_reach : T_svinv_reach → ∀ cfg s, vreach cfg s → fsync cfg s.
Proof.
  intros HI cfg s Hr. pattern s. revert s Hr. apply (vreach_ind_inv cfg); [exact HI|done|].
  intros s it Hr I [IH1 IH2] Hok.
  destruct (sess_step cfg s it I) as [[Hs Hf]|[(tid & t & sid & n & k & z & lt & -> & Ht & Hpc & Hop & Hs & Hf)|
    [(tid & t & n & k & -> & Ht & Hwho & Hs & Hf)|(tid & t & sid & -> & Ht & Hop & Hpc & Hs & Hf)]]].
  - split; [intros Hc sid; rewrite Hs, <-IH1 by done; by apply flist_frame|intros Hc; rewrite Hf; auto].
  - split; intros Hc; rewrite Hc in Hf; [intros sid'; by apply flist_saved|rewrite Hf; auto].
  - split; intros Hc; rewrite Hc in Hf; [|rewrite andb_false_r in Hf; rewrite Hf; auto].
    intros sid'. destruct (listed s n k) eqn:Hl; simpl in Hf; [by apply flist_saved|].
    rewrite Hs, listed_false, <-IH1 by done. by apply flist_frame.
  - split; intros Hc; rewrite Hc in Hf; [|rewrite andb_false_r in Hf; rewrite Hf; auto].
    intros sid'. case_bool_decide as Hsome; simpl in Hf; [by apply flist_saved|].
    rewrite Hs. rewrite (flist_frame s) by done. rewrite IH1 by done. case_decide as E; [|done]. subst.
    unfold slist. destruct (v_sess s !! sid) eqn:E'; [|done]. destruct Hsome. eauto.
Qed.

(** what the image lists under a session is what the session table lists *)
Lemma file_entry cfg s m sid l c : fsync cfg s → v_file s = Some m → m !! sid = Some l → c ∈ l → c ∈ slist s sid.
Proof.
  intros [F1 F2] Hm Hl Hc. destruct (sc_file cfg) eqn:Hcfg; [|rewrite F2 in Hm; done].
  rewrite <-F1 by done. unfold flist. rewrite Hm. simpl. by rewrite Hl.
Qed.
Lemma entry_file cfg s sid c : fsync cfg s → sc_file cfg = true → c ∈ slist s sid → ∃ m l, v_file s = Some m ∧ m !! sid = Some l ∧ c ∈ l.
Proof.
  intros [F1 _] Hcfg Hc. rewrite <-F1 in Hc by done. unfold flist in Hc.
  destruct (v_file s) as [m|]; simpl in Hc; [|by apply elem_of_nil in Hc]. destruct (m !! sid) as [l|] eqn:E; simpl in Hc; [|by apply elem_of_nil in Hc].
  eauto.
Qed.

(** *** a hold whose release was acknowledged is listed nowhere *)
Definition released_inv (s : svstate) : Prop := ∀ tid t n k, v_thr s !! tid = Some t → st_op t = SUnlock n k → st_pc t = VFin (SResp true None) →
  ∀ sid c, c ∈ slist s sid → is_hold n k c = false.
Lemma run_sessremove cfg tid n k cn s :
  vrun_thread cfg tid (SThread (SUnlock n k) VSessRemove cn) s = vfinish tid (SResp true None) (sess_remove cfg tid n k s).
Proof. done. Qed.
Lemma pc_step_unlock_fin n k pc : pc_step (SUnlock n k) pc (VFin (SResp true None)) → pc = VSessRemove.
Proof. destruct pc; simpl; try done; naive_solver. Qed.
Lemma is_hold_clock n k n' k' z : is_hold n k (Clock n' k' z) = true → n' = n ∧ k' = k.
Proof. unfold is_hold. simpl. intros [H1 H2]%andb_prop. split; by apply bool_decide_eq_true in H1, H2. Qed.

(** the call that lists a key has not answered yet, so nobody can be presenting that key *)
Lemma adder_not_presented cfg s tid t tid0 ta sid n k z lt :
  SvInv cfg s → v_thr s !! tid = Some t → is_acq (st_op t) = false → op_key' (st_op t) = Some k →
  v_thr s !! tid0 = Some ta → st_pc ta = VSessAdd → (st_op ta = STry sid n k z lt ∨ st_op ta = SLock sid n k z lt) → False.
Proof.
  intros I Ht Hna Hk Hta Hpc Hop.
  assert (is_acq (st_op ta) = true ∧ op_key' (st_op ta) = Some k) as [Ha Hka] by (destruct Hop as [-> | ->]; done).
  destruct (vi_presented _ _ I _ _ _ Ht Hna Hk _ _ Hta Ha Hka) as (td & d & sid' & n' & z' & Hd & (lt' & Hdop) & Hdpc & _).
  assert (is_acq (st_op d) = true ∧ op_key' (st_op d) = Some k) as [Hda Hdk] by (destruct Hdop as [-> | ->]; done).
  pose proof (vi_keys_fresh _ _ I _ _ _ _ _ Hd Hta Hda Ha Hdk Hka). simplify_eq. congruence.
Qed.

Lemma released_inv_reach : T_svinv_reach → ∀ cfg s, vreach cfg s → released_inv s.
Proof.
  intros HI cfg s Hr. pattern s. revert s Hr. apply (vreach_ind_inv cfg); [exact HI|done|].
  intros s it Hr I IH Hok tid' t' n k Ht' Hop Hpc sid c Hc.
  destruct (thr_step _ _ _ _ _ I Ht') as [(t & Ht & Hop' & Hfin & Hcn & Hpc')|(_ & E & _)]; [|rewrite E, Hop in Hpc; done].
  rewrite Hop in Hop'. symmetry in Hop'.
  destruct (decide (st_pc t = VFin (SResp true None))) as [Hf|Hnf].
  - specialize (IH _ _ _ _ Ht Hop' Hf).
    destruct (sess_step cfg s it I) as [[Hs _]|[(tid0 & ta & sid0 & n0 & k0 & z0 & lt0 & -> & Hta & Hpca & Hopa & Hs & _)|
      [(tid0 & t0 & n0 & k0 & -> & _ & _ & Hs & _)|(tid0 & t0 & sid0 & -> & _ & _ & _ & Hs & _)]]]; rewrite Hs in Hc.
    + by eapply IH.
    + case_decide; [|by eapply IH]. apply elem_of_app in Hc as [Hc|Hc%elem_of_list_singleton]; [by eapply IH|]. subst c.
      destruct (is_hold n k (Clock n0 k0 z0)) eqn:Hh; [|done]. exfalso. apply is_hold_clock in Hh as [-> ->].
      eapply (adder_not_presented cfg s tid' t tid0 ta); eauto; by rewrite Hop'.
    + apply elem_of_list_filter in Hc as [_ Hc]. by eapply IH.
    + case_decide; [by apply elem_of_nil in Hc|by eapply IH].
  - destruct Hpc' as [E|[->|[_ E]]]; [congruence| |congruence].
    destruct (run_self _ _ _ _ I Ht) as [E|(pc' & E & Hst)]; rewrite E in Ht'; simplify_eq/=; try done.
    rewrite Hop' in Hst. apply pc_step_unlock_fin in Hst.
    rewrite (vstep_run _ _ _ _ (vi_not_crashed _ _ I) Ht) in Hc. destruct t as [op pc cn]. simpl in *. subst.
    rewrite run_sessremove in Hc. unfold vfinish in Hc. erewrite slist_frame in Hc by (autorewrite with svf; reflexivity).
    rewrite slist_sess_remove in Hc. by apply elem_of_list_filter in Hc as [Hc _].
Qed.

Theorem C09_acked_ended_from_inv : T_svinv_reach → T_C09_acked_ended.
Proof.
  intros HI cfg s tid t n k Hr Ht Hop Hpc m sid l z Hm Hl Hin.
  pose proof (file_entry _ _ _ _ _ _ (fsync_reach HI _ _ Hr) Hm Hl Hin) as Hc.
  pose proof (released_inv_reach HI _ _ Hr _ _ _ _ Ht Hop Hpc _ _ Hc) as Hh.
  unfold is_hold in Hh. simpl in Hh. by rewrite !bool_decide_eq_true_2 in Hh.
Qed.

(** *** a hold whose grant was acknowledged stays listed until something ends it *)
(** under no-clear-on-disconnect the end of the session's connection ends no hold *)
Definition ended (cfg : svcfg) (s : svstate) (sid n k : str) : Prop :=
  (∃ tid' t', v_thr s !! tid' = Some t' ∧ st_op t' = SUnlock n k) ∨
  (∃ tid' t' id tm, v_thr s !! tid' = Some t' ∧ st_op t' = SExpire id ∧ v_theap s !! id = Some tm ∧ tm_k tm = k) ∨
  (sc_noclear cfg = false ∧ ev_in (SvConnEnd sid) s).
Lemma thr_op_persist cfg s it tid t : SvInv cfg s → v_thr s !! tid = Some t → ∃ t', v_thr (vstep cfg s it) !! tid = Some t' ∧ st_op t' = st_op t.
Proof.
  intros I Ht. destruct (thr_persist cfg s it tid I) as [t' Ht']; [by eexists|]. exists t'. split; [done|].
  destruct (thr_step _ _ _ _ _ I Ht') as [(t0 & Ht0 & Hop & _)|(Hn & _)]; [|congruence]. congruence.
Qed.
Lemma ended_step cfg s it sid n k : SvInv cfg s → ended cfg s sid n k → ended cfg (vstep cfg s it) sid n k.
Proof.
  intros I [(tid' & t' & Ht & Hop)|[(tid' & t' & id & tm & Ht & Hop & Hh & Hk)|[Hnc He]]].
  - left. destruct (thr_op_persist cfg s it _ _ I Ht) as (t'' & ? & ?). exists tid', t''. split; [done|congruence].
  - right. left. destruct (thr_op_persist cfg s it _ _ I Ht) as (t'' & ? & ?). destruct (heap_step cfg s it I _ _ Hh) as (tm' & ? & ? & ? & ?).
    exists tid', t'', id, tm'. split_and!; try done; congruence.
  - right. right. split; [done|]. by apply ev_mono.
Qed.

Definition listed_inv (cfg : svcfg) (s : svstate) : Prop := ∀ tid t sid n k z, v_thr s !! tid = Some t → acquirer t sid n k z →
  st_pc t = VTmAdd ∨ st_pc t = VFin (SResp true None) → Clock n k z ∈ slist s sid ∨ ended cfg s sid n k.
Lemma run_sessadd_entry cfg tid s t sid n k z : acquirer t sid n k z → st_pc t = VSessAdd → Clock n k z ∈ slist (vrun_thread cfg tid t s) sid.
Proof.
  intros [lt Hop] Hpc. destruct t as [op pc cn]. simpl in *. subst. unfold vrun_thread. simpl.
  destruct Hop as [-> | ->]; case_match; unfold vfinish; (erewrite slist_frame by (autorewrite with svf; reflexivity));
    rewrite slist_sess_add, decide_True by done; apply elem_of_app; right; by left.
Qed.
Lemma pc_step_listed op pc pc' : is_acq op = true → pc_step op pc pc' → pc' = VTmAdd ∨ pc' = VFin (SResp true None) → pc = VSessAdd ∨ pc = VTmAdd.
Proof. destruct pc, op; simpl; try done; naive_solver. Qed.

Lemma listed_inv_reach : T_svinv_reach → ∀ cfg s, vreach cfg s → listed_inv cfg s.
Proof.
  intros HI cfg s Hr. pose proof Hr as Hr0. revert Hr0. pattern s. revert s Hr. apply (vreach_ind_inv cfg); [exact HI|done|].
  intros s it Hr I IH Hok Hr' tid' t' sid n k z Ht' Hacq Hpc. specialize (IH Hr).
  assert (Hacq' : is_acq (st_op t') = true) by (destruct Hacq as [? [-> | ->]]; done).
  destruct (thr_step _ _ _ _ _ I Ht') as [(t & Ht & Hop' & Hfin & Hcn & Hpc')|(_ & E & _)];
    [|rewrite E in Hpc; simpl in Hpc; destruct Hacq as [? [Ho | Ho]]; rewrite Ho in Hpc; by destruct Hpc].
  assert (Hacq0 : acquirer t sid n k z) by (unfold acquirer in *; by rewrite <-Hop').
  assert (HA : st_pc t = VTmAdd ∨ st_pc t = VFin (SResp true None) → Clock n k z ∈ slist (vstep cfg s it) sid ∨ ended cfg (vstep cfg s it) sid n k).
  { intros Hp. destruct (IH _ _ _ _ _ _ Ht Hacq0 Hp) as [Hc|He]; [|right; by apply ended_step].
    destruct (sess_step cfg s it I) as [[Hs _]|[(tid0 & ta & sid0 & n0 & k0 & z0 & lt0 & -> & Hta & Hpca & Hopa & Hs & _)|
      [(tid0 & t0 & n0 & k0 & -> & Ht0 & Hwho & Hs & _)|(tid0 & t0 & sid0 & -> & Ht0 & Hop0 & Hpc0 & Hs & _)]]]; rewrite Hs.
    - by left.
    - left. case_decide; [subst; apply elem_of_app; by left|done].
    - destruct (is_hold n0 k0 (Clock n k z)) eqn:Hh; [|left; by apply elem_of_list_filter].
      apply is_hold_clock in Hh as [-> ->]. right. apply ended_step; [done|].
      destruct Hwho as [[Ho _]|(id & tm & Ho & _ & Hh & _ & Hk)]; [left; eauto|right; left; eauto 10].
    - case_decide; [|by left]. subst.
      destruct Hpc0 as [Hpc0|[_ Hemp]]; [|exfalso; unfold slist in Hc; rewrite Hemp in Hc; by apply elem_of_nil in Hc].
      right. apply ended_step; [done|]. right. right. split; [|eapply (connend_inv_reach HI _ _ Hr); eauto].
      pose proof (vi_ds_noclear _ _ I _ _ _ Ht0 Hop0) as Q. destruct (sc_noclear cfg); [|done]. rewrite Hpc0 in Q. naive_solver. }
  destruct Hpc' as [E|[->|[_ E]]]; [apply HA; by rewrite <-E| |rewrite E in Hpc; by destruct Hpc].
  destruct (run_self _ _ _ _ I Ht) as [E|(pc' & E & Hst)]; rewrite E in Ht'; simplify_eq/=; [by apply HA|].
  destruct (pc_step_listed _ _ _ Hacq' Hst Hpc) as [Hp|Hp]; [|apply HA; by left].
  left. rewrite (vstep_run _ _ _ _ (vi_not_crashed _ _ I) Ht). by apply run_sessadd_entry.
Qed.

Theorem C09_acked_live_from_inv : T_svinv_reach → T_C09_acked_live.
Proof.
  intros HI cfg s tid t sid n k z Hr Hcfg Ht Hacq Hpc Hnu Hne Hns.
  destruct (listed_inv_reach HI _ _ Hr _ _ _ _ _ _ Ht Hacq (or_intror Hpc)) as [Hc|[(tid' & t' & Ht' & Hop)|[(tid' & t' & id & tm & Ht' & Hop & Hh & Hk)|[_ He]]]].
  - by eapply entry_file; [apply (fsync_reach HI _ _ Hr)|..].
  - by destruct (Hnu _ _ Ht').
  - by destruct (Hne _ _ _ _ Ht' Hop Hh).
  - done.
Qed.

(** no-clear-on-disconnect: a hold whose bookkeeping is done stays listed under its session until its own Unlock or expiry
    ends it — whatever session ends happen (the positive form of the repaired F-NOCLEAR-RACE) *)
Theorem C06_noclear_listed_from_inv : T_svinv_reach → T_C06_noclear_listed.
Proof.
  intros HI cfg s tid t sid n k z Hr Hnc Ht Hacq Hpc Hnu Hne.
  destruct (listed_inv_reach HI _ _ Hr _ _ _ _ _ _ Ht Hacq Hpc) as [Hc|[(tid' & t' & Ht' & Hop)|[(tid' & t' & id & tm & Ht' & Hop & Hh & Hk)|[Hf _]]]].
  - by apply entry_of_slist.
  - by destruct (Hnu _ _ Ht').
  - by destruct (Hne _ _ _ _ Ht' Hop Hh).
  - congruence.
Qed.

(** *** the image never lists more live holds of a lock than its size *)
Lemma elem_of_concat_pairs {K A} (ps : list (K * list A)) x : x ∈ concat (map snd ps) ↔ ∃ i l, (i, l) ∈ ps ∧ x ∈ l.
Proof.
  induction ps as [|[i l] ps IH]; simpl.
  - split; [by intros ?%elem_of_nil|by intros (? & ? & ?%elem_of_nil & _)].
  - rewrite elem_of_app, IH. split.
    + intros [H|(j & l' & H1 & H2)]; [exists i, l; split; [by left|done]|exists j, l'; split; [by right|done]].
    + intros (j & l' & [[= -> ->]|H1]%elem_of_cons & H2); [by left|right; eauto].
Qed.
Lemma NoDup_concat_pairs {K A} (ps : list (K * list A)) :
  NoDup ps.*1 → (∀ i l, (i, l) ∈ ps → NoDup l) → (∀ i j l1 l2 x, (i, l1) ∈ ps → (j, l2) ∈ ps → x ∈ l1 → x ∈ l2 → i = j) →
  NoDup (concat (map snd ps)).
Proof.
  induction ps as [|[i l] ps IH]; simpl; intros Hnd Hl Hdisj; [constructor|].
  apply NoDup_cons in Hnd as [Hi Hnd]. apply NoDup_app. split_and!.
  - apply (Hl i). by left.
  - intros x Hx (j & l' & Hj & Hx')%elem_of_concat_pairs. apply Hi.
    assert (i = j) as -> by (eapply (Hdisj i j l l' x); [by left|by right|done|done]).
    apply elem_of_list_fmap. exists (j, l'). done.
  - apply IH; [done|intros; apply (Hl i0); by right|].
    intros i0 j l1 l2 x H1 H2. apply Hdisj; by right.
Qed.

(** a key is listed once: by one session, as one entry *)
Lemma entry_key_inj cfg s sid sid' c c' : SvInv cfg s → c ∈ slist s sid → c' ∈ slist s sid' → cl_key c = cl_key c' → sid = sid' ∧ c = c'.
Proof.
  intros I Hc Hc' Hk. apply entry_of_slist in Hc, Hc'.
  destruct (vi_entry_owner _ _ I _ _ Hc) as (tid & t & Ht & (lt & Hop) & _).
  destruct (vi_entry_owner _ _ I _ _ Hc') as (tid' & t' & Ht' & (lt' & Hop') & _).
  assert (tid = tid').
  { eapply (vi_keys_fresh _ _ I _ _ _ _ (cl_key c) Ht Ht'); destruct Hop as [Hop|Hop], Hop' as [Hop'|Hop']; rewrite ?Hop, ?Hop'; simpl; congruence. }
  subst. destruct c, c'. simpl in *. assert (t' = t) as -> by congruence.
  destruct Hop as [Hop|Hop], Hop' as [Hop'|Hop']; rewrite Hop in Hop'; simplify_eq; done.
Qed.

Theorem C09_live_bound_from_inv : T_svinv_reach → T_C09_live_bound.
Proof.
  intros HI cfg s n a Hr Ha. pose proof (HI _ _ Hr) as I. pose proof (fsync_reach HI _ _ Hr) as F.
  destruct (vi_cap _ _ I _ _ Ha) as (Hpos & Hlen & Hnd & _).
  unfold file_entries. destruct (v_file s) as [m|] eqn:Hm; [|simpl; lia].
  assert (Hcfg : sc_file cfg = true). { destruct F as [_ F2]. destruct (sc_file cfg); [done|]. rewrite F2 in Hm; done. }
  assert (Hl : ∀ sid l, m !! sid = Some l → l = slist s sid).
  { intros sid l E. destruct F as [F1 _]. rewrite <-F1 by done. unfold flist. rewrite Hm. simpl. by rewrite E. }
  set (all := concat (map snd (map_to_list m))).
  assert (Hall : ∀ c, c ∈ all → ∃ sid, c ∈ slist s sid).
  { intros c (sid & l & Hin%elem_of_map_to_list & Hc)%elem_of_concat_pairs. exists sid. by rewrite <-(Hl _ _ Hin). }
  assert (Hndall : NoDup all).
  { apply NoDup_concat_pairs.
    - apply NoDup_fst_map_to_list.
    - intros sid l Hin%elem_of_map_to_list. rewrite (Hl _ _ Hin). unfold slist. destruct (v_sess s !! sid) eqn:E; simpl; [by apply (vi_entry_nodup _ _ I sid)|constructor].
    - intros i j l1 l2 x H1%elem_of_map_to_list H2%elem_of_map_to_list Hx1 Hx2. rewrite (Hl _ _ H1) in Hx1. rewrite (Hl _ _ H2) in Hx2.
      by destruct (entry_key_inj _ _ _ _ _ _ I Hx1 Hx2 eq_refl). }
  set (L := filter (λ c, cl_key c ∈ al_live a) (filter (λ c, cl_name c = n) all)).
  assert (HndL : NoDup (cl_key <$> L)).
  { apply NoDup_fmap_2_strong; [|by do 2 apply NoDup_filter].
    intros c c' [_ [_ Hc]%elem_of_list_filter]%elem_of_list_filter [_ [_ Hc']%elem_of_list_filter]%elem_of_list_filter Hk.
    destruct (Hall _ Hc) as [sid Hs]. destruct (Hall _ Hc') as [sid' Hs']. by destruct (entry_key_inj _ _ _ _ _ _ I Hs Hs' Hk). }
  assert (Hsub : cl_key <$> L ⊆+ al_live a).
  { apply NoDup_submseteq; [done|]. intros k (c & -> & [Hk _]%elem_of_list_filter)%elem_of_list_fmap. done. }
  apply submseteq_length in Hsub. rewrite fmap_length in Hsub. lia.
Qed.

(** *** what the image lists beyond the live holds are operations in flight at the kill *)
Definition ending_in_flight (s : svstate) (n k : str) : Prop :=
  ∃ tid t, v_thr s !! tid = Some t ∧
    ((st_op t = SUnlock n k ∧ st_pc t = VSessRemove) ∨
     (∃ id tm, st_op t = SExpire id ∧ v_theap s !! id = Some tm ∧ tm_n tm = n ∧ tm_k tm = k ∧ st_pc t = VCbSessRemove)).
Theorem C09_zombies_in_flight_from_inv : T_svinv_reach → ∀ cfg s sid c,
  vreach cfg s → entry_of s sid c → ¬ slive s (cl_name c) (cl_key c) → ending_in_flight s (cl_name c) (cl_key c).
Proof. intros HI cfg s sid c Hr He Hnl. exact (vi_zombie _ _ (HI _ _ Hr) _ _ He Hnl). Qed.
#[local] Instance slive_dec s n k : Decision (slive s n k).
Proof.
  unfold slive. destruct (v_locks s !! n) as [a|] eqn:E.
  - destruct (decide (k ∈ al_live a)); [left; eauto|right; intros (? & [= <-] & ?); done].
  - right. by intros (? & ? & _).
Defined.
(** in the words of the property: every hold the image lists is live (it occupies a unit of its lock), or an Unlock call /
    expiry callback that has already released it and is about to remove the entry was in flight at the kill *)
Theorem C09_image_live_or_in_flight_from_inv : T_svinv_reach → ∀ cfg s m sid l c,
  vreach cfg s → v_file s = Some m → m !! sid = Some l → c ∈ l →
  slive s (cl_name c) (cl_key c) ∨ ending_in_flight s (cl_name c) (cl_key c).
Proof.
  intros HI cfg s m sid l c Hr Hm Hl Hc. destruct (decide (slive s (cl_name c) (cl_key c))) as [?|Hn]; [by left|right].
  eapply (C09_zombies_in_flight_from_inv HI); [done| |done]. apply entry_of_slist. eapply file_entry; eauto using fsync_reach.
Qed.

(** ** why [sitem_ok] asks for [net_open]: a Lock call issued after the network stop would park uncancelled
    (the closer would then wait for it for ever); the schedule is not meaningful — the listeners are closed *)
Definition late_sched : list sitem :=
  [ VConnect (bs 1); VCall 0 (STry (bs 1) (bs 10) (bs 21) 1 None); VRun 0; VRun 0;
    VSignal; VRun 1000; VRun 1000;
    VCall 1 (SLock (bs 1) (bs 10) (bs 22) 1 None); VRun 1 ].
Example C11_late_call_parks_uncancelled :
  (v_thr (vrun over_cfg late_sched) !! 1%nat) = Some (SThread (SLock (bs 1) (bs 10) (bs 22) 1 None) VWait None).
Proof. by vm_compute. Qed.
Example C11_late_call_excluded : ¬ sitem_ok (vrun over_cfg (take 7 late_sched)) (VCall 1 (SLock (bs 1) (bs 10) (bs 22) 1 None)).
Proof.
  intros (_ & _ & _ & _ & Hnet). destruct (Hnet 1000%nat (SThread SShutdown VShTimers None)) as [?|?]; [by vm_compute|done|done|done].
Qed.

(** the premises of [T_C11_waiters_fail] / [T_C11_no_hang] are satisfiable: a parked call at the moment the closer waits for it *)
Definition park_sched : list sitem :=
  [ VConnect (bs 1); VCall 0 (STry (bs 1) (bs 10) (bs 21) 1 None); VRun 0; VRun 0;
    VCall 1 (SLock (bs 1) (bs 10) (bs 22) 1 None); VRun 1;
    VSignal; VRun 1000; VRun 1000; VRun 1000 ].
Example C11_premises_satisfiable : ∃ cfg s tid t tc c,
  vreach cfg s ∧ v_thr s !! tid = Some t ∧ st_pc t = VWait ∧
  v_thr s !! tc = Some c ∧ st_op c = SShutdown ∧ st_pc c = VShMgr ∧ sv_blocked s tc = true.
Proof.
  exists over_cfg, (vrun over_cfg park_sched), 1%nat, (SThread (SLock (bs 1) (bs 10) (bs 22) 1 None) VWait (Some ECtxCanceled)),
    1000%nat, (SThread SShutdown VShMgr None).
  split; [apply check_vrun; by vm_compute|]. split_and!; by vm_compute.
Qed.
