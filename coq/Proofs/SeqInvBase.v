(** Component-level invariants for Mseq and how the primitive map/list updates preserve them.
    [TI] speaks about the lock table, timers, parked calls and the ghost set of drawn keys;
    [LI] about the session table and the state file; [VW] links the two (C08). [Inv] of SeqDefs is
    equivalent to their conjunction plus the time conditions (see SeqInv.v). *)
From Coq Require Import Lia ZifyBool ZifyNat.
From Ldlm Require Import Model.Base Model.Err Model.Seq Proofs.SeqDefs Proofs.SeqLemmasKey.
From RecordUpdate Require Import RecordSet.
Import RecordSetNotations.
Local Open Scope Z_scope.

(** ** Lists *)

Lemma map_is_fmap {A B} (f : A → B) (l : list A) : map f l = f <$> l.
Proof. reflexivity. Qed.

Lemma concat_is_join {A} (l : list (list A)) : concat l = mjoin l.
Proof. induction l as [|a l IH]; [done|]. simpl. by rewrite IH. Qed.

Lemma NoDup_fmap_filter {A B} (f : A → B) (P : A → Prop) `{∀ x, Decision (P x)} (l : list A) :
  NoDup (f <$> l) → NoDup (f <$> filter P l).
Proof.
  induction l as [|a l IH]; [constructor|].
  rewrite fmap_cons, NoDup_cons. intros [Hn Hd]. rewrite filter_cons. destruct (decide (P a)); [|auto].
  rewrite fmap_cons, NoDup_cons. split; [|auto].
  rewrite elem_of_list_fmap in *. intros (y & E & Hy). apply elem_of_list_filter in Hy as [_ Hy]. eauto.
Qed.

Lemma NoDup_fmap_inj_on {A B} (f : A → B) (l : list A) x y :
  NoDup (f <$> l) → x ∈ l → y ∈ l → f x = f y → x = y.
Proof.
  induction l as [|a l IH]; simpl; [by rewrite elem_of_nil|].
  rewrite NoDup_cons, !elem_of_cons, elem_of_list_fmap. intros [Hn Hd] [->|Hx] [->|Hy] E; auto.
  - exfalso; apply Hn; eauto.
  - exfalso; apply Hn; exists x; eauto.
Qed.

Lemma existsb_false {A} (f : A → bool) (l : list A) x : existsb f l = false → x ∈ l → f x = false.
Proof.
  induction l as [|a l IH]; simpl; [by intros _ ?%elem_of_nil|].
  intros [? ?]%orb_false_elim [->|?]%elem_of_cons; auto.
Qed.

Lemma filter_all {A} (P : A → Prop) `{∀ x, Decision (P x)} (l : list A) : (∀ x, x ∈ l → P x) → filter P l = l.
Proof.
  induction l as [|a l IH]; [done|]. intros HP. rewrite filter_cons.
  destruct (decide (P a)) as [|N]; [|destruct N; apply HP; left]. f_equal. apply IH. intros x Hx. apply HP. by right.
Qed.

Lemma remove_first_incl k l x : x ∈ remove_first k l → x ∈ l.
Proof.
  induction l as [|a l IH]; simpl; [done|]. case_bool_decide; rewrite ?elem_of_cons; naive_solver.
Qed.

Lemma remove_first_ne k l x : x ∈ l → x ≠ k → x ∈ remove_first k l.
Proof.
  induction l as [|a l IH]; simpl; [done|]. case_bool_decide; rewrite ?elem_of_cons; naive_solver.
Qed.

Lemma remove_first_len k l : k ∈ l → S (length (remove_first k l)) = length l.
Proof.
  induction l as [|a l IH]; simpl; [by rewrite elem_of_nil|].
  case_bool_decide; [done|]. rewrite elem_of_cons. intros [?|?]; [congruence|]. simpl. by rewrite IH.
Qed.

Lemma remove_first_nodup k l : NoDup l → NoDup (remove_first k l) ∧ k ∉ remove_first k l.
Proof.
  induction l as [|a l IH]; simpl; [intros; split; [apply NoDup_nil_2|apply not_elem_of_nil]|].
  rewrite NoDup_cons. intros [Hn Hd]. case_bool_decide; [subst; auto|].
  destruct (IH Hd) as [IH1 IH2]. rewrite NoDup_cons, elem_of_cons. split_and!; auto.
  - intros ?%remove_first_incl; auto.
  - intros [?|?]; auto.
Qed.

Lemma name_waiters_nil_ne name ws w : name_waiters name ws = [] → w ∈ ws → w_name w ≠ name.
Proof.
  unfold name_waiters. intros E Hw Hn.
  assert (w ∈ filter (λ w, w_name w = name) ws) as Hf by (apply elem_of_list_filter; auto).
  rewrite E in Hf. by apply elem_of_nil in Hf.
Qed.

Lemma name_waiters_cons name ws w r : name_waiters name ws = w :: r → w ∈ ws ∧ w_name w = name.
Proof.
  unfold name_waiters. intros E.
  assert (w ∈ filter (λ w, w_name w = name) ws) as Hf by (rewrite E; left).
  apply elem_of_list_filter in Hf. tauto.
Qed.

(** ** Component-level views *)

Definition livel (L : gmap str lockobj) (n k : str) : Prop := ∃ o, L !! n = Some o ∧ k ∈ lo_keys o.
Definition intab (L : gmap str lockobj) (c : clock) : Prop :=
  ∃ o, L !! cl_name c = Some o ∧ cl_key c ∈ lo_keys o ∧ cl_size c = lo_size o.
Definition listedS (S : gmap str (list clock)) (c : clock) : Prop := ∃ sid l, S !! sid = Some l ∧ c ∈ l.

Lemma live_livel s n k : live s n k ↔ livel (st_locks s) n k.
Proof. reflexivity. Qed.
Lemma in_table_intab s c : in_table s c ↔ intab (st_locks s) c.
Proof. reflexivity. Qed.

Lemma elem_of_concat_map {A} (S : gmap str (list A)) (c : A) :
  c ∈ concat (map snd (map_to_list S)) ↔ ∃ sid l, S !! sid = Some l ∧ c ∈ l.
Proof.
  rewrite map_is_fmap, concat_is_join, elem_of_list_join. split.
  - intros (l & Hc & Hl). apply elem_of_list_fmap in Hl as ([sid l'] & -> & Hl).
    apply elem_of_map_to_list in Hl. eauto.
  - intros (sid & l & Hs & Hc). exists l. split; [done|]. apply elem_of_list_fmap.
    exists (sid, l). split; [done|]. by apply elem_of_map_to_list.
Qed.

Lemma elem_of_listing s c : c ∈ listing s ↔ listedS (st_sessions s) c.
Proof. apply elem_of_concat_map. Qed.

Lemma intab_livel L c : intab L c → livel L (cl_name c) (cl_key c).
Proof. intros (o & ? & ? & ?). exists o; auto. Qed.

(** ** The table-side invariant. [D] lists the (name,key) pairs whose hold has just been released from the
    table while their lease timer may still be filed. *)
Record TI (L : gmap str lockobj) (T : gmap str timer) (W : list waiter) (U : list str)
          (D : list (str * str)) : Prop := {
  ti_cap : ∀ n o, L !! n = Some o → 0 < lo_size o ∧ Z.of_nat (length (lo_keys o)) ≤ lo_size o ∧ NoDup (lo_keys o);
  ti_key_once : ∀ n1 n2 k, livel L n1 k → livel L n2 k → n1 = n2;
  ti_timers : ∀ tk t, T !! tk = Some t →
      tk = tkey (tm_name t) (tm_key t) ∧ (livel L (tm_name t) (tm_key t) ∨ (tm_name t, tm_key t) ∈ D);
  ti_waiters : ∀ w, w ∈ W →
      ∃ o, L !! w_name w = Some o ∧ Z.of_nat (length (lo_keys o)) = lo_size o ∧ w_size w = lo_size o;
  ti_ids : NoDup (w_id <$> W);
  ti_used_live : ∀ n k, livel L n k → k ∈ U;
  ti_used_waiters : ∀ w, w ∈ W → w_key w ∈ U ∧ ∀ n, ¬ livel L n (w_key w);
  ti_wkeys : NoDup (w_key <$> W)
}.

(** ** The session-side invariant *)
Record LI (cfg : config) (S : gmap str (list clock)) (F : option (gmap str (list clock)))
          (W : list waiter) (U : list str) : Prop := {
  li_owner : ∀ sid1 sid2 l1 l2 c, S !! sid1 = Some l1 → S !! sid2 = Some l2 → c ∈ l1 → c ∈ l2 → sid1 = sid2;
  li_nodup : ∀ sid l, S !! sid = Some l → NoDup l;
  li_file : c_file cfg = true → ∀ sid, default [] (default ∅ F !! sid) = default [] (S !! sid);
  li_used : ∀ c, listedS S c → cl_key c ∈ U;
  li_nw : ∀ c w, listedS S c → w ∈ W → cl_key c ≠ w_key w
}.

(** C08, first half *)
Definition VW (L : gmap str lockobj) (S : gmap str (list clock)) : Prop := ∀ c, listedS S c ↔ intab L c.

(** every deadline satisfies [P] *)
Definition TM (P : Z → Prop) (T : gmap str timer) (W : list waiter) : Prop :=
  (∀ tk t, T !! tk = Some t → P (tm_deadline t)) ∧ (∀ w d, w ∈ W → w_deadline w = Some d → P d).

(** ** [livel] / [intab] under updates of the table *)

Lemma livel_insert L n o n' k :
  livel (<[n := o]> L) n' k ↔ (n' = n ∧ k ∈ lo_keys o) ∨ (n' ≠ n ∧ livel L n' k).
Proof.
  unfold livel. destruct (decide (n' = n)) as [->|Hne].
  - rewrite lookup_insert. naive_solver.
  - rewrite lookup_insert_ne by done. naive_solver.
Qed.

Lemma intab_insert L n o c :
  intab (<[n := o]> L) c ↔
    (cl_name c = n ∧ cl_key c ∈ lo_keys o ∧ cl_size c = lo_size o) ∨ (cl_name c ≠ n ∧ intab L c).
Proof.
  unfold intab. destruct (decide (cl_name c = n)) as [->|Hne].
  - rewrite lookup_insert. naive_solver.
  - rewrite lookup_insert_ne by done. naive_solver.
Qed.

(** touching lastAccessed *)
Lemma livel_touch L n o x n' k : L !! n = Some o → livel (<[n := o <| lo_last := x |>]> L) n' k ↔ livel L n' k.
Proof.
  intros Ho. rewrite livel_insert. simpl. unfold livel. split.
  - intros [[-> ?]|[? ?]]; eauto.
  - intros (o' & Ho' & ?). destruct (decide (n' = n)) as [->|]; [left|right; eauto]. naive_solver.
Qed.

Lemma intab_touch L n o x c : L !! n = Some o → intab (<[n := o <| lo_last := x |>]> L) c ↔ intab L c.
Proof.
  intros Ho. rewrite intab_insert. simpl. unfold intab. split.
  - intros [(<- & ? & ?)|[? ?]]; eauto.
  - intros (o' & Ho' & ? & ?). destruct (decide (cl_name c = n)) as [<-|]; [left|right; eauto]. naive_solver.
Qed.

Lemma TI_livel_ext L L' T W U D :
  (∀ n o, L' !! n = Some o → ∃ o', L !! n = Some o' ∧ lo_size o' = lo_size o ∧ lo_keys o' = lo_keys o) →
  (∀ n o, L !! n = Some o → ∃ o', L' !! n = Some o' ∧ lo_size o' = lo_size o ∧ lo_keys o' = lo_keys o) →
  TI L T W U D → TI L' T W U D.
Proof.
  intros H1 H2 HI.
  assert (∀ n k, livel L' n k ↔ livel L n k) as Hl.
  { intros n k; split; intros (o & Ho & Hk).
    - destruct (H1 _ _ Ho) as (o' & ? & ? & E). exists o'. by rewrite E.
    - destruct (H2 _ _ Ho) as (o' & ? & ? & E). exists o'. by rewrite E. }
  destruct HI. split; auto.
  - intros n o Ho. destruct (H1 _ _ Ho) as (o' & Ho' & E1 & E2). rewrite <-E1, <-E2. eauto.
  - intros n1 n2 k. rewrite !Hl. eauto.
  - intros tk t Ht. rewrite Hl. eauto.
  - intros w Hw. destruct (ti_waiters0 _ Hw) as (o & Ho & ? & ?).
    destruct (H2 _ _ Ho) as (o' & ? & E1 & E2). exists o'. rewrite E1, E2. auto.
  - intros n k. rewrite Hl. eauto.
  - intros w Hw. destruct (ti_used_waiters0 _ Hw) as [? Hn]. split; [done|]. intros n. rewrite Hl. auto.
Qed.

(** ** [TI] under the primitive updates *)

Lemma TI_change_locks L L' T W U D :
  (∀ n k, livel L' n k ↔ livel L n k) →
  (∀ n o, L' !! n = Some o → 0 < lo_size o ∧ Z.of_nat (length (lo_keys o)) ≤ lo_size o ∧ NoDup (lo_keys o)) →
  (∀ w, w ∈ W → ∃ o, L' !! w_name w = Some o ∧ Z.of_nat (length (lo_keys o)) = lo_size o ∧ w_size w = lo_size o) →
  TI L T W U D → TI L' T W U D.
Proof.
  intros Hl Hc Hw HI. destruct HI. split; auto.
  - intros n1 n2 k. rewrite !Hl. eauto.
  - intros tk t Ht. rewrite Hl. eauto.
  - intros n k. rewrite Hl. eauto.
  - intros w Hw'. destruct (ti_used_waiters0 _ Hw') as [? Hn]. split; [done|]. intros n. rewrite Hl. auto.
Qed.

Lemma TI_touch L T W U D n o x :
  L !! n = Some o → TI L T W U D → TI (<[n := o <| lo_last := x |>]> L) T W U D.
Proof.
  intros Ho HI. apply (TI_change_locks L); auto.
  - intros. by apply livel_touch.
  - intros n' o'. destruct (decide (n' = n)) as [->|]; rewrite ?lookup_insert, ?lookup_insert_ne by done.
    + intros [= <-]. simpl. eapply ti_cap; eauto.
    + eapply ti_cap; eauto.
  - intros w Hw. destruct (ti_waiters _ _ _ _ _ HI _ Hw) as (o' & Ho' & ? & ?).
    destruct (decide (w_name w = n)) as [E|]; rewrite ?E, ?lookup_insert, ?lookup_insert_ne by done; eauto.
    rewrite E in Ho'. simplify_eq. eexists; split; [done|]. simpl. auto.
Qed.

Lemma TI_create L T W U D n sz x :
  L !! n = None → 0 < sz → TI L T W U D → TI (<[n := LockObj sz [] x]> L) T W U D.
Proof.
  intros Ho Hsz HI. apply (TI_change_locks L); auto.
  - intros n' k. rewrite livel_insert. simpl. split.
    + intros [[_ H]|[_ H]]; [by apply elem_of_nil in H|done].
    + intros H. right. split; [|done]. intros ->. destruct H as (? & ? & _). congruence.
  - intros n' o'. destruct (decide (n' = n)) as [->|]; rewrite ?lookup_insert, ?lookup_insert_ne by done.
    + intros [= <-]. simpl. split_and!; [lia|lia|apply NoDup_nil_2].
    + eapply ti_cap; eauto.
  - intros w Hw. destruct (ti_waiters _ _ _ _ _ HI _ Hw) as (o' & Ho' & ? & ?).
    rewrite lookup_insert_ne by congruence. eauto.
Qed.

Lemma TI_add_key L T W U D n o o' k :
  L !! n = Some o → lo_size o' = lo_size o → lo_keys o' = lo_keys o ++ [k] →
  Z.of_nat (length (lo_keys o)) < lo_size o →
  (∀ n', ¬ livel L n' k) → k ∈ U → (∀ w, w ∈ W → w_key w ≠ k) → (∀ w, w ∈ W → w_name w ≠ n) →
  TI L T W U D → TI (<[n := o']> L) T W U D.
Proof.
  intros Ho Es Ek Hlt Hfresh HkU Hwk Hwn HI.
  assert (∀ n' k', livel (<[n := o']> L) n' k' ↔ livel L n' k' ∨ (n' = n ∧ k' = k)) as Hl.
  { intros n' k'. rewrite livel_insert, Ek, elem_of_app, elem_of_list_singleton. split.
    - intros [[-> [?|?]]|[? ?]]; eauto. left. exists o; eauto.
    - intros [H|[-> ->]]; [|eauto]. destruct (decide (n' = n)) as [->|]; [|eauto].
      left. destruct H as (o1 & ? & ?). simplify_eq. eauto. }
  destruct HI. split; auto.
  - intros n' o1. destruct (decide (n' = n)) as [->|]; rewrite ?lookup_insert, ?lookup_insert_ne by done; [|eauto].
    intros [= <-]. destruct (ti_cap0 _ _ Ho) as (? & ? & ?). rewrite Es, Ek, app_length. simpl.
    split_and!; [lia|lia|]. apply NoDup_app. split_and!; [done| |apply NoDup_singleton].
    intros x Hx ->%elem_of_list_singleton. apply (Hfresh n). exists o; eauto.
  - intros n1 n2 k'. rewrite !Hl. intros [H1|[? ?]] [H2|[? ?]]; simplify_eq; eauto.
    + exfalso; eapply Hfresh; eauto.
    + exfalso; eapply Hfresh; eauto.
  - intros tk t Ht. rewrite Hl. destruct (ti_timers0 _ _ Ht) as [? [?|?]]; eauto.
  - intros w Hw. rewrite lookup_insert_ne by (apply not_eq_sym; eauto). eauto.
  - intros n' k'. rewrite Hl. intros [?|[-> ->]]; eauto.
  - intros w Hw. destruct (ti_used_waiters0 _ Hw) as [? Hn]. split; [done|]. intros n'. rewrite Hl.
    intros [?|[-> E]]; [by eapply Hn|]. by eapply Hwk.
Qed.

(** Unlock of a key with no call parked on the lock *)
Lemma TI_remove_key L T W U D n o o' k :
  L !! n = Some o → lo_size o' = lo_size o → lo_keys o' = remove_first k (lo_keys o) → k ∈ lo_keys o →
  (∀ w, w ∈ W → w_name w ≠ n) →
  TI L T W U D → TI (<[n := o']> L) T W U ((n, k) :: D).
Proof.
  intros Ho Es Ek Hk Hwn HI.
  pose proof (ti_cap _ _ _ _ _ HI _ _ Ho) as (Hsz & Hlen & Hnd).
  destruct (remove_first_nodup k _ Hnd) as [Hnd' Hnk].
  assert (∀ n' k', livel (<[n := o']> L) n' k' ↔ livel L n' k' ∧ (n', k') ≠ (n, k)) as Hl.
  { intros n' k'. rewrite livel_insert, Ek. split.
    - intros [[-> H]|[? ?]]; [|split; [done|congruence]].
      split; [exists o; split; [done|by eapply remove_first_incl]|]. intros [= ->]. done.
    - intros [(o1 & Ho1 & Hk1) Hne]. destruct (decide (n' = n)) as [->|]; [left|right; split; [done|exists o1; eauto]].
      simplify_eq. split; [done|]. apply remove_first_ne; [done|congruence]. }
  destruct HI. split; auto.
  - intros n' o1. destruct (decide (n' = n)) as [->|]; rewrite ?lookup_insert, ?lookup_insert_ne by done; [|eauto].
    intros [= <-]. rewrite Es, Ek. pose proof (remove_first_len k _ Hk). split_and!; [lia|lia|done].
  - intros n1 n2 k'. rewrite !Hl. intros [? _] [? _]; eauto.
  - intros tk t Ht. rewrite Hl, elem_of_cons. destruct (ti_timers0 _ _ Ht) as [? [?|?]]; [|eauto].
    split; [done|]. destruct (decide ((tm_name t, tm_key t) = (n, k))); eauto.
  - intros w Hw. rewrite lookup_insert_ne by (apply not_eq_sym; eauto). eauto.
  - intros n' k'. rewrite Hl. intros [? _]; eauto.
  - intros w Hw. destruct (ti_used_waiters0 _ Hw) as [? Hn]. split; [done|]. intros n'. rewrite Hl.
    intros [? _]. by eapply Hn.
Qed.

(** Unlock of a key followed by the hand-off of the freed unit to the parked call [w] *)
Lemma TI_swap_key L T W U D n o o' k w (P : waiter → Prop) `{∀ x, Decision (P x)} :
  L !! n = Some o → lo_size o' = lo_size o → lo_keys o' = remove_first k (lo_keys o) ++ [w_key w] →
  k ∈ lo_keys o → w ∈ W → w_name w = n → (∀ w', P w' ↔ w_id w' ≠ w_id w) →
  TI L T W U D → TI (<[n := o']> L) T (filter P W) U ((n, k) :: D).
Proof.
  intros Ho Es Ek Hk Hw Hwn HP HI.
  pose proof (ti_cap _ _ _ _ _ HI _ _ Ho) as (Hsz & Hlen & Hnd).
  destruct (remove_first_nodup k _ Hnd) as [Hnd' Hnk].
  pose proof (remove_first_len k _ Hk) as Hlen'.
  destruct (ti_used_waiters _ _ _ _ _ HI _ Hw) as [HwU Hwdead].
  assert (w_key w ≠ k) as Hwk by (intros E; apply (Hwdead n); rewrite E; exists o; eauto).
  assert (∀ n' k', livel (<[n := o']> L) n' k' ↔ (livel L n' k' ∧ (n', k') ≠ (n, k)) ∨ (n' = n ∧ k' = w_key w)) as Hl.
  { intros n' k'. rewrite livel_insert, Ek, elem_of_app, elem_of_list_singleton. split.
    - intros [[-> [H1|H1]]|[? ?]]; [left|by right|left; split; [done|congruence]].
      split; [exists o; split; [done|by eapply remove_first_incl]|]. intros [= ->]. done.
    - intros [[(o1 & Ho1 & Hk1) Hne]|[-> ->]]; [|eauto].
      destruct (decide (n' = n)) as [->|]; [left|right; split; [done|exists o1; eauto]].
      simplify_eq. split; [done|]. left. apply remove_first_ne; [done|congruence]. }
  destruct HI. split; auto.
  - intros n' o1. destruct (decide (n' = n)) as [->|]; rewrite ?lookup_insert, ?lookup_insert_ne by done; [|eauto].
    intros [= <-]. rewrite Es, Ek, app_length. simpl. split_and!; [lia|lia|].
    apply NoDup_app. split_and!; [done| |apply NoDup_singleton].
    intros x Hx Hx2%elem_of_list_singleton; subst x. apply (Hwdead n). exists o. split; [done|by eapply remove_first_incl].
  - intros n1 n2 k'. rewrite !Hl. intros [[H1 _]|[? ?]] [[H2 _]|[? ?]]; simplify_eq; eauto.
    + exfalso; eapply Hwdead; eauto.
    + exfalso; eapply Hwdead; eauto.
  - intros tk t Ht. rewrite Hl, elem_of_cons. destruct (ti_timers0 _ _ Ht) as [? [?|?]]; [|eauto].
    split; [done|]. destruct (decide ((tm_name t, tm_key t) = (n, k))); eauto.
  - intros w' [_ Hw']%elem_of_list_filter. destruct (ti_waiters0 _ Hw') as (o1 & Ho1 & Hf & Hs).
    destruct (decide (w_name w' = n)) as [E|]; rewrite ?E, ?lookup_insert, ?lookup_insert_ne by done; [|eauto].
    rewrite E in Ho1. simplify_eq. exists o'. rewrite Es, Ek, app_length. simpl. split_and!; [done|lia|done].
  - by apply NoDup_fmap_filter.
  - intros n' k'. rewrite Hl. intros [[? _]|[-> ->]]; eauto.
  - intros w' [Hp Hw']%elem_of_list_filter. destruct (ti_used_waiters0 _ Hw') as [? Hn]. split; [done|].
    intros n'. rewrite Hl. intros [[? _]|[-> E]]; [by eapply Hn|].
    apply HP in Hp. apply Hp. f_equal. eapply (NoDup_fmap_inj_on w_key); eauto.
  - by apply NoDup_fmap_filter.
Qed.

Lemma TI_filter_waiters L T W U D (P : waiter → Prop) `{∀ x, Decision (P x)} :
  TI L T W U D → TI L T (filter P W) U D.
Proof.
  intros HI. destruct HI. split; auto.
  - intros w [_ Hw]%elem_of_list_filter. eauto.
  - by apply NoDup_fmap_filter.
  - intros w [_ Hw]%elem_of_list_filter. eauto.
  - by apply NoDup_fmap_filter.
Qed.

Lemma TI_add_waiter L T W U D w o :
  L !! w_name w = Some o → Z.of_nat (length (lo_keys o)) = lo_size o → w_size w = lo_size o →
  w_id w ∉ w_id <$> W → w_key w ∈ U → (∀ n, ¬ livel L n (w_key w)) → w_key w ∉ w_key <$> W →
  TI L T W U D → TI L T (W ++ [w]) U D.
Proof.
  intros Ho Hf Hs Hid HkU Hdead Hk HI. destruct HI. split; auto.
  - intros w' [?|Hx%elem_of_list_singleton]%elem_of_app; subst; eauto.
  - rewrite fmap_app. apply NoDup_app. split_and!; [done| |apply NoDup_singleton].
    intros x Hx Hx2%elem_of_list_singleton; subst x. done.
  - intros w' [?|Hx%elem_of_list_singleton]%elem_of_app; subst; eauto.
  - rewrite fmap_app. apply NoDup_app. split_and!; [done| |apply NoDup_singleton].
    intros x Hx Hx2%elem_of_list_singleton; subst x. done.
Qed.

Lemma TI_timer_insert L T W U D n k d sid :
  livel L n k → TI L T W U D → TI L (<[tkey n k := Timer d n k sid]> T) W U D.
Proof.
  intros Hl HI. destruct HI. split; auto.
  intros tk t. destruct (decide (tk = tkey n k)) as [->|]; rewrite ?lookup_insert, ?lookup_insert_ne by done; [|eauto].
  intros [= <-]. simpl. auto.
Qed.

Lemma TI_timer_renew L T W U D tk t d sid :
  T !! tk = Some t → TI L T W U D → TI L (<[tk := Timer d (tm_name t) (tm_key t) sid]> T) W U D.
Proof.
  intros Ht HI. destruct HI. split; auto.
  intros tk' t'. destruct (decide (tk' = tk)) as [->|]; rewrite ?lookup_insert, ?lookup_insert_ne by done; [|eauto].
  intros [= <-]. simpl. eauto.
Qed.

Lemma TI_timer_delete L T W U D tk : TI L T W U D → TI L (delete tk T) W U D.
Proof.
  intros HI. destruct HI. split; auto.
  intros tk' t' [_ ?]%lookup_delete_Some. eauto.
Qed.

Lemma TI_timers_empty L T W U D : TI L T W U D → TI L ∅ W U D.
Proof. intros HI. destruct HI. split; auto. intros tk t. by rewrite lookup_empty. Qed.

(** once the timer of a released hold is gone, the pair need not be remembered *)
Lemma TI_D_drop L T W U D n k : T !! tkey n k = None → TI L T W U ((n, k) :: D) → TI L T W U D.
Proof.
  intros Hn HI. destruct HI. split; auto.
  intros tk t Ht. destruct (ti_timers0 _ _ Ht) as [E [?|[H|?]%elem_of_cons]]; auto.
  exfalso. injection H as E1 E2. rewrite E, E1, E2 in Ht. congruence.
Qed.

Lemma TI_D_weaken L T W U D p : TI L T W U D → TI L T W U (p :: D).
Proof.
  intros HI. destruct HI. split; auto.
  intros tk t Ht. rewrite elem_of_cons. destruct (ti_timers0 _ _ Ht) as [E [?|?]]; auto.
Qed.

Lemma TI_used L T W U U' D : (∀ k, k ∈ U → k ∈ U') → TI L T W U D → TI L T W U' D.
Proof.
  intros HU HI. destruct HI. split; eauto.
  intros w Hw. destruct (ti_used_waiters0 _ Hw). eauto.
Qed.

(** garbage collection: only locks without key and without parked call disappear *)
Lemma TI_gc L L' T W U D :
  (∀ n o, L' !! n = Some o → L !! n = Some o) →
  (∀ n o, L !! n = Some o → L' !! n = None → lo_keys o = [] ∧ ∀ w, w ∈ W → w_name w ≠ n) →
  TI L T W U D → TI L' T W U D.
Proof.
  intros H1 H2 HI. apply (TI_change_locks L); auto.
  - intros n k. split; intros (o & Ho & Hk); [exists o; eauto|].
    destruct (L' !! n) as [o'|] eqn:E; [pose proof (H1 _ _ E); simplify_eq; exists o; eauto|].
    destruct (H2 _ _ Ho E) as [E' _]. rewrite E' in Hk. by apply elem_of_nil in Hk.
  - intros n o Ho. eapply ti_cap; eauto.
  - intros w Hw. destruct (ti_waiters _ _ _ _ _ HI _ Hw) as (o & Ho & ? & ?).
    destruct (L' !! w_name w) as [o'|] eqn:E; [pose proof (H1 _ _ E); simplify_eq; exists o; eauto|].
    destruct (H2 _ _ Ho E) as [_ Hn]. by destruct (Hn _ Hw).
Qed.

Lemma TI_empty U : TI ∅ ∅ [] U [].
Proof.
  assert (∀ n k, ¬ livel ∅ n k) as Hl by (intros n k (? & H & _); by rewrite lookup_empty in H).
  split.
  - intros n o H. by rewrite lookup_empty in H.
  - intros n1 n2 k H. by apply Hl in H.
  - intros tk t H. by rewrite lookup_empty in H.
  - intros w H. by apply elem_of_nil in H.
  - apply NoDup_nil_2.
  - intros n k H. by apply Hl in H.
  - intros w H. by apply elem_of_nil in H.
  - apply NoDup_nil_2.
Qed.

(** ** [LI] under the primitive updates *)

Lemma listedS_insert S sid l c :
  listedS (<[sid := l]> S) c ↔ c ∈ l ∨ ∃ sid' l', sid' ≠ sid ∧ S !! sid' = Some l' ∧ c ∈ l'.
Proof.
  unfold listedS. split.
  - intros (sid' & l' & Hs & Hc). destruct (decide (sid' = sid)) as [->|].
    + rewrite lookup_insert in Hs. simplify_eq. auto.
    + rewrite lookup_insert_ne in Hs by done. right. eauto 6.
  - intros [Hc|(sid' & l' & ? & ? & ?)].
    + exists sid, l. by rewrite lookup_insert.
    + exists sid', l'. by rewrite lookup_insert_ne.
Qed.

(** anything that only removes entries (and saves, or leaves every session's holds as they were) *)
Lemma LI_mono cfg S S' F F' W W' U U' :
  (∀ sid l', S' !! sid = Some l' → NoDup l' ∧ ∀ c, c ∈ l' → ∃ l, S !! sid = Some l ∧ c ∈ l) →
  (c_file cfg = true → F' = Some S' ∨ (F' = F ∧ ∀ sid, default [] (S' !! sid) = default [] (S !! sid))) →
  (∀ w, w ∈ W' → w ∈ W) → (∀ k, k ∈ U → k ∈ U') →
  LI cfg S F W U → LI cfg S' F' W' U'.
Proof.
  intros Hsub HF HW HU HI.
  assert (∀ c, listedS S' c → listedS S c) as Hl.
  { intros c (sid & l' & Hs & Hc). destruct (Hsub _ _ Hs) as [_ H]. destruct (H _ Hc) as (l & ? & ?).
    exists sid, l. auto. }
  destruct HI. split.
  - intros sid1 sid2 l1 l2 c H1 H2 Hc1 Hc2.
    destruct (Hsub _ _ H1) as [_ H1']. destruct (H1' _ Hc1) as (? & ? & ?).
    destruct (Hsub _ _ H2) as [_ H2']. destruct (H2' _ Hc2) as (? & ? & ?). eauto.
  - intros sid l' Hs. by destruct (Hsub _ _ Hs).
  - intros Hf sid. destruct (HF Hf) as [->|[-> E]]; [done|]. rewrite E. auto.
  - eauto.
  - eauto.
Qed.

Lemma LI_connect cfg S F W U U' sid :
  S !! sid = None → (∀ k, k ∈ U → k ∈ U') → LI cfg S F W U → LI cfg (<[sid := []]> S) F W U'.
Proof.
  intros Hn HU HI. eapply LI_mono; [| |by eauto|done|done].
  - intros sid' l'. destruct (decide (sid' = sid)) as [->|]; rewrite ?lookup_insert, ?lookup_insert_ne by done.
    + intros [= <-]. split; [apply NoDup_nil_2|]. by intros c ?%elem_of_nil.
    + intros Hs. split; [by eapply li_nodup|]. eauto.
  - intros _. right. split; [done|]. intros sid'.
    destruct (decide (sid' = sid)) as [->|]; rewrite ?lookup_insert, ?lookup_insert_ne by done; [|done].
    by rewrite Hn.
Qed.

(** sessionManager.AddLock *)
Lemma LI_grant cfg S S' F F' W U sid c :
  S' = <[sid := default [] (S !! sid) ++ [c]]> S → (c_file cfg = true → F' = Some S') →
  ¬ listedS S c → cl_key c ∈ U → (∀ w, w ∈ W → cl_key c ≠ w_key w) →
  LI cfg S F W U → LI cfg S' F' W U.
Proof.
  intros -> HF Hnl HcU HcW HI.
  assert (∀ c', listedS (<[sid := default [] (S !! sid) ++ [c]]> S) c' ↔ listedS S c' ∨ c' = c) as Hl.
  { intros c'. rewrite listedS_insert, elem_of_app, elem_of_list_singleton. unfold listedS. split.
    - intros [[H|H]|(sid' & l' & ? & ? & ?)]; eauto.
      destruct (S !! sid) as [l|] eqn:E; simpl in H; [eauto|by apply elem_of_nil in H].
    - intros [(sid' & l' & Hs & ?)| ->]; [|auto]. destruct (decide (sid' = sid)) as [->|]; [|right; eauto 6].
      rewrite Hs. simpl. auto. }
  assert (∀ sid' l', sid' ≠ sid → S !! sid' = Some l' → c ∉ l') as Hc1.
  { intros sid' l' _ Hs Hc. apply Hnl. exists sid', l'. auto. }
  assert (∀ c', c' ∈ default [] (S !! sid) → ∃ l, S !! sid = Some l ∧ c' ∈ l) as Hc2.
  { intros c' H. destruct (S !! sid) as [l|] eqn:E; simpl in H; [eauto|by apply elem_of_nil in H]. }
  destruct HI. split.
  - intros sid1 sid2 l1 l2 c'.
    destruct (decide (sid1 = sid)) as [->|N1]; destruct (decide (sid2 = sid)) as [->|N2]; [done|..];
      rewrite ?lookup_insert, ?lookup_insert_ne by done; [| |by eauto].
    + intros [= <-] H2 [H1|H1%elem_of_list_singleton]%elem_of_app Hc; [|subst; by destruct (Hc1 _ _ N2 H2)].
      destruct (Hc2 _ H1) as (l & ? & ?). eauto.
    + intros H1 [= <-] Hc [H2|H2%elem_of_list_singleton]%elem_of_app; [|subst; by destruct (Hc1 _ _ N1 H1)].
      destruct (Hc2 _ H2) as (l & ? & ?). eauto.
  - intros sid' l'. destruct (decide (sid' = sid)) as [->|]; rewrite ?lookup_insert, ?lookup_insert_ne by done; [|eauto].
    intros [= <-]. apply NoDup_app. split_and!; [| |apply NoDup_singleton].
    + destruct (S !! sid) as [l|] eqn:E; simpl; [eauto|apply NoDup_nil_2].
    + intros x Hx Hx2%elem_of_list_singleton; subst x. apply Hnl. destruct (Hc2 _ Hx) as (l & ? & ?). exists sid, l; auto.
  - intros Hf sid'. by rewrite (HF Hf).
  - intros c'. rewrite Hl. intros [?| ->]; eauto.
  - intros c' w. rewrite Hl. intros [?| ->]; eauto.
Qed.

Lemma LI_add_waiter cfg S F W U w :
  (∀ c, listedS S c → cl_key c ≠ w_key w) → LI cfg S F W U → LI cfg S F (W ++ [w]) U.
Proof.
  intros Hw HI. destruct HI. split; auto.
  intros c w' Hc [?|Hx%elem_of_list_singleton]%elem_of_app; subst; eauto.
Qed.

Lemma LI_waiters_sub cfg S F W W' U U' :
  (∀ w, w ∈ W' → w ∈ W) → (∀ k, k ∈ U → k ∈ U') → LI cfg S F W U → LI cfg S F W' U'.
Proof. intros HW HU HI. destruct HI. split; eauto. Qed.

Lemma LI_empty cfg U : LI cfg ∅ None [] U.
Proof.
  assert (∀ c, ¬ listedS ∅ c) as Hl by (intros c (? & ? & H & _); by rewrite lookup_empty in H).
  split.
  - intros ? ? ? ? ? H. by rewrite lookup_empty in H.
  - intros ? ? H. by rewrite lookup_empty in H.
  - done.
  - intros c H. by apply Hl in H.
  - intros c w H. by apply Hl in H.
Qed.

(** server.New reloads the session table from the state file *)
Lemma LI_restart cfg S F W U :
  LI cfg S F W U →
  LI cfg (if c_file cfg then default ∅ F else ∅) (if c_file cfg then F else None) [] U.
Proof.
  intros HI. destruct (c_file cfg) eqn:Hf; [|apply LI_empty].
  pose proof (li_file _ _ _ _ _ HI Hf) as HF.
  assert (∀ sid l' c, default ∅ F !! sid = Some l' → c ∈ l' → S !! sid = Some l') as Hs.
  { intros sid l' c Hm Hc. specialize (HF sid). rewrite Hm in HF. simpl in HF.
    destruct (S !! sid) as [l|]; simpl in HF; subst; [done|by apply elem_of_nil in Hc]. }
  eapply LI_mono; [| |by intros ? ?%elem_of_nil|done|done].
  - intros sid l' Hm. split; [|by eauto].
    destruct l' as [|c l']; [apply NoDup_nil_2|]. eapply li_nodup; [done|]. eapply (Hs _ _ c); [done|left].
  - intros _. right. split; [done|]. intros sid. by rewrite HF.
Qed.

(** ** [TM] *)

Lemma TM_mono (P Q : Z → Prop) T W : (∀ d, P d → Q d) → TM P T W → TM Q T W.
Proof. intros H [H1 H2]. split; eauto. Qed.

Lemma TM_timer_insert (P : Z → Prop) T W tk t : P (tm_deadline t) → TM P T W → TM P (<[tk := t]> T) W.
Proof.
  intros Hp [H1 H2]. split; [|done]. intros tk' t'.
  destruct (decide (tk' = tk)) as [->|]; rewrite ?lookup_insert, ?lookup_insert_ne by done; [|eauto]. by intros [= <-].
Qed.

Lemma TM_timer_delete (P : Z → Prop) T W tk : TM P T W → TM P (delete tk T) W.
Proof. intros [H1 H2]. split; [|done]. intros tk' t' [_ ?]%lookup_delete_Some. eauto. Qed.

Lemma TM_timers_empty (P : Z → Prop) T W : TM P T W → TM P ∅ W.
Proof. intros [H1 H2]. split; [|done]. intros tk t H. by rewrite lookup_empty in H. Qed.

Lemma TM_waiters_sub (P : Z → Prop) T W W' : (∀ w, w ∈ W' → w ∈ W) → TM P T W → TM P T W'.
Proof. intros H [H1 H2]. split; eauto. Qed.

Lemma TM_add_waiter (P : Z → Prop) T W w :
  (∀ d, w_deadline w = Some d → P d) → TM P T W → TM P T (W ++ [w]).
Proof.
  intros H [H1 H2]. split; [done|].
  intros w' d [?|Hx%elem_of_list_singleton]%elem_of_app; subst; eauto.
Qed.
