(** ERestart against the oracle (work package trackp). *)
From Coq Require Import Lia ZifyBool ZifyNat String.
From Ldlm Require Import Model.Base Model.Err Model.Seq Model.Track Proofs.SeqDefs Proofs.SeqLemmasKey Proofs.SeqTargets Proofs.SeqInvBase
  Proofs.SeqInvOps Proofs.SeqInvTime Proofs.SeqInv Proofs.SeqTimeBase Proofs.SeqTime1 Proofs.SeqTime2 Proofs.SeqTime3 Proofs.SeqTime4
  Proofs.TrackPBase Proofs.TrackPOrder Proofs.TrackPRel Proofs.TrackPStep Proofs.TrackPTR Proofs.TrackPProbe.
From RecordUpdate Require Import RecordSet.
Import RecordSetNotations.
Local Open Scope Z_scope.

Lemma restore_one_waiters cfg sid c s : st_waiters (restore_one cfg sid c s) = st_waiters s.
Proof.
  unfold restore_one. destruct (get_lock_create _ _ _) as [e|[o s1]] eqn:Hg.
  - apply rle_waiters.
  - apply glc_shape in Hg as (_ & _ & -> & _). destruct (can_acquire _ _ _).
    + unfold add_key. cbn [st_locks set]. rewrite lookup_insert. done.
    + by rewrite rle_waiters.
Qed.

Lemma restore_one_used cfg sid c s : st_used (restore_one cfg sid c s) = st_used s.
Proof.
  unfold restore_one. destruct (get_lock_create _ _ _) as [e|[o s1]] eqn:Hg.
  - apply rle_used.
  - apply glc_shape in Hg as (_ & _ & -> & _). destruct (can_acquire _ _ _).
    + unfold add_key. cbn [st_locks set]. rewrite lookup_insert. done.
    + by rewrite rle_used.
Qed.

Lemma restore_fold_waiters cfg l : ∀ s, st_waiters (fold_left (rstep cfg) l s) = st_waiters s ∧
                                        st_now (fold_left (rstep cfg) l s) = st_now s ∧
                                        st_used (fold_left (rstep cfg) l s) = st_used s.
Proof.
  induction l as [|p l IH]; intros s; [done|]. simpl. destruct (IH (rstep cfg s p)) as (-> & -> & ->). unfold rstep.
  rewrite restore_one_waiters, restore_one_used. by destruct (restore_one_clock cfg p.1 p.2 s) as [-> _].
Qed.

Lemma advance_loop_used cfg target fuel s outs s' o :
  (measure s < fuel)%nat → (s', o) ∈ advance_loop cfg fuel target s outs → st_used s' = st_used s.
Proof.
  intros Hm Hin.
  eapply (advance_loop_inv cfg target (λ s1 _, st_used s1 = st_used s)) in Hin as (sf & Hu & _ & ->); [|clear s' o Hin|done|done].
  - unfold finish_advance. simpl. by rewrite gc_used.
  - intros s1 outs1 d s2 o2 Hu Hd Hf. rewrite <- Hu. destruct d as [tk tm|w]; simpl in Hf.
    + unfold expire in Hf. destruct (mgr_unlock _ _ _ _) as [[s3 r] o3] eqn:Hmu. injection Hf as <- <-.
      apply mgr_unlock_spec in Hmu as (x & _ & _ & _ & _ & Hus & _). simpl. rewrite rle_used, Hus. unfold tick. simpl. by rewrite gc_used.
    + injection Hf as <- <-. simpl. by rewrite gc_used.
Qed.

(** with no parked call the loop produces no output, parks nothing and ends at the target *)
Lemma nowaiters_loop' cfg target fuel s outs s' o :
  (measure s < fuel)%nat → st_waiters s = [] → st_now s ≤ target →
  (s', o) ∈ advance_loop cfg fuel target s outs → o = outs ∧ st_now s' = target ∧ st_waiters s' = [].
Proof.
  intros Hm Hw Hnow Hin.
  eapply (advance_loop_inv cfg target (λ s o, st_waiters s = [] ∧ o = outs ∧ st_now s ≤ target))
    in Hin as (sf & (Hwf & -> & Hn) & _ & ->); [|clear dependent s|done|done].
  - split; [done|]. rewrite fin_now, fin_waiters. split; [lia|done].
  - intros s outs' d s2 o2 (Hw & -> & Hn) Hd Hf.
    destruct (round_cases _ _ _ _ _ _ Hd Hf) as (Hle & _ & Hnow & [(w0 & _ & Hw0 & _)|(tk0 & tm & x & _ & _ & Hs & _)]).
    + rewrite Hw in Hw0. by apply elem_of_nil in Hw0.
    + destruct x as [w|].
      * destruct (unlock_shape_granted _ _ _ _ _ _ _ _ w Hs eq_refl) as [Hin _]. rewrite Hw in Hin. by apply elem_of_nil in Hin.
      * destruct Hs as (_ & -> & Hw2 & _). rewrite app_nil_r. split; [by rewrite Hw2|]. split; [done|]. lia.
Qed.

Lemma restart_loop_facts (cfg : config) (m : gmap str (list clock)) (F : option (gmap str (list clock))) (now g : Z)
    (used ro : list str) (s' : sstate) (o : list out) :
  let s0 := SState ∅ m ∅ [] F now g false used in
  let s1 := fold_left (rstep cfg) (todo_list m ro) s0 in
  (s', o) ∈ advance_loop cfg (advance_fuel s1) (st_now s1) s1 [] →
  o = [] ∧ st_now s' = now ∧ st_waiters s' = [] ∧ st_waiters s1 = [] ∧ st_used s' = used.
Proof.
  intros s0 s1 H. destruct (restore_fold_waiters cfg (todo_list m ro) s0) as (Hw1 & Hn1 & Hu1). fold s1 in Hw1, Hn1, Hu1. simpl in Hw1, Hn1, Hu1.
  pose proof (advance_loop_used _ _ _ _ _ _ _ (advance_fuel_measure s1) H) as Hu.
  apply nowaiters_loop' in H as (-> & Hn & Hw); [|apply advance_fuel_measure|done|done].
  split; [done|]. split; [congruence|]. split; [done|]. split; [done|]. congruence.
Qed.

Lemma restart_facts cfg s order s' o : Inv cfg s → (s', o) ∈ restart cfg order s →
  o = [] ∧ st_now s' = st_now s ∧ st_waiters s' = [] ∧ st_used s' = st_used s ∧
  (c_file cfg = true → 0 < c_default_lt cfg → st_sessions s' = default ∅ (st_file s)).
Proof.
  intros HI H. unfold restart in H. cbv zeta in H. rewrite restore_fold_flat in H.
  destruct (c_file cfg) eqn:Hfile.
  2:{ apply restart_loop_facts in H as (? & ? & ? & _ & ?). split_and!; try done. }
  pose proof (restart_loop_facts _ _ _ _ _ _ _ _ _ H) as (-> & Hn & Hw & Hw1 & Hu).
  split; [done|]. split; [done|]. split; [done|]. split; [done|]. intros _ Hpos.
  set (m := default ∅ (st_file s)) in *.
  set (todo := todo_list m (reload_order order m)) in *.
  set (s0 := SState ∅ m ∅ [] (st_file s) (st_now s) (st_now s + c_gc_interval cfg) false (st_used s)) in *.
  set (s1 := fold_left (rstep cfg) todo s0) in *.
  assert (∀ sid, default [] (m !! sid) = default [] (st_sessions s !! sid)) as Hfe by (by apply (inv_file_eq _ _ HI)).
  assert (∀ sid c, (sid, c) ∈ todo ↔ listed s sid c) as Htodo.
  { intros sid c. unfold todo. rewrite todo_list_elem, reload_order_elem. unfold listed. split.
    - intros [_ Hc]. rewrite Hfe in Hc. destruct (st_sessions s !! sid) as [l|]; [eauto|by apply elem_of_nil in Hc].
    - intros (l & Hl & Hc). assert (c ∈ default [] (m !! sid)) as Hc' by (by rewrite Hfe, Hl).
      split; [|done]. destruct (m !! sid); [done|by apply elem_of_nil in Hc']. }
  assert (NoDup (map snd todo)) as Hnd.
  { apply todo_list_NoDup; [apply reload_order_NoDup| |].
    - intros sid. rewrite Hfe. destruct (st_sessions s !! sid) as [l|] eqn:Hl; [by eapply inv_nodup|constructor].
    - intros sid1 sid2 c. rewrite !Hfe. intros H1 H2.
      destruct (st_sessions s !! sid1) as [l1|] eqn:Hl1; [|by apply elem_of_nil in H1].
      destruct (st_sessions s !! sid2) as [l2|] eqn:Hl2; [|by apply elem_of_nil in H2].
      eapply (inv_owner _ _ HI); eauto. }
  assert (∀ q, q ∈ todo → in_table s q.2) as Htab.
  { intros [sid c] Hq. eapply inv_listed_table; [done|]. by apply Htodo. }
  assert (RI cfg s m (st_now s) (st_now s + c_gc_interval cfg) todo s1) as HRI.
  { apply (RI_fold cfg s m _ _ (inv_cap _ _ HI) todo [] s0); [|done|done].
    unfold RI, s0; cbn. split_and!; try done.
    all: try (intros ? ?; by rewrite lookup_empty).
    intros p ?%elem_of_nil; done. }
  destruct HRI as (_ & Hnow1 & Hse & _ & _ & _ & Htim).
  unfold advance_fuel in H. rewrite Nat.add_1_r in H.
  apply advance_loop_elem in H as [[_ [= ->]]|(d & s2 & o2 & Hd & _)].
  - by rewrite fin_sessions.
  - exfalso. apply next_due_elem in Hd as (Hin & Hle & _).
    apply all_items_spec in Hin as [(tk & t & -> & Ht)|(w & _ & Hin & _)]; [|rewrite Hw1 in Hin; by apply elem_of_nil in Hin].
    destruct (Htim _ _ Ht) as (p & _ & _ & ->). cbn in Hle. lia.
Qed.

Lemma track_restart_ok X cfg i order s s' o t :
  cfg_ok cfg → Inv cfg s → TR X cfg s t → (s', o) ∈ restart cfg order s →
  TR X cfg s' (track_step0 cfg i (ERestart order) o t).
Proof.
  intros Hcfg HI HT Hin. destruct (restart_facts _ _ _ _ _ HI Hin) as (-> & Hnow & Hw & Hused & Hsess).
  pose proof (tr_holds _ _ _ _ HT) as HH. destruct (inv_views _ _ HI) as [Hv _]. simpl.
  split; simpl.
  - rewrite Hnow. apply (tr_now _ _ _ _ HT).
  - apply (tr_pending _ _ _ _ HT).
  - destruct (c_file cfg) eqn:Hfile.
    2:{ destruct (C10_nofile cfg s order s' [] Hcfg Hfile Hin) as (EL & ES & ET & _). rewrite EL. simpl.
        split; try done; try (by intros ? ?%elem_of_nil); try (by intros ? ? ?%elem_of_nil); [constructor|].
        intros c (ob & Hob & _). by rewrite lookup_empty in Hob. }
    destruct (restart_spec cfg s order s' [] HI Hfile Hin) as (_ & _ & Hback & Hpos & Hneg).
    fold (ef (t_now t) (map (λ h, h <| h_deadline := Some (t_now t + c_default_lt cfg) |>) (t_holds t))).
    destruct (Z.ltb_spec 0 (c_default_lt cfg)) as [Hp|Hn].
    + (* every hold is kept, with the default lease *)
      specialize (Hpos Hp). specialize (Hsess eq_refl Hp).
      rewrite (lfilter_all (alive (t_now t))).
      2:{ intros h' (h & <- & Hh)%elem_of_list_In%in_map_iff. unfold alive. simpl. lia. }
      rewrite list_map_fmap.
      assert (∀ h, h ∈ t_holds t → hold_clock h ∈ listing s) as Hlst.
      { intros h Hh. apply Hv. by apply (hr_tab _ _ _ _ _ _ HH). }
      split.
      * rewrite <- list_fmap_compose. apply (hr_nodup _ _ _ _ _ _ HH).
      * intros h' (h & -> & Hh)%elem_of_list_fmap. split; [|apply not_elem_of_nil].
        destruct (Hpos _ (Hlst h Hh)) as (Hit & _). exact Hit.
      * intros c Hc. right. apply Hback, Hv in Hc.
        destruct (hr_all _ _ _ _ _ _ HH c Hc) as [[]%elem_of_nil|(h & Hh & <-)].
        eexists. split; [apply elem_of_list_fmap; eauto|done].
      * intros h' (h & -> & Hh)%elem_of_list_fmap. simpl. rewrite Hsess.
        destruct (hr_sid _ _ _ _ _ _ HH h Hh) as (l & Hl & Hc).
        pose proof (inv_file_eq _ _ HI Hfile (h_sid h)) as Hfe. rewrite Hl in Hfe. simpl in Hfe.
        destruct (default ∅ (st_file s) !! h_sid h) as [l'|]; simpl in Hfe; subst; [eauto|by apply elem_of_nil in Hc].
      * intros _ h' (h & -> & Hh)%elem_of_list_fmap. simpl.
        destruct (Hpos _ (Hlst h Hh)) as (_ & _ & sid & _ & Ht). simpl in Ht. unfold tdl. rewrite Ht. simpl.
        by rewrite (tr_now _ _ _ _ HT).
      * by intros ? ? ?%elem_of_nil.
    + (* the default lease is not positive: every hold ends at once *)
      rewrite (lfilter_none (alive (t_now t))).
      2:{ intros h' (h & <- & Hh)%elem_of_list_In%in_map_iff. unfold alive. simpl. lia. }
      split; try done; try (by intros ? ?%elem_of_nil); try (by intros ? ? ?%elem_of_nil); [constructor|].
      intros c Hc. by apply (Hneg Hn) in Hc.
  - rewrite Hw. constructor.
  - destruct (tr_keys _ _ _ _ HT) as (K1 & K2 & _). unfold KI. simpl. rewrite Hused, Hw. split_and!; [done|done|by intros w ?%elem_of_nil].
  - apply (tr_fail _ _ _ _ HT).
Qed.
