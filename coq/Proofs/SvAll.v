(** Msv (Model/Sv.v): every target statement of Proofs/SvDefs.v, CLOSED (no [T_svinv_reach →] premise: instantiated with
    [SvInv.svinv_reach]), one theorem per target, each followed by [Print Assumptions] ("Closed under the global context").
    Work package svfix. The property files Properties/C05.v, C06.v, C09.v, C11.v are generated from this file.

    Final names (all of type [T_<name>] of SvDefs.v unless a statement is written out):

      invariant   svinv_reach
      C05         C05_unlock_truth  C05_expiry_frees  C05_renew_truth  C05_final
      C06         C06_release_all   C06_once  C06_frame  C06_noclear  C06_noclear_listed  C06_no_crash
                  C06_leak_refuted                   (witness of the recorded finding F-LEAK; [T_C06_leak_refuted])
                  C06_release_all_premises           (Example: the premises of C06_release_all are satisfiable, hold released)
                  C06_noclear_race_closed            (Example: the schedule of the repaired F-NOCLEAR-RACE keeps the entry)
                  C06_one_connend_goroutine          (Example: a shutdown racing a disconnect starts no second DestroySession)
                  C06_frame_iff_refuted              (the first, too strong version of C06_frame: hand-off to a waiter)
      C09         C09_acked_live  C09_acked_ended  C09_live_bound
                  C09_over_refuted                   (witness of the recorded finding F-OVER; [T_C09_over_refuted])
                  C09_zombies_in_flight  C09_image_live_or_in_flight          (statements written out below)
      C11         C11_flag_first  C11_net_after_flag  C11_waiters_fail  C11_no_hang
                  C11_keeps_holds  C11_shut_monotone  C11_flag_stays  C11_net_stop_goroutines   (statements written out below)
                  C11_premises_satisfiable           (Example: a parked call while the closer waits for it)
                  C11_late_call_excluded             (Example: a call after the network stop is not a meaningful item)

    Nothing here is qualified by a primed / weakened statement: every [T_xxx] of SvDefs.v is proved as stated there. *)
From Ldlm Require Import Model.Base Model.Err Model.Sv Proofs.SvDefs.
From Ldlm Require Proofs.SvInv Proofs.SvSess Proofs.SvFile.
Local Open Scope Z_scope.

(** ** the invariant *)
Theorem svinv_reach : T_svinv_reach.
Proof. exact SvInv.svinv_reach. Qed.
Print Assumptions svinv_reach.

(** ** C05 *)
Theorem C05_unlock_truth : T_C05_unlock_truth.
Proof. exact SvInv.C05_unlock_truth. Qed.
Print Assumptions C05_unlock_truth.
Theorem C05_expiry_frees : T_C05_expiry_frees.
Proof. exact SvInv.C05_expiry_frees. Qed.
Print Assumptions C05_expiry_frees.
Theorem C05_renew_truth : T_C05_renew_truth.
Proof. exact SvInv.C05_renew_truth. Qed.
Print Assumptions C05_renew_truth.
Theorem C05_final : T_C05_final.
Proof. exact SvInv.C05_final. Qed.
Print Assumptions C05_final.

(** ** C06 *)
Theorem C06_release_all : T_C06_release_all.
Proof. exact (SvSess.C06_release_all_from_inv SvInv.svinv_reach). Qed.
Print Assumptions C06_release_all.
Theorem C06_once : T_C06_once.
Proof. exact (SvSessDs.C06_once_from_inv SvInv.svinv_reach). Qed.
Print Assumptions C06_once.
Theorem C06_frame : T_C06_frame.
Proof. exact (SvSessFrame.C06_frame_from_inv SvInv.svinv_reach). Qed.
Print Assumptions C06_frame.
Theorem C06_noclear : T_C06_noclear.
Proof. exact (SvSessNc.C06_noclear_from_inv SvInv.svinv_reach). Qed.
Print Assumptions C06_noclear.
Theorem C06_noclear_listed : T_C06_noclear_listed.
Proof. exact (SvFile.C06_noclear_listed_from_inv SvInv.svinv_reach). Qed.
Print Assumptions C06_noclear_listed.
Theorem C06_no_crash : T_C06_no_crash.
Proof. exact SvInv.C06_no_crash. Qed.
Print Assumptions C06_no_crash.
Theorem C06_leak_refuted : T_C06_leak_refuted.
Proof. exact SvSessWit.C06_leak_refuted. Qed.
Print Assumptions C06_leak_refuted.
Definition C06_release_all_premises := SvSess.C06_release_all_premises.
Print Assumptions C06_release_all_premises.
Definition C06_noclear_race_closed := SvSessWit.C06_noclear_race_closed.
Print Assumptions C06_noclear_race_closed.
Definition C06_one_connend_goroutine := SvSess.C06_one_connend_goroutine.
Print Assumptions C06_one_connend_goroutine.
Definition C06_frame_iff_refuted := SvSessFrame.C06_frame_iff_refuted.
Print Assumptions C06_frame_iff_refuted.

(** ** C09 *)
Theorem C09_acked_live : T_C09_acked_live.
Proof. exact (SvFile.C09_acked_live_from_inv SvInv.svinv_reach). Qed.
Print Assumptions C09_acked_live.
Theorem C09_acked_ended : T_C09_acked_ended.
Proof. exact (SvFile.C09_acked_ended_from_inv SvInv.svinv_reach). Qed.
Print Assumptions C09_acked_ended.
Theorem C09_live_bound : T_C09_live_bound.
Proof. exact (SvFile.C09_live_bound_from_inv SvInv.svinv_reach). Qed.
Print Assumptions C09_live_bound.
Theorem C09_over_refuted : T_C09_over_refuted.
Proof. exact SvFileRun.C09_over_refuted. Qed.
Print Assumptions C09_over_refuted.
(** what the image lists beyond the live holds are operations in flight at the kill (the window of F-OVER, exactly) *)
Theorem C09_zombies_in_flight : ∀ cfg s sid c,
  vreach cfg s → entry_of s sid c → ¬ slive s (cl_name c) (cl_key c) → SvFile.ending_in_flight s (cl_name c) (cl_key c).
Proof. exact (SvFile.C09_zombies_in_flight_from_inv SvInv.svinv_reach). Qed.
Print Assumptions C09_zombies_in_flight.
Theorem C09_image_live_or_in_flight : ∀ cfg s m sid l c,
  vreach cfg s → v_file s = Some m → m !! sid = Some l → c ∈ l →
  slive s (cl_name c) (cl_key c) ∨ SvFile.ending_in_flight s (cl_name c) (cl_key c).
Proof. exact (SvFile.C09_image_live_or_in_flight_from_inv SvInv.svinv_reach). Qed.
Print Assumptions C09_image_live_or_in_flight.

(** ** C11 *)
Theorem C11_flag_first : T_C11_flag_first.
Proof. exact SvFile.C11_flag_first. Qed.
Print Assumptions C11_flag_first.
Theorem C11_net_after_flag : T_C11_net_after_flag.
Proof. exact (SvFile.C11_net_after_flag_from_inv SvInv.svinv_reach). Qed.
Print Assumptions C11_net_after_flag.
Theorem C11_waiters_fail : T_C11_waiters_fail.
Proof. exact (SvFile.C11_waiters_fail_from_inv SvInv.svinv_reach). Qed.
Print Assumptions C11_waiters_fail.
Theorem C11_no_hang : T_C11_no_hang.
Proof. exact (SvFile.C11_no_hang_from_inv SvInv.svinv_reach). Qed.
Print Assumptions C11_no_hang.
(** a session end delivered once the shutdown flag is set is a single step that changes nothing *)
Theorem C11_keeps_holds : ∀ cfg s tid t sid,
  vreach cfg s → v_thr s !! tid = Some t → st_op t = SConnEnd sid → v_shut s = true → st_pc t = VDsFlag →
  let s' := vstep cfg s (VRun tid) in
  v_locks s' = v_locks s ∧ v_sess s' = v_sess s ∧ v_file s' = v_file s ∧ v_timers s' = v_timers s ∧ v_theap s' = v_theap s ∧
  ∃ t', v_thr s' !! tid = Some t' ∧ st_pc t' = VEnd.
Proof. exact (SvFile.C11_keeps_holds_from_inv SvInv.svinv_reach). Qed.
Print Assumptions C11_keeps_holds.
Theorem C11_shut_monotone : ∀ cfg s it, vreach cfg s → v_shut s = true → v_shut (vstep cfg s it) = true.
Proof. exact (SvFile.C11_shut_monotone_from_inv SvInv.svinv_reach). Qed.
Print Assumptions C11_shut_monotone.
Theorem C11_flag_stays : ∀ cfg s s', vreach cfg s → v_shut s = true → SvFile.vruns cfg s s' → v_shut s' = true.
Proof. exact (SvFile.C11_flag_stays_from_inv SvInv.svinv_reach). Qed.
Print Assumptions C11_flag_stays.
(** the goroutines the network stop starts are session ends that will find the flag set whenever they get to run *)
Theorem C11_net_stop_goroutines : ∀ cfg s tc c,
  vreach cfg s → v_thr s !! tc = Some c → st_op c = SShutdown → st_pc c = VShNet →
  let s1 := vstep cfg s (VRun tc) in
  ∀ tid' t', v_thr s !! tid' = None → v_thr s1 !! tid' = Some t' →
    (∃ sid, t' = SThread (SConnEnd sid) VDsFlag None) ∧
    ∀ s2, SvFile.vruns cfg s1 s2 → vreach cfg s2 ∧ v_shut s2 = true.
Proof. exact (SvFile.C11_net_stop_goroutines_from_inv SvInv.svinv_reach). Qed.
Print Assumptions C11_net_stop_goroutines.
Definition C11_premises_satisfiable := SvFile.C11_premises_satisfiable.
Print Assumptions C11_premises_satisfiable.
Definition C11_late_call_excluded := SvFile.C11_late_call_excluded.
Print Assumptions C11_late_call_excluded.
